(* C10 — proofs about the fungible container model (Model/C10_ProofLock.v). *)
From Coq Require Import List ZArith NArith Bool Lia.
Import ListNotations.
Require Import RV.Model.C10_ProofLock.
Open Scope Z_scope.

(* ---------------------------------------------------------------------------------------- *)
(* max of the locked keys                                                                     *)
(* ---------------------------------------------------------------------------------------- *)
Definition keys (l : list (Z * N)) : list Z := map fst l.
Fixpoint lmax (l : list Z) : Z := match l with [] => 0 | a :: t => Z.max a (lmax t) end.

Lemma lmax_nonneg : forall l, 0 <= lmax l.
Proof. induction l as [|a t IH]; cbn [lmax]; lia. Qed.
Lemma lmax_ge : forall l a, In a l -> a <= lmax l.
Proof. induction l as [|b t IH]; cbn [lmax In]; intros a H; [easy|]. destruct H as [->|H]; [lia|]. specialize (IH _ H). lia. Qed.
Lemma lmax_in : forall l, lmax l = 0 \/ In (lmax l) l.
Proof.
  induction l as [|a t IH]; cbn [lmax In]; [now left|].
  destruct (Z.max_spec a (lmax t)) as [[_ ->]|[_ ->]]; [|now right; left].
  destruct IH as [->|H]; [now left|right; now right].
Qed.
(* lmax only depends on the set of elements *)
Lemma lmax_le_incl : forall l l', (forall a, In a l -> In a l') -> lmax l <= lmax l'.
Proof.
  intros l l' H. destruct (lmax_in l) as [->|Hin]; [apply lmax_nonneg|].
  apply lmax_ge, H, Hin.
Qed.
Lemma lmax_ext : forall l l', (forall a, In a l <-> In a l') -> lmax l = lmax l'.
Proof. intros l l' H. apply Z.le_antisymm; apply lmax_le_incl; intros a; apply H. Qed.

Lemma fmax_from_spec : forall l m, fmax_from m l = Z.max m (fold_right Z.max m (keys l)).
Proof.
  induction l as [|[k n] t IH]; intros m; cbn [fmax_from keys map fold_right fst]; [lia|].
  rewrite IH. fold (keys t).
  assert (G : forall l x y, x <= y -> fold_right Z.max x l <= fold_right Z.max y l).
  { clear. induction l as [|a l IH]; intros x y Hxy; cbn [fold_right]; [lia|]. specialize (IH _ _ Hxy). lia. }
  assert (G2 : forall l x, x <= fold_right Z.max x l).
  { clear. induction l as [|a l IH]; intros x; cbn [fold_right]; [lia|]. specialize (IH x). lia. }
  assert (G3 : forall l x y, fold_right Z.max (Z.max x y) l = Z.max y (fold_right Z.max x l)).
  { clear. induction l as [|a l IH]; intros x y; cbn [fold_right]; [lia|]. rewrite IH. lia. }
  destruct (Z.gtb_spec k m) as [Hgt|Hle].
  - replace k with (Z.max m k) at 1 2 by lia. rewrite G3. pose proof (G2 (keys t) m). lia.
  - pose proof (G2 (keys t) m). lia.
Qed.
Lemma fold_max_lmax : forall l, fold_right Z.max 0 l = lmax l.
Proof. induction l as [|a t IH]; cbn [fold_right lmax]; congruence. Qed.
Lemma fmax_lmax : forall l, fmax l = lmax (keys l).
Proof. intros l. unfold fmax. rewrite fmax_from_spec, fold_max_lmax. pose proof (lmax_nonneg (keys l)). lia. Qed.

(* ---------------------------------------------------------------------------------------- *)
(* the lock table represents the multiset of live proof amounts                              *)
(* ---------------------------------------------------------------------------------------- *)
Definition count (a : Z) (ps : list Z) : nat := count_occ Z.eq_dec ps a.
Definition enc (n : nat) : option N := match n with O => None | S _ => Some (N.of_nat n) end.

Fixpoint remove_one (a : Z) (ps : list Z) : list Z :=
  match ps with [] => [] | b :: t => if Z.eq_dec b a then t else b :: remove_one a t end.

Definition Rep (l : list (Z * N)) (ps : list Z) : Prop :=
  NoDup (keys l) /\ forall a, cnt_find a l = enc (count a ps).

Lemma cnt_find_none_notin : forall l a, cnt_find a l = None <-> ~ In a (keys l).
Proof.
  induction l as [|[k n] t IH]; intros a; cbn [cnt_find keys map In fst]; [tauto|].
  destruct (Z.eqb_spec k a) as [->|Hne]; [split; [discriminate|tauto]|].
  fold (keys t). rewrite IH. tauto.
Qed.
Lemma rep_in_keys : forall l ps a, Rep l ps -> (In a (keys l) <-> In a ps).
Proof.
  intros l ps a [_ H]. specialize (H a).
  destruct (count_occ_In Z.eq_dec ps a) as [H1 H2]. unfold count in H.
  split; intros Hin.
  - destruct (in_dec Z.eq_dec a ps) as [|Hn]; [assumption|].
    apply (count_occ_not_In Z.eq_dec) in Hn. rewrite Hn in H. cbn in H.
    apply cnt_find_none_notin in H. tauto.
  - apply H1 in Hin. destruct (count_occ Z.eq_dec ps a) eqn:E; [lia|]. cbn in H.
    destruct (in_dec Z.eq_dec a (keys l)) as [|Hn]; [assumption|].
    apply cnt_find_none_notin in Hn. congruence.
Qed.
Lemma rep_fmax : forall l ps, Rep l ps -> fmax l = lmax ps.
Proof. intros l ps H. rewrite fmax_lmax. apply lmax_ext. intros a. apply (rep_in_keys _ _ _ H). Qed.
Lemma rep_nil : forall l, Rep l [] -> l = [].
Proof.
  intros [|[k n] t] [_ H]; [reflexivity|]. specialize (H k). cbn in H. rewrite Z.eqb_refl in H. discriminate.
Qed.

Lemma cnt_find_incr : forall l a b,
  cnt_find b (cnt_incr a l) =
  if b =? a then Some (match cnt_find a l with Some n => (n + 1)%N | None => 1%N end) else cnt_find b l.
Proof.
  induction l as [|[k n] t IH]; intros a b; cbn [cnt_incr cnt_find].
  - rewrite (Z.eqb_sym a b). reflexivity.
  - destruct (Z.eqb_spec k a) as [->|Hka]; cbn [cnt_find].
    + destruct (Z.eqb_spec a b) as [->|Hab]; [rewrite Z.eqb_refl; reflexivity|].
      destruct (Z.eqb_spec b a); [congruence|reflexivity].
    + rewrite IH. destruct (Z.eqb_spec k b) as [->|Hkb]; [|reflexivity].
      destruct (Z.eqb_spec b a); [congruence|reflexivity].
Qed.
Lemma keys_incr_in : forall l a b, In b (keys (cnt_incr a l)) <-> b = a \/ In b (keys l).
Proof.
  induction l as [|[k n] t IH]; intros a b; cbn [cnt_incr keys map In fst].
  - intuition.
  - destruct (Z.eqb_spec k a) as [->|Hka]; cbn [keys map In fst]; fold (keys t); fold (keys (cnt_incr a t)).
    + intuition.
    + rewrite IH. intuition.
Qed.
Lemma keys_incr_nodup : forall l a, NoDup (keys l) -> NoDup (keys (cnt_incr a l)).
Proof.
  induction l as [|[k n] t IH]; intros a H; cbn [cnt_incr keys map fst].
  - constructor; [easy|constructor].
  - inversion H as [|? ? Hnin Hnd]; subst.
    destruct (Z.eqb_spec k a) as [->|Hka]; cbn [keys map fst]; fold (keys t) in *; fold (keys (cnt_incr a t)).
    + constructor; assumption.
    + constructor; [|apply IH; assumption]. rewrite keys_incr_in. intros [->|Hin]; tauto.
Qed.

Lemma rep_incr : forall l ps a, Rep l ps -> Rep (cnt_incr a l) (a :: ps).
Proof.
  intros l ps a [Hnd H]. split; [apply keys_incr_nodup, Hnd|].
  intros b. rewrite cnt_find_incr. unfold count. cbn [count_occ].
  destruct (Z.eqb_spec b a) as [->|Hne].
  - destruct (Z.eq_dec a a); [|congruence]. rewrite H. unfold count.
    destruct (count_occ Z.eq_dec ps a) as [|m]; cbn [enc]; [reflexivity|]. f_equal. lia.
  - destruct (Z.eq_dec a b); [congruence|]. apply H.
Qed.

Lemma cnt_find_remove : forall l a b, NoDup (keys l) ->
  cnt_find b (cnt_remove a l) = if b =? a then None else cnt_find b l.
Proof.
  induction l as [|[k n] t IH]; intros a b Hnd; cbn [cnt_remove cnt_find keys map fst] in *.
  - destruct (b =? a); reflexivity.
  - inversion Hnd as [|? ? Hnin Hnd']; subst. fold (keys t) in *.
    destruct (Z.eqb_spec k a) as [->|Hka].
    + destruct (Z.eqb_spec a b) as [->|Hab].
      * rewrite Z.eqb_refl. apply cnt_find_none_notin, Hnin.
      * destruct (Z.eqb_spec b a); [congruence|reflexivity].
    + cbn [cnt_find]. rewrite IH by assumption.
      destruct (Z.eqb_spec k b) as [->|Hkb]; [|reflexivity].
      destruct (Z.eqb_spec b a); [congruence|reflexivity].
Qed.
Lemma keys_remove_in : forall l a b, NoDup (keys l) -> (In b (keys (cnt_remove a l)) <-> b <> a /\ In b (keys l)).
Proof.
  intros l a b Hnd. pose proof (cnt_find_remove l a b Hnd) as H.
  split.
  - intros Hin. destruct (Z.eqb_spec b a) as [->|Hne].
    + apply cnt_find_none_notin in H. tauto.
    + split; [assumption|]. destruct (in_dec Z.eq_dec b (keys l)) as [|Hn]; [assumption|].
      apply cnt_find_none_notin in Hn. rewrite Hn in H. apply cnt_find_none_notin in H. tauto.
  - intros [Hne Hin]. destruct (Z.eqb_spec b a); [congruence|].
    destruct (in_dec Z.eq_dec b (keys (cnt_remove a l))) as [|Hn]; [assumption|].
    apply cnt_find_none_notin in Hn. rewrite Hn in H. symmetry in H. apply cnt_find_none_notin in H. tauto.
Qed.
Lemma keys_remove_nodup : forall l a, NoDup (keys l) -> NoDup (keys (cnt_remove a l)).
Proof.
  induction l as [|[k n] t IH]; intros a H; cbn [cnt_remove keys map fst]; [constructor|].
  inversion H as [|? ? Hnin Hnd]; subst. fold (keys t) in *.
  destruct (Z.eqb_spec k a); [assumption|]. cbn [keys map fst]. fold (keys (cnt_remove a t)).
  constructor; [|apply IH; assumption]. rewrite keys_remove_in by assumption. tauto.
Qed.
Lemma cnt_find_app : forall l1 l2 b, cnt_find b (l1 ++ l2) = match cnt_find b l1 with Some n => Some n | None => cnt_find b l2 end.
Proof. induction l1 as [|[k n] t IH]; intros l2 b; cbn [app cnt_find]; [reflexivity|]. destruct (k =? b); [reflexivity|apply IH]. Qed.

Lemma count_remove_one : forall ps a b,
  count b (remove_one a ps) = if Z.eq_dec b a then pred (count a ps) else count b ps.
Proof.
  unfold count. induction ps as [|c t IH]; intros a b; cbn [remove_one count_occ].
  - destruct (Z.eq_dec b a); reflexivity.
  - destruct (Z.eq_dec c a) as [->|Hca].
    + destruct (Z.eq_dec a a); [|congruence]. destruct (Z.eq_dec b a) as [->|Hba]; [reflexivity|].
      destruct (Z.eq_dec a b); [congruence|reflexivity].
    + cbn [count_occ]. rewrite IH. destruct (Z.eq_dec b a) as [->|Hba].
      * destruct (Z.eq_dec c a); [congruence|reflexivity].
      * reflexivity.
Qed.

(* the table after the decrement performed by unlock_amount *)
Definition unlock_table (a : Z) (l : list (Z * N)) (cnt : N) : list (Z * N) :=
  let l1 := cnt_remove a l in if (1 <? cnt)%N then l1 ++ [(a, (cnt - 1)%N)] else l1.

Lemma nodup_snoc : forall (l : list Z) a, NoDup l -> ~ In a l -> NoDup (l ++ [a]).
Proof.
  induction l as [|b t IH]; intros a Hnd Hn; cbn [app]; [constructor; [easy|constructor]|].
  inversion Hnd as [|? ? Hb Ht]; subst. constructor.
  - rewrite in_app_iff. cbn [In]. intros [H|[H|[]]]; [tauto|]. subst. apply Hn. now left.
  - apply IH; [assumption|]. intros H. apply Hn. now right.
Qed.
Lemma rep_unlock : forall l ps a cnt, Rep l ps -> cnt_find a l = Some cnt ->
  Rep (unlock_table a l cnt) (remove_one a ps).
Proof.
  intros l ps a cnt [Hnd H] Hf. unfold unlock_table. cbv zeta.
  pose proof (H a) as Ha. rewrite Hf in Ha.
  destruct (count a ps) as [|m] eqn:Ec; cbn [enc] in Ha; [discriminate|].
  assert (Hc : cnt = N.of_nat (S m)) by congruence. clear Ha.
  split.
  - destruct (N.ltb_spec 1 cnt) as [Hlt|Hle]; [|apply keys_remove_nodup, Hnd].
    unfold keys. rewrite map_app. cbn [map fst]. fold (keys (cnt_remove a l)).
    apply nodup_snoc; [apply keys_remove_nodup, Hnd|].
    rewrite keys_remove_in by assumption. tauto.
  - intros b. rewrite count_remove_one.
    destruct (N.ltb_spec 1 cnt) as [Hlt|Hle].
    + rewrite cnt_find_app, cnt_find_remove by assumption. cbn [cnt_find].
      destruct (Z.eqb_spec b a) as [->|Hne].
      * rewrite Z.eqb_refl. destruct (Z.eq_dec a a); [|congruence]. rewrite Ec. cbn [pred].
        destruct m as [|m']; [lia|]. cbn [enc]. f_equal. lia.
      * destruct (Z.eq_dec b a); [congruence|]. rewrite H.
        destruct (enc (count b ps)); [reflexivity|]. destruct (Z.eqb_spec a b); [congruence|reflexivity].
    + rewrite cnt_find_remove by assumption.
      destruct (Z.eqb_spec b a) as [->|Hne].
      * destruct (Z.eq_dec a a); [|congruence]. rewrite Ec. cbn [pred]. destruct m; [reflexivity|lia].
      * destruct (Z.eq_dec b a); [congruence|]. apply H.
Qed.

(* ---------------------------------------------------------------------------------------- *)
(* container invariant                                                                        *)
(* ---------------------------------------------------------------------------------------- *)
Definition total (c : fcont) : Z := fliq c + fmax (flocked c).

(* Good c ps: the lock table represents the live proofs `ps`, the liquid part is non-negative and
   the whole amount fits a Decimal *)
Definition Good (c : fcont) (ps : list Z) : Prop :=
  Rep (flocked c) ps /\ 0 <= fliq c /\ fliq c + lmax ps <= DEC_MAX.

Lemma DEC_bounds : DEC_MIN < 0 /\ 0 < DEC_MAX.
Proof. unfold DEC_MIN, DEC_MAX. split; lia. Qed.
Lemma dec_ok_true : forall x, DEC_MIN <= x <= DEC_MAX -> dec_ok x = true.
Proof. intros x H. unfold dec_ok. apply andb_true_intro. split; apply Z.leb_le; lia. Qed.

Lemma good_total : forall c ps, Good c ps -> total c = fliq c + lmax ps.
Proof. intros c ps [H _]. unfold total. now rewrite (rep_fmax _ _ H). Qed.

Lemma lmax_remove_one_le : forall ps a, lmax (remove_one a ps) <= lmax ps.
Proof.
  intros ps a. apply lmax_le_incl. intros b. revert b.
  induction ps as [|c t IH]; intros b; cbn [remove_one In]; [easy|].
  destruct (Z.eq_dec c a); [tauto|]. cbn [In]. intros [->|H]; [now left|right; apply IH, H].
Qed.

(* lock_amount: total unchanged, invariant kept with the new proof *)
Lemma lock_good : forall c ps a c', Good c ps -> f_lock a c = Ok c' ->
  Good c' (a :: ps) /\ total c' = total c.
Proof.
  intros c ps a c' HG Hl. pose proof (good_total _ _ HG) as Ht. destruct HG as (HR & Hliq & Hmax).
  unfold f_lock in Hl. rewrite (rep_fmax _ _ HR) in Hl.
  pose proof (lmax_nonneg ps) as Hnn.
  assert (HR' : Rep (cnt_incr a (flocked c)) (a :: ps)) by (apply rep_incr, HR).
  destruct (Z.gtb_spec a (lmax ps)) as [Hgt|Hle].
  - unfold dsub in Hl. destruct (dec_ok (a - lmax ps)); [|discriminate].
    unfold liq_take in Hl. destruct (Z.ltb_spec (fliq c) (a - lmax ps)) as [|Hge]; [discriminate|].
    unfold dsub in Hl. destruct (dec_ok (fliq c - (a - lmax ps))); [|discriminate].
    cbn [bind] in Hl. injection Hl as <-.
    assert (Hg : Good {| fliq := fliq c - (a - lmax ps); flocked := cnt_incr a (flocked c) |} (a :: ps)).
    { repeat split; cbn [fliq flocked]; try apply HR'; cbn [lmax]; lia. }
    split; [exact Hg|]. rewrite (good_total _ _ Hg), Ht. cbn [fliq lmax]. lia.
  - cbn [bind] in Hl. injection Hl as <-.
    assert (Hg : Good {| fliq := fliq c; flocked := cnt_incr a (flocked c) |} (a :: ps)).
    { repeat split; cbn [fliq flocked]; try apply HR'; cbn [lmax]; lia. }
    split; [exact Hg|]. rewrite (good_total _ _ Hg), Ht. cbn [fliq lmax]. lia.
Qed.

(* unlock_amount called for a live proof: never panics, never overflows, total unchanged *)
Lemma unlock_good : forall c ps a, Good c ps -> In a ps ->
  exists c', f_unlock a c = Ok c' /\ Good c' (remove_one a ps) /\ total c' = total c.
Proof.
  intros c ps a HG Hin. pose proof (good_total _ _ HG) as Ht. destruct HG as (HR & Hliq & Hmax).
  pose proof DEC_bounds as [Hmin Hmx].
  unfold f_unlock. rewrite (rep_fmax _ _ HR).
  destruct HR as [Hnd HRf]. pose proof (HRf a) as Ha.
  destruct (count_occ_In Z.eq_dec ps a) as [Hc _]. specialize (Hc Hin). unfold count in Ha.
  destruct (count_occ Z.eq_dec ps a) as [|m] eqn:Ec; [lia|]. cbn [enc] in Ha. rewrite Ha.
  assert (HR' : Rep (unlock_table a (flocked c) (N.of_nat (S m))) (remove_one a ps)).
  { apply rep_unlock; [split; assumption|exact Ha]. }
  unfold unlock_table in HR'. cbv zeta in HR'.
  set (l2 := if (1 <? N.of_nat (S m))%N then cnt_remove a (flocked c) ++ [(a, (N.of_nat (S m) - 1)%N)] else cnt_remove a (flocked c)) in *.
  rewrite (rep_fmax _ _ HR').
  pose proof (lmax_remove_one_le ps a) as Hle. pose proof (lmax_nonneg (remove_one a ps)) as Hnn.
  unfold dsub. rewrite dec_ok_true by lia.
  unfold f_internal_put. cbn [fliq flocked].
  destruct (Z.eqb_spec (lmax ps - lmax (remove_one a ps)) 0) as [Hz|Hnz].
  - eexists. split; [reflexivity|].
    assert (Hg : Good {| fliq := fliq c; flocked := l2 |} (remove_one a ps)).
    { repeat split; cbn [fliq flocked]; try apply HR'; lia. }
    split; [exact Hg|]. rewrite (good_total _ _ Hg), Ht. cbn [fliq]. lia.
  - unfold liq_put, dadd. rewrite dec_ok_true by lia. cbn [bind].
    eexists. split; [reflexivity|].
    assert (Hg : Good {| fliq := fliq c + (lmax ps - lmax (remove_one a ps)); flocked := l2 |} (remove_one a ps)).
    { repeat split; cbn [fliq flocked]; try apply HR'; lia. }
    split; [exact Hg|]. rewrite (good_total _ _ Hg), Ht. cbn [fliq]. lia.
Qed.

(* withdraw / burn / recall of x succeed exactly when x is a valid amount within total - max proof *)
Lemma take_iff : forall c ps div x, Good c ps ->
  ((exists c', f_take div x c = Ok (c', x)) <-> check_fungible_amount div x = true /\ x <= total c - lmax ps).
Proof.
  intros c ps div x HG. pose proof (good_total _ _ HG) as Ht. destruct HG as (HR & Hliq & Hmax).
  pose proof DEC_bounds as [Hmin Hmx]. pose proof (lmax_nonneg ps) as Hnn.
  unfold f_take. destruct (check_fungible_amount div x) eqn:Ek; cbn [negb].
  - assert (Hx : 0 <= x) by (unfold check_fungible_amount in Ek; apply andb_prop in Ek; destruct Ek as [E _]; apply Z.leb_le in E; exact E).
    unfold liq_take. destruct (Z.ltb_spec (fliq c) x) as [Hlt|Hge]; cbn [bind].
    + split; [intros [c' H]; discriminate|intros [_ H]; lia].
    + unfold dsub. rewrite dec_ok_true by lia. cbn [bind]. split; [intros _; split; [reflexivity|lia]|intros _; eexists; reflexivity].
  - split; [intros [c' H]; discriminate|intros [H _]; discriminate].
Qed.
Lemma take_good : forall c ps div x c' y, Good c ps -> f_take div x c = Ok (c', y) ->
  y = x /\ Good c' ps /\ total c' = total c - x /\ 0 <= x /\ x mod unit_of div = 0.
Proof.
  intros c ps div x c' y HG Hk. pose proof (good_total _ _ HG) as Ht. destruct HG as (HR & Hliq & Hmax).
  unfold f_take in Hk. destruct (check_fungible_amount div x) eqn:Ek; cbn [negb] in Hk; [|discriminate].
  unfold check_fungible_amount in Ek. apply andb_prop in Ek. destruct Ek as [E1 E2].
  apply Z.leb_le in E1. apply Z.eqb_eq in E2.
  unfold liq_take in Hk. destruct (Z.ltb_spec (fliq c) x) as [|Hge]; [discriminate|].
  unfold dsub in Hk. destruct (dec_ok (fliq c - x)); [|discriminate]. cbn [bind] in Hk. injection Hk as <- <-.
  assert (Hg : Good {| fliq := fliq c - x; flocked := flocked c |} ps) by (repeat split; cbn [fliq flocked]; try apply HR; lia).
  repeat split; try apply Hg; try assumption. rewrite (good_total _ _ Hg), Ht. cbn [fliq]. lia.
Qed.
Lemma put_good : forall c ps x, Good c ps -> 0 <= x -> total c + x <= DEC_MAX ->
  exists c', f_put x c = Ok c' /\ Good c' ps /\ total c' = total c + x.
Proof.
  intros c ps x HG Hx Hb. pose proof (good_total _ _ HG) as Ht. destruct HG as (HR & Hliq & Hmax).
  pose proof DEC_bounds as [Hmin Hmx]. pose proof (lmax_nonneg ps) as Hnn.
  unfold f_put, f_internal_put. destruct (Z.eqb_spec x 0) as [->|Hnz].
  - exists c. split; [reflexivity|]. split; [split; [exact HR|split; assumption]|lia].
  - unfold liq_put, dadd. rewrite dec_ok_true by lia. cbn [bind]. eexists. split; [reflexivity|].
    assert (Hg : Good {| fliq := fliq c + x; flocked := flocked c |} ps) by (repeat split; cbn [fliq flocked]; try apply HR; lia).
    split; [exact Hg|]. rewrite (good_total _ _ Hg), Ht. cbn [fliq]. lia.
Qed.

(* ---------------------------------------------------------------------------------------- *)
(* histories: every interleaving of proof creation / clone / drop / take / put                *)
(* ---------------------------------------------------------------------------------------- *)
(* HLock a   = create_proof_of_amount a, or clone of a live proof of amount a (lock_amount a)
   HDrop a   = drop of a live proof of amount a (unlock_amount a through the proof's teardown)
   HTake x   = withdraw / burn / recall of x (take / internal_take)
   HPut x    = deposit of x *)
Inductive hop := HLock (a : Z) | HDrop (a : Z) | HTake (x : Z) | HPut (x : Z).

(* one step of the real container code, together with the ghost multiset of live proofs; None =
   the step is not part of a run through proofs (operation failed, or drop of a proof that does
   not exist) *)
Definition hstep (div : Z) (cp : fcont * list Z) (o : hop) : option (fcont * list Z) :=
  let (c, ps) := cp in
  match o with
  | HLock a => match f_lock a c with Ok c' => Some (c', a :: ps) | _ => None end
  | HDrop a => if in_dec Z.eq_dec a ps
               then match f_unlock a c with Ok c' => Some (c', remove_one a ps) | _ => None end
               else None
  | HTake x => match f_take div x c with Ok (c', _) => Some (c', ps) | _ => None end
  | HPut x => if (0 <=? x) && (total c + x <=? DEC_MAX)
              then match f_put x c with Ok c' => Some (c', ps) | _ => None end else None
  end.
Fixpoint hrun (div : Z) (cp : fcont * list Z) (ops : list hop) : option (fcont * list Z) :=
  match ops with
  | [] => Some cp
  | o :: t => match hstep div cp o with Some cp' => hrun div cp' t | None => None end
  end.
Definition flow1 (o : hop) : Z := match o with HTake x => - x | HPut x => x | _ => 0 end.
Fixpoint flow (ops : list hop) : Z := match ops with [] => 0 | o :: t => flow1 o + flow t end.

Lemma hstep_good : forall div c ps o c' ps', Good c ps -> hstep div (c, ps) o = Some (c', ps') ->
  Good c' ps' /\ total c' = total c + flow1 o.
Proof.
  intros div c ps o c' ps' HG H. destruct o as [a|a|x|x]; cbn [hstep flow1] in H |- *.
  - destruct (f_lock a c) as [c1| |] eqn:E; try discriminate. injection H as <- <-.
    destruct (lock_good _ _ _ _ HG E) as [Hg Ht]. split; [exact Hg|lia].
  - destruct (in_dec Z.eq_dec a ps) as [Hin|]; [|discriminate].
    destruct (unlock_good _ _ _ HG Hin) as (c1 & E & Hg & Ht). rewrite E in H. injection H as <- <-.
    split; [exact Hg|lia].
  - destruct (f_take div x c) as [[c1 y]| |] eqn:E; try discriminate. injection H as <- <-.
    destruct (take_good _ _ _ _ _ _ HG E) as (_ & Hg & Ht & _). split; [exact Hg|lia].
  - destruct ((0 <=? x) && (total c + x <=? DEC_MAX)) eqn:Eb; [|discriminate].
    apply andb_prop in Eb. destruct Eb as [E1 E2]. apply Z.leb_le in E1. apply Z.leb_le in E2.
    destruct (put_good _ _ _ HG E1 E2) as (c1 & E & Hg & Ht). rewrite E in H. injection H as <- <-.
    split; [exact Hg|lia].
Qed.
Lemma hrun_good : forall div ops c ps c' ps', Good c ps -> hrun div (c, ps) ops = Some (c', ps') ->
  Good c' ps' /\ total c' = total c + flow ops.
Proof.
  induction ops as [|o t IH]; intros c ps c' ps' HG H; cbn [hrun flow] in *.
  - injection H as <- <-. split; [assumption|lia].
  - destruct (hstep div (c, ps) o) as [[c1 ps1]|] eqn:E; [|discriminate].
    destruct (hstep_good _ _ _ _ _ _ HG E) as [Hg Ht].
    destruct (IH _ _ _ _ Hg H) as [Hg' Ht']. split; [exact Hg'|lia].
Qed.

Lemma good_new : forall amt, 0 <= amt <= DEC_MAX -> Good (f_new amt) [].
Proof.
  intros amt H. unfold Good, f_new. cbn [fliq flocked lmax]. repeat split; try lia.
  - constructor.
Qed.

(* --- property-level statements --- *)
Lemma total_invariant : forall div amt ops c ps, 0 <= amt <= DEC_MAX ->
  hrun div (f_new amt, []) ops = Some (c, ps) ->
  fliq c + fmax (flocked c) = amt + flow ops /\ fmax (flocked c) = lmax ps.
Proof.
  intros div amt ops c ps Ha H. destruct (hrun_good _ _ _ _ _ _ (good_new _ Ha) H) as [Hg Ht].
  split; [unfold total in Ht; cbn in Ht; lia|]. destruct Hg as [HR _]. apply rep_fmax, HR.
Qed.

Lemma withdraw_iff : forall div amt ops c ps x, 0 <= amt <= DEC_MAX ->
  hrun div (f_new amt, []) ops = Some (c, ps) ->
  ((exists c', f_take div x c = Ok (c', x)) <->
   check_fungible_amount div x = true /\ x <= (amt + flow ops) - lmax ps).
Proof.
  intros div amt ops c ps x Ha H. destruct (hrun_good _ _ _ _ _ _ (good_new _ Ha) H) as [Hg Ht].
  rewrite (take_iff _ _ div x Hg). unfold total at 2 in Ht. cbn [f_new fliq flocked fmax fmax_from] in Ht. rewrite Ht. replace (amt + 0 + flow ops) with (amt + flow ops) by lia. tauto.
Qed.

Lemma max_not_sum : forall amt a b c1 c2, 0 <= amt <= DEC_MAX -> 0 <= a -> 0 <= b ->
  f_lock a (f_new amt) = Ok c1 -> f_lock b c1 = Ok c2 ->
  fmax (flocked c2) = Z.max a b /\ fliq c2 = amt - Z.max a b.
Proof.
  intros amt a b c1 c2 Ha H0a H0b H1 H2.
  destruct (lock_good _ _ _ _ (good_new _ Ha) H1) as [G1 T1].
  destruct (lock_good _ _ _ _ G1 H2) as [G2 T2].
  pose proof (good_total _ _ G2) as E. destruct G2 as [HR _]. rewrite (rep_fmax _ _ HR).
  cbn [lmax] in *. unfold total at 2 in T1. cbn [f_new fliq flocked fmax fmax_from] in T1. lia.
Qed.

Lemma all_dropped_restores : forall div amt ops c, 0 <= amt <= DEC_MAX ->
  hrun div (f_new amt, []) ops = Some (c, []) ->
  flocked c = [] /\ fliq c = amt + flow ops.
Proof.
  intros div amt ops c Ha H. destruct (hrun_good _ _ _ _ _ _ (good_new _ Ha) H) as [Hg Ht].
  pose proof (good_total _ _ Hg) as E. destruct Hg as [HR _]. split; [apply rep_nil, HR|].
  unfold total in *. cbn [lmax f_new fliq flocked] in *. change (fmax []) with 0 in Ht. lia.
Qed.

(* no panic: in every state reached through proofs, dropping any live proof neither hits the
   `expect` nor the "Overflow" expect, and lock/take/amount never panic at all *)
Lemma no_panic : forall div amt ops c ps a, 0 <= amt <= DEC_MAX ->
  hrun div (f_new amt, []) ops = Some (c, ps) -> In a ps ->
  exists c', f_unlock a c = Ok c'.
Proof.
  intros div amt ops c ps a Ha H Hin. destruct (hrun_good _ _ _ _ _ _ (good_new _ Ha) H) as [Hg _].
  destruct (unlock_good _ _ _ Hg Hin) as (c' & E & _). eauto.
Qed.
Lemma lock_take_never_panic : forall div a c, f_lock a c <> Panic /\ f_take div a c <> Panic /\ f_create_proof div a c <> Panic /\ f_amount c <> Panic.
Proof.
  intros div a c. unfold f_create_proof, f_lock, f_take, f_amount, liq_take.
  repeat split.
  - destruct (a >? fmax (flocked c)); [destruct (dsub a (fmax (flocked c))); [|discriminate];
      destruct (fliq c <? z); [discriminate|destruct (dsub (fliq c) z); discriminate]|discriminate].
  - destruct (negb (check_fungible_amount div a)); [discriminate|].
    destruct (fliq c <? a); [discriminate|destruct (dsub (fliq c) a); discriminate].
  - destruct (negb (check_fungible_amount div a)); [discriminate|].
    destruct (a >? fmax (flocked c)).
    + destruct (dsub a (fmax (flocked c))); [|discriminate].
      destruct (fliq c <? z); [discriminate|]. destruct (dsub (fliq c) z); cbn [bind]; [|discriminate].
      destruct (a =? 0); discriminate.
    + cbn [bind]. destruct (a =? 0); discriminate.
  - destruct (dadd (fliq c) (fmax (flocked c))); discriminate.
Qed.

(* divisibility: every accepted amount is a non-negative multiple of 10^(18-div), and a container
   whose contents start as multiples stays so under every history *)
Lemma accepted_amounts_divisible : forall div a c r,
  (f_take div a c = Ok r \/ exists c', f_create_proof div a c = Ok c') -> 0 <= a /\ a mod unit_of div = 0.
Proof.
  intros div a c r H.
  assert (G : check_fungible_amount div a = true -> 0 <= a /\ a mod unit_of div = 0).
  { unfold check_fungible_amount. intros E. apply andb_prop in E. destruct E as [E1 E2]. apply Z.leb_le in E1. apply Z.eqb_eq in E2. tauto. }
  destruct H as [H|[c' H]]; [unfold f_take in H|unfold f_create_proof in H];
    destruct (check_fungible_amount div a); cbn [negb] in H; try discriminate; apply G; reflexivity.
Qed.
