(* conversions to primitive integers: TryFrom<Decimal/PreciseDecimal> for i8 .. u128 *)
From Coq Require Import ZArith List Bool Lia.
Import ListNotations.
Require Import RV.Lib.DecCore RV.Lib.DecCoreFacts RV.Model.C25_Round RV.Model.C24_Dec RV.Proof.C25_Round RV.Proof.C24_Dec.
Open Scope Z_scope.

Lemma r_toward_zero_quot d x : 0 < d -> r_toward_zero d x = d * Z.quot x d.
Proof.
  intros Hd. unfold r_toward_zero, r_lo, r_hi. destruct (Z.leb_spec 0 x) as [Hx|Hx].
  - rewrite Z.quot_div_nonneg by lia. reflexivity.
  - set (y := - x). assert (Hy : 0 < y) by (unfold y; lia).
    replace x with (- y) by (unfold y; lia).
    rewrite Z.quot_opp_l by lia. rewrite Z.quot_div_nonneg by lia.
    destruct (Z.eq_dec (y mod d) 0) as [E|E].
    + rewrite (Z.mod_opp_l_z y d) by lia. change (0 =? 0) with true. cbv iota.
      pose proof (Z.div_mod y d ltac:(lia)). rewrite E in *.
      replace (d * - (y / d)) with (- (d * (y / d))) by ring. lia.
    + rewrite (Z.mod_opp_l_nz y d) by lia. rewrite (Z.div_opp_l_nz y d) by lia.
      pose proof (Z.mod_pos_bound y d Hd).
      destruct (Z.eqb_spec (d - y mod d) 0); [lia|]. ring.
Qed.

Section ToPrim.
  Variable f : fmt.
  Hypothesis Hok : fmt_ok f.
  Local Notation ONE := (one f).

  Theorem to_prim_exact dst v : InF f v ->
    dec_to_prim f dst v =
      if Z.rem v ONE =? 0
      then (if in_ity dst (Z.quot v ONE) then Ok (Z.quot v ONE) else Err EOverflow)
      else Err EInvalidDigit.
  Proof.
    intros Hv. pose proof (one_pos f Hok) as H1. pose proof (one_lt_K f Hok) as H3. pose proof (K_pos f Hok) as H4.
    destruct Hok as (Hsc & _).
    unfold dec_to_prim.
    rewrite (round_spec_thm f Hok v 0 ToZero Hv) by lia. cbv zeta. cbn [round_spec]. unfold step.
    rewrite Z.sub_0_r. fold ONE. rewrite (r_toward_zero_quot ONE v H1).
    pose proof (Z.quot_rem' v ONE) as Hqr. pose proof (Z.rem_bound_abs v ONE ltac:(lia)) as Hrb.
    pose proof (Z.rem_sign_mul v ONE ltac:(lia)) as Hrs.
    pose proof Hv as Hv'. apply -> (InF_iff f) in Hv'.
    set (q := Z.quot v ONE) in *. set (r := Z.rem v ONE) in *.
    assert (Hrange : - 2 ^ (fbits f - 1) <= ONE * q <= 2 ^ (fbits f - 1) - 1) by nia.
    unfold in_f. rewrite (proj2 (in_ity_iff _ _)) by (apply <- (InF_iff f); exact Hrange). cbn [or_err bind].
    unfold csub. rewrite chk_in by (apply <- (InF_iff f); lia). cbn [or_err bind].
    replace (v - ONE * q) with r by lia.
    destruct (Z.eqb_spec r 0) as [Hr|Hr]; cbn [negb]; [|reflexivity].
    unfold ppow. rewrite pan_in by (apply <- (InF_iff f); unfold one in *; lia). cbn [bind].
    unfold pdiv. fold ONE. destruct (Z.eqb_spec ONE 0); [lia|].
    assert (Eq : Z.quot (ONE * q) ONE = q) by (rewrite Z.mul_comm; apply Z.quot_mul; lia).
    rewrite Eq. rewrite pan_in by (apply <- (InF_iff f); nia). cbn [bind]. reflexivity.
  Qed.
End ToPrim.
