(* C15 <-> C17 link: the DatabaseUpdates history seen by the Merkle store's substate column family
   (C14/C15 models, byte keys, sorted maps) and by its state tree (C17 model, nibble keys,
   association lists) denote the same database content, pointwise. *)
From Coq Require Import List Arith NArith Bool Lia.
Import ListNotations.
Require Import RV.Model.C17_Jmt RV.Model.C17_Smt.
Require Import RV.Lib.Bytes RV.Lib.SortedMap RV.Model.C14_Store RV.Proof.C14_Store.
Open Scope N_scope.

Local Notation BST := blt_strict_total.
Local Notation nb := nibbles_of_bytes.

(* ---- translation of a commit: byte keys -> nibble keys; the partition number is the 1-byte key [pn] ---- *)
Definition tr_part (pu : part_updates) : pupdate :=
  match pu with
  | PDelta l => Delta (map (fun e => (nb (fst e), match snd e with USet v => Some v | UDelete => None end)) l)
  | PReset l => Reset (map (fun e => (nb (fst e), snd e)) l)
  end.
Definition tr_node (nu : node_updates) : list (list N * pupdate) :=
  map (fun e => (nb [fst e], tr_part (snd e))) nu.
Definition tr_commit (u : C14_Store.db_updates) : C17_Jmt.db_updates :=
  map (fun e => (nb (fst e), tr_node (snd e))) u.

(* ---- nibble keys are injective on byte strings ---- *)
Lemma leqb_eq : forall a b, leqb a b = true <-> a = b.
Proof.
  induction a as [|x a IH]; destruct b as [|y b]; cbn [leqb]; split; intro E; try reflexivity; try discriminate.
  - apply andb_true_iff in E. destruct E as [E1 E2]. apply N.eqb_eq in E1. apply IH in E2. congruence.
  - inversion E; subst. rewrite N.eqb_refl. cbn. apply IH. reflexivity.
Qed.
Lemma nb_inj : forall a b, bytes_ok a = true -> bytes_ok b = true -> nb a = nb b -> a = b.
Proof.
  induction a as [|x a IH]; destruct b as [|y b]; intros Oa Ob E; try reflexivity; try discriminate.
  cbn [bytes_ok forallb] in Oa, Ob. apply andb_true_iff in Oa, Ob. destruct Oa as [Ox Oa], Ob as [Oy Ob].
  unfold nibbles_of_bytes in E. cbn [flat_map app] in E. inversion E as [[E1 E2 E3]].
  f_equal; [|apply IH; assumption].
  pose proof (N.div_mod x 16 ltac:(discriminate)). pose proof (N.div_mod y 16 ltac:(discriminate)). congruence.
Qed.
Lemma leqb_nb : forall a b, bytes_ok a = true -> bytes_ok b = true -> leqb (nb a) (nb b) = keqb blt a b.
Proof.
  intros a b Oa Ob. destruct (keqb blt a b) eqn:E.
  - apply (keqb_eq _ BST) in E. subst. apply leqb_eq. reflexivity.
  - destruct (leqb (nb a) (nb b)) eqn:L; [|reflexivity]. apply leqb_eq in L. apply nb_inj in L; try assumption.
    subst. rewrite (keqb_refl _ BST) in E. discriminate.
Qed.

(* ---- association-list facts ---- *)
Section AGet.
  Context {V : Type}.
  Lemma a_get_remove : forall k k' (l : list (list N * V)), a_get k (a_remove k' l) = if leqb k k' then None else a_get k l.
  Proof.
    intros k k' l. induction l as [|[k0 v] r IH]; [destruct (leqb k k'); reflexivity|].
    unfold a_remove in *. cbn [filter fst]. destruct (leqb k' k0) eqn:A; cbn [negb a_get].
    - apply leqb_eq in A. subst k0. rewrite IH. destruct (leqb k k') eqn:B; reflexivity.
    - rewrite IH. destruct (leqb k k0) eqn:B; [|reflexivity]. apply leqb_eq in B. subst k0.
      destruct (leqb k k') eqn:C; [|reflexivity]. apply leqb_eq in C. subst. assert (leqb k' k' = true) by (apply leqb_eq; reflexivity). congruence.
  Qed.
  Lemma a_get_set : forall k k' v (l : list (list N * V)), a_get k (a_set k' v l) = if leqb k k' then Some v else a_get k l.
  Proof. intros. unfold a_set. cbn [a_get]. destruct (leqb k k') eqn:E; [reflexivity|]. rewrite a_get_remove, E. reflexivity. Qed.
End AGet.

Definition or_nil {V} (o : option (list V)) : list V := match o with Some l => l | None => [] end.

(* ---- partition level ---- *)
Definition Rp (p17 : C17_Smt.pmap) (p14 : C14_Store.pmap) : Prop :=
  forall sk, bytes_ok sk = true -> a_get (nb sk) p17 = lookup blt sk p14.

Definition delta_ok (l : list (bytes * db_update)) : Prop := Forall (fun e => bytes_ok (fst e) = true) l.
Definition reset_ok (l : list (bytes * bytes)) : Prop := Forall (fun e => bytes_ok (fst e) = true) l.
Definition part_bytes_ok (pu : part_updates) : Prop :=
  match pu with PDelta l => delta_ok l | PReset l => reset_ok l end.

Lemma Rp_delta : forall l p17 p14, delta_ok l -> sorted blt p14 -> Rp p17 p14 ->
  Rp (apply_pupdate p17 (tr_part (PDelta l))) (apply_delta l p14).
Proof.
  induction l as [|[k u] l IH]; intros p17 p14 O S R; [exact R|].
  inversion O as [|x y Ok Ol]; subst. cbn [fst] in Ok.
  cbn [tr_part map apply_pupdate fold_left fst snd]. unfold apply_delta. cbn [fold_left fst snd].
  destruct u as [v|].
  - apply (IH _ _ Ol); [apply (insert_sorted _ BST); exact S|].
    intros sk Os. rewrite a_get_set, (lookup_insert _ BST) by exact S. rewrite (leqb_nb sk k Os Ok).
    destruct (keqb blt sk k); [reflexivity|apply R; exact Os].
  - apply (IH _ _ Ol); [apply remove_sorted; exact S|].
    intros sk Os. rewrite a_get_remove, (lookup_remove _ BST) by exact S. rewrite (leqb_nb sk k Os Ok).
    destruct (keqb blt sk k); [reflexivity|apply R; exact Os].
Qed.
Lemma Rp_reset_gen : forall l acc m, reset_ok l -> sorted blt m -> Rp acc m ->
  Rp (fold_left (fun acc kv => a_set (fst kv) (snd kv) acc) (map (fun e : bytes * bytes => (nb (fst e), snd e)) l) acc) (extend blt m l).
Proof.
  induction l as [|[k v] l IH]; intros acc m O S R; [exact R|].
  inversion O as [|x y Ok Ol]; subst. cbn [fst] in Ok. cbn [map fold_left extend fst snd].
  apply (IH _ _ Ol); [apply (insert_sorted _ BST); exact S|].
  intros sk Os. rewrite a_get_set, (lookup_insert _ BST) by exact S. rewrite (leqb_nb sk k Os Ok).
  destruct (keqb blt sk k); [reflexivity|apply R; exact Os].
Qed.
Lemma Rp_part : forall pu p17 p14, part_bytes_ok pu -> sorted blt p14 -> Rp p17 p14 ->
  Rp (apply_pupdate p17 (tr_part pu)) (apply_part pu p14).
Proof.
  intros [l|l] p17 p14 O S R; [apply Rp_delta; assumption|].
  cbn [tr_part apply_pupdate apply_part]. apply Rp_reset_gen; [exact O|exact I|]. intros sk _. reflexivity.
Qed.

(* ---- entity level: one node entry of a commit ---- *)
Definition pn_ok (pn : N) : Prop := pn < 256.
Lemma bytes_ok_pn : forall pn, pn_ok pn -> bytes_ok [pn] = true.
Proof. intros pn O. cbn. unfold byte_ok. apply N.ltb_lt in O. rewrite O. reflexivity. Qed.
Lemma leqb_pn : forall a b, pn_ok a -> pn_ok b -> leqb (nb [a]) (nb [b]) = (a =? b).
Proof.
  intros a b Oa Ob. rewrite leqb_nb by (apply bytes_ok_pn; assumption).
  destruct (a =? b) eqn:E; [apply N.eqb_eq in E; subst; apply (keqb_refl _ BST)|].
  apply (keqb_neq _ BST). intro C. inversion C; subst. rewrite N.eqb_refl in E. discriminate.
Qed.

Definition node_bytes_ok (nu : node_updates) : Prop :=
  Forall (fun e : N * part_updates => pn_ok (fst e) /\ part_bytes_ok (snd e)) nu.
(* e: the entity's partitions in the C17 database; db: the C14 database; related on node nk *)
Definition Re (nk : bytes) (e : emap) (db : memdb) : Prop :=
  forall pn, pn_ok pn -> Rp (or_nil (a_get (nb [pn]) e)) (part_of db (nk, pn)).

Lemma eupdate_step : forall e pn pu, let p := or_nil (a_get (nb [pn]) e) in
  forall pn', pn_ok pn -> pn_ok pn' ->
  or_nil (a_get (nb [pn']) (match apply_pupdate p (tr_part pu) with [] => a_remove (nb [pn]) e | p' => a_set (nb [pn]) p' e end))
  = if pn' =? pn then apply_pupdate p (tr_part pu) else or_nil (a_get (nb [pn']) e).
Proof.
  intros e pn pu p pn' O O'. destruct (apply_pupdate p (tr_part pu)) as [|x r] eqn:E.
  - rewrite a_get_remove, (leqb_pn pn' pn O' O). destruct (pn' =? pn); reflexivity.
  - rewrite a_get_set, (leqb_pn pn' pn O' O). destruct (pn' =? pn); reflexivity.
Qed.

Lemma Re_node : forall nu nk e db, node_bytes_ok nu -> db_wf db -> Re nk e db ->
  Re nk (apply_eupdate e (tr_node nu)) (mem_commit_node db nk nu) /\ db_wf (mem_commit_node db nk nu).
Proof.
  induction nu as [|[pn pu] nu IH]; intros nk e db O W R; [split; assumption|].
  inversion O as [|x y [Opn Opu] Onu]; subst. cbn [fst snd] in *.
  unfold apply_eupdate, mem_commit_node in *. cbn [tr_node map fold_left fst snd].
  apply IH; [exact Onu|apply mem_commit_part_wf; exact W|].
  intros pn' O'. pose proof (eupdate_step e pn pu pn' Opn O') as X. cbv zeta in X. unfold or_nil in X |- *.
  assert (forall a b c, a = b -> Rp b c -> Rp a c) as Tr by (intros a b c Eab Hb; subst; exact Hb).
  eapply Tr; [exact X|]. clear X Tr. fold (or_nil (a_get (nb [pn]) e)). fold (or_nil (a_get (nb [pn']) e)).
  rewrite part_of_commit_part by exact W.
  unfold pk_eqb. cbn [fst snd]. rewrite beqb_refl. cbn [andb]. destruct (pn' =? pn) eqn:E.
  - apply Rp_part; [exact Opu|apply part_of_sorted; exact W|apply R; exact Opn].
  - apply R. exact O'.
Qed.
Lemma part_of_commit_node_other : forall nu db nk nk' pn, db_wf db -> nk' <> nk ->
  part_of (mem_commit_node db nk nu) (nk', pn) = part_of db (nk', pn).
Proof.
  intros nu db nk nk' pn W NE. rewrite part_of_commit_node by exact W. cbn [fst].
  replace (beqb nk nk') with false; [reflexivity|]. symmetry. apply beqb_neq. congruence.
Qed.

(* ---- database level ---- *)
Definition Rdb (d : dbmap) (db : memdb) : Prop :=
  forall nk, bytes_ok nk = true -> Re nk (or_nil (a_get (nb nk) d)) db.
Definition commit_bytes_ok (u : C14_Store.db_updates) : Prop :=
  Forall (fun e : bytes * node_updates => bytes_ok (fst e) = true /\ node_bytes_ok (snd e)) u.

Lemma Rdb_commit : forall u d db, commit_bytes_ok u -> db_wf db -> Rdb d db ->
  Rdb (apply_commit d (tr_commit u)) (mem_commit db u) /\ db_wf (mem_commit db u).
Proof.
  induction u as [|[nk nu] u IH]; intros d db O W R; [split; assumption|].
  inversion O as [|x y [Onk Onu] Ou]; subst. cbn [fst snd] in *.
  unfold apply_commit, mem_commit in *. cbn [tr_commit map fold_left fst snd].
  change (match a_get (nb nk) d with Some e => e | None => [] end) with (or_nil (a_get (nb nk) d)).
  destruct (Re_node nu nk (or_nil (a_get (nb nk) d)) db Onu W (R nk Onk)) as [R' W'].
  apply IH; [exact Ou|exact W'|]. intros nk' O'.
  assert (or_nil (a_get (nb nk') (match apply_eupdate (or_nil (a_get (nb nk) d)) (tr_node nu) with
                                  | [] => a_remove (nb nk) d | e' => a_set (nb nk) e' d end))
          = if keqb blt nk' nk then apply_eupdate (or_nil (a_get (nb nk) d)) (tr_node nu) else or_nil (a_get (nb nk') d)) as X.
  { destruct (apply_eupdate (or_nil (a_get (nb nk) d)) (tr_node nu)) as [|x r] eqn:E.
    - rewrite a_get_remove, (leqb_nb nk' nk O' Onk). destruct (keqb blt nk' nk); reflexivity.
    - rewrite a_get_set, (leqb_nb nk' nk O' Onk). destruct (keqb blt nk' nk); reflexivity. }
  assert (forall a b c, a = b -> Re nk' b c -> Re nk' a c) as Tr by (intros a b c Eab Hb; subst; exact Hb).
  eapply Tr; [exact X|]. clear X Tr.
  destruct (keqb blt nk' nk) eqn:E.
  - apply (keqb_eq _ BST) in E. subst nk'. exact R'.
  - apply (keqb_neq _ BST) in E. intros pn Opn. rewrite part_of_commit_node_other by assumption. apply (R nk' O' pn Opn).
Qed.
Lemma Rdb_nil : Rdb [] mem_new.
Proof. intros nk _ pn _ sk _. reflexivity. Qed.
Lemma Rdb_history : forall cs d db, Forall commit_bytes_ok cs -> db_wf db -> Rdb d db ->
  Rdb (C17_Smt.apply_commits d (map tr_commit cs)) (C14_Store.apply_commits db cs).
Proof.
  induction cs as [|c cs IH]; intros d db O W R; [exact R|]. inversion O; subst.
  unfold C17_Smt.apply_commits, C14_Store.apply_commits in *. cbn [map fold_left].
  destruct (Rdb_commit c d db ltac:(assumption) W R) as [R' W']. apply IH; assumption.
Qed.

(* pointwise content of the C17 database *)
Definition get17 (d : dbmap) (nk : bytes) (pn : N) (sk : bytes) : option (list N) :=
  match a_get (nb nk) d with
  | Some e => match a_get (nb [pn]) e with Some p => a_get (nb sk) p | None => None end
  | None => None
  end.
Theorem content_link : forall cs, Forall commit_bytes_ok cs ->
  forall nk pn sk, bytes_ok nk = true -> pn_ok pn -> bytes_ok sk = true ->
  get17 (C17_Smt.apply_commits [] (map tr_commit cs)) nk pn sk = mem_get (C14_Store.apply_commits mem_new cs) (nk, pn) sk.
Proof.
  intros cs O nk pn sk Onk Opn Osk. pose proof (Rdb_history cs [] mem_new O db_wf_nil Rdb_nil nk Onk pn Opn sk Osk) as X.
  rewrite mem_get_part_of, <- X. unfold get17, or_nil.
  destruct (a_get (nb nk) _) as [e|]; [|reflexivity]. destruct (a_get (nb [pn]) e); reflexivity.
Qed.
