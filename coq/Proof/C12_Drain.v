(* C12 — drain_substates: result and effect. *)
From Coq Require Import List NArith Bool Lia.
Import ListNotations.
Require Import RV.Model.C12_Track RV.Model.C12_View RV.Proof.C12_Maps RV.Proof.C12_Track RV.Proof.C12_Ops RV.Proof.C12_Scan.
Open Scope N_scope.

Definition mem {A} (k : N) (l : list (N * A)) : bool :=
  match al_get k l with Some _ => true | None => false end.

Lemma take_none_id : forall tv, tsv_get tv = None -> fst (tsv_take tv) = tv.
Proof. destruct tv as [| | |? w| |w|]; try destruct w; simpl; intros; try reflexivity; discriminate. Qed.

Lemma sorted_from_same_keys : forall A B lo (a : list (N * A)) (b : list (N * B)),
  map fst a = map fst b -> sorted_from lo a -> sorted_from lo b.
Proof.
  intros A B lo a; revert lo. induction a as [|[k x] r IH]; intros lo [|[k' y] r'] E H; simpl in *; try discriminate; auto.
  inversion E; subst. destruct H. split; eauto.
Qed.
Lemma sorted_same_keys : forall A B (a : list (N * A)) (b : list (N * B)),
  map fst a = map fst b -> sorted a -> sorted b.
Proof.
  intros A B [|[k x] r] [|[k' y] r'] E H; simpl in *; try discriminate; auto.
  inversion E; subst. eapply sorted_from_same_keys; eauto.
Qed.

Lemma fold_del_spec : forall (kvs : list (key * value)) (l : list (key * value)), sorted l ->
  sorted (fold_left (fun acc e => sm_del (fst e) acc) kvs l) /\
  forall k, al_get k (fold_left (fun acc e => sm_del (fst e) acc) kvs l) = if mem k kvs then None else al_get k l.
Proof.
  induction kvs as [|[k0 v0] r IH]; simpl; intros l Hs.
  - split; [assumption|]. intros. reflexivity.
  - destruct (IH (sm_del k0 l) (sm_del_sorted _ _ _ Hs)) as [S1 S2]. split; [assumption|].
    intros k. rewrite S2. unfold mem. simpl. rewrite al_get_sm_del by assumption.
    destruct (k =? k0); [destruct (al_get k r); reflexivity|reflexivity].
Qed.

Lemma drain_tracked_spec : forall n p subs rem s items rem' evs,
  NoDup (map fst subs) -> drain_tracked n p rem subs = (s, items, rem', evs) ->
  map fst s = map fst subs /\ N.of_nat (length items) + rem' = rem /\ NoDup (map fst items) /\
  (forall k v, al_get k items = Some v -> exists tv, al_get k subs = Some tv /\ tsv_get tv = Some v) /\
  (rem' <> 0 -> forall k tv, al_get k subs = Some tv -> tsv_get tv <> None -> mem k items = true) /\
  (forall k, al_get k s = option_map (fun tv => if mem k items then fst (tsv_take tv) else tv) (al_get k subs)).
Proof.
  induction subs as [|[k0 tv0] r IH]; simpl; intros rem s items rem' evs Hn G.
  - inversion G; subst. simpl. repeat split; try constructor; try (intros; discriminate).
  - inversion Hn; subst. destruct (rem =? 0) eqn:E0.
    + apply N.eqb_eq in E0. inversion G; subst. simpl. repeat split; try constructor; try (intros; discriminate); try congruence.
      intros k. destruct (k =? k0); [reflexivity|]. destruct (al_get k r); reflexivity.
    + apply N.eqb_neq in E0. pose proof (tsv_take_get tv0) as [T1 T2].
      destruct (tsv_take tv0) as [tv' taken] eqn:TT. simpl in T1, T2. destruct taken as [v|].
      * destruct (drain_tracked n p (rem - 1) r) as [[[s1 items1] rem1] evs1] eqn:R. inversion G; subst.
        destruct (IH _ _ _ _ _ H2 R) as [A [B [C [D [F L]]]]].
        split; [simpl; congruence|]. split; [cbn [length]; rewrite Nat2N.inj_succ; lia|]. split.
        { simpl. constructor; [|assumption]. intros Hin. apply al_get_some_in in Hin.
          destruct (al_get k0 items1) as [v1|] eqn:X; [|congruence]. destruct (D _ _ X) as [tv [Y _]].
          apply H1. apply al_get_some_in. congruence. }
        split.
        { intros k v1. simpl. destruct (k =? k0) eqn:Ek.
          - intros X; inversion X; subst. exists tv0. split; [reflexivity|congruence].
          - apply D. }
        split.
        { intros Hr k tv. unfold mem. simpl. destruct (k =? k0) eqn:Ek; [reflexivity|]. apply F. assumption. }
        { intros k. unfold mem. simpl. destruct (k =? k0) eqn:Ek; [simpl; rewrite TT; reflexivity|]. apply L. }
      * destruct (drain_tracked n p rem r) as [[[s1 items1] rem1] evs1] eqn:R. inversion G; subst.
        destruct (IH _ _ _ _ _ H2 R) as [A [B [C [D [F L]]]]].
        split; [simpl; congruence|]. split; [assumption|]. split; [assumption|]. split.
        { intros k v1 X. destruct (D _ _ X) as [tv [Y Z]]. destruct (k =? k0) eqn:Ek.
          - apply N.eqb_eq in Ek; subst. exfalso. apply H1. apply al_get_some_in. congruence.
          - exists tv. auto. }
        split.
        { intros Hr k tv. destruct (k =? k0) eqn:Ek.
          - intros X; inversion X; subst. congruence.
          - apply F. assumption. }
        { intros k. simpl. destruct (k =? k0) eqn:Ek; [|apply L]. simpl.
          assert (tv' = tv0) as -> by (rewrite <- (take_none_id tv0) by congruence; rewrite TT; reflexivity).
          destruct (mem k items); [rewrite TT|]; reflexivity. }
Qed.

Lemma drain_insert_spec : forall n p news subs s evs,
  NoDup (map fst news) -> drain_insert n p news subs = (s, evs) ->
  (sorted subs -> sorted s) /\
  forall k, al_get k s = match al_get k news with Some v => Some (TRExW v WDelete) | None => al_get k subs end.
Proof.
  induction news as [|[k0 v0] r IH]; simpl; intros subs s evs Hn G.
  - inversion G; subst. auto.
  - inversion Hn; subst. destruct (drain_insert n p r (sm_put k0 (TRExW v0 WDelete) subs)) as [s1 evs1] eqn:R.
    inversion G; subst. destruct (IH _ _ _ H2 R) as [S1 S2]. split.
    + intros Hs. apply S1. apply sm_put_sorted. assumption.
    + intros k. rewrite S2, al_get_sm_put. destruct (k =? k0) eqn:Ek; [|reflexivity].
      apply N.eqb_eq in Ek; subst. apply al_get_none_notin in H1. rewrite H1. reflexivity.
Qed.

Lemma inv_view_ext : forall db t v1 v2 nw fw dl,
  (forall n p, v1 n p = v2 n p) -> Inv db t (mk_vstate v1 nw fw dl) -> Inv db t (mk_vstate v2 nw fw dl).
Proof.
  intros db t v1 v2 nw fw dl E I. destruct I as [Iwf Isorted Iview Ivsorted Inew Ifresh Iok Ifwwf Ifwsorted Ifwget Ifwin Idel].
  simpl in *. constructor; simpl; auto.
  - intros. rewrite <- E. apply Iview.
  - intros. rewrite <- E. apply Ivsorted.
Qed.

Lemma al_get_in_nodup : forall A k (a : A) l, NoDup (map fst l) -> (In (k, a) l <-> al_get k l = Some a).
Proof. intros. split; [apply in_nodup_al_get; assumption|apply al_get_in]. Qed.

Lemma mem_in : forall A k (l : list (N * A)), mem k l = true <-> In k (map fst l).
Proof.
  intros. unfold mem. rewrite <- al_get_some_in. destruct (al_get k l); split; intros; try congruence; try discriminate.
Qed.

Lemma length_map_fst : forall A B (l : list (A * B)), length (map fst l) = length l.
Proof. intros. apply map_length. Qed.

Lemma step_drain : forall db t s n p limit t' kvs evs,
  db_wf db -> Inv db t s -> drain_substates db t n p limit = (t', kvs, evs) ->
  scan_spec limit (v_view s n p) (map fst kvs) /\
  (forall k v, In (k, v) kvs -> al_get k (v_view s n p) = Some v) /\
  Inv db t' (spec_next db s (ODrain n p limit) (RKVs kvs)).
Proof.
  intros db t s n p limit t' kvs evs Hdb I G. unfold drain_substates in G.
  (* phase 1 *)
  assert (P1 : exists t1 tracked items rem evs1,
    (match find_part (t_nodes t) n p with
     | Some ps => let '(s0, items, rem, evs) := drain_tracked n p limit (ps_subs ps) in
                  (set_nodes t (put_part (t_nodes t) n p (with_subs ps s0)), s0, items, rem, evs)
     | None => (t, [], [], limit, [])
     end) = (t1, tracked, items, rem, evs1) /\
    N.of_nat (length items) + rem = limit /\ NoDup (map fst items) /\
    (forall k v, al_get k items = Some v -> exists tv, tlookup (t_nodes t) n p k = Some tv /\ tsv_get tv = Some v) /\
    (rem <> 0 -> forall k tv, tlookup (t_nodes t) n p k = Some tv -> tsv_get tv <> None -> mem k items = true) /\
    (forall k, al_get k tracked = tlookup (t_nodes t1) n p k) /\
    (forall k, tlookup (t_nodes t1) n p k <> None <-> tlookup (t_nodes t) n p k <> None) /\
    node_is_new (t_nodes t1) n = node_is_new (t_nodes t) n /\
    Inv db t1 (mk_vstate (upd2 (v_view s) n p (fold_left (fun acc e => sm_del (fst e) acc) items (v_view s n p)))
                         (v_new s) (v_fw s) (v_del s))).
  { destruct (find_part (t_nodes t) n p) as [ps|] eqn:F.
    - destruct (drain_tracked n p limit (ps_subs ps)) as [[[s0 items] rem] evs0] eqn:DT.
      assert (Nps : NoDup (map fst (ps_subs ps))) by (apply sorted_nodup; eapply (inv_sorted _ _ _ I); eauto).
      destruct (drain_tracked_spec _ _ _ _ _ _ _ _ Nps DT) as [A [B [C [D [F' L]]]]].
      assert (TLs : forall k, tlookup (t_nodes t) n p k = al_get k (ps_subs ps)) by (intros; unfold tlookup; rewrite F; reflexivity).
      eexists _, _, _, _, _. split; [reflexivity|]. split; [assumption|]. split; [assumption|].
      split; [intros k v X; rewrite TLs; eapply D; eauto|].
      split; [intros Hr k tv; rewrite TLs; apply F'; assumption|].
      simpl. split; [intros k; rewrite tlookup_put_part, !N.eqb_refl; reflexivity|].
      split.
      { intros k. rewrite tlookup_put_part, !N.eqb_refl. simpl. rewrite L, TLs. destruct (al_get k (ps_subs ps)); simpl; split; intros; congruence. }
      split; [apply node_is_new_put_part|].
      destruct (fold_del_spec items (v_view s n p) (inv_vsorted _ _ _ I n p)) as [FS FL].
      unfold with_subs. apply inv_put_subs; auto.
      + eapply sorted_same_keys; [symmetry; eassumption|]. eapply (inv_sorted _ _ _ I); eauto.
      + intros k tv'. rewrite L. destruct (al_get k (ps_subs ps)) as [tv|] eqn:X; simpl; [|discriminate].
        intros Y; inversion Y; subst. assert (O : tsv_ok tv (al_get k (db n p))) by (eapply (inv_ok _ _ _ I); rewrite TLs; eauto).
        destruct (mem k items); [apply tsv_take_ok|]; assumption.
      + intros k. rewrite TLs, L. destruct (al_get k (ps_subs ps)); simpl; congruence.
      + apply upd2_sorted; [apply (inv_vsorted _ _ _ I)|assumption].
      + intros k. unfold upd2. rewrite !N.eqb_refl. simpl. rewrite FL, L, (inv_view _ _ _ I). unfold tview. rewrite TLs.
        destruct (al_get k (ps_subs ps)) as [tv|] eqn:X; simpl.
        * destruct (mem k items); [|reflexivity]. symmetry. apply (tsv_take_get tv).
        * destruct (mem k items) eqn:M; [|reflexivity]. unfold mem in M. destruct (al_get k items) as [v|] eqn:Y; [|discriminate].
          destruct (D _ _ Y) as [tv [Z _]]. congruence.
      + intros n' p' E. unfold upd2. rewrite E. reflexivity.
    - eexists _, _, _, _, _. split; [reflexivity|]. simpl. split; [lia|]. split; [constructor|].
      split; [intros; discriminate|]. split.
      { intros _ k tv X. unfold tlookup in X. rewrite F in X. discriminate. }
      split; [intros k; unfold tlookup; rewrite F; reflexivity|]. split; [tauto|]. split; [reflexivity|].
      destruct s as [vw nw fw dl]. simpl. eapply inv_view_ext; [|exact I].
      intros n' p'. unfold upd2. destruct ((n' =? n) && (p' =? p)) eqn:E; [|reflexivity].
      apply andb_true_iff in E. destruct E as [E1 E2]. apply N.eqb_eq in E1, E2. subst. reflexivity. }
  destruct P1 as [t1 [tracked [items [rem [evs1 [E1 [A [B [C [D [TL1 [SameKeys [New1 I1]]]]]]]]]]]]].
  rewrite E1 in G. clear E1.
  assert (ItemsView : forall k v, al_get k items = Some v -> al_get k (v_view s n p) = Some v).
  { intros k v X. destruct (C _ _ X) as [tv [Y Z]]. rewrite (inv_view _ _ _ I). unfold tview. rewrite Y. assumption. }
  assert (Nt : forall k, mem k items = true -> tlookup (t_nodes t) n p k <> None).
  { intros k M. unfold mem in M. destruct (al_get k items) as [v|] eqn:X; [|discriminate]. destruct (C _ _ X) as [tv [Y _]]. congruence. }
  destruct ((rem =? 0) || node_is_new (t_nodes t) n) eqn:E.
  - injection G as G1 G2 G3; subst t' kvs evs. split; [|split].
    + unfold scan_spec. split; [assumption|]. split.
      { intros k Hin. apply mem_in in Hin. unfold mem in Hin. destruct (al_get k items) as [v|] eqn:X; [|discriminate].
        rewrite (ItemsView _ _ X). discriminate. }
      rewrite length_map_fst. split; [lia|]. intros Hlt k Hp. apply mem_in.
      rewrite (view_present _ _ _ _ _ _ I) in Hp.
      apply orb_true_iff in E. destruct E as [E|E]; [apply N.eqb_eq in E; lia|]. rewrite E in Hp.
      destruct (tlookup (t_nodes t) n p k) as [tv|] eqn:X; [|congruence]. eapply D; eauto. lia.
    + intros k v Hin. apply ItemsView. apply in_nodup_al_get; assumption.
    + simpl. exact I1.
  - apply orb_false_iff in E. destruct E as [E0 E2]. apply N.eqb_neq in E0.
    destruct (db_collect n p rem tracked (db n p)) as [[l it] evs2] eqn:DC.
    destruct (drain_insert n p l (ps_subs (cur_part (t_nodes t1) n p))) as [s2 evs3] eqn:DI.
    injection G as G1 G2 G3; subst t' kvs evs.
    destruct (db_collect_spec _ _ _ _ _ _ _ _ (sorted_nodup _ _ (Hdb n p)) DC) as [A' [B' [C' D']]].
    destruct (drain_insert_spec _ _ _ _ _ _ B' DI) as [S2s S2l].
    assert (Untr : forall k v, al_get k l = Some v -> al_get k (db n p) = Some v /\ tlookup (t_nodes t) n p k = None).
    { intros k v X. apply al_get_in in X. destruct (C' _ _ X) as [Y Z]. split; [assumption|].
      rewrite TL1 in Z. destruct (tlookup (t_nodes t) n p k) eqn:W; [|reflexivity]. exfalso.
      assert (tlookup (t_nodes t1) n p k <> None) by (apply SameKeys; congruence). congruence. }
    split; [|split].
    + unfold scan_spec. rewrite map_app. split.
      { apply nodup_app; auto. intros k Hin Hin2. apply mem_in in Hin. apply Nt in Hin.
        apply al_get_some_in in Hin2. destruct (al_get k l) as [v|] eqn:X; [|congruence]. destruct (Untr _ _ X). congruence. }
      split.
      { intros k Hin. apply in_app_iff in Hin. destruct Hin as [Hin|Hin].
        - apply mem_in in Hin. unfold mem in Hin. destruct (al_get k items) as [v|] eqn:X; [|discriminate].
          rewrite (ItemsView _ _ X). discriminate.
        - apply al_get_some_in in Hin. destruct (al_get k l) as [v|] eqn:X; [|congruence]. destruct (Untr _ _ X) as [Y Z].
          rewrite (view_present _ _ _ _ _ _ I), Z, E2, Y. discriminate. }
      rewrite app_length, !length_map_fst. split; [lia|]. intros Hlt k Hp. apply in_app_iff.
      rewrite (view_present _ _ _ _ _ _ I), E2 in Hp.
      destruct (tlookup (t_nodes t) n p k) as [tv|] eqn:X.
      * left. apply mem_in. eapply D; eauto.
      * right. destruct (al_get k (db n p)) as [v|] eqn:Y; [|congruence].
        apply al_get_some_in. assert (In (k, v) l).
        { eapply D'; eauto; [lia|]. rewrite TL1. destruct (tlookup (t_nodes t1) n p k) eqn:W; [|reflexivity].
          exfalso. assert (tlookup (t_nodes t) n p k <> None) by (apply SameKeys; congruence). congruence. }
        apply in_nodup_al_get in H; [congruence|assumption].
    + intros k v Hin. apply in_app_iff in Hin. destruct Hin as [Hin|Hin].
      * apply ItemsView. apply in_nodup_al_get; assumption.
      * apply in_nodup_al_get in Hin; [|assumption]. destruct (Untr _ _ Hin) as [Y Z].
        rewrite (view_present _ _ _ _ _ _ I), Z, E2. assumption.
    + simpl. rewrite fold_left_app.
      set (v1 := fold_left (fun acc e => sm_del (fst e) acc) items (v_view s n p)) in *.
      assert (Sv1 : sorted v1) by (apply fold_del_spec; apply (inv_vsorted _ _ _ I)).
      destruct (fold_del_spec l v1 Sv1) as [FS FL].
      pose proof (inv_put_subs db t1 _ n p s2 (N.max (ps_rr (cur_part (t_nodes t1) n p)) it)
                    (upd2 (v_view s) n p (fold_left (fun acc e => sm_del (fst e) acc) l v1)) I1) as P2.
      simpl in P2. apply P2; clear P2.
      * apply S2s. apply cur_part_sorted. apply (inv_sorted _ _ _ I1).
      * intros k tv. rewrite S2l. destruct (al_get k l) as [v|] eqn:X.
        -- intros Y; inversion Y; subst. simpl. apply (Untr _ _ X).
        -- rewrite al_get_cur_part. apply (inv_ok _ _ _ I1).
      * intros k Hk. rewrite S2l. destruct (al_get k l); [discriminate|]. rewrite al_get_cur_part. assumption.
      * apply upd2_sorted; [apply (inv_vsorted _ _ _ I)|assumption].
      * intros k. unfold upd2 at 1. rewrite !N.eqb_refl. simpl. rewrite FL, S2l. unfold mem.
        destruct (al_get k l) as [v|] eqn:X; [reflexivity|].
        rewrite al_get_cur_part. pose proof (inv_view _ _ _ I1 n p k) as V. simpl in V. unfold upd2 in V.
        rewrite !N.eqb_refl in V. simpl in V. fold v1 in V. rewrite V. unfold tview. reflexivity.
      * intros n' p' E. unfold upd2. rewrite E. reflexivity.
Qed.
