(* C21 — the cost semantics of Model/C21_Alloc.v: erasure (it computes the decoder's result) and
   the bound on capacity reserved ahead of data. *)
From Coq Require Import List NArith ZArith Bool Lia.
Import ListNotations.
Require Import RV.Lib.Utf8 RV.Model.C20_Sbor RV.Model.C21_Alloc RV.Proof.C20_Base RV.Proof.C20_Sbor.
Open Scope N_scope.

Arguments N.add : simpl never. Arguments N.sub : simpl never. Arguments N.mul : simpl never.
Arguments N.eqb : simpl never. Arguments N.ltb : simpl never. Arguments N.leb : simpl never.
Arguments N.max : simpl never.

Lemma reserve_le : forall n, reserve n <= 1024 /\ reserve n <= n.
Proof. intro n. unfold reserve. destruct (n <=? 1024) eqn:E; [apply N.leb_le in E|apply N.leb_gt in E]; lia. Qed.

Lemma fst_lift : forall A B (r : dres A) (k : A -> dres B * N) base,
  fst (lift r k base) = bind r (fun a => fst (k a)).
Proof. intros. destruct r; reflexivity. Qed.
Lemma snd_lift_le : forall A B (r : dres A) (k : A -> dres B * N) base bound,
  base <= bound -> (forall a, r = Ok a -> snd (k a) <= bound) -> snd (lift r k base) <= bound.
Proof. intros A B r k base bound Hb H. destruct r; cbn [lift snd]; try exact Hb. apply H. reflexivity. Qed.

Section Alloc.
Variable fl : flavour.

Lemma cdec_body_S : forall f md d k st base, cdec_body fl (S f) md d k st base =
  match k with
  | KTuple =>
    lift (read_size st) (fun '(n, st1) =>
      let '(r, pk) := cdec_elems fl f md d None n st1 base (reserve n) 0 in
      ('(fs, st2) <- r ;; Ok (VTuple fs, st2), pk)) base
  | KEnum =>
    lift ('(disc, st0) <- read_byte st ;; '(n, st1) <- read_size st0 ;; Ok (disc, n, st1))
      (fun '(disc, n, st1) =>
      let '(r, pk) := cdec_elems fl f md d None n st1 base (reserve n) 0 in
      ('(fs, st2) <- r ;; Ok (VEnum disc fs, st2), pk)) base
  | KArray =>
    lift ('(ek, st0) <- read_value_kind fl st ;; '(n, st1) <- read_size st0 ;; Ok (ek, n, st1))
      (fun '(ek, n, st1) =>
      let '(r, pk) := cdec_elems fl f md d (Some ek) n st1 base (reserve n) 0 in
      ('(es, st2) <- r ;; Ok (VArray ek es, st2), pk)) base
  | KMap =>
    lift ('(kk, st0) <- read_value_kind fl st ;; '(vk, st0') <- read_value_kind fl st0 ;;
          '(n, st1) <- read_size st0' ;; Ok (kk, vk, n, st1))
      (fun '(kk, vk, n, st1) =>
      let '(r, pk) := cdec_entries fl f md d kk vk n st1 base (reserve n) 0 in
      ('(es, st2) <- r ;; Ok (VMap kk vk es, st2), pk)) base
  | _ => (dec_body fl (S f) md d k st, base)
  end.
Proof. reflexivity. Qed.
Lemma cdec_elems_S : forall f md d ek n st base r p, cdec_elems fl (S f) md d ek n st base r p =
  let here := base + (r - p) in
  if n =? 0 then (Ok ([], st), here) else
  lift (resolve_kind fl ek st) (fun '(k, st') =>
    let '(rv, pk1) := if md <? d + 1 then (Err (MaxDepthExceeded md), here)
                      else cdec_body fl f md (d + 1) k st' here in
    match rv with
    | Ok (v, st1) =>
      let '(rs, pk2) := cdec_elems fl f md d ek (n - 1) st1 base r (p + 1) in
      ('(vs, st2) <- rs ;; Ok (v :: vs, st2), N.max pk1 pk2)
    | Err e => (Err e, pk1) | Panic => (Panic, pk1) | OutOfFuel => (OutOfFuel, pk1)
    end) here.
Proof. reflexivity. Qed.
Lemma cdec_entries_S : forall f md d kk vk n st base r p, cdec_entries fl (S f) md d kk vk n st base r p =
  let here := base + (r - p) in
  if n =? 0 then (Ok ([], st), here) else
  let '(rk, pk1) := if md <? d + 1 then (Err (MaxDepthExceeded md), here)
                    else cdec_body fl f md (d + 1) kk st here in
  match rk with
  | Ok (k, st1) =>
    let '(rx, pk2) := if md <? d + 1 then (Err (MaxDepthExceeded md), here)
                      else cdec_body fl f md (d + 1) vk st1 here in
    match rx with
    | Ok (x, st2) =>
      let '(rs, pk3) := cdec_entries fl f md d kk vk (n - 1) st2 base r (p + 1) in
      ('(es, st3) <- rs ;; Ok ((k, x) :: es, st3), N.max (N.max pk1 pk2) pk3)
    | Err e => (Err e, N.max pk1 pk2) | Panic => (Panic, N.max pk1 pk2)
    | OutOfFuel => (OutOfFuel, N.max pk1 pk2)
    end
  | Err e => (Err e, pk1) | Panic => (Panic, pk1) | OutOfFuel => (OutOfFuel, pk1)
  end.
Proof. reflexivity. Qed.

(* ------------------------------------------------------------------------------------------ *)
(* erasure                                                                                     *)
Definition EB (f : nat) : Prop := forall md d k st base,
  fst (cdec_body fl f md d k st base) = dec_body fl f md d k st.
Definition EE (f : nat) : Prop := forall md d ek n st base r p,
  fst (cdec_elems fl f md d ek n st base r p) = dec_elems fl f md d ek n st.
Definition EM (f : nat) : Prop := forall md d kk vk n st base r p,
  fst (cdec_entries fl f md d kk vk n st base r p) = dec_entries fl f md d kk vk n st.

Lemma E_all : forall f, EB f /\ EE f /\ EM f.
Proof.
  induction f as [|f [IB [IE IM]]]; [repeat split; repeat intro; reflexivity|].
  split; [|split].
  - intros md d k st base. rewrite cdec_body_S, dec_body_S. destruct k; try reflexivity; rewrite fst_lift.
    + destruct st as [|disc st0]; cbn [read_byte bind]; [reflexivity|].
      destruct (read_size st0) as [[n st1]| | |]; cbn [bind]; try reflexivity.
      specialize (IE md d None n st1 base (reserve n) 0).
      destruct (cdec_elems fl f md d None n st1 base (reserve n) 0) as [r pk]. cbn [fst] in *. rewrite IE. reflexivity.
    + destruct (read_value_kind fl st) as [[ek st0]| | |]; cbn [bind]; try reflexivity.
      destruct (read_size st0) as [[n st1]| | |]; cbn [bind]; try reflexivity.
      specialize (IE md d (Some ek) n st1 base (reserve n) 0).
      destruct (cdec_elems fl f md d (Some ek) n st1 base (reserve n) 0) as [r pk]. cbn [fst] in *. rewrite IE. reflexivity.
    + destruct (read_size st) as [[n st1]| | |]; cbn [bind]; try reflexivity.
      specialize (IE md d None n st1 base (reserve n) 0).
      destruct (cdec_elems fl f md d None n st1 base (reserve n) 0) as [r pk]. cbn [fst] in *. rewrite IE. reflexivity.
    + destruct (read_value_kind fl st) as [[kk st0]| | |]; cbn [bind]; try reflexivity.
      destruct (read_value_kind fl st0) as [[vk st0']| | |]; cbn [bind]; try reflexivity.
      destruct (read_size st0') as [[n st1]| | |]; cbn [bind]; try reflexivity.
      specialize (IM md d kk vk n st1 base (reserve n) 0).
      destruct (cdec_entries fl f md d kk vk n st1 base (reserve n) 0) as [r pk]. cbn [fst] in *. rewrite IM. reflexivity.
  - intros md d ek n st base r p. rewrite cdec_elems_S, dec_elems_S. cbv zeta.
    destruct (n =? 0); [reflexivity|]. rewrite fst_lift.
    assert (Hd : forall k st', fst (if md <? d + 1 then (Err (MaxDepthExceeded md), base + (r - p))
                                     else cdec_body fl f md (d + 1) k st' (base + (r - p))) = dec_deeper fl f md d k st').
    { intros k st'. unfold dec_deeper. destruct (md <? d + 1); [reflexivity|apply IB]. }
    assert (Hk : forall k st',
      fst (let '(rv, pk1) := if md <? d + 1 then (Err (MaxDepthExceeded md), base + (r - p))
                              else cdec_body fl f md (d + 1) k st' (base + (r - p)) in
           match rv with
           | Ok (v, st1) => let '(rs, pk2) := cdec_elems fl f md d ek (n - 1) st1 base r (p + 1) in
                            ('(vs, st2) <- rs ;; Ok (v :: vs, st2), N.max pk1 pk2)
           | Err e => (Err e, pk1) | Panic => (Panic, pk1) | OutOfFuel => (OutOfFuel, pk1) end) =
      ('(v, st1) <- dec_deeper fl f md d k st' ;; '(vs, st2) <- dec_elems fl f md d ek (n - 1) st1 ;; Ok (v :: vs, st2))).
    { intros k st'. specialize (Hd k st').
      destruct (if md <? d + 1 then _ else _) as [rv pk1]. cbn [fst] in Hd. rewrite <- Hd.
      destruct rv as [[v st1]| | |]; cbn [bind]; try reflexivity.
      specialize (IE md d ek (n - 1) st1 base r (p + 1)).
      destruct (cdec_elems fl f md d ek (n - 1) st1 base r (p + 1)) as [rs pk2]. cbn [fst] in *. rewrite IE. reflexivity. }
    destruct ek as [k|]; cbn [resolve_kind bind].
    + apply Hk.
    + destruct (read_value_kind fl st) as [[k st']| | |]; cbn [bind]; try reflexivity. apply Hk.
  - intros md d kk vk n st base r p. rewrite cdec_entries_S, dec_entries_S. cbv zeta.
    destruct (n =? 0); [reflexivity|].
    assert (Hd : forall k st', fst (if md <? d + 1 then (Err (MaxDepthExceeded md), base + (r - p))
                                     else cdec_body fl f md (d + 1) k st' (base + (r - p))) = dec_deeper fl f md d k st').
    { intros k st'. unfold dec_deeper. destruct (md <? d + 1); [reflexivity|apply IB]. }
    assert (H1 := Hd kk st). destruct (if md <? d + 1 then _ else _) as [rk pk1]. cbn [fst] in H1. rewrite <- H1.
    destruct rk as [[k st1]| | |]; cbn [bind]; try reflexivity.
    assert (H2 := Hd vk st1). destruct (if md <? d + 1 then _ else _) as [rx pk2]. cbn [fst] in H2. rewrite <- H2.
    destruct rx as [[x st2]| | |]; cbn [bind]; try reflexivity.
    specialize (IM md d kk vk (n - 1) st2 base r (p + 1)).
    destruct (cdec_entries fl f md d kk vk (n - 1) st2 base r (p + 1)) as [rs pk3]. cbn [fst] in *. rewrite IM. reflexivity.
Qed.

(* ------------------------------------------------------------------------------------------ *)
(* bound                                                                                       *)
Definition BB (f : nat) : Prop := forall md d k st base, d <= md ->
  snd (cdec_body fl f md d k st base) <= base + 1024 * (md + 1 - d).
Definition BE (f : nat) : Prop := forall md d ek n st base r p, d <= md -> r <= 1024 ->
  snd (cdec_elems fl f md d ek n st base r p) <= base + (r - p) + 1024 * (md - d).
Definition BM (f : nat) : Prop := forall md d kk vk n st base r p, d <= md -> r <= 1024 ->
  snd (cdec_entries fl f md d kk vk n st base r p) <= base + (r - p) + 1024 * (md - d).

Lemma B_all : forall f, BB f /\ BE f /\ BM f.
Proof.
  induction f as [|f [IB [IE IM]]];
    [repeat split; unfold BB, BE, BM; intros; cbn [cdec_body cdec_elems cdec_entries snd]; lia|].
  unfold BB, BE, BM in *.
  assert (Hchild : forall md d k st' here, d <= md ->
    snd (if md <? d + 1 then (Err (MaxDepthExceeded md), here)
         else cdec_body fl f md (d + 1) k st' here) <= here + 1024 * (md - d)).
  { intros md d k st' here Hd. destruct (md <? d + 1) eqn:C; [cbn [snd]; lia|].
    apply N.ltb_ge in C. assert (B := IB md (d + 1) k st' here C).
    replace (md + 1 - (d + 1)) with (md - d) in B by lia. exact B. }
  split; [|split].
  - intros md d k st base Hd.
    rewrite cdec_body_S. destruct k; try (cbn [snd]; lia);
      (apply snd_lift_le; [lia|]); intros a Ea.
    + destruct a as [[disc n] st1].
      assert (B := IE md d None n st1 base (reserve n) 0 Hd (proj1 (reserve_le n))).
      destruct (cdec_elems fl f md d None n st1 base (reserve n) 0) as [r pk]. cbn [snd] in *.
      assert (R := proj1 (reserve_le n)). lia.
    + destruct a as [[ek n] st1].
      assert (B := IE md d (Some ek) n st1 base (reserve n) 0 Hd (proj1 (reserve_le n))).
      destruct (cdec_elems fl f md d (Some ek) n st1 base (reserve n) 0) as [r pk]. cbn [snd] in *.
      assert (R := proj1 (reserve_le n)). lia.
    + destruct a as [n st1].
      assert (B := IE md d None n st1 base (reserve n) 0 Hd (proj1 (reserve_le n))).
      destruct (cdec_elems fl f md d None n st1 base (reserve n) 0) as [r pk]. cbn [snd] in *.
      assert (R := proj1 (reserve_le n)). lia.
    + destruct a as [[[kk vk] n] st1].
      assert (B := IM md d kk vk n st1 base (reserve n) 0 Hd (proj1 (reserve_le n))).
      destruct (cdec_entries fl f md d kk vk n st1 base (reserve n) 0) as [r pk]. cbn [snd] in *.
      assert (R := proj1 (reserve_le n)). lia.
  - intros md d ek n st base r p Hd Hr. rewrite cdec_elems_S. cbv zeta.
    destruct (n =? 0); [cbn [snd]; lia|]. apply snd_lift_le; [lia|]. intros [k st'] _.
    assert (C := Hchild md d k st' (base + (r - p)) Hd).
    destruct (if md <? d + 1 then _ else _) as [rv pk1]. cbn [snd] in C.
    destruct rv as [[v st1]| | |]; cbn [snd]; try lia.
    assert (B := IE md d ek (n - 1) st1 base r (p + 1) Hd Hr).
    destruct (cdec_elems fl f md d ek (n - 1) st1 base r (p + 1)) as [rs pk2]. cbn [snd] in *. lia.
  - intros md d kk vk n st base r p Hd Hr. rewrite cdec_entries_S. cbv zeta.
    destruct (n =? 0); [cbn [snd]; lia|].
    assert (C1 := Hchild md d kk st (base + (r - p)) Hd).
    destruct (if md <? d + 1 then _ else _) as [rk pk1]. cbn [snd] in C1.
    destruct rk as [[k st1]| | |]; cbn [snd]; try lia.
    assert (C2 := Hchild md d vk st1 (base + (r - p)) Hd).
    destruct (if md <? d + 1 then _ else _) as [rx pk2]. cbn [snd] in C2.
    destruct rx as [[x st2]| | |]; cbn [snd]; try lia.
    assert (B := IM md d kk vk (n - 1) st2 base r (p + 1) Hd Hr).
    destruct (cdec_entries fl f md d kk vk (n - 1) st2 base r (p + 1)) as [rs pk3]. cbn [snd] in *. lia.
Qed.

Theorem decode_peak_bounded : forall md input, decode_peak fl md input <= 1024 * md.
Proof.
  intros md input. unfold decode_peak. destruct input as [|p st]; [lia|].
  destruct (negb (p =? payload_prefix fl)); [lia|].
  destruct (read_value_kind fl st) as [[k st']| | |]; try lia.
  destruct (md <? 0 + 1) eqn:C; [lia|]. apply N.ltb_ge in C.
  assert (B := proj1 (B_all (fuel_for (p :: st))) md (0 + 1) k st' 0 C). lia.
Qed.

(* the instrumented decoder is the decoder *)
Theorem cost_erasure : forall f md d k st base,
  fst (cdec_body fl f md d k st base) = dec_body fl f md d k st.
Proof. intro f. exact (proj1 (E_all f)). Qed.
End Alloc.
