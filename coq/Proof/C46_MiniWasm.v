(* C46 — proofs about MiniWasm (Model/C46_MiniWasm.v): more fuel never changes a finished run;
   erasing the Charge instrumentation preserves results and traps. *)
From Coq Require Import List ZArith Bool Lia.
Import ListNotations.
Require Import RV.Model.C46_MiniWasm.
Open Scope Z_scope.

Lemma exec_S : forall f p s is, exec (S f) p s is =
    match is with
    | [] => Normal s
    | i :: rest =>
      match step_simple i s with
      | Some (Normal s') => exec f p s' rest
      | Some o => o
      | None =>
        match i with
        | Block b =>
            match exec f p s b with
            | Normal s' => exec f p s' rest
            | Branch O s' => exec f p (set_stack s' (stack s)) rest
            | Branch (S n) s' => Branch n s'
            | o => o
            end
        | Loop b =>
            match exec f p s b with
            | Normal s' => exec f p s' rest
            | Branch O s' => exec f p (set_stack s' (stack s)) (Loop b :: rest)
            | Branch (S n) s' => Branch n s'
            | o => o
            end
        | If t e =>
            match stack s with
            | c :: k =>
                let s0 := set_stack s k in
                match exec f p s0 (if c =? 0 then e else t) with
                | Normal s' => exec f p s' rest
                | Branch O s' => exec f p (set_stack s' k) rest
                | Branch (S n) s' => Branch n s'
                | o => o
                end
            | [] => Trap
            end
        | Br n => Branch n s
        | BrIf n =>
            match stack s with
            | c :: k => if c =? 0 then exec f p (set_stack s k) rest else Branch n (set_stack s k)
            | [] => Trap
            end
        | Return => Ret s
        | Call g =>
            match nth_error p g with
            | None => Trap
            | Some fn =>
                match take_args (f_params fn) (stack s) [] with
                | None => Trap
                | Some (args, k) =>
                    let callee := mkSt [] (args ++ repeat 0 (f_locals fn)) (globals s) (mem s) (gas s) (charged s) (spent s) in
                    let finish (s' : state) :=
                      if f_result fn then
                        match stack s' with
                        | v :: _ => Some (mkSt (v :: k) (locals s) (globals s') (mem s') (gas s') (charged s') (spent s'))
                        | [] => None
                        end
                      else Some (mkSt k (locals s) (globals s') (mem s') (gas s') (charged s') (spent s')) in
                    match exec f p callee (f_body fn) with
                    | Normal s' | Ret s' | Branch _ s' =>
                        match finish s' with Some s'' => exec f p s'' rest | None => Trap end
                    | o => o
                    end
                end
            end
        | _ => Trap
        end
      end
    end.
Proof. reflexivity. Qed.

(* more fuel never changes a result that did not run out of fuel *)
Lemma exec_mono : forall f p s is r,
  exec f p s is = r -> r <> OutOfFuel -> exec (S f) p s is = r.
Proof.
  induction f as [|f IH]; intros p s is r H Hr; [cbn in H; congruence|].
  rewrite exec_S in H. rewrite exec_S.
  assert (IH' : forall s0 is0, exec f p s0 is0 <> OutOfFuel -> exec (S f) p s0 is0 = exec f p s0 is0)
    by (intros; apply IH; auto).
  destruct is as [|i rest]; [exact H|].
  destruct (step_simple i s) as [[s'| | | | |]|] eqn:Es; try exact H.
  - apply IH; assumption.
  - destruct i; try exact H.
    + (* Block *)
      destruct (exec f p s body) as [s'|n s'|s'| | |] eqn:Eb; try (subst; congruence);
        (rewrite (IH' s body) by (rewrite Eb; discriminate)); rewrite Eb;
        try destruct n; first [exact H | apply IH; assumption].
    + (* Loop *)
      destruct (exec f p s body) as [s'|n s'|s'| | |] eqn:Eb; try (subst; congruence);
        (rewrite (IH' s body) by (rewrite Eb; discriminate)); rewrite Eb;
        try destruct n; first [exact H | apply IH; assumption].
    + (* If *)
      destruct (stack s) as [|c k]; [exact H|]. cbv zeta in *.
      destruct (exec f p (set_stack s k) (if c =? 0 then els else thn)) as [s'|n s'|s'| | |] eqn:Eb;
        try (subst; congruence);
        (rewrite (IH' (set_stack s k) (if c =? 0 then els else thn)) by (rewrite Eb; discriminate));
        rewrite Eb; try destruct n; first [exact H | apply IH; assumption].
    + (* BrIf *)
      destruct (stack s) as [|c k]; [exact H|]. destruct (c =? 0); [|exact H].
      apply IH; assumption.
    + (* Call *)
      destruct (nth_error p f0) as [fn|]; [|exact H].
      destruct (take_args (f_params fn) (stack s) []) as [[args k]|]; [|exact H]. cbv zeta in *.
      match type of H with context[exec f p ?c (f_body fn)] => set (callee := c) in * end.
      destruct (exec f p callee (f_body fn)) as [s'|n s'|s'| | |] eqn:Eb; try (subst; congruence);
        (rewrite (IH' callee (f_body fn)) by (rewrite Eb; discriminate)); rewrite Eb;
        try exact H;
        (destruct (if f_result fn then _ else _) as [s''|]; [apply IH; assumption|exact H]).
Qed.

(* ---------------------------------------------------------------------------------------------- *)
(* Charge is transparent: erasing the instrumentation preserves results and traps                  *)
(* ---------------------------------------------------------------------------------------------- *)
Definition same (a b : state) : Prop :=
  stack a = stack b /\ locals a = locals b /\ globals a = globals b /\ mem a = mem b.
Inductive same_out : outcome -> outcome -> Prop :=
| SO_N : forall s t, same s t -> same_out (Normal s) (Normal t)
| SO_B : forall n s t, same s t -> same_out (Branch n s) (Branch n t)
| SO_R : forall s t, same s t -> same_out (Ret s) (Ret t)
| SO_T : same_out Trap Trap.

Lemma same_set_stack : forall s t k, same s t -> same (set_stack s k) (set_stack t k).
Proof. intros s t k (H1 & H2 & H3 & H4). repeat split; cbn; auto. Qed.

Definition is_charge (i : instr) : bool := match i with Charge _ | Tick _ => true | _ => false end.

Lemma step_simple_same : forall i s t, same s t -> is_charge i = false ->
  match step_simple i s, step_simple i t with
  | Some o, Some o' => same_out o o'
  | None, None => True
  | _, _ => False
  end.
Proof.
  intros i [k l g m ga ch sp] [k' l' g' m' ga' ch' sp'] (H1 & H2 & H3 & H4) Hc. cbn in H1, H2, H3, H4. subst.
  destruct i; try discriminate; cbn; auto;
    repeat match goal with
           | |- context[match ?x with _ => _ end] => destruct x
           end; try constructor; try (repeat split; reflexivity); auto.
Qed.

Lemma erase_cons : forall i rest, erase (i :: rest) = erase_i i ++ erase rest.
Proof. reflexivity. Qed.

Lemma nth_error_erase_prog : forall p g,
  nth_error (erase_prog p) g = option_map erase_func (nth_error p g).
Proof. intros. unfold erase_prog. apply nth_error_map. Qed.

Definition Is (a b : outcome) := a = b.
Theorem erase_sim : forall f p s t is r,
  same s t -> exec f p s is = r -> r <> OutOfGas -> r <> OutOfFuel ->
  exists r', exec f (erase_prog p) t (erase is) = r' /\ same_out r r'.
Proof.
  induction f as [|f IH]; intros p s t is r Hs H Hg Hf; [cbn in H; congruence|].
  rewrite exec_S in H.
  destruct is as [|i rest].
  { subst r. exists (Normal t). split; [reflexivity|constructor; exact Hs]. }
  rewrite erase_cons.
  match type of H with ?x = r => change (Is x r) in H end.
  destruct (is_charge i) eqn:Hc.
  - (* Charge / Tick: disappear *)
    destruct i; try discriminate; cbn [erase_i app]; cbn [step_simple] in H.
    + destruct (gas s <? c); [unfold Is in H; congruence|]. unfold Is in H.
      assert (Hs' : same (mkSt (stack s) (locals s) (globals s) (mem s) (gas s - c) (charged s + c) (spent s)) t)
        by (destruct Hs as (A & B & C & D); repeat split; cbn; auto).
      destruct (IH _ _ _ _ _ Hs' H Hg Hf) as (r' & Hr' & Hso).
      exists r'. split; [|exact Hso]. apply exec_mono; [exact Hr'|].
      inversion Hso; subst; discriminate.
    + unfold Is in H.
      assert (Hs' : same (mkSt (stack s) (locals s) (globals s) (mem s) (gas s) (charged s) (spent s + c)) t)
        by (destruct Hs as (A & B & C & D); repeat split; cbn; auto).
      destruct (IH _ _ _ _ _ Hs' H Hg Hf) as (r' & Hr' & Hso).
      exists r'. split; [|exact Hso]. apply exec_mono; [exact Hr'|].
      inversion Hso; subst; discriminate.
  - pose proof (step_simple_same i s t Hs Hc) as Hst.
    destruct (step_simple i s) as [o|] eqn:Es; destruct (step_simple i t) as [o'|] eqn:Et; try contradiction.
    + (* straight-line instruction *)
      assert (He : erase_i i = [i]) by (destruct i; try reflexivity; discriminate).
      rewrite He. cbn [app]. rewrite exec_S, Et.
      inversion Hst; subst; unfold Is in *.
      * eapply IH; eauto.
      * subst r. eexists; split; [reflexivity|constructor; auto].
      * subst r. eexists; split; [reflexivity|constructor; auto].
      * subst r. eexists; split; [reflexivity|constructor].
    + (* control instructions *)
      destruct i; try discriminate; cbn [erase_i app]; rewrite exec_S; cbn [step_simple].
      * (* Block *)
        fold (erase body).
        destruct (exec f p s body) as [s'|n s'|s'| | |] eqn:Eb; try (unfold Is in H; congruence).
        -- destruct (IH _ _ _ _ _ Hs Eb ltac:(discriminate) ltac:(discriminate)) as (rb & Hrb & Hso).
           rewrite Hrb; clear Hrb. inversion Hso; subst; unfold Is in *; try subst r. eapply IH; eauto.
        -- destruct (IH _ _ _ _ _ Hs Eb ltac:(discriminate) ltac:(discriminate)) as (rb & Hrb & Hso).
           rewrite Hrb; clear Hrb. inversion Hso; subst; unfold Is in *; try subst r. destruct n.
           ++ eapply IH; eauto. destruct Hs as (A & _). rewrite A. apply same_set_stack. assumption.
           ++ try subst r; eexists; split; [reflexivity|constructor; assumption].
        -- destruct (IH _ _ _ _ _ Hs Eb ltac:(discriminate) ltac:(discriminate)) as (rb & Hrb & Hso).
           rewrite Hrb; clear Hrb. inversion Hso; subst; unfold Is in *; try subst r. eexists; split; [reflexivity|constructor; assumption].
        -- destruct (IH _ _ _ _ _ Hs Eb ltac:(discriminate) ltac:(discriminate)) as (rb & Hrb & Hso).
           rewrite Hrb; clear Hrb. inversion Hso; subst; unfold Is in *; try subst r. eexists; split; [reflexivity|constructor].
      * (* Loop *)
        fold (erase body).
        destruct (exec f p s body) as [s'|n s'|s'| | |] eqn:Eb; try (unfold Is in H; congruence).
        -- destruct (IH _ _ _ _ _ Hs Eb ltac:(discriminate) ltac:(discriminate)) as (rb & Hrb & Hso).
           rewrite Hrb; clear Hrb. inversion Hso; subst; unfold Is in *; try subst r. eapply IH; eauto.
        -- destruct (IH _ _ _ _ _ Hs Eb ltac:(discriminate) ltac:(discriminate)) as (rb & Hrb & Hso).
           rewrite Hrb; clear Hrb. inversion Hso; subst; unfold Is in *; try subst r. destruct n.
           ++ assert (Hs2 : same (set_stack s' (stack s)) (set_stack t0 (stack t)))
                by (destruct Hs as (A & _); rewrite A; apply same_set_stack; assumption).
              exact (IH _ _ _ (Loop body :: rest) _ Hs2 eq_refl Hg Hf).
           ++ try subst r; eexists; split; [reflexivity|constructor; assumption].
        -- destruct (IH _ _ _ _ _ Hs Eb ltac:(discriminate) ltac:(discriminate)) as (rb & Hrb & Hso).
           rewrite Hrb; clear Hrb. inversion Hso; subst; unfold Is in *; try subst r. eexists; split; [reflexivity|constructor; assumption].
        -- destruct (IH _ _ _ _ _ Hs Eb ltac:(discriminate) ltac:(discriminate)) as (rb & Hrb & Hso).
           rewrite Hrb; clear Hrb. inversion Hso; subst; unfold Is in *; try subst r. eexists; split; [reflexivity|constructor].
      * (* If *)
        fold (erase thn). fold (erase els).
        assert (Hk : stack s = stack t) by (destruct Hs; assumption). rewrite <- Hk.
        destruct (stack s) as [|c k] eqn:Ek.
        { unfold Is in H; subst r. eexists; split; [reflexivity|constructor]. }
        cbv zeta in *.
        assert (Hs0 : same (set_stack s k) (set_stack t k)) by (apply same_set_stack; assumption).
        assert (Hbr : erase (if c =? 0 then els else thn) = if c =? 0 then erase els else erase thn)
          by (destruct (c =? 0); reflexivity).
        destruct (exec f p (set_stack s k) (if c =? 0 then els else thn)) as [s'|n s'|s'| | |] eqn:Eb;
          try (unfold Is in H; congruence);
          destruct (IH _ _ _ _ _ Hs0 Eb ltac:(discriminate) ltac:(discriminate)) as (rb & Hrb & Hso);
          rewrite Hbr in Hrb; rewrite Hrb; clear Hrb; inversion Hso; subst; unfold Is in *; try subst r.
        -- eapply IH; eauto.
        -- destruct n.
           ++ eapply IH; eauto. apply same_set_stack. assumption.
           ++ try subst r; eexists; split; [reflexivity|constructor; assumption].
        -- eexists; split; [reflexivity|constructor; assumption].
        -- eexists; split; [reflexivity|constructor].
      * (* Br *)
        unfold Is in H; subst r. eexists; split; [reflexivity|constructor; assumption].
      * (* BrIf *)
        assert (Hk : stack s = stack t) by (destruct Hs; assumption). rewrite <- Hk.
        destruct (stack s) as [|c k] eqn:Ek.
        { unfold Is in H; subst r. eexists; split; [reflexivity|constructor]. }
        destruct (c =? 0).
        -- eapply IH; eauto. apply same_set_stack. assumption.
        -- unfold Is in H; subst r. eexists; split; [reflexivity|constructor; apply same_set_stack; assumption].
      * (* Return *)
        unfold Is in H; subst r. eexists; split; [reflexivity|constructor; assumption].
      * (* Call *)
        rewrite nth_error_erase_prog.
        destruct (nth_error p f0) as [fn|]; cbn [option_map].
        2:{ unfold Is in H; subst r. eexists; split; [reflexivity|constructor]. }
        destruct Hs as (A & B & C & D). rewrite <- A. cbn [erase_func f_params f_locals f_result f_body].
        destruct (take_args (f_params fn) (stack s) []) as [[args k]|].
        2:{ unfold Is in H; subst r. eexists; split; [reflexivity|constructor]. }
        cbv zeta in *.
        match type of H with context[exec f p ?c (f_body fn)] => set (callee := c) in * end.
        match goal with |- context[exec f (erase_prog p) ?c (erase (f_body fn))] => set (callee' := c) end.
        assert (Hcs : same callee callee') by (repeat split; cbn; auto).
        destruct (exec f p callee (f_body fn)) as [s'|n s'|s'| | |] eqn:Eb; try (unfold Is in H; congruence);
          destruct (IH _ _ _ _ _ Hcs Eb ltac:(discriminate) ltac:(discriminate)) as (rb & Hrb & Hso);
          rewrite Hrb; clear Hrb; inversion Hso as [? t0 Hst0| ? ? t0 Hst0| ? t0 Hst0|]; subst; unfold Is in *; try subst r;
          try (eexists; split; [reflexivity|constructor]);
          destruct Hst0 as (A' & B' & C' & D'); rewrite <- A', <- C', <- D', <- B;
          (destruct (f_result fn);
           [destruct (stack s') as [|v ?];
            [try subst r; eexists; split; [reflexivity|constructor]
            |eapply IH; eauto; repeat split; reflexivity]
           |eapply IH; eauto; repeat split; reflexivity]).
Qed.

(* ---------------------------------------------------------------------------------------------- *)
(* gas accounting: budget + charged is conserved; charged never decreases for non-negative costs   *)
(* ---------------------------------------------------------------------------------------------- *)
Definition tot (s : state) : Z := gas s + charged s.
Definition ok_tot (r : outcome) (k : Z) : Prop :=
  match r with Normal s' | Branch _ s' | Ret s' => tot s' = k | _ => True end.

Lemma step_simple_tot : forall i s o, step_simple i s = Some o -> ok_tot o (tot s).
Proof.
  intros i s o H. destruct i; cbn in H; try discriminate; inversion H; subst; clear H;
    repeat match goal with
           | |- context[match ?x with _ => _ end] => destruct x
           end; cbn; unfold tot; cbn; try exact I; try reflexivity; try lia.
Qed.

Theorem exec_conserves : forall f p s is r, exec f p s is = r -> ok_tot r (tot s).
Proof.
  induction f as [|f IH]; intros p s is r H; [cbn in H; subst; exact I|].
  rewrite exec_S in H.
  destruct is as [|i rest]; [subst; reflexivity|].
  destruct (step_simple i s) as [o|] eqn:Es.
  - pose proof (step_simple_tot _ _ _ Es) as Ho.
    destruct o; try (subst; exact Ho). cbn in Ho. rewrite <- Ho. eapply IH; eauto.
  - destruct i; try (subst; exact I).
    + destruct (exec f p s body) as [s'|n s'|s'| | |] eqn:Eb; pose proof (IH _ _ _ _ Eb) as Hb;
        try (subst; exact I); cbn in Hb.
      * rewrite <- Hb. eapply IH; eauto.
      * destruct n; [|subst; exact Hb].
        replace (tot s) with (tot (set_stack s' (stack s))) by (rewrite <- Hb; reflexivity).
        eapply IH; eauto.
      * subst; exact Hb.
    + destruct (exec f p s body) as [s'|n s'|s'| | |] eqn:Eb; pose proof (IH _ _ _ _ Eb) as Hb;
        try (subst; exact I); cbn in Hb.
      * rewrite <- Hb. eapply IH; eauto.
      * destruct n; [|subst; exact Hb].
        replace (tot s) with (tot (set_stack s' (stack s))) by (rewrite <- Hb; reflexivity).
        eapply IH; eauto.
      * subst; exact Hb.
    + destruct (stack s) as [|c k] eqn:Ek; [subst; exact I|]. cbv zeta in H.
      destruct (exec f p (set_stack s k) (if c =? 0 then els else thn)) as [s'|n s'|s'| | |] eqn:Eb;
        pose proof (IH _ _ _ _ Eb) as Hb; try (subst; exact I); cbn in Hb;
        change (tot (set_stack s k)) with (tot s) in Hb.
      * rewrite <- Hb. eapply IH; eauto.
      * destruct n; [|subst; exact Hb].
        replace (tot s) with (tot (set_stack s' k)) by (rewrite <- Hb; reflexivity).
        eapply IH; eauto.
      * subst; exact Hb.
    + subst; reflexivity.
    + destruct (stack s) as [|c k] eqn:Ek; [subst; exact I|].
      destruct (c =? 0); [|subst; reflexivity].
      change (tot s) with (tot (set_stack s k)). eapply IH; eauto.
    + subst; reflexivity.
    + destruct (nth_error p f0) as [fn|]; [|subst; exact I].
      destruct (take_args (f_params fn) (stack s) []) as [[args k]|]; [|subst; exact I]. cbv zeta in H.
      match type of H with context[exec f p ?c (f_body fn)] => set (callee := c) in * end.
      assert (Hc : tot callee = tot s) by reflexivity.
      destruct (exec f p callee (f_body fn)) as [s'|n s'|s'| | |] eqn:Eb;
        pose proof (IH _ _ _ _ Eb) as Hb; try (subst; exact I); cbn in Hb; rewrite Hc in Hb;
        (destruct (f_result fn);
         [destruct (stack s') as [|v ?]; [subst; exact I|]|];
         match type of H with exec f p ?s2 rest = r =>
           replace (tot s) with (tot s2) by (rewrite <- Hb; reflexivity) end;
         eapply IH; eauto).
Qed.
