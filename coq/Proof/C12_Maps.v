(* C12 — lemmas on association lists / sorted maps / IndexMap model used by the Track proofs. *)
From Coq Require Import List NArith Bool Lia.
Import ListNotations.
Require Import RV.Model.C12_Track RV.Model.C12_View.
Open Scope N_scope.

Lemma eqb_sym_N : forall a b : N, (a =? b) = (b =? a).
Proof. intros. apply N.eqb_sym. Qed.

(* ---------- al_get / im_set ---------- *)
Lemma al_get_im_set : forall A k k' (a : A) l,
  al_get k (im_set k' a l) = if k =? k' then Some a else al_get k l.
Proof.
  induction l as [|[k0 a0] r IH]; simpl.
  - destruct (k =? k'); reflexivity.
  - destruct (k' =? k0) eqn:E; simpl.
    + apply N.eqb_eq in E; subst. destruct (k =? k0); reflexivity.
    + destruct (k =? k0) eqn:E2.
      * apply N.eqb_eq in E2; subst. rewrite N.eqb_sym, E. reflexivity.
      * apply IH.
Qed.

Lemma im_set_keys_in : forall A k (a : A) l x, In x (map fst (im_set k a l)) <-> x = k \/ In x (map fst l).
Proof.
  induction l as [|[k0 a0] r IH]; simpl; intros.
  - intuition.
  - destruct (k =? k0) eqn:E; simpl.
    + apply N.eqb_eq in E; subst. intuition.
    + rewrite IH. intuition.
Qed.

Lemma im_set_nodup : forall A k (a : A) l, NoDup (map fst l) -> NoDup (map fst (im_set k a l)).
Proof.
  induction l as [|[k0 a0] r IH]; simpl; intros H.
  - constructor; [intros []|constructor].
  - inversion H; subst. destruct (k =? k0) eqn:E; simpl.
    + apply N.eqb_eq in E; subst. constructor; assumption.
    + constructor; [|auto]. rewrite im_set_keys_in. intros [->|Hin]; [rewrite N.eqb_refl in E; discriminate|contradiction].
Qed.

Lemma al_get_in : forall A k (a : A) l, al_get k l = Some a -> In (k, a) l.
Proof.
  induction l as [|[k0 a0] r IH]; simpl; intros H; [discriminate|].
  destruct (k =? k0) eqn:E.
  - apply N.eqb_eq in E; subst. inversion H; subst. left; reflexivity.
  - right; auto.
Qed.
Lemma al_get_none_notin : forall A k (l : list (N * A)), al_get k l = None <-> ~ In k (map fst l).
Proof.
  induction l as [|[k0 a0] r IH]; simpl.
  - intuition.
  - destruct (k =? k0) eqn:E.
    + apply N.eqb_eq in E; subst. split; [discriminate|intros H; exfalso; apply H; left; reflexivity].
    + rewrite IH. apply N.eqb_neq in E. split; [intros H [->|H']; [congruence|contradiction]|intros H H'; apply H; right; exact H'].
Qed.
Lemma al_get_some_in : forall A k (l : list (N * A)), al_get k l <> None <-> In k (map fst l).
Proof.
  intros. rewrite al_get_none_notin. destruct (in_dec N.eq_dec k (map fst l)); intuition.
Qed.
Lemma in_nodup_al_get : forall A k (a : A) l, NoDup (map fst l) -> In (k, a) l -> al_get k l = Some a.
Proof.
  induction l as [|[k0 a0] r IH]; simpl; intros Hn Hi; [contradiction|].
  destruct Hi as [H|H]; inversion Hn; subst.
  - inversion H; subst. rewrite N.eqb_refl. reflexivity.
  - destruct (k =? k0) eqn:E; [|auto].
    apply N.eqb_eq in E; subst. exfalso. apply H2. change k0 with (fst (k0, a)). apply in_map. exact H.
Qed.

(* ---------- sorted ---------- *)
Lemma sorted_from_weaken : forall A lo lo' (l : list (N * A)), lo' <= lo -> sorted_from lo l -> sorted_from lo' l.
Proof. destruct l as [|[k a] r]; simpl; intros; [trivial|]. destruct H0. split; [lia|assumption]. Qed.
Lemma sorted_from_sorted : forall A lo (l : list (N * A)), sorted_from lo l -> sorted l.
Proof. destruct l as [|[k a] r]; simpl; intros; [trivial|tauto]. Qed.
Lemma sorted_from_lt : forall A lo (l : list (N * A)) k, sorted_from lo l -> In k (map fst l) -> lo < k.
Proof.
  intros A lo l; revert lo. induction l as [|[k0 a0] r IH]; simpl; intros lo k H Hin; [contradiction|].
  destruct H as [H1 H2]. destruct Hin as [->|Hin]; [assumption|]. specialize (IH _ _ H2 Hin). lia.
Qed.
Lemma sorted_from_get_none : forall A lo (l : list (N * A)) k, sorted_from lo l -> k <= lo -> al_get k l = None.
Proof.
  intros. apply al_get_none_notin. intros Hin. pose proof (sorted_from_lt _ _ _ _ H Hin). lia.
Qed.
Lemma sorted_cons : forall A k (a : A) r, sorted ((k, a) :: r) <-> sorted_from k r.
Proof. intros. simpl. tauto. Qed.
Lemma sorted_tail : forall A (e : N * A) r, sorted (e :: r) -> sorted r.
Proof. intros A [k a] r H. simpl in H. eapply sorted_from_sorted; eauto. Qed.
Lemma sorted_nodup : forall A (l : list (N * A)), sorted l -> NoDup (map fst l).
Proof.
  induction l as [|[k a] r IH]; simpl; intros H; constructor.
  - intros Hin. pose proof (sorted_from_lt _ _ _ _ H Hin). lia.
  - apply IH. eapply sorted_from_sorted; eauto.
Qed.

(* two sorted lists with the same lookups are equal *)
Lemma sorted_ext : forall A (l1 l2 : list (N * A)),
  sorted l1 -> sorted l2 -> (forall k, al_get k l1 = al_get k l2) -> l1 = l2.
Proof.
  induction l1 as [|[k1 a1] r1 IH]; intros [|[k2 a2] r2] H1 H2 He.
  - reflexivity.
  - specialize (He k2). simpl in He. rewrite N.eqb_refl in He. discriminate.
  - specialize (He k1). simpl in He. rewrite N.eqb_refl in He. discriminate.
  - simpl in H1, H2.
    assert (k1 = k2).
    { pose proof (He k1) as E1. pose proof (He k2) as E2. simpl in E1, E2.
      rewrite N.eqb_refl in E1, E2.
      destruct (N.lt_trichotomy k1 k2) as [Hlt|[->|Hgt]]; [|reflexivity|].
      - assert (k1 =? k2 = false) by (apply N.eqb_neq; lia). rewrite H in E1.
        rewrite (sorted_from_get_none _ k2 r2 k1) in E1 by (auto; lia). discriminate.
      - assert (k2 =? k1 = false) by (apply N.eqb_neq; lia). rewrite H in E2.
        rewrite (sorted_from_get_none _ k1 r1 k2) in E2 by (auto; lia). discriminate. }
    subst k2.
    pose proof (He k1) as E. simpl in E. rewrite N.eqb_refl in E. inversion E; subst a2.
    f_equal. apply IH.
    + eapply sorted_from_sorted; eauto.
    + eapply sorted_from_sorted; eauto.
    + intros k. specialize (He k). simpl in He. destruct (k =? k1) eqn:Ek; [|assumption].
      apply N.eqb_eq in Ek; subst.
      rewrite (sorted_from_get_none _ k1 r1 k1), (sorted_from_get_none _ k1 r2 k1); auto; lia.
Qed.

(* ---------- sm_put / sm_del ---------- *)
Lemma al_get_sm_put : forall A k k' (a : A) l,
  al_get k (sm_put k' a l) = if k =? k' then Some a else al_get k l.
Proof.
  induction l as [|[k0 a0] r IH]; simpl.
  - destruct (k =? k'); reflexivity.
  - destruct (k' <? k0) eqn:E1; simpl.
    + destruct (k =? k'); reflexivity.
    + destruct (k' =? k0) eqn:E2; simpl.
      * apply N.eqb_eq in E2; subst. destruct (k =? k0); reflexivity.
      * destruct (k =? k0) eqn:E3.
        -- apply N.eqb_eq in E3; subst. rewrite N.eqb_sym, E2. reflexivity.
        -- apply IH.
Qed.
Lemma sm_put_sorted_from : forall A lo k (a : A) l, sorted_from lo l -> lo < k -> sorted_from lo (sm_put k a l).
Proof.
  intros A lo k a l; revert lo. induction l as [|[k0 a0] r IH]; simpl; intros lo H Hlt.
  - auto.
  - destruct H as [H1 H2]. destruct (k <? k0) eqn:E1.
    + apply N.ltb_lt in E1. simpl. auto.
    + apply N.ltb_ge in E1. destruct (k =? k0) eqn:E2.
      * apply N.eqb_eq in E2; subst. simpl. auto.
      * apply N.eqb_neq in E2. simpl. split; [assumption|]. apply IH; [assumption|lia].
Qed.
Lemma sm_put_sorted : forall A k (a : A) l, sorted l -> sorted (sm_put k a l).
Proof.
  destruct l as [|[k0 a0] r]; simpl; intros H; [trivial|].
  destruct (k <? k0) eqn:E1.
  - apply N.ltb_lt in E1. simpl. auto.
  - apply N.ltb_ge in E1. destruct (k =? k0) eqn:E2.
    + apply N.eqb_eq in E2; subst. simpl. auto.
    + apply N.eqb_neq in E2. simpl. apply sm_put_sorted_from; [assumption|lia].
Qed.
Lemma sm_put_keys : forall A k (a : A) l x, In x (map fst (sm_put k a l)) <-> x = k \/ In x (map fst l).
Proof.
  intros. rewrite <- !al_get_some_in, al_get_sm_put. destruct (x =? k) eqn:E.
  - apply N.eqb_eq in E. subst. split; [auto|discriminate].
  - apply N.eqb_neq in E. intuition.
Qed.

Lemma sm_del_sorted_from : forall A lo k (l : list (N * A)), sorted_from lo l -> sorted_from lo (sm_del k l).
Proof.
  intros A lo k l; revert lo. induction l as [|[k0 a0] r IH]; simpl; intros lo H; [trivial|].
  destruct H as [H1 H2]. destruct (k =? k0).
  - eapply sorted_from_weaken; [|eassumption]. lia.
  - simpl. auto.
Qed.
Lemma sm_del_sorted : forall A k (l : list (N * A)), sorted l -> sorted (sm_del k l).
Proof.
  destruct l as [|[k0 a0] r]; simpl; intros H; [trivial|].
  destruct (k =? k0); [eapply sorted_from_sorted; eauto|]. simpl. apply sm_del_sorted_from; assumption.
Qed.
Lemma al_get_sm_del : forall A k k' (l : list (N * A)), sorted l ->
  al_get k (sm_del k' l) = if k =? k' then None else al_get k l.
Proof.
  induction l as [|[k0 a0] r IH]; simpl; intros H.
  - destruct (k =? k'); reflexivity.
  - destruct (k' =? k0) eqn:E.
    + apply N.eqb_eq in E; subst. destruct (k =? k0) eqn:E2; [|reflexivity].
      apply N.eqb_eq in E2; subst. apply sorted_from_get_none with (lo := k0); [assumption|lia].
    + simpl. destruct (k =? k0) eqn:E2.
      * apply N.eqb_eq in E2; subst. rewrite N.eqb_sym, E. reflexivity.
      * apply IH. eapply sorted_from_sorted; eauto.
Qed.

Lemma al_get_map_snd : forall A B (f : A -> B) k (l : list (N * A)),
  al_get k (map (fun e => (fst e, f (snd e))) l) = option_map f (al_get k l).
Proof.
  induction l as [|[k0 a0] r IH]; simpl; [reflexivity|]. destruct (k =? k0); [reflexivity|apply IH].
Qed.
Lemma map_snd_keys : forall A B (f : A -> B) (l : list (N * A)),
  map fst (map (fun e => (fst e, f (snd e))) l) = map fst l.
Proof. induction l as [|[k0 a0] r IH]; simpl; congruence. Qed.
Lemma map_snd_sorted_from : forall A B (f : A -> B) lo (l : list (N * A)),
  sorted_from lo l -> sorted_from lo (map (fun e => (fst e, f (snd e))) l).
Proof.
  intros A B f lo l; revert lo. induction l as [|[k0 a0] r IH]; simpl; intros lo H; [trivial|].
  destruct H; split; auto.
Qed.
Lemma map_snd_sorted : forall A B (f : A -> B) (l : list (N * A)),
  sorted l -> sorted (map (fun e => (fst e, f (snd e))) l).
Proof.
  destruct l as [|[k0 a0] r]; simpl; intros H; [trivial|]. apply map_snd_sorted_from; assumption.
Qed.

Lemma al_get_filter_snd : forall A (f : A -> bool) k (l : list (N * A)),
  NoDup (map fst l) ->
  al_get k (filter (fun e => f (snd e)) l) =
  match al_get k l with Some a => if f a then Some a else None | None => None end.
Proof.
  induction l as [|[k0 a0] r IH]; simpl; intros H; [reflexivity|].
  inversion H; subst. destruct (k =? k0) eqn:E.
  - apply N.eqb_eq in E; subst. destruct (f a0) eqn:F; simpl.
    + rewrite N.eqb_refl. reflexivity.
    + rewrite IH by assumption. apply al_get_none_notin in H2. rewrite H2. reflexivity.
  - destruct (f a0); simpl; [rewrite E|]; apply IH; assumption.
Qed.
Lemma filter_keys_nodup : forall A (f : N * A -> bool) (l : list (N * A)),
  NoDup (map fst l) -> NoDup (map fst (filter f l)).
Proof.
  induction l as [|e r IH]; simpl; intros H; [constructor|].
  inversion H; subst. destruct (f e); simpl; [|auto].
  constructor; [|auto]. intros Hin. apply H2. apply in_map_iff in Hin. destruct Hin as [x [Hx Hin]].
  apply filter_In in Hin. destruct Hin as [Hin _]. rewrite <- Hx. apply in_map. exact Hin.
Qed.
