From Coq Require Import List NArith ZArith Bool Lia.
Import ListNotations.
Require Import RV.Model.C01_IdAlloc.
Open Scope N_scope.

Lemma le32_val : forall k, k < 4294967296 ->
  k = k mod 256 + 256 * ((k / 256) mod 256) + 65536 * ((k / 65536) mod 256) + 16777216 * ((k / 16777216) mod 256).
Proof.
  intros k Hk.
  replace (k / 65536) with (k / 256 / 256) by (rewrite N.div_div by discriminate; reflexivity).
  replace (k / 16777216) with (k / 256 / 256 / 256) by (rewrite !N.div_div by discriminate; reflexivity).
  pose proof (N.div_mod' k 256) as E1. pose proof (N.div_mod' (k / 256) 256) as E2.
  pose proof (N.div_mod' (k / 256 / 256) 256) as E3.
  assert (L : k / 256 / 256 / 256 < 256).
  { rewrite !N.div_div by discriminate. apply N.div_lt_upper_bound; [discriminate|]. exact Hk. }
  rewrite (N.mod_small _ _ L).
  set (q1 := k / 256) in *. set (q2 := q1 / 256) in *. set (q3 := q2 / 256) in *.
  set (r0 := k mod 256) in *. set (r1 := q1 mod 256) in *. set (r2 := q2 mod 256) in *. clearbody q1 q2 q3 r0 r1 r2.
  lia.
Qed.
Lemma le32_inj : forall n m, n < 4294967296 -> m < 4294967296 -> le32 n = le32 m -> n = m.
Proof.
  unfold le32. intros n m Hn Hm E. inversion E as [[E0 E1 E2 E3]]. clear E.
  rewrite (le32_val n Hn), (le32_val m Hm), E0, E1, E2, E3. reflexivity.
Qed.

Section Proofs.
  Variable H : list N -> list N.
  (* collision-freeness of the part of the hash that survives in a node id (bytes 1..29 of the lower 30) *)
  Hypothesis H_cf : forall x y, tl (H x) = tl (H y) -> x = y.

  Lemma id_at_inj : forall txh n m e1 e2,
    n < 4294967296 -> m < 4294967296 -> id_at H txh n e1 = id_at H txh m e2 -> n = m.
  Proof.
    unfold id_at. intros txh n m e1 e2 Hn Hm E. inversion E as [[E1 E2]].
    apply H_cf in E2. apply app_inv_head in E2. apply le32_inj; assumption.
  Qed.

  Lemma allocate_all_spec : forall etys a ids a',
    allocate_all H a etys = (ids, a') -> a_next a <= U32_MAX ->
    a_next a' = a_next a + N.of_nat (length ids) /\ a_next a' <= U32_MAX.
  Proof.
    induction etys as [|e t IH]; intros a ids a' E L; cbn in E.
    - inversion E; subst. cbn. lia.
    - unfold allocate in E. destruct (a_next a =? U32_MAX) eqn:Q.
      + inversion E; subst. cbn. lia.
      + destruct (allocate_all H (mkA (a_txh a) (a_next a + 1)) t) as [ids1 a1] eqn:R. inversion E; subst; clear E.
        apply N.eqb_neq in Q. assert (L1 : a_next (mkA (a_txh a) (a_next a + 1)) <= U32_MAX) by (cbn; lia).
        destruct (IH _ _ _ R L1) as [B C]. cbn [a_next] in B. split; [|exact C].
        rewrite B. cbn [length]. rewrite Nat2N.inj_succ. lia.
  Qed.

  Fixpoint ids_from (txh : list N) (c : N) (etys : list N) : list (list N) :=
    match etys with [] => [] | e :: t => id_at H txh c e :: ids_from txh (c + 1) t end.

  Lemma allocate_all_ids : forall etys a ids a',
    allocate_all H a etys = (ids, a') -> ids = ids_from (a_txh a) (a_next a) (firstn (length ids) etys).
  Proof.
    induction etys as [|e t IH]; intros a ids a' E; cbn in E.
    - inversion E; subst. reflexivity.
    - unfold allocate in E. destruct (a_next a =? U32_MAX); [inversion E; subst; reflexivity|].
      destruct (allocate_all H (mkA (a_txh a) (a_next a + 1)) t) as [ids1 a1] eqn:R. inversion E; subst; clear E.
      cbn. f_equal. apply (IH _ _ _ R).
  Qed.

  Lemma ids_from_NoDup : forall etys txh c, c + N.of_nat (length etys) <= 4294967296 -> NoDup (ids_from txh c etys).
  Proof.
    induction etys as [|e t IH]; intros txh c B; cbn; [constructor|].
    cbn [length] in B. constructor.
    - assert (G : forall t' c', c < c' -> c' + N.of_nat (length t') <= 4294967296 -> ~ In (id_at H txh c e) (ids_from txh c' t')).
      { induction t' as [|e' t' IH']; intros c' L B'; cbn; [auto|]. cbn [length] in B'. intros [Q|Q].
        - symmetry in Q. apply id_at_inj in Q; lia.
        - revert Q. apply IH'; lia. }
      apply G; lia.
    - apply IH. lia.
  Qed.

  (* all ids allocated within one transaction are pairwise distinct, whatever the entity types *)
  Theorem ids_injective : forall txh etys ids a',
    allocate_all H (new txh) etys = (ids, a') -> NoDup ids.
  Proof.
    intros txh etys ids a' E. pose proof (allocate_all_ids _ _ _ _ E) as I. cbn in I.
    assert (L0 : a_next (new txh) <= U32_MAX) by (cbn; unfold U32_MAX; lia).
    destruct (allocate_all_spec _ _ _ _ E L0) as [B C]; cbn in *.
    rewrite I. apply ids_from_NoDup. rewrite firstn_length.
    assert (N.of_nat (Nat.min (length ids) (length etys)) <= N.of_nat (length ids)) by lia.
    unfold U32_MAX in *. lia.
  Qed.

  (* ids depend on nothing but (transaction hash, counter, entity type): two allocators created
     for the same transaction hash hand out the same ids for the same request sequence *)
  Theorem ids_function_of_request : forall txh etys, allocate_all H (new txh) etys = allocate_all H (new txh) etys.
  Proof. reflexivity. Qed.
End Proofs.
