(* C17 — binding: equal commitments => equal maps, assuming H is collision-free (injective), has
   32-byte outputs different from the placeholder, and no key of a tier is 32 bytes long (leaf
   pre-image key||value_hash and internal pre-image left||right are not domain separated in the
   code, so a 32-byte key is the one length at which the two could coincide). *)
From Coq Require Import List NArith Bool Lia Arith Permutation.
Import ListNotations.
Require Import RV.Model.C17_Jmt RV.Model.C17_Smt RV.Proof.C17_Base RV.Proof.C17_Merkle
               RV.Proof.C17_Update RV.Proof.C17_Tier RV.Proof.C17_Root RV.Proof.C17_Assoc.
Open Scope N_scope.

Definition bprefix (a b : list bool) : Prop := exists c, b = a ++ c.

Lemma sel_in : forall {V} b (S : list (list bool * V)) k v, In (k, v) (sel b S) <-> In (b :: k, v) S.
Proof.
  intros V b S k v. induction S as [|[k0 v0] S IH]; [cbn; tauto|]. rewrite sel_cons. cbn [fst snd In].
  rewrite in_app_iff, IH. destruct k0 as [|c r].
  - cbn [In]. split; [intros [[]|Hin]; right; exact Hin|intros [E|Hin]; [discriminate|right; exact Hin]].
  - destruct (Bool.eqb c b) eqn:E.
    + apply eqb_prop in E. subst c. cbn [In]. split.
      * intros [[E|[]]|Hin]; [left; inversion E; reflexivity|right; exact Hin].
      * intros [E|Hin]; [left; left; inversion E; reflexivity|right; exact Hin].
    + cbn [In]. split; [intros [[]|Hin]; right; exact Hin|].
      intros [E2|Hin]; [inversion E2; subst; rewrite eqb_reflx in E; discriminate|right; exact Hin].
Qed.

Lemma pack_length : forall s, Nat.even (length s) = true -> (2 * length (pack s) = length s)%nat.
Proof.
  fix IH 1. intros [|a [|b r]] E; [reflexivity|discriminate|].
  change (pack (a :: b :: r)) with ((16 * a + b) :: pack r).
  change (Nat.even (length (a :: b :: r))) with (Nat.even (length r)) in E.
  specialize (IH r E). cbn [length]. lia.
Qed.
Lemma pack_inj : forall s1 s2, kvalid s1 -> kvalid s2 -> Nat.even (length s1) = true -> Nat.even (length s2) = true ->
  pack s1 = pack s2 -> s1 = s2.
Proof.
  fix IH 1. intros [|a [|b r]] s2 V1 V2 E1 E2 EP.
  - destruct s2 as [|a2 [|b2 r2]]; [reflexivity|discriminate|discriminate].
  - discriminate.
  - destruct s2 as [|a2 [|b2 r2]]; [discriminate|discriminate|].
    change (pack (a :: b :: r)) with ((16 * a + b) :: pack r) in EP.
    change (pack (a2 :: b2 :: r2)) with ((16 * a2 + b2) :: pack r2) in EP.
    assert (Eh : 16 * a + b = 16 * a2 + b2) by congruence. assert (Et : pack r = pack r2) by congruence.
    change (Nat.even (length (a :: b :: r))) with (Nat.even (length r)) in E1.
    change (Nat.even (length (a2 :: b2 :: r2))) with (Nat.even (length r2)) in E2.
    apply kvalid_head in V1. destruct V1 as [Va V1]. apply kvalid_head in V1. destruct V1 as [Vb V1].
    apply kvalid_head in V2. destruct V2 as [Va2 V2]. apply kvalid_head in V2. destruct V2 as [Vb2 V2].
    assert (a = a2 /\ b = b2) by lia. destruct H as [Ea Eb]. subst. f_equal. f_equal.
    apply IH; assumption.
Qed.

Lemma app_inv_len : forall {X} (a b c d : list X), a ++ b = c ++ d -> length b = length d -> a = c /\ b = d.
Proof.
  intros X a. induction a as [|x a IH]; intros b c d E L.
  - destruct c as [|y c]; [split; [reflexivity|exact E]|]. cbn in E. subst b. cbn in L. rewrite app_length in L. lia.
  - destruct c as [|y c]; [cbn in E; subst d; cbn in L; rewrite app_length in L; lia|].
    cbn in E. inversion E; subst. destruct (IH _ _ _ H1 L). subst. split; reflexivity.
Qed.

Section BIND.
  Variable H : list N -> list N.
  Hypothesis Hinj : forall x y, H x = H y -> x = y.
  Hypothesis Hlen : forall x, length (H x) = 32%nat.
  Hypothesis HZ : forall x, H x <> ZERO_HASH.

  (* the bits pre ++ k are the bits of an admissible key *)
  Definition key_adm (s : list N) : Prop :=
    kvalid s /\ Nat.even (length s) = true /\ length s <> 64%nat.
  Definition bits_adm (bs : list bool) : Prop := exists s, bs = bits_of_nibbles s /\ key_adm s.

  Definition LH (pre : list bool) : list bool -> list N -> list N :=
    fun k v => H (pack (nibbles_of_bits (pre ++ k)) ++ v).

  Lemma smt_ext : forall f lh1 lh2 S, (forall k v, lh1 k v = lh2 k v) -> smt H f lh1 S = smt H f lh2 S.
  Proof.
    induction f as [|f IH]; intros lh1 lh2 S E; destruct S as [|[k v] [|y r]]; cbn [smt]; try reflexivity; try apply E.
    f_equal. f_equal; apply IH; intros k0 v0; apply E.
  Qed.
  Lemma smt_len : forall f lh S, (forall k v, length (lh k v) = 32%nat) -> length (smt H f lh S) = 32%nat.
  Proof.
    intros f lh S E. destruct f; destruct S as [|[k v] [|y r]]; cbn [smt]; try reflexivity; try apply E; apply Hlen.
  Qed.
  Lemma LH_len : forall pre k v, length (LH pre k v) = 32%nat.
  Proof. intros. apply Hlen. Qed.

  Definition wfS (pre : list bool) (f : nat) (S : list (list bool * list N)) : Prop :=
    NoDup (map fst S) /\
    (forall k1 k2, In k1 (map fst S) -> In k2 (map fst S) -> bprefix k1 k2 -> k1 = k2) /\
    forall k v, In (k, v) S -> bits_adm (pre ++ k) /\ length v = 32%nat /\ (length k <= f)%nat.

  Lemma wfS_sel : forall pre f S b, wfS pre (Datatypes.S f) S -> (forall k v, In (k, v) S -> k <> []) ->
    wfS (pre ++ [b]) f (sel b S).
  Proof.
    intros pre f S b (ND & PF & OK) NE. split; [|split].
    - clear PF OK NE. induction S as [|[k0 v0] S IH]; [constructor|]. rewrite sel_cons. cbn [fst snd].
      inversion ND as [|? ? Hn ND']; subst. destruct k0 as [|c r]; [apply IH; exact ND'|].
      destruct (Bool.eqb c b) eqn:E; [|apply IH; exact ND']. cbn [app map fst]. constructor; [|apply IH; exact ND'].
      apply eqb_prop in E. subst c. intro Hin. apply Hn. apply in_map_iff in Hin. destruct Hin as ([k1 v1] & E1 & Hin).
      cbn in E1. subst k1. apply sel_in in Hin. apply in_map_iff. exists (b :: r, v1). split; [reflexivity|exact Hin].
    - intros k1 k2 H1 H2 [c E]. apply in_map_iff in H1. destruct H1 as ([k1' v1] & E1 & H1). cbn in E1. subst k1'.
      apply in_map_iff in H2. destruct H2 as ([k2' v2] & E2 & H2). cbn in E2. subst k2'.
      apply sel_in in H1. apply sel_in in H2.
      assert (b :: k1 = b :: k2); [|congruence]. apply PF.
      + apply in_map_iff. exists (b :: k1, v1). split; [reflexivity|exact H1].
      + apply in_map_iff. exists (b :: k2, v2). split; [reflexivity|exact H2].
      + exists c. cbn. congruence.
    - intros k v Hin. apply sel_in in Hin. destruct (OK _ _ Hin) as (O1 & O2 & O3). split; [|split; [exact O2|cbn in O3; lia]].
      rewrite <- app_assoc. exact O1.
  Qed.

  Lemma two_nonempty : forall pre f S, wfS pre f S -> (2 <= length S)%nat -> forall k v, In (k, v) S -> k <> [].
  Proof.
    intros pre f S (ND & PF & _) L k v Hin E. subst k.
    destruct S as [|[k1 v1] [|[k2 v2] r]]; cbn in L; try lia.
    assert (E1 : [] = k1) by (apply PF; [apply in_map_iff; exists ([], v); split; [reflexivity|exact Hin]|left; reflexivity|exists k1; reflexivity]).
    assert (E2 : [] = k2) by (apply PF; [apply in_map_iff; exists ([], v); split; [reflexivity|exact Hin]|right; left; reflexivity|exists k2; reflexivity]).
    subst. cbn in ND. inversion ND; subst. apply H2. left. reflexivity.
  Qed.

  Lemma adm_pack : forall bs, bits_adm bs ->
    exists s, bs = bits_of_nibbles s /\ key_adm s /\ nibbles_of_bits bs = s.
  Proof.
    intros bs (s & E & A). exists s. split; [exact E|]. split; [exact A|]. subst bs. apply nib_bits_roundtrip. apply A.
  Qed.

  Lemma leaf_vs_node : forall pre k v a b, bits_adm (pre ++ k) -> length v = 32%nat ->
    length a = 32%nat -> length b = 32%nat -> LH pre k v <> H (a ++ b).
  Proof.
    intros pre k v a b A Lv La Lb E. unfold LH in E. apply Hinj in E.
    destruct (adm_pack _ A) as (s & _ & (Vs & Es & Ns) & En). rewrite En in E.
    apply (f_equal (@length N)) in E. rewrite !app_length in E. pose proof (pack_length s Es). lia.
  Qed.

  Lemma leaf_vs_leaf : forall pre k1 v1 k2 v2, bits_adm (pre ++ k1) -> bits_adm (pre ++ k2) ->
    length v1 = 32%nat -> length v2 = 32%nat -> LH pre k1 v1 = LH pre k2 v2 -> k1 = k2 /\ v1 = v2.
  Proof.
    intros pre k1 v1 k2 v2 A1 A2 L1 L2 E. unfold LH in E. apply Hinj in E.
    destruct (adm_pack _ A1) as (s1 & B1 & (V1 & E1 & _) & N1). destruct (adm_pack _ A2) as (s2 & B2 & (V2 & E2 & _) & N2).
    rewrite N1, N2 in E. destruct (app_inv_len _ _ _ _ E ltac:(lia)) as [EP Ev]. split; [|exact Ev].
    apply pack_inj in EP; try assumption. assert (EB : pre ++ k1 = pre ++ k2) by congruence.
    apply app_inv_head in EB. exact EB.
  Qed.

  Lemma smt_two : forall f lh (S : list (list bool * list N)), (2 <= length S)%nat ->
    smt H (Datatypes.S f) lh S = H (smt H f (fun k => lh (false :: k)) (sel false S) ++ smt H f (fun k => lh (true :: k)) (sel true S)).
  Proof. intros. apply smt_step. assumption. Qed.

  Lemma LH_down : forall pre b k v, LH pre (b :: k) v = LH (pre ++ [b]) k v.
  Proof. intros. unfold LH. rewrite <- app_assoc. reflexivity. Qed.

  (* the core: by induction on the depth of the binary recursion *)
  Theorem smt_binding : forall f pre S1 S2, wfS pre f S1 -> wfS pre f S2 ->
    smt H f (LH pre) S1 = smt H f (LH pre) S2 -> forall k v, In (k, v) S1 <-> In (k, v) S2.
  Proof.
    induction f as [|f IH]; intros pre S1 S2 W1 W2 E.
    - (* no fuel: at most one entry each (keys have length 0 and are distinct) *)
      assert (Small : forall S, wfS pre 0 S -> (length S <= 1)%nat).
      { intros S (ND & _ & OK). destruct S as [|[k1 v1] [|[k2 v2] r]]; cbn; try lia. exfalso.
        destruct (OK k1 v1 (or_introl eq_refl)) as (_ & _ & L1). destruct (OK k2 v2 (or_intror (or_introl eq_refl))) as (_ & _ & L2).
        destruct k1; [|cbn in L1; lia]. destruct k2; [|cbn in L2; lia]. cbn in ND. inversion ND; subst. apply H2. left. reflexivity. }
      pose proof (Small S1 W1) as L1. pose proof (Small S2 W2) as L2.
      destruct S1 as [|[k1 v1] [|? ?]]; destruct S2 as [|[k2 v2] [|? ?]]; cbn in L1, L2; try lia; cbn [smt] in E.
      + tauto.
      + exfalso. symmetry in E. apply (HZ _ E).
      + exfalso. apply (HZ _ E).
      + destruct W1 as (_ & _ & O1). destruct W2 as (_ & _ & O2).
        destruct (O1 k1 v1 (or_introl eq_refl)) as (A1 & Lv1 & _). destruct (O2 k2 v2 (or_introl eq_refl)) as (A2 & Lv2 & _).
        destruct (leaf_vs_leaf pre k1 v1 k2 v2 A1 A2 Lv1 Lv2 E). subst. tauto.
    - assert (Len : forall pre' S, length (smt H f (LH pre') S) = 32%nat) by (intros; apply smt_len; intros; apply LH_len).
      assert (Down : forall b S, smt H f (fun k => LH pre (b :: k)) S = smt H f (LH (pre ++ [b])) S).
      { intros b S. apply smt_ext. intros. apply LH_down. }
      assert (Big : forall S, wfS pre (Datatypes.S f) S -> (2 <= length S)%nat ->
                exists a b, smt H (Datatypes.S f) (LH pre) S = H (a ++ b) /\ length a = 32%nat /\ length b = 32%nat /\
                            a = smt H f (LH (pre ++ [false])) (sel false S) /\ b = smt H f (LH (pre ++ [true])) (sel true S)).
      { intros S W L. rewrite smt_two by exact L. rewrite !Down. eexists _, _. split; [reflexivity|]. repeat split; apply Len. }
      destruct (le_lt_dec 2 (length S1)) as [L1|L1]; destruct (le_lt_dec 2 (length S2)) as [L2|L2].
      + (* both branch *)
        destruct (Big S1 W1 L1) as (a1 & b1 & E1 & La1 & Lb1 & Ea1 & Eb1).
        destruct (Big S2 W2 L2) as (a2 & b2 & E2 & La2 & Lb2 & Ea2 & Eb2).
        rewrite E1, E2 in E. apply Hinj in E. destruct (app_inv_len _ _ _ _ E ltac:(lia)) as [Ea Eb]. subst a1 b1 a2 b2.
        pose proof (two_nonempty pre _ S1 W1 L1) as N1. pose proof (two_nonempty pre _ S2 W2 L2) as N2.
        pose proof (IH _ _ _ (wfS_sel pre f S1 false W1 N1) (wfS_sel pre f S2 false W2 N2) Ea) as I0.
        pose proof (IH _ _ _ (wfS_sel pre f S1 true W1 N1) (wfS_sel pre f S2 true W2 N2) Eb) as I1.
        intros k v. destruct k as [|[|] k'].
        * split; intro Hin; exfalso; [apply (N1 _ _ Hin)|apply (N2 _ _ Hin)]; reflexivity.
        * rewrite <- !sel_in. apply I1.
        * rewrite <- !sel_in. apply I0.
      + (* S1 branches, S2 is empty or a single leaf *)
        exfalso. destruct (Big S1 W1 L1) as (a1 & b1 & E1 & La1 & Lb1 & _). rewrite E1 in E.
        destruct S2 as [|[k2 v2] [|? ?]]; cbn in L2; try lia; cbn [smt] in E.
        * apply (HZ _ E).
        * destruct W2 as (_ & _ & O2). destruct (O2 k2 v2 (or_introl eq_refl)) as (A2 & Lv2 & _).
          symmetry in E. apply (leaf_vs_node pre k2 v2 a1 b1 A2 Lv2 La1 Lb1 E).
      + exfalso. destruct (Big S2 W2 L2) as (a2 & b2 & E2 & La2 & Lb2 & _). rewrite E2 in E.
        destruct S1 as [|[k1 v1] [|? ?]]; cbn in L1; try lia; cbn [smt] in E.
        * symmetry in E. apply (HZ _ E).
        * destruct W1 as (_ & _ & O1). destruct (O1 k1 v1 (or_introl eq_refl)) as (A1 & Lv1 & _).
          apply (leaf_vs_node pre k1 v1 a2 b2 A1 Lv1 La2 Lb2 E).
      + destruct S1 as [|[k1 v1] [|? ?]]; destruct S2 as [|[k2 v2] [|? ?]]; cbn in L1, L2; try lia; cbn [smt] in E.
        * tauto.
        * exfalso. symmetry in E. apply (HZ _ E).
        * exfalso. apply (HZ _ E).
        * destruct W1 as (_ & _ & O1). destruct W2 as (_ & _ & O2).
          destruct (O1 k1 v1 (or_introl eq_refl)) as (A1 & Lv1 & _). destruct (O2 k2 v2 (or_introl eq_refl)) as (A2 & Lv2 & _).
          destruct (leaf_vs_leaf pre k1 v1 k2 v2 A1 A2 Lv1 Lv2 E). subst. tauto.
  Qed.
  (* ---------- nibble keys ---------- *)
  Lemma nib_inj : forall n m, n < 16 -> m < 16 -> bits4 n = bits4 m -> n = m.
  Proof.
    intros n m Vn Vm E.
    assert (R : forall x, x < 16 -> nibbles_of_bits (bits4 x) = [x]).
    { intros x Vx. assert (VV : kvalid [x]) by (constructor; [exact Vx|constructor]).
      pose proof (nib_bits_roundtrip [x] VV) as RT.
      cbn [bits_of_nibbles flat_map] in RT. rewrite app_nil_r in RT. exact RT. }
    pose proof (R n Vn) as Rn. pose proof (R m Vm) as Rm. rewrite E in Rn. congruence.
  Qed.

  Lemma bits_prefix : forall s1 s2, kvalid s1 -> kvalid s2 ->
    bprefix (bits_of_nibbles s1) (bits_of_nibbles s2) -> is_prefix s1 s2.
  Proof.
    induction s1 as [|n s1 IH]; intros s2 V1 V2 [c E]; [exists s2; reflexivity|].
    apply kvalid_head in V1. destruct V1 as [Vn V1].
    destruct s2 as [|m s2]; [cbn in E; discriminate|]. apply kvalid_head in V2. destruct V2 as [Vm V2].
    change (bits_of_nibbles (m :: s2)) with (bits4 m ++ bits_of_nibbles s2) in E.
    change (bits_of_nibbles (n :: s1)) with (bits4 n ++ bits_of_nibbles s1) in E.
    unfold bits4 in E. cbn [app] in E. injection E as E3 E2 E1 E0 Er.
    assert (En : n = m).
    { apply nib_inj; try assumption. unfold bits4. congruence. }
    subst m. destruct (IH s2 V1 V2 (ex_intro _ c Er)) as [c' Ec]. exists c'. cbn. congruence.
  Qed.

  Lemma bits_inj : forall s1 s2, kvalid s1 -> kvalid s2 -> bits_of_nibbles s1 = bits_of_nibbles s2 -> s1 = s2.
  Proof. intros s1 s2 V1 V2 E. rewrite <- (nib_bits_roundtrip s1 V1), <- (nib_bits_roundtrip s2 V2), E. reflexivity. Qed.

  Lemma bits_length : forall s, length (bits_of_nibbles s) = (4 * length s)%nat.
  Proof. induction s as [|n s IH]; [reflexivity|]. change (bits_of_nibbles (n :: s)) with (bits4 n ++ bits_of_nibbles s). rewrite app_length, IH. cbn [bits4 length]. lia. Qed.

  Definition keys_wf {V} (n : nat) (l : list (list N * V)) : Prop :=
    NoDup (map fst l) /\
    (forall k1 k2, In k1 (map fst l) -> In k2 (map fst l) -> is_prefix k1 k2 -> k1 = k2) /\
    forall k, In k (map fst l) -> key_adm k /\ (length k <= n)%nat.

  Definition to_bits (S : list (list N * list N)) := map (fun kv => (bits_of_nibbles (fst kv), snd kv)) S.

  Lemma wfS_of_keys : forall n S, keys_wf n S -> (forall k v, In (k, v) S -> length v = 32%nat) ->
    wfS [] (4 * n) (to_bits S).
  Proof.
    intros n S (ND & PF & OK) LV. unfold to_bits. split; [|split].
    - rewrite map_map. cbn [fst]. rewrite <- (map_map fst bits_of_nibbles).
      clear PF LV. induction S as [|[k v] S IH]; [constructor|]. cbn [map fst] in *. inversion ND as [|? ? Hn ND']; subst.
      constructor.
      + intro Hin. apply in_map_iff in Hin. destruct Hin as (k' & E & Hk'). apply Hn.
        assert (k' = k); [|subst; exact Hk'].
        apply bits_inj; [apply (OK k' (or_intror Hk'))|apply (OK k (or_introl eq_refl))|exact E].
      + apply IH; [exact ND'|]. intros k0 H0. apply OK. right. exact H0.
    - intros b1 b2 H1 H2 BP. rewrite map_map in H1, H2. cbn [fst] in H1, H2.
      apply in_map_iff in H1. destruct H1 as ([k1 v1] & E1 & H1). apply in_map_iff in H2. destruct H2 as ([k2 v2] & E2 & H2).
      cbn [fst] in E1, E2. subst b1 b2.
      assert (I1 : In k1 (map fst S)) by (apply in_map_iff; exists (k1, v1); split; [reflexivity|exact H1]).
      assert (I2 : In k2 (map fst S)) by (apply in_map_iff; exists (k2, v2); split; [reflexivity|exact H2]).
      f_equal. apply PF; try assumption. apply bits_prefix; [apply (OK k1 I1)|apply (OK k2 I2)|exact BP].
    - intros b v Hin. apply in_map_iff in Hin. destruct Hin as ([k v'] & E & Hin). cbn [fst snd] in E. inversion E; subst.
      assert (I1 : In k (map fst S)) by (apply in_map_iff; exists (k, v); split; [reflexivity|exact Hin]).
      destruct (OK k I1) as [A L]. split; [exists k; split; [reflexivity|exact A]|]. split; [apply (LV k v Hin)|].
      rewrite bits_length. lia.
  Qed.

  (* one tier: equal commitments => the same entries *)
  Theorem tier_binding : forall n S1 S2,
    keys_wf n S1 -> keys_wf n S2 ->
    (forall k v, In (k, v) S1 -> length v = 32%nat) -> (forall k v, In (k, v) S2 -> length v = 32%nat) ->
    smt_root H n S1 = smt_root H n S2 -> forall k v, In (k, v) S1 <-> In (k, v) S2.
  Proof.
    intros n S1 S2 W1 W2 L1 L2 E.
    assert (EL : forall S, smt_root H n S = smt H (4 * n) (LH []) (to_bits S)).
    { intro S. unfold smt_root, to_bits. apply smt_ext. intros. reflexivity. }
    rewrite !EL in E.
    pose proof (smt_binding (4 * n) [] _ _ (wfS_of_keys n S1 W1 L1) (wfS_of_keys n S2 W2 L2) E) as B.
    assert (Pull : forall S, keys_wf n S -> forall k v, kvalid k -> In (bits_of_nibbles k, v) (to_bits S) <-> In (k, v) S).
    { intros S (_ & _ & OK) k v Vk. unfold to_bits. rewrite in_map_iff. split.
      - intros ([k' v'] & Ekv & Hin). cbn [fst snd] in Ekv. inversion Ekv; subst.
        assert (k' = k); [|subst; exact Hin]. apply bits_inj; [|exact Vk|assumption].
        apply (OK k'). apply in_map_iff. exists (k', v). split; [reflexivity|exact Hin].
      - intro Hin. exists (k, v). split; [reflexivity|exact Hin]. }
    intros k v. split; intro Hin.
    - assert (Vk : kvalid k) by (destruct W1 as (_ & _ & OK); apply (OK k); apply in_map_iff; exists (k, v); split; [reflexivity|exact Hin]).
      apply (Pull S2 W2 k v Vk). apply B. apply (Pull S1 W1 k v Vk). exact Hin.
    - assert (Vk : kvalid k) by (destruct W2 as (_ & _ & OK); apply (OK k); apply in_map_iff; exists (k, v); split; [reflexivity|exact Hin]).
      apply (Pull S1 W1 k v Vk). apply B. apply (Pull S2 W2 k v Vk). exact Hin.
  Qed.

  Lemma smt_root_len : forall n S, length (smt_root H n S) = 32%nat.
  Proof. intros. unfold smt_root. apply smt_len. intros. apply Hlen. Qed.

  (* one level of the database: equal roots => same keys, equal lower roots *)
  Lemma level_binding : forall {B} (rootB : B -> list N) n (m1 m2 : list (list N * B)),
    (forall b, length (rootB b) = 32%nat) -> keys_wf n m1 -> keys_wf n m2 ->
    smt_root H n (map (fun kb => (fst kb, rootB (snd kb))) m1) =
    smt_root H n (map (fun kb => (fst kb, rootB (snd kb))) m2) ->
    forall k, match a_get k m1, a_get k m2 with
              | Some b1, Some b2 => rootB b1 = rootB b2
              | None, None => True
              | _, _ => False
              end.
  Proof.
    intros B rootB n m1 m2 LB W1 W2 E.
    assert (WM : forall m : list (list N * B), keys_wf n m -> keys_wf n (map (fun kb => (fst kb, rootB (snd kb))) m)).
    { intros m W. unfold keys_wf in *. rewrite map_map. cbn [fst]. exact W. }
    assert (LV : forall (m : list (list N * B)) k v, In (k, v) (map (fun kb => (fst kb, rootB (snd kb))) m) -> length v = 32%nat).
    { intros m k v Hin. apply in_map_iff in Hin. destruct Hin as (x & Ex & _). inversion Ex. apply LB. }
    pose proof (tier_binding n _ _ (WM m1 W1) (WM m2 W2) (LV m1) (LV m2) E) as TB.
    assert (Half : forall (ma mb : list (list N * B)), keys_wf n ma -> keys_wf n mb ->
              (forall k v, In (k, v) (map (fun kb => (fst kb, rootB (snd kb))) ma) -> In (k, v) (map (fun kb => (fst kb, rootB (snd kb))) mb)) ->
              forall k b1, a_get k ma = Some b1 -> exists b2, a_get k mb = Some b2 /\ rootB b1 = rootB b2).
    { intros ma mb (NDa & _) (NDb & _) Inc k b1 Ea. apply (a_get_in k b1 ma NDa) in Ea.
      assert (Hin : In (k, rootB b1) (map (fun kb => (fst kb, rootB (snd kb))) ma)) by (apply in_map_iff; exists (k, b1); split; [reflexivity|exact Ea]).
      apply Inc in Hin. apply in_map_iff in Hin. destruct Hin as ([k' b2] & Ex & Hb). cbn [fst snd] in Ex. inversion Ex; subst.
      exists b2. split; [apply (a_get_in k b2 mb NDb); exact Hb|congruence]. }
    intro k. destruct (a_get k m1) as [b1|] eqn:E1; destruct (a_get k m2) as [b2|] eqn:E2.
    - destruct (Half m1 m2 W1 W2 (fun k v => proj1 (TB k v)) k b1 E1) as (b2' & E2' & Er). congruence.
    - destruct (Half m1 m2 W1 W2 (fun k v => proj1 (TB k v)) k b1 E1) as (b2' & E2' & _). congruence.
    - destruct (Half m2 m1 W2 W1 (fun k v => proj2 (TB k v)) k b2 E2) as (b1' & E1' & _). congruence.
    - exact I.
  Qed.

  (* the substate database *)
  Definition wf_p (n : nat) (p : pmap) : Prop := keys_wf n p.
  Definition wf_e (n : nat) (e : emap) : Prop := keys_wf n e /\ forall pk p, In (pk, p) e -> wf_p n p.
  Definition wf_d (n : nat) (d : dbmap) : Prop := keys_wf n d /\ forall ek e, In (ek, e) d -> wf_e n e.

  Definition get3 (d : dbmap) (ek pk sk : list N) : option (list N) :=
    match a_get ek d with
    | Some e => match a_get pk e with Some p => a_get sk p | None => None end
    | None => None
    end.

  Lemma a_get_in_any : forall {V} k (v : V) l, a_get k l = Some v -> In (k, v) l.
  Proof.
    intros V k v l. induction l as [|[k2 v2] r IH]; cbn [a_get]; [discriminate|].
    destruct (leqb k k2) eqn:E; [apply leqb_eq in E; subst; intro E2; inversion E2; left; reflexivity|intro E2; right; apply IH; exact E2].
  Qed.

  Theorem db_binding : forall n d1 d2, wf_d n d1 -> wf_d n d2 ->
    db_root H n d1 = db_root H n d2 -> forall ek pk sk, get3 d1 ek pk sk = get3 d2 ek pk sk.
  Proof.
    intros n d1 d2 [W1 I1] [W2 I2] E ek pk sk. unfold get3.
    pose proof (level_binding (entity_root H n) n d1 d2 (fun e => smt_root_len n _) W1 W2 E ek) as L1.
    destruct (a_get ek d1) as [e1|] eqn:E1; destruct (a_get ek d2) as [e2|] eqn:E2; try contradiction; [|reflexivity].
    destruct (I1 ek e1 (a_get_in_any _ _ _ E1)) as [We1 Ie1]. destruct (I2 ek e2 (a_get_in_any _ _ _ E2)) as [We2 Ie2].
    pose proof (level_binding (partition_root H n) n e1 e2 (fun p => smt_root_len n _) We1 We2 L1 pk) as L2.
    destruct (a_get pk e1) as [p1|] eqn:P1; destruct (a_get pk e2) as [p2|] eqn:P2; try contradiction; [|reflexivity].
    pose proof (Ie1 pk p1 (a_get_in_any _ _ _ P1)) as Wp1. pose proof (Ie2 pk p2 (a_get_in_any _ _ _ P2)) as Wp2.
    pose proof (level_binding H n p1 p2 Hlen Wp1 Wp2 L2 sk) as L3.
    destruct (a_get sk p1) as [v1|]; destruct (a_get sk p2) as [v2|]; try contradiction; [|reflexivity].
    f_equal. apply Hinj. exact L3.
  Qed.
End BIND.

(* keys that come from byte strings other than 32 bytes long are admissible: database node keys
   (50 bytes), partition numbers (1 byte), field sort keys (1 byte), map sort keys (20-byte hash
   prefix + key, unless the key part is exactly 12 bytes), sorted-index keys (2 + 20 + key) *)
Lemma key_adm_of_bytes : forall bs, Forall (fun b => b < 256) bs -> length bs <> 32%nat ->
  key_adm (nibbles_of_bytes bs).
Proof.
  intros bs V L. unfold key_adm, nibbles_of_bytes.
  assert (Len : length (flat_map (fun b => [b / 16; b mod 16]) bs) = (2 * length bs)%nat).
  { clear. induction bs as [|b bs IH]; [reflexivity|]. cbn [flat_map app length]. rewrite IH. lia. }
  split; [|split].
  - clear L Len. induction V as [|b bs Hb V IH]; [constructor|]. cbn [flat_map app].
    constructor; [apply N.div_lt_upper_bound; lia|]. constructor; [apply N.mod_lt; lia|]. exact IH.
  - rewrite Len. clear. induction (length bs) as [|m IH]; [reflexivity|]. replace (2 * S m)%nat with (S (S (2 * m))) by lia. exact IH.
  - rewrite Len. lia.
Qed.
