(* C47 — proofs about the host memory access model and the buffer table. *)
From Coq Require Import List NArith Bool Lia Permutation.
Import ListNotations.
Require Import RV.Model.C47_HostMem.
Open Scope N_scope.
Arguments N.add : simpl never.
Arguments N.sub : simpl never.
Arguments N.mul : simpl never.
Arguments N.pow : simpl never.
Arguments N.modulo : simpl never.
Arguments N.div : simpl never.
Arguments N.eqb : simpl never.
Arguments N.ltb : simpl never.
Arguments N.leb : simpl never.

Lemma pow64 : 2 ^ USIZE_BITS = 18446744073709551616.
Proof. reflexivity. Qed.
Lemma pow32 : 2 ^ 32 = 4294967296.
Proof. reflexivity. Qed.

Lemma as_usize_small : forall x, x < 18446744073709551616 -> as_usize USIZE_BITS x = x.
Proof. intros x Hx. unfold as_usize. rewrite pow64. apply N.mod_small. exact Hx. Qed.

Lemma uadd_small : forall a b, a + b < 18446744073709551616 -> uadd USIZE_BITS a b = Some (a + b).
Proof.
  intros a b Hab. unfold uadd. rewrite pow64.
  destruct (N.ltb_spec (a + b) 18446744073709551616) as [_|Hge]; [reflexivity|lia].
Qed.

(* ---------------------------------------------------------------- slices *)
Lemma range_from_length : forall n p, length (range_from p n) = n.
Proof. induction n as [|n IH]; intros p; cbn [range_from length]; [reflexivity|now rewrite IH]. Qed.

Lemma range_from_nth : forall n p i, (i < n)%nat -> nth i (range_from p n) 0 = p + N.of_nat i.
Proof.
  induction n as [|n IH]; intros p i Hi; [lia|].
  destruct i as [|i]; cbn [range_from nth].
  - cbn. lia.
  - rewrite IH by lia. lia.
Qed.

Lemma slice_length : forall m s e, N.of_nat (length (slice m s e)) = e - s.
Proof. intros m s e. unfold slice. rewrite map_length, range_from_length. lia. Qed.

Lemma slice_nth : forall m s e i, i < e - s -> nth (N.to_nat i) (slice m s e) 0 = mget m (s + i).
Proof.
  intros m s e i Hi. unfold slice.
  assert (Hlt : (N.to_nat i < N.to_nat (e - s))%nat) by lia.
  rewrite (nth_indep _ 0 (mget m 0)) by (rewrite map_length, range_from_length; exact Hlt).
  rewrite map_nth. rewrite range_from_nth by exact Hlt. f_equal. lia.
Qed.

(* the bytes of [ptr, ptr+len) and nothing else *)
Definition reads_exactly (m : mem) (ptr len : N) (bs : list N) : Prop :=
  N.of_nat (length bs) = len /\ forall i, i < len -> nth (N.to_nat i) bs 0 = mget m (ptr + i).

Lemma slice_reads_exactly : forall m ptr len, reads_exactly m ptr len (slice m ptr (ptr + len)).
Proof.
  intros m ptr len. split.
  - rewrite slice_length. lia.
  - intros i Hi. apply slice_nth. lia.
Qed.

(* ---------------------------------------------------------------- read_memory *)
Lemma read_memory_cases : forall m ptr len, ptr <= U32_MAX -> len <= U32_MAX ->
  (ptr + len <= msize m /\ read_memory m ptr len = Ok (slice m ptr (ptr + len)))
  \/ (msize m < ptr + len /\ read_memory m ptr len = Err MemoryAccessError).
Proof.
  intros m ptr len Hp Hl. unfold U32_MAX in Hp, Hl.
  unfold read_memory, read_memory_w.
  rewrite !as_usize_small by lia. rewrite uadd_small by lia.
  destruct (N.ltb_spec (msize m) ptr) as [Hlt|Hge].
  - right. split; [lia|reflexivity].
  - destruct (N.ltb_spec (msize m) (ptr + len)) as [Hlt2|Hge2].
    + right. split; [lia|reflexivity].
    + left. split; [lia|].
      destruct (N.leb_spec ptr (ptr + len)) as [_|Hbad]; [|lia].
      destruct (N.leb_spec (ptr + len) (msize m)) as [_|Hbad]; [|lia].
      reflexivity.
Qed.

Theorem read_exact_or_error : forall m ptr len, ptr <= U32_MAX -> len <= U32_MAX ->
  (ptr + len <= msize m /\
   exists bs, read_memory m ptr len = Ok bs /\ reads_exactly m ptr len bs)
  \/ (msize m < ptr + len /\ read_memory m ptr len = Err MemoryAccessError).
Proof.
  intros m ptr len Hp Hl.
  destruct (read_memory_cases m ptr len Hp Hl) as [[Hin Heq]|[Hout Heq]].
  - left. split; [exact Hin|]. eexists. split; [exact Heq|apply slice_reads_exactly].
  - right. split; assumption.
Qed.

Lemma read_never_panics : forall m ptr len, ptr <= U32_MAX -> len <= U32_MAX ->
  read_memory m ptr len <> Panic.
Proof.
  intros m ptr len Hp Hl.
  destruct (read_memory_cases m ptr len Hp Hl) as [[_ Heq]|[_ Heq]]; rewrite Heq; discriminate.
Qed.

Lemma slice_ptr_le : forall v, slice_ptr v <= U32_MAX.
Proof.
  intros v. unfold slice_ptr, U32_MAX.
  pose proof (N.mod_upper_bound (v / 4294967296) 4294967296). lia.
Qed.
Lemma slice_len_le : forall v, slice_len v <= U32_MAX.
Proof.
  intros v. unfold slice_len, U32_MAX.
  pose proof (N.mod_upper_bound v 4294967296). lia.
Qed.

Theorem read_slice_exact_or_error : forall m v,
  let ptr := slice_ptr v in let len := slice_len v in
  (ptr + len <= msize m /\
   exists bs, read_slice m v = Ok bs /\ reads_exactly m ptr len bs)
  \/ (msize m < ptr + len /\ read_slice m v = Err MemoryAccessError).
Proof.
  intros m v ptr len. unfold read_slice, read_slice_w.
  apply (read_exact_or_error m ptr len (slice_ptr_le v) (slice_len_le v)).
Qed.

(* ---------------------------------------------------------------- write_memory *)
Definition writes_exactly (m m' : mem) (ptr : N) (data : list N) : Prop :=
  msize m' = msize m /\
  (forall i, ptr <= i < ptr + N.of_nat (length data) ->
             mget m' i = nth (N.to_nat (i - ptr)) data 0) /\
  (forall i, ~ (ptr <= i < ptr + N.of_nat (length data)) -> mget m' i = mget m i).

Lemma mem_store_writes_exactly : forall m off data, writes_exactly m (mem_store m off data) off data.
Proof.
  intros m off data. unfold writes_exactly, mem_store. cbn [msize mget].
  split; [reflexivity|]. split.
  - intros i [Hlo Hhi].
    destruct (N.leb_spec off i) as [_|Hbad]; [|lia].
    destruct (N.ltb_spec i (off + N.of_nat (length data))) as [_|Hbad]; [|lia].
    reflexivity.
  - intros i Hout.
    destruct (N.leb_spec off i) as [Hlo|Hlo]; [|reflexivity].
    destruct (N.ltb_spec i (off + N.of_nat (length data))) as [Hhi|Hhi]; [|reflexivity].
    exfalso. apply Hout. lia.
Qed.

Theorem write_exact_or_error : forall m ptr data,
  ptr <= U32_MAX -> N.of_nat (length data) < 9223372036854775808 ->
  let dl := N.of_nat (length data) in
  (ptr + dl <= msize m /\
   exists m', write_memory m ptr data = (Ok tt, m') /\ writes_exactly m m' ptr data)
  \/ (msize m < ptr + dl /\ write_memory m ptr data = (Err MemoryAccessError, m)).
Proof.
  intros m ptr data Hp Hd dl. unfold U32_MAX in Hp. subst dl.
  unfold write_memory, write_memory_w.
  rewrite !as_usize_small by lia. rewrite uadd_small by lia.
  destruct (N.ltb_spec (msize m) ptr) as [Hlt|Hge].
  - right. split; [lia|reflexivity].
  - destruct (N.ltb_spec (msize m) (ptr + N.of_nat (length data))) as [Hlt2|Hge2].
    + right. split; [lia|reflexivity].
    + left. split; [lia|].
      unfold wasmi_write_w. rewrite uadd_small by lia.
      destruct (N.leb_spec ptr (ptr + N.of_nat (length data))) as [_|Hbad]; [|lia].
      destruct (N.leb_spec (ptr + N.of_nat (length data)) (msize m)) as [_|Hbad]; [|lia].
      cbn [andb]. eexists. split; [reflexivity|apply mem_store_writes_exactly].
Qed.

Lemma write_never_panics : forall m ptr data,
  ptr <= U32_MAX -> N.of_nat (length data) < 9223372036854775808 ->
  fst (write_memory m ptr data) <> Panic.
Proof.
  intros m ptr data Hp Hd.
  destruct (write_exact_or_error m ptr data Hp Hd) as [[_ [m' [Heq _]]]|[_ Heq]];
    rewrite Heq; cbn [fst]; discriminate.
Qed.

(* ---------------------------------------------------------------- host functions (sequence of reads) *)
Definition u32_pair (a : N * N) : Prop := fst a <= U32_MAX /\ snd a <= U32_MAX.
Definition in_mem (m : mem) (a : N * N) : Prop := fst a + snd a <= msize m.
Definition out_of_mem (m : mem) (a : N * N) : Prop := msize m < fst a + snd a.

Theorem host_reads_exact_or_error : forall m args, Forall u32_pair args ->
  (Forall (in_mem m) args /\
   host_reads m args = Ok (map (fun a => slice m (fst a) (fst a + snd a)) args))
  \/ (Exists (out_of_mem m) args /\ host_reads m args = Err MemoryAccessError).
Proof.
  intros m args Hall. induction Hall as [|[p l] t [Hp Hl] Ht IH].
  - left. split; [constructor|reflexivity].
  - cbn [fst snd] in Hp, Hl. unfold host_reads in *. cbn [host_reads_w].
    fold (read_memory m p l).
    destruct (read_memory_cases m p l Hp Hl) as [[Hin Heq]|[Hout Heq]]; rewrite Heq.
    + destruct IH as [[Hins Heqs]|[Hex Heqs]]; rewrite Heqs.
      * left. split; [constructor; [exact Hin|exact Hins]|reflexivity].
      * right. split; [apply Exists_cons_tl; exact Hex|reflexivity].
    + right. split; [apply Exists_cons_hd; exact Hout|reflexivity].
Qed.

(* ---------------------------------------------------------------- 32-bit aside *)
Lemma usize32_overflow_panics :
  read_memory_w 32 {| msize := 1; mget := fun _ => 0 |} 1 U32_MAX = Panic.
Proof. vm_compute. reflexivity. Qed.

(* ---------------------------------------------------------------- buffer table *)
Definition keys (l : imap) : list N := map fst l.

Lemma im_find_in : forall id l d, im_find id l = Some d -> In (id, d) l.
Proof.
  intros id l d. induction l as [|[k x] t IH]; cbn [im_find]; [discriminate|].
  destruct (N.eqb_spec k id) as [->|Hne]; intros H.
  - injection H as ->. left. reflexivity.
  - right. apply IH. exact H.
Qed.

Lemma in_im_find : forall id l d, NoDup (keys l) -> In (id, d) l -> im_find id l = Some d.
Proof.
  intros id l d. induction l as [|[k x] t IH]; intros Hnd Hin; [destruct Hin|].
  cbn [keys map fst] in Hnd. inversion Hnd as [|? ? Hnotin Hnd']; subst.
  cbn [im_find]. destruct Hin as [Heq|Hin].
  - injection Heq as -> ->. rewrite N.eqb_refl. reflexivity.
  - destruct (N.eqb_spec k id) as [->|Hne].
    + exfalso. apply Hnotin. apply (in_map fst) in Hin. exact Hin.
    + apply IH; assumption.
Qed.

Lemma im_find_none_notin : forall id l, im_find id l = None -> ~ In id (keys l).
Proof.
  intros id l. induction l as [|[k x] t IH]; cbn [im_find keys map fst]; intros H Hin; [exact Hin|].
  destruct (N.eqb_spec k id) as [->|Hne]; [discriminate|].
  destruct Hin as [Heq|Hin]; [congruence|]. exact (IH H Hin).
Qed.

Lemma notin_im_find_none : forall id l, ~ In id (keys l) -> im_find id l = None.
Proof.
  intros id l. induction l as [|[k x] t IH]; cbn [im_find keys map fst]; intros Hnot; [reflexivity|].
  destruct (N.eqb_spec k id) as [->|Hne]; [exfalso; apply Hnot; left; reflexivity|].
  apply IH. intros Hin. apply Hnot. right. exact Hin.
Qed.

(* im_insert of a fresh key appends *)
Lemma im_insert_fresh : forall id d l, ~ In id (keys l) -> im_insert id d l = l ++ [(id, d)].
Proof.
  intros id d l. induction l as [|[k x] t IH]; cbn [im_insert keys map fst app]; intros Hnot; [reflexivity|].
  destruct (N.eqb_spec k id) as [->|Hne]; [exfalso; apply Hnot; left; reflexivity|].
  rewrite IH; [reflexivity|]. intros Hin. apply Hnot. right. exact Hin.
Qed.

Lemma im_split_spec : forall id l pre x post,
  im_split id l = Some (pre, x, post) -> l = pre ++ (id, x) :: post.
Proof.
  intros id l. induction l as [|[k d] t IH]; intros pre x post; cbn [im_split]; [discriminate|].
  destruct (N.eqb_spec k id) as [->|Hne].
  - intros H. injection H as <- <- <-. reflexivity.
  - destruct (im_split id t) as [[[pre' x'] post']|] eqn:Hs; [|discriminate].
    intros H. injection H as <- <- <-. cbn [app]. f_equal. apply IH. reflexivity.
Qed.

Lemma im_split_find : forall id l,
  match im_split id l with
  | Some (_, x, _) => im_find id l = Some x
  | None => im_find id l = None
  end.
Proof.
  intros id l. induction l as [|[k d] t IH]; cbn [im_split im_find]; [reflexivity|].
  destruct (N.eqb_spec k id) as [->|Hne]; [reflexivity|].
  destruct (im_split id t) as [[[pre' x'] post']|]; exact IH.
Qed.

Lemma swap_tail_perm : forall (pre post : imap), Permutation (swap_tail pre post) (pre ++ post).
Proof.
  intros pre post. unfold swap_tail. destruct (rev post) as [|lst rp] eqn:Hr.
  - assert (post = []) as -> by (rewrite <- (rev_involutive post), Hr; reflexivity).
    rewrite app_nil_r. apply Permutation_refl.
  - assert (post = rev rp ++ [lst]) as -> by (rewrite <- (rev_involutive post), Hr; reflexivity).
    apply Permutation_app_head. apply Permutation_cons_append.
Qed.

Lemma keys_app : forall a b, keys (a ++ b) = keys a ++ keys b.
Proof. intros a b. unfold keys. apply map_app. Qed.

(* swap_remove on a table with unique keys: removes exactly the entry of id *)
Lemma im_swap_remove_spec : forall id l d l',
  NoDup (keys l) -> im_swap_remove id l = Some (d, l') ->
  im_find id l = Some d /\ NoDup (keys l') /\
  (forall k x, In (k, x) l' <-> In (k, x) l /\ k <> id) /\
  S (length l') = length l.
Proof.
  intros id l d l' Hnd. unfold im_swap_remove.
  pose proof (im_split_find id l) as Hf.
  destruct (im_split id l) as [[[pre x] post]|] eqn:Hs; [|discriminate].
  intros H. injection H as -> <-.
  apply im_split_spec in Hs. subst l.
  pose proof (swap_tail_perm pre post) as Hperm.
  rewrite keys_app in Hnd. cbn [keys map fst] in Hnd. fold (keys post) in Hnd.
  pose proof (NoDup_remove_1 _ _ _ Hnd) as Hnd1.
  pose proof (NoDup_remove_2 _ _ _ Hnd) as Hnotin.
  rewrite <- keys_app in Hnd1, Hnotin.
  split; [exact Hf|]. split; [|split].
  - apply (Permutation_NoDup (l := keys (pre ++ post))); [|exact Hnd1].
    unfold keys. apply Permutation_map. apply Permutation_sym. exact Hperm.
  - intros k y. split.
    + intros Hin. apply (Permutation_in _ Hperm) in Hin. split.
      * apply in_app_or in Hin. apply in_or_app. destruct Hin as [Hin|Hin]; [left; exact Hin|right; right; exact Hin].
      * intros ->. apply Hnotin. apply (in_map fst) in Hin. exact Hin.
    + intros [Hin Hne]. apply (Permutation_in _ (Permutation_sym Hperm)).
      apply in_app_or in Hin. apply in_or_app. destruct Hin as [Hin|[Heq|Hin]].
      * left. exact Hin.
      * exfalso. apply Hne. injection Heq as -> _. reflexivity.
      * right. exact Hin.
  - pose proof (Permutation_length Hperm) as Hlen. rewrite app_length in Hlen.
    rewrite app_length. cbn [length]. rewrite Hlen. lia.
Qed.

Lemma im_swap_remove_none : forall id l, im_swap_remove id l = None <-> im_find id l = None.
Proof.
  intros id l. unfold im_swap_remove. pose proof (im_split_find id l) as Hf.
  destruct (im_split id l) as [[[pre x] post]|]; split; intros H; try discriminate; try reflexivity.
  - rewrite Hf in H. discriminate.
  - exact Hf.
Qed.

(* invariant of reachable tables: unique ids, all below the next id *)
Definition binv (st : bufs) : Prop :=
  NoDup (keys (btab st)) /\ forall k, In k (keys (btab st)) -> k < bnext st.

Lemma binv_new : forall max, binv (bufs_new max).
Proof. intros max. split; cbn; [constructor|intros k []]. Qed.

Lemma allocate_ok_spec : forall st data id len st',
  binv st -> allocate_buffer st data = (Ok (id, len), st') ->
  id = bnext st /\ len = N.of_nat (length data) /\ len <= U32_MAX /\
  btab st' = btab st ++ [(id, data)] /\ bnext st' = bnext st + 1 /\ bmax st' = bmax st /\
  N.of_nat (length (btab st)) < bmax st /\ binv st'.
Proof.
  intros st data id len st' [Hnd Hlt]. unfold allocate_buffer.
  destruct (N.ltb_spec U32_MAX (N.of_nat (length data))) as [|Hlen]; [discriminate|].
  destruct (N.leb_spec (bmax st) (N.of_nat (length (btab st)))) as [|Hroom]; [discriminate|].
  destruct (N.ltb_spec U32_MAX (bnext st + 1)) as [|Hnext]; [discriminate|].
  intros H. injection H as <- <- <-. cbn [btab bnext bmax].
  assert (Hfresh : ~ In (bnext st) (keys (btab st))) by (intros Hin; apply Hlt in Hin; lia).
  rewrite (im_insert_fresh _ _ _ Hfresh).
  assert (Hmod : N.of_nat (length data) mod 4294967296 = N.of_nat (length data))
    by (apply N.mod_small; unfold U32_MAX in Hlen; lia).
  rewrite Hmod. repeat split; try reflexivity; try assumption.
  - cbn [btab]. rewrite keys_app. cbn [keys map fst].
    apply (Permutation_NoDup (l := bnext st :: keys (btab st))).
    + apply Permutation_cons_append.
    + constructor; assumption.
  - cbn [btab bnext]. intros k Hin. rewrite keys_app in Hin. apply in_app_or in Hin.
    destruct Hin as [Hin|[<-|[]]]; [apply Hlt in Hin; lia|cbn [fst]; lia].
Qed.

Lemma allocate_err_spec : forall st data e st',
  allocate_buffer st data = (Err e, st') -> st' = st /\ e = TooManyBuffers.
Proof.
  intros st data e st'. unfold allocate_buffer.
  destruct (U32_MAX <? N.of_nat (length data)); [discriminate|].
  destruct (bmax st <=? N.of_nat (length (btab st))).
  - intros H. injection H as <- <-. split; reflexivity.
  - destruct (U32_MAX <? bnext st + 1); discriminate.
Qed.

Lemma key_in_pair : forall k (l : imap), In k (keys l) -> exists x, In (k, x) l.
Proof.
  intros k l Hin. unfold keys in Hin. apply in_map_iff in Hin.
  destruct Hin as [[k' x] [Heq Hin]]. cbn [fst] in Heq. subst k'. exists x. exact Hin.
Qed.

Lemma consume_ok_spec : forall st id d st',
  binv st -> buffer_consume st id = (Ok d, st') ->
  im_find id (btab st) = Some d /\ bnext st' = bnext st /\ bmax st' = bmax st /\ binv st' /\
  (forall k x, In (k, x) (btab st') <-> In (k, x) (btab st) /\ k <> id) /\
  S (length (btab st')) = length (btab st) /\ im_find id (btab st') = None /\ id < bnext st.
Proof.
  intros st id d st' [Hnd Hlt]. unfold buffer_consume.
  destruct (im_swap_remove id (btab st)) as [[d0 tab']|] eqn:Hs; [|discriminate].
  intros H. injection H as <- <-. cbn [btab bnext bmax].
  destruct (im_swap_remove_spec _ _ _ _ Hnd Hs) as (Hf & Hnd' & Hin & Hlen).
  split; [exact Hf|]. split; [reflexivity|]. split; [reflexivity|].
  split; [|split; [exact Hin|split; [exact Hlen|split]]].
  - split; [exact Hnd'|]. cbn [btab bnext]. intros k Hk.
    destruct (key_in_pair _ _ Hk) as [x Hx]. apply Hin in Hx. destruct Hx as [Hx _].
    apply Hlt. apply (in_map fst) in Hx. exact Hx.
  - apply notin_im_find_none. intros Hk. destruct (key_in_pair _ _ Hk) as [x Hx].
    apply Hin in Hx. destruct Hx as [_ Hne]. apply Hne. reflexivity.
  - apply Hlt. apply im_find_in in Hf. apply (in_map fst) in Hf. exact Hf.
Qed.

Lemma consume_err_spec : forall st id e st',
  buffer_consume st id = (Err e, st') ->
  e = BufferNotFound id /\ st' = st /\ im_find id (btab st) = None.
Proof.
  intros st id e st'. unfold buffer_consume.
  destruct (im_swap_remove id (btab st)) as [[d0 tab']|] eqn:Hs; [discriminate|].
  intros H. injection H as <- <-. apply im_swap_remove_none in Hs. repeat split; assumption.
Qed.

Lemma consume_never_panics : forall st id, fst (buffer_consume st id) <> Panic.
Proof.
  intros st id. unfold buffer_consume.
  destruct (im_swap_remove id (btab st)) as [[d0 tab']|]; cbn [fst]; discriminate.
Qed.

Lemma consume_found : forall st id d, binv st -> im_find id (btab st) = Some d ->
  exists st', buffer_consume st id = (Ok d, st').
Proof.
  intros st id d [Hnd Hlt] Hf. unfold buffer_consume.
  destruct (im_swap_remove id (btab st)) as [[d0 tab']|] eqn:Hs.
  - destruct (im_swap_remove_spec _ _ _ _ Hnd Hs) as (Hf' & _).
    rewrite Hf in Hf'. injection Hf' as <-. eexists. reflexivity.
  - apply im_swap_remove_none in Hs. rewrite Hs in Hf. discriminate.
Qed.

Lemma consume_missing : forall st id, im_find id (btab st) = None ->
  buffer_consume st id = (Err (BufferNotFound id), st).
Proof.
  intros st id Hf. unfold buffer_consume. apply im_swap_remove_none in Hf. rewrite Hf. reflexivity.
Qed.

(* an id that was handed out and is no longer in the table *)
Definition dead (id : N) (st : bufs) : Prop := id < bnext st /\ im_find id (btab st) = None.

Lemma bstep_preserves : forall st o out st',
  binv st -> bstep st o = (out, st') -> out <> OPanic ->
  binv st' /\ forall id, dead id st -> dead id st'.
Proof.
  intros st o out st' Hinv Hstep Hnp. destruct o as [d|id]; cbn [bstep] in Hstep.
  - destruct (allocate_buffer st d) as [[[id len]|e|] st''] eqn:Ha;
      injection Hstep as <- <-; [| |exfalso; apply Hnp; reflexivity].
    + destruct (allocate_ok_spec _ _ _ _ _ Hinv Ha) as (-> & _ & _ & Htab & Hnext & _ & _ & Hinv').
      split; [exact Hinv'|]. intros id0 [Hlt0 Hnone]. split; [lia|].
      rewrite Htab. apply notin_im_find_none. rewrite keys_app. intros Hin.
      apply in_app_or in Hin. destruct Hin as [Hin|[Heq|[]]].
      * exact (im_find_none_notin _ _ Hnone Hin).
      * cbn [fst] in Heq. lia.
    + destruct (allocate_err_spec _ _ _ _ Ha) as [-> _]. split; [exact Hinv|auto].
  - destruct (buffer_consume st id) as [[d|e|] st''] eqn:Hc;
      injection Hstep as <- <-; [| |exfalso; apply Hnp; reflexivity].
    + destruct (consume_ok_spec _ _ _ _ Hinv Hc) as (_ & Hnext & _ & Hinv' & Hin & _ & _ & _).
      split; [exact Hinv'|]. intros id0 [Hlt0 Hnone]. split; [lia|].
      apply notin_im_find_none. intros Hk. destruct (key_in_pair _ _ Hk) as [x Hx].
      apply Hin in Hx. destruct Hx as [Hx _]. apply (in_map fst) in Hx.
      exact (im_find_none_notin _ _ Hnone Hx).
    + destruct (consume_err_spec _ _ _ _ Hc) as (_ & -> & _). split; [exact Hinv|auto].
Qed.

Lemma bexec_preserves : forall ops st st',
  binv st -> bexec st ops = Some st' -> binv st' /\ forall id, dead id st -> dead id st'.
Proof.
  induction ops as [|o t IH]; intros st st' Hinv Hex; cbn [bexec] in Hex.
  - injection Hex as <-. split; [exact Hinv|auto].
  - destruct (bstep st o) as [out st1] eqn:Hs.
    assert (Hnp : out <> OPanic) by (intros ->; discriminate).
    destruct (bstep_preserves _ _ _ _ Hinv Hs Hnp) as [Hinv1 Hdead1].
    assert (Hex' : bexec st1 t = Some st') by (destruct out; try exact Hex; exfalso; apply Hnp; reflexivity).
    destruct (IH _ _ Hinv1 Hex') as [Hinv' Hdead']. split; [exact Hinv'|]. auto.
Qed.

Lemma reachable_inv : forall max ops st, bexec (bufs_new max) ops = Some st -> binv st.
Proof. intros max ops st Hex. exact (proj1 (bexec_preserves _ _ _ (binv_new max) Hex)). Qed.

(* a buffer id is consumed at most once: after a successful consume the id is unknown for ever *)
Theorem buffer_consume_once : forall max ops1 ops2 id st1 d st2 st3,
  bexec (bufs_new max) ops1 = Some st1 ->
  buffer_consume st1 id = (Ok d, st2) ->
  bexec st2 ops2 = Some st3 ->
  buffer_consume st3 id = (Err (BufferNotFound id), st3).
Proof.
  intros max ops1 ops2 id st1 d st2 st3 H1 Hc H2.
  pose proof (reachable_inv _ _ _ H1) as Hinv1.
  destruct (consume_ok_spec _ _ _ _ Hinv1 Hc) as (_ & Hnext & _ & Hinv2 & _ & _ & Hnone & Hlt).
  assert (Hdead : dead id st2) by (split; [lia|exact Hnone]).
  destruct (bexec_preserves _ _ _ Hinv2 H2) as [_ Hd]. destruct (Hd id Hdead) as [_ Hnone3].
  apply consume_missing. exact Hnone3.
Qed.

(* an id that was never handed out is unknown *)
Theorem buffer_unknown_id : forall max ops st id,
  bexec (bufs_new max) ops = Some st -> bnext st <= id ->
  buffer_consume st id = (Err (BufferNotFound id), st).
Proof.
  intros max ops st id Hex Hge. destruct (reachable_inv _ _ _ Hex) as [_ Hlt].
  apply consume_missing. apply notin_im_find_none. intros Hin. apply Hlt in Hin. lia.
Qed.

(* what the host reported at allocation is what a consume delivers *)
Theorem buffer_roundtrip : forall max ops st data id len st',
  bexec (bufs_new max) ops = Some st ->
  allocate_buffer st data = (Ok (id, len), st') ->
  len = N.of_nat (length data) /\ exists st'', buffer_consume st' id = (Ok data, st'').
Proof.
  intros max ops st data id len st' Hex Ha.
  pose proof (reachable_inv _ _ _ Hex) as Hinv.
  destruct (allocate_ok_spec _ _ _ _ _ Hinv Ha) as (_ & Hlen & _ & Htab & _ & _ & _ & Hinv').
  split; [exact Hlen|]. apply consume_found; [exact Hinv'|].
  apply in_im_find; [exact (proj1 Hinv')|]. rewrite Htab. apply in_or_app. right. left. reflexivity.
Qed.

(* host function consume_buffer: unknown id = error and nothing changes; known id = the write of
   exactly the buffer's bytes at [dest, dest+len) or MemoryAccessError with the memory unchanged *)
Theorem consume_buffer_exact_or_error : forall max ops st m id dest,
  bexec (bufs_new max) ops = Some st -> dest <= U32_MAX ->
  match im_find id (btab st) with
  | None => consume_buffer st m id dest = (Err (BufferNotFound id), st, m)
  | Some d =>
    N.of_nat (length d) <= U32_MAX ->
    exists st', buffer_consume st id = (Ok d, st') /\
      let dl := N.of_nat (length d) in
      ((dest + dl <= msize m /\
        exists m', consume_buffer st m id dest = (Ok tt, st', m') /\ writes_exactly m m' dest d)
       \/ (msize m < dest + dl /\ consume_buffer st m id dest = (Err MemoryAccessError, st', m)))
  end.
Proof.
  intros max ops st m id dest Hex Hdest.
  pose proof (reachable_inv _ _ _ Hex) as Hinv.
  destruct (im_find id (btab st)) as [d|] eqn:Hf.
  - intros Hlen. destruct (consume_found _ _ _ Hinv Hf) as [st' Hc]. exists st'. split; [exact Hc|].
    assert (Hd : N.of_nat (length d) < 9223372036854775808) by (unfold U32_MAX in Hlen; lia).
    unfold consume_buffer, consume_buffer_w. rewrite Hc. fold (write_memory m dest d).
    destruct (write_exact_or_error m dest d Hdest Hd) as [[Hin [m' [Heq Hw]]]|[Hout Heq]]; rewrite Heq.
    + left. split; [exact Hin|]. exists m'. split; [reflexivity|exact Hw].
    + right. split; [exact Hout|reflexivity].
  - unfold consume_buffer, consume_buffer_w. rewrite (consume_missing _ _ Hf). reflexivity.
Qed.

(* every buffer in a reachable table has a u32 length (allocate_buffer asserts it) *)
Lemma reachable_lengths : forall ops st,
  (forall k x, In (k, x) (btab st) -> N.of_nat (length x) <= U32_MAX) ->
  forall st', bexec st ops = Some st' ->
  binv st -> forall k x, In (k, x) (btab st') -> N.of_nat (length x) <= U32_MAX.
Proof.
  induction ops as [|o t IH]; intros st Hall st' Hex Hinv; cbn [bexec] in Hex.
  - injection Hex as <-. exact Hall.
  - destruct (bstep st o) as [out st1] eqn:Hs.
    assert (Hnp : out <> OPanic) by (intros ->; discriminate).
    assert (Hex' : bexec st1 t = Some st') by (destruct out; try exact Hex; exfalso; apply Hnp; reflexivity).
    destruct (bstep_preserves _ _ _ _ Hinv Hs Hnp) as [Hinv1 _].
    apply (IH st1); [|exact Hex'|exact Hinv1].
    destruct o as [d|id]; cbn [bstep] in Hs.
    + destruct (allocate_buffer st d) as [[[id len]|e|] st''] eqn:Ha; injection Hs as <- <-.
      * destruct (allocate_ok_spec _ _ _ _ _ Hinv Ha) as (-> & -> & Hle & Htab & _).
        intros k x Hin. rewrite Htab in Hin. apply in_app_or in Hin.
        destruct Hin as [Hin|[Heq|[]]]; [exact (Hall _ _ Hin)|injection Heq as _ <-; exact Hle].
      * destruct (allocate_err_spec _ _ _ _ Ha) as [-> _]. exact Hall.
      * exfalso. apply Hnp. reflexivity.
    + destruct (buffer_consume st id) as [[d|e|] st''] eqn:Hc; injection Hs as <- <-.
      * destruct (consume_ok_spec _ _ _ _ Hinv Hc) as (_ & _ & _ & _ & Hin & _).
        intros k x Hk. apply Hin in Hk. exact (Hall _ _ (proj1 Hk)).
      * destruct (consume_err_spec _ _ _ _ Hc) as (_ & -> & _). exact Hall.
      * exfalso. apply Hnp. reflexivity.
Qed.

Theorem reachable_buffers_u32 : forall max ops st k x,
  bexec (bufs_new max) ops = Some st -> In (k, x) (btab st) -> N.of_nat (length x) <= U32_MAX.
Proof.
  intros max ops st k x Hex Hin.
  apply (reachable_lengths ops (bufs_new max)) with (st' := st) (k := k); try assumption.
  - intros k0 x0 [].
  - apply binv_new.
Qed.

(* number of live buffers never exceeds the limit *)
Theorem buffer_count_bounded : forall max ops st,
  bexec (bufs_new max) ops = Some st -> N.of_nat (length (btab st)) <= max /\ bmax st = max.
Proof.
  intros max ops. 
  assert (Hgen : forall ops st0 st, binv st0 -> N.of_nat (length (btab st0)) <= bmax st0 ->
            bexec st0 ops = Some st -> N.of_nat (length (btab st)) <= bmax st /\ bmax st = bmax st0).
  { clear ops. induction ops as [|o t IH]; intros st0 st Hinv Hle Hex; cbn [bexec] in Hex.
    - injection Hex as <-. split; [exact Hle|reflexivity].
    - destruct (bstep st0 o) as [out st1] eqn:Hs.
      assert (Hnp : out <> OPanic) by (intros ->; discriminate).
      assert (Hex' : bexec st1 t = Some st) by (destruct out; try exact Hex; exfalso; apply Hnp; reflexivity).
      destruct (bstep_preserves _ _ _ _ Hinv Hs Hnp) as [Hinv1 _].
      assert (Hstep : N.of_nat (length (btab st1)) <= bmax st1 /\ bmax st1 = bmax st0).
      { destruct o as [d|id]; cbn [bstep] in Hs.
        - destruct (allocate_buffer st0 d) as [[[id len]|e|] st''] eqn:Ha; injection Hs as <- <-.
          + destruct (allocate_ok_spec _ _ _ _ _ Hinv Ha) as (_ & _ & _ & Htab & _ & Hmax & Hroom & _).
            rewrite Htab, app_length, Hmax. cbn [length]. split; [lia|reflexivity].
          + destruct (allocate_err_spec _ _ _ _ Ha) as [-> _]. split; [exact Hle|reflexivity].
          + exfalso. apply Hnp. reflexivity.
        - destruct (buffer_consume st0 id) as [[d|e|] st''] eqn:Hc; injection Hs as <- <-.
          + destruct (consume_ok_spec _ _ _ _ Hinv Hc) as (_ & _ & Hmax & _ & _ & Hlen & _).
            rewrite Hmax. split; [lia|reflexivity].
          + destruct (consume_err_spec _ _ _ _ Hc) as (_ & -> & _). split; [exact Hle|reflexivity].
          + exfalso. apply Hnp. reflexivity. }
      destruct Hstep as [Hle1 Hmax1].
      destruct (IH _ _ Hinv1 Hle1 Hex') as [Hle' Hmax']. split; [exact Hle'|congruence]. }
  intros st Hex. destruct (Hgen ops (bufs_new max) st (binv_new max)) as [H1 H2]; [cbn; lia|exact Hex|].
  cbn [bufs_new bmax] in H2. rewrite H2 in H1. split; assumption.
Qed.

(* ---------------------------------------------------------------- return path *)
Lemma buffer_pack_roundtrip : forall id len, id <= U32_MAX -> len <= U32_MAX ->
  buffer_id (buffer_pack id len) = id /\ buffer_len (buffer_pack id len) = len.
Proof.
  intros id len Hid Hlen. unfold U32_MAX in *. unfold buffer_id, buffer_len, buffer_pack.
  assert (Hdiv : (id * 4294967296 + len) / 4294967296 = id).
  { rewrite N.div_add_l by lia. rewrite (N.div_small len) by lia. lia. }
  assert (Hmod : (id * 4294967296 + len) mod 4294967296 = len).
  { rewrite N.add_comm, N.mod_add by lia. apply N.mod_small. lia. }
  rewrite Hdiv, Hmod. split; [apply N.mod_small; lia|reflexivity].
Qed.

Lemma bexec_app : forall a b st,
  bexec st (a ++ b) = match bexec st a with Some s => bexec s b | None => None end.
Proof.
  induction a as [|o t IH]; intros b st; cbn [app bexec]; [reflexivity|].
  destruct (bstep st o) as [out st1]. destruct out; try apply IH; reflexivity.
Qed.

(* a host function returning data, in any reachable table state *)
Theorem host_call_result_is_live_buffer : forall max ops st m pairs f,
  bexec (bufs_new max) ops = Some st -> Forall u32_pair pairs ->
  (Exists (out_of_mem m) pairs /\ host_call st m pairs f = (Err MemoryAccessError, st))
  \/ (Forall (in_mem m) pairs /\
      let r := f (map (fun a => slice m (fst a) (fst a + snd a)) pairs) in
      N.of_nat (length r) <= U32_MAX -> bnext st < U32_MAX ->
      if bmax st <=? N.of_nat (length (btab st))
      then host_call st m pairs f = (Err TooManyBuffers, st)
      else exists st',
        host_call st m pairs f = (Ok (buffer_pack (bnext st) (N.of_nat (length r))), st')
        /\ bexec (bufs_new max) (ops ++ [BAlloc r]) = Some st'
        /\ im_find (bnext st) (btab st') = Some r
        /\ bnext st' = bnext st + 1).
Proof.
  intros max ops st m pairs f Hex Hall.
  pose proof (reachable_inv _ _ _ Hex) as Hinv.
  unfold host_call, host_call_w. fold (host_reads m pairs).
  destruct (host_reads_exact_or_error m pairs Hall) as [[Hin Heq]|[Hout Heq]]; rewrite Heq.
  - right. split; [exact Hin|].
    set (r := f (map (fun a => slice m (fst a) (fst a + snd a)) pairs)). intros Hlen Hnext.
    assert (Hmod : N.of_nat (length r) mod 4294967296 = N.of_nat (length r))
      by (apply N.mod_small; unfold U32_MAX in Hlen; lia).
    destruct (N.leb_spec (bmax st) (N.of_nat (length (btab st)))) as [Hfull|Hroom].
    { assert (Ha : allocate_buffer st r = (Err TooManyBuffers, st)).
      { unfold allocate_buffer.
        destruct (N.ltb_spec U32_MAX (N.of_nat (length r))) as [Hbad|_]; [lia|].
        destruct (N.leb_spec (bmax st) (N.of_nat (length (btab st)))) as [_|Hbad]; [reflexivity|lia]. }
      rewrite Ha. reflexivity. }
    assert (Ha : allocate_buffer st r =
                 (Ok (bnext st, N.of_nat (length r)),
                  {| btab := im_insert (bnext st) r (btab st); bnext := bnext st + 1; bmax := bmax st |})).
    { unfold allocate_buffer.
      destruct (N.ltb_spec U32_MAX (N.of_nat (length r))) as [Hbad|_]; [lia|].
      destruct (N.leb_spec (bmax st) (N.of_nat (length (btab st)))) as [Hbad|_]; [lia|].
      destruct (N.ltb_spec U32_MAX (bnext st + 1)) as [Hbad|_]; [unfold U32_MAX in *; lia|].
      rewrite Hmod. reflexivity. }
    rewrite Ha. eexists. split; [reflexivity|].
    destruct (allocate_ok_spec _ _ _ _ _ Hinv Ha) as (_ & _ & _ & Htab & Hn & _ & _ & Hinv').
    split; [|split; [|exact Hn]].
    + rewrite bexec_app, Hex. cbn [bexec bstep]. rewrite Ha. reflexivity.
    + apply in_im_find; [exact (proj1 Hinv')|]. rewrite Htab. apply in_or_app. right. left. reflexivity.
  - left. split; [exact Hout|reflexivity].
Qed.

(* the WASM sequence: call, then buffer_consume(id of the returned value, dest) *)
Theorem call_then_consume_exact_or_error : forall max ops st m pairs f dest,
  bexec (bufs_new max) ops = Some st -> Forall u32_pair pairs -> Forall (in_mem m) pairs ->
  dest <= U32_MAX ->
  let r := f (map (fun a => slice m (fst a) (fst a + snd a)) pairs) in
  N.of_nat (length r) <= U32_MAX -> bnext st < U32_MAX ->
  N.of_nat (length (btab st)) < bmax st ->
  let v := buffer_pack (bnext st) (N.of_nat (length r)) in
  buffer_id v = bnext st /\ buffer_len v = N.of_nat (length r) /\
  ((dest + N.of_nat (length r) <= msize m /\
    exists st'' m', call_then_consume st m pairs f dest = (Ok v, st'', m')
                    /\ writes_exactly m m' dest r /\ im_find (bnext st) (btab st'') = None)
   \/ (msize m < dest + N.of_nat (length r) /\
       exists st'', call_then_consume st m pairs f dest = (Err MemoryAccessError, st'', m))).
Proof.
  intros max ops st m pairs f dest Hex Hall Hin Hdest r Hlen Hnext Hroom v.
  assert (Hid : bnext st <= U32_MAX) by (unfold U32_MAX in *; lia).
  destruct (buffer_pack_roundtrip (bnext st) (N.of_nat (length r)) Hid Hlen) as [Hbid Hblen].
  split; [exact Hbid|]. split; [exact Hblen|].
  destruct (host_call_result_is_live_buffer max ops st m pairs f Hex Hall) as [[Hout _]|[_ Hok]].
  { exfalso. apply Exists_exists in Hout. destruct Hout as [a [Ha Hlt]].
    rewrite Forall_forall in Hin. specialize (Hin a Ha). unfold in_mem, out_of_mem in *. lia. }
  specialize (Hok Hlen Hnext).
  destruct (N.leb_spec (bmax st) (N.of_nat (length (btab st)))) as [Hbad|_]; [lia|].
  destruct Hok as (st' & Hcall & Hex' & Hfind & Hn').
  pose proof (consume_buffer_exact_or_error max (ops ++ [BAlloc r]) st' m (bnext st) dest Hex' Hdest) as Hc.
  rewrite Hfind in Hc. specialize (Hc Hlen). destruct Hc as (st'' & Hbc & Hcases).
  pose proof (reachable_inv _ _ _ Hex') as Hinv'.
  destruct (consume_ok_spec _ _ _ _ Hinv' Hbc) as (_ & _ & _ & _ & _ & _ & Hnone & _).
  unfold call_then_consume, call_then_consume_w. fold (host_call st m pairs f). rewrite Hcall.
  unfold r in Hbid. rewrite Hbid. fold (consume_buffer st' m (bnext st) dest).
  destruct Hcases as [[Hfit (m' & Heq & Hw)]|[Hover Heq]]; rewrite Heq.
  - left. split; [exact Hfit|]. exists st'', m'. repeat split; try assumption; apply Hw.
  - right. split; [exact Hover|]. exists st''. reflexivity.
Qed.

(* ---------------------------------------------------------------- refinement to the abstract table *)
Lemma assoc_remove_in : forall id l k x, In (k, x) (assoc_remove id l) <-> In (k, x) l /\ k <> id.
Proof.
  intros id l k x. induction l as [|[k0 d] t IH]; cbn [assoc_remove]; [cbn; tauto|].
  destruct (N.eqb_spec k0 id) as [->|Hne].
  - rewrite IH. cbn [In]. split.
    + intros [Hin Hk]. split; [right; exact Hin|exact Hk].
    + intros [[Heq|Hin] Hk]; [injection Heq as -> _; congruence|split; assumption].
  - cbn [In]. rewrite IH. split.
    + intros [Heq|[Hin Hk]]; [injection Heq as <- <-; split; [left; reflexivity|exact Hne]|split; [right; exact Hin|exact Hk]].
    + intros [[Heq|Hin] Hk]; [left; exact Heq|right; split; assumption].
Qed.

Lemma assoc_remove_nodup : forall id l, NoDup (keys l) -> NoDup (keys (assoc_remove id l)).
Proof.
  intros id l. induction l as [|[k0 d] t IH]; cbn [assoc_remove keys map fst]; intros Hnd; [constructor|].
  inversion Hnd as [|? ? Hnotin Hnd']; subst.
  destruct (N.eqb_spec k0 id) as [->|Hne]; [apply IH; exact Hnd'|].
  cbn [keys map fst]. constructor; [|apply IH; exact Hnd'].
  intros Hin. apply Hnotin. destruct (key_in_pair _ _ Hin) as [x Hx].
  apply assoc_remove_in in Hx. destruct Hx as [Hx _]. apply (in_map fst) in Hx. exact Hx.
Qed.

Lemma nodup_keys_nodup : forall (l : imap), NoDup (keys l) -> NoDup l.
Proof. intros l. unfold keys. apply NoDup_map_inv. Qed.

Definition R (st : bufs) (sp : spec) : Prop :=
  bnext st = snext sp /\ bmax st = smax sp /\ binv st /\ NoDup (keys (slive sp)) /\
  forall k x, In (k, x) (btab st) <-> In (k, x) (slive sp).

Lemma R_length : forall st sp, R st sp -> length (btab st) = length (slive sp).
Proof.
  intros st sp (_ & _ & [Hnd _] & Hnd2 & Hin). apply Permutation_length.
  apply NoDup_Permutation; [apply nodup_keys_nodup; exact Hnd|apply nodup_keys_nodup; exact Hnd2|].
  intros [k x]. apply Hin.
Qed.

Lemma R_find : forall st sp id, R st sp -> im_find id (btab st) = im_find id (slive sp).
Proof.
  intros st sp id (_ & _ & [Hnd _] & Hnd2 & Hin).
  destruct (im_find id (btab st)) as [d|] eqn:H1.
  - symmetry. apply in_im_find; [exact Hnd2|]. apply Hin. apply im_find_in. exact H1.
  - destruct (im_find id (slive sp)) as [d|] eqn:H2; [|reflexivity].
    apply im_find_in in H2. apply Hin in H2. apply (in_im_find _ _ _ Hnd) in H2. congruence.
Qed.

Lemma R_new : forall max, R (bufs_new max) (spec_new max).
Proof.
  intros max. repeat split; try apply binv_new; cbn; try constructor; auto.
Qed.

Lemma step_refines : forall st sp o, R st sp ->
  fst (bstep st o) = fst (spec_step sp o) /\
  (fst (bstep st o) <> OPanic -> R (snd (bstep st o)) (snd (spec_step sp o))).
Proof.
  intros st sp o HR. pose proof HR as (Hn & Hm & Hinv & Hnd2 & Hin).
  pose proof (R_length _ _ HR) as Hlen. destruct o as [d|id]; cbn [bstep spec_step].
  - unfold allocate_buffer. rewrite <- Hn, <- Hm, <- Hlen.
    destruct (N.ltb_spec U32_MAX (N.of_nat (length d))) as [Hbig|Hsmall]; cbn [fst snd].
    { split; [reflexivity|intros H; exfalso; apply H; reflexivity]. }
    destruct (N.leb_spec (bmax st) (N.of_nat (length (btab st)))) as [Hfull|Hroom]; cbn [fst snd].
    { split; [reflexivity|intros _; exact HR]. }
    destruct (N.ltb_spec U32_MAX (bnext st + 1)) as [Hov|Hnext]; cbn [fst snd].
    { split; [reflexivity|intros H; exfalso; apply H; reflexivity]. }
    assert (Hmod : N.of_nat (length d) mod 4294967296 = N.of_nat (length d))
      by (apply N.mod_small; unfold U32_MAX in Hsmall; lia).
    rewrite Hmod. split; [reflexivity|]. intros _.
    destruct Hinv as [Hnd Hlt].
    assert (Hfresh : ~ In (bnext st) (keys (btab st))) by (intros Hk; apply Hlt in Hk; lia).
    rewrite (im_insert_fresh _ _ _ Hfresh).
    unfold R. cbn [btab bnext bmax slive snext smax].
    split; [first [reflexivity|congruence]|]. split; [first [reflexivity|exact Hm]|]. split; [|split].
    + split.
      * cbn [btab]. rewrite keys_app. cbn [keys map fst].
        apply (Permutation_NoDup (l := bnext st :: keys (btab st))); [apply Permutation_cons_append|].
        constructor; assumption.
      * cbn [btab bnext]. intros k Hk. rewrite keys_app in Hk. apply in_app_or in Hk.
        destruct Hk as [Hk|[<-|[]]]; [apply Hlt in Hk; lia|cbn [fst]; lia].
    + cbn [keys map fst]. constructor; [|exact Hnd2].
      intros Hk. destruct (key_in_pair _ _ Hk) as [x Hx]. apply Hin in Hx.
      apply Hfresh. apply (in_map fst) in Hx. exact Hx.
    + intros k x. rewrite in_app_iff. cbn [In]. rewrite Hin. tauto.
  - rewrite <- (R_find _ _ id HR).
    destruct (im_find id (btab st)) as [d|] eqn:Hf.
    + destruct (consume_found _ _ _ Hinv Hf) as [st' Hc]. rewrite Hc. cbn [fst snd].
      split; [reflexivity|]. intros _.
      destruct (consume_ok_spec _ _ _ _ Hinv Hc) as (_ & Hn' & Hm' & Hinv' & Hin' & _).
      unfold R. cbn [slive snext smax].
      split; [congruence|]. split; [congruence|]. split; [exact Hinv'|]. split.
      * apply assoc_remove_nodup. exact Hnd2.
      * intros k x. rewrite Hin', assoc_remove_in, Hin. tauto.
    + rewrite (consume_missing _ _ Hf). cbn [fst snd]. split; [reflexivity|intros _; exact HR].
Qed.

(* the buffer table of the code behaves exactly like the abstract id -> data table, for every history *)
Theorem table_refines_spec : forall max ops, brun (bufs_new max) ops = spec_run (spec_new max) ops.
Proof.
  intros max ops.
  assert (Hgen : forall ops st sp, R st sp -> brun st ops = spec_run sp ops).
  { clear ops. induction ops as [|o t IH]; intros st sp HR; cbn [brun spec_run]; [reflexivity|].
    destruct (step_refines st sp o HR) as [Hout Hnext].
    destruct (bstep st o) as [out st1]. destruct (spec_step sp o) as [out2 sp1].
    cbn [fst snd] in Hout, Hnext. subst out2.
    destruct out; try reflexivity; f_equal; apply IH; apply Hnext; discriminate. }
  apply Hgen. apply R_new.
Qed.
