(* C47 — proofs about the host memory access model and the buffer table. *)
From Coq Require Import List NArith Bool Lia Permutation.
Import ListNotations.
Require Import RV.Model.C47_HostMem.
Open Scope N_scope.
Arguments N.add : simpl never.
Arguments N.sub : simpl never.
Arguments N.mul : simpl never.
Arguments N.pow : simpl never.
Arguments N.modulo : simpl never.
Arguments N.div : simpl never.
Arguments N.eqb : simpl never.
Arguments N.ltb : simpl never.
Arguments N.leb : simpl never.

Lemma pow64 : 2 ^ USIZE_BITS = 18446744073709551616.
Proof. reflexivity. Qed.
Lemma pow32 : 2 ^ 32 = 4294967296.
Proof. reflexivity. Qed.

Lemma as_usize_small : forall x, x < 18446744073709551616 -> as_usize USIZE_BITS x = x.
Proof. intros x Hx. unfold as_usize. rewrite pow64. apply N.mod_small. exact Hx. Qed.

Lemma uadd_small : forall a b, a + b < 18446744073709551616 -> uadd USIZE_BITS a b = Some (a + b).
Proof.
  intros a b Hab. unfold uadd. rewrite pow64.
  destruct (N.ltb_spec (a + b) 18446744073709551616) as [_|Hge]; [reflexivity|lia].
Qed.

(* ---------------------------------------------------------------- slices *)
Lemma range_from_length : forall n p, length (range_from p n) = n.
Proof. induction n as [|n IH]; intros p; cbn [range_from length]; [reflexivity|now rewrite IH]. Qed.

Lemma range_from_nth : forall n p i, (i < n)%nat -> nth i (range_from p n) 0 = p + N.of_nat i.
Proof.
  induction n as [|n IH]; intros p i Hi; [lia|].
  destruct i as [|i]; cbn [range_from nth].
  - cbn. lia.
  - rewrite IH by lia. lia.
Qed.

Lemma slice_length : forall m s e, N.of_nat (length (slice m s e)) = e - s.
Proof. intros m s e. unfold slice. rewrite map_length, range_from_length. lia. Qed.

Lemma slice_nth : forall m s e i, i < e - s -> nth (N.to_nat i) (slice m s e) 0 = mget m (s + i).
Proof.
  intros m s e i Hi. unfold slice.
  assert (Hlt : (N.to_nat i < N.to_nat (e - s))%nat) by lia.
  rewrite (nth_indep _ 0 (mget m 0)) by (rewrite map_length, range_from_length; exact Hlt).
  rewrite map_nth. rewrite range_from_nth by exact Hlt. f_equal. lia.
Qed.

(* the bytes of [ptr, ptr+len) and nothing else *)
Definition reads_exactly (m : mem) (ptr len : N) (bs : list N) : Prop :=
  N.of_nat (length bs) = len /\ forall i, i < len -> nth (N.to_nat i) bs 0 = mget m (ptr + i).

Lemma slice_reads_exactly : forall m ptr len, reads_exactly m ptr len (slice m ptr (ptr + len)).
Proof.
  intros m ptr len. split.
  - rewrite slice_length. lia.
  - intros i Hi. apply slice_nth. lia.
Qed.

(* ---------------------------------------------------------------- read_memory *)
Lemma read_memory_cases : forall m ptr len, ptr <= U32_MAX -> len <= U32_MAX ->
  (ptr + len <= msize m /\ read_memory m ptr len = Ok (slice m ptr (ptr + len)))
  \/ (msize m < ptr + len /\ read_memory m ptr len = Err MemoryAccessError).
Proof.
  intros m ptr len Hp Hl. unfold U32_MAX in Hp, Hl.
  unfold read_memory, read_memory_w.
  rewrite !as_usize_small by lia. rewrite uadd_small by lia.
  destruct (N.ltb_spec (msize m) ptr) as [Hlt|Hge].
  - right. split; [lia|reflexivity].
  - destruct (N.ltb_spec (msize m) (ptr + len)) as [Hlt2|Hge2].
    + right. split; [lia|reflexivity].
    + left. split; [lia|].
      destruct (N.leb_spec ptr (ptr + len)) as [_|Hbad]; [|lia].
      destruct (N.leb_spec (ptr + len) (msize m)) as [_|Hbad]; [|lia].
      reflexivity.
Qed.

Theorem read_exact_or_error : forall m ptr len, ptr <= U32_MAX -> len <= U32_MAX ->
  (ptr + len <= msize m /\
   exists bs, read_memory m ptr len = Ok bs /\ reads_exactly m ptr len bs)
  \/ (msize m < ptr + len /\ read_memory m ptr len = Err MemoryAccessError).
Proof.
  intros m ptr len Hp Hl.
  destruct (read_memory_cases m ptr len Hp Hl) as [[Hin Heq]|[Hout Heq]].
  - left. split; [exact Hin|]. eexists. split; [exact Heq|apply slice_reads_exactly].
  - right. split; assumption.
Qed.

Lemma read_never_panics : forall m ptr len, ptr <= U32_MAX -> len <= U32_MAX ->
  read_memory m ptr len <> Panic.
Proof.
  intros m ptr len Hp Hl.
  destruct (read_memory_cases m ptr len Hp Hl) as [[_ Heq]|[_ Heq]]; rewrite Heq; discriminate.
Qed.

Lemma slice_ptr_le : forall v, slice_ptr v <= U32_MAX.
Proof.
  intros v. unfold slice_ptr, U32_MAX.
  pose proof (N.mod_upper_bound (v / 4294967296) 4294967296). lia.
Qed.
Lemma slice_len_le : forall v, slice_len v <= U32_MAX.
Proof.
  intros v. unfold slice_len, U32_MAX.
  pose proof (N.mod_upper_bound v 4294967296). lia.
Qed.

Theorem read_slice_exact_or_error : forall m v,
  let ptr := slice_ptr v in let len := slice_len v in
  (ptr + len <= msize m /\
   exists bs, read_slice m v = Ok bs /\ reads_exactly m ptr len bs)
  \/ (msize m < ptr + len /\ read_slice m v = Err MemoryAccessError).
Proof.
  intros m v ptr len. unfold read_slice, read_slice_w.
  apply (read_exact_or_error m ptr len (slice_ptr_le v) (slice_len_le v)).
Qed.

(* ---------------------------------------------------------------- write_memory *)
Definition writes_exactly (m m' : mem) (ptr : N) (data : list N) : Prop :=
  msize m' = msize m /\
  (forall i, ptr <= i < ptr + N.of_nat (length data) ->
             mget m' i = nth (N.to_nat (i - ptr)) data 0) /\
  (forall i, ~ (ptr <= i < ptr + N.of_nat (length data)) -> mget m' i = mget m i).

Lemma mem_store_writes_exactly : forall m off data, writes_exactly m (mem_store m off data) off data.
Proof.
  intros m off data. unfold writes_exactly, mem_store. cbn [msize mget].
  split; [reflexivity|]. split.
  - intros i [Hlo Hhi].
    destruct (N.leb_spec off i) as [_|Hbad]; [|lia].
    destruct (N.ltb_spec i (off + N.of_nat (length data))) as [_|Hbad]; [|lia].
    reflexivity.
  - intros i Hout.
    destruct (N.leb_spec off i) as [Hlo|Hlo]; [|reflexivity].
    destruct (N.ltb_spec i (off + N.of_nat (length data))) as [Hhi|Hhi]; [|reflexivity].
    exfalso. apply Hout. lia.
Qed.

Theorem write_exact_or_error : forall m ptr data,
  ptr <= U32_MAX -> N.of_nat (length data) < 9223372036854775808 ->
  let dl := N.of_nat (length data) in
  (ptr + dl <= msize m /\
   exists m', write_memory m ptr data = (Ok tt, m') /\ writes_exactly m m' ptr data)
  \/ (msize m < ptr + dl /\ write_memory m ptr data = (Err MemoryAccessError, m)).
Proof.
  intros m ptr data Hp Hd dl. unfold U32_MAX in Hp. subst dl.
  unfold write_memory, write_memory_w.
  rewrite !as_usize_small by lia. rewrite uadd_small by lia.
  destruct (N.ltb_spec (msize m) ptr) as [Hlt|Hge].
  - right. split; [lia|reflexivity].
  - destruct (N.ltb_spec (msize m) (ptr + N.of_nat (length data))) as [Hlt2|Hge2].
    + right. split; [lia|reflexivity].
    + left. split; [lia|].
      unfold wasmi_write_w. rewrite uadd_small by lia.
      destruct (N.leb_spec ptr (ptr + N.of_nat (length data))) as [_|Hbad]; [|lia].
      destruct (N.leb_spec (ptr + N.of_nat (length data)) (msize m)) as [_|Hbad]; [|lia].
      cbn [andb]. eexists. split; [reflexivity|apply mem_store_writes_exactly].
Qed.

Lemma write_never_panics : forall m ptr data,
  ptr <= U32_MAX -> N.of_nat (length data) < 9223372036854775808 ->
  fst (write_memory m ptr data) <> Panic.
Proof.
  intros m ptr data Hp Hd.
  destruct (write_exact_or_error m ptr data Hp Hd) as [[_ [m' [Heq _]]]|[_ Heq]];
    rewrite Heq; cbn [fst]; discriminate.
Qed.

(* ---------------------------------------------------------------- host functions (sequence of reads) *)
Definition u32_pair (a : N * N) : Prop := fst a <= U32_MAX /\ snd a <= U32_MAX.
Definition in_mem (m : mem) (a : N * N) : Prop := fst a + snd a <= msize m.
Definition out_of_mem (m : mem) (a : N * N) : Prop := msize m < fst a + snd a.

Theorem host_reads_exact_or_error : forall m args, Forall u32_pair args ->
  (Forall (in_mem m) args /\
   host_reads m args = Ok (map (fun a => slice m (fst a) (fst a + snd a)) args))
  \/ (Exists (out_of_mem m) args /\ host_reads m args = Err MemoryAccessError).
Proof.
  intros m args Hall. induction Hall as [|[p l] t [Hp Hl] Ht IH].
  - left. split; [constructor|reflexivity].
  - cbn [fst snd] in Hp, Hl. unfold host_reads in *. cbn [host_reads_w].
    fold (read_memory m p l).
    destruct (read_memory_cases m p l Hp Hl) as [[Hin Heq]|[Hout Heq]]; rewrite Heq.
    + destruct IH as [[Hins Heqs]|[Hex Heqs]]; rewrite Heqs.
      * left. split; [constructor; [exact Hin|exact Hins]|reflexivity].
      * right. split; [apply Exists_cons_tl; exact Hex|reflexivity].
    + right. split; [apply Exists_cons_hd; exact Hout|reflexivity].
Qed.

(* ---------------------------------------------------------------- 32-bit aside *)
Lemma usize32_overflow_panics :
  read_memory_w 32 {| msize := 1; mget := fun _ => 0 |} 1 U32_MAX = Panic.
Proof. vm_compute. reflexivity. Qed.

(* ---------------------------------------------------------------- buffer table *)
Definition keys (l : imap) : list N := map fst l.

Lemma im_find_in : forall id l d, im_find id l = Some d -> In (id, d) l.
Proof.
  intros id l d. induction l as [|[k x] t IH]; cbn [im_find]; [discriminate|].
  destruct (N.eqb_spec k id) as [->|Hne]; intros H.
  - injection H as ->. left. reflexivity.
  - right. apply IH. exact H.
Qed.

Lemma in_im_find : forall id l d, NoDup (keys l) -> In (id, d) l -> im_find id l = Some d.
Proof.
  intros id l d. induction l as [|[k x] t IH]; intros Hnd Hin; [destruct Hin|].
  cbn [keys map fst] in Hnd. inversion Hnd as [|? ? Hnotin Hnd']; subst.
  cbn [im_find]. destruct Hin as [Heq|Hin].
  - injection Heq as -> ->. rewrite N.eqb_refl. reflexivity.
  - destruct (N.eqb_spec k id) as [->|Hne].
    + exfalso. apply Hnotin. apply (in_map fst) in Hin. exact Hin.
    + apply IH; assumption.
Qed.

Lemma im_find_none_notin : forall id l, im_find id l = None -> ~ In id (keys l).
Proof.
  intros id l. induction l as [|[k x] t IH]; cbn [im_find keys map fst]; intros H Hin; [exact Hin|].
  destruct (N.eqb_spec k id) as [->|Hne]; [discriminate|].
  destruct Hin as [Heq|Hin]; [congruence|]. exact (IH H Hin).
Qed.

Lemma notin_im_find_none : forall id l, ~ In id (keys l) -> im_find id l = None.
Proof.
  intros id l. induction l as [|[k x] t IH]; cbn [im_find keys map fst]; intros Hnot; [reflexivity|].
  destruct (N.eqb_spec k id) as [->|Hne]; [exfalso; apply Hnot; left; reflexivity|].
  apply IH. intros Hin. apply Hnot. right. exact Hin.
Qed.

(* im_insert of a fresh key appends *)
Lemma im_insert_fresh : forall id d l, ~ In id (keys l) -> im_insert id d l = l ++ [(id, d)].
Proof.
  intros id d l. induction l as [|[k x] t IH]; cbn [im_insert keys map fst app]; intros Hnot; [reflexivity|].
  destruct (N.eqb_spec k id) as [->|Hne]; [exfalso; apply Hnot; left; reflexivity|].
  rewrite IH; [reflexivity|]. intros Hin. apply Hnot. right. exact Hin.
Qed.

Lemma im_split_spec : forall id l pre x post,
  im_split id l = Some (pre, x, post) -> l = pre ++ (id, x) :: post.
Proof.
  intros id l. induction l as [|[k d] t IH]; intros pre x post; cbn [im_split]; [discriminate|].
  destruct (N.eqb_spec k id) as [->|Hne].
  - intros H. injection H as <- <- <-. reflexivity.
  - destruct (im_split id t) as [[[pre' x'] post']|] eqn:Hs; [|discriminate].
    intros H. injection H as <- <- <-. cbn [app]. f_equal. apply IH. reflexivity.
Qed.

Lemma im_split_find : forall id l,
  match im_split id l with
  | Some (_, x, _) => im_find id l = Some x
  | None => im_find id l = None
  end.
Proof.
  intros id l. induction l as [|[k d] t IH]; cbn [im_split im_find]; [reflexivity|].
  destruct (N.eqb_spec k id) as [->|Hne]; [reflexivity|].
  destruct (im_split id t) as [[[pre' x'] post']|]; exact IH.
Qed.

Lemma swap_tail_perm : forall (pre post : imap), Permutation (swap_tail pre post) (pre ++ post).
Proof.
  intros pre post. unfold swap_tail. destruct (rev post) as [|lst rp] eqn:Hr.
  - assert (post = []) as -> by (rewrite <- (rev_involutive post), Hr; reflexivity).
    rewrite app_nil_r. apply Permutation_refl.
  - assert (post = rev rp ++ [lst]) as -> by (rewrite <- (rev_involutive post), Hr; reflexivity).
    apply Permutation_app_head. apply Permutation_cons_append.
Qed.

Lemma keys_app : forall a b, keys (a ++ b) = keys a ++ keys b.
Proof. intros a b. unfold keys. apply map_app. Qed.

(* swap_remove on a table with unique keys: removes exactly the entry of id *)
Lemma im_swap_remove_spec : forall id l d l',
  NoDup (keys l) -> im_swap_remove id l = Some (d, l') ->
  im_find id l = Some d /\ NoDup (keys l') /\
  (forall k x, In (k, x) l' <-> In (k, x) l /\ k <> id) /\
  S (length l') = length l.
Proof.
  intros id l d l' Hnd. unfold im_swap_remove.
  pose proof (im_split_find id l) as Hf.
  destruct (im_split id l) as [[[pre x] post]|] eqn:Hs; [|discriminate].
  intros H. injection H as -> <-.
  apply im_split_spec in Hs. subst l.
  pose proof (swap_tail_perm pre post) as Hperm.
  rewrite keys_app in Hnd. cbn [keys map fst] in Hnd. fold (keys post) in Hnd.
  pose proof (NoDup_remove_1 _ _ _ Hnd) as Hnd1.
  pose proof (NoDup_remove_2 _ _ _ Hnd) as Hnotin.
  rewrite <- keys_app in Hnd1, Hnotin.
  split; [exact Hf|]. split; [|split].
  - apply (Permutation_NoDup (l := keys (pre ++ post))); [|exact Hnd1].
    unfold keys. apply Permutation_map. apply Permutation_sym. exact Hperm.
  - intros k y. split.
    + intros Hin. apply (Permutation_in _ Hperm) in Hin. split.
      * apply in_app_or in Hin. apply in_or_app. destruct Hin as [Hin|Hin]; [left; exact Hin|right; right; exact Hin].
      * intros ->. apply Hnotin. apply (in_map fst) in Hin. exact Hin.
    + intros [Hin Hne]. apply (Permutation_in _ (Permutation_sym Hperm)).
      apply in_app_or in Hin. apply in_or_app. destruct Hin as [Hin|[Heq|Hin]].
      * left. exact Hin.
      * exfalso. apply Hne. injection Heq as -> _. reflexivity.
      * right. exact Hin.
  - pose proof (Permutation_length Hperm) as Hlen. rewrite app_length in Hlen.
    rewrite app_length. cbn [length]. rewrite Hlen. lia.
Qed.

Lemma im_swap_remove_none : forall id l, im_swap_remove id l = None <-> im_find id l = None.
Proof.
  intros id l. unfold im_swap_remove. pose proof (im_split_find id l) as Hf.
  destruct (im_split id l) as [[[pre x] post]|]; split; intros H; try discriminate; try reflexivity.
  - rewrite Hf in H. discriminate.
  - exact Hf.
Qed.

(* invariant of reachable tables: unique ids, all below the next id *)
Definition binv (st : bufs) : Prop :=
  NoDup (keys (btab st)) /\ forall k, In k (keys (btab st)) -> k < bnext st.

Lemma binv_new : forall max, binv (bufs_new max).
Proof. intros max. split; cbn; [constructor|intros k []]. Qed.

Lemma allocate_ok_spec : forall st data id len st',
  binv st -> allocate_buffer st data = (Ok (id, len), st') ->
  id = bnext st /\ len = N.of_nat (length data) /\ len <= U32_MAX /\
  btab st' = btab st ++ [(id, data)] /\ bnext st' = bnext st + 1 /\ bmax st' = bmax st /\
  N.of_nat (length (btab st)) < bmax st /\ binv st'.
Proof.
  intros st data id len st' [Hnd Hlt]. unfold allocate_buffer.
  destruct (N.ltb_spec U32_MAX (N.of_nat (length data))) as [|Hlen]; [discriminate|].
  destruct (N.leb_spec (bmax st) (N.of_nat (length (btab st)))) as [|Hroom]; [discriminate|].
  destruct (N.ltb_spec U32_MAX (bnext st + 1)) as [|Hnext]; [discriminate|].
  intros H. injection H as <- <- <-. cbn [btab bnext bmax].
  assert (Hfresh : ~ In (bnext st) (keys (btab st))) by (intros Hin; apply Hlt in Hin; lia).
  rewrite (im_insert_fresh _ _ _ Hfresh).
  assert (Hmod : N.of_nat (length data) mod 4294967296 = N.of_nat (length data))
    by (apply N.mod_small; unfold U32_MAX in Hlen; lia).
  rewrite Hmod. repeat split; try reflexivity; try assumption.
  - cbn [btab]. rewrite keys_app. cbn [keys map fst].
    apply (Permutation_NoDup (l := bnext st :: keys (btab st))).
    + apply Permutation_cons_append.
    + constructor; assumption.
  - cbn [btab bnext]. intros k Hin. rewrite keys_app in Hin. apply in_app_or in Hin.
    destruct Hin as [Hin|[<-|[]]]; [apply Hlt in Hin; lia|cbn [fst]; lia].
Qed.

Lemma allocate_err_spec : forall st data e st',
  allocate_buffer st data = (Err e, st') -> st' = st /\ e = TooManyBuffers.
Proof.
  intros st data e st'. unfold allocate_buffer.
  destruct (U32_MAX <? N.of_nat (length data)); [discriminate|].
  destruct (bmax st <=? N.of_nat (length (btab st))).
  - intros H. injection H as <- <-. split; reflexivity.
  - destruct (U32_MAX <? bnext st + 1); discriminate.
Qed.

Lemma key_in_pair : forall k (l : imap), In k (keys l) -> exists x, In (k, x) l.
Proof.
  intros k l Hin. unfold keys in Hin. apply in_map_iff in Hin.
  destruct Hin as [[k' x] [Heq Hin]]. cbn [fst] in Heq. subst k'. exists x. exact Hin.
Qed.

Lemma consume_ok_spec : forall st id d st',
  binv st -> buffer_consume st id = (Ok d, st') ->
  im_find id (btab st) = Some d /\ bnext st' = bnext st /\ bmax st' = bmax st /\ binv st' /\
  (forall k x, In (k, x) (btab st') <-> In (k, x) (btab st) /\ k <> id) /\
  S (length (btab st')) = length (btab st) /\ im_find id (btab st') = None /\ id < bnext st.
Proof.
  intros st id d st' [Hnd Hlt]. unfold buffer_consume.
  destruct (im_swap_remove id (btab st)) as [[d0 tab']|] eqn:Hs; [|discriminate].
  intros H. injection H as <- <-. cbn [btab bnext bmax].
  destruct (im_swap_remove_spec _ _ _ _ Hnd Hs) as (Hf & Hnd' & Hin & Hlen).
  split; [exact Hf|]. split; [reflexivity|]. split; [reflexivity|].
  split; [|split; [exact Hin|split; [exact Hlen|split]]].
  - split; [exact Hnd'|]. cbn [btab bnext]. intros k Hk.
    destruct (key_in_pair _ _ Hk) as [x Hx]. apply Hin in Hx. destruct Hx as [Hx _].
    apply Hlt. apply (in_map fst) in Hx. exact Hx.
  - apply notin_im_find_none. intros Hk. destruct (key_in_pair _ _ Hk) as [x Hx].
    apply Hin in Hx. destruct Hx as [_ Hne]. apply Hne. reflexivity.
  - apply Hlt. apply im_find_in in Hf. apply (in_map fst) in Hf. exact Hf.
Qed.

Lemma consume_err_spec : forall st id e st',
  buffer_consume st id = (Err e, st') ->
  e = BufferNotFound id /\ st' = st /\ im_find id (btab st) = None.
Proof.
  intros st id e st'. unfold buffer_consume.
  destruct (im_swap_remove id (btab st)) as [[d0 tab']|] eqn:Hs; [discriminate|].
  intros H. injection H as <- <-. apply im_swap_remove_none in Hs. repeat split; assumption.
Qed.

Lemma consume_never_panics : forall st id, fst (buffer_consume st id) <> Panic.
Proof.
  intros st id. unfold buffer_consume.
  destruct (im_swap_remove id (btab st)) as [[d0 tab']|]; cbn [fst]; discriminate.
Qed.

Lemma consume_found : forall st id d, binv st -> im_find id (btab st) = Some d ->
  exists st', buffer_consume st id = (Ok d, st').
Proof.
  intros st id d [Hnd Hlt] Hf. unfold buffer_consume.
  destruct (im_swap_remove id (btab st)) as [[d0 tab']|] eqn:Hs.
  - destruct (im_swap_remove_spec _ _ _ _ Hnd Hs) as (Hf' & _).
    rewrite Hf in Hf'. injection Hf' as <-. eexists. reflexivity.
  - apply im_swap_remove_none in Hs. rewrite Hs in Hf. discriminate.
Qed.

Lemma consume_missing : forall st id, im_find id (btab st) = None ->
  buffer_consume st id = (Err (BufferNotFound id), st).
Proof.
  intros st id Hf. unfold buffer_consume. apply im_swap_remove_none in Hf. rewrite Hf. reflexivity.
Qed.

(* an id that was handed out and is no longer in the table *)
Definition dead (id : N) (st : bufs) : Prop := id < bnext st /\ im_find id (btab st) = None.

Lemma bstep_preserves : forall st o out st',
  binv st -> bstep st o = (out, st') -> out <> OPanic ->
  binv st' /\ forall id, dead id st -> dead id st'.
Proof.
  intros st o out st' Hinv Hstep Hnp. destruct o as [d|id]; cbn [bstep] in Hstep.
  - destruct (allocate_buffer st d) as [[[id len]|e|] st''] eqn:Ha;
      injection Hstep as <- <-; [| |exfalso; apply Hnp; reflexivity].
    + destruct (allocate_ok_spec _ _ _ _ _ Hinv Ha) as (-> & _ & _ & Htab & Hnext & _ & _ & Hinv').
      split; [exact Hinv'|]. intros id0 [Hlt0 Hnone]. split; [lia|].
      rewrite Htab. apply notin_im_find_none. rewrite keys_app. intros Hin.
      apply in_app_or in Hin. destruct Hin as [Hin|[Heq|[]]].
      * exact (im_find_none_notin _ _ Hnone Hin).
      * cbn [fst] in Heq. lia.
    + destruct (allocate_err_spec _ _ _ _ Ha) as [-> _]. split; [exact Hinv|auto].
  - destruct (buffer_consume st id) as [[d|e|] st''] eqn:Hc;
      injection Hstep as <- <-; [| |exfalso; apply Hnp; reflexivity].
    + destruct (consume_ok_spec _ _ _ _ Hinv Hc) as (_ & Hnext & _ & Hinv' & Hin & _ & _ & _).
      split; [exact Hinv'|]. intros id0 [Hlt0 Hnone]. split; [lia|].
      apply notin_im_find_none. intros Hk. destruct (key_in_pair _ _ Hk) as [x Hx].
      apply Hin in Hx. destruct Hx as [Hx _]. apply (in_map fst) in Hx.
      exact (im_find_none_notin _ _ Hnone Hx).
    + destruct (consume_err_spec _ _ _ _ Hc) as (_ & -> & _). split; [exact Hinv|auto].
Qed.

Lemma bexec_preserves : forall ops st st',
  binv st -> bexec st ops = Some st' -> binv st' /\ forall id, dead id st -> dead id st'.
Proof.
  induction ops as [|o t IH]; intros st st' Hinv Hex; cbn [bexec] in Hex.
  - injection Hex as <-. split; [exact Hinv|auto].
  - destruct (bstep st o) as [out st1] eqn:Hs.
    assert (Hnp : out <> OPanic) by (intros ->; discriminate).
    destruct (bstep_preserves _ _ _ _ Hinv Hs Hnp) as [Hinv1 Hdead1].
    assert (Hex' : bexec st1 t = Some st') by (destruct out; try exact Hex; exfalso; apply Hnp; reflexivity).
    destruct (IH _ _ Hinv1 Hex') as [Hinv' Hdead']. split; [exact Hinv'|]. auto.
Qed.

Lemma reachable_inv : forall max ops st, bexec (bufs_new max) ops = Some st -> binv st.
Proof. intros max ops st Hex. exact (proj1 (bexec_preserves _ _ _ (binv_new max) Hex)). Qed.

(* a buffer id is consumed at most once: after a successful consume the id is unknown for ever *)
Theorem buffer_consume_once : forall max ops1 ops2 id st1 d st2 st3,
  bexec (bufs_new max) ops1 = Some st1 ->
  buffer_consume st1 id = (Ok d, st2) ->
  bexec st2 ops2 = Some st3 ->
  buffer_consume st3 id = (Err (BufferNotFound id), st3).
Proof.
  intros max ops1 ops2 id st1 d st2 st3 H1 Hc H2.
  pose proof (reachable_inv _ _ _ H1) as Hinv1.
  destruct (consume_ok_spec _ _ _ _ Hinv1 Hc) as (_ & Hnext & _ & Hinv2 & _ & _ & Hnone & Hlt).
  assert (Hdead : dead id st2) by (split; [lia|exact Hnone]).
  destruct (bexec_preserves _ _ _ Hinv2 H2) as [_ Hd]. destruct (Hd id Hdead) as [_ Hnone3].
  apply consume_missing. exact Hnone3.
Qed.

(* an id that was never handed out is unknown *)
Theorem buffer_unknown_id : forall max ops st id,
  bexec (bufs_new max) ops = Some st -> bnext st <= id ->
  buffer_consume st id = (Err (BufferNotFound id), st).
Proof.
  intros max ops st id Hex Hge. destruct (reachable_inv _ _ _ Hex) as [_ Hlt].
  apply consume_missing. apply notin_im_find_none. intros Hin. apply Hlt in Hin. lia.
Qed.

(* what the host reported at allocation is what a consume delivers *)
Theorem buffer_roundtrip : forall max ops st data id len st',
  bexec (bufs_new max) ops = Some st ->
  allocate_buffer st data = (Ok (id, len), st') ->
  len = N.of_nat (length data) /\ exists st'', buffer_consume st' id = (Ok data, st'').
Proof.
  intros max ops st data id len st' Hex Ha.
  pose proof (reachable_inv _ _ _ Hex) as Hinv.
  destruct (allocate_ok_spec _ _ _ _ _ Hinv Ha) as (_ & Hlen & _ & Htab & _ & _ & _ & Hinv').
  split; [exact Hlen|]. apply consume_found; [exact Hinv'|].
  apply in_im_find; [exact (proj1 Hinv')|]. rewrite Htab. apply in_or_app. right. left. reflexivity.
Qed.

(* host function consume_buffer: unknown id = error and nothing changes; known id = the write of
   exactly the buffer's bytes at [dest, dest+len) or MemoryAccessError with the memory unchanged *)
Theorem consume_buffer_exact_or_error : forall max ops st m id dest,
  bexec (bufs_new max) ops = Some st -> dest <= U32_MAX ->
  match im_find id (btab st) with
  | None => consume_buffer st m id dest = (Err (BufferNotFound id), st, m)
  | Some d =>
    N.of_nat (length d) <= U32_MAX ->
    exists st', buffer_consume st id = (Ok d, st') /\
      let dl := N.of_nat (length d) in
      ((dest + dl <= msize m /\
        exists m', consume_buffer st m id dest = (Ok tt, st', m') /\ writes_exactly m m' dest d)
       \/ (msize m < dest + dl /\ consume_buffer st m id dest = (Err MemoryAccessError, st', m)))
  end.
Proof.
  intros max ops st m id dest Hex Hdest.
  pose proof (reachable_inv _ _ _ Hex) as Hinv.
  destruct (im_find id (btab st)) as [d|] eqn:Hf.
  - intros Hlen. destruct (consume_found _ _ _ Hinv Hf) as [st' Hc]. exists st'. split; [exact Hc|].
    assert (Hd : N.of_nat (length d) < 9223372036854775808) by (unfold U32_MAX in Hlen; lia).
    unfold consume_buffer, consume_buffer_w. rewrite Hc. fold (write_memory m dest d).
    destruct (write_exact_or_error m dest d Hdest Hd) as [[Hin [m' [Heq Hw]]]|[Hout Heq]]; rewrite Heq.
    + left. split; [exact Hin|]. exists m'. split; [reflexivity|exact Hw].
    + right. split; [exact Hout|reflexivity].
  - unfold consume_buffer, consume_buffer_w. rewrite (consume_missing _ _ Hf). reflexivity.
Qed.

(* every buffer in a reachable table has a u32 length (allocate_buffer asserts it) *)
Lemma reachable_lengths : forall ops st,
  (forall k x, In (k, x) (btab st) -> N.of_nat (length x) <= U32_MAX) ->
  forall st', bexec st ops = Some st' ->
  binv st -> forall k x, In (k, x) (btab st') -> N.of_nat (length x) <= U32_MAX.
Proof.
  induction ops as [|o t IH]; intros st Hall st' Hex Hinv; cbn [bexec] in Hex.
  - injection Hex as <-. exact Hall.
  - destruct (bstep st o) as [out st1] eqn:Hs.
    assert (Hnp : out <> OPanic) by (intros ->; discriminate).
    assert (Hex' : bexec st1 t = Some st') by (destruct out; try exact Hex; exfalso; apply Hnp; reflexivity).
    destruct (bstep_preserves _ _ _ _ Hinv Hs Hnp) as [Hinv1 _].
    apply (IH st1); [|exact Hex'|exact Hinv1].
    destruct o as [d|id]; cbn [bstep] in Hs.
    + destruct (allocate_buffer st d) as [[[id len]|e|] st''] eqn:Ha; injection Hs as <- <-.
      * destruct (allocate_ok_spec _ _ _ _ _ Hinv Ha) as (-> & -> & Hle & Htab & _).
        intros k x Hin. rewrite Htab in Hin. apply in_app_or in Hin.
        destruct Hin as [Hin|[Heq|[]]]; [exact (Hall _ _ Hin)|injection Heq as _ <-; exact Hle].
      * destruct (allocate_err_spec _ _ _ _ Ha) as [-> _]. exact Hall.
      * exfalso. apply Hnp. reflexivity.
    + destruct (buffer_consume st id) as [[d|e|] st''] eqn:Hc; injection Hs as <- <-.
      * destruct (consume_ok_spec _ _ _ _ Hinv Hc) as (_ & _ & _ & _ & Hin & _).
        intros k x Hk. apply Hin in Hk. exact (Hall _ _ (proj1 Hk)).
      * destruct (consume_err_spec _ _ _ _ Hc) as (_ & -> & _). exact Hall.
      * exfalso. apply Hnp. reflexivity.
Qed.

Theorem reachable_buffers_u32 : forall max ops st k x,
  bexec (bufs_new max) ops = Some st -> In (k, x) (btab st) -> N.of_nat (length x) <= U32_MAX.
Proof.
  intros max ops st k x Hex Hin.
  apply (reachable_lengths ops (bufs_new max)) with (st' := st) (k := k); try assumption.
  - intros k0 x0 [].
  - apply binv_new.
Qed.

(* number of live buffers never exceeds the limit *)
Theorem buffer_count_bounded : forall max ops st,
  bexec (bufs_new max) ops = Some st -> N.of_nat (length (btab st)) <= max /\ bmax st = max.
Proof.
  intros max ops. 
  assert (Hgen : forall ops st0 st, binv st0 -> N.of_nat (length (btab st0)) <= bmax st0 ->
            bexec st0 ops = Some st -> N.of_nat (length (btab st)) <= bmax st /\ bmax st = bmax st0).
  { clear ops. induction ops as [|o t IH]; intros st0 st Hinv Hle Hex; cbn [bexec] in Hex.
    - injection Hex as <-. split; [exact Hle|reflexivity].
    - destruct (bstep st0 o) as [out st1] eqn:Hs.
      assert (Hnp : out <> OPanic) by (intros ->; discriminate).
      assert (Hex' : bexec st1 t = Some st) by (destruct out; try exact Hex; exfalso; apply Hnp; reflexivity).
      destruct (bstep_preserves _ _ _ _ Hinv Hs Hnp) as [Hinv1 _].
      assert (Hstep : N.of_nat (length (btab st1)) <= bmax st1 /\ bmax st1 = bmax st0).
      { destruct o as [d|id]; cbn [bstep] in Hs.
        - destruct (allocate_buffer st0 d) as [[[id len]|e|] st''] eqn:Ha; injection Hs as <- <-.
          + destruct (allocate_ok_spec _ _ _ _ _ Hinv Ha) as (_ & _ & _ & Htab & _ & Hmax & Hroom & _).
            rewrite Htab, app_length, Hmax. cbn [length]. split; [lia|reflexivity].
          + destruct (allocate_err_spec _ _ _ _ Ha) as [-> _]. split; [exact Hle|reflexivity].
          + exfalso. apply Hnp. reflexivity.
        - destruct (buffer_consume st0 id) as [[d|e|] st''] eqn:Hc; injection Hs as <- <-.
          + destruct (consume_ok_spec _ _ _ _ Hinv Hc) as (_ & _ & Hmax & _ & _ & Hlen & _).
            rewrite Hmax. split; [lia|reflexivity].
          + destruct (consume_err_spec _ _ _ _ Hc) as (_ & -> & _). split; [exact Hle|reflexivity].
          + exfalso. apply Hnp. reflexivity. }
      destruct Hstep as [Hle1 Hmax1].
      destruct (IH _ _ Hinv1 Hle1 Hex') as [Hle' Hmax']. split; [exact Hle'|congruence]. }
  intros st Hex. destruct (Hgen ops (bufs_new max) st (binv_new max)) as [H1 H2]; [cbn; lia|exact Hex|].
  cbn [bufs_new bmax] in H2. rewrite H2 in H1. split; assumption.
Qed.
