(* C31 — every syntactic panic site of the manifest compile pipeline (generated table
   Gen/C31_generator_panic_sites.v) is listed here with the reason it cannot fire; `sites_accounted` pins the
   two lists against each other, so a new, removed or changed site in /repo breaks the build of this file.
   Reasons marked [thm] are machine-checked on the model, [arg] are written arguments about the code. *)
From Coq Require Import List String.
Import ListNotations.
Require Import RV.Gen.C31_generator_panic_sites.
Open Scope string_scope.

Definition accounted_sites : list (string * string * string * string) := [
  ("generator.rs", "panic_macro", "unreachable!("""");",
   "[arg] 1st occurrence, address-reservation preamble loop: the arm is taken on `instructions_iter.next()` right after `peek()` matched the same pattern on the same Peekable; peek caches the item, next returns it");
  ("generator.rs", "panic_macro", "unreachable!("""");",
   "[arg] 2nd occurrence, named-intent preamble loop: same peek-then-next pattern");
  ("generator.rs", "unwrap", "let start = $inner_vec.get(0).unwrap().span.start;",
   "[arg] get_span! macro: else-branch of `if $inner_vec.is_empty()`, so index 0 exists");
  ("generator.rs", "unwrap", "let end = $inner_vec.get($inner_vec.len() - 1).unwrap().span.end;",
   "[arg] same else-branch: len >= 1, so len - 1 is a valid index");
  ("generator.rs", "sub", "let end = $inner_vec.get($inner_vec.len() - 1).unwrap().span.end;",
   "[arg] same else-branch: len >= 1, no underflow");
  ("generator.rs", "unwrap", "full_data.try_into().unwrap(),",
   "[arg] inside `if full_data.len() == NodeId::LENGTH`; Vec<u8> -> [u8; NodeId::LENGTH] succeeds exactly for that length");
  ("lexer.rs", "index", "Ok(self.text[self.current.full_index])",
   "[thm] else-branch of the is_eof test (full_index < text.len()); the lexer model reads with a total match and C31_lex_total covers every text; the harness compares tokens and spans");
  ("lexer.rs", "assert", "assert_eq!(self.advance()?, ' ');",
   "[arg] tokenize_string is only called from next_token when peek() returned the double quote (the char literal is emptied by the scanner); the model dispatches the same way");
  ("lexer.rs", "sub", "+ ((unicode - 0xD800) << 10)",
   "[thm] guarded by the match arm 0xD800..=0xDBFF; C31_lex_string_total models this u32 arithmetic with explicit overflow/underflow panic and shows it unreachable");
  ("lexer.rs", "sub", "- 0xDC00;",
   "[thm] the left operand is at least 0x10000 (C31_lex_string_total, same arithmetic)");
  ("lexer.rs", "unwrap", "code = code * 16 + c.to_digit(16).unwrap();",
   "[arg] c passed advance_matching(is_ascii_hexdigit), and to_digit(16) is Some exactly on hex digits; the model computes the digit value with a total function after the same test");
  ("parser.rs", "sub", "pub const PARSER_MAX_DEPTH: usize = MANIFEST_SBOR_V1_MAX_DEPTH - 4;",
   "[arg] constant expression evaluated by the compiler (24 - 4)");
  ("parser.rs", "sub", "self.stack_depth -= 1;",
   "[arg] track_stack_depth_decrease is called once after each successful track_stack_depth_increase in parse_value / parse_instruction (bracketed), so the depth is >= 1; the model passes the depth as a parameter instead");
  ("parser.rs", "index", "let position = self.tokens[self.current - 1].span.end;",
   "[arg] peek() at end of input: Parser::new rejects an empty token list and current = tokens.len() >= 1 here (current only grows by advance, which peeks first); model: parse_manifest [] = PErr PEof");
  ("parser.rs", "sub", "let position = self.tokens[self.current - 1].span.end;",
   "[arg] same: current >= 1");
  ("parser.rs", "index", "generics[0].clone(),",
   "[thm] parse_array_content after parse_generics(1): C31_generics_length");
  ("parser.rs", "index", "generics[0].clone(),",
   "[thm] parse_map_content after parse_generics(2): C31_generics_length");
  ("parser.rs", "index", "generics[1].clone(),",
   "[thm] parse_map_content after parse_generics(2): C31_generics_length");
  ("parser.rs", "index", "1 => Ok(values[0].clone()),",
   "[arg] arm `1` of `match values.len()`; a list match in the model");
  ("parser.rs", "index", "span_start = value_kinds[0].span.start;",
   "[arg] inside `if !value_kinds.is_empty()`");
  ("parser.rs", "index", "span_end = value_kinds[value_kinds.len() - 1].span.end;",
   "[arg] inside `if !value_kinds.is_empty()`");
  ("parser.rs", "sub", "span_end = value_kinds[value_kinds.len() - 1].span.end;",
   "[arg] inside `if !value_kinds.is_empty()`");
  ("diagnostic_snippets.rs", "sub", "span.start.line_number() - 5",
   "[thm] then-branch of `line_number() > 5`; modelled in Model/C31_Snippet.v (line_start)");
  ("diagnostic_snippets.rs", "sub", "annotation_start_index -= skipped_chars;",
   "[thm] C31_snippet_total: explicit SnPanic on underflow, unreachable for every well-formed span (C31_lex_spans_wellformed for lexer spans)");
  ("diagnostic_snippets.rs", "sub", "annotation_end_index -= skipped_chars;",
   "[thm] C31_snippet_total");
  ("../validation/id_validator.rs", "panic_macro", "panic!("""");",
   "[thm] clone_proof, Illegal state: C31_id_validator_no_panic (lock count of a bucket = number of live proofs of it)");
  ("../validation/id_validator.rs", "sub", "*cnt -= 1;",
   "[thm] drop_proof: C31_id_validator_no_panic (explicit panic on underflow in the model)");
  ("../validation/id_validator.rs", "panic_macro", "panic!("""");",
   "[thm] drop_proof, Illegal state: C31_id_validator_no_panic")
].

Definition site_of (x : string * string * string * string) : string * string * string := fst x.

Theorem sites_accounted : map site_of accounted_sites = panic_sites.
Proof. reflexivity. Qed.
Theorem sites_count : List.length panic_sites = 28%nat.
Proof. reflexivity. Qed.
