(* C17 — composition of the three tiers: put_at_next_version (entity tier over partition tiers over
   substate tiers, lower root hash = upper leaf value, empty lower tier = upper leaf deleted,
   partition Reset = start from the empty tree) refines apply_commit on the substate database, and
   the root returned is db_root of the database, for every history. *)
From Coq Require Import List NArith Bool Lia Arith Permutation.
Import ListNotations.
Require Import RV.Model.C17_Jmt RV.Model.C17_Smt RV.Proof.C17_Base RV.Proof.C17_Lists
               RV.Proof.C17_Merkle RV.Proof.C17_Update RV.Proof.C17_Tier RV.Proof.C17_Root
               RV.Proof.C17_Assoc.
Open Scope N_scope.

Lemma seqM_ok : forall {X Y} (F : X -> res Y) (Q : X -> Y -> Prop) xs,
  (forall x, In x xs -> exists y, F x = Ok y /\ Q x y) -> exists l, seqM F xs = Ok l /\ Forall2 Q xs l.
Proof.
  intros X Y F Q xs. induction xs as [|x xs IH]; intro Hall.
  - exists []. split; [reflexivity|constructor].
  - destruct (Hall x (or_introl eq_refl)) as (y & E & Qy).
    destruct (IH (fun x' Hx => Hall x' (or_intror Hx))) as (l & El & Fl).
    exists (y :: l). cbn [seqM]. rewrite E, El. split; [reflexivity|constructor; assumption].
Qed.

Lemma Forall2_in_r : forall {X Y} (Q : X -> Y -> Prop) xs l, Forall2 Q xs l ->
  forall y, In y l -> exists x, In x xs /\ Q x y.
Proof.
  intros X Y Q xs l F. induction F as [|x y0 xs l Qxy F IH]; intros y Hy; [destruct Hy|].
  destruct Hy as [E|Hy]; [subst; exists x; split; [left; reflexivity|exact Qxy]|].
  destruct (IH y Hy) as (x' & Hx' & Qx'). exists x'. split; [right; exact Hx'|exact Qx'].
Qed.

Definition key_ok (U : list N -> Prop) (fuel : nat) (k : list N) : Prop :=
  U k /\ kvalid k /\ (length k < fuel)%nat.

Section COMPOSE.
  Variable H : list N -> list N.
  Variable fuel : nat.
  Hypothesis Hfuel : (0 < fuel)%nat.
  Hypothesis HZ : forall x, H x <> ZERO_HASH.

  (* what a tier update returns to the tier above: nothing for an empty map, else the root hash *)
  Definition step_post {A Y} (R : A -> list Y -> Prop) (hashA : A -> list N)
             (b' : list Y) (h : option (list N)) (r : A) : Prop :=
    (b' = [] /\ h = None) \/ (b' <> [] /\ R r b' /\ h = Some (hashA r)).

  Definition getdef {Y} (k : list N) (m : list (list N * list Y)) : list Y :=
    match a_get k m with Some b => b | None => [] end.

  (* ============================ a tier above another tier ============================ *)
  Section UPPER.
    Variable A : Type.                      (* lower-tier root node *)
    Variable Y X : Type.                    (* lower abstract map = list Y; lower update = X *)
    Variable R : A -> list Y -> Prop.
    Variable hashA : A -> list N.
    Variable rootB : list Y -> list N.
    Hypothesis R_root : forall a b, R a b -> hashA a = rootB b.
    Variable stepB : list Y -> X -> list Y.
    Variable okX : X -> Prop.
    Variable U : list N -> Prop.
    Hypothesis PFU : pfree U.
    Hypothesis U0 : ~ U [].
    Variable lower : N -> list N -> option (N * A) -> X -> res (option (list N) * A * list store_op).
    Definition lower_rel (sroot : option (N * A)) (b : list Y) : Prop :=
      match sroot with None => b = [] | Some (_, a) => R a b end.
    Hypothesis lower_ok : forall ver key sroot b x, okX x -> lower_rel sroot b ->
      exists h r ops, lower ver key sroot x = Ok (h, r, ops) /\ step_post R hashA (stepB b x) h r.

    Notation nodeA := (node A).
    Notation umap := (list (list N * list Y)).

    Definition rel_up (t : nodeA) (m : umap) : Prop :=
      NoDup (map fst m) /\ root_ok H A fuel t /\ tree_ok A U fuel t /\
      forall k, match lookup A fuel t k, a_get k m with
                | Some (vh, _, a), Some b => R a b /\ vh = hashA a /\ b <> []
                | None, None => True
                | _, _ => False
                end.
    Definition rootUp (m : umap) : list N :=
      smt_root H fuel (map (fun kb => (fst kb, rootB (snd kb))) m).

    Lemma rel_up_null : rel_up Null [].
    Proof.
      split; [constructor|]. split; [left; reflexivity|]. split.
      - intros k d E. rewrite lookup_null in E. discriminate.
      - intro k. rewrite lookup_null. exact I.
    Qed.

    Lemma rel_up_root : forall t m, rel_up t m -> node_hash H A (lh_root H) t = rootUp m.
    Proof.
      intros t m (ND & RO & TO & Rel). apply tier_root_is_smt; [exact RO| |].
      - intros k d E. apply (TO k d E).
      - split; [rewrite map_map; cbn [fst]; exact ND|].
        intros k v. rewrite in_map_iff. specialize (Rel k). split.
        + intros ([k' b] & E & Hin). cbn [fst snd] in E. inversion E; subst.
          apply (a_get_in k b m ND) in Hin. rewrite Hin in Rel.
          destruct (lookup A fuel t k) as [[[vh pv] a]|]; [|contradiction].
          destruct Rel as (Rab & Evh & _). exists (vh, pv, a). split; [reflexivity|].
          unfold vh_of. cbn [fst]. rewrite Evh. apply R_root. exact Rab.
        + intros (d & E & Ev). rewrite E in Rel. destruct d as [[vh pv] a].
          destruct (a_get k m) as [b|] eqn:Eg; [|contradiction]. destruct Rel as (Rab & Evh & _).
          exists (k, b). cbn [fst snd]. split.
          * unfold vh_of in Ev. cbn [fst] in Ev. subst v. rewrite Evh. f_equal. symmetry. apply R_root. exact Rab.
          * apply (a_get_in k b m ND). exact Eg.
    Qed.

    Lemma rel_up_empty_iff : forall t m, rel_up t m -> (m = [] <-> t = Null).
    Proof.
      intros t m (ND & RO & TO & Rel). split.
      - intro E. subst m. destruct RO as [En|G]; [exact En|].
        destruct (good_has_leaf H A fuel _ t G) as (k & d & Ek). specialize (Rel k). rewrite Ek in Rel.
        destruct d as [[vh pv] a]. cbn in Rel. contradiction.
      - intro E. subst t. apply a_get_none_all. intro k. specialize (Rel k). rewrite lookup_null in Rel.
        destruct (a_get k m); [contradiction|reflexivity].
    Qed.

    (* the generic upper-tier update (partition_tier_put / entity_tier_put are instances) *)
    Definition lower_call (ver : N) (root : option (N * nodeA)) (x : list N * X)
      : res (kv A * list store_op) :=
      let sroot := match root with
                   | Some (_, t) => match lookup A fuel t (fst x) with
                                    | Some (_, pv, st) => Some (pv, st) | None => None end
                   | None => None end in
      match lower ver (fst x) sroot (snd x) with
      | Ok (h, r, ops) =>
        Ok ((fst x, match h with Some h' => Some (h', ver, r) | None => None end), ops)
      | Panic => Panic | OutOfFuel => OutOfFuel
      end.
    Definition upper_put (ver : N) (prefix : list N) (root : option (N * nodeA))
               (xs : list (list N * X)) : res (option (list N) * nodeA * list store_op) :=
      match seqM (lower_call ver root) xs with
      | Ok l =>
        match tier_put H A fuel root ver (map fst l) with
        | Ok (h, r, lg) => Ok (h, r, flat_map snd l ++ ops_of_log prefix ver lg)
        | Panic => Panic | OutOfFuel => OutOfFuel
        end
      | Panic => Panic | OutOfFuel => OutOfFuel
      end.

    Definition apply_upper (m : umap) (xs : list (list N * X)) : umap :=
      fold_left (fun acc x =>
                   let b := match a_get (fst x) acc with Some b => b | None => [] end in
                   match stepB b (snd x) with
                   | [] => a_remove (fst x) acc
                   | b' => a_set (fst x) b' acc
                   end) xs m.

    Definition xfind (k : list N) (xs : list (list N * X)) : option (list N * X) :=
      find (fun x => leqb k (fst x)) xs.

    Lemma xfind_none : forall k xs, ~ In k (map fst xs) -> xfind k xs = None.
    Proof.
      intros k xs. induction xs as [|x xs IH]; intro Hn; [reflexivity|]. cbn [xfind find].
      destruct (leqb k (fst x)) eqn:E; [apply leqb_eq in E; exfalso; apply Hn; left; congruence|].
      apply IH. intro Hin. apply Hn. right. exact Hin.
    Qed.

    Lemma apply_upper_spec : forall xs m, NoDup (map fst xs) -> NoDup (map fst m) ->
      NoDup (map fst (apply_upper m xs)) /\
      forall k, a_get k (apply_upper m xs) =
                match xfind k xs with
                | Some x => match stepB (getdef k m) (snd x) with [] => None | b' => Some b' end
                | None => a_get k m
                end.
    Proof.
      induction xs as [|x xs IH]; intros m NDx NDm; cbn [apply_upper fold_left].
      - split; [exact NDm|]. intro k. reflexivity.
      - inversion NDx as [|? ? Hn NDx']; subst.
        set (m1 := match stepB (match a_get (fst x) m with Some b => b | None => [] end) (snd x) with
                   | [] => a_remove (fst x) m | b' => a_set (fst x) b' m end).
        assert (ND1 : NoDup (map fst m1)).
        { unfold m1. destruct (stepB _ (snd x)); [apply nodup_remove|apply nodup_set]; exact NDm. }
        destruct (IH m1 NDx' ND1) as [I1 I2]. split; [exact I1|].
        intro k. change (fold_left _ xs m1) with (apply_upper m1 xs). rewrite I2. cbn [xfind find].
        destruct (leqb k (fst x)) eqn:E.
        + apply leqb_eq in E. subst k. rewrite (xfind_none (fst x) xs Hn). unfold m1, getdef.
          destruct (stepB _ (snd x)) eqn:Es.
          * rewrite a_get_remove, leqb_refl. reflexivity.
          * rewrite a_get_set, leqb_refl. reflexivity.
        + assert (Eg : a_get k m1 = a_get k m).
          { unfold m1. destruct (stepB _ (snd x)); [rewrite a_get_remove|rewrite a_get_set]; rewrite E; reflexivity. }
          unfold getdef. rewrite Eg. reflexivity.
    Qed.

    (* what the mapped leaf updates bind *)
    Definition Qx (ver : N) (root : option (N * nodeA)) (m : umap) (x : list N * X)
               (y : kv A * list store_op) : Prop :=
      exists h r0, fst y = (fst x, match h with Some h' => Some (h', ver, r0) | None => None end) /\
                   step_post R hashA (stepB (getdef (fst x) m) (snd x)) h r0.

    Lemma ups_last_forall2 : forall ver root m xs l, Forall2 (Qx ver root m) xs l -> NoDup (map fst xs) ->
      forall k, match xfind k xs with
                | Some x => exists y, Qx ver root m x y /\ ups_last A k (map fst l) = Some (snd (fst y))
                | None => ups_last A k (map fst l) = None
                end.
    Proof.
      intros ver root m xs l F. induction F as [|x y xs l Qxy F IH]; intros ND k; [reflexivity|].
      inversion ND as [|? ? Hn ND']; subst. specialize (IH ND' k).
      pose proof Qxy as Qxy0. destruct Qxy as (h & r0 & Ey & Post).
      cbn [xfind find map]. rewrite Ey. cbn [ups_last].
      destruct (leqb k (fst x)) eqn:E.
      - apply leqb_eq in E. subst k. rewrite (xfind_none (fst x) xs Hn) in IH. rewrite IH.
        exists y. split; [exact Qxy0|]. rewrite Ey. reflexivity.
      - fold (xfind k xs). destruct (xfind k xs) as [x'|].
        + destruct IH as (y' & Qy' & E'). exists y'. split; [exact Qy'|]. rewrite E'. reflexivity.
        + rewrite IH. reflexivity.
    Qed.

    Definition state_rel (root : option (N * nodeA)) (m : umap) : Prop :=
      match root with None => m = [] | Some (_, t) => rel_up t m end.

    Definition xs_ok (xs : list (list N * X)) : Prop :=
      NoDup (map fst xs) /\ forall x, In x xs -> key_ok U fuel (fst x) /\ okX (snd x).

    Theorem upper_ok : forall ver prefix root m xs,
      state_rel root m -> xs_ok xs ->
      exists h r ops, upper_put ver prefix root xs = Ok (h, r, ops) /\
        rel_up r (apply_upper m xs) /\
        step_post rel_up (node_hash H A (lh_root H)) (apply_upper m xs) h r.
    Proof.
      intros ver prefix root m xs SR [NDx OKx].
      (* pointwise relation of the old state *)
      assert (NDm : NoDup (map fst m)).
      { unfold state_rel in SR. destruct root as [[v t]|]; [apply SR|rewrite SR; constructor]. }
      assert (Old : forall k, match root_sem A fuel root k, a_get k m with
                              | Some (vh, _, a), Some b => R a b /\ vh = hashA a /\ b <> []
                              | None, None => True | _, _ => False end).
      { intro k. unfold state_rel in SR. destruct root as [[v t]|]; cbn [root_sem]; [apply SR|rewrite SR; exact I]. }
      assert (SO : state_ok H A U fuel root).
      { intros v t E. subst root. unfold state_rel in SR. destruct SR as (_ & RO & TO & _). split; assumption. }
      (* the lower tiers *)
      destruct (seqM_ok (lower_call ver root) (Qx ver root m) xs) as (l & El & Fl).
      { intros x Hx. destruct (OKx x Hx) as [_ Ox].
        set (sroot := match root with
                      | Some (_, t) => match lookup A fuel t (fst x) with
                                       | Some (_, pv, st) => Some (pv, st) | None => None end
                      | None => None end).
        assert (LR : lower_rel sroot (getdef (fst x) m)).
        { specialize (Old (fst x)). unfold getdef, sroot. destruct root as [[v t]|]; cbn [root_sem] in Old.
          - destruct (lookup A fuel t (fst x)) as [[[vh pv] a]|]; destruct (a_get (fst x) m); try contradiction.
            + cbn. apply Old.
            + reflexivity.
          - destruct (a_get (fst x) m); [contradiction|reflexivity]. }
        destruct (lower_ok ver (fst x) sroot (getdef (fst x) m) (snd x) Ox LR) as (h & r0 & ops & E & Post).
        unfold lower_call. cbv zeta. fold sroot. rewrite E. eexists. split; [reflexivity|]. exists h, r0. split; [reflexivity|exact Post]. }
      unfold upper_put. rewrite El.
      (* this tier *)
      assert (UO : ups_ok A U fuel (map fst l)).
      { intros u Hu. apply in_map_iff in Hu. destruct Hu as (y & Ey & Hy). subst u.
        destruct (Forall2_in_r _ _ _ Fl y Hy) as (x & Hx & (h & r0 & Efy & _)). rewrite Efy. cbn [fst].
        apply (OKx x Hx). }
      destruct (tier_step H A fuel root ver (map fst l) U Hfuel PFU U0 UO SO) as (h & r & lg & E & S1 & S2 & S3).
      rewrite E. destruct (apply_upper_spec xs m NDx NDm) as [NDm' Get'].
      assert (Rel' : rel_up r (apply_upper m xs)).
      { split; [exact NDm'|]. destruct (S1 ver r eq_refl) as [RO TO]. split; [exact RO|]. split; [exact TO|].
        intro k. rewrite S2, Get'. unfold apply_batch.
        pose proof (ups_last_forall2 ver root m xs l Fl NDx k) as UL.
        destruct (xfind k xs) as [x|] eqn:Ef.
        - destruct UL as (y & (hh & r0 & Efy & Post) & EL). rewrite EL, Efy. cbn [snd].
          assert (Ek : k = fst x).
          { unfold xfind in Ef. apply find_some in Ef. destruct Ef as [_ Ef]. apply leqb_eq in Ef. exact Ef. }
          subst k. destruct Post as [[Eb Eh]|(Nb & Rb & Eh)]; subst hh.
          + rewrite Eb. exact I.
          + destruct (stepB (getdef (fst x) m) (snd x)) as [|y0 b']; [contradiction|].
            repeat split; [exact Rb|exact Nb].
        - rewrite UL. apply Old. }
      exists h, r, (flat_map snd l ++ ops_of_log prefix ver lg). split; [reflexivity|]. split; [exact Rel'|].
      destruct (rel_up_empty_iff r _ Rel') as [E1 E2]. rewrite S3.
      destruct (apply_upper m xs) as [|e0 m'] eqn:Em.
      - left. split; [reflexivity|]. rewrite (E1 eq_refl). cbn [node_hash]. rewrite leqb_refl. reflexivity.
      - right. split; [discriminate|]. split; [exact Rel'|].
        destruct Rel' as (_ & [En|G] & _); [specialize (E2 En); discriminate|].
        pose proof (nonempty_root_nonzero H A fuel r HZ G) as NZ. apply leqb_false in NZ. rewrite NZ. reflexivity.
    Qed.
  End UPPER.

  (* ============================ the substate tier ============================ *)
  Section SUBSTATE.
    Variable US : list N -> Prop.
    Hypothesis PFS : pfree US.
    Hypothesis US0 : ~ US [].

    Definition hash_s (t : snodeT) : list N := node_hash H unit (lh_root H) t.

    Definition rel_s (t : snodeT) (p : pmap) : Prop :=
      NoDup (map fst p) /\ root_ok H unit fuel t /\ tree_ok unit US fuel t /\
      forall k, option_map (vh_of unit) (lookup unit fuel t k) = option_map H (a_get k p).

    Lemma rel_s_root : forall t p, rel_s t p -> hash_s t = partition_root H fuel p.
    Proof.
      intros t p (ND & RO & TO & Rel). apply tier_root_is_smt; [exact RO| |].
      - intros k d E. apply (TO k d E).
      - split; [rewrite map_map; cbn [fst]; exact ND|].
        intros k v. rewrite in_map_iff. specialize (Rel k). split.
        + intros ([k' x] & E & Hin). cbn [fst snd] in E. inversion E; subst.
          apply (a_get_in k x p ND) in Hin. rewrite Hin in Rel.
          destruct (lookup unit fuel t k) as [d|]; [|discriminate]. exists d. split; [reflexivity|].
          cbn in Rel. congruence.
        + intros (d & E & Ev). rewrite E in Rel. cbn in Rel. destruct (a_get k p) as [x|] eqn:Eg; [|discriminate].
          exists (k, x). cbn [fst snd]. split; [cbn in Rel; congruence|]. apply (a_get_in k x p ND). exact Eg.
    Qed.

    Lemma rel_s_empty_iff : forall t p, rel_s t p -> (p = [] <-> t = Null).
    Proof.
      intros t p (ND & RO & TO & Rel). split.
      - intro E. subst p. destruct RO as [En|G]; [exact En|].
        destruct (good_has_leaf H unit fuel _ t G) as (k & d & Ek). specialize (Rel k). rewrite Ek in Rel. discriminate.
      - intro E. subst t. apply a_get_none_all. intro k. specialize (Rel k). rewrite lookup_null in Rel.
        destruct (a_get k p); [discriminate|reflexivity].
    Qed.

    Definition ok_pupd (u : pupdate) : Prop :=
      match u with
      | Delta l => forall x, In x l -> key_ok US fuel (fst x)
      | Reset l => forall x, In x l -> key_ok US fuel (fst x)
      end.

    (* last binding of a key in a list of raw updates *)
    Fixpoint glast {V} (k : list N) (l : list (list N * V)) : option V :=
      match l with
      | [] => None
      | (k', u) :: r => match glast k r with Some x => Some x | None => if leqb k k' then Some u else None end
      end.

    Lemma ups_last_map : forall {V} (f : V -> option (ldata unit)) k (l : list (list N * V)),
      ups_last unit k (map (fun x => (fst x, f (snd x))) l) = option_map f (glast k l).
    Proof.
      intros V f k l. induction l as [|[k' u] r IH]; [reflexivity|]. cbn [map ups_last glast fst snd]. rewrite IH.
      destruct (glast k r); [reflexivity|]. destruct (leqb k k'); reflexivity.
    Qed.

    Lemma delta_get : forall (l : list (list N * option (list N))) (p : pmap), NoDup (map fst p) ->
      NoDup (map fst (apply_pupdate p (Delta l))) /\
      forall k, a_get k (apply_pupdate p (Delta l)) =
                match glast k l with Some (Some v) => Some v | Some None => None | None => a_get k p end.
    Proof.
      induction l as [|[k' u] r IH]; intros p ND; cbn [apply_pupdate fold_left].
      - split; [exact ND|]. intro k. reflexivity.
      - set (p1 := match u with Some v => a_set k' v p | None => a_remove k' p end).
        assert (ND1 : NoDup (map fst p1)) by (unfold p1; destruct u; [apply nodup_set|apply nodup_remove]; exact ND).
        destruct (IH p1 ND1) as [I1 I2]. cbn [fst snd]. split; [exact I1|].
        intro k. change (fold_left _ r p1) with (apply_pupdate p1 (Delta r)). rewrite I2. cbn [glast].
        destruct (glast k r) as [[v|]|]; try reflexivity.
        unfold p1. destruct u; [rewrite a_get_set|rewrite a_get_remove]; destruct (leqb k k'); reflexivity.
    Qed.

    Lemma reset_as_delta : forall (l : list (list N * list N)) (p0 : pmap),
      fold_left (fun acc kv => a_set (fst kv) (snd kv) acc) l p0 =
      apply_pupdate p0 (Delta (map (fun kv => (fst kv, Some (snd kv))) l)).
    Proof.
      induction l as [|[k v] r IH]; intro p0; [reflexivity|]. cbn [fold_left map apply_pupdate fst snd].
      rewrite IH. reflexivity.
    Qed.

    Lemma glast_map_some : forall {V W} (f : V -> W) k (l : list (list N * V)),
      glast k (map (fun kv => (fst kv, f (snd kv))) l) = option_map f (glast k l).
    Proof.
      intros V W f k l. induction l as [|[k' u] r IH]; [reflexivity|]. cbn [map glast fst snd]. rewrite IH.
      destruct (glast k r); [reflexivity|]. destruct (leqb k k'); reflexivity.
    Qed.

    Theorem substate_ok : forall ver prefix sroot p u,
      ok_pupd u -> lower_rel snodeT _ rel_s sroot p ->
      exists h r ops, substate_tier_put H fuel prefix sroot ver u = Ok (h, r, ops) /\
        step_post rel_s hash_s (apply_pupdate p u) h r.
    Proof.
      intros ver prefix sroot p u OKu LR.
      (* the common part: a tier update with root' and leaf updates built from (key, option value) *)
      assert (Core : forall (root' : option (N * snodeT)) (p0 : pmap) (l : list (list N * option (list N))),
                lower_rel snodeT _ rel_s root' p0 -> (forall x, In x l -> key_ok US fuel (fst x)) ->
                exists h r lg,
                  tier_put H unit fuel root' ver
                    (map (fun ku => (fst ku, match snd ku with Some v => Some (H v, ver, tt) | None => None end)) l)
                  = Ok (h, r, lg) /\
                  step_post rel_s hash_s (apply_pupdate p0 (Delta l)) h r).
      { intros root' p0 l LR0 OKl.
        assert (ND0 : NoDup (map fst p0)).
        { unfold lower_rel in LR0. destruct root' as [[v t]|]; [apply LR0|rewrite LR0; constructor]. }
        assert (Old : forall k, option_map (vh_of unit) (root_sem unit fuel root' k) = option_map H (a_get k p0)).
        { intro k. unfold lower_rel in LR0. destruct root' as [[v t]|]; cbn [root_sem]; [apply LR0|rewrite LR0; reflexivity]. }
        assert (SO : state_ok H unit US fuel root').
        { intros v t E. subst root'. unfold lower_rel in LR0. destruct LR0 as (_ & RO & TO & _). split; assumption. }
        set (ups := map (fun ku : list N * option (list N) =>
                           (fst ku, match snd ku with Some v => Some (H v, ver, tt) | None => None end)) l).
        assert (UO : ups_ok unit US fuel ups).
        { intros x Hx. unfold ups in Hx. apply in_map_iff in Hx. destruct Hx as (y & Ey & Hy). subst x. cbn [fst]. apply (OKl y Hy). }
        destruct (tier_step H unit fuel root' ver ups US Hfuel PFS US0 UO SO) as (h & r & lg & E & S1 & S2 & S3).
        exists h, r, lg. split; [exact E|].
        destruct (delta_get l p0 ND0) as [ND' Get'].
        assert (Rel' : rel_s r (apply_pupdate p0 (Delta l))).
        { split; [exact ND'|]. destruct (S1 ver r eq_refl) as [RO TO]. split; [exact RO|]. split; [exact TO|].
          intro k. rewrite S2, Get'. unfold apply_batch.
          assert (EU : ups_last unit k ups =
                       option_map (fun o : option (list N) => match o with Some v => Some (H v, ver, tt) | None => None end) (glast k l))
            by (apply (ups_last_map (fun o : option (list N) => match o with Some v => Some (H v, ver, tt) | None => None end) k l)).
          rewrite EU. destruct (glast k l) as [[v|]|]; cbn [option_map]; [reflexivity|reflexivity|apply Old]. }
        destruct (rel_s_empty_iff r _ Rel') as [E1 E2]. rewrite S3.
        destruct (apply_pupdate p0 (Delta l)) as [|e0 p'] eqn:Ep.
        - left. split; [reflexivity|]. rewrite (E1 eq_refl). cbn [node_hash]. rewrite leqb_refl. reflexivity.
        - right. split; [discriminate|]. split; [exact Rel'|].
          destruct Rel' as (_ & [En|G] & _); [specialize (E2 En); discriminate|].
          pose proof (nonempty_root_nonzero H unit fuel r HZ G) as NZ. apply leqb_false in NZ.
          unfold hash_s. rewrite NZ. reflexivity. }
      unfold substate_tier_put. destruct u as [l|l]; cbn [ok_pupd] in OKu.
      - destruct (Core sroot p l LR OKu) as (h & r & lg & E & Post).
        rewrite E. eexists _, _, _. split; [reflexivity|exact Post].
      - destruct (Core None [] (map (fun kv => (fst kv, Some (snd kv))) l) eq_refl) as (h & r & lg & E & Post).
        { intros x Hx. apply in_map_iff in Hx. destruct Hx as (y & Ey & Hy). subst x. cbn [fst]. apply (OKu y Hy). }
        rewrite map_map in E. cbn [fst snd] in E. rewrite E. eexists _, _, _. split; [reflexivity|].
        cbn [apply_pupdate]. rewrite reset_as_delta. exact Post.
    Qed.
  End SUBSTATE.
  (* ============================ the three tiers ============================ *)
  Section DB.
    Variables US UP UE : list N -> Prop.
    Hypothesis PFS : pfree US. Hypothesis US0 : ~ US [].
    Hypothesis PFP : pfree UP. Hypothesis UP0 : ~ UP [].
    Hypothesis PFE : pfree UE. Hypothesis UE0 : ~ UE [].

    (* partition tier over substate tiers *)
    Definition hash_p (t : pnodeT) : list N := node_hash H snodeT (lh_root H) t.
    Definition rel_p : pnodeT -> emap -> Prop := rel_up snodeT _ (rel_s US) hash_s UP.
    Definition ok_eupd (pus : list (list N * pupdate)) : Prop := xs_ok _ (ok_pupd US) UP pus.

    Lemma partition_put_is_upper : forall ekey root ver pus,
      partition_tier_put H fuel ekey root ver pus =
      upper_put snodeT pupdate
        (fun ver key sroot u => substate_tier_put H fuel ((ekey ++ TIER_SEP) ++ key ++ TIER_SEP) sroot ver u)
        ver (ekey ++ TIER_SEP) root pus.
    Proof. reflexivity. Qed.
    Lemma apply_eupdate_is_upper : forall e pus, apply_eupdate e pus = apply_upper _ _ apply_pupdate e pus.
    Proof. reflexivity. Qed.

    Theorem partition_ok : forall ver ekey proot e pus,
      ok_eupd pus -> lower_rel pnodeT _ rel_p proot e ->
      exists h r ops, partition_tier_put H fuel ekey proot ver pus = Ok (h, r, ops) /\
        step_post rel_p hash_p (apply_eupdate e pus) h r.
    Proof.
      intros ver ekey proot e pus OKp LR. rewrite partition_put_is_upper, apply_eupdate_is_upper.
      destruct (upper_ok snodeT _ pupdate (rel_s US) hash_s apply_pupdate (ok_pupd US) UP PFP UP0
                  (fun ver key sroot u => substate_tier_put H fuel ((ekey ++ TIER_SEP) ++ key ++ TIER_SEP) sroot ver u)
                  (fun ver key sroot b x Ox LRx => substate_ok US PFS US0 ver _ sroot b x Ox LRx)
                  ver (ekey ++ TIER_SEP) proot e pus) as (h & r & ops & E & _ & Post).
      - unfold state_rel. unfold lower_rel in LR. destruct proot as [[v t]|]; exact LR.
      - exact OKp.
      - exists h, r, ops. split; [exact E|exact Post].
    Qed.

    Lemma rel_p_root : forall t e, rel_p t e -> hash_p t = entity_root H fuel e.
    Proof.
      intros t e Rp. unfold hash_p. rewrite (rel_up_root snodeT _ (rel_s US) hash_s (partition_root H fuel) (rel_s_root US) UP t e Rp).
      reflexivity.
    Qed.

    (* entity tier over partition tiers *)
    Definition hash_e (t : enodeT) : list N := node_hash H pnodeT (lh_root H) t.
    Definition rel_e : enodeT -> dbmap -> Prop := rel_up pnodeT _ rel_p hash_p UE.
    Definition ok_commit (u : db_updates) : Prop := xs_ok _ ok_eupd UE u.

    Lemma entity_put_is_upper : forall root ver eus,
      entity_tier_put H fuel root ver eus =
      upper_put pnodeT (list (list N * pupdate))
        (fun ver key proot pus => partition_tier_put H fuel key proot ver pus) ver [] root eus.
    Proof. reflexivity. Qed.
    Lemma apply_commit_is_upper : forall d u, apply_commit d u = apply_upper _ _ apply_eupdate d u.
    Proof. reflexivity. Qed.

    Lemma rel_e_root : forall t d, rel_e t d -> hash_e t = db_root H fuel d.
    Proof.
      intros t d Re. unfold hash_e. rewrite (rel_up_root pnodeT _ rel_p hash_p (entity_root H fuel) rel_p_root UE t d Re).
      reflexivity.
    Qed.

    Definition db_rel (st : tree_state) (d : dbmap) : Prop :=
      match st with None => d = [] | Some (_, t) => rel_e t d end.

    Lemma db_root_nil : db_root H fuel [] = ZERO_HASH.
    Proof. unfold db_root, smt_root. cbn [map]. apply smt_nil. Qed.

    (* one commit of the whole database *)
    Theorem commit_ok : forall st d u,
      db_rel st d -> ok_commit u ->
      exists st' ops, put_at_next_version H fuel st u = Ok (db_root H fuel (apply_commit d u), st', ops) /\
        db_rel st' (apply_commit d u).
    Proof.
      intros st d u DR OKu. unfold put_at_next_version. rewrite entity_put_is_upper, apply_commit_is_upper.
      set (ver := match st with Some (v, _) => v + 1 | None => 1 end).
      destruct (upper_ok pnodeT _ (list (list N * pupdate)) rel_p hash_p apply_eupdate ok_eupd UE PFE UE0
                  (fun ver key proot pus => partition_tier_put H fuel key proot ver pus)
                  (fun ver key proot e pus Ox LRx => partition_ok ver key proot e pus Ox LRx)
                  ver [] st d u) as (h & r & ops & E & Rel & Post).
      - unfold state_rel. unfold db_rel in DR. destruct st as [[v t]|]; exact DR.
      - exact OKu.
      - rewrite E. exists (Some (ver, r)), ops. split; [|exact Rel].
        destruct Post as [[Ed Eh]|(Nd & Rd & Eh)]; subst h.
        + assert (Z : forall l : dbmap, l = [] -> db_root H fuel l = ZERO_HASH) by (intros l El; subst l; apply db_root_nil).
          rewrite (Z _ Ed). reflexivity.
        + fold (hash_e r). rewrite (rel_e_root r _ Rd). reflexivity.
    Qed.

    (* every history: the roots returned are the commitments of the successive databases *)
    Fixpoint run_db (st : tree_state) (us : list db_updates) : res (list (list N) * tree_state) :=
      match us with
      | [] => Ok ([], st)
      | u :: r =>
        match put_at_next_version H fuel st u with
        | Ok (h, st', _) =>
          match run_db st' r with
          | Ok (hs, stf) => Ok (h :: hs, stf)
          | Panic => Panic | OutOfFuel => OutOfFuel
          end
        | Panic => Panic | OutOfFuel => OutOfFuel
        end
      end.
    Fixpoint spec_roots (d : dbmap) (us : list db_updates) : list (list N) :=
      match us with
      | [] => []
      | u :: r => db_root H fuel (apply_commit d u) :: spec_roots (apply_commit d u) r
      end.

    Theorem history_ok : forall us st d,
      db_rel st d -> Forall ok_commit us ->
      exists stf, run_db st us = Ok (spec_roots d us, stf) /\ db_rel stf (apply_commits d us).
    Proof.
      induction us as [|u r IH]; intros st d DR OK.
      - exists st. split; [reflexivity|exact DR].
      - inversion OK as [|? ? OKu OKr]; subst.
        destruct (commit_ok st d u DR OKu) as (st' & ops & E & DR').
        destruct (IH st' (apply_commit d u) DR' OKr) as (stf & E' & DRf).
        exists stf. cbn [run_db spec_roots apply_commits fold_left]. rewrite E, E'. split; [reflexivity|exact DRf].
    Qed.
    Lemma spec_roots_last : forall us d dflt, us <> [] ->
      last (spec_roots d us) dflt = db_root H fuel (apply_commits d us).
    Proof.
      induction us as [|u r IH]; intros d dflt Hne; [contradiction|].
      destruct r as [|u2 r2]; [reflexivity|].
      change (spec_roots d (u :: u2 :: r2)) with (db_root H fuel (apply_commit d u) :: spec_roots (apply_commit d u) (u2 :: r2)).
      change (apply_commits d (u :: u2 :: r2)) with (apply_commits (apply_commit d u) (u2 :: r2)).
      rewrite <- (IH (apply_commit d u) dflt) by discriminate. reflexivity.
    Qed.

    (* every batching: histories denoting the same database end with the same root *)
    Corollary batching_db : forall us1 us2,
      Forall ok_commit us1 -> Forall ok_commit us2 -> us1 <> [] -> us2 <> [] ->
      apply_commits [] us1 = apply_commits [] us2 ->
      exists r1 st1 r2 st2, run_db None us1 = Ok (r1, st1) /\ run_db None us2 = Ok (r2, st2) /\
        last r1 ZERO_HASH = last r2 ZERO_HASH.
    Proof.
      intros us1 us2 O1 O2 N1 N2 E.
      destruct (history_ok us1 None [] eq_refl O1) as (st1 & E1 & _).
      destruct (history_ok us2 None [] eq_refl O2) as (st2 & E2 & _).
      exists (spec_roots [] us1), st1, (spec_roots [] us2), st2. split; [exact E1|]. split; [exact E2|].
      rewrite !spec_roots_last by assumption. rewrite E. reflexivity.
    Qed.
  End DB.
End COMPOSE.

(* fixed-length keys form a prefix-free universe without the empty key *)
Lemma pfree_fixed_length : forall n, pfree (fun k => length k = n).
Proof.
  intros n a b Ha Hb [c E]. subst b. rewrite app_length in Hb.
  destruct c; [rewrite app_nil_r; reflexivity|cbn in Hb; lia].
Qed.
