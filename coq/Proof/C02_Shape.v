(* C02 — shape of the state diff of a failed commit: revert, then finalisation operations. *)
From Coq Require Import List NArith Bool Lia.
Import ListNotations.
Require Import RV.Model.C12_Track RV.Model.C12_View RV.Model.C02_Finalize RV.Proof.C12_Maps RV.Proof.C12_Track
  RV.Proof.C12_Ops RV.Proof.C12_Revert RV.Proof.C12_Main RV.Proof.C12_Updates.
Open Scope N_scope.

(* structure of the reverted track; no admissibility of the revert needed *)
Lemma revert_struct : forall db t s t', Inv db t s -> revert t = Some t' ->
  nodes_wf (t_nodes t') /\ subs_sorted (t_nodes t') /\ (forall n, node_is_new (t_nodes t') n = false) /\
  t_del t' = t_del t /\
  forall n p k, tlookup (t_nodes t') n p k =
    match tlookup (t_fw t) n p k with
    | Some tv => Some tv
    | None => if node_is_new (t_nodes t) n then None else option_map tsv_revert (tlookup (t_nodes t) n p k)
    end.
Proof.
  intros db t s t' I G. unfold revert in G. fold (reverted (t_nodes t)) in G.
  pose proof (inv_wf _ _ _ I) as [Wn Wp].
  assert (Hex : forall n p k, tlookup (t_fw t) n p k <> None -> tlookup (reverted (t_nodes t)) n p k <> None).
  { intros n p k H. destruct (tlookup (t_fw t) n p k) as [tv|] eqn:L; [|congruence].
    destruct (inv_fw_in _ _ _ I _ _ _ _ L) as [H1 [H2 _]].
    rewrite tlookup_reverted by assumption. rewrite (inv_new _ _ _ I), H1.
    destruct (tlookup (t_nodes t) n p k); [discriminate|congruence]. }
  destruct (restore_nodes_spec (t_fw t) (reverted (t_nodes t)) (inv_fw_wf _ _ _ I) (inv_fw_sorted _ _ _ I) Hex)
    as [ns' [E [[K1 [K2 K3]] L]]].
  rewrite E in G. inversion G; subst; clear G. simpl.
  split; [apply K1; apply nodes_wf_reverted; apply (inv_wf _ _ _ I)|].
  split; [apply K2; apply subs_sorted_reverted; [assumption|apply (inv_sorted _ _ _ I)]|].
  split; [intros n; rewrite K3; apply node_is_new_reverted; assumption|].
  split; [reflexivity|].
  intros n p k. rewrite L, tlookup_reverted by assumption. reflexivity.
Qed.

Lemma tsv_revert_no_update : forall tv, tsv_update (tsv_revert tv) = None.
Proof. destruct tv; reflexivity. Qed.

(* the invariant of the finalisation phase: outside the key set K no tracked entry carries an update *)
Definition quiet (K : N -> N -> N -> Prop) (t : track) : Prop :=
  nodes_wf (t_nodes t) /\ subs_sorted (t_nodes t) /\ (forall n, node_is_new (t_nodes t) n = false) /\
  forall n p k, ~ K n p k ->
    match tlookup (t_nodes t) n p k with Some tv => tsv_update tv = None | None => True end.

Lemma quiet_upd_sub : forall K t n p k tv, quiet K t -> (K n p k \/ tsv_update tv = None) ->
  quiet K (set_nodes t (upd_sub (t_nodes t) n p k tv)).
Proof.
  intros K t n p k tv [W [S [Nw Q]]] H. unfold quiet; simpl.
  split; [apply nodes_wf_upd_sub; assumption|]. split; [apply subs_sorted_upd_sub; assumption|].
  split; [intros; rewrite node_is_new_upd_sub; apply Nw|].
  intros n' p' k' HK. rewrite tlookup_upd_sub. destruct (same3 n p k n' p' k') eqn:E; [|apply Q; assumption].
  apply same3_true in E. destruct E as [-> [-> ->]]. destruct H; [contradiction|assumption].
Qed.
Lemma quiet_touch : forall K t n p, quiet K t ->
  quiet K (set_nodes t (put_part (t_nodes t) n p (cur_part (t_nodes t) n p))).
Proof.
  intros K t n p [W [S [Nw Q]]]. unfold quiet; simpl.
  split; [apply nodes_wf_put_part; assumption|].
  split; [apply subs_sorted_put_part; [assumption|apply cur_part_sorted; assumption]|].
  split; [intros; rewrite node_is_new_put_part; apply Nw|].
  intros n' p' k' HK. rewrite tlookup_touch. apply Q; assumption.
Qed.

Lemma quiet_step : forall db K t o t' r evs, quiet K t -> simple_op o ->
  (forall n p k v, o = OSet n p k v -> K n p k) ->
  step db t o = (t', r, evs) -> quiet K t' /\ r <> RPanic.
Proof.
  intros db K t o t' r evs Q So HK G. destruct o; simpl in So; try contradiction; simpl in G.
  - (* get *)
    unfold get_substate, get_tracked in G. rewrite al_get_cur_part in G.
    destruct (tlookup (t_nodes t) n p k) as [tv|].
    + injection G as <- <- <-. split; [apply quiet_touch; assumption|discriminate].
    + destruct (al_get k (db n p)) as [v|]; injection G as <- <- <-.
      * split; [|discriminate]. apply (quiet_upd_sub K t n p k (TRoSome v)); [assumption|right; reflexivity].
      * split; [|discriminate]. apply (quiet_upd_sub K t n p k TRoNone); [assumption|right; reflexivity].
  - (* set *)
    unfold set_substate in G. rewrite al_get_cur_part in G.
    destruct (tlookup (t_nodes t) n p k) as [tv|]; injection G as <- <- <-.
    + split; [|discriminate]. apply (quiet_upd_sub K t n p k (tsv_set tv v)); [assumption|left; eapply HK; reflexivity].
    + split; [|discriminate]. apply (quiet_upd_sub K t n p k (TWo (WUpdate v))); [assumption|left; eapply HK; reflexivity].
  - (* delete_partition *)
    injection G as <- <- <-. split; [|discriminate]. destruct Q as [W [S [Nw Q]]]. unfold quiet; simpl. auto.
Qed.

Lemma quiet_run : forall db K post t t' outs, quiet K t -> Forall simple_op post ->
  (forall n p k v, In (OSet n p k v) post -> K n p k) ->
  run db t post = (t', outs) -> quiet K t' /\ length outs = length post.
Proof.
  induction post as [|o r IH]; simpl; intros t t' outs Q F HK G.
  - injection G as <- <-. auto.
  - inversion F; subst. destruct (step db t o) as [[t1 rs] evs] eqn:E.
    destruct (quiet_step db K t o t1 rs evs Q H1) as [Q1 NP]; [intros; subst; eapply HK; left; reflexivity|assumption|].
    destruct (run db t1 r) as [t2 outs2] eqn:R.
    destruct (IH t1 t2 outs2 Q1 H2) as [Q2 L]; [intros; eapply HK; right; eassumption|exact R|].
    destruct rs; try (injection G as <- <-; split; [assumption|simpl; congruence]).
Qed.

Lemma new_nodes_quiet : forall K t, quiet K t -> fst (to_state_updates t) = [].
Proof.
  intros K t [[Wn Wp] [S [Nw Q]]]. unfold to_state_updates, new_nodes. simpl. apply new_nodes_none.
  intros m nd Hin. specialize (Nw m). unfold node_is_new in Nw.
  rewrite (in_nodup_al_get _ _ _ _ Wn Hin) in Nw. assumption.
Qed.

(* the diff of a failed commit: revert, then any list of reads / writes / partition deletions *)
Lemma failure_diff_shape : forall db t s t1 post t2 outs n p k,
  db_wf db -> reach db t s -> revert t = Some t1 -> Forall simple_op post ->
  run db t1 post = (t2, outs) ->
  (iset_mem (n, p) (t_del t2) = false -> fw_get (v_fw s) n p k = None -> ~ writes_key post n p k ->
     apply_su (snd (to_state_updates t2)) db n p k = al_get k (db n p))
  /\ fst (to_state_updates t2) = [] /\ length outs = length post.
Proof.
  intros db t s t1 post t2 outs n p k Hdb R E F G.
  pose proof (reach_inv _ _ _ Hdb R) as I.
  destruct (revert_struct _ _ _ _ I E) as [W [S [Nw [D L]]]].
  set (K := fun n p k => fw_get (v_fw s) n p k <> None \/ writes_key post n p k).
  assert (Q1 : quiet K t1).
  { unfold quiet. split; [assumption|]. split; [assumption|]. split; [assumption|].
    intros n' p' k' HK. rewrite L. destruct (tlookup (t_fw t) n' p' k') as [tv|] eqn:FW.
    - exfalso. apply HK. left. rewrite (inv_fw_get _ _ _ I), FW. discriminate.
    - destruct (node_is_new (t_nodes t) n'); [exact Logic.I|].
      destruct (tlookup (t_nodes t) n' p' k'); simpl; [apply tsv_revert_no_update|exact Logic.I]. }
  destruct (quiet_run db K post t1 t2 outs Q1 F) as [Q2 Len]; [intros; right; eexists; eassumption|assumption|].
  split; [|split; [eapply new_nodes_quiet; eassumption|assumption]].
  intros Dl Hfw Hw. destruct Q2 as [W2 [S2 [Nw2 Q2]]].
  rewrite state_updates_lookup by assumption.
  specialize (Q2 n p k). destruct (tlookup (t_nodes t2) n p k) as [tv|]; [|reflexivity].
  unfold upd_value. rewrite Q2; [reflexivity|]. intros [X|X]; [congruence|contradiction].
Qed.

(* the write set of the modelled finalisation *)
Lemma in_flat_vault_update : forall w l o, In o (flat_map (vault_update w) l) ->
  exists e, In e l /\ (o = OGet (fst e) (wk_main w) (wk_balance w) \/ o = OSet (fst e) (wk_main w) (wk_balance w) (snd e)).
Proof.
  intros w l o H. apply in_flat_map in H. destruct H as [e [H1 H2]]. exists e. split; [assumption|].
  simpl in H2. destruct H2 as [<-|[<-|[]]]; auto.
Qed.

Lemma finalisation_simple : forall w ro lo rw en di nf,
  Forall simple_op (finalize_fee_ops w ro lo rw ++ tracker_ops w en di nf).
Proof.
  intros. apply Forall_forall. intros o H. apply in_app_iff in H. destruct H as [H|H].
  - unfold finalize_fee_ops in H. apply in_app_iff in H. destruct H as [H|H].
    + apply in_flat_vault_update in H. destruct H as [e [_ [->| ->]]]; exact Logic.I.
    + apply in_app_iff in H. destruct H as [H|H].
      * apply in_flat_vault_update in H. destruct H as [e [_ [->| ->]]]; exact Logic.I.
      * destruct rw as [[[a b] c]|]; [|destruct H]. simpl in H.
        repeat (destruct H as [<-|H]; [exact Logic.I|]). destruct H.
  - unfold tracker_ops in H. simpl in H. destruct H as [<-|[<-|H]]; try exact Logic.I.
    apply in_app_iff in H. destruct H as [H|H].
    + apply in_map_iff in H. destruct H as [e [<- _]]. exact Logic.I.
    + apply in_app_iff in H. destruct H as [H|H].
      * destruct di; simpl in H; [destruct H as [<-|[]]; exact Logic.I|destruct H].
      * simpl in H. destruct H as [<-|[]]. exact Logic.I.
Qed.

Lemma finalisation_writes : forall w ro lo rw en di nf n p k,
  writes_key (finalize_fee_ops w ro lo rw ++ tracker_ops w en di nf) n p k ->
  fee_or_tracker_key w ro lo rw n p k.
Proof.
  intros w ro lo rw en di nf n p k [v H]. unfold fee_or_tracker_key. apply in_app_iff in H. destruct H as [H|H].
  - unfold finalize_fee_ops in H. apply in_app_iff in H. destruct H as [H|H].
    + apply in_flat_vault_update in H. destruct H as [e [He [X|X]]]; [discriminate|]. injection X as -> -> -> ->.
      left. split; [reflexivity|]. split; [reflexivity|]. left. apply in_map. assumption.
    + apply in_app_iff in H. destruct H as [H|H].
      * apply in_flat_vault_update in H. destruct H as [e [He [X|X]]]; [discriminate|]. injection X as -> -> -> ->.
        left. split; [reflexivity|]. split; [reflexivity|]. right; left. apply in_map. assumption.
      * destruct rw as [[[a b] c]|]; [|destruct H]. simpl in H.
        destruct H as [X|[X|[X|[X|[X|[]]]]]]; try discriminate.
        -- injection X as <- <- <- <-. right; left. repeat split; discriminate.
        -- injection X as <- <- <- <-. left. split; [reflexivity|]. split; [reflexivity|]. right; right. eauto.
  - right; right. unfold tracker_ops in H. simpl in H. destruct H as [X|[X|H]]; try discriminate.
    apply in_app_iff in H. destruct H as [H|H].
    + apply in_map_iff in H. destruct H as [e [X _]]. injection X as <- _ _ _. reflexivity.
    + apply in_app_iff in H. destruct H as [H|H].
      * destruct di; simpl in H; [destruct H as [X|[]]; discriminate|destruct H].
      * simpl in H. destruct H as [X|[]]. injection X as <- _ _ _. reflexivity.
Qed.
