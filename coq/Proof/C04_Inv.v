(* C04 — the full supply invariant (fungible and non-fungible), preserved by every operation. *)
From Coq Require Import List ZArith NArith Bool Lia.
Import ListNotations.
Require Import RV.Model.C03_Ledger RV.Proof.C03_Ledger RV.Proof.C03_NF.
Open Scope Z_scope.

(* ---------- from occurrence counts to cardinalities ---------- *)
Lemma occ_ext_length : forall l1 l2, (forall x, occ x l1 = occ x l2) -> length l1 = length l2.
Proof.
  induction l1 as [|y t IH]; intros l2 H.
  - destruct l2 as [|z l2]; [reflexivity|]. specialize (H z). cbn in H. rewrite N.eqb_refl in H.
    pose proof (occ_nonneg z l2). lia.
  - assert (M : mem y l2 = true).
    { destruct (mem y l2) eqn:M; [reflexivity|]. apply mem_occ_false in M. specialize (H y). cbn in H.
      rewrite N.eqb_refl in H. pose proof (occ_nonneg y t). lia. }
    assert (L : length l2 = S (length (remove1 y l2))).
    { clear - M. induction l2 as [|z h IH]; cbn in *; [discriminate|].
      destruct (N.eqb y z); cbn; [reflexivity|]. cbn in M. rewrite (IH M). reflexivity. }
    rewrite L. cbn. f_equal. apply IH. intros x. rewrite (occ_remove1 x y l2 M). specialize (H x). cbn in H. lia.
Qed.
Lemma occ_eq_cnt : forall a b c d, (forall x, occ x a + occ x b = occ x c + occ x d) -> cnt a + cnt b = cnt c + cnt d.
Proof.
  intros a b c d H. rewrite <- !cnt_app. unfold cnt. f_equal. f_equal.
  apply occ_ext_length. intros x. rewrite !occ_app. apply H.
Qed.

Lemma nsum_cnt : forall r l, Forall cnt_ok l -> nsum r l = cnt (vids r l).
Proof.
  induction l as [|[v [r' [a ids]]] t IH]; intros F; cbn; [reflexivity|]. inversion F; subst.
  unfold cnt_ok in H1. cbn in H1. rewrite cnt_app, (IH H2). destruct (N.eqb r r'); [subst; lia|rewrite cnt_nil; lia].
Qed.
Lemma total_n_cnt : forall r s, NFInv s -> total_n r s = cnt (all_ids r s).
Proof. intros r s [_ _ I3]. unfold total_n, all_ids, bsum. rewrite cnt_app, (nsum_cnt r _ I3). reflexivity. Qed.

Lemma minted_split : forall r evs, minted r evs = mintedF r evs + cnt (minted_ids r evs).
Proof.
  induction evs as [|e t IH]; cbn; [rewrite cnt_nil; lia|].
  destruct e; cbn; rewrite ?IH, ?cnt_app; try lia. destruct (N.eqb r r0); rewrite ?cnt_nil; lia.
Qed.
Lemma burned_split : forall r evs, burned r evs = burnedF r evs + cnt (burned_ids r evs).
Proof.
  induction evs as [|e t IH]; cbn; [rewrite cnt_nil; lia|].
  destruct e; cbn; rewrite ?IH, ?cnt_app; try lia. destruct (N.eqb r r0); rewrite ?cnt_nil; lia.
Qed.

(* every operation moves everything that exists of a resource (fungible or not) by minted - burned *)
Theorem step_total_full : forall s o s' evs r,
  NFInv s -> step s o = Ok (s', evs) -> op_ok o ->
  total r s' = total r s + minted r evs - burned r evs.
Proof.
  intros s o s' evs r I H OK.
  pose proof (step_NFInv _ _ _ _ I H) as I'. destruct (step_nf _ _ _ _ I H) as (A & _).
  rewrite !total_split, (total_n_cnt r s I), (total_n_cnt r s' I'), (step_total _ _ _ _ r H OK), minted_split, burned_split.
  assert (Q : cnt (all_ids r s') + cnt (burned_ids r evs) = cnt (all_ids r s) + cnt (minted_ids r evs)).
  { apply occ_eq_cnt. intros x. rewrite (A r x). lia. }
  lia.
Qed.

(* ---------- resources never disappear, untracked stays untracked, events only for existing resources ---------- *)
Definition exists_res (r : N) (s : state) : Prop := aget r (s_res s) <> None.

Lemma supply_add_mono : forall s r0 d s' r, supply_add s r0 d = Ok s' ->
  (exists_res r s -> exists_res r s') /\ (exists_res r s' -> exists_res r s)
  /\ (supply_of r s = None -> supply_of r s' = None) /\ exists_res r0 s.
Proof.
  intros s r0 d s' r H. apply supply_add_spec in H. destruct H as (_ & _ & _ & _ & _ & _ & [ri G] & SP & EX).
  unfold exists_res. repeat split.
  - intros Q Q'. apply EX in Q'. auto.
  - intros Q Q'. apply EX in Q'. auto.
  - intros Q. rewrite SP, Q. reflexivity.
  - congruence.
Qed.

Ltac same_res H := inversion H; subst; clear H; unfold exists_res, supply_of in *;
  cbn [s_res set_res set_fv set_nv set_fb set_nb set_data set_fees minted burned] in *; repeat split; auto; try lia.

Ltac sa_tac r r0 :=
  match goal with SA : supply_add _ r0 _ = Ok _ |- _ =>
    let M1 := fresh "M1" in let M2 := fresh "M2" in let M3 := fresh "M3" in let M4 := fresh "M4" in
    destruct (supply_add_mono _ _ _ _ r SA) as (M1 & M2 & M3 & M4);
    unfold exists_res, supply_of in *; cbn [s_res set_res set_fv set_nv set_fb set_nb set_data set_fees] in *;
    split; [exact M1|]; split; [intros _; exact M3|];
    intros NE; cbn [minted burned];
    assert (QQ : N.eqb r r0 = false)
      by (destruct (N.eqb r r0) eqn:Q; [apply N.eqb_eq in Q; subst; exfalso; apply NE;
            destruct (supply_add_mono _ _ _ _ r0 SA) as (M1' & _); apply M1'; exact M4|reflexivity]);
    rewrite ?QQ; lia
  end.

Lemma step_res_facts : forall s o s' evs r,
  step s o = Ok (s', evs) -> xrd_ok s ->
  (exists_res r s -> exists_res r s')
  /\ (exists_res r s -> supply_of r s = None -> supply_of r s' = None)
  /\ (~ exists_res r s' -> minted r evs = 0 /\ burned r evs = 0).
Proof.
  intros s o s' evs r H [xi [X1 X2]]. destruct o; cbn [step] in H.
  - (* OCreateF *) ok_inv H. apply fresh_none in E.
    destruct initial as [[a b]|]; ok_inv H; inversion H; subst; clear H; unfold exists_res, supply_of;
      cbn [s_res set_res set_fb aget minted burned]; (destruct (N.eqb r r0) eqn:Q;
      [apply N.eqb_eq in Q; subst; repeat split; intros; try congruence; try (exfalso; auto; fail); try discriminate; try (exfalso; match goal with HH : ~ _ |- _ => apply HH; discriminate end)
      |repeat split; intros; auto; lia]).
  - (* OCreateN *) ok_inv H. apply fresh_none in E.
    destruct initial as [[ids b]|]; ok_inv H; inversion H; subst; clear H; unfold exists_res, supply_of;
      cbn [s_res set_res set_nb set_data aget minted burned]; (destruct (N.eqb r r0) eqn:Q;
      [apply N.eqb_eq in Q; subst; repeat split; intros; try congruence; try (exfalso; auto; fail); try discriminate; try (exfalso; match goal with HH : ~ _ |- _ => apply HH; discriminate end)
      |repeat split; intros; auto; lia]).
  - (* OMintF *) ok_inv H. inversion H; subst; clear H. sa_tac r r0.
  - (* OMintN *) ok_inv H. inversion H; subst; clear H. sa_tac r r0.
  - (* OBurn *) destruct (aget b (s_fb s)) as [[r0 a]|] eqn:G1.
    + ok_inv H. inversion H; subst; clear H. sa_tac r r0.
    + destruct (aget b (s_nb s)) as [[r0 ids]|] eqn:G2; [|discriminate].
      ok_inv H. inversion H; subst; clear H. sa_tac r r0.
  - ok_inv H. match type of H with context [r_nf ?ri] => destruct (r_nf ri) end; same_res H.
  - ok_inv H. match type of H with context [r_nf ?ri] => destruct (r_nf ri) end; same_res H.
  - destruct (aget b (s_fb s)) as [[r0 a]|] eqn:G1.
    + destruct (a =? 0); [|discriminate]. same_res H.
    + destruct (aget b (s_nb s)) as [[r0 ids]|] eqn:G2; [|discriminate]. destruct ids; [|discriminate]. same_res H.
  - ok_inv H. same_res H.
  - ok_inv H. same_res H.
  - ok_inv H. same_res H.
  - destruct (aget b (s_fb s)) as [[r0 a]|] eqn:G1.
    + ok_inv H. destruct (a =? 0); [same_res H|]. ok_inv H. same_res H.
    + destruct (aget b (s_nb s)) as [[r0 ids]|] eqn:G2; [|discriminate].
      ok_inv H. destruct ids; [same_res H|]. ok_inv H. same_res H.
  - ok_inv H. same_res H.
  - ok_inv H. same_res H.
  - ok_inv H. same_res H.
  - ok_inv H. same_res H.
  - destruct (N.eqb b b'); [discriminate|]. destruct (aget b' (s_fb s)) as [[r0 a]|] eqn:G1.
    + ok_inv H. same_res H.
    + destruct (aget b' (s_nb s)) as [[r0 ids]|] eqn:G2; [|discriminate]. ok_inv H. same_res H.
  - ok_inv H. same_res H.
  - (* OPayFee *) destruct (finalize_supply _ _ _ _ r H) as [RS EV]. unfold exists_res, supply_of. rewrite RS.
    split; [auto|]. split; [auto|]. intros NE. destruct (N.eqb r XRD) eqn:Q; [|apply EV; reflexivity].
    apply N.eqb_eq in Q; subst. exfalso. apply NE. congruence.
Qed.

(* ---------- the supply invariant ---------- *)
Record Inv (s : state) : Prop := mkInv {
  inv_nf : NFInv s;
  inv_xrd : xrd_ok s;
  inv_supply : forall r t, supply_of r s = Some t -> t = total r s;   (* recorded supply = everything that exists *)
  inv_none : forall r, ~ exists_res r s -> total r s = 0 }.           (* nothing exists of a resource that does not *)

Definition genesis : state := mkS [(XRD, mkR false 18 None)] [] [] [] [] [] [].

Lemma Inv_genesis : Inv genesis.
Proof.
  constructor.
  - constructor; cbn; intros; try lia; constructor.
  - eexists. split; reflexivity.
  - intros r t H. unfold supply_of, genesis in H. cbn in H. destruct (N.eqb r XRD); discriminate.
  - intros r _. unfold total, genesis, cnt. cbn. destruct (N.eqb r XRD); lia.
Qed.

Theorem step_Inv : forall s o s' evs, Inv s -> step s o = Ok (s', evs) -> op_ok o -> Inv s'.
Proof.
  intros s o s' evs [I X S0 N0] H OK.
  constructor.
  - eapply step_NFInv; eauto.
  - eapply step_xrd_ok; eauto.
  - intros r t' Q. pose proof (step_supply _ _ _ _ r t' H X Q) as E.
    rewrite (step_total_full _ _ _ _ r I H OK). unfold supply_z in E.
    destruct (supply_of r s) as [t|] eqn:Q0.
    + rewrite <- (S0 r t Q0). lia.
    + (* not tracked before: then it did not exist before *)
      destruct (step_res_facts _ _ _ _ r H X) as (F1 & F2 & F3).
      assert (NE : ~ exists_res r s).
      { intros EX. rewrite (F2 EX Q0) in Q. discriminate. }
      rewrite (N0 r NE). lia.
  - intros r NE. destruct (step_res_facts _ _ _ _ r H X) as (F1 & F2 & F3).
    rewrite (step_total_full _ _ _ _ r I H OK). destruct (F3 NE) as [M B].
    assert (NE0 : ~ exists_res r s) by (intros EX; apply NE, F1, EX).
    rewrite (N0 r NE0), M, B. lia.
Qed.

Theorem run_Inv : forall ops s s' evs, Inv s -> run s ops = Ok (s', evs) -> Forall op_ok ops -> Inv s'.
Proof.
  induction ops as [|o t IH]; intros s s' evs I H OK; cbn in H.
  - inversion H; subst. exact I.
  - unfold bind in H. destruct (step s o) as [[s1 e1]| |] eqn:S1; try discriminate.
    destruct (run s1 t) as [[s2 e2]| |] eqn:S2; try discriminate. inversion H; subst; clear H.
    inversion OK; subst. eapply IH; [|exact S2|assumption]. eapply step_Inv; eauto.
Qed.

(* whole histories: a list of transactions (op lists), each accepted *)
Fixpoint run_history (s : state) (txs : list (list op)) : option state :=
  match txs with
  | [] => Some s
  | ops :: t => match run s ops with Ok (s', _) => run_history s' t | _ => None end
  end.

Lemma at_rest_total_full : forall r s, at_rest s = true -> total r s = vault_sum r s.
Proof.
  unfold at_rest, total, vault_sum. intros r s H.
  destruct (s_fb s); [|discriminate]. destruct (s_nb s); [|discriminate]. destruct (s_fees s); [|discriminate].
  cbn. rewrite cnt_nil. destruct (N.eqb r XRD); lia.
Qed.

Definition nonneg_f (l : list (N * (N * Z))) : Prop := Forall (fun e => 0 <= snd (snd e)) l.

Theorem history_supply_invariant : forall txs s s',
  Inv s -> Forall (Forall op_ok) txs -> run_history s txs = Some s' ->
  Inv s' /\ (at_rest s' = true ->
             forall r t, supply_of r s' = Some t -> t = vault_sum r s')
  /\ (forall v r a ids, aget v (s_nv s') = Some (r, (a, ids)) -> a = cnt ids)
  /\ (forall r, NoDup (all_ids r s')).
Proof.
  induction txs as [|ops t IH]; intros s s' I OK H; cbn in H.
  - inversion H; subst. split; [exact I|]. split; [|split].
    + intros R r t0 Q. rewrite <- (at_rest_total_full r s' R). apply (inv_supply _ I r t0 Q).
    + intros v r a ids G. pose proof (Forall_aget _ _ _ _ (nf_cnt _ (inv_nf _ I)) G) as C. exact C.
    + intros r. apply occ_NoDup. intros x. apply (nf_uniq _ (inv_nf _ I)).
  - destruct (run s ops) as [[s1 e1]| |] eqn:R1; try discriminate. inversion OK; subst.
    eapply IH; [|eassumption|exact H]. eapply run_Inv; eauto.
Qed.
