(* C12 — scan_keys, drain_substates, scan_sorted_substates: results (and drain's effect). *)
From Coq Require Import List NArith Bool Lia.
Import ListNotations.
Require Import RV.Model.C12_Track RV.Model.C12_View RV.Proof.C12_Maps RV.Proof.C12_Track RV.Proof.C12_Ops.
Open Scope N_scope.

(* ---------- the overlay of two sorted lists, as a plain function ---------- *)
Fixpoint overlay (o : list (key * option value)) : list (key * value) -> list (key * value) :=
  fix ou (u : list (key * value)) {struct u} : list (key * value) :=
    match o with
    | [] => u
    | (ok, ch) :: o' =>
        match u with
        | [] => match ch with Some v => (ok, v) :: overlay o' [] | None => overlay o' [] end
        | (uk, uv) :: r =>
            if uk <? ok then (uk, uv) :: ou r
            else if uk =? ok then match ch with Some v => (ok, v) :: overlay o' r | None => overlay o' r end
            else match ch with Some v => (ok, v) :: overlay o' u | None => overlay o' u end
        end
    end.

Lemma overlay_nil_o : forall u, overlay [] u = u.
Proof. destruct u; reflexivity. Qed.
Lemma overlay_cons_nil : forall ok ch o', overlay ((ok, ch) :: o') [] =
  match ch with Some v => (ok, v) :: overlay o' [] | None => overlay o' [] end.
Proof. reflexivity. Qed.
Lemma overlay_cons_cons : forall ok ch o' uk uv r, overlay ((ok, ch) :: o') ((uk, uv) :: r) =
  if uk <? ok then (uk, uv) :: overlay ((ok, ch) :: o') r
  else if uk =? ok then match ch with Some v => (ok, v) :: overlay o' r | None => overlay o' r end
  else match ch with Some v => (ok, v) :: overlay o' ((uk, uv) :: r) | None => overlay o' ((uk, uv) :: r) end.
Proof. reflexivity. Qed.

Lemma ov_merge_zero : forall o pk u, ov_merge o 0 pk u = ([], 0).
Proof. destruct o as [|[ok ch] o']; destruct u; reflexivity. Qed.
Lemma ov_merge_nil_nil : forall limit pk, ov_merge [] limit pk [] = ([], 0).
Proof. intros. simpl. destruct (limit =? 0); reflexivity. Qed.
Lemma ov_merge_nil_cons : forall limit pk e r, limit <> 0 ->
  ov_merge [] limit pk (e :: r) =
  let '(l, c) := ov_merge [] (limit - 1) false r in (e :: l, (if pk then 0 else 1) + c).
Proof. intros. apply N.eqb_neq in H. simpl. rewrite H. reflexivity. Qed.
Lemma ov_merge_cons_nil : forall ok ch o' limit pk, limit <> 0 ->
  ov_merge ((ok, ch) :: o') limit pk [] =
  match ch with
  | Some v => let '(l, c) := ov_merge o' (limit - 1) false [] in ((ok, v) :: l, c)
  | None => ov_merge o' limit false []
  end.
Proof. intros. apply N.eqb_neq in H. simpl. rewrite H. reflexivity. Qed.
Lemma ov_merge_cons_cons : forall ok ch o' limit pk uk uv r, limit <> 0 ->
  ov_merge ((ok, ch) :: o') limit pk ((uk, uv) :: r) =
  let pulled := if pk then 0 else 1 in
  if uk <? ok then let '(l, c) := ov_merge ((ok, ch) :: o') (limit - 1) false r in ((uk, uv) :: l, pulled + c)
  else if uk =? ok then
    match ch with
    | Some v => let '(l, c) := ov_merge o' (limit - 1) false r in ((ok, v) :: l, pulled + c)
    | None => let '(l, c) := ov_merge o' limit false r in (l, pulled + c)
    end
  else
    match ch with
    | Some v => let '(l, c) := ov_merge o' (limit - 1) true ((uk, uv) :: r) in ((ok, v) :: l, pulled + c)
    | None => let '(l, c) := ov_merge o' limit true ((uk, uv) :: r) in (l, pulled + c)
    end.
Proof. intros. apply N.eqb_neq in H. simpl. rewrite H. reflexivity. Qed.

Lemma to_nat_pred : forall limit, limit <> 0 -> N.to_nat limit = S (N.to_nat (limit - 1)).
Proof. intros. lia. Qed.

(* the limited merge iterator returns the first `limit` entries of the overlay *)
Lemma ov_merge_overlay : forall o u limit pk,
  fst (ov_merge o limit pk u) = firstn (N.to_nat limit) (overlay o u).
Proof.
  induction o as [|[ok ch] o' IHo].
  - induction u as [|e r IHu]; intros limit pk.
    + rewrite ov_merge_nil_nil. destruct (N.to_nat limit); reflexivity.
    + destruct (N.eq_dec limit 0) as [->|Hl]; [rewrite ov_merge_zero; reflexivity|].
      rewrite ov_merge_nil_cons by assumption. specialize (IHu (limit - 1) false).
      destruct (ov_merge [] (limit - 1) false r) as [l c]. simpl in *.
      rewrite overlay_nil_o in *. rewrite (to_nat_pred limit) by assumption. simpl. f_equal. assumption.
  - induction u as [|[uk uv] r IHu]; intros limit pk.
    + destruct (N.eq_dec limit 0) as [->|Hl]; [rewrite ov_merge_zero; reflexivity|].
      rewrite ov_merge_cons_nil by assumption. rewrite overlay_cons_nil. destruct ch as [v|].
      * specialize (IHo [] (limit - 1) false). destruct (ov_merge o' (limit - 1) false []) as [l c]. simpl in *.
        rewrite (to_nat_pred limit) by assumption. simpl. f_equal. assumption.
      * apply IHo.
    + destruct (N.eq_dec limit 0) as [->|Hl]; [rewrite ov_merge_zero; reflexivity|].
      rewrite ov_merge_cons_cons by assumption. rewrite overlay_cons_cons. cbv zeta.
      destruct (uk <? ok).
      * specialize (IHu (limit - 1) false). destruct (ov_merge ((ok, ch) :: o') (limit - 1) false r) as [l c]. simpl in *.
        rewrite (to_nat_pred limit) by assumption. simpl. f_equal. assumption.
      * destruct (uk =? ok).
        -- destruct ch as [v|].
           ++ specialize (IHo r (limit - 1) false). destruct (ov_merge o' (limit - 1) false r) as [l c]. simpl in *.
              rewrite (to_nat_pred limit) by assumption. simpl. f_equal. assumption.
           ++ specialize (IHo r limit false). destruct (ov_merge o' limit false r) as [l c]. simpl in *. assumption.
        -- destruct ch as [v|].
           ++ specialize (IHo ((uk, uv) :: r) (limit - 1) true). destruct (ov_merge o' (limit - 1) true ((uk, uv) :: r)) as [l c]. simpl in *.
              rewrite (to_nat_pred limit) by assumption. simpl. f_equal. assumption.
           ++ specialize (IHo ((uk, uv) :: r) limit true). destruct (ov_merge o' limit true ((uk, uv) :: r)) as [l c]. simpl in *. assumption.
Qed.

Lemma sorted_from_iff : forall A k (l : list (N * A)),
  sorted_from k l <-> sorted l /\ forall k', In k' (map fst l) -> k < k'.
Proof.
  intros. split.
  - intros H. split; [eapply sorted_from_sorted; eauto|]. intros. eapply sorted_from_lt; eauto.
  - intros [H1 H2]. destruct l as [|[k0 a0] r]; simpl; [trivial|]. split; [apply H2; left; reflexivity|exact H1].
Qed.

Lemma overlay_spec : forall o u, sorted o -> sorted u ->
  sorted (overlay o u) /\
  forall k, al_get k (overlay o u) = match al_get k o with Some ch => ch | None => al_get k u end.
Proof.
  induction o as [|[ok ch] o' IHo].
  - intros u _ Hu. rewrite overlay_nil_o. auto.
  - induction u as [|[uk uv] r IHu]; intros Ho Hu.
    + rewrite overlay_cons_nil. destruct (IHo [] (sorted_tail _ _ _ Ho) I) as [S1 S2].
      assert (B : forall k', In k' (map fst (overlay o' [])) -> ok < k').
      { intros k' Hin. apply al_get_some_in in Hin. rewrite S2 in Hin. simpl in Hin.
        destruct (al_get k' o') eqn:G; [|exfalso; apply Hin; reflexivity]. simpl in Ho. eapply sorted_from_lt; eauto.
        apply al_get_some_in. congruence. }
      destruct ch as [v|].
      * split; [simpl; apply sorted_from_iff; auto|]. intros k. simpl. destruct (k =? ok); [reflexivity|apply S2].
      * split; [assumption|]. intros k. rewrite S2. simpl. destruct (k =? ok) eqn:E; [|reflexivity].
        apply N.eqb_eq in E; subst. simpl in Ho. rewrite (sorted_from_get_none _ ok o' ok) by (auto; lia). reflexivity.
    + rewrite overlay_cons_cons. simpl in Ho, Hu.
      pose proof (sorted_from_sorted _ _ _ Ho) as Ho'. pose proof (sorted_from_sorted _ _ _ Hu) as Hr.
      destruct (uk <? ok) eqn:E1.
      * apply N.ltb_lt in E1. destruct (IHu Ho Hr) as [S1 S2]. split.
        -- simpl. apply sorted_from_iff. split; [assumption|]. intros k' Hin. apply al_get_some_in in Hin. rewrite S2 in Hin.
           simpl in Hin. destruct (k' =? ok) eqn:E; [apply N.eqb_eq in E; lia|].
           destruct (al_get k' o') eqn:G.
           ++ assert (ok < k') by (eapply sorted_from_lt; eauto; apply al_get_some_in; congruence). lia.
           ++ eapply sorted_from_lt; eauto. apply al_get_some_in. assumption.
        -- intros k. simpl. destruct (k =? uk) eqn:E.
           ++ apply N.eqb_eq in E; subst. assert (uk =? ok = false) as -> by (apply N.eqb_neq; lia).
              rewrite (sorted_from_get_none _ ok o' uk) by (auto; lia). reflexivity.
           ++ rewrite S2. simpl. reflexivity.
      * apply N.ltb_ge in E1. destruct (uk =? ok) eqn:E2.
        -- apply N.eqb_eq in E2; subst uk. destruct (IHo r Ho' Hr) as [S1 S2].
           assert (B : forall k', In k' (map fst (overlay o' r)) -> ok < k').
           { intros k' Hin. apply al_get_some_in in Hin. rewrite S2 in Hin.
             destruct (al_get k' o') eqn:G.
             - apply (sorted_from_lt _ ok o'); [assumption|]. apply al_get_some_in. congruence.
             - apply (sorted_from_lt _ ok r); [assumption|]. apply al_get_some_in. assumption. }
           destruct ch as [v|].
           ++ split; [simpl; apply sorted_from_iff; auto|]. intros k. simpl. destruct (k =? ok); [reflexivity|apply S2].
           ++ split; [assumption|]. intros k. rewrite S2. simpl. destruct (k =? ok) eqn:E; [|reflexivity].
              apply N.eqb_eq in E; subst.
              rewrite (sorted_from_get_none _ ok o' ok), (sorted_from_get_none _ ok r ok) by (auto; lia). reflexivity.
        -- apply N.eqb_neq in E2. assert (ok < uk) by lia.
           destruct (IHo ((uk, uv) :: r) Ho' Hu) as [S1 S2].
           assert (B : forall k', In k' (map fst (overlay o' ((uk, uv) :: r))) -> ok < k').
           { intros k' Hin. apply al_get_some_in in Hin. rewrite S2 in Hin.
             destruct (al_get k' o') eqn:G.
             - eapply sorted_from_lt; eauto. apply al_get_some_in. congruence.
             - apply al_get_some_in in Hin. simpl in Hin. destruct Hin as [<-|Hin]; [assumption|].
               assert (uk < k') by (eapply sorted_from_lt; eauto). lia. }
           destruct ch as [v|].
           ++ split; [simpl; apply sorted_from_iff; auto|]. intros k. simpl. destruct (k =? ok) eqn:E; [reflexivity|]. rewrite S2. reflexivity.
           ++ split; [assumption|]. intros k. rewrite S2. simpl. destruct (k =? ok) eqn:E; [|reflexivity].
              apply N.eqb_eq in E; subst. rewrite (sorted_from_get_none _ ok o' ok) by (auto; lia).
              assert (ok =? uk = false) as -> by (apply N.eqb_neq; lia).
              rewrite (sorted_from_get_none _ uk r ok) by (auto; lia). reflexivity.
Qed.

(* ---------- scan_sorted result ---------- *)
Lemma step_scan_sorted_result : forall db t s n p limit t' r evs,
  db_wf db -> Inv db t s -> scan_sorted db t n p limit = (t', r, evs) ->
  r = firstn (N.to_nat limit) (v_view s n p).
Proof.
  intros db t s n p limit t' r evs Hdb I G. unfold scan_sorted in G.
  rewrite node_is_new_put_part in G.
  set (o := map (fun e => (fst e, tsv_get (snd e))) (ps_subs (cur_part (t_nodes t) n p))) in *.
  set (dbl := if node_is_new (t_nodes t) n then [] else db n p) in *.
  pose proof (ov_merge_overlay o dbl limit false) as M.
  destruct (ov_merge o limit false dbl) as [items c]. inversion G; subst; clear G. simpl in M. rewrite M.
  f_equal.
  assert (So : sorted o) by (apply map_snd_sorted; apply cur_part_sorted; apply (inv_sorted _ _ _ I)).
  assert (Sd : sorted dbl) by (unfold dbl; destruct (node_is_new (t_nodes t) n); [exact Logic.I|apply Hdb]).
  destruct (overlay_spec o dbl So Sd) as [S1 S2].
  apply sorted_ext; [assumption|apply (inv_vsorted _ _ _ I)|].
  intros k. rewrite S2, (inv_view _ _ _ I). unfold tview, o. rewrite al_get_map_snd, al_get_cur_part.
  destruct (tlookup (t_nodes t) n p k); simpl; [reflexivity|].
  unfold dbl. destruct (node_is_new (t_nodes t) n) eqn:E; [|reflexivity].
  rewrite (inv_new _ _ _ I) in E. rewrite (inv_fresh _ _ _ I _ E). reflexivity.
Qed.

(* ---------- scan_keys result ---------- *)
Lemma scan_tracked_spec : forall subs rem ks rem',
  NoDup (map fst subs) -> scan_tracked rem subs = (ks, rem') ->
  N.of_nat (length ks) + rem' = rem /\ NoDup ks /\
  (forall k, In k ks -> exists tv, al_get k subs = Some tv /\ tsv_get tv <> None) /\
  (rem' <> 0 -> forall k tv, al_get k subs = Some tv -> tsv_get tv <> None -> In k ks).
Proof.
  induction subs as [|[k0 tv0] r IH]; simpl; intros rem ks rem' Hn G.
  - inversion G; subst. simpl. repeat split; [constructor|intros k []|intros; discriminate].
  - inversion Hn; subst. destruct (rem =? 0) eqn:E0.
    + apply N.eqb_eq in E0. inversion G; subst. simpl. repeat split; [constructor|intros k []|intros X; congruence].
    + apply N.eqb_neq in E0. destruct (tsv_get tv0) eqn:G0.
      * destruct (scan_tracked (rem - 1) r) as [ks1 rem1] eqn:R. inversion G; subst.
        destruct (IH _ _ _ H2 R) as [A [B [C D]]]. split; [cbn [length]; rewrite Nat2N.inj_succ; lia|]. split.
        { constructor; [|assumption]. intros Hin. destruct (C _ Hin) as [tv [X _]]. apply H1. apply al_get_some_in. congruence. }
        split.
        { intros k [<-|Hin].
          - rewrite N.eqb_refl. exists tv0. split; [reflexivity|congruence].
          - destruct (C _ Hin) as [tv [X Y]]. destruct (k =? k0) eqn:Ek.
            + apply N.eqb_eq in Ek; subst. exfalso. apply H1. apply al_get_some_in. congruence.
            + exists tv. auto. }
        { intros Hr k tv. destruct (k =? k0) eqn:Ek.
          - apply N.eqb_eq in Ek; subst. intros; left; reflexivity.
          - intros X Y. right. eapply D; eauto. }
      * destruct (IH _ _ _ H2 G) as [A [B [C D]]]. split; [assumption|]. split; [assumption|]. split.
        { intros k Hin. destruct (C _ Hin) as [tv [X Y]]. destruct (k =? k0) eqn:Ek.
          - apply N.eqb_eq in Ek; subst. exfalso. apply H1. apply al_get_some_in. congruence.
          - exists tv. auto. }
        { intros Hr k tv. destruct (k =? k0) eqn:Ek.
          - intros X; inversion X; subst. congruence.
          - intros X Y. eapply D; eauto. }
Qed.

Lemma db_collect_spec : forall n p tracked dbl rem l it evs,
  NoDup (map fst dbl) -> db_collect n p rem tracked dbl = (l, it, evs) ->
  N.of_nat (length l) <= rem /\ NoDup (map fst l) /\
  (forall k v, In (k, v) l -> al_get k dbl = Some v /\ al_get k tracked = None) /\
  (N.of_nat (length l) < rem -> forall k v, al_get k dbl = Some v -> al_get k tracked = None -> In (k, v) l).
Proof.
  induction dbl as [|[k0 v0] r IH]; simpl; intros rem l it evs Hn G.
  - inversion G; subst. simpl. repeat split; [lia|constructor|destruct H|destruct H|intros; discriminate].
  - inversion Hn; subst. destruct (rem =? 0) eqn:E0.
    + apply N.eqb_eq in E0. inversion G; subst. simpl. repeat split; [lia|constructor|destruct H|destruct H|lia].
    + apply N.eqb_neq in E0. destruct (al_get k0 tracked) eqn:T.
      * destruct (db_collect n p rem tracked r) as [[l1 it1] ev1] eqn:R. inversion G; subst.
        destruct (IH _ _ _ _ H2 R) as [A [B [C D]]]. split; [assumption|]. split; [assumption|]. split.
        { intros k v Hin. destruct (C _ _ Hin) as [X Y]. split; [|assumption]. destruct (k =? k0) eqn:Ek; [|assumption].
          apply N.eqb_eq in Ek; subst. exfalso. apply H1. apply al_get_some_in. congruence. }
        { intros Hl k v. destruct (k =? k0) eqn:Ek.
          - apply N.eqb_eq in Ek; subst. intros _ X. congruence.
          - intros X Y. eapply D; eauto. }
      * destruct (db_collect n p (rem - 1) tracked r) as [[l1 it1] ev1] eqn:R. inversion G; subst.
        destruct (IH _ _ _ _ H2 R) as [A [B [C D]]]. split; [cbn [length]; rewrite Nat2N.inj_succ; lia|]. split.
        { constructor; [|assumption]. intros Hin. apply in_map_iff in Hin. destruct Hin as [[k v] [X Hin]]. simpl in X; subst.
          destruct (C _ _ Hin) as [Y _]. apply H1. apply al_get_some_in. congruence. }
        split.
        { intros k v [X|Hin].
          - inversion X; subst. rewrite N.eqb_refl. auto.
          - destruct (C _ _ Hin) as [X Y]. split; [|assumption]. destruct (k =? k0) eqn:Ek; [|assumption].
            apply N.eqb_eq in Ek; subst. exfalso. apply H1. apply al_get_some_in. congruence. }
        { intros Hl k v. destruct (k =? k0) eqn:Ek.
          - apply N.eqb_eq in Ek; subst. intros X _. inversion X; subst. left; reflexivity.
          - intros X Y. right. apply D; [cbn [length] in Hl; rewrite Nat2N.inj_succ in Hl; lia|assumption|assumption]. }
Qed.

Lemma nodup_app : forall A (a b : list A), NoDup a -> NoDup b -> (forall x, In x a -> ~ In x b) -> NoDup (a ++ b).
Proof.
  induction a as [|x a IH]; simpl; intros b Ha Hb Hd; [assumption|].
  inversion Ha; subst. constructor.
  - rewrite in_app_iff. intros [H|H]; [contradiction|]. eapply Hd; eauto.
  - apply IH; auto.
Qed.

Lemma view_present : forall db t s n p k, Inv db t s ->
  al_get k (v_view s n p) =
  match tlookup (t_nodes t) n p k with
  | Some tv => tsv_get tv
  | None => if node_is_new (t_nodes t) n then None else al_get k (db n p)
  end.
Proof.
  intros. rewrite (inv_view _ _ _ H). unfold tview. destruct (tlookup (t_nodes t) n p k); [reflexivity|].
  destruct (node_is_new (t_nodes t) n) eqn:E; [|reflexivity].
  rewrite (inv_new _ _ _ H) in E. rewrite (inv_fresh _ _ _ H _ E). reflexivity.
Qed.

Lemma tracked_subs_lookup : forall ns n p k,
  al_get k (match find_part ns n p with Some ps => ps_subs ps | None => [] end) = tlookup ns n p k.
Proof. intros. unfold tlookup. destruct (find_part ns n p); reflexivity. Qed.

Lemma step_scan_keys_result : forall db t s n p limit t' r evs,
  db_wf db -> Inv db t s -> scan_keys db t n p limit = (t', r, evs) ->
  scan_spec limit (v_view s n p) r.
Proof.
  intros db t s n p limit t' r evs Hdb I G. unfold scan_keys in G.
  set (tracked := match find_part (t_nodes t) n p with Some ps => ps_subs ps | None => [] end) in *.
  assert (Nt : NoDup (map fst tracked)).
  { unfold tracked. destruct (find_part (t_nodes t) n p) eqn:F; [|constructor]. apply sorted_nodup. eapply (inv_sorted _ _ _ I); eauto. }
  assert (TL : forall k, al_get k tracked = tlookup (t_nodes t) n p k) by (intros; apply tracked_subs_lookup).
  destruct (scan_tracked limit tracked) as [ks rem] eqn:ST.
  destruct (scan_tracked_spec _ _ _ _ Nt ST) as [A [B [C D]]].
  destruct ((rem =? 0) || node_is_new (t_nodes t) n) eqn:E.
  - inversion G; subst; clear G. unfold scan_spec. split; [assumption|]. split.
    { intros k Hin. destruct (C _ Hin) as [tv [X Y]]. rewrite (view_present _ _ _ _ _ _ I), <- TL, X. assumption. }
    split; [lia|]. intros Hlt k Hp. rewrite (view_present _ _ _ _ _ _ I), <- TL in Hp.
    apply orb_true_iff in E. destruct E as [E|E]; [apply N.eqb_eq in E; lia|]. rewrite E in Hp.
    destruct (al_get k tracked) as [tv|] eqn:X; [|congruence]. eapply D; eauto. lia.
  - apply orb_false_iff in E. destruct E as [E1 E2]. apply N.eqb_neq in E1.
    destruct (db_collect n p rem tracked (db n p)) as [[l it] ev] eqn:DC. inversion G; subst; clear G.
    destruct (db_collect_spec _ _ _ _ _ _ _ _ (sorted_nodup _ _ (Hdb n p)) DC) as [A' [B' [C' D']]].
    unfold scan_spec. split.
    { apply nodup_app; auto. intros k Hin Hin2. destruct (C _ Hin) as [tv [X _]].
      apply in_map_iff in Hin2. destruct Hin2 as [[k' v] [Y Hin2]]. simpl in Y; subst.
      destruct (C' _ _ Hin2) as [_ Z]. congruence. }
    split.
    { intros k Hin. apply in_app_iff in Hin. rewrite (view_present _ _ _ _ _ _ I), <- TL, E2. destruct Hin as [Hin|Hin].
      - destruct (C _ Hin) as [tv [X Y]]. rewrite X. assumption.
      - apply in_map_iff in Hin. destruct Hin as [[k' v] [Y Hin]]. simpl in Y; subst.
        destruct (C' _ _ Hin) as [X Z]. rewrite Z, X. discriminate. }
    split; [rewrite app_length, map_length; lia|].
    rewrite app_length, map_length. intros Hlt k Hp. rewrite (view_present _ _ _ _ _ _ I), <- TL, E2 in Hp.
    apply in_app_iff. destruct (al_get k tracked) as [tv|] eqn:X.
    + left. eapply D; eauto.
    + right. destruct (al_get k (db n p)) as [v|] eqn:Y; [|congruence].
      apply in_map_iff. exists (k, v). split; [reflexivity|]. eapply D'; eauto. lia.
Qed.
