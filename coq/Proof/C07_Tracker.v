(* C07 — proofs about the transaction tracker model (Model/C07_Tracker.v). *)
From Coq Require Import List NArith Bool Lia.
Import ListNotations.
Require Import RV.Model.C07_Tracker.
Open Scope N_scope.

Arguments N.add : simpl never.
Arguments N.sub : simpl never.
Arguments N.mul : simpl never.
Arguments N.div : simpl never.
Arguments N.eqb : simpl never.
Arguments N.ltb : simpl never.
Arguments N.leb : simpl never.

Ltac b2p := repeat match goal with
  | H : (_ <? _) = true |- _ => apply N.ltb_lt in H
  | H : (_ <? _) = false |- _ => apply N.ltb_ge in H
  | H : (_ <=? _) = true |- _ => apply N.leb_le in H
  | H : (_ <=? _) = false |- _ => apply N.leb_gt in H
  | H : (_ =? _) = true |- _ => apply N.eqb_eq in H
  | H : (_ =? _) = false |- _ => apply N.eqb_neq in H
  | H : (_ || _) = false |- _ => apply orb_false_iff in H; destruct H
  | H : (_ && _) = true |- _ => apply andb_true_iff in H; destruct H
  end.

(* ---- definitions used by the theorems ----------------------------------------------------------- *)
Definition num (t : tracker) : N := p_hi t - p_lo t + 1.
Definition wf_params (t : tracker) : Prop :=
  p_lo t <= p_hi t /\ p_hi t <= 255 /\ num t <= 255 /\ 0 < epp t.

(* tracker invariant: well-formed parameters, the current epoch lies in the first partition's
   epoch span, the start partition is inside the ring *)
Definition TInv (st : state) : Prop :=
  wf_params (trk st)
  /\ start_epoch (trk st) <= cur st < start_epoch (trk st) + epp (trk st)
  /\ p_lo (trk st) <= start_partition (trk st) <= p_hi (trk st).

(* the ring minus the partition in use covers the maximal validity window *)
Definition Covers (t : tracker) (maxr : N) : Prop := maxr <= epp t * (num t - 1).

(* no u64 overflow is in reach: the current epoch is at least one ring length below u64::MAX *)
Definition Margin (st : state) : Prop := cur st + (num (trk st) + 1) * epp (trk st) <= U64_MAX.

(* a record that rejects: present and committed *)
Definition Good (s : list record) (p h : N) : Prop :=
  exists y, lookup s p h = Some y /\ y <> Cancelled.

(* replay record for (hash, expiry) still effective: while the expiry lies in the future, the lookup
   made at boot finds a committed status *)
Definition Holds (st : state) (h e : N) : Prop :=
  cur st < e -> exists p, partition_for (trk st) e = PSome p /\ Good (store st) p h.

(* what static validation guarantees about an executable *)
Definition valid_submit (maxr : N) (sub : submit) : Prop :=
  s_start sub < s_end sub /\
  forall n, In n (s_nulls sub) -> s_end sub <= n_expiry n /\ n_expiry n <= s_start sub + maxr.

(* ---- partition_for ------------------------------------------------------------------------------ *)
Lemma partition_for_eq : forall t e,
  wf_params t -> p_lo t <= start_partition t <= p_hi t ->
  start_epoch t + num t * epp t <= U64_MAX ->
  partition_for t e =
    if (e <? start_epoch t) || (start_epoch t + num t * epp t <=? e) then PNone
    else let q := (e - start_epoch t) / epp t in
         PSome (if p_hi t <? start_partition t + q then start_partition t + q - num t
                else start_partition t + q).
Proof.
  intros t e (Hlo & Hhi & Hnm & Hepp) Hsp Hov. unfold partition_for, num in *.
  unfold U64_MAX, U8_MAX in *.
  remember (p_hi t - p_lo t + 1) as n eqn:Hn.
  destruct (p_hi t <? p_lo t) eqn:E1; b2p; [lia|].
  destruct (255 <? n) eqn:E2; b2p; [lia|].
  destruct (18446744073709551615 <? n * epp t) eqn:E3; b2p; [lia|].
  destruct (18446744073709551615 <? start_epoch t + n * epp t) eqn:E4; b2p; [lia|].
  destruct ((e <? start_epoch t) || (start_epoch t + n * epp t <=? e)) eqn:E5;
    [reflexivity|]. b2p.
  destruct (epp t =? 0) eqn:E6; b2p; [lia|].
  cbv zeta.
  assert (Hq : (e - start_epoch t) / epp t < n).
  { apply N.div_lt_upper_bound; [lia|]. rewrite N.mul_comm. lia. }
  remember ((e - start_epoch t) / epp t) as q eqn:Hqd.
  destruct (18446744073709551615 <? start_partition t + q) eqn:E7; b2p; [lia|].
  destruct (p_hi t <? start_partition t + q) eqn:E8; b2p.
  - destruct (start_partition t + q - n <? p_lo t) eqn:E9; b2p; [lia|].
    destruct (p_hi t <? start_partition t + q - n) eqn:E10; b2p; [lia|].
    reflexivity.
  - destruct (start_partition t + q <? p_lo t) eqn:E9; b2p; [lia|].
    destruct (p_hi t <? start_partition t + q) eqn:E10; b2p; [lia|].
    reflexivity.
Qed.

Lemma div_shift : forall a s d, 0 < d -> s + d <= a -> (a - s) / d = (a - (s + d)) / d + 1.
Proof.
  intros a s d Hd Hle.
  replace (a - s) with ((a - (s + d)) + 1 * d) by lia.
  rewrite N.div_add by lia. reflexivity.
Qed.

(* parameters never change under `advance` *)
Lemma advance_params : forall t t' d, advance t = Some (t', d) ->
  p_lo t' = p_lo t /\ p_hi t' = p_hi t /\ epp t' = epp t /\ d = start_partition t
  /\ start_epoch t' = start_epoch t + epp t
  /\ start_epoch t + epp t <= U64_MAX
  /\ ((start_partition t = p_hi t /\ start_partition t' = p_lo t)
      \/ (start_partition t <> p_hi t /\ start_partition t' = start_partition t + 1
          /\ start_partition t + 1 <= 255)).
Proof.
  intros t t' d H. unfold advance in H. unfold U64_MAX, U8_MAX in *.
  destruct (18446744073709551615 <? start_epoch t + epp t) eqn:E0; [discriminate|].
  destruct (start_partition t =? p_hi t) eqn:E1; b2p.
  - injection H as <- <-. cbn. repeat split; auto.
  - destruct (255 <? start_partition t + 1) eqn:E2; [discriminate|]. b2p.
    injection H as <- <-. cbn. repeat split; auto.
Qed.

Lemma num_eq : forall t t', p_lo t' = p_lo t -> p_hi t' = p_hi t -> num t' = num t.
Proof. intros t t' H1 H2. unfold num. rewrite H1, H2. reflexivity. Qed.

(* after `advance`, every expiry epoch beyond the discarded span maps to the same partition as
   before, and that partition is not the discarded one *)
Lemma partition_for_advance : forall t t' d e p,
  wf_params t -> p_lo t <= start_partition t <= p_hi t ->
  start_epoch t + epp t + num t * epp t <= U64_MAX ->
  partition_for t e = PSome p ->
  start_epoch t + epp t <= e ->
  advance t = Some (t', d) ->
  partition_for t' e = PSome p /\ p <> d.
Proof.
  intros t t' d e p Hwf Hsp Hov Hpf Hle Hadv.
  pose proof Hwf as (Hlo & Hhi & Hnm & Hepp).
  pose proof (advance_params _ _ _ Hadv) as (A1 & A2 & A3 & A4 & A5 & A6 & A7).
  pose proof (num_eq _ _ A1 A2) as An.
  assert (Hnum : num t = p_hi t - p_lo t + 1) by reflexivity.
  rewrite partition_for_eq in Hpf by (auto; lia).
  destruct ((e <? start_epoch t) || (start_epoch t + num t * epp t <=? e)) eqn:E5; [discriminate|].
  b2p. cbv zeta in Hpf. injection Hpf as Hp.
  pose proof (div_shift e (start_epoch t) (epp t) Hepp Hle) as Hq.
  assert (Hqlt : (e - start_epoch t) / epp t < num t).
  { apply N.div_lt_upper_bound; [lia|]. rewrite N.mul_comm. lia. }
  remember ((e - start_epoch t) / epp t) as q eqn:Hqd.
  remember ((e - (start_epoch t + epp t)) / epp t) as q' eqn:Hqd'.
  assert (Hwf' : wf_params t') by (unfold wf_params; rewrite An, A1, A2, A3; auto).
  assert (Hsp' : p_lo t' <= start_partition t' <= p_hi t').
  { rewrite A1, A2. destruct A7 as [(B1 & B2)|(B1 & B2 & B3)]; lia. }
  rewrite partition_for_eq; auto; [|rewrite An, A3, A5; lia].
  rewrite An, A3, A5, A2.
  destruct ((e <? start_epoch t + epp t) || (start_epoch t + epp t + num t * epp t <=? e)) eqn:E6.
  { apply orb_true_iff in E6. destruct E6; b2p; lia. }
  cbv zeta. rewrite <- Hqd'.
  destruct A7 as [(B1 & B2)|(B1 & B2 & B3)]; rewrite B2.
  - destruct (p_hi t <? start_partition t + q) eqn:C1; b2p; [|lia].
    destruct (p_hi t <? p_lo t + q') eqn:C2; b2p; [lia|].
    split; [f_equal; lia|lia].
  - replace (start_partition t + 1 + q') with (start_partition t + q) by lia.
    destruct (p_hi t <? start_partition t + q) eqn:C1; b2p; split; try (f_equal; lia); lia.
Qed.

(* ---- the store ---------------------------------------------------------------------------------- *)
Lemma find_filter : forall (f g : record -> bool) l,
  (forall x, f x = true -> g x = true) -> find f (filter g l) = find f l.
Proof.
  intros f g l Hfg. induction l as [|x l IH]; [reflexivity|]. cbn [filter find].
  destruct (g x) eqn:Eg; cbn [find].
  - destruct (f x); auto.
  - destruct (f x) eqn:Ef; auto. apply Hfg in Ef. congruence.
Qed.

Lemma lookup_write : forall s p h st p' h',
  lookup (write s p h st) p' h' =
    if (p' =? p) && (h' =? h) then Some st else lookup s p' h'.
Proof.
  intros. unfold lookup, write. cbn [find]. unfold key_eqb at 1. cbn [fst snd].
  rewrite (N.eqb_sym p p'), (N.eqb_sym h h').
  destruct ((p' =? p) && (h' =? h)) eqn:E; [reflexivity|].
  rewrite find_filter; [reflexivity|].
  intros x Hx. unfold key_eqb in *. apply andb_true_iff in Hx. destruct Hx as [H1 H2]. b2p.
  rewrite H1, H2, E. reflexivity.
Qed.

Lemma lookup_delete : forall s d p h, p <> d -> lookup (delete_partition s d) p h = lookup s p h.
Proof.
  intros. unfold lookup, delete_partition. rewrite find_filter; [reflexivity|].
  intros x Hx. unfold key_eqb in Hx. apply andb_true_iff in Hx. destruct Hx as [H1 H2]. b2p.
  rewrite H1. apply negb_true_iff. apply N.eqb_neq. exact H.
Qed.

Lemma good_write : forall s p h ok p' h',
  Good s p' h' -> Good (write s p h (if ok : bool then CommittedSuccess else CommittedFailure)) p' h'.
Proof.
  intros s p h ok p' h' (y & Hy & Hn). unfold Good. rewrite lookup_write.
  destruct ((p' =? p) && (h' =? h)).
  - eexists; split; [reflexivity|]. destruct ok; discriminate.
  - eauto.
Qed.

Lemma good_write_same : forall s p h ok,
  Good (write s p h (if ok : bool then CommittedSuccess else CommittedFailure)) p h.
Proof.
  intros. unfold Good. rewrite lookup_write, !N.eqb_refl. cbn.
  eexists; split; [reflexivity|]. destruct ok; discriminate.
Qed.

Lemma write_nulls_keeps : forall t ok ns s s' p h,
  write_nulls t s ok ns = Some s' -> Good s p h -> Good s' p h.
Proof.
  induction ns as [|n ns IH]; intros s s' p h Hw Hg; cbn [write_nulls] in Hw.
  - injection Hw as <-. exact Hg.
  - destruct (recorded ok n).
    + destruct (partition_for t (n_expiry n)) eqn:Ep; try discriminate.
      eapply IH; [exact Hw|]. apply good_write. exact Hg.
    + eapply IH; eauto.
Qed.

Lemma write_nulls_records : forall t ok ns s s' n,
  write_nulls t s ok ns = Some s' -> In n ns -> recorded ok n = true ->
  exists p, partition_for t (n_expiry n) = PSome p /\ Good s' p (n_hash n).
Proof.
  induction ns as [|m ns IH]; intros s s' n Hw Hin Hrec; [destruct Hin|].
  cbn [write_nulls] in Hw. destruct Hin as [->|Hin].
  - rewrite Hrec in Hw. destruct (partition_for t (n_expiry n)) eqn:Ep; try discriminate.
    exists p. split; [reflexivity|]. eapply write_nulls_keeps; [exact Hw|]. apply good_write_same.
  - destruct (recorded ok m).
    + destruct (partition_for t (n_expiry m)); try discriminate. eapply IH; eauto.
    + eapply IH; eauto.
Qed.

(* ---- update_tracker ----------------------------------------------------------------------------- *)
Lemma update_tracker_params : forall st ne ns ok st',
  update_tracker st ne ns ok = Some st' ->
  cur st' = ne /\ p_lo (trk st') = p_lo (trk st) /\ p_hi (trk st') = p_hi (trk st)
  /\ epp (trk st') = epp (trk st).
Proof.
  intros st ne ns ok st' H. unfold update_tracker in H.
  destruct (write_nulls (trk st) (store st) ok ns); [|discriminate].
  destruct (U64_MAX <? start_epoch (trk st) + epp (trk st)); [discriminate|].
  destruct (start_epoch (trk st) + epp (trk st) <=? ne).
  - destruct (advance (trk st)) as [[t' d]|] eqn:Ea; [|discriminate].
    injection H as <-. cbn. apply advance_params in Ea. tauto.
  - injection H as <-. cbn. auto.
Qed.

(* the heart: one commit (at the same epoch or at the next one) preserves the tracker invariant and
   every effective replay record *)
Lemma update_tracker_preserves : forall st ne ns ok st' h e,
  TInv st -> (ne = cur st \/ ne = cur st + 1) ->
  update_tracker st ne ns ok = Some st' -> Margin st' ->
  TInv st' /\ (Holds st h e -> Holds st' h e).
Proof.
  intros st ne ns ok st' h e (Hwf & Hcur & Hsp) Hne Hup Hmar.
  pose proof (update_tracker_params _ _ _ _ _ Hup) as (Hc' & Hlo' & Hhi' & Hepp').
  unfold update_tracker in Hup.
  destruct (write_nulls (trk st) (store st) ok ns) as [s1|] eqn:Ew; [|discriminate].
  destruct (U64_MAX <? start_epoch (trk st) + epp (trk st)) eqn:E0; [discriminate|].
  destruct (start_epoch (trk st) + epp (trk st) <=? ne) eqn:E1; b2p.
  - destruct (advance (trk st)) as [[t' d]|] eqn:Ea; [|discriminate].
    injection Hup as <-. cbn [cur trk store] in *.
    pose proof (advance_params _ _ _ Ea) as (A1 & A2 & A3 & A4 & A5 & A6 & A7).
    assert (Hne' : ne = start_epoch (trk st) + epp (trk st)) by lia.
    pose proof Hwf as (W1 & W2 & Wn & W3).
    split.
    + unfold TInv, wf_params. cbn [cur trk]. rewrite (num_eq _ _ A1 A2), A1, A2, A3, A5.
      split; [auto|]. split; [lia|].
      destruct A7 as [(B1 & B2)|(B1 & B2 & B3)]; lia.
    + intros Hh Hlt. cbn [cur trk store] in *.
      destruct Hh as (p & Hp & Hg); [lia|].
      unfold Margin, num in Hmar. cbn [cur trk] in Hmar. rewrite A1, A2, A3 in Hmar.
      destruct (partition_for_advance (trk st) t' d e p) as (Hp' & Hpd); auto.
      { unfold num. lia. }
      { lia. }
      exists p. split; [exact Hp'|].
      destruct (write_nulls_keeps _ _ _ _ _ _ _ Ew Hg) as (y & Hy & Hyn).
      exists y. split; [|exact Hyn]. rewrite lookup_delete; auto.
  - injection Hup as <-. cbn [cur trk store] in *. split.
    + unfold TInv. cbn [cur trk]. split; [auto|]. split; [lia|auto].
    + intros Hh Hlt. cbn [cur trk store] in *. destruct Hh as (p & Hp & Hg); [lia|].
      exists p. split; [exact Hp|]. eapply write_nulls_keeps; eauto.
Qed.

(* ---- steps -------------------------------------------------------------------------------------- *)
Lemma do_step_cases : forall st x r st',
  do_step st x = (r, st') ->
  st' = st \/
  exists ne ns ok, (ne = cur st \/ ne = cur st + 1) /\ update_tracker st ne ns ok = Some st'.
Proof.
  intros st x r st' H. destruct x as [sub oc| |]; cbn [do_step] in H.
  - destruct (validate_epoch_range (cur st) (s_start sub) (s_end sub)); [injection H as _ <-; auto|].
    destruct (validate_nulls st (s_nulls sub)); try (injection H as _ <-; auto; fail).
    destruct oc; try (injection H as _ <-; auto; fail).
    + destruct (update_tracker st (cur st) (s_nulls sub) true) eqn:E; injection H as _ <-; auto.
      right. eauto 8.
    + destruct (update_tracker st (cur st) (s_nulls sub) false) eqn:E; injection H as _ <-; auto.
      right. eauto 8.
  - destruct (U64_MAX <=? cur st); [injection H as _ <-; auto|].
    destruct (update_tracker st (cur st + 1) [] true) eqn:E; injection H as _ <-; auto.
    right. eauto 8.
  - destruct (update_tracker st (cur st) [] true) eqn:E; injection H as _ <-; auto.
    right. eauto 8.
Qed.

Lemma do_step_mono : forall st x,
  cur st <= cur (snd (do_step st x))
  /\ p_lo (trk (snd (do_step st x))) = p_lo (trk st)
  /\ p_hi (trk (snd (do_step st x))) = p_hi (trk st)
  /\ epp (trk (snd (do_step st x))) = epp (trk st).
Proof.
  intros st x. destruct (do_step st x) as [r st'] eqn:E. cbn [snd].
  destruct (do_step_cases _ _ _ _ E) as [->|(ne & ns & ok & Hne & Hup)].
  - repeat split; lia.
  - apply update_tracker_params in Hup. destruct Hup as (-> & -> & -> & ->). repeat split; lia.
Qed.

Lemma margin_back : forall st x, Margin (snd (do_step st x)) -> Margin st.
Proof.
  intros st x. pose proof (do_step_mono st x) as (H1 & H2 & H3 & H4).
  unfold Margin, num. rewrite H2, H3, H4. intros.
  eapply N.le_trans; [|exact H]. apply N.add_le_mono_r. exact H1.
Qed.

Lemma step_preserves : forall st x h e,
  TInv st -> Margin (snd (do_step st x)) ->
  TInv (snd (do_step st x)) /\ (Holds st h e -> Holds (snd (do_step st x)) h e).
Proof.
  intros st x h e Hi Hm. destruct (do_step st x) as [r st'] eqn:E. cbn [snd] in *.
  destruct (do_step_cases _ _ _ _ E) as [->|(ne & ns & ok & Hne & Hup)]; [auto|].
  eapply update_tracker_preserves; eauto.
Qed.

Lemma exec_cons : forall st x xs, exec st (x :: xs) = exec (snd (do_step st x)) xs.
Proof.
  intros. unfold exec. cbn [run]. destruct (do_step st x) as [r st']. cbn [snd].
  destruct (run st' xs). reflexivity.
Qed.

Lemma margin_back_exec : forall xs st, Margin (exec st xs) -> Margin st.
Proof.
  induction xs as [|x xs IH]; intros st H; [exact H|].
  rewrite exec_cons in H. apply IH in H. eapply margin_back; eauto.
Qed.

Lemma exec_preserves : forall xs st h e,
  TInv st -> Margin (exec st xs) ->
  TInv (exec st xs) /\ (Holds st h e -> Holds (exec st xs) h e).
Proof.
  induction xs as [|x xs IH]; intros st h e Hi Hm; [cbn; auto|].
  rewrite exec_cons in *.
  pose proof (margin_back_exec _ _ Hm) as Hm1.
  destruct (step_preserves st x h e Hi Hm1) as (Hi1 & Hh1).
  destruct (IH _ h e Hi1 Hm) as (Hi2 & Hh2). auto.
Qed.

(* a committing Submit establishes the record of each nullification it writes *)
Lemma commit_establishes : forall st sub oc ok st' n,
  TInv st -> do_step st (Submit sub oc) = (RCommit ok, st') ->
  In n (s_nulls sub) -> recorded ok n = true ->
  Holds st' (n_hash n) (n_expiry n).
Proof.
  intros st sub oc ok st' n (Hwf & Hcur & Hsp) H Hin Hrec. cbn [do_step] in H.
  destruct (validate_epoch_range (cur st) (s_start sub) (s_end sub)); [discriminate|].
  destruct (validate_nulls st (s_nulls sub)); try discriminate.
  assert (Hup : update_tracker st (cur st) (s_nulls sub) ok = Some st').
  { destruct oc; try discriminate.
    - destruct (update_tracker st (cur st) (s_nulls sub) true) eqn:Eu; [|discriminate]. injection H as <- <-. exact Eu.
    - destruct (update_tracker st (cur st) (s_nulls sub) false) eqn:Eu; [|discriminate]. injection H as <- <-. exact Eu. }
  clear H. unfold update_tracker in Hup.
  destruct (write_nulls (trk st) (store st) ok (s_nulls sub)) as [s1|] eqn:Ew; [|discriminate].
  destruct (U64_MAX <? start_epoch (trk st) + epp (trk st)); [discriminate|].
  destruct (start_epoch (trk st) + epp (trk st) <=? cur st) eqn:E1; b2p; [lia|].
  injection Hup as <-. intros _. cbn [cur trk store].
  eapply write_nulls_records; eauto.
Qed.

(* a nullification whose record holds makes the boot check fail *)
Lemma holds_blocks : forall st n,
  Holds st (n_hash n) (n_expiry n) -> cur st < n_expiry n ->
  validate_intent_hash st n = ChkReject (PrevCommitted (n_kind n) (n_hash n)).
Proof.
  intros st n Hh Hlt. destruct (Hh Hlt) as (p & Hp & y & Hy & Hyn).
  unfold validate_intent_hash. rewrite Hp, Hy. destruct y; congruence.
Qed.

Lemma validate_nulls_blocked : forall st ns n r,
  In n ns -> validate_intent_hash st n = ChkReject r -> validate_nulls st ns <> ChkOk.
Proof.
  induction ns as [|m ns IH]; intros n r Hin Hv; [destruct Hin|].
  cbn [validate_nulls]. destruct Hin as [->|Hin].
  - rewrite Hv. discriminate.
  - destruct (validate_intent_hash st m); try discriminate. eapply IH; eauto.
Qed.

(* ---- main theorems ------------------------------------------------------------------------------ *)
(* no replay: after a commit that records (hash, expiry), whatever happens in between, a transaction
   carrying a nullification with that hash and expiry is never committed while cur < expiry *)
Theorem no_replay : forall st0 pre sub oc ok st2 mid sub' oc' n n',
  TInv st0 ->
  do_step (exec st0 pre) (Submit sub oc) = (RCommit ok, st2) ->
  In n (s_nulls sub) -> recorded ok n = true ->
  let st3 := exec st2 mid in
  Margin st3 -> cur st3 < n_expiry n ->
  In n' (s_nulls sub') -> n_hash n' = n_hash n -> n_expiry n' = n_expiry n ->
  (forall ok', fst (do_step st3 (Submit sub' oc')) <> RCommit ok')
  /\ snd (do_step st3 (Submit sub' oc')) = st3.
Proof.
  intros st0 pre sub oc ok st2 mid sub' oc' n n' Hi0 Hstep Hin Hrec st3 Hm Hlt Hin' Hh He.
  assert (Hm2 : Margin st2) by (eapply margin_back_exec; eauto).
  assert (Hm1 : Margin (exec st0 pre)).
  { replace st2 with (snd (do_step (exec st0 pre) (Submit sub oc))) in Hm2 by (rewrite Hstep; reflexivity).
    eapply margin_back; eauto. }
  destruct (exec_preserves pre st0 0 0 Hi0 Hm1) as (Hi1 & _).
  assert (Hi2 : TInv st2).
  { replace st2 with (snd (do_step (exec st0 pre) (Submit sub oc))) by (rewrite Hstep; reflexivity).
    apply (step_preserves _ _ 0 0); auto. rewrite Hstep. exact Hm2. }
  pose proof (commit_establishes _ _ _ _ _ _ Hi1 Hstep Hin Hrec) as Hh2.
  destruct (exec_preserves mid st2 (n_hash n) (n_expiry n) Hi2 Hm) as (Hi3 & Hh3).
  specialize (Hh3 Hh2). fold st3 in Hh3.
  rewrite <- Hh, <- He in Hh3.
  assert (Hv : validate_intent_hash st3 n' = ChkReject (PrevCommitted (n_kind n') (n_hash n'))).
  { apply holds_blocks; [exact Hh3|lia]. }
  pose proof (validate_nulls_blocked st3 _ _ _ Hin' Hv) as Hnb.
  cbn [do_step].
  destruct (validate_epoch_range (cur st3) (s_start sub') (s_end sub')); [split; [discriminate|reflexivity]|].
  destruct (validate_nulls st3 (s_nulls sub')); try (split; [discriminate|reflexivity]).
  congruence.
Qed.

(* the same single-intent transaction submitted again inside its window is rejected with exactly
   IntentHashPreviouslyCommitted *)
Theorem replay_rejected_reason : forall st0 pre s e k h oc ok st2 mid oc',
  TInv st0 ->
  let sub := mkSubmit s e [mkNull k h e] in
  do_step (exec st0 pre) (Submit sub oc) = (RCommit ok, st2) ->
  recorded ok (mkNull k h e) = true ->
  let st3 := exec st2 mid in
  Margin st3 -> cur st3 < e ->
  do_step st3 (Submit sub oc') = (RReject (PrevCommitted k h), st3).
Proof.
  intros st0 pre s e k h oc ok st2 mid oc' Hi0 sub Hstep Hrec st3 Hm Hlt.
  assert (Hm2 : Margin st2) by (eapply margin_back_exec; eauto).
  assert (Hm1 : Margin (exec st0 pre)).
  { replace st2 with (snd (do_step (exec st0 pre) (Submit sub oc))) in Hm2 by (rewrite Hstep; reflexivity).
    eapply margin_back; eauto. }
  destruct (exec_preserves pre st0 0 0 Hi0 Hm1) as (Hi1 & _).
  assert (Hi2 : TInv st2).
  { replace st2 with (snd (do_step (exec st0 pre) (Submit sub oc))) by (rewrite Hstep; reflexivity).
    apply (step_preserves _ _ 0 0); auto. rewrite Hstep. exact Hm2. }
  assert (Hin : In (mkNull k h e) (s_nulls sub)) by (left; reflexivity).
  pose proof (commit_establishes _ _ _ _ _ _ Hi1 Hstep Hin Hrec) as Hh2.
  destruct (exec_preserves mid st2 h e Hi2 Hm) as (Hi3 & Hh3).
  specialize (Hh3 Hh2). fold st3 in Hh3.
  pose proof (holds_blocks st3 (mkNull k h e) Hh3 Hlt) as Hv. cbn [n_kind n_hash] in Hv.
  (* the window was entered at the first commit and epochs only grow *)
  assert (Hs : s <= cur st3).
  { assert (s <= cur (exec st0 pre)).
    { cbn [do_step] in Hstep. unfold validate_epoch_range in Hstep. cbn [s_start s_end sub] in Hstep.
      destruct (cur (exec st0 pre) <? s) eqn:E; [discriminate|]. b2p. lia. }
    assert (cur (exec st0 pre) <= cur st2).
    { pose proof (do_step_mono (exec st0 pre) (Submit sub oc)) as (Hc & _). rewrite Hstep in Hc. exact Hc. }
    assert (cur st2 <= cur st3).
    { unfold st3. clear. revert st2. induction mid as [|x xs IH]; intros st2; [cbn; lia|].
      rewrite exec_cons. pose proof (do_step_mono st2 x) as (Hc & _). specialize (IH (snd (do_step st2 x))). lia. }
    lia. }
  cbn [do_step]. unfold validate_epoch_range. cbn [s_start s_end s_nulls sub].
  destruct (cur st3 <? s) eqn:E1; b2p; [lia|].
  destruct (e <=? cur st3) eqn:E2; b2p; [lia|].
  cbn [validate_nulls]. rewrite Hv. reflexivity.
Qed.

Theorem inv_step : forall st x h e,
  TInv st -> Margin (snd (do_step st x)) ->
  TInv (snd (do_step st x)) /\ (Holds st h e -> Holds (snd (do_step st x)) h e).
Proof. exact step_preserves. Qed.

Theorem epoch_window : forall st sub oc ok st',
  do_step st (Submit sub oc) = (RCommit ok, st') -> s_start sub <= cur st < s_end sub.
Proof.
  intros st sub oc ok st' H. cbn [do_step] in H. unfold validate_epoch_range in H.
  destruct (cur st <? s_start sub) eqn:E1; [discriminate|].
  destruct (s_end sub <=? cur st) eqn:E2; [discriminate|]. b2p. lia.
Qed.

Theorem outside_window_rejected : forall st sub oc,
  ~ (s_start sub <= cur st < s_end sub) ->
  exists r, do_step st (Submit sub oc) = (RReject r, st) /\ (r = NotYetValid \/ r = NoLongerValid).
Proof.
  intros st sub oc H. cbn [do_step]. unfold validate_epoch_range.
  destruct (cur st <? s_start sub) eqn:E1; [eauto|].
  destruct (s_end sub <=? cur st) eqn:E2; [eauto|]. b2p. lia.
Qed.

(* ---- no panic ----------------------------------------------------------------------------------- *)
Lemma pf_valid_some : forall st maxr e,
  TInv st -> Covers (trk st) maxr -> Margin st ->
  cur st < e -> e <= cur st + maxr ->
  exists p, partition_for (trk st) e = PSome p.
Proof.
  intros st maxr e (Hwf & Hcur & Hsp) Hcov Hm Hlt Hle.
  pose proof Hwf as (W1 & W2 & Wn & W3). unfold Covers, Margin, num in *.
  rewrite partition_for_eq; auto; [|unfold num; lia].
  unfold num.
  destruct ((e <? start_epoch (trk st)) || (start_epoch (trk st) + (p_hi (trk st) - p_lo (trk st) + 1) * epp (trk st) <=? e)) eqn:E.
  - apply orb_true_iff in E. destruct E; b2p; [lia|].
    exfalso.
    assert (epp (trk st) * (p_hi (trk st) - p_lo (trk st) + 1 - 1) + epp (trk st) = (p_hi (trk st) - p_lo (trk st) + 1) * epp (trk st)) by lia.
    lia.
  - eauto.
Qed.

Lemma validate_nulls_no_panic : forall st maxr ns,
  TInv st -> Covers (trk st) maxr -> Margin st ->
  (forall n, In n ns -> cur st < n_expiry n /\ n_expiry n <= cur st + maxr) ->
  validate_nulls st ns <> ChkPanic.
Proof.
  intros st maxr ns Hi Hc Hm. induction ns as [|n ns IH]; intros Hall; cbn [validate_nulls]; [discriminate|].
  destruct (Hall n (or_introl eq_refl)) as (H1 & H2).
  destruct (pf_valid_some st maxr _ Hi Hc Hm H1 H2) as (p & Hp).
  unfold validate_intent_hash. rewrite Hp.
  destruct (lookup (store st) p (n_hash n)) as [[]|]; try discriminate.
  apply IH. intros m Hm'. apply Hall. right. exact Hm'.
Qed.

Lemma write_nulls_no_panic : forall st maxr ok ns s,
  TInv st -> Covers (trk st) maxr -> Margin st ->
  (forall n, In n ns -> cur st < n_expiry n /\ n_expiry n <= cur st + maxr) ->
  write_nulls (trk st) s ok ns <> None.
Proof.
  intros st maxr ok ns s Hi Hc Hm. revert s. induction ns as [|n ns IH]; intros s Hall; cbn [write_nulls]; [discriminate|].
  destruct (recorded ok n).
  - destruct (Hall n (or_introl eq_refl)) as (H1 & H2).
    destruct (pf_valid_some st maxr _ Hi Hc Hm H1 H2) as (p & Hp). rewrite Hp.
    apply IH. intros m Hm'. apply Hall. right. exact Hm'.
  - apply IH. intros m Hm'. apply Hall. right. exact Hm'.
Qed.

Lemma update_tracker_no_panic : forall st maxr ne ok ns,
  TInv st -> Covers (trk st) maxr -> Margin st ->
  (forall n, In n ns -> cur st < n_expiry n /\ n_expiry n <= cur st + maxr) ->
  update_tracker st ne ns ok <> None.
Proof.
  intros st maxr ne ok ns Hi Hc Hm Hall. unfold update_tracker.
  destruct (write_nulls (trk st) (store st) ok ns) eqn:Ew;
    [|exfalso; eapply write_nulls_no_panic; eauto].
  destruct Hi as (Hwf & Hcur & Hsp). pose proof Hwf as (W1 & W2 & Wn & W3).
  unfold Margin, num in Hm.
  assert (Hov : start_epoch (trk st) + epp (trk st) <= U64_MAX).
  { remember (p_hi (trk st) - p_lo (trk st) + 1) as n0. nia. }
  destruct (U64_MAX <? start_epoch (trk st) + epp (trk st)) eqn:E0; b2p; [lia|].
  destruct (start_epoch (trk st) + epp (trk st) <=? ne); [|discriminate].
  unfold advance.
  destruct (U64_MAX <? start_epoch (trk st) + epp (trk st)) eqn:E1; b2p; [lia|].
  destruct (start_partition (trk st) =? p_hi (trk st)) eqn:E2; [discriminate|]. b2p.
  unfold U8_MAX.
  destruct (255 <? start_partition (trk st) + 1) eqn:E3; b2p; [lia|discriminate].
Qed.

Theorem no_panic : forall st maxr x,
  TInv st -> Covers (trk st) maxr -> Margin st ->
  (forall sub oc, x = Submit sub oc -> valid_submit maxr sub) ->
  fst (do_step st x) <> RPanic.
Proof.
  intros st maxr x Hi Hc Hm Hv. destruct x as [sub oc| |]; cbn [do_step].
  - destruct (Hv sub oc eq_refl) as (Hse & Hn).
    unfold validate_epoch_range.
    destruct (cur st <? s_start sub) eqn:E1; [cbn; discriminate|].
    destruct (s_end sub <=? cur st) eqn:E2; [cbn; discriminate|]. b2p.
    assert (Hall : forall n, In n (s_nulls sub) -> cur st < n_expiry n /\ n_expiry n <= cur st + maxr).
    { intros n Hin. destruct (Hn n Hin). lia. }
    destruct (validate_nulls st (s_nulls sub)) eqn:Evn; [|cbn; discriminate|
      exfalso; eapply validate_nulls_no_panic; eauto].
    destruct oc; [| |cbn; discriminate].
    + destruct (update_tracker st (cur st) (s_nulls sub) true) eqn:Eu; [cbn; discriminate|].
      exfalso; eapply update_tracker_no_panic; eauto.
    + destruct (update_tracker st (cur st) (s_nulls sub) false) eqn:Eu; [cbn; discriminate|].
      exfalso; eapply update_tracker_no_panic; eauto.
  - destruct (U64_MAX <=? cur st); [cbn; discriminate|].
    destruct (update_tracker st (cur st + 1) [] true) eqn:Eu; [cbn; discriminate|].
    exfalso. eapply (update_tracker_no_panic st maxr); eauto. intros n [].
  - destruct (update_tracker st (cur st) [] true) eqn:Eu; [cbn; discriminate|].
    exfalso. eapply (update_tracker_no_panic st maxr); eauto. intros n [].
Qed.

(* ---- static validation gives valid_submit --------------------------------------------------------- *)
Lemma header_ok_spec : forall m s e, header_ok m s e = true -> s < e /\ e <= s + m.
Proof.
  intros m s e H. unfold header_ok in H.
  destruct (e <=? s) eqn:E1; [discriminate|].
  destruct (U64_MAX <? s + m); [discriminate|].
  apply negb_true_iff in H. b2p. lia.
Qed.

Lemma aggregate_spec : forall m is rs re S E,
  aggregate m is rs re = Some (S, E) ->
  rs <= S /\ E <= re /\ (is <> [] -> S < E) /\
  forall i, In i is -> i_start i <= S /\ E <= i_end i /\ i_end i <= i_start i + m.
Proof.
  induction is as [|i is IH]; intros rs re S E H; cbn [aggregate] in H.
  - injection H as <- <-. split; [lia|]. split; [lia|]. split; [congruence|]. intros j [].
  - destruct (header_ok m (i_start i) (i_end i)) eqn:Eh; [|discriminate].
    apply header_ok_spec in Eh.
    set (rs' := if rs <? i_start i then i_start i else rs) in *.
    set (re' := if i_end i <? re then i_end i else re) in *.
    destruct (re' <=? rs') eqn:Ec; [discriminate|]. b2p.
    destruct (IH _ _ _ _ H) as (H1 & H2 & H3 & H4).
    assert (rs <= rs' /\ i_start i <= rs') by (unfold rs'; destruct (rs <? i_start i) eqn:X; b2p; lia).
    assert (re' <= re /\ re' <= i_end i) by (unfold re'; destruct (i_end i <? re) eqn:X; b2p; lia).
    split; [lia|]. split; [lia|]. split; [intros _; destruct is as [|k is']; [cbn in H; injection H as <- <-; lia|apply H3; discriminate]|].
    intros j [<-|Hj]; [|apply H4; exact Hj].
    split; [lia|]. split; [lia|]. lia.
Qed.

Theorem to_submit_valid : forall m is sub,
  is <> [] -> to_submit m is = Some sub -> valid_submit m sub.
Proof.
  intros m is sub Hne H. unfold to_submit in H.
  destruct (aggregate m is 0 U64_MAX) as [[S E]|] eqn:Ea; [|discriminate].
  injection H as <-. apply aggregate_spec in Ea. destruct Ea as (H1 & H2 & H3 & H4).
  unfold valid_submit. cbn [s_start s_end s_nulls]. split; [auto|].
  intros n Hin. apply in_map_iff in Hin. destruct Hin as (i & <- & Hi). cbn [n_expiry].
  destruct (H4 i Hi). lia.
Qed.

(* the tracker created at genesis satisfies the invariant *)
Lemma tracker_new_inv : forall lo hi e c s,
  lo <= hi -> hi <= 255 -> hi - lo + 1 <= 255 -> 0 < e -> TInv (mkState c (tracker_new lo hi e c) s).
Proof.
  intros. unfold TInv, wf_params, tracker_new, num. cbn. repeat split; lia.
Qed.

(* ---- what a commit writes and what a rotation deletes ------------------------------------------------ *)
Definition count_part (s : list record) (p : N) : nat :=
  length (filter (fun r => fst (fst r) =? p) s).

Lemma count_part_delete_same : forall s d, count_part (delete_partition s d) d = 0%nat.
Proof.
  intros s d. unfold count_part, delete_partition. induction s as [|r s IH]; [reflexivity|].
  cbn [filter]. destruct (fst (fst r) =? d) eqn:E; cbn [negb filter]; [exact IH|]. rewrite E. exact IH.
Qed.
Lemma count_part_delete_other : forall s d p, p <> d ->
  count_part (delete_partition s d) p = count_part s p.
Proof.
  intros s d p Hp. unfold count_part, delete_partition. induction s as [|r s IH]; [reflexivity|].
  cbn [filter]. destruct (fst (fst r) =? d) eqn:E; cbn [negb filter].
  - b2p. destruct (fst (fst r) =? p) eqn:E2; [b2p; congruence|]. exact IH.
  - destruct (fst (fst r) =? p); cbn [length]; [f_equal|]; exact IH.
Qed.

(* the write loop only creates or replaces entries keyed by a recorded nullification of this
   transaction, in the partition the tracker assigns to its expiry epoch; every other entry is kept *)
Lemma write_nulls_only_keys : forall t ok ns s s',
  write_nulls t s ok ns = Some s' ->
  (forall r, In r s' ->
     In r s \/ exists n, In n ns /\ recorded ok n = true
                         /\ partition_for t (n_expiry n) = PSome (fst (fst r)) /\ snd (fst r) = n_hash n)
  /\ (forall r, In r s ->
     In r s' \/ exists n, In n ns /\ recorded ok n = true
                         /\ partition_for t (n_expiry n) = PSome (fst (fst r)) /\ snd (fst r) = n_hash n).
Proof.
  induction ns as [|n ns IH]; intros s s' H; cbn [write_nulls] in H.
  - injection H as <-. split; intros r Hr; left; exact Hr.
  - destruct (recorded ok n) eqn:Er.
    + destruct (partition_for t (n_expiry n)) as [p| |] eqn:Ep; try discriminate.
      destruct (IH _ _ H) as (A & B). split.
      * intros r Hr. destruct (A r Hr) as [Hw|(m & Hm & R1 & R2 & R3)].
        -- unfold write in Hw. destruct Hw as [<-|Hw].
           ++ right. exists n. cbn. split; [left; reflexivity|]. repeat split; auto.
           ++ apply filter_In in Hw. left. exact (proj1 Hw).
        -- right. exists m. split; [right; exact Hm|]. repeat split; auto.
      * intros r Hr.
        destruct (key_eqb p (n_hash n) r) eqn:Ek.
        -- right. exists n. unfold key_eqb in Ek. apply andb_true_iff in Ek. destruct Ek as [K1 K2]. b2p.
           split; [left; reflexivity|]. split; [exact Er|]. split; [rewrite K1; exact Ep|exact K2].
        -- assert (Hw : In r (write s p (n_hash n) (if ok then CommittedSuccess else CommittedFailure))).
           { unfold write. right. apply filter_In. split; [exact Hr|]. rewrite Ek. reflexivity. }
           destruct (B r Hw) as [Hs'|(m & Hm & R1 & R2 & R3)]; [left; exact Hs'|].
           right. exists m. split; [right; exact Hm|]. repeat split; auto.
    + destruct (IH _ _ H) as (A & B). split.
      * intros r Hr. destruct (A r Hr) as [Hw|(m & Hm & R)]; [left; exact Hw|].
        right. exists m. split; [right; exact Hm|exact R].
      * intros r Hr. destruct (B r Hr) as [Hw|(m & Hm & R)]; [left; exact Hw|].
        right. exists m. split; [right; exact Hm|exact R].
Qed.

(* update_transaction_tracker: after the writes, either nothing else changes, or the tracker advances by
   one partition and EXACTLY the recycled partition (the old start partition) is emptied: every record
   of every other partition is kept, the recycled partition has no record left *)
Theorem update_tracker_deletes : forall st ne ns ok st',
  update_tracker st ne ns ok = Some st' ->
  exists s1, write_nulls (trk st) (store st) ok ns = Some s1 /\
    ((ne < start_epoch (trk st) + epp (trk st) /\ trk st' = trk st /\ store st' = s1)
     \/ (start_epoch (trk st) + epp (trk st) <= ne
         /\ advance (trk st) = Some (trk st', start_partition (trk st))
         /\ (forall r, In r (store st') <-> In r s1 /\ fst (fst r) <> start_partition (trk st))
         /\ count_part (store st') (start_partition (trk st)) = 0%nat
         /\ (forall p, p <> start_partition (trk st) -> count_part (store st') p = count_part s1 p))).
Proof.
  intros st ne ns ok st' H. unfold update_tracker in H.
  destruct (write_nulls (trk st) (store st) ok ns) as [s1|] eqn:Ew; [|discriminate].
  exists s1. split; [reflexivity|].
  destruct (U64_MAX <? start_epoch (trk st) + epp (trk st)); [discriminate|].
  destruct (start_epoch (trk st) + epp (trk st) <=? ne) eqn:E; b2p.
  - destruct (advance (trk st)) as [[t' d]|] eqn:Ea; [|discriminate]. injection H as <-.
    pose proof (advance_params _ _ _ Ea) as (_ & _ & _ & Hd & _). subst d. right. cbn [trk store].
    split; [exact E|]. split; [reflexivity|]. split; [|split].
    + intros r. unfold delete_partition. rewrite filter_In. split.
      * intros (Hr & Hn). split; [exact Hr|]. apply negb_true_iff in Hn. b2p. exact Hn.
      * intros (Hr & Hn). split; [exact Hr|]. apply negb_true_iff. apply N.eqb_neq. exact Hn.
    + apply count_part_delete_same.
    + intros p Hp. apply count_part_delete_other. exact Hp.
  - injection H as <-. left. cbn [trk store]. auto.
Qed.

(* the code never writes the Cancelled status: from a store without it, IntentHashPreviouslyCancelled
   is unreachable *)
Definition NoCancelled (s : list record) : Prop := forall r, In r s -> snd r <> Cancelled.

Lemma write_nulls_no_cancelled : forall t ok ns s s',
  write_nulls t s ok ns = Some s' -> NoCancelled s -> NoCancelled s'.
Proof.
  induction ns as [|n ns IH]; intros s s' H Hn; cbn [write_nulls] in H.
  - injection H as <-. exact Hn.
  - destruct (recorded ok n).
    + destruct (partition_for t (n_expiry n)) as [p| |]; try discriminate.
      eapply IH; [exact H|]. intros r [<-|Hr]; [cbn; destruct ok; discriminate|].
      apply filter_In in Hr. apply Hn. exact (proj1 Hr).
    + eapply IH; eauto.
Qed.

Theorem no_cancelled_step : forall st x,
  NoCancelled (store st) ->
  NoCancelled (store (snd (do_step st x)))
  /\ forall k h, fst (do_step st x) <> RReject (PrevCancelled k h).
Proof.
  intros st x Hn.
  assert (Hup : forall ne ns ok st', update_tracker st ne ns ok = Some st' -> NoCancelled (store st')).
  { intros ne ns ok st' H. destruct (update_tracker_deletes _ _ _ _ _ H) as (s1 & Ew & [(_ & _ & ->)|(_ & _ & Hin & _)]).
    - eapply write_nulls_no_cancelled; eauto.
    - intros r Hr. apply Hin in Hr. eapply write_nulls_no_cancelled; eauto. exact (proj1 Hr). }
  assert (Hv : forall ns k h, validate_nulls st ns <> ChkReject (PrevCancelled k h)).
  { induction ns as [|n ns IH]; intros k h; cbn [validate_nulls]; [discriminate|].
    unfold validate_intent_hash.
    destruct (partition_for (trk st) (n_expiry n)) as [p| |]; try discriminate.
    destruct (lookup (store st) p (n_hash n)) as [y|] eqn:El; [|apply IH].
    unfold lookup in El. destruct (find (key_eqb p (n_hash n)) (store st)) as [r|] eqn:Ef; [|discriminate].
    injection El as <-. apply find_some in Ef. specialize (Hn r (proj1 Ef)).
    destruct (snd r); try discriminate. congruence. }
  destruct x as [sub oc| |]; cbn [do_step].
  - destruct (validate_epoch_range (cur st) (s_start sub) (s_end sub)) as [r|] eqn:Ee.
    { cbn [fst snd]. split; [exact Hn|]. intros k h. unfold validate_epoch_range in Ee.
      destruct (cur st <? s_start sub); [injection Ee as <-; discriminate|].
      destruct (s_end sub <=? cur st); [injection Ee as <-; discriminate|discriminate]. }
    destruct (validate_nulls st (s_nulls sub)) as [|r|] eqn:Ev.
    + destruct oc; cbn [fst snd]; try (split; [exact Hn|intros ? ?; discriminate]).
      * destruct (update_tracker st (cur st) (s_nulls sub) true) eqn:Eu; cbn [fst snd]; [split; [eauto|intros ? ?; discriminate]|split; [exact Hn|intros ? ?; discriminate]].
      * destruct (update_tracker st (cur st) (s_nulls sub) false) eqn:Eu; cbn [fst snd]; [split; [eauto|intros ? ?; discriminate]|split; [exact Hn|intros ? ?; discriminate]].
    + cbn [fst snd]. split; [exact Hn|]. intros k h Heq. injection Heq as ->. exact (Hv _ k h Ev).
    + cbn [fst snd]. split; [exact Hn|intros ? ?; discriminate].
  - destruct (U64_MAX <=? cur st); cbn [fst snd]; [split; [exact Hn|intros ? ?; discriminate]|].
    destruct (update_tracker st (cur st + 1) [] true) eqn:Eu; cbn [fst snd]; [split; [eauto|intros ? ?; discriminate]|split; [exact Hn|intros ? ?; discriminate]].
  - destruct (update_tracker st (cur st) [] true) eqn:Eu; cbn [fst snd]; [split; [eauto|intros ? ?; discriminate]|split; [exact Hn|intros ? ?; discriminate]].
Qed.
