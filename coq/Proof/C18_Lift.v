(* C18 — lifting the tier-level reach / intact / dead theorems to the three-tier store.
   A commit is summarised by `step_facts Q ver ops Rold Rnew`: Q = path prefix of the tier instance,
   ops = the store operations in the order they are issued, Rold / Rnew = keys the old / new root of
   the instance refers to (through all lower tiers). *)
From Coq Require Import List NArith Bool Lia Arith.
Import ListNotations.
Require Import RV.Model.C17_Jmt RV.Model.C17_Smt RV.Model.C18_Store RV.Proof.C17_Base RV.Proof.C17_Lists
               RV.Proof.C17_Update RV.Proof.C17_Tier RV.Proof.C17_Root RV.Proof.C17_Assoc RV.Proof.C17_Compose
               RV.Proof.C18_Store RV.Proof.C18_Reach.
Open Scope N_scope.

Definition gkey (P : list N) (k : skey) : skey := (fst k, P ++ snd k).
Definition kills (op : store_op) (k : skey) : Prop :=
  match op with OpInsert _ _ _ => False | OpStale part => hits part k end.
Definition ins_keys (ops : list store_op) : list skey :=
  flat_map (fun op => match op with OpInsert v p _ => [(v, p)] | _ => [] end) ops.
Definition survives (ops : list store_op) : Prop :=
  forall o1 v p n o2, ops = o1 ++ OpInsert v p n :: o2 -> forall op, In op o2 -> ~ kills op (v, p).
Definition op_ok (Q : list N) (ver : N) (op : store_op) : Prop :=
  match op with
  | OpInsert v p _ => v = ver /\ path_prefix Q p
  | OpStale (StaleNode v p) => v < ver /\ path_prefix Q p
  | OpStale (StaleSubtree v p) => path_prefix Q p
  end.

Record step_facts (Q : list N) (ver : N) (ops : list store_op) (Rold Rnew : list skey) : Prop := mkSF {
  sf_reach : forall k, In k Rnew -> In k (ins_keys ops) \/ (In k Rold /\ forall op, In op ops -> ~ kills op k);
  sf_ops : forall op, In op ops -> op_ok Q ver op;
  sf_surv : survives ops }.

Lemma ins_keys_app : forall a b, ins_keys (a ++ b) = ins_keys a ++ ins_keys b.
Proof. intros. unfold ins_keys. apply flat_map_app. Qed.
Lemma ins_keys_in : forall ops v p, In (v, p) (ins_keys ops) <-> exists n, In (OpInsert v p n) ops.
Proof.
  intros ops v p. unfold ins_keys. rewrite in_flat_map. split.
  - intros (op & Hop & Hin). destruct op as [v' p' n|part]; [|destruct Hin]. destruct Hin as [E|[]]. inversion E; subst. exists n. exact Hop.
  - intros (n & Hop). exists (OpInsert v p n). split; [exact Hop|left; reflexivity].
Qed.

Lemma path_prefix_trans : forall a b c, path_prefix a b -> path_prefix b c -> path_prefix a c.
Proof. intros a b c [r1 E1] [r2 E2]. exists (r1 ++ r2). rewrite E2, E1, app_assoc. reflexivity. Qed.
Lemma path_prefix_app : forall a r, path_prefix a (a ++ r).
Proof. intros. exists r. reflexivity. Qed.
Lemma path_prefix_refl : forall a, path_prefix a a.
Proof. intro a. exists []. symmetry. apply app_nil_r. Qed.

(* an inserted key survives the rest of a list whose stale operations are older / elsewhere *)
Lemma survives_app : forall a b, survives a -> survives b ->
  (forall v p n op, In (OpInsert v p n) a -> In op b -> ~ kills op (v, p)) -> survives (a ++ b).
Proof.
  intros a b Sa Sb Cross o1 v p n o2 E op Hop.
  (* where does the split fall *)
  assert (Split : (exists o2a, a = o1 ++ OpInsert v p n :: o2a /\ o2 = o2a ++ b) \/
                  (exists o1b, o1 = a ++ o1b /\ b = o1b ++ OpInsert v p n :: o2)).
  { clear - E. revert o1 E. induction a as [|x a IH]; intros o1 E.
    - right. exists o1. split; [reflexivity|exact E].
    - destruct o1 as [|y o1].
      + cbn in E. inversion E; subst. left. exists a. split; reflexivity.
      + cbn in E. inversion E; subst. destruct (IH o1 H1) as [(o2a & E1 & E2)|(o1b & E1 & E2)].
        * left. exists o2a. split; [cbn; congruence|exact E2].
        * right. exists o1b. split; [cbn; congruence|exact E2]. }
  destruct Split as [(o2a & Ea & E2)|(o1b & E1 & Eb)].
  - subst o2. apply in_app_or in Hop. destruct Hop as [Hop|Hop].
    + apply (Sa _ _ _ _ _ Ea op Hop).
    + apply (Cross v p n op); [rewrite Ea; apply in_or_app; right; left; reflexivity|exact Hop].
  - apply (Sb _ _ _ _ _ Eb op Hop).
Qed.

Lemma survives_inserts_then_stales : forall ver (ins : list store_op) (sts : list store_op),
  (forall op, In op ins -> exists v p n, op = OpInsert v p n /\ v = ver) ->
  (forall op, In op sts -> exists v p, op = OpStale (StaleNode v p) /\ v < ver) ->
  survives (ins ++ sts).
Proof.
  intros ver ins sts Hi Hs o1 v p n o2 E op Hop.
  assert (Hv : v = ver).
  { assert (Hin : In (OpInsert v p n) (ins ++ sts)) by (rewrite E; apply in_or_app; right; left; reflexivity).
    apply in_app_or in Hin. destruct Hin as [Hin|Hin].
    - destruct (Hi _ Hin) as (v' & p' & n' & E1 & E2). inversion E1; subst. reflexivity.
    - destruct (Hs _ Hin) as (v' & p' & E1 & _). discriminate. }
  assert (Hin : In op (ins ++ sts)) by (rewrite E; apply in_or_app; right; right; exact Hop).
  apply in_app_or in Hin. destruct Hin as [Hin|Hin].
  - destruct (Hi _ Hin) as (v' & p' & n' & E1 & _). subst op. cbn. tauto.
  - destruct (Hs _ Hin) as (v' & p' & E1 & Lt). subst op. cbn. intro Ek. inversion Ek. lia.
Qed.

(* ---------- what apply_ops does to a key ---------- *)
Lemma apply_ops_total : forall ops ts, exists ts', apply_ops ts ops = Ok ts' /\ ts_pruning ts' = ts_pruning ts.
Proof.
  induction ops as [|op ops IH]; intro ts; [exists ts; split; reflexivity|].
  cbn [apply_ops]. destruct op as [v p n|part]; cbn [apply_op].
  - destruct (IH (mkTStore (st_insert (v, p) n (ts_nodes ts)) (ts_stale ts) (ts_pruning ts))) as (ts' & E & P). exists ts'. split; [exact E|exact P].
  - destruct (ts_pruning ts) eqn:Pr.
    + destruct part as [v p|v p].
      * destruct (IH (mkTStore (st_remove (v, p) (ts_nodes ts)) (ts_stale ts) true)) as (ts' & E & P). exists ts'. split; [exact E|exact P].
      * assert (Fuel : exists s, prune_subtree (prune_fuel (ts_nodes ts)) [(v, p)] (ts_nodes ts) = Ok s).
        { apply prune_subtree_fuel_ok. }
        destruct Fuel as [s Es]. rewrite Es. destruct (IH (mkTStore s (ts_stale ts) true)) as (ts' & E & P). exists ts'. split; [exact E|exact P].
    + destruct (IH (mkTStore (ts_nodes ts) (ts_stale ts ++ [part]) false)) as (ts' & E & P). exists ts'. split; [exact E|exact P].
Qed.
