(* C18 — lifting the tier-level reach / intact / dead theorems to the three-tier store.
   A commit is summarised by `step_facts Q ver ops Rold Rnew`: Q = path prefix of the tier instance,
   ops = the store operations in the order they are issued, Rold / Rnew = keys the old / new root of
   the instance refers to (through all lower tiers). *)
From Coq Require Import List NArith Bool Lia Arith.
Import ListNotations.
Require Import RV.Model.C17_Jmt RV.Model.C17_Smt RV.Model.C18_Store RV.Proof.C17_Base RV.Proof.C17_Lists
               RV.Proof.C17_Update RV.Proof.C17_Tier RV.Proof.C17_Root RV.Proof.C17_Assoc RV.Proof.C17_Compose
               RV.Proof.C18_Store RV.Proof.C18_Reach.
Open Scope N_scope.

Definition gkey (P : list N) (k : skey) : skey := (fst k, P ++ snd k).
Definition kills (op : store_op) (k : skey) : Prop :=
  match op with OpInsert _ _ _ => False | OpStale part => hits part k end.
Definition ins_keys (ops : list store_op) : list skey :=
  flat_map (fun op => match op with OpInsert v p _ => [(v, p)] | _ => [] end) ops.
Definition survives (ops : list store_op) : Prop :=
  forall o1 v p n o2, ops = o1 ++ OpInsert v p n :: o2 -> forall op, In op o2 -> ~ kills op (v, p).
Definition op_ok (Q : list N) (ver : N) (op : store_op) : Prop :=
  match op with
  | OpInsert v p _ => v = ver /\ path_prefix Q p
  | OpStale (StaleNode v p) => v < ver /\ path_prefix Q p
  | OpStale (StaleSubtree v p) => path_prefix Q p
  end.

Record step_facts (Q : list N) (ver : N) (ops : list store_op) (Rold Rnew : list skey) : Prop := mkSF {
  sf_reach : forall k, In k Rnew -> In k (ins_keys ops) \/ (In k Rold /\ forall op, In op ops -> ~ kills op k);
  sf_ops : forall op, In op ops -> op_ok Q ver op;
  sf_surv : survives ops }.

Lemma ins_keys_app : forall a b, ins_keys (a ++ b) = ins_keys a ++ ins_keys b.
Proof. intros. unfold ins_keys. apply flat_map_app. Qed.
Lemma ins_keys_in : forall ops v p, In (v, p) (ins_keys ops) <-> exists n, In (OpInsert v p n) ops.
Proof.
  intros ops v p. unfold ins_keys. rewrite in_flat_map. split.
  - intros (op & Hop & Hin). destruct op as [v' p' n|part]; [|destruct Hin]. destruct Hin as [E|[]]. inversion E; subst. exists n. exact Hop.
  - intros (n & Hop). exists (OpInsert v p n). split; [exact Hop|left; reflexivity].
Qed.

Lemma path_prefix_trans : forall a b c, path_prefix a b -> path_prefix b c -> path_prefix a c.
Proof. intros a b c [r1 E1] [r2 E2]. exists (r1 ++ r2). rewrite E2, E1, app_assoc. reflexivity. Qed.
Lemma path_prefix_app : forall a r, path_prefix a (a ++ r).
Proof. intros. exists r. reflexivity. Qed.
Lemma path_prefix_refl : forall a, path_prefix a a.
Proof. intro a. exists []. symmetry. apply app_nil_r. Qed.

(* an inserted key survives the rest of a list whose stale operations are older / elsewhere *)
Lemma survives_app : forall a b, survives a -> survives b ->
  (forall v p n op, In (OpInsert v p n) a -> In op b -> ~ kills op (v, p)) -> survives (a ++ b).
Proof.
  intros a b Sa Sb Cross o1 v p n o2 E op Hop.
  (* where does the split fall *)
  assert (Split : (exists o2a, a = o1 ++ OpInsert v p n :: o2a /\ o2 = o2a ++ b) \/
                  (exists o1b, o1 = a ++ o1b /\ b = o1b ++ OpInsert v p n :: o2)).
  { clear - E. revert o1 E. induction a as [|x a IH]; intros o1 E.
    - right. exists o1. split; [reflexivity|exact E].
    - destruct o1 as [|y o1].
      + cbn in E. inversion E; subst. left. exists a. split; reflexivity.
      + cbn in E. inversion E; subst. destruct (IH o1 H1) as [(o2a & E1 & E2)|(o1b & E1 & E2)].
        * left. exists o2a. split; [cbn; congruence|exact E2].
        * right. exists o1b. split; [cbn; congruence|exact E2]. }
  destruct Split as [(o2a & Ea & E2)|(o1b & E1 & Eb)].
  - subst o2. apply in_app_or in Hop. destruct Hop as [Hop|Hop].
    + apply (Sa _ _ _ _ _ Ea op Hop).
    + apply (Cross v p n op); [rewrite Ea; apply in_or_app; right; left; reflexivity|exact Hop].
  - apply (Sb _ _ _ _ _ Eb op Hop).
Qed.

Lemma survives_inserts_then_stales : forall ver (ins : list store_op) (sts : list store_op),
  (forall op, In op ins -> exists v p n, op = OpInsert v p n /\ v = ver) ->
  (forall op, In op sts -> exists v p, op = OpStale (StaleNode v p) /\ v < ver) ->
  survives (ins ++ sts).
Proof.
  intros ver ins sts Hi Hs o1 v p n o2 E op Hop.
  assert (Hv : v = ver).
  { assert (Hin : In (OpInsert v p n) (ins ++ sts)) by (rewrite E; apply in_or_app; right; left; reflexivity).
    apply in_app_or in Hin. destruct Hin as [Hin|Hin].
    - destruct (Hi _ Hin) as (v' & p' & n' & E1 & E2). inversion E1; subst. reflexivity.
    - destruct (Hs _ Hin) as (v' & p' & E1 & _). discriminate. }
  assert (Hin : In op (ins ++ sts)) by (rewrite E; apply in_or_app; right; right; exact Hop).
  apply in_app_or in Hin. destruct Hin as [Hin|Hin].
  - destruct (Hi _ Hin) as (v' & p' & n' & E1 & _). subst op. cbn. tauto.
  - destruct (Hs _ Hin) as (v' & p' & E1 & Lt). subst op. cbn. intro Ek. inversion Ek. lia.
Qed.

(* ---------- what apply_ops does to a key ---------- *)
Lemma apply_ops_total : forall ops ts, exists ts', apply_ops ts ops = Ok ts' /\ ts_pruning ts' = ts_pruning ts.
Proof.
  induction ops as [|op ops IH]; intro ts; [exists ts; split; reflexivity|].
  cbn [apply_ops]. destruct op as [v p n|part]; cbn [apply_op].
  - destruct (IH (mkTStore (st_insert (v, p) n (ts_nodes ts)) (ts_stale ts) (ts_pruning ts))) as (ts' & E & P). exists ts'. split; [exact E|exact P].
  - destruct (ts_pruning ts) eqn:Pr.
    + destruct part as [v p|v p].
      * destruct (IH (mkTStore (st_remove (v, p) (ts_nodes ts)) (ts_stale ts) true)) as (ts' & E & P). exists ts'. split; [exact E|exact P].
      * assert (Fuel : exists s, prune_subtree (prune_fuel (ts_nodes ts)) [(v, p)] (ts_nodes ts) = Ok s).
        { apply prune_subtree_fuel_ok. }
        destruct Fuel as [s Es]. rewrite Es. destruct (IH (mkTStore s (ts_stale ts) true)) as (ts' & E & P). exists ts'. split; [exact E|exact P].
    + destruct (IH (mkTStore (ts_nodes ts) (ts_stale ts ++ [part]) false)) as (ts' & E & P). exists ts'. split; [exact E|exact P].
Qed.

Lemma apply_ops_app' : forall o1 o2 ts, apply_ops ts (o1 ++ o2) =
  match apply_ops ts o1 with Ok ts1 => apply_ops ts1 o2 | Panic => Panic | OutOfFuel => OutOfFuel end.
Proof.
  induction o1 as [|op o1 IH]; intros o2 ts; [reflexivity|]. cbn [app apply_ops].
  destruct (apply_op ts op); [apply IH|reflexivity|reflexivity].
Qed.

(* a stored node that no later operation kills is still stored *)
Lemma keep_alive : forall ops ts ts' k, apply_ops ts ops = Ok ts' ->
  st_get k (ts_nodes ts) <> None -> (forall op, In op ops -> ~ kills op k) -> st_get k (ts_nodes ts') <> None.
Proof.
  induction ops as [|op ops IH]; intros ts ts' k E Hk NK; cbn [apply_ops] in E; [inversion E; subst; exact Hk|].
  destruct (apply_op ts op) as [t1| |] eqn:E1; try discriminate.
  apply (IH t1 ts' k E); [|intros o Ho; apply NK; right; exact Ho].
  pose proof (NK op (or_introl eq_refl)) as N0. destruct op as [v p n|part]; cbn [apply_op] in E1.
  - inversion E1; subst. cbn [ts_nodes]. rewrite st_get_insert. destruct (skey_eqb k (v, p)); [discriminate|exact Hk].
  - destruct (ts_pruning ts).
    + destruct part as [v p|v p]; cbn [kills hits] in N0.
      * inversion E1; subst. cbn [ts_nodes]. rewrite st_get_remove.
        destruct (skey_eqb (v, p) k) eqn:E0; [apply skey_eqb_eq in E0; symmetry in E0; contradiction|exact Hk].
      * destruct (prune_subtree (prune_fuel (ts_nodes ts)) [(v, p)] (ts_nodes ts)) as [s1| |] eqn:E2; try discriminate.
        inversion E1; subst. cbn [ts_nodes].
        assert (Q : Forall (fun k0 : skey => path_prefix p (snd k0)) [(v, p)]).
        { constructor; [exists []; cbn [snd]; rewrite app_nil_r; reflexivity|constructor]. }
        rewrite (prune_subtree_local p _ _ _ _ Q E2 k N0). exact Hk.
    + inversion E1; subst. exact Hk.
Qed.

Lemma inserted_alive : forall ops ts ts' v p, apply_ops ts ops = Ok ts' -> survives ops ->
  In (v, p) (ins_keys ops) -> st_get (v, p) (ts_nodes ts') <> None.
Proof.
  intros ops ts ts' v p E S Hin. apply ins_keys_in in Hin. destruct Hin as [n Hin].
  apply in_split in Hin. destruct Hin as (o1 & o2 & Eo). subst ops.
  rewrite apply_ops_app' in E. destruct (apply_ops ts o1) as [t1| |]; try discriminate.
  cbn [apply_ops apply_op] in E.
  apply (keep_alive o2 _ ts' (v, p) E).
  - cbn [ts_nodes]. rewrite st_get_insert, skey_eqb_refl. discriminate.
  - intros op Hop. apply (S o1 v p n o2 eq_refl op Hop).
Qed.

(* C18_current_tree_intact, one commit, from the summary of the commit *)
Theorem facts_intact : forall Q ver ops Rold Rnew ts ts',
  step_facts Q ver ops Rold Rnew -> apply_ops ts ops = Ok ts' ->
  (forall k, In k Rold -> st_get k (ts_nodes ts) <> None) ->
  forall k, In k Rnew -> st_get k (ts_nodes ts') <> None.
Proof.
  intros Q ver ops Rold Rnew ts ts' F E Stored k Hk.
  destruct (sf_reach _ _ _ _ _ F k Hk) as [Hi|[Ho NK]].
  - destruct k as [v p]. apply (inserted_alive ops ts ts' v p E (sf_surv _ _ _ _ _ F) Hi).
  - apply (keep_alive ops ts ts' k E (Stored k Ho) NK).
Qed.

(* C18_stale_dead_forever, one commit: what the commit kills, and what was dead, is unreachable *)
Theorem facts_dead : forall Q ver ops Rold Rnew (D : list skey) v0,
  step_facts Q ver ops Rold Rnew -> vers_le v0 Rold -> vers_le v0 D -> v0 < ver ->
  (forall k, In k D -> ~ In k Rold) ->
  vers_le ver Rnew /\
  forall k, (In k D \/ (In k Rold /\ exists op, In op ops /\ kills op k)) -> ~ In k Rnew.
Proof.
  intros Q ver ops Rold Rnew D v0 F VR VD Lt Dead.
  assert (InsV : forall k, In k (ins_keys ops) -> fst k = ver).
  { intros [v p] Hk. apply ins_keys_in in Hk. destruct Hk as [n Hn]. apply (sf_ops _ _ _ _ _ F) in Hn. cbn in Hn. apply Hn. }
  split.
  - intros k Hk. destruct (sf_reach _ _ _ _ _ F k Hk) as [Hi|[Ho _]]; [rewrite (InsV k Hi); lia|specialize (VR k Ho); lia].
  - intros k Hd Hn. destruct (sf_reach _ _ _ _ _ F k Hn) as [Hi|[Ho NK]].
    + pose proof (InsV k Hi). assert (fst k <= v0) by (destruct Hd as [Hd|[Hd _]]; [apply VD|apply VR]; exact Hd). lia.
    + destruct Hd as [Hd|[_ (op & Hop & Kop)]]; [apply (Dead k Hd Ho)|apply (NK op Hop Kop)].
Qed.

Lemma gkey_inj : forall P a b, gkey P a = gkey P b -> a = b.
Proof. intros P [v p] [v' p'] E. unfold gkey in E. cbn in E. inversion E. apply app_inv_head in H1. congruence. Qed.

Lemma ins_keys_ops_of_log : forall {A} Q ver (lg : log A),
  ins_keys (ops_of_log Q ver lg) = map (gkey Q) (new_keys A ver lg).
Proof.
  intros A Q ver lg. unfold ops_of_log, new_keys. rewrite ins_keys_app.
  assert (E2 : ins_keys (map (fun vp => OpStale (StaleNode (fst vp) (Q ++ snd vp))) (l_stale lg)) = []).
  { induction (l_stale lg) as [|x l IH]; [reflexivity|exact IH]. }
  rewrite E2, app_nil_r. induction (l_new lg) as [|x l IH]; [reflexivity|]. cbn. rewrite <- IH. reflexivity.
Qed.

Lemma ops_of_log_cases : forall {A} Q ver (lg : log A) op, In op (ops_of_log Q ver lg) ->
  (exists p n, op = OpInsert ver (Q ++ p) n /\ In (ver, p) (new_keys A ver lg)) \/
  (exists v p, op = OpStale (StaleNode v (Q ++ p)) /\ In (v, p) (l_stale lg)).
Proof.
  intros A Q ver lg op Hin. unfold ops_of_log in Hin. apply in_app_or in Hin. destruct Hin as [Hin|Hin].
  - apply in_map_iff in Hin. destruct Hin as ([p n] & E & Hin). left. exists p, (stored n). split; [symmetry; exact E|].
    unfold new_keys. apply in_map_iff. exists (p, n). split; [reflexivity|exact Hin].
  - apply in_map_iff in Hin. destruct Hin as ([v p] & E & Hin). right. exists v, p. split; [symmetry; exact E|exact Hin].
Qed.

Lemma survives_ops_of_log : forall {A} Q ver (lg : log A),
  (forall v p, In (v, p) (l_stale lg) -> v < ver) -> survives (ops_of_log Q ver lg).
Proof.
  intros A Q ver lg Hs. unfold ops_of_log. apply (survives_inserts_then_stales ver).
  - intros op Hin. apply in_map_iff in Hin. destruct Hin as (x & E & _). eexists _, _, _. split; [symmetry; exact E|reflexivity].
  - intros op Hin. apply in_map_iff in Hin. destruct Hin as ([v p] & E & Hin). exists v, (Q ++ p). split; [symmetry; exact E|apply (Hs v p Hin)].
Qed.

Lemma map_flat_map' : forall {X Y Z} (f : Y -> Z) (g : X -> list Y) l,
  map f (flat_map g l) = flat_map (fun x => map f (g x)) l.
Proof. induction l as [|x l IH]; [reflexivity|]. cbn. rewrite map_app, IH. reflexivity. Qed.

Section LIFT.
  Variable H : list N -> list N.
  Variable fuel : nat.
  Hypothesis Hfuel : (0 < fuel)%nat.

  (* ---------- one tier instance at prefix Q, without lower tiers ---------- *)
  Definition Rs {A} (Q : list N) (root : option (N * node A)) : list skey :=
    map (gkey Q) (reach A fuel root).

  Lemma tier_facts : forall A (U : list N -> Prop) Q root ver ups h r lg v0,
    pfree U -> ~ U [] -> ups_ok A U fuel ups -> state_ok H A U fuel root ->
    tier_put H A fuel root ver ups = Ok (h, r, lg) ->
    vers_le v0 (Rs Q root) -> v0 < ver ->
    step_facts Q ver (ops_of_log Q ver lg) (Rs Q root) (Rs Q (Some (ver, r))) /\
    (forall k, In k (l_stale lg) -> In k (reach A fuel root)).
  Proof.
    intros A U Q root ver ups h r lg v0 PF U0 OK SO E VR Lt.
    destruct (tier_reach_step H A fuel root ver ups U h r lg Hfuel PF U0 OK SO E) as (T1 & T2 & T3 & T4).
    assert (SV : forall v p, In (v, p) (l_stale lg) -> v < ver).
    { intros v p Hs. assert (Hin : In (gkey Q (v, p)) (Rs Q root)) by (apply in_map; apply T2; exact Hs).
      specialize (VR _ Hin). cbn in VR. lia. }
    split; [|exact T2]. constructor.
    - intros k Hk. unfold Rs in Hk. apply in_map_iff in Hk. destruct Hk as (k' & Ek & Hk'). subst k.
      destruct (T1 k' Hk') as [Hn|[Ho Hs]].
      + left. rewrite ins_keys_ops_of_log. apply in_map. exact Hn.
      + right. split; [apply in_map; exact Ho|]. intros op Hop Kop.
        destruct (ops_of_log_cases Q ver lg op Hop) as [(p & n & Eop & _)|(v & p & Eop & Hst)]; subst op; cbn in Kop; [exact Kop|].
        apply Hs. assert (k' = (v, p)); [|subst; exact Hst]. apply (gkey_inj Q). exact Kop.
    - intros op Hop. destruct (ops_of_log_cases Q ver lg op Hop) as [(p & n & Eop & _)|(v & p & Eop & Hst)]; subst op; cbn.
      + split; [reflexivity|apply path_prefix_app].
      + split; [apply (SV v p Hst)|apply path_prefix_app].
    - apply survives_ops_of_log. exact SV.
  Qed.

  (* the substate tier (Delta or Reset) *)
  Lemma substate_facts : forall (US : list N -> Prop) Q sroot ver u h r ops v0,
    pfree US -> ~ US [] -> ok_pupd fuel US u -> state_ok H unit US fuel sroot ->
    substate_tier_put H fuel Q sroot ver u = Ok (h, r, ops) ->
    vers_le v0 (Rs Q sroot) -> v0 < ver ->
    step_facts Q ver ops (Rs Q sroot) (Rs Q (Some (ver, r))).
  Proof.
    intros US Q sroot ver u h r ops v0 PF U0 OKu SO E VR Lt. unfold substate_tier_put in E.
    destruct u as [l|l]; cbn [ok_pupd] in OKu; cbv beta iota zeta in E.
    - remember (map (fun ku : list N * option (list N) => (fst ku, match snd ku with Some v => Some (H v, ver, tt) | None => None end)) l) as ups eqn:Eups.
      assert (UO : ups_ok unit US fuel ups).
      { intros x Hx. rewrite Eups in Hx. apply in_map_iff in Hx. destruct Hx as (y & Ey & Hy). subst x. cbn [fst]. apply (OKu y Hy). }
      match type of E with context [tier_put ?a ?b ?c ?d ?e ?f] => destruct (tier_put a b c d e f) as [[[h1 r1] lg]| |] eqn:ET; try discriminate end.
      try rewrite ET in E. inversion E as [[Eh Er Eo]]. clear E. try subst r. try subst ops. cbn [app].
      apply (proj1 (tier_facts unit US Q sroot ver ups _ _ lg v0 PF U0 UO SO ET VR Lt)).
    - remember (map (fun kv : list N * list N => (fst kv, Some (H (snd kv), ver, tt))) l) as ups eqn:Eups.
      assert (UO : ups_ok unit US fuel ups).
      { intros x Hx. rewrite Eups in Hx. apply in_map_iff in Hx. destruct Hx as (y & Ey & Hy). subst x. cbn [fst]. apply (OKu y Hy). }
      match type of E with context [tier_put ?a ?b ?c ?d ?e ?f] => destruct (tier_put a b c d e f) as [[[h1 r1] lg]| |] eqn:ET; try discriminate end.
      try rewrite ET in E. inversion E as [[Eh Er Eo]]. clear E. try subst r. try subst ops.
      assert (SO0 : state_ok H unit US fuel None) by (intros v t E0; discriminate).
      assert (VR0 : vers_le v0 (Rs Q (@None (N * node unit)))) by (intros k []).
      destruct (tier_facts unit US Q None ver ups _ _ lg v0 PF U0 UO SO0 ET VR0 Lt) as [F _].
      match goal with |- step_facts _ _ (?pp ++ _) _ _ => set (pre := pp) end.
      assert (PreNoIns : forall op, In op pre -> exists v1, op = OpStale (StaleSubtree v1 Q)).
      { intros op Hop. unfold pre in Hop. destruct sroot as [[v1 t1]|]; [|destruct Hop]. destruct Hop as [Eo|[]]. exists v1. symmetry. exact Eo. }
      constructor.
      + intros k Hk. destruct (sf_reach _ _ _ _ _ F k Hk) as [Hi|[[] _]]. left. rewrite ins_keys_app. apply in_or_app. right. exact Hi.
      + intros op Hop. apply in_app_or in Hop. destruct Hop as [Hop|Hop].
        * destruct (PreNoIns op Hop) as [v1 Eo]. subst op. cbn. apply path_prefix_refl.
        * apply (sf_ops _ _ _ _ _ F op Hop).
      + apply survives_app.
        * intros o1 v p n o2 Eo. exfalso. assert (Hin : In (OpInsert v p n) pre) by (rewrite Eo; apply in_or_app; right; left; reflexivity).
          destruct (PreNoIns _ Hin) as [v1 E1]. discriminate.
        * apply (sf_surv _ _ _ _ _ F).
        * intros v p n op Hin _. destruct (PreNoIns _ Hin) as [v1 E1]. discriminate.
  Qed.

  (* ---------- paths of different tier instances never meet ---------- *)
  Lemma comparable : forall (a b r1 r2 : list N), a ++ r1 = b ++ r2 -> is_prefix a b \/ is_prefix b a.
  Proof.
    induction a as [|x a IH]; intros b r1 r2 E; [left; exists b; reflexivity|].
    destruct b as [|y b]; [right; exists (x :: a); reflexivity|]. cbn in E. inversion E; subst.
    destruct (IH b r1 r2 H2) as [[c Ec]|[c Ec]]; [left|right]; exists c; cbn; congruence.
  Qed.

  Lemma same_instance : forall (U : list N -> Prop) P x y p, pfree U -> U x -> U y ->
    path_prefix (P ++ x ++ TIER_SEP) p -> path_prefix (P ++ y ++ TIER_SEP) p -> x = y.
  Proof.
    intros U P x y p PF Ux Uy [c1 E1] [c2 E2]. rewrite E1 in E2. rewrite <- !app_assoc in E2. apply app_inv_head in E2.
    destruct (comparable _ _ _ _ E2) as [Pr|Pr]; [apply (PF x y Ux Uy Pr)|symmetry; apply (PF y x Uy Ux Pr)].
  Qed.

  Lemma struct_vs_lower : forall (U : list N -> Prop) P x q, pfree U -> U x ->
    (q = [] \/ exists y, U y /\ is_prefix q y) -> ~ path_prefix (P ++ x ++ TIER_SEP) (P ++ q).
  Proof.
    intros U P x q PF Ux Hq [c E]. rewrite <- !app_assoc in E. apply app_inv_head in E.
    destruct Hq as [Eq|(y & Uy & [e Ey])].
    - subst q. destruct x; discriminate.
    - assert (Pxy : is_prefix x y) by (exists (TIER_SEP ++ c ++ e); rewrite Ey, E, <- !app_assoc; reflexivity).
      pose proof (PF x y Ux Uy Pxy) as Exy.
      assert (L : length y = (length x + 2 + length c + length e)%nat) by (rewrite Ey, E, !app_length; cbn; lia).
      rewrite <- Exy in L. lia.
  Qed.

  (* the path of every node of a tier tree is a prefix of one of its keys *)
  Lemma tkeys_prefix_of_key : forall A n lh path v (t : node A) k,
    good H A n lh t -> In k (tkeys A n path v t) ->
    exists y d r, lookup A n t y = Some d /\ snd k = path ++ r /\ is_prefix r y.
  Proof.
    intros A. induction n as [|n IH]; intros lh path v t k G Hin.
    - destruct t as [|s vh p a|cs]; cbn [good] in G; try contradiction. cbn in Hin. destruct Hin as [E|[]]. subst k.
      exists s, (vh, p, a), []. cbn. rewrite leqb_refl, app_nil_r. repeat split. exists s. reflexivity.
    - destruct (good_has_leaf H A (S n) lh t G) as (y0 & d0 & E0).
      destruct (tkeys_cons A (S n) path v t) as [rr Err]. rewrite Err in Hin. destruct Hin as [E|Hin].
      + subst k. exists y0, d0, []. cbn [snd]. rewrite app_nil_r. repeat split; [exact E0|]. exists y0. reflexivity.
      + destruct t as [|s vh p a|cs]; [cbn in G; contradiction|cbn in Err; inversion Err; subst rr; contradiction|].
        apply good_internal in G. destruct G as (G1 & G2 & _). cbn in Err. inversion Err as [Er]. rewrite <- Er in Hin.
        apply in_flat_map in Hin. destruct Hin as (c & Hc & Hk). rewrite Forall_forall in G2. destruct (G2 c Hc) as (_ & C2 & _).
        destruct (IH _ _ _ _ _ C2 Hk) as (y & d & r & El & Es & Ep).
        exists (c_nib c :: y), d, (c_nib c :: r). split; [|split].
        * rewrite lookup_internal, (cs_find_in_sorted A cs c G1 Hc). exact El.
        * rewrite Es, <- app_assoc. reflexivity.
        * destruct Ep as [e Ee]. exists e. cbn. congruence.
  Qed.

  Lemma kills_below : forall Q ver op k, op_ok Q ver op -> kills op k -> path_prefix Q (snd k).
  Proof.
    intros Q ver op k O K. destruct op as [v p n|[v p|v p]]; cbn in O, K; [contradiction| |].
    - subst k. apply O.
    - eapply path_prefix_trans; [exact O|exact K].
  Qed.
  Lemma op_ok_weaken : forall P Q ver op, path_prefix P Q -> op_ok Q ver op -> op_ok P ver op.
  Proof.
    intros P Q ver op PQ O. destruct op as [v p n|[v p|v p]]; cbn in *.
    - split; [apply O|eapply path_prefix_trans; [exact PQ|apply O]].
    - split; [apply O|eapply path_prefix_trans; [exact PQ|apply O]].
    - eapply path_prefix_trans; [exact PQ|exact O].
  Qed.

  (* ============================ a tier above lower tier instances ============================ *)
  Lemma seqM_inv : forall {X Y} (F : X -> res Y) xs l, seqM F xs = Ok l -> Forall2 (fun x y => F x = Ok y) xs l.
  Proof.
    intros X Y F xs. induction xs as [|x xs IH]; intros l E; cbn [seqM] in E.
    - inversion E. constructor.
    - destruct (F x) as [y| |] eqn:Ex; try discriminate. destruct (seqM F xs) as [ys| |] eqn:Es; try discriminate.
      inversion E; subst. constructor; [exact Ex|apply IH; reflexivity].
  Qed.

  Section UPLIFT.
    Variable A X : Type.
    Variable U : list N -> Prop.
    Hypothesis PFU : pfree U.
    Hypothesis U0 : ~ U [].
    Variable lower : N -> list N -> option (N * A) -> X -> res (option (list N) * A * list store_op).
    Variable okX : X -> Prop.
    Variable LowOK : option (N * A) -> Prop.
    (* keys the lower instance at prefix Q with root (version pv, tree a) refers to *)
    Variable RL : list N -> N -> A -> list skey.
    Hypothesis RL_below : forall Q pv a k, In k (RL Q pv a) -> path_prefix Q (snd k).
    Definition RLo (Q : list N) (sroot : option (N * A)) : list skey :=
      match sroot with Some (pv, a) => RL Q pv a | None => [] end.
    Variable P : list N.      (* prefix of this tier instance *)
    Hypothesis lower_facts : forall ver key sroot x h r ops v0,
      okX x -> LowOK sroot -> lower ver key sroot x = Ok (h, r, ops) ->
      vers_le v0 (RLo (P ++ key ++ TIER_SEP) sroot) -> v0 < ver ->
      step_facts (P ++ key ++ TIER_SEP) ver ops (RLo (P ++ key ++ TIER_SEP) sroot) (RL (P ++ key ++ TIER_SEP) ver r).

    Notation nodeA := (node A).
    Definition leaf_reach (t : nodeA) : list skey :=
      flat_map (fun kd => RL (P ++ fst kd ++ TIER_SEP) (snd (fst (snd kd))) (snd (snd kd))) (leaves A fuel t).
    Definition Rup (root : option (N * nodeA)) : list skey :=
      Rs P root ++ match root with Some (_, t) => leaf_reach t | None => [] end.

    Lemma leaf_reach_in : forall t k, In k (leaf_reach t) <->
      exists y vh pv a, In (y, (vh, pv, a)) (leaves A fuel t) /\ In k (RL (P ++ y ++ TIER_SEP) pv a).
    Proof.
      intros t k. unfold leaf_reach. rewrite in_flat_map. split.
      - intros ([y [[vh pv] a]] & Hin & Hk). exists y, vh, pv, a. split; [exact Hin|exact Hk].
      - intros (y & vh & pv & a & Hin & Hk). exists (y, (vh, pv, a)). split; [exact Hin|exact Hk].
    Qed.

    Lemma ups_last_rel : forall (Rxy : list N * X -> kv A * list store_op -> Prop) xs l,
      Forall2 Rxy xs l -> (forall x y, Rxy x y -> fst (fst y) = fst x) -> NoDup (map fst xs) ->
      forall k, match xfind X k xs with
                | Some x => exists y, In x xs /\ In y l /\ Rxy x y /\ ups_last A k (map fst l) = Some (snd (fst y))
                | None => ups_last A k (map fst l) = None
                end.
    Proof.
      intros Rxy xs l F Hk. induction F as [|x y xs l Qxy F IH]; intros ND k; [reflexivity|].
      inversion ND as [|? ? Hn ND']; subst. specialize (IH ND' k).
      cbn [xfind find map]. pose proof (Hk x y Qxy) as Ek. destruct (fst y) as [ky uy] eqn:Efy. cbn [fst] in Ek. subst ky.
      cbn [ups_last]. destruct (leqb k (fst x)) eqn:E.
      - apply leqb_eq in E. subst k. rewrite (xfind_none X (fst x) xs Hn) in IH. rewrite IH.
        exists y. split; [left; reflexivity|]. split; [left; reflexivity|]. split; [exact Qxy|]. rewrite Efy. reflexivity.
      - fold (xfind X k xs). destruct (xfind X k xs) as [x'|].
        + destruct IH as (y' & Hx' & Hy' & Qy' & E'). exists y'. split; [right; exact Hx'|]. split; [right; exact Hy'|]. split; [exact Qy'|]. rewrite E'. reflexivity.
        + rewrite IH. reflexivity.
    Qed.

    Theorem upper_facts : forall ver root xs h r ops v0,
      xs_ok fuel X okX U xs -> state_ok H A U fuel root ->
      (forall y vh pv a, root_sem A fuel root y = Some (vh, pv, a) -> LowOK (Some (pv, a))) -> LowOK None ->
      upper_put H fuel A X lower ver P root xs = Ok (h, r, ops) ->
      vers_le v0 (Rup root) -> v0 < ver ->
      step_facts P ver ops (Rup root) (Rup (Some (ver, r))).
    Proof.
      intros ver root xs h r ops v0 [NDx OKx] SO LO LO0 E VR Lt.
      unfold upper_put in E.
      destruct (seqM (lower_call fuel A X lower ver root) xs) as [l| |] eqn:El; try discriminate.
      destruct (tier_put H A fuel root ver (map fst l)) as [[[h1 r1] lg]| |] eqn:ET; try discriminate.
      inversion E as [[Eh Er Eo]]. clear E. try subst r1. try subst h1.
      apply seqM_inv in El.
      (* what every lower call did *)
      set (sroot_of := fun x : list N * X =>
             match root with
             | Some (_, t) => match lookup A fuel t (fst x) with Some (_, pv, st) => Some (pv, st) | None => None end
             | None => None end).
      set (Qp := fun key : list N => P ++ key ++ TIER_SEP).
      assert (OldLeaf : forall x pv a, sroot_of x = Some (pv, a) -> exists vh, root_sem A fuel root (fst x) = Some (vh, pv, a)).
      { intros x pv a Es. unfold sroot_of in Es. destruct root as [[v0' t]|]; [|discriminate]. cbn [root_sem].
        destruct (lookup A fuel t (fst x)) as [[[vh pv'] a']|]; [|discriminate]. inversion Es; subst. exists vh. reflexivity. }
      assert (OldSub : forall x k, In k (RLo (Qp (fst x)) (sroot_of x)) -> In k (Rup root)).
      { intros x k Hk. destruct (sroot_of x) as [[pv a]|] eqn:Es; [|destruct Hk]. cbn [RLo] in Hk.
        destruct (OldLeaf x pv a Es) as [vh El0]. destruct root as [[v0' t]|]; [|discriminate]. cbn [root_sem] in El0.
        unfold Rup. apply in_or_app. right. apply leaf_reach_in. exists (fst x), vh, pv, a. split; [|exact Hk].
        destruct (SO v0' t eq_refl) as [[En|G] _]; [subst t; rewrite lookup_null in El0; discriminate|].
        apply (leaves_lookup H A fuel _ t G). exact El0. }
      set (Lx := fun (x : list N * X) (y : kv A * list store_op) =>
             lower_call fuel A X lower ver root x = Ok y /\
             exists h0 r0, fst y = (fst x, match h0 with Some h' => Some (h', ver, r0) | None => None end) /\
                           step_facts (Qp (fst x)) ver (snd y) (RLo (Qp (fst x)) (sroot_of x)) (RL (Qp (fst x)) ver r0)).
      assert (FL : Forall2 Lx xs l).
      { clear - El OKx lower_facts LO LO0 OldLeaf OldSub VR Lt. revert OKx OldSub. induction El as [|x y xs l Exy F IH]; intros OKx OldSub; [constructor|].
        constructor; [|apply IH; [intros x' Hx'; apply OKx; right; exact Hx'|exact OldSub]].
        split; [exact Exy|].
        unfold lower_call in Exy. cbv zeta in Exy. fold (sroot_of x) in Exy.
        destruct (lower ver (fst x) (sroot_of x) (snd x)) as [[[h0 r0] ops0]| |] eqn:E0; try discriminate.
        inversion Exy; subst y. exists h0, r0. split; [reflexivity|]. cbn [snd].
        apply (lower_facts ver (fst x) (sroot_of x) (snd x) h0 r0 ops0 v0); try assumption.
        - apply (OKx x (or_introl eq_refl)).
        - destruct (sroot_of x) as [[pv a]|] eqn:Es; [|exact LO0]. destruct (OldLeaf x pv a Es) as [vh E1]. apply (LO _ _ _ _ E1).
        - intros k Hk. apply VR. apply (OldSub x k Hk). }
      assert (Lfst : forall x y, Lx x y -> fst (fst y) = fst x) by (intros x y (_ & h0 & r0 & Ey & _); rewrite Ey; reflexivity).
      (* this tier *)
      assert (UO : ups_ok A U fuel (map fst l)).
      { intros u Hu. apply in_map_iff in Hu. destruct Hu as (y & Ey & Hy). subst u.
        destruct (Forall2_in_r _ _ _ FL y Hy) as (x & Hx & Lxy). rewrite (Lfst x y Lxy). apply (OKx x Hx). }
      destruct (tier_step H A fuel root ver (map fst l) U Hfuel PFU U0 UO SO) as (hh & rr & lg' & E' & S1 & S2 & _).
      rewrite ET in E'. inversion E'; subst hh rr lg'. clear E'.
      assert (VRs : vers_le v0 (Rs P root)) by (intros k Hk; apply VR; unfold Rup; apply in_or_app; left; exact Hk).
      destruct (tier_facts A U P root ver (map fst l) h r lg v0 PFU U0 UO SO ET VRs Lt) as [FT StaleOld].
      (* every lower operation lies below its own instance prefix *)
      assert (LowOps : forall op, In op (flat_map snd l) -> exists x y, In x xs /\ In y l /\ Lx x y /\ In op (snd y)).
      { intros op Hop. apply in_flat_map in Hop. destruct Hop as (y & Hy & Hop).
        destruct (Forall2_in_r _ _ _ FL y Hy) as (x & Hx & Lxy). exists x, y. split; [exact Hx|split; [exact Hy|split; [exact Lxy|exact Hop]]]. }
      (* structure keys of the old tree are not below any lower instance of an updated key *)
      assert (StructFree : forall k x, In k (Rs P root) -> In x xs -> ~ path_prefix (Qp (fst x)) (snd k)).
      { intros k x Hk Hx. unfold Rs in Hk. apply in_map_iff in Hk. destruct Hk as (k' & Ek & Hk'). subst k. cbn [gkey snd].
        apply (struct_vs_lower U P (fst x) (snd k') PFU); [apply (OKx x Hx)|].
        destruct root as [[v0' t]|]; [|destruct Hk']. cbn [reach] in Hk'.
        destruct (SO v0' t eq_refl) as [[En|G] TO].
        - subst t. left. destruct fuel; cbn in Hk'; destruct Hk' as [Ek|[]]; subst k'; reflexivity.
        - destruct (tkeys_prefix_of_key A fuel _ [] v0' t k' G Hk') as (y & d & rr & Ely & Es & Ep). cbn [app] in Es. rewrite Es.
          right. exists y. split; [apply (TO y d Ely)|exact Ep]. }
      (* a key below the instance of leaf y is not killed by this tier's own operations nor by the
         lower operations of another key *)
      assert (OwnFree : forall k y op, U y -> path_prefix (Qp y) (snd k) -> In op (ops_of_log P ver lg) -> ~ kills op k).
      { intros k y op Uy Bk Hop Kop.
        destruct (ops_of_log_cases P ver lg op Hop) as [(p & n & Eop & _)|(v & p & Eop & Hst)]; subst op; cbn in Kop; [exact Kop|].
        assert (Hin : In (gkey P (v, p)) (Rs P root)) by (apply in_map; apply StaleOld; exact Hst).
        subst k. cbn [snd] in Bk.
        unfold Rs in Hin. apply in_map_iff in Hin. destruct Hin as (k' & Ek & Hk'). apply gkey_inj in Ek. subst k'.
        revert Bk. apply (struct_vs_lower U P y p PFU Uy).
        destruct root as [[v0' t]|]; [|destruct Hk']. cbn [reach] in Hk'.
        destruct (SO v0' t eq_refl) as [[En|G] TO].
        - subst t. left. destruct fuel; cbn in Hk'; destruct Hk' as [Ek|[]]; inversion Ek; reflexivity.
        - destruct (tkeys_prefix_of_key A fuel _ [] v0' t (v, p) G Hk') as (y' & d & rr & Ely & Es & Ep). cbn [app snd] in Es. rewrite Es.
          right. exists y'. split; [apply (TO y' d Ely)|exact Ep]. }
      assert (OtherFree : forall k y x yy op, U y -> path_prefix (Qp y) (snd k) -> In x xs -> Lx x yy -> In op (snd yy) ->
                kills op k -> fst x = y).
      { intros k y x yy op Uy Bk Hx (_ & h0 & r0 & _ & F0) Hop Kop.
        pose proof (kills_below _ _ _ _ (sf_ops _ _ _ _ _ F0 op Hop) Kop) as Bx.
        apply (same_instance U P (fst x) y (snd k) PFU); [apply (OKx x Hx)|exact Uy|exact Bx|exact Bk]. }
      subst ops. constructor.
      - (* reach *)
        intros k Hk. unfold Rup in Hk. apply in_app_or in Hk. destruct Hk as [Hk|Hk].
        + (* a structure node of this tier *)
          destruct (sf_reach _ _ _ _ _ FT k Hk) as [Hi|[Ho NK]].
          * left. rewrite ins_keys_app. apply in_or_app. right. exact Hi.
          * right. split; [unfold Rup; apply in_or_app; left; exact Ho|].
            intros op Hop. apply in_app_or in Hop. destruct Hop as [Hop|Hop]; [|apply NK; exact Hop].
            intro Kop. destruct (LowOps op Hop) as (x & y & Hx & Hy & (_ & h0 & r0 & Ey & F0) & Hop').
            apply (StructFree k x Ho Hx). apply (kills_below _ _ _ _ (sf_ops _ _ _ _ _ F0 op Hop') Kop).
        + (* a node of a lower instance hanging under leaf y of the new tree *)
          apply leaf_reach_in in Hk. destruct Hk as (y & vh & pv & a & Hleaf & Hk).
          assert (Gr : good H A fuel (lh_root H) r).
          { destruct (S1 ver r eq_refl) as [[En|G] _]; [|exact G]. subst r. destruct fuel; destruct Hleaf. }
          apply (leaves_lookup H A fuel _ r Gr) in Hleaf. rewrite S2 in Hleaf. unfold apply_batch in Hleaf.
          assert (Uy : U y).
          { destruct (S1 ver r eq_refl) as [_ TO]. apply (TO y (vh, pv, a)). rewrite S2. exact Hleaf. }
          pose proof (RL_below _ _ _ _ Hk) as Bk.
          pose proof (ups_last_rel Lx xs l FL Lfst NDx y) as UL.
          destruct (xfind X y xs) as [x|] eqn:Ef.
          * destruct UL as (yy & Hx & Hyy & Lxy & EL). rewrite EL in Hleaf.
            assert (Ey : y = fst x).
            { unfold xfind in Ef. apply find_some in Ef. destruct Ef as [_ Ef]. apply leqb_eq in Ef. exact Ef. }
            destruct Lxy as (Ecall & h0 & r0 & Efy & F0). rewrite Efy in Hleaf. cbn [snd] in Hleaf.
            destruct h0 as [h'|]; [|discriminate]. inversion Hleaf; subst vh pv a. subst y.
            destruct (sf_reach _ _ _ _ _ F0 k Hk) as [Hi|[Ho NK]].
            -- left. rewrite ins_keys_app. apply in_or_app. left. unfold ins_keys in *. apply in_flat_map in Hi. destruct Hi as (op & Hop & Hin).
               apply in_flat_map. exists op. split; [apply in_flat_map; exists yy; split; assumption|exact Hin].
            -- right. split; [apply (OldSub x k Ho)|].
               intros op Hop. apply in_app_or in Hop. destruct Hop as [Hop|Hop].
               ++ intro Kop. destruct (LowOps op Hop) as (x2 & y2 & Hx2 & Hy2 & Lx2 & Hop2).
                  pose proof (OtherFree k (fst x) x2 y2 op Uy Bk Hx2 Lx2 Hop2 Kop) as Exx.
                  (* same key => same list element (NoDup) => same lower result *)
                  assert (x2 = x).
                  { clear - NDx Hx Hx2 Exx. induction xs as [|z zs IHz]; [destruct Hx|]. cbn in NDx. inversion NDx; subst.
                    destruct Hx as [Ez|Hx]; destruct Hx2 as [Ez2|Hx2].
                    - congruence.
                    - subst z. exfalso. apply H1. rewrite <- Exx. apply in_map. exact Hx2.
                    - subst z. exfalso. apply H1. rewrite Exx. apply in_map. exact Hx.
                    - apply IHz; assumption. }
                  subst x2.
                  assert (y2 = yy) by (destruct Lx2 as [Ec2 _]; congruence).
                  subst y2. apply (NK op Hop2 Kop).
               ++ apply (OwnFree k (fst x) op Uy Bk Hop).
          * (* the leaf was not touched *)
            rewrite UL in Hleaf. right. split.
            -- unfold Rup. apply in_or_app. right. destruct root as [[v0' t]|]; [|discriminate]. cbn [root_sem] in Hleaf.
               apply leaf_reach_in. exists y, vh, pv, a. split; [|exact Hk].
               destruct (SO v0' t eq_refl) as [[En|G] _]; [subst t; rewrite lookup_null in Hleaf; discriminate|].
               apply (leaves_lookup H A fuel _ t G). exact Hleaf.
            -- intros op Hop. apply in_app_or in Hop. destruct Hop as [Hop|Hop]; [|apply (OwnFree k y op Uy Bk Hop)].
               intro Kop. destruct (LowOps op Hop) as (x2 & y2 & Hx2 & Hy2 & Lx2 & Hop2).
               pose proof (OtherFree k y x2 y2 op Uy Bk Hx2 Lx2 Hop2 Kop) as Exx.
               assert (Hn : xfind X y xs <> None).
               { unfold xfind. intro En. pose proof (find_none _ _ En x2 Hx2) as Fn. cbn in Fn. rewrite Exx, leqb_refl in Fn. discriminate. }
               apply Hn. exact Ef.
      - (* operations *)
        intros op Hop. apply in_app_or in Hop. destruct Hop as [Hop|Hop]; [|apply (sf_ops _ _ _ _ _ FT op Hop)].
        destruct (LowOps op Hop) as (x & y & Hx & Hy & (_ & h0 & r0 & Ey & F0) & Hop').
        apply (op_ok_weaken P (Qp (fst x))); [unfold Qp; apply path_prefix_app|apply (sf_ops _ _ _ _ _ F0 op Hop')].
      - (* inserted nodes survive *)
        apply survives_app; [|apply (sf_surv _ _ _ _ _ FT)|].
        + clear - FL NDx OKx PFU Lfst. revert NDx OKx. induction FL as [|x y xs l Lxy F IH]; intros NDx OKx; [intros o1 v p n o2 Eo; destruct o1; discriminate|].
          cbn [flat_map]. inversion NDx as [|? ? Hn ND']; subst.
          apply survives_app; [destruct Lxy as (_ & h0 & r0 & _ & F0); apply (sf_surv _ _ _ _ _ F0)|apply IH; [exact ND'|intros x' Hx'; apply OKx; right; exact Hx']|].
          intros v p n op Hins Hop Kop. destruct Lxy as (_ & h0 & r0 & _ & F0).
          pose proof (sf_ops _ _ _ _ _ F0 _ Hins) as Oi. cbn in Oi. destruct Oi as [_ Bi].
          apply in_flat_map in Hop. destruct Hop as (y2 & Hy2 & Hop2). destruct (Forall2_in_r _ _ _ F y2 Hy2) as (x2 & Hx2 & (_ & h2 & r2 & _ & F2)).
          pose proof (kills_below _ _ _ _ (sf_ops _ _ _ _ _ F2 op Hop2) Kop) as B2. cbn [snd] in B2.
          apply Hn. assert (Efx : fst x2 = fst x); [|rewrite <- Efx; apply in_map; exact Hx2].
          apply (same_instance U P (fst x2) (fst x) p PFU); [apply (OKx x2 (or_intror Hx2))|apply (OKx x (or_introl eq_refl))|exact B2|exact Bi].
        + intros v p n op Hins Hop Kop.
          destruct (LowOps _ Hins) as (x & y & Hx & Hy & (_ & h0 & r0 & Ey & F0) & Hop').
          pose proof (sf_ops _ _ _ _ _ F0 _ Hop') as Oi. cbn in Oi. destruct Oi as [Ev _].
          destruct (ops_of_log_cases P ver lg op Hop) as [(p' & n' & Eop & _)|(v' & p' & Eop & Hst)]; subst op; cbn in Kop; [exact Kop|].
          pose proof (sf_ops _ _ _ _ _ FT _ Hop) as Os. cbn in Os. destruct Os as [Lv _]. inversion Kop. lia.
    Qed.
  End UPLIFT.

  (* ============================ the three tiers ============================ *)
  Section DB3.
    Variables US UP UE : list N -> Prop.
    Hypothesis PFS : pfree US. Hypothesis US0 : ~ US [].
    Hypothesis PFP : pfree UP. Hypothesis UP0 : ~ UP [].
    Hypothesis PFE : pfree UE. Hypothesis UE0 : ~ UE [].

    (* substate tier instance at prefix Q *)
    Definition RLs (Q : list N) (pv : N) (a : snodeT) : list skey := Rs Q (Some (pv, a)).
    Definition LowOKs (sroot : option (N * snodeT)) : Prop := state_ok H unit US fuel sroot.

    Lemma RLs_below : forall Q pv a k, In k (RLs Q pv a) -> path_prefix Q (snd k).
    Proof. intros Q pv a k Hk. unfold RLs, Rs in Hk. apply in_map_iff in Hk. destruct Hk as (k' & E & _). subst k. apply path_prefix_app. Qed.

    Lemma RLo_s : forall Q sroot, RLo snodeT RLs Q sroot = Rs Q sroot.
    Proof. intros Q [[pv a]|]; reflexivity. Qed.

    (* partition tier instance of entity ek (prefix ek ++ SEP) *)
    Definition RLp (Q : list N) (pv : N) (pt : pnodeT) : list skey := Rup snodeT RLs Q (Some (pv, pt)).
    Definition LowOKp (proot : option (N * pnodeT)) : Prop :=
      state_ok H snodeT UP fuel proot /\
      forall y vh pv a, root_sem snodeT fuel proot y = Some (vh, pv, a) -> LowOKs (Some (pv, a)).

    Lemma Rup_below : forall A (RL : list N -> N -> A -> list skey),
      (forall Q pv a k, In k (RL Q pv a) -> path_prefix Q (snd k)) ->
      forall P root k, In k (Rup A RL P root) -> path_prefix P (snd k).
    Proof.
      intros A RL Hb P root k Hk. unfold Rup in Hk. apply in_app_or in Hk. destruct Hk as [Hk|Hk].
      - unfold Rs in Hk. apply in_map_iff in Hk. destruct Hk as (k' & E & _). subst k. apply path_prefix_app.
      - destruct root as [[v t]|]; [|destruct Hk]. apply leaf_reach_in in Hk. destruct Hk as (y & vh & pv & a & _ & Hk).
        eapply path_prefix_trans; [|apply (Hb _ _ _ _ Hk)]. apply path_prefix_app.
    Qed.
    Lemma RLp_below : forall Q pv a k, In k (RLp Q pv a) -> path_prefix Q (snd k).
    Proof. intros Q pv a k Hk. apply (Rup_below snodeT RLs RLs_below Q _ k Hk). Qed.

    Lemma partition_facts : forall ek proot ver pus h r ops v0,
      ok_eupd fuel US UP pus -> LowOKp proot ->
      partition_tier_put H fuel ek proot ver pus = Ok (h, r, ops) ->
      vers_le v0 (RLo pnodeT RLp (ek ++ TIER_SEP) proot) -> v0 < ver ->
      step_facts (ek ++ TIER_SEP) ver ops (RLo pnodeT RLp (ek ++ TIER_SEP) proot) (RLp (ek ++ TIER_SEP) ver r).
    Proof.
      intros ek proot ver pus h r ops v0 OKp [SOp LOp] E VR Lt.
      rewrite partition_put_is_upper in E.
      assert (EQ : RLo pnodeT RLp (ek ++ TIER_SEP) proot = Rup snodeT RLs (ek ++ TIER_SEP) proot).
      { destruct proot as [[pv pt]|]; reflexivity. }
      rewrite EQ in *. unfold RLp.
      apply (upper_facts snodeT pupdate UP PFP UP0
               (fun ver key sroot u => substate_tier_put H fuel ((ek ++ TIER_SEP) ++ key ++ TIER_SEP) sroot ver u)
               (ok_pupd fuel US) LowOKs RLs RLs_below (ek ++ TIER_SEP)) with (xs := pus) (h := h) (v0 := v0); try assumption.
      - intros ver' key sroot x h' r' ops' v0' Ox LO El VR' Lt'. rewrite RLo_s in *.
        apply (substate_facts US _ sroot ver' x h' r' ops' v0' PFS US0 Ox LO El VR' Lt').
      - intros v t E0. discriminate.
    Qed.

    (* the entity tier = the whole store *)
    Definition reach_db (st : tree_state) : list skey := Rup pnodeT RLp [] st.

    Definition LowOKe (st : tree_state) : Prop :=
      state_ok H pnodeT UE fuel st /\
      forall y vh pv a, root_sem pnodeT fuel st y = Some (vh, pv, a) -> LowOKp (Some (pv, a)).

    Lemma entity_facts : forall st ver eus h r ops v0,
      ok_commit fuel US UP UE eus -> LowOKe st ->
      entity_tier_put H fuel st ver eus = Ok (h, r, ops) ->
      vers_le v0 (reach_db st) -> v0 < ver ->
      step_facts [] ver ops (reach_db st) (reach_db (Some (ver, r))).
    Proof.
      intros st ver eus h r ops v0 OKc [SOe LOe] E VR Lt. rewrite entity_put_is_upper in E. unfold reach_db in *.
      apply (upper_facts pnodeT (list (list N * pupdate)) UE PFE UE0
               (fun ver key proot pus => partition_tier_put H fuel key proot ver pus)
               (ok_eupd fuel US UP) LowOKp RLp RLp_below []) with (xs := eus) (h := h) (v0 := v0); try assumption.
      - intros ver' key proot x h' r' ops' v0' Ox LO El VR' Lt'. cbn [app] in *.
        apply (partition_facts key proot ver' x h' r' ops' v0' Ox LO El VR' Lt').
      - split; [intros v t E0; discriminate|]. intros y vh pv a E0. discriminate.
    Qed.

    (* the C17 invariant provides the well-formedness of all lower tiers *)
    Lemma db_rel_low : forall st d, db_rel H fuel US UP UE st d -> LowOKe st.
    Proof.
      intros st d DR. unfold db_rel in DR. destruct st as [[v t]|].
      - destruct DR as (_ & RO & TO & Rel). split.
        + intros v' t' E0. inversion E0; subst. split; assumption.
        + intros y vh pv a Ey. cbn [root_sem] in Ey. specialize (Rel y). rewrite Ey in Rel.
          match type of Rel with match ?m with _ => _ end => destruct m as [e|] end; [|exact (False_ind _ Rel)]. destruct Rel as ((_ & ROp & TOp & Relp) & _ & _).
          split.
          * intros v' t' E0. inversion E0; subst. split; assumption.
          * intros y2 vh2 pv2 a2 Ey2. cbn [root_sem] in Ey2. specialize (Relp y2). rewrite Ey2 in Relp.
            match type of Relp with match ?m with _ => _ end => destruct m as [p|] end; [|exact (False_ind _ Relp)]. destruct Relp as ((_ & ROs & TOs & _) & _ & _).
            intros v' t' E0. inversion E0; subst. split; assumption.
      - split; [intros v t E0; discriminate|]. intros y vh pv a E0. discriminate.
    Qed.

    Definition ver_of (st : tree_state) : N := match st with Some (v, _) => v | None => 0 end.

    (* C18_reach_step for the whole store: one commit of put_at_next_version *)
    Theorem commit_facts : forall st d u,
      (forall x, H x <> ZERO_HASH) ->
      db_rel H fuel US UP UE st d -> ok_commit fuel US UP UE u -> vers_le (ver_of st) (reach_db st) ->
      exists root st' ops, put_at_next_version H fuel st u = Ok (root, st', ops) /\
        db_rel H fuel US UP UE st' (apply_commit d u) /\
        ver_of st' = ver_of st + 1 /\
        step_facts [] (ver_of st + 1) ops (reach_db st) (reach_db st').
    Proof.
      intros st d u HZ DR OKu VR.
      destruct (commit_ok H fuel Hfuel HZ US UP UE PFS US0 PFP UP0 PFE UE0 st d u DR OKu) as (st' & ops & E & DR').
      exists (db_root H fuel (apply_commit d u)), st', ops. split; [exact E|]. split; [exact DR'|].
      unfold put_at_next_version in E.
      assert (Ev : match st with Some (v, _) => v + 1 | None => 1 end = ver_of st + 1) by (destruct st as [[v t]|]; reflexivity).
      rewrite Ev in E.
      destruct (entity_tier_put H fuel st (ver_of st + 1) u) as [[[h r] ops0]| |] eqn:EE; try discriminate.
      inversion E; subst st' ops0. split; [reflexivity|].
      apply (entity_facts st (ver_of st + 1) u h r ops (ver_of st) OKu (db_rel_low st d DR) EE VR). lia.
    Qed.

  (* ---------- the keys of Model/C18_Store.reachable ---------- *)
  Lemma flatten_keys : forall A (sub : list N -> N -> A -> list (skey * snode)) n prefix path ver (t : node A) k,
    In k (map fst (flatten A sub n prefix path ver t)) <->
    In k (map (gkey prefix) (tkeys A n path ver t)) \/
    exists s vh pv a, In (s, (vh, pv, a)) (leaves A n t) /\ In k (map fst (sub (path ++ s) pv a)).
  Proof.
    intros A sub. induction n as [|n IH]; intros prefix path ver t k.
    - destruct t as [|s vh pv a|cs]; cbn [flatten tkeys leaves map fst gkey snd].
      + split; [intros [E|[]]; left; left; exact E|intros [[E|[]]|(s & vh & pv & a & [] & _)]; left; exact E].
      + split.
        * intros [E|Hin]; [left; left; exact E|right; exists s, vh, pv, a; split; [left; reflexivity|exact Hin]].
        * intros [[E|[]]|(s' & vh' & pv' & a' & [E|[]] & Hin)]; [left; exact E|inversion E; subst; right; exact Hin].
      + split; [intros [E|[]]; left; left; exact E|intros [[E|[]]|(s & vh & pv & a & [] & _)]; left; exact E].
    - destruct t as [|s vh pv a|cs]; cbn [flatten tkeys leaves map fst gkey snd].
      + split; [intros [E|[]]; left; left; exact E|intros [[E|[]]|(s & vh & pv & a & [] & _)]; left; exact E].
      + split.
        * intros [E|Hin]; [left; left; exact E|right; exists s, vh, pv, a; split; [left; reflexivity|exact Hin]].
        * intros [[E|[]]|(s' & vh' & pv' & a' & [E|[]] & Hin)]; [left; exact E|inversion E; subst; right; exact Hin].
      + split.
        * intros [E|Hin]; [left; left; exact E|]. rewrite map_flat_map' in Hin. apply in_flat_map in Hin. destruct Hin as (c & Hc & Hin).
          apply IH in Hin. destruct Hin as [Hin|(s & vh & pv & a & Hl & Hin)].
          -- left. right. rewrite map_flat_map'. apply in_flat_map. exists c. split; [exact Hc|exact Hin].
          -- right. exists (c_nib c :: s), vh, pv, a. split.
             ++ apply in_flat_map. exists c. split; [exact Hc|]. apply in_map_iff. exists (s, (vh, pv, a)). split; [reflexivity|exact Hl].
             ++ rewrite <- app_assoc in Hin. exact Hin.
        * intros [[E|Hin]|(s & vh & pv & a & Hl & Hin)]; [left; exact E| |].
          -- right. rewrite map_flat_map' in Hin. apply in_flat_map in Hin. destruct Hin as (c & Hc & Hin).
             rewrite map_flat_map'. apply in_flat_map. exists c. split; [exact Hc|]. apply IH. left. exact Hin.
          -- right. apply in_flat_map in Hl. destruct Hl as (c & Hc & Hl). apply in_map_iff in Hl. destruct Hl as ([s' d'] & E & Hl).
             cbn [fst snd] in E. inversion E; subst. rewrite map_flat_map'. apply in_flat_map. exists c. split; [exact Hc|]. apply IH.
             right. exists s', vh, pv, a. split; [exact Hl|]. rewrite <- app_assoc. exact Hin.
  Qed.

  Theorem reachable_keys : forall st k, In k (map fst (reachable fuel st)) <-> In k (reach_db st).
  Proof.
    intros st k. destruct st as [[v t]|]; [|cbn; tauto]. unfold reachable, flatten_e, reach_db, Rup.
    rewrite flatten_keys. rewrite in_app_iff. apply or_iff_compat_l.
    rewrite leaf_reach_in. split; intros (ek & vh & pv & pt & Hl & Hin); exists ek, vh, pv, pt; (split; [exact Hl|]).
    - cbn [app] in *. unfold flatten_p in Hin. rewrite flatten_keys in Hin. unfold RLp, Rup. rewrite in_app_iff.
      destruct Hin as [Hin|(pk & vh2 & pv2 & stt & Hl2 & Hin)]; [left; exact Hin|right].
      apply leaf_reach_in. exists pk, vh2, pv2, stt. split; [exact Hl2|].
      cbn [app] in Hin. unfold flatten_s in Hin. rewrite flatten_keys in Hin. destruct Hin as [Hin|(s3 & vh3 & pv3 & a3 & _ & [])].
      unfold RLs, Rs. cbn [reach]. rewrite <- app_assoc. exact Hin.
    - cbn [app] in *. unfold flatten_p. rewrite flatten_keys. unfold RLp, Rup in Hin. rewrite in_app_iff in Hin.
      destruct Hin as [Hin|Hin]; [left; exact Hin|right]. apply leaf_reach_in in Hin. destruct Hin as (pk & vh2 & pv2 & stt & Hl2 & Hin).
      exists pk, vh2, pv2, stt. split; [exact Hl2|]. cbn [app]. unfold flatten_s. rewrite flatten_keys. left.
      unfold RLs, Rs in Hin. cbn [reach] in Hin. rewrite <- app_assoc in Hin. exact Hin.
  Qed.

    (* ---------- every history of commits, replayed on the explicit store ---------- *)
    Fixpoint run_db_store (st : tree_state) (ts : tstore) (us : list db_updates) : res (tree_state * tstore) :=
      match us with
      | [] => Ok (st, ts)
      | u :: r =>
        match put_at_next_version H fuel st u with
        | Ok (_, st', ops) =>
          match apply_ops ts ops with
          | Ok ts' => run_db_store st' ts' r
          | Panic => Panic | OutOfFuel => OutOfFuel
          end
        | Panic => Panic | OutOfFuel => OutOfFuel
        end
      end.

    (* C18_current_tree_intact + C18_stale_dead_forever: D = any set of keys that are already dead *)
    Theorem db_history : forall us st d ts (D : skey -> Prop),
      (forall x, H x <> ZERO_HASH) ->
      db_rel H fuel US UP UE st d -> Forall (ok_commit fuel US UP UE) us ->
      vers_le (ver_of st) (reach_db st) ->
      (forall k, In k (reach_db st) -> st_get k (ts_nodes ts) <> None) ->
      (forall k, D k -> fst k <= ver_of st /\ ~ In k (reach_db st)) ->
      exists stf tsf, run_db_store st ts us = Ok (stf, tsf) /\
        db_rel H fuel US UP UE stf (apply_commits d us) /\
        vers_le (ver_of stf) (reach_db stf) /\
        (forall k, In k (reach_db stf) -> st_get k (ts_nodes tsf) <> None) /\
        (forall k, D k -> fst k <= ver_of stf /\ ~ In k (reach_db stf)).
    Proof.
      induction us as [|u r IH]; intros st d ts D HZ DR OK VR Stored Dead.
      - exists st, ts. split; [reflexivity|]. split; [exact DR|]. split; [exact VR|]. split; [exact Stored|exact Dead].
      - inversion OK as [|? ? OKu OKr]; subst.
        destruct (commit_facts st d u HZ DR OKu VR) as (root & st' & ops & E & DR' & Ev & F).
        destruct (apply_ops_total ops ts) as (ts' & Ea & _).
        assert (InsV : forall k, In k (ins_keys ops) -> fst k = ver_of st + 1).
        { intros [v p] Hk. apply ins_keys_in in Hk. destruct Hk as [n Hn]. apply (sf_ops _ _ _ _ _ F) in Hn. cbn in Hn. apply Hn. }
        assert (VR' : vers_le (ver_of st') (reach_db st')).
        { intros k Hk. rewrite Ev. destruct (sf_reach _ _ _ _ _ F k Hk) as [Hi|[Ho _]]; [rewrite (InsV k Hi); lia|specialize (VR k Ho); lia]. }
        destruct (IH st' (apply_commit d u) ts'
                    (fun k => D k \/ (In k (reach_db st) /\ exists op, In op ops /\ kills op k)) HZ DR' OKr VR')
          as (stf & tsf & Er & DRf & VRf & Sf & Df).
        + intros k Hk. apply (facts_intact [] (ver_of st + 1) ops (reach_db st) (reach_db st') ts ts' F Ea Stored k Hk).
        + intros k Hd. assert (Lk : fst k <= ver_of st).
          { destruct Hd as [Hd|[Hd _]]; [apply (Dead k Hd)|apply (VR k Hd)]. }
          split; [rewrite Ev; lia|]. intro Hn. destruct (sf_reach _ _ _ _ _ F k Hn) as [Hi|[Ho NK]].
          * pose proof (InsV k Hi). lia.
          * destruct Hd as [Hd|[_ (op & Hop & Kop)]]; [apply (proj2 (Dead k Hd) Ho)|apply (NK op Hop Kop)].
        + exists stf, tsf. cbn [run_db_store apply_commits fold_left]. rewrite E, Ea. split; [exact Er|]. split; [exact DRf|].
          split; [exact VRf|]. split; [exact Sf|]. intros k Hd. apply Df. left. exact Hd.
    Qed.

    Lemma run_db_store_state : forall us st ts ts' stf tsf, run_db_store st ts us = Ok (stf, tsf) ->
      exists tsf', run_db_store st ts' us = Ok (stf, tsf').
    Proof.
      induction us as [|u r IH]; intros st ts ts' stf tsf E; cbn [run_db_store] in *.
      - inversion E; subst. exists ts'. reflexivity.
      - destruct (put_at_next_version H fuel st u) as [[[root st1] ops]| |]; try discriminate.
        destruct (apply_ops ts ops) as [t1| |]; try discriminate.
        destruct (apply_ops_total ops ts') as (t1' & Ea & _). rewrite Ea. apply (IH st1 t1 t1' stf tsf E).
    Qed.

    Lemma st_get_synthetic : forall (l : list skey) k, In k l -> st_get k (map (fun k0 => (k0, SNull)) l) <> None.
    Proof.
      induction l as [|x l IH]; intros k Hin; [destruct Hin|]. cbn [map st_get].
      destruct (skey_eqb k x) eqn:E; [discriminate|]. destruct Hin as [Ex|Hin]; [subst; rewrite skey_eqb_refl in E; discriminate|apply IH; exact Hin].
    Qed.

    (* a part reported stale by a commit (a node, or any node of the old tree below a stale subtree)
       is unreachable from the root of that commit and from every later root *)
    Corollary db_stale_dead_forever : forall st d u root st1 ops us2 ts1 stf tsf,
      (forall x, H x <> ZERO_HASH) ->
      db_rel H fuel US UP UE st d -> ok_commit fuel US UP UE u -> Forall (ok_commit fuel US UP UE) us2 ->
      vers_le (ver_of st) (reach_db st) ->
      put_at_next_version H fuel st u = Ok (root, st1, ops) ->
      run_db_store st1 ts1 us2 = Ok (stf, tsf) ->
      forall k op, In k (reach_db st) -> In op ops -> kills op k -> ~ In k (reach_db stf).
    Proof.
      intros st d u root st1 ops us2 ts1 stf tsf HZ DR OKu OK2 VR E Erun.
      destruct (commit_facts st d u HZ DR OKu VR) as (root' & st' & ops' & E' & DR' & Ev & F).
      rewrite E in E'. inversion E'; subst root' st' ops'. clear E'.
      assert (InsV : forall k, In k (ins_keys ops) -> fst k = ver_of st + 1).
      { intros [v p] Hk. apply ins_keys_in in Hk. destruct Hk as [n Hn]. apply (sf_ops _ _ _ _ _ F) in Hn. cbn in Hn. apply Hn. }
      assert (VR' : vers_le (ver_of st1) (reach_db st1)).
      { intros k Hk. rewrite Ev. destruct (sf_reach _ _ _ _ _ F k Hk) as [Hi|[Ho _]]; [rewrite (InsV k Hi); lia|specialize (VR k Ho); lia]. }
      set (ts0 := mkTStore (map (fun k0 : skey => (k0, SNull)) (reach_db st1)) [] true).
      destruct (run_db_store_state us2 st1 ts1 ts0 stf tsf Erun) as [tsf0 Erun0].
      destruct (db_history us2 st1 (apply_commit d u) ts0
                  (fun k => In k (reach_db st) /\ exists op, In op ops /\ kills op k) HZ DR' OK2 VR') as (stf' & tsf' & Er & _ & _ & _ & Df).
      - intros k Hk. cbn [ts0 ts_nodes]. apply st_get_synthetic. exact Hk.
      - intros k [Hk (op & Hop & Kop)]. split; [rewrite Ev; specialize (VR k Hk); lia|].
        intro Hn. destruct (sf_reach _ _ _ _ _ F k Hn) as [Hi|[Ho NK]]; [pose proof (InsV k Hi); specialize (VR k Hk); lia|apply (NK op Hop Kop)].
      - rewrite Erun0 in Er. inversion Er; subst stf' tsf'.
        intros k op Hk Hop Kop. apply (Df k). split; [exact Hk|]. exists op. split; assumption.
    Qed.

    (* ---------- final statements, from the empty state, in terms of the model's `reachable` ---------- *)
    Lemma reach_db_none : reach_db None = [].
    Proof. reflexivity. Qed.

    Theorem intact_from_empty : forall us ts,
      (forall x, H x <> ZERO_HASH) -> Forall (ok_commit fuel US UP UE) us ->
      exists stf tsf, run_db_store None ts us = Ok (stf, tsf) /\
        db_rel H fuel US UP UE stf (apply_commits [] us) /\
        forall e, In e (reachable fuel stf) -> st_get (fst e) (ts_nodes tsf) <> None.
    Proof.
      intros us ts HZ OK.
      destruct (db_history us None [] ts (fun _ => False) HZ eq_refl OK) as (stf & tsf & Er & DRf & _ & Sf & _).
      - intros k [].
      - intros k [].
      - intros k [].
      - exists stf, tsf. split; [exact Er|]. split; [exact DRf|]. intros e He. apply Sf. apply reachable_keys. apply in_map. exact He.
    Qed.

    Theorem stale_dead_from_empty : forall us1 u us2 ts,
      (forall x, H x <> ZERO_HASH) ->
      Forall (ok_commit fuel US UP UE) us1 -> ok_commit fuel US UP UE u -> Forall (ok_commit fuel US UP UE) us2 ->
      exists st ts1 root st1 ops ts2 stf tsf,
        run_db_store None ts us1 = Ok (st, ts1) /\
        put_at_next_version H fuel st u = Ok (root, st1, ops) /\ apply_ops ts1 ops = Ok ts2 /\
        run_db_store st1 ts2 us2 = Ok (stf, tsf) /\
        forall e op, In e (reachable fuel st) -> In op ops -> kills op (fst e) ->
                     ~ In (fst e) (map fst (reachable fuel stf)).
    Proof.
      intros us1 u us2 ts HZ OK1 OKu OK2.
      destruct (db_history us1 None [] ts (fun _ => False) HZ eq_refl OK1) as (st & ts1 & Er1 & DR1 & VR1 & S1 & _);
        try (intros k []).
      destruct (commit_facts st (apply_commits [] us1) u HZ DR1 OKu VR1) as (root & st1 & ops & E & DR' & Ev & F).
      destruct (apply_ops_total ops ts1) as (ts2 & Ea & _).
      assert (VR' : vers_le (ver_of st1) (reach_db st1)).
      { intros k Hk. rewrite Ev. destruct (sf_reach _ _ _ _ _ F k Hk) as [Hi|[Ho _]].
        - destruct k as [v p]. apply ins_keys_in in Hi. destruct Hi as [n Hn]. apply (sf_ops _ _ _ _ _ F) in Hn. cbn in Hn. cbn. lia.
        - specialize (VR1 k Ho). lia. }
      destruct (db_history us2 st1 (apply_commit (apply_commits [] us1) u) ts2 (fun _ => False) HZ DR' OK2 VR') as (stf & tsf & Er2 & _).
      - intros k Hk. apply (facts_intact [] _ ops _ _ ts1 ts2 F Ea S1 k Hk).
      - intros k [].
      - exists st, ts1, root, st1, ops, ts2, stf, tsf. repeat split; try assumption.
        intros e op He Hop Kop Hn.
        apply (db_stale_dead_forever st _ u root st1 ops us2 ts2 stf tsf HZ DR1 OKu OK2 VR1 E Er2 (fst e) op); try assumption.
        + apply reachable_keys. apply in_map. exact He.
        + apply reachable_keys. exact Hn.
    Qed.
  End DB3.
End LIFT.
