(* C18 — lifting the tier-level reach / intact / dead theorems to the three-tier store.
   A commit is summarised by `step_facts Q ver ops Rold Rnew`: Q = path prefix of the tier instance,
   ops = the store operations in the order they are issued, Rold / Rnew = keys the old / new root of
   the instance refers to (through all lower tiers). *)
From Coq Require Import List NArith Bool Lia Arith.
Import ListNotations.
Require Import RV.Model.C17_Jmt RV.Model.C17_Smt RV.Model.C18_Store RV.Proof.C17_Base RV.Proof.C17_Lists
               RV.Proof.C17_Update RV.Proof.C17_Tier RV.Proof.C17_Root RV.Proof.C17_Assoc RV.Proof.C17_Compose
               RV.Proof.C18_Store RV.Proof.C18_Reach.
Open Scope N_scope.

Definition gkey (P : list N) (k : skey) : skey := (fst k, P ++ snd k).
Definition kills (op : store_op) (k : skey) : Prop :=
  match op with OpInsert _ _ _ => False | OpStale part => hits part k end.
Definition ins_keys (ops : list store_op) : list skey :=
  flat_map (fun op => match op with OpInsert v p _ => [(v, p)] | _ => [] end) ops.
Definition survives (ops : list store_op) : Prop :=
  forall o1 v p n o2, ops = o1 ++ OpInsert v p n :: o2 -> forall op, In op o2 -> ~ kills op (v, p).
Definition op_ok (Q : list N) (ver : N) (op : store_op) : Prop :=
  match op with
  | OpInsert v p _ => v = ver /\ path_prefix Q p
  | OpStale (StaleNode v p) => v < ver /\ path_prefix Q p
  | OpStale (StaleSubtree v p) => path_prefix Q p
  end.

Record step_facts (Q : list N) (ver : N) (ops : list store_op) (Rold Rnew : list skey) : Prop := mkSF {
  sf_reach : forall k, In k Rnew -> In k (ins_keys ops) \/ (In k Rold /\ forall op, In op ops -> ~ kills op k);
  sf_ops : forall op, In op ops -> op_ok Q ver op;
  sf_surv : survives ops }.

Lemma ins_keys_app : forall a b, ins_keys (a ++ b) = ins_keys a ++ ins_keys b.
Proof. intros. unfold ins_keys. apply flat_map_app. Qed.
Lemma ins_keys_in : forall ops v p, In (v, p) (ins_keys ops) <-> exists n, In (OpInsert v p n) ops.
Proof.
  intros ops v p. unfold ins_keys. rewrite in_flat_map. split.
  - intros (op & Hop & Hin). destruct op as [v' p' n|part]; [|destruct Hin]. destruct Hin as [E|[]]. inversion E; subst. exists n. exact Hop.
  - intros (n & Hop). exists (OpInsert v p n). split; [exact Hop|left; reflexivity].
Qed.

Lemma path_prefix_trans : forall a b c, path_prefix a b -> path_prefix b c -> path_prefix a c.
Proof. intros a b c [r1 E1] [r2 E2]. exists (r1 ++ r2). rewrite E2, E1, app_assoc. reflexivity. Qed.
Lemma path_prefix_app : forall a r, path_prefix a (a ++ r).
Proof. intros. exists r. reflexivity. Qed.
Lemma path_prefix_refl : forall a, path_prefix a a.
Proof. intro a. exists []. symmetry. apply app_nil_r. Qed.

(* an inserted key survives the rest of a list whose stale operations are older / elsewhere *)
Lemma survives_app : forall a b, survives a -> survives b ->
  (forall v p n op, In (OpInsert v p n) a -> In op b -> ~ kills op (v, p)) -> survives (a ++ b).
Proof.
  intros a b Sa Sb Cross o1 v p n o2 E op Hop.
  (* where does the split fall *)
  assert (Split : (exists o2a, a = o1 ++ OpInsert v p n :: o2a /\ o2 = o2a ++ b) \/
                  (exists o1b, o1 = a ++ o1b /\ b = o1b ++ OpInsert v p n :: o2)).
  { clear - E. revert o1 E. induction a as [|x a IH]; intros o1 E.
    - right. exists o1. split; [reflexivity|exact E].
    - destruct o1 as [|y o1].
      + cbn in E. inversion E; subst. left. exists a. split; reflexivity.
      + cbn in E. inversion E; subst. destruct (IH o1 H1) as [(o2a & E1 & E2)|(o1b & E1 & E2)].
        * left. exists o2a. split; [cbn; congruence|exact E2].
        * right. exists o1b. split; [cbn; congruence|exact E2]. }
  destruct Split as [(o2a & Ea & E2)|(o1b & E1 & Eb)].
  - subst o2. apply in_app_or in Hop. destruct Hop as [Hop|Hop].
    + apply (Sa _ _ _ _ _ Ea op Hop).
    + apply (Cross v p n op); [rewrite Ea; apply in_or_app; right; left; reflexivity|exact Hop].
  - apply (Sb _ _ _ _ _ Eb op Hop).
Qed.

Lemma survives_inserts_then_stales : forall ver (ins : list store_op) (sts : list store_op),
  (forall op, In op ins -> exists v p n, op = OpInsert v p n /\ v = ver) ->
  (forall op, In op sts -> exists v p, op = OpStale (StaleNode v p) /\ v < ver) ->
  survives (ins ++ sts).
Proof.
  intros ver ins sts Hi Hs o1 v p n o2 E op Hop.
  assert (Hv : v = ver).
  { assert (Hin : In (OpInsert v p n) (ins ++ sts)) by (rewrite E; apply in_or_app; right; left; reflexivity).
    apply in_app_or in Hin. destruct Hin as [Hin|Hin].
    - destruct (Hi _ Hin) as (v' & p' & n' & E1 & E2). inversion E1; subst. reflexivity.
    - destruct (Hs _ Hin) as (v' & p' & E1 & _). discriminate. }
  assert (Hin : In op (ins ++ sts)) by (rewrite E; apply in_or_app; right; right; exact Hop).
  apply in_app_or in Hin. destruct Hin as [Hin|Hin].
  - destruct (Hi _ Hin) as (v' & p' & n' & E1 & _). subst op. cbn. tauto.
  - destruct (Hs _ Hin) as (v' & p' & E1 & Lt). subst op. cbn. intro Ek. inversion Ek. lia.
Qed.

(* ---------- what apply_ops does to a key ---------- *)
Lemma apply_ops_total : forall ops ts, exists ts', apply_ops ts ops = Ok ts' /\ ts_pruning ts' = ts_pruning ts.
Proof.
  induction ops as [|op ops IH]; intro ts; [exists ts; split; reflexivity|].
  cbn [apply_ops]. destruct op as [v p n|part]; cbn [apply_op].
  - destruct (IH (mkTStore (st_insert (v, p) n (ts_nodes ts)) (ts_stale ts) (ts_pruning ts))) as (ts' & E & P). exists ts'. split; [exact E|exact P].
  - destruct (ts_pruning ts) eqn:Pr.
    + destruct part as [v p|v p].
      * destruct (IH (mkTStore (st_remove (v, p) (ts_nodes ts)) (ts_stale ts) true)) as (ts' & E & P). exists ts'. split; [exact E|exact P].
      * assert (Fuel : exists s, prune_subtree (prune_fuel (ts_nodes ts)) [(v, p)] (ts_nodes ts) = Ok s).
        { apply prune_subtree_fuel_ok. }
        destruct Fuel as [s Es]. rewrite Es. destruct (IH (mkTStore s (ts_stale ts) true)) as (ts' & E & P). exists ts'. split; [exact E|exact P].
    + destruct (IH (mkTStore (ts_nodes ts) (ts_stale ts ++ [part]) false)) as (ts' & E & P). exists ts'. split; [exact E|exact P].
Qed.

Lemma apply_ops_app' : forall o1 o2 ts, apply_ops ts (o1 ++ o2) =
  match apply_ops ts o1 with Ok ts1 => apply_ops ts1 o2 | Panic => Panic | OutOfFuel => OutOfFuel end.
Proof.
  induction o1 as [|op o1 IH]; intros o2 ts; [reflexivity|]. cbn [app apply_ops].
  destruct (apply_op ts op); [apply IH|reflexivity|reflexivity].
Qed.

(* a stored node that no later operation kills is still stored *)
Lemma keep_alive : forall ops ts ts' k, apply_ops ts ops = Ok ts' ->
  st_get k (ts_nodes ts) <> None -> (forall op, In op ops -> ~ kills op k) -> st_get k (ts_nodes ts') <> None.
Proof.
  induction ops as [|op ops IH]; intros ts ts' k E Hk NK; cbn [apply_ops] in E; [inversion E; subst; exact Hk|].
  destruct (apply_op ts op) as [t1| |] eqn:E1; try discriminate.
  apply (IH t1 ts' k E); [|intros o Ho; apply NK; right; exact Ho].
  pose proof (NK op (or_introl eq_refl)) as N0. destruct op as [v p n|part]; cbn [apply_op] in E1.
  - inversion E1; subst. cbn [ts_nodes]. rewrite st_get_insert. destruct (skey_eqb k (v, p)); [discriminate|exact Hk].
  - destruct (ts_pruning ts).
    + destruct part as [v p|v p]; cbn [kills hits] in N0.
      * inversion E1; subst. cbn [ts_nodes]. rewrite st_get_remove.
        destruct (skey_eqb (v, p) k) eqn:E0; [apply skey_eqb_eq in E0; symmetry in E0; contradiction|exact Hk].
      * destruct (prune_subtree (prune_fuel (ts_nodes ts)) [(v, p)] (ts_nodes ts)) as [s1| |] eqn:E2; try discriminate.
        inversion E1; subst. cbn [ts_nodes].
        assert (Q : Forall (fun k0 : skey => path_prefix p (snd k0)) [(v, p)]).
        { constructor; [exists []; cbn [snd]; rewrite app_nil_r; reflexivity|constructor]. }
        rewrite (prune_subtree_local p _ _ _ _ Q E2 k N0). exact Hk.
    + inversion E1; subst. exact Hk.
Qed.

Lemma inserted_alive : forall ops ts ts' v p, apply_ops ts ops = Ok ts' -> survives ops ->
  In (v, p) (ins_keys ops) -> st_get (v, p) (ts_nodes ts') <> None.
Proof.
  intros ops ts ts' v p E S Hin. apply ins_keys_in in Hin. destruct Hin as [n Hin].
  apply in_split in Hin. destruct Hin as (o1 & o2 & Eo). subst ops.
  rewrite apply_ops_app' in E. destruct (apply_ops ts o1) as [t1| |]; try discriminate.
  cbn [apply_ops apply_op] in E.
  apply (keep_alive o2 _ ts' (v, p) E).
  - cbn [ts_nodes]. rewrite st_get_insert, skey_eqb_refl. discriminate.
  - intros op Hop. apply (S o1 v p n o2 eq_refl op Hop).
Qed.

(* C18_current_tree_intact, one commit, from the summary of the commit *)
Theorem facts_intact : forall Q ver ops Rold Rnew ts ts',
  step_facts Q ver ops Rold Rnew -> apply_ops ts ops = Ok ts' ->
  (forall k, In k Rold -> st_get k (ts_nodes ts) <> None) ->
  forall k, In k Rnew -> st_get k (ts_nodes ts') <> None.
Proof.
  intros Q ver ops Rold Rnew ts ts' F E Stored k Hk.
  destruct (sf_reach _ _ _ _ _ F k Hk) as [Hi|[Ho NK]].
  - destruct k as [v p]. apply (inserted_alive ops ts ts' v p E (sf_surv _ _ _ _ _ F) Hi).
  - apply (keep_alive ops ts ts' k E (Stored k Ho) NK).
Qed.

(* C18_stale_dead_forever, one commit: what the commit kills, and what was dead, is unreachable *)
Theorem facts_dead : forall Q ver ops Rold Rnew (D : list skey) v0,
  step_facts Q ver ops Rold Rnew -> vers_le v0 Rold -> vers_le v0 D -> v0 < ver ->
  (forall k, In k D -> ~ In k Rold) ->
  vers_le ver Rnew /\
  forall k, (In k D \/ (In k Rold /\ exists op, In op ops /\ kills op k)) -> ~ In k Rnew.
Proof.
  intros Q ver ops Rold Rnew D v0 F VR VD Lt Dead.
  assert (InsV : forall k, In k (ins_keys ops) -> fst k = ver).
  { intros [v p] Hk. apply ins_keys_in in Hk. destruct Hk as [n Hn]. apply (sf_ops _ _ _ _ _ F) in Hn. cbn in Hn. apply Hn. }
  split.
  - intros k Hk. destruct (sf_reach _ _ _ _ _ F k Hk) as [Hi|[Ho _]]; [rewrite (InsV k Hi); lia|specialize (VR k Ho); lia].
  - intros k Hd Hn. destruct (sf_reach _ _ _ _ _ F k Hn) as [Hi|[Ho NK]].
    + pose proof (InsV k Hi). assert (fst k <= v0) by (destruct Hd as [Hd|[Hd _]]; [apply VD|apply VR]; exact Hd). lia.
    + destruct Hd as [Hd|[_ (op & Hop & Kop)]]; [apply (Dead k Hd Ho)|apply (NK op Hop Kop)].
Qed.

Lemma gkey_inj : forall P a b, gkey P a = gkey P b -> a = b.
Proof. intros P [v p] [v' p'] E. unfold gkey in E. cbn in E. inversion E. apply app_inv_head in H1. congruence. Qed.

Lemma ins_keys_ops_of_log : forall {A} Q ver (lg : log A),
  ins_keys (ops_of_log Q ver lg) = map (gkey Q) (new_keys A ver lg).
Proof.
  intros A Q ver lg. unfold ops_of_log, new_keys. rewrite ins_keys_app.
  assert (E2 : ins_keys (map (fun vp => OpStale (StaleNode (fst vp) (Q ++ snd vp))) (l_stale lg)) = []).
  { induction (l_stale lg) as [|x l IH]; [reflexivity|exact IH]. }
  rewrite E2, app_nil_r. induction (l_new lg) as [|x l IH]; [reflexivity|]. cbn. rewrite <- IH. reflexivity.
Qed.

Lemma ops_of_log_cases : forall {A} Q ver (lg : log A) op, In op (ops_of_log Q ver lg) ->
  (exists p n, op = OpInsert ver (Q ++ p) n /\ In (ver, p) (new_keys A ver lg)) \/
  (exists v p, op = OpStale (StaleNode v (Q ++ p)) /\ In (v, p) (l_stale lg)).
Proof.
  intros A Q ver lg op Hin. unfold ops_of_log in Hin. apply in_app_or in Hin. destruct Hin as [Hin|Hin].
  - apply in_map_iff in Hin. destruct Hin as ([p n] & E & Hin). left. exists p, (stored n). split; [symmetry; exact E|].
    unfold new_keys. apply in_map_iff. exists (p, n). split; [reflexivity|exact Hin].
  - apply in_map_iff in Hin. destruct Hin as ([v p] & E & Hin). right. exists v, p. split; [symmetry; exact E|exact Hin].
Qed.

Lemma survives_ops_of_log : forall {A} Q ver (lg : log A),
  (forall v p, In (v, p) (l_stale lg) -> v < ver) -> survives (ops_of_log Q ver lg).
Proof.
  intros A Q ver lg Hs. unfold ops_of_log. apply (survives_inserts_then_stales ver).
  - intros op Hin. apply in_map_iff in Hin. destruct Hin as (x & E & _). eexists _, _, _. split; [symmetry; exact E|reflexivity].
  - intros op Hin. apply in_map_iff in Hin. destruct Hin as ([v p] & E & Hin). exists v, (Q ++ p). split; [symmetry; exact E|apply (Hs v p Hin)].
Qed.

Section LIFT.
  Variable H : list N -> list N.
  Variable fuel : nat.
  Hypothesis Hfuel : (0 < fuel)%nat.

  (* ---------- one tier instance at prefix Q, without lower tiers ---------- *)
  Definition Rs {A} (Q : list N) (root : option (N * node A)) : list skey :=
    map (gkey Q) (reach A fuel root).

  Lemma tier_facts : forall A (U : list N -> Prop) Q root ver ups h r lg v0,
    pfree U -> ~ U [] -> ups_ok A U fuel ups -> state_ok H A U fuel root ->
    tier_put H A fuel root ver ups = Ok (h, r, lg) ->
    vers_le v0 (Rs Q root) -> v0 < ver ->
    step_facts Q ver (ops_of_log Q ver lg) (Rs Q root) (Rs Q (Some (ver, r))) /\
    (forall k, In k (l_stale lg) -> In k (reach A fuel root)).
  Proof.
    intros A U Q root ver ups h r lg v0 PF U0 OK SO E VR Lt.
    destruct (tier_reach_step H A fuel root ver ups U h r lg Hfuel PF U0 OK SO E) as (T1 & T2 & T3 & T4).
    assert (SV : forall v p, In (v, p) (l_stale lg) -> v < ver).
    { intros v p Hs. assert (Hin : In (gkey Q (v, p)) (Rs Q root)) by (apply in_map; apply T2; exact Hs).
      specialize (VR _ Hin). cbn in VR. lia. }
    split; [|exact T2]. constructor.
    - intros k Hk. unfold Rs in Hk. apply in_map_iff in Hk. destruct Hk as (k' & Ek & Hk'). subst k.
      destruct (T1 k' Hk') as [Hn|[Ho Hs]].
      + left. rewrite ins_keys_ops_of_log. apply in_map. exact Hn.
      + right. split; [apply in_map; exact Ho|]. intros op Hop Kop.
        destruct (ops_of_log_cases Q ver lg op Hop) as [(p & n & Eop & _)|(v & p & Eop & Hst)]; subst op; cbn in Kop; [exact Kop|].
        apply Hs. assert (k' = (v, p)); [|subst; exact Hst]. apply (gkey_inj Q). exact Kop.
    - intros op Hop. destruct (ops_of_log_cases Q ver lg op Hop) as [(p & n & Eop & _)|(v & p & Eop & Hst)]; subst op; cbn.
      + split; [reflexivity|apply path_prefix_app].
      + split; [apply (SV v p Hst)|apply path_prefix_app].
    - apply survives_ops_of_log. exact SV.
  Qed.

  (* the substate tier (Delta or Reset) *)
  Lemma substate_facts : forall (US : list N -> Prop) Q sroot ver u h r ops v0,
    pfree US -> ~ US [] -> ok_pupd fuel US u -> state_ok H unit US fuel sroot ->
    substate_tier_put H fuel Q sroot ver u = Ok (h, r, ops) ->
    vers_le v0 (Rs Q sroot) -> v0 < ver ->
    step_facts Q ver ops (Rs Q sroot) (Rs Q (Some (ver, r))).
  Proof.
    intros US Q sroot ver u h r ops v0 PF U0 OKu SO E VR Lt. unfold substate_tier_put in E.
    destruct u as [l|l]; cbn [ok_pupd] in OKu; cbv beta iota zeta in E.
    - remember (map (fun ku : list N * option (list N) => (fst ku, match snd ku with Some v => Some (H v, ver, tt) | None => None end)) l) as ups eqn:Eups.
      assert (UO : ups_ok unit US fuel ups).
      { intros x Hx. rewrite Eups in Hx. apply in_map_iff in Hx. destruct Hx as (y & Ey & Hy). subst x. cbn [fst]. apply (OKu y Hy). }
      match type of E with context [tier_put ?a ?b ?c ?d ?e ?f] => destruct (tier_put a b c d e f) as [[[h1 r1] lg]| |] eqn:ET; try discriminate end.
      try rewrite ET in E. inversion E as [[Eh Er Eo]]. clear E. try subst r. try subst ops. cbn [app].
      apply (proj1 (tier_facts unit US Q sroot ver ups _ _ lg v0 PF U0 UO SO ET VR Lt)).
    - remember (map (fun kv : list N * list N => (fst kv, Some (H (snd kv), ver, tt))) l) as ups eqn:Eups.
      assert (UO : ups_ok unit US fuel ups).
      { intros x Hx. rewrite Eups in Hx. apply in_map_iff in Hx. destruct Hx as (y & Ey & Hy). subst x. cbn [fst]. apply (OKu y Hy). }
      match type of E with context [tier_put ?a ?b ?c ?d ?e ?f] => destruct (tier_put a b c d e f) as [[[h1 r1] lg]| |] eqn:ET; try discriminate end.
      try rewrite ET in E. inversion E as [[Eh Er Eo]]. clear E. try subst r. try subst ops.
      assert (SO0 : state_ok H unit US fuel None) by (intros v t E0; discriminate).
      assert (VR0 : vers_le v0 (Rs Q (@None (N * node unit)))) by (intros k []).
      destruct (tier_facts unit US Q None ver ups _ _ lg v0 PF U0 UO SO0 ET VR0 Lt) as [F _].
      match goal with |- step_facts _ _ (?pp ++ _) _ _ => set (pre := pp) end.
      assert (PreNoIns : forall op, In op pre -> exists v1, op = OpStale (StaleSubtree v1 Q)).
      { intros op Hop. unfold pre in Hop. destruct sroot as [[v1 t1]|]; [|destruct Hop]. destruct Hop as [Eo|[]]. exists v1. symmetry. exact Eo. }
      constructor.
      + intros k Hk. destruct (sf_reach _ _ _ _ _ F k Hk) as [Hi|[[] _]]. left. rewrite ins_keys_app. apply in_or_app. right. exact Hi.
      + intros op Hop. apply in_app_or in Hop. destruct Hop as [Hop|Hop].
        * destruct (PreNoIns op Hop) as [v1 Eo]. subst op. cbn. apply path_prefix_refl.
        * apply (sf_ops _ _ _ _ _ F op Hop).
      + apply survives_app.
        * intros o1 v p n o2 Eo. exfalso. assert (Hin : In (OpInsert v p n) pre) by (rewrite Eo; apply in_or_app; right; left; reflexivity).
          destruct (PreNoIns _ Hin) as [v1 E1]. discriminate.
        * apply (sf_surv _ _ _ _ _ F).
        * intros v p n op Hin _. destruct (PreNoIns _ Hin) as [v1 E1]. discriminate.
  Qed.
End LIFT.
