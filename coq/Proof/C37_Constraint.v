(* C37 — the mathematical meaning of resource constraints (SatF, SatNF) and the proofs that the model of
   manifest_resource_assertion.rs accepts exactly the balances that satisfy it. *)
From Coq Require Import List ZArith NArith Bool Lia.
Import ListNotations.
Require Import RV.Model.C37_Constraint.
Open Scope Z_scope.

(* ---- the specification ------------------------------------------------------------------------ *)
(* balance of a fungible resource: an amount a >= 0 (attos); of a non-fungible resource: a
   duplicate-free list of ids, whose cardinality is its length *)
Notation card := len (only parsing).

Definition SatLower (l : lower) (a : Z) : Prop :=
  match l with LNonZero => 0 < a | LIncl d => d <= a end.
Definition SatUpper (u : upper) (a : Z) : Prop :=
  match u with UIncl d => a <= d | UUnbounded => True end.
Definition SatAllowed (al : allowed) (ids : idset) : Prop :=
  match al with Allowlist l => incl ids l | AnyIds => True end.

(* fungible: ids are disregarded ("Fungible resources are viewed as a specialization of non-fungible
   resources where we disregard ids and permit non-integer balances"); an id-set constraint is never
   satisfied by a fungible balance *)
Definition SatF (c : constraint) (a : Z) : Prop :=
  match c with
  | NonZeroAmount => 0 < a
  | ExactAmount d => a = d
  | AtLeastAmount d => d <= a
  | ExactNF _ | AtLeastNF _ => False
  | General g => SatLower (lb g) a /\ SatUpper (ub g) a
  end.
Definition SatG (g : general) (ids : idset) : Prop :=
  SatLower (lb g) (card ids * SCALE) /\ SatUpper (ub g) (card ids * SCALE)
  /\ incl (required g) ids /\ SatAllowed (allowed_ids g) ids.
Definition SatNF (c : constraint) (ids : idset) : Prop :=
  match c with
  | NonZeroAmount => 0 < card ids
  | ExactAmount d => card ids * SCALE = d
  | AtLeastAmount d => d <= card ids * SCALE
  | ExactNF s => forall x, In x s <-> In x ids
  | AtLeastNF s => incl s ids
  | General g => SatG g ids
  end.

(* the input class of the known finding (known_findings.txt, class fungible-empty-allowlist) *)
Definition KnownClass (g : general) : Prop := allowed_ids g = Allowlist [] /\ 0 < upper_eq (ub g).

(* ---- list / set facts -------------------------------------------------------------------------- *)
Lemma mem_In : forall x s, mem x s = true <-> In x s.
Proof.
  intros x s; unfold mem; rewrite existsb_exists; split.
  - intros [y [Hy He]]. apply N.eqb_eq in He; subst; exact Hy.
  - intros H; exists x; split; [exact H | apply N.eqb_refl].
Qed.
Lemma mem_false : forall x s, mem x s = false <-> ~ In x s.
Proof.
  intros x s; rewrite <- mem_In; destruct (mem x s); split; intro H;
    try reflexivity; try discriminate; exfalso; apply H; reflexivity.
Qed.
Lemma first_not_in_None : forall a b, first_not_in a b = None <-> incl a b.
Proof.
  intros a b; unfold first_not_in; split.
  - intros H x Hx. pose proof (find_none _ _ H x Hx) as Hn. cbv beta in Hn.
    apply negb_false_iff in Hn. apply mem_In; exact Hn.
  - intros H. induction a as [|y a IH]; [reflexivity|].
    cbn [find]. assert (Hy : mem y b = true) by (apply mem_In, H; left; reflexivity).
    rewrite Hy; cbn [negb]. apply IH. intros x Hx; apply H; right; exact Hx.
Qed.
Lemma first_not_in_Some : forall a b i, first_not_in a b = Some i -> In i a /\ ~ In i b.
Proof.
  intros a b i H; unfold first_not_in in H. apply find_some in H. destruct H as [Hi Hn].
  split; [exact Hi|]. apply negb_true_iff in Hn. apply mem_false; exact Hn.
Qed.
Lemma is_subset_incl : forall a b, is_subset a b = true <-> incl a b.
Proof.
  intros a b; unfold is_subset; rewrite forallb_forall; split.
  - intros H x Hx; apply mem_In, H, Hx.
  - intros H x Hx; apply mem_In, H, Hx.
Qed.
Lemma card_nonneg : forall s, 0 <= card s. Proof. intros; unfold len; lia. Qed.
Lemma card_incl : forall a b, NoDup a -> incl a b -> card a <= card b.
Proof. intros a b Hn Hi; unfold len; apply Nat2Z.inj_le, NoDup_incl_length; assumption. Qed.
Lemma card_incl_rev : forall a b, NoDup a -> card b <= card a -> incl a b -> incl b a.
Proof.
  intros a b Hn Hl Hi. apply NoDup_length_incl; [exact Hn | unfold len in Hl; lia | exact Hi].
Qed.

Lemma SCALE_pos : 0 < SCALE. Proof. reflexivity. Qed.
Lemma scale_le : forall x y, x * SCALE <= y * SCALE <-> x <= y.
Proof. intros; unfold SCALE; lia. Qed.
Lemma scale_lt : forall x y, x * SCALE < y * SCALE <-> x < y.
Proof. intros; unfold SCALE; lia. Qed.
Lemma scale_eq : forall x y, x * SCALE = y * SCALE <-> x = y.
Proof. intros; unfold SCALE; lia. Qed.
Lemma scale_ne_max : forall x, x * SCALE <> DEC_MAX.
Proof.
  intros x H. assert (Hm : DEC_MAX = 3138550867693340381917894711603833208051177722232017256447) by reflexivity.
  rewrite Hm in H; unfold SCALE in H; lia.
Qed.
Lemma scale_ne_one : forall x, x * SCALE <> 1.
Proof. intros x H; unfold SCALE in H; lia. Qed.

(* checked_floor(d) == Some(d) and d >= 0  <->  d is a non-negative whole number of units *)
Lemma nonneg_integral_spec : forall d, nonneg_integral d = true <-> exists k, 0 <= k /\ d = k * SCALE.
Proof.
  intros d; unfold nonneg_integral, checked_floor. split.
  - intros H. apply andb_true_iff in H. destruct H as [Hn Hf].
    apply negb_true_iff, Z.ltb_ge in Hn.
    destruct (Z.rem d SCALE =? 0) eqn:Hr.
    + apply Z.eqb_eq in Hr. rewrite Z.rem_mod_nonneg in Hr by (try exact Hn; reflexivity).
      exists (d / SCALE). split; [apply Z.div_pos; [exact Hn|reflexivity]|].
      pose proof (Z.div_mod d SCALE ltac:(discriminate)) as Hd. lia.
    + exfalso. apply Z.eqb_neq in Hr.
      rewrite Z.rem_mod_nonneg in * by (try exact Hn; reflexivity).
      pose proof (Z.mod_pos_bound d SCALE SCALE_pos) as Hb.
      destruct (d mod SCALE <? 0) eqn:Hlt; [apply Z.ltb_lt in Hlt; lia|].
      destruct (d - d mod SCALE <? DEC_MIN); [discriminate|].
      apply Z.eqb_eq in Hf. lia.
  - intros [k [Hk Hd]]. subst d.
    assert (Hge : (k * SCALE <? 0) = false) by (apply Z.ltb_ge; unfold SCALE; lia).
    rewrite Hge; cbn [negb andb].
    assert (Hr : Z.rem (k * SCALE) SCALE = 0) by (apply Z.rem_mul; discriminate).
    rewrite Hr; cbn. apply Z.eqb_refl.
Qed.

(* ---- validate <-> Sat --------------------------------------------------------------------------- *)
Lemma lower_validate_iff : forall l a, 0 <= a -> (lower_validate_amount l a = VOk <-> SatLower l a).
Proof.
  intros l a Ha; destruct l as [|d]; cbn [lower_validate_amount SatLower].
  - destruct (a =? 0) eqn:E; [apply Z.eqb_eq in E | apply Z.eqb_neq in E]; split; intro H;
      try discriminate; try reflexivity; lia.
  - destruct (a <? d) eqn:E; [apply Z.ltb_lt in E | apply Z.ltb_ge in E]; split; intro H;
      try discriminate; try reflexivity; lia.
Qed.
Lemma upper_validate_iff : forall u a, upper_validate_amount u a = VOk <-> SatUpper u a.
Proof.
  intros u a; destruct u as [d|]; cbn [upper_validate_amount SatUpper].
  - rewrite Z.gtb_ltb. destruct (d <? a) eqn:E; [apply Z.ltb_lt in E | apply Z.ltb_ge in E]; split;
      intro H; try discriminate; try reflexivity; lia.
  - split; reflexivity.
Qed.
Lemma andthen_ok : forall r k, andthen r k = VOk <-> r = VOk /\ k = VOk.
Proof.
  intros r k; destruct r; cbn [andthen]; split; intro H.
  - split; [reflexivity | exact H].
  - apply H.
  - discriminate.
  - destruct H; discriminate.
Qed.
Lemma g_validate_amount_iff : forall g a, 0 <= a ->
  (g_validate_amount g a = VOk <-> SatLower (lb g) a /\ SatUpper (ub g) a).
Proof.
  intros g a Ha; unfold g_validate_amount. rewrite andthen_ok, lower_validate_iff, upper_validate_iff by exact Ha.
  reflexivity.
Qed.

Theorem validate_f_iff_sat : forall c a, 0 <= a -> (validate_f c a = VOk <-> SatF c a).
Proof.
  intros c a Ha; destruct c as [|d|d|s|s|g]; cbn [validate_f SatF].
  - destruct (a =? 0) eqn:E; [apply Z.eqb_eq in E | apply Z.eqb_neq in E]; split; intro H;
      try discriminate; try reflexivity; lia.
  - destruct (a =? d) eqn:E; [apply Z.eqb_eq in E | apply Z.eqb_neq in E]; cbn [negb]; split; intro H;
      try discriminate; try reflexivity; try assumption; contradiction.
  - destruct (a <? d) eqn:E; [apply Z.ltb_lt in E | apply Z.ltb_ge in E]; split; intro H;
      try discriminate; try reflexivity; lia.
  - split; [discriminate | contradiction].
  - split; [discriminate | contradiction].
  - unfold g_validate_fungible. apply g_validate_amount_iff; exact Ha.
Qed.

Lemma allowed_validate_iff : forall al ids, allowed_validate_ids al ids = VOk <-> SatAllowed al ids.
Proof.
  intros al ids; destruct al as [l|]; cbn [allowed_validate_ids SatAllowed].
  - destruct (first_not_in ids l) eqn:E.
    + split; [discriminate|]. intro H. apply first_not_in_None in H. congruence.
    + split; [intros _; apply first_not_in_None; exact E | reflexivity].
  - split; reflexivity.
Qed.
Lemma g_validate_nf_iff : forall g ids, g_validate_nf g ids = VOk <-> SatG g ids.
Proof.
  intros g ids; unfold g_validate_nf, SatG, dec_of_len. 
  assert (Ha : 0 <= card ids * SCALE) by (pose proof (card_nonneg ids); unfold SCALE; lia).
  rewrite andthen_ok, g_validate_amount_iff by exact Ha.
  destruct (first_not_in (required g) ids) eqn:E.
  - split; [intros [_ H]; discriminate|]. intros [_ [_ [H _]]].
    apply first_not_in_None in H; congruence.
  - apply first_not_in_None in E. rewrite allowed_validate_iff. tauto.
Qed.

Theorem validate_nf_iff_sat : forall c ids, validate_nf c ids = VOk <-> SatNF c ids.
Proof.
  intros c ids; destruct c as [|d|d|s|s|g]; cbn [validate_nf SatNF]; unfold dec_of_len.
  - destruct ids; unfold len; cbn [length]; split; intro H; try discriminate; try reflexivity; lia.
  - destruct (card ids * SCALE =? d) eqn:E; [apply Z.eqb_eq in E | apply Z.eqb_neq in E]; cbn [negb];
      split; intro H; try discriminate; try reflexivity; try assumption; contradiction.
  - destruct (card ids * SCALE <? d) eqn:E; [apply Z.ltb_lt in E | apply Z.ltb_ge in E]; split; intro H;
      try discriminate; try reflexivity; lia.
  - destruct (first_not_in s ids) eqn:E1.
    + split; [discriminate|]. intro H. apply first_not_in_Some in E1. destruct E1 as [Hi Hn].
      exfalso; apply Hn, H, Hi.
    + destruct (first_not_in ids s) eqn:E2.
      * split; [discriminate|]. intro H. apply first_not_in_Some in E2. destruct E2 as [Hi Hn].
        exfalso; apply Hn, H, Hi.
      * apply first_not_in_None in E1. apply first_not_in_None in E2.
        split; [intros _ x; split; intro Hx; [apply E1|apply E2]; exact Hx | reflexivity].
  - destruct (first_not_in s ids) eqn:E1.
    + split; [discriminate|]. intro H. apply first_not_in_None in H; congruence.
    + apply first_not_in_None in E1; split; [intros _; exact E1 | reflexivity].
  - apply g_validate_nf_iff.
Qed.

(* the error that is reported names an id that really is missing / not allowed *)
Theorem validate_nf_error_witness : forall c ids i,
  (validate_nf c ids = VErr (EMissing i) -> ~ In i ids) /\
  (validate_nf c ids = VErr (ENotAllowed i) -> In i ids).
Proof.
  intros c ids i; destruct c as [|d|d|s|s|g]; cbn [validate_nf].
  - destruct ids; split; discriminate.
  - destruct (negb _); split; discriminate.
  - destruct (_ <? _); split; discriminate.
  - destruct (first_not_in s ids) eqn:E1; [|destruct (first_not_in ids s) eqn:E2].
    + apply first_not_in_Some in E1. split; [intro H; inversion H; subst; apply E1 | discriminate].
    + apply first_not_in_Some in E2. split; [discriminate | intro H; inversion H; subst; apply E2].
    + split; discriminate.
  - destruct (first_not_in s ids) eqn:E1.
    + apply first_not_in_Some in E1. split; [intro H; inversion H; subst; apply E1 | discriminate].
    + split; discriminate.
  - unfold g_validate_nf, g_validate_amount.
    destruct (lower_validate_amount (lb g) (dec_of_len ids)) eqn:EL; cbn [andthen].
    2:{ destruct (lb g); cbn in EL; [destruct (_ =? _) | destruct (_ <? _)]; inversion EL; split; discriminate. }
    destruct (upper_validate_amount (ub g) (dec_of_len ids)) eqn:EU; cbn [andthen].
    2:{ destruct (ub g); cbn in EU; [destruct (_ >? _)|]; inversion EU; split; discriminate. }
    destruct (first_not_in (required g) ids) eqn:E1.
    + apply first_not_in_Some in E1. split; [intro H; inversion H; subst; apply E1 | discriminate].
    + destruct (allowed_ids g) as [l|]; cbn [allowed_validate_ids]; [|split; discriminate].
      destruct (first_not_in ids l) eqn:E2; [|split; discriminate].
      apply first_not_in_Some in E2. split; [discriminate | intro H; inversion H; subst; apply E2].
Qed.

(* ---- normalize ---------------------------------------------------------------------------------- *)
Definition lb1 (g : general) : lower :=
  if lower_eq (lb g) <? dec_of_len (required g) then LIncl (dec_of_len (required g)) else lb g.
Definition ub1 (g : general) : upper :=
  match allowed_ids g with
  | Allowlist l => if dec_of_len l <? upper_eq (ub g) then UIncl (dec_of_len l) else ub g
  | AnyIds => ub g
  end.
Lemma normalize_unfold : forall g,
  normalize g =
  if allowlist_equivalent_length (allowed_ids g) >? len (required g) then
    if dec_of_len (required g) =? upper_eq (ub1 g) then mkGeneral (required g) (lb1 g) (ub1 g) (Allowlist (required g))
    else match allowed_ids g with
         | Allowlist l =>
             if dec_of_len l =? lower_eq (lb1 g) then mkGeneral l (lb1 g) (ub1 g) (allowed_ids g)
             else mkGeneral (required g) (lb1 g) (ub1 g) (allowed_ids g)
         | AnyIds => mkGeneral (required g) (lb1 g) (ub1 g) (allowed_ids g)
         end
  else mkGeneral (required g) (lb1 g) (ub1 g) (allowed_ids g).
Proof. reflexivity. Qed.

Lemma lb1_ge : forall g, dec_of_len (required g) <= lower_eq (lb1 g).
Proof.
  intros g; unfold lb1. destruct (lower_eq (lb g) <? dec_of_len (required g)) eqn:E;
    [apply Z.ltb_lt in E | apply Z.ltb_ge in E]; cbn [lower_eq]; lia.
Qed.
Lemma ub1_le : forall g l, allowed_ids g = Allowlist l -> upper_eq (ub1 g) <= dec_of_len l.
Proof.
  intros g l H; unfold ub1; rewrite H. destruct (dec_of_len l <? upper_eq (ub g)) eqn:E;
    [apply Z.ltb_lt in E | apply Z.ltb_ge in E]; cbn [upper_eq]; lia.
Qed.

Theorem normalize_idempotent : forall g, normalize (normalize g) = normalize g.
Proof.
  intros g.
  assert (Hlb : forall r al, dec_of_len r <= lower_eq (lb1 g) ->
            lb1 (mkGeneral r (lb1 g) (ub1 g) al) = lb1 g).
  { intros r al H; unfold lb1 at 1; cbn [lb required].
    destruct (lower_eq (lb1 g) <? dec_of_len r) eqn:E; [apply Z.ltb_lt in E; lia | reflexivity]. }
  assert (Hub : forall r al, (forall l, al = Allowlist l -> upper_eq (ub1 g) <= dec_of_len l) ->
            ub1 (mkGeneral r (lb1 g) (ub1 g) al) = ub1 g).
  { intros r al H; unfold ub1 at 1; cbn [ub allowed_ids]. destruct al as [l|]; [|reflexivity].
    specialize (H l eq_refl).
    destruct (dec_of_len l <? upper_eq (ub1 g)) eqn:E; [apply Z.ltb_lt in E; lia | reflexivity]. }
  rewrite (normalize_unfold g).
  destruct (allowlist_equivalent_length (allowed_ids g) >? len (required g)) eqn:C1.
  - destruct (dec_of_len (required g) =? upper_eq (ub1 g)) eqn:C2.
    + (* allowed := required *)
      apply Z.eqb_eq in C2.
      rewrite normalize_unfold; cbn [required allowed_ids allowlist_equivalent_length].
      assert (Hf : (len (required g) >? len (required g)) = false) by (rewrite Z.gtb_ltb; apply Z.ltb_irrefl).
      rewrite Hf. rewrite Hlb by apply lb1_ge. rewrite Hub; [reflexivity|].
      intros l Hl; inversion Hl; subst; lia.
    + destruct (allowed_ids g) as [l|] eqn:EA.
      * destruct (dec_of_len l =? lower_eq (lb1 g)) eqn:C3.
        -- (* required := allowlist *)
           apply Z.eqb_eq in C3.
           rewrite normalize_unfold; cbn [required allowed_ids allowlist_equivalent_length].
           assert (Hf : (len l >? len l) = false) by (rewrite Z.gtb_ltb; apply Z.ltb_irrefl).
           rewrite Hf. rewrite Hlb by lia. rewrite Hub; [reflexivity|].
           intros l' Hl; inversion Hl; subst. apply ub1_le; exact EA.
        -- rewrite normalize_unfold; cbn [required allowed_ids].
           rewrite Hlb by apply lb1_ge.
           rewrite Hub by (intros l' Hl; inversion Hl; subst; apply ub1_le; exact EA).
           cbn [allowlist_equivalent_length] in *. rewrite C1, C2, C3. reflexivity.
      * rewrite normalize_unfold; cbn [required allowed_ids].
        rewrite Hlb by apply lb1_ge. rewrite Hub by (intros l' Hl; discriminate).
        rewrite C1, C2. reflexivity.
  - rewrite normalize_unfold; cbn [required allowed_ids].
    rewrite Hlb by apply lb1_ge.
    rewrite Hub by (intros l' Hl; apply ub1_le; exact Hl).
    rewrite C1. reflexivity.
Qed.

(* validity, unpacked *)
Lemma valid_independent_spec : forall g, g_valid_independent g = true ->
  lower_eq (lb g) <= upper_eq (ub g) /\ dec_of_len (required g) <= upper_eq (ub g) /\
  forall l, allowed_ids g = Allowlist l -> lower_eq (lb g) <= dec_of_len l /\ incl (required g) l.
Proof.
  intros g H; unfold g_valid_independent in H. rewrite !Z.gtb_ltb in H.
  destruct (upper_eq (ub g) <? lower_eq (lb g)) eqn:E1; [discriminate|]. apply Z.ltb_ge in E1.
  destruct (upper_eq (ub g) <? dec_of_len (required g)) eqn:E2; [discriminate|]. apply Z.ltb_ge in E2.
  split; [exact E1|]. split; [exact E2|]. intros l Hl. rewrite Hl in H; cbv beta iota in H; rewrite Z.gtb_ltb in H.
  destruct (dec_of_len l <? lower_eq (lb g)) eqn:E3; [discriminate|]. apply Z.ltb_ge in E3.
  destruct (is_subset (required g) l) eqn:E4; [|discriminate]. apply is_subset_incl in E4.
  split; assumption.
Qed.

Lemma sat_lb1 : forall g a, dec_of_len (required g) <= a -> (SatLower (lb1 g) a <-> SatLower (lb g) a).
Proof.
  intros g a Ha; unfold lb1.
  destruct (lower_eq (lb g) <? dec_of_len (required g)) eqn:E; [apply Z.ltb_lt in E|reflexivity].
  cbn [SatLower]. destruct (lb g) as [|d]; cbn [lower_eq SatLower] in *; lia.
Qed.
Lemma sat_ub1 : forall g a, (forall l, allowed_ids g = Allowlist l -> a <= dec_of_len l) ->
  (SatUpper (ub1 g) a <-> SatUpper (ub g) a).
Proof.
  intros g a Ha; unfold ub1. destruct (allowed_ids g) as [l|]; [|reflexivity].
  specialize (Ha l eq_refl).
  destruct (dec_of_len l <? upper_eq (ub g)) eqn:E; [apply Z.ltb_lt in E|reflexivity].
  cbn [SatUpper]. destruct (ub g) as [d|]; cbn [upper_eq SatUpper] in *; [lia|tauto].
Qed.
Lemma sat_upper_eq : forall u a, a <= DEC_MAX -> (SatUpper u a <-> a <= upper_eq u).
Proof. intros u a Ha; destruct u; cbn [SatUpper upper_eq]; [reflexivity|tauto]. Qed.

(* non-fungible use: normalising does not change which id sets satisfy the constraint.  Only the
   id part of validity is needed (required ⊆ allow-list) *)
Theorem normalize_preserves_nf : forall g ids,
  g_valid_independent g = true -> NoDup (required g) -> NoDup ids ->
  (SatG (normalize g) ids <-> SatG g ids).
Proof.
  intros g ids Hv Hnr Hni.
  destruct (valid_independent_spec g Hv) as [_ [_ Hal]].
  set (a := card ids * SCALE).
  assert (Hreq : incl (required g) ids -> dec_of_len (required g) <= a).
  { intro H. unfold dec_of_len, a.  apply scale_le, card_incl; assumption. }
  assert (Hall : SatAllowed (allowed_ids g) ids -> forall l, allowed_ids g = Allowlist l -> a <= dec_of_len l).
  { intros H l Hl. rewrite Hl in H. cbn in H. unfold dec_of_len, a. 
    apply scale_le, card_incl; assumption. }
  rewrite normalize_unfold.
  destruct (allowlist_equivalent_length (allowed_ids g) >? len (required g)) eqn:C1.
  - destruct (dec_of_len (required g) =? upper_eq (ub1 g)) eqn:C2.
    + (* allowed := required *)
      apply Z.eqb_eq in C2. unfold SatG; cbn [lb ub required allowed_ids SatAllowed]. fold a. split.
      * intros [HL [HU [HR HA]]].
        assert (HA' : SatAllowed (allowed_ids g) ids).
        { destruct (allowed_ids g) as [l|] eqn:EA; cbn; [|exact I].
          intros x Hx. apply (proj2 (Hal l eq_refl)), HA, Hx. }
        rewrite sat_lb1 in HL by (apply Hreq; exact HR).
        rewrite sat_ub1 in HU by (apply Hall; exact HA').
        tauto.
      * intros [HL [HU [HR HA]]].
        rewrite sat_lb1 by (apply Hreq; exact HR).
        rewrite sat_ub1 by (apply Hall; exact HA).
        split; [exact HL|]. split; [exact HU|]. split; [exact HR|].
        (* |ids| <= upper' = |required| and required ⊆ ids, so ids ⊆ required *)
        assert (HU1 : SatUpper (ub1 g) a) by (apply sat_ub1; [apply Hall; exact HA | exact HU]).
        assert (Hle : a <= dec_of_len (required g)).
        { rewrite C2. destruct (ub1 g) as [d|] eqn:EU; cbn [upper_eq SatUpper] in *; [exact HU1|].
          exfalso. unfold dec_of_len in C2. apply (scale_ne_max _ C2). }
        unfold a, dec_of_len in Hle.  apply -> scale_le in Hle.
        apply card_incl_rev; assumption.
    + destruct (allowed_ids g) as [l|] eqn:EA.
      * destruct (dec_of_len l =? lower_eq (lb1 g)) eqn:C3.
        -- (* required := allow-list *)
           apply Z.eqb_eq in C3. unfold SatG; cbn [lb ub required allowed_ids SatAllowed]. fold a.
           rewrite EA; cbn [SatAllowed]. split.
           ++ intros [HL [HU [HR HA]]].
              assert (HR' : incl (required g) ids).
              { intros x Hx. apply HR, (proj2 (Hal l eq_refl)), Hx. }
              rewrite sat_lb1 in HL by (apply Hreq; exact HR').
              rewrite sat_ub1 in HU by (intros l' Hl'; rewrite EA in Hl'; apply Hall; [exact HA | exact Hl']).
              tauto.
           ++ intros [HL [HU [HR HA]]].
              assert (HL1 : SatLower (lb1 g) a) by (apply sat_lb1; [apply Hreq; exact HR | exact HL]).
              rewrite sat_lb1 by (apply Hreq; exact HR).
              rewrite sat_ub1 by (intros l' Hl'; rewrite EA in Hl'; apply Hall; [exact HA | exact Hl']).
              split; [exact HL|]. split; [exact HU|]. split; [|exact HA].
              (* |allow| = lower' <= |ids| and ids ⊆ allow, so allow ⊆ ids *)
              assert (Hle : dec_of_len l <= a).
              { rewrite C3. destruct (lb1 g) as [|d] eqn:EL; cbn [lower_eq SatLower] in *; [|exact HL1].
                exfalso. unfold dec_of_len in C3. apply (scale_ne_one _ C3). }
              unfold a, dec_of_len in Hle.  apply -> scale_le in Hle.
              apply card_incl_rev; assumption.
        -- unfold SatG; cbn [lb ub required allowed_ids]. fold a. rewrite EA. split.
           ++ intros [HL [HU [HR HA]]].
              rewrite sat_lb1 in HL by (apply Hreq; exact HR).
              rewrite sat_ub1 in HU by (intros l' Hl'; rewrite EA in Hl'; apply Hall; [exact HA | exact Hl']). tauto.
           ++ intros [HL [HU [HR HA]]].
              rewrite sat_lb1 by (apply Hreq; exact HR).
              rewrite sat_ub1 by (intros l' Hl'; rewrite EA in Hl'; apply Hall; [exact HA | exact Hl']). tauto.
      * unfold SatG; cbn [lb ub required allowed_ids]. fold a. rewrite EA. split.
        -- intros [HL [HU [HR HA]]].
           rewrite sat_lb1 in HL by (apply Hreq; exact HR).
           rewrite sat_ub1 in HU by (intros l' Hl'; rewrite EA in Hl'; discriminate). tauto.
        -- intros [HL [HU [HR HA]]].
           rewrite sat_lb1 by (apply Hreq; exact HR).
           rewrite sat_ub1 by (intros l' Hl'; rewrite EA in Hl'; discriminate). tauto.
  - unfold SatG; cbn [lb ub required allowed_ids]. fold a. split.
    + intros [HL [HU [HR HA]]].
      rewrite sat_lb1 in HL by (apply Hreq; exact HR).
      rewrite sat_ub1 in HU by (apply Hall; exact HA). tauto.
    + intros [HL [HU [HR HA]]].
      rewrite sat_lb1 by (apply Hreq; exact HR).
      rewrite sat_ub1 by (apply Hall; exact HA). tauto.
Qed.

Lemma g_valid_nf_independent : forall g, g_valid_nf g = true -> g_valid_independent g = true.
Proof. intros g H; unfold g_valid_nf in H. apply andb_true_iff in H; apply H. Qed.
Lemma g_valid_f_independent : forall g, g_valid_f g = true -> g_valid_independent g = true.
Proof. intros g H; unfold g_valid_f in H. apply andb_true_iff in H; apply H. Qed.

Theorem normalize_preserves_validate_nf : forall g ids,
  g_valid_nf g = true -> NoDup (required g) -> NoDup ids ->
  (validate_nf (General (normalize g)) ids = VOk <-> validate_nf (General g) ids = VOk).
Proof.
  intros g ids Hv Hr Hi. rewrite !validate_nf_iff_sat. cbn [SatNF].
  apply normalize_preserves_nf; [apply g_valid_nf_independent|..]; assumption.
Qed.

(* fungible use *)
Lemma valid_f_spec : forall g, g_valid_f g = true ->
  required g = [] /\ (allowed_ids g = AnyIds \/ allowed_ids g = Allowlist []) /\
  0 <= lower_eq (lb g) /\ lower_eq (lb g) <= upper_eq (ub g).
Proof.
  intros g H; unfold g_valid_f in H. repeat (apply andb_true_iff in H; destruct H as [H ?]).
  destruct (required g); [|discriminate].
  match goal with H : g_valid_independent g = true |- _ => apply valid_independent_spec in H; destruct H as [Hlu _] end.
  split; [reflexivity|]. split.
  - destruct (allowed_ids g) as [l|]; [|left; reflexivity]. destruct l; [right; reflexivity|discriminate].
  - split; [|exact Hlu]. destruct (lb g) as [|d]; cbn [lower_eq lower_valid_f] in *; [lia|].
    match goal with H : negb (d <? 0) = true |- _ => apply negb_true_iff, Z.ltb_ge in H; exact H end.
Qed.

Theorem normalize_preserves_f_except_known : forall g a,
  g_valid_f g = true -> ~ KnownClass g ->
  (validate_f (General (normalize g)) a = VOk <-> validate_f (General g) a = VOk).
Proof.
  intros g a Hv Hk. destruct (valid_f_spec g Hv) as [Hr [Hal [Hl0 Hlu]]].
  assert (Hb : lb (normalize g) = lb g /\ ub (normalize g) = ub g).
  { assert (L : lb1 g = lb g).
    { unfold lb1. rewrite Hr. change (dec_of_len []) with 0.
      destruct (lower_eq (lb g) <? 0) eqn:E; [apply Z.ltb_lt in E; lia | reflexivity]. }
    assert (U : ub1 g = ub g).
    { unfold ub1. destruct Hal as [Hal|Hal]; rewrite Hal; [reflexivity|].
      change (dec_of_len []) with 0.
      destruct (0 <? upper_eq (ub g)) eqn:E; [|reflexivity].
      apply Z.ltb_lt in E. exfalso; apply Hk; split; assumption. }
    rewrite normalize_unfold.
    destruct (_ >? _); [destruct (_ =? _); [|destruct (allowed_ids g); [destruct (_ =? _)|]]|];
      cbn [lb ub]; split; assumption. }
  destruct Hb as [Hb1 Hb2].
  cbn [validate_f]. unfold g_validate_fungible, g_validate_amount. rewrite Hb1, Hb2. reflexivity.
Qed.

Theorem normalize_preserves_f_refuted : exists g a,
  g_valid_f g = true /\ KnownClass g /\ 0 <= a /\
  validate_f (General g) a = VOk /\ validate_f (General (normalize g)) a <> VOk.
Proof.
  exists (mkGeneral [] (LIncl 0) (UIncl (100 * SCALE)) (Allowlist [])), (50 * SCALE).
  split; [vm_compute; reflexivity|]. split; [split; [reflexivity | vm_compute; reflexivity]|].
  split; [vm_compute; discriminate|]. split; [vm_compute; reflexivity | vm_compute; discriminate].
Qed.

(* ---- valid => satisfiable ----------------------------------------------------------------------- *)
Definition fresh (l : list N) : N := N.succ (fold_right N.max 0%N l).
Lemma fresh_not_in : forall l, ~ In (fresh l) l.
Proof.
  intros l H. assert (Hle : forall x, In x l -> (x <= fold_right N.max 0%N l)%N).
  { clear H. induction l as [|y l IH]; intros x Hx; [destruct Hx|]. cbn [fold_right].
    destruct Hx as [->|Hx]; [lia | specialize (IH x Hx); lia]. }
  specialize (Hle _ H). unfold fresh in Hle. lia.
Qed.
(* pad a duplicate-free set with fresh ids up to n elements *)
Lemma pad_any : forall k (req : list N) n, (n - length req = k)%nat -> NoDup req -> (length req <= n)%nat ->
  exists ids, NoDup ids /\ incl req ids /\ length ids = n.
Proof.
  induction k as [|k IH]; intros req n Hk Hn Hle.
  - exists req. split; [exact Hn|]. split; [apply incl_refl | lia].
  - destruct (IH (fresh req :: req) n) as [ids [H1 [H2 H3]]].
    + cbn [length]; lia.
    + constructor; [apply fresh_not_in | exact Hn].
    + cbn [length]; lia.
    + exists ids. split; [exact H1|]. split; [|exact H3].
      intros x Hx; apply H2; right; exact Hx.
Qed.
(* pad with ids taken from a duplicate-free allow-list *)
Lemma pad_allow : forall k (req l : list N) n, (n - length req = k)%nat -> NoDup req -> NoDup l ->
  incl req l -> (length req <= n)%nat -> (n <= length l)%nat ->
  exists ids, NoDup ids /\ incl req ids /\ incl ids l /\ length ids = n.
Proof.
  induction k as [|k IH]; intros req l n Hk Hn Hnl Hi Hle Hl.
  - exists req. split; [exact Hn|]. split; [apply incl_refl|]. split; [exact Hi | lia].
  - destruct (first_not_in l req) as [x|] eqn:E.
    + apply first_not_in_Some in E. destruct E as [Hx Hnx].
      destruct (IH (x :: req) l n) as [ids [H1 [H2 [H3 H4]]]].
      * cbn [length]; lia.
      * constructor; assumption.
      * exact Hnl.
      * intros y [->|Hy]; [exact Hx | apply Hi, Hy].
      * cbn [length]; lia.
      * exact Hl.
      * exists ids. split; [exact H1|]. split; [|split; assumption].
        intros y Hy; apply H2; right; exact Hy.
    + apply first_not_in_None in E. exfalso.
      pose proof (NoDup_incl_length Hnl E). lia.
Qed.

Theorem valid_f_satisfiable : forall c, valid_f c = true -> exists a, 0 <= a /\ validate_f c a = VOk.
Proof.
  intros c Hv; destruct c as [|d|d|s|s|g]; cbn [valid_f] in Hv; try discriminate.
  - exists 1. split; [lia | reflexivity].
  - apply negb_true_iff, Z.ltb_ge in Hv. exists d. split; [exact Hv|].
    apply validate_f_iff_sat; [exact Hv | reflexivity].
  - apply negb_true_iff, Z.ltb_ge in Hv. exists d. split; [exact Hv|].
    apply validate_f_iff_sat; [exact Hv | cbn [SatF]; lia].
  - destruct (valid_f_spec g Hv) as [_ [_ [H0 Hlu]]]. exists (lower_eq (lb g)). split; [exact H0|].
    apply validate_f_iff_sat; [exact H0|]. cbn [SatF]. split.
    + destruct (lb g); cbn [lower_eq SatLower]; lia.
    + destruct (ub g); cbn [upper_eq SatUpper] in *; [lia | exact I].
Qed.

(* the IndexSet invariant for the sets inside a constraint *)
Definition constraint_nodup (c : constraint) : Prop :=
  match c with
  | ExactNF s | AtLeastNF s => NoDup s
  | General g => NoDup (required g) /\ match allowed_ids g with Allowlist l => NoDup l | AnyIds => True end
  | _ => True
  end.

Lemma lower_klo : forall l, lower_valid_nf l = true ->
  exists k, 0 <= k /\ (forall y, lower_eq l <= y * SCALE -> k <= y) /\ (forall y, k <= y -> SatLower l (y * SCALE)).
Proof.
  intros l H; destruct l as [|d]; cbn [lower_valid_nf lower_eq SatLower] in *.
  - exists 1. split; [lia|]. split; intros y Hy; unfold SCALE in *; lia.
  - apply nonneg_integral_spec in H. destruct H as [k [Hk Hd]]. exists k. split; [exact Hk|]. subst d.
    split; intros y Hy; [apply scale_le; exact Hy | apply scale_le; exact Hy].
Qed.
Lemma upper_kup : forall u n, upper_valid_nf u = true -> n * SCALE <= upper_eq u -> SatUpper u (n * SCALE).
Proof. intros u n _ H; destruct u; cbn [upper_eq SatUpper] in *; [exact H | exact I]. Qed.

Lemma general_nf_satisfiable : forall g, g_valid_nf g = true -> constraint_nodup (General g) ->
  exists ids, NoDup ids /\ SatG g ids.
Proof.
  intros g Hv [Hnr Hnl]. unfold g_valid_nf in Hv.
  apply andb_true_iff in Hv; destruct Hv as [Hv Hind]. apply andb_true_iff in Hv; destruct Hv as [Hlo Hup].
  destruct (valid_independent_spec g Hind) as [Hlu [Hru Hal]].
  destruct (lower_klo _ Hlo) as [k [Hk [Hk1 Hk2]]].
  set (n := Z.max (len (required g)) k).
  assert (Hn0 : 0 <= n) by (unfold n, len; lia).
  assert (HnU : n * SCALE <= upper_eq (ub g)).
  { unfold n. destruct (Z.max_spec (len (required g)) k) as [[_ ->]|[_ ->]]; [|exact Hru].
    destruct (lb g) as [|d] eqn:EL; cbn [lower_eq] in *.
    - (* NonZero: k <= 1 *) assert (k <= 1) by (apply Hk1; unfold SCALE; lia).
      assert (Hu : upper_valid_nf (ub g) = true) by exact Hup.
      destruct (ub g) as [u|]; cbn [upper_eq upper_valid_nf] in *.
      + apply nonneg_integral_spec in Hu. destruct Hu as [m [Hm ->]]. apply scale_le.
        assert (1 <= m) by (unfold SCALE in Hlu; lia). lia.
      + assert (Hm : DEC_MAX = 3138550867693340381917894711603833208051177722232017256447) by reflexivity.
        rewrite Hm; unfold SCALE; lia.
    - apply nonneg_integral_spec in Hlo. destruct Hlo as [k' [Hk' ->]].
      assert (k <= k') by (apply Hk1; lia). apply Z.le_trans with (k' * SCALE); [apply scale_le; lia | exact Hlu]. }
  assert (Hlen : (length (required g) <= Z.to_nat n)%nat) by (unfold n, len; lia).
  assert (Hsat : forall ids, length ids = Z.to_nat n -> incl (required g) ids -> SatAllowed (allowed_ids g) ids -> SatG g ids).
  { intros ids Hl Hi Ha. assert (Hc : len ids = n) by (unfold len; rewrite Hl; lia).
    unfold SatG. rewrite Hc. split; [apply Hk2; unfold n; lia|].
    split; [apply upper_kup; assumption|]. split; assumption. }
  destruct (allowed_ids g) as [l|] eqn:EA.
  - destruct (Hal l eq_refl) as [Hll Hil].
    assert (HnL : (Z.to_nat n <= length l)%nat).
    { assert (n <= len l); [|unfold len in *; lia]. unfold n.
      destruct (Z.max_spec (len (required g)) k) as [[_ ->]|[_ ->]].
      - apply Hk1. exact Hll.
      - apply card_incl; assumption. }
    destruct (pad_allow _ (required g) l (Z.to_nat n) eq_refl Hnr Hnl Hil Hlen HnL) as [ids [H1 [H2 [H3 H4]]]].
    exists ids. split; [exact H1|]. apply Hsat; [exact H4 | exact H2 | exact H3].
  - destruct (pad_any _ (required g) (Z.to_nat n) eq_refl Hnr Hlen) as [ids [H1 [H2 H3]]].
    exists ids. split; [exact H1|]. apply Hsat; [exact H3 | exact H2 | exact I].
Qed.

Theorem valid_nf_satisfiable : forall c, valid_nf c = true -> constraint_nodup c ->
  exists ids, NoDup ids /\ validate_nf c ids = VOk.
Proof.
  intros c Hv Hn.
  assert (Hamount : forall d, nonneg_integral d = true -> exists ids, NoDup ids /\ len ids * SCALE = d).
  { intros d Hd. apply nonneg_integral_spec in Hd. destruct Hd as [k [Hk ->]].
    destruct (pad_any _ [] (Z.to_nat k) eq_refl (NoDup_nil _)) as [ids [H1 [_ H3]]]; [cbn; lia|].
    exists ids. split; [exact H1|]. unfold len. rewrite H3. f_equal. lia. }
  destruct c as [|d|d|s|s|g]; cbn [valid_nf] in Hv.
  - exists [0%N]. split; [constructor; [intros []|constructor] | reflexivity].
  - destruct (Hamount d Hv) as [ids [H1 H2]]. exists ids. split; [exact H1|].
    apply validate_nf_iff_sat. exact H2.
  - destruct (Hamount d Hv) as [ids [H1 H2]]. exists ids. split; [exact H1|].
    apply validate_nf_iff_sat. cbn [SatNF]. lia.
  - exists s. split; [exact Hn|]. apply validate_nf_iff_sat. cbn [SatNF]. tauto.
  - exists s. split; [exact Hn|]. apply validate_nf_iff_sat. cbn [SatNF]. apply incl_refl.
  - destruct (general_nf_satisfiable g Hv Hn) as [ids [H1 H2]]. exists ids. split; [exact H1|].
    apply validate_nf_iff_sat. exact H2.
Qed.

(* ---- ManifestResourceConstraints::validate ----------------------------------------------------- *)
Definition bal_f (b : balances) (r : raddr) : Z :=
  match lookup r (fungible_resources b) with Some a => a | None => 0 end.
Definition bal_nf (b : balances) (r : raddr) : idset :=
  match lookup r (non_fungible_resources b) with Some s => s | None => [] end.
(* the constraint on resource r is satisfied by the aggregated balance of r (absent = zero / empty) *)
Definition SatR (b : balances) (rc : raddr * constraint) : Prop :=
  if snd (fst rc) then SatF (snd rc) (bal_f b (fst rc)) else SatNF (snd rc) (bal_nf b (fst rc)).
(* no positive balance of a resource without a constraint *)
Definition NoUnexpected (cs : list (raddr * constraint)) (b : balances) : Prop :=
  (forall r a, In (r, a) (fungible_resources b) -> 0 < a -> contains_key r cs = true) /\
  (forall r s, In (r, s) (non_fungible_resources b) -> s <> [] -> contains_key r cs = true).

Lemma lookup_In : forall A r (m : list (raddr * A)) v, lookup r m = Some v -> exists k, In (k, v) m.
Proof.
  intros A r m v; induction m as [|[k w] m IH]; cbn [lookup]; [discriminate|].
  destruct (raddr_eqb r k).
  - intro H; inversion H; subst. exists k; left; reflexivity.
  - intro H. destruct (IH H) as [k' Hk']. exists k'; right; exact Hk'.
Qed.
Lemma find_none_rev : forall A (f : A -> bool) l, (forall x, In x l -> f x = false) -> find f l = None.
Proof.
  intros A f l; induction l as [|y l IH]; intro H; [reflexivity|]. cbn [find].
  rewrite (H y (or_introl eq_refl)). apply IH. intros x Hx; apply H; right; exact Hx.
Qed.

Lemma validate_each_iff : forall b, (forall r a, In (r, a) (fungible_resources b) -> 0 <= a) ->
  forall cs, validate_each cs b = CsOk <-> Forall (SatR b) cs.
Proof.
  intros b Hb cs; induction cs as [|[r c] cs IH]; cbn [validate_each].
  - split; [constructor | reflexivity].
  - assert (H0 : 0 <= bal_f b r).
    { unfold bal_f. destruct (lookup r (fungible_resources b)) eqn:E; [|lia].
      destruct (lookup_In _ _ _ _ E) as [k Hk]. exact (Hb _ _ Hk). }
    assert (Hhead : (if snd r then validate_f c (bal_f b r) else validate_nf c (bal_nf b r)) = VOk <-> SatR b (r, c)).
    { unfold SatR; cbn [fst snd]. destruct (snd r); [apply validate_f_iff_sat; exact H0 | apply validate_nf_iff_sat]. }
    fold (bal_f b r). fold (bal_nf b r).
    destruct (if snd r then validate_f c (bal_f b r) else validate_nf c (bal_nf b r)) eqn:E.
    + rewrite IH. split; [intro H; constructor; [apply Hhead; reflexivity | exact H] | intro H; inversion H; assumption].
    + split; [discriminate|]. intro H; inversion H; subst.
      match goal with H : SatR b (r, c) |- _ => apply Hhead in H; discriminate end.
Qed.

Theorem constraints_validate_iff : forall cs b prevent,
  (forall r a, In (r, a) (fungible_resources b) -> 0 <= a) ->
  (constraints_validate cs b prevent = CsOk <->
   (prevent = true -> NoUnexpected cs b) /\ Forall (SatR b) cs).
Proof.
  intros cs b prevent Hb. unfold constraints_validate. destruct prevent.
  - destruct (find _ (fungible_resources b)) as [ra|] eqn:E1.
    + split; [discriminate|]. intros [H _]. exfalso. specialize (H eq_refl). destruct H as [HF _].
      apply find_some in E1. destruct E1 as [Hin Hc]. apply andb_true_iff in Hc. destruct Hc as [Hc Hp].
      destruct ra as [r a]; cbn [fst snd] in *. rewrite Z.gtb_ltb in Hp. apply Z.ltb_lt in Hp.
      rewrite (HF r a Hin Hp) in Hc. discriminate.
    + match goal with |- context [find ?f (non_fungible_resources b)] =>
        destruct (find f (non_fungible_resources b)) as [rs|] eqn:E2 end.
      * split; [discriminate|]. intros [H _]. exfalso. specialize (H eq_refl). destruct H as [_ HN].
        apply find_some in E2. destruct E2 as [Hin Hc]. apply andb_true_iff in Hc. destruct Hc as [Hc Hp].
        destruct rs as [r s]; cbn [fst snd] in *.
        assert (Hs : s <> []) by (destruct s; [discriminate | discriminate]).
        rewrite (HN r s Hin Hs) in Hc. discriminate.
      * rewrite validate_each_iff by exact Hb. split; [|intros [_ H]; exact H].
        intro H; split; [|exact H]. intros _. split.
        -- intros r a Hin Hp. pose proof (find_none _ _ E1 (r, a) Hin) as Hn. cbn [fst snd] in Hn.
           apply andb_false_iff in Hn. destruct Hn as [Hn|Hn].
           ++ apply negb_false_iff in Hn; exact Hn.
           ++ rewrite Z.gtb_ltb in Hn. apply Z.ltb_ge in Hn. lia.
        -- intros r s Hin Hs. pose proof (find_none _ _ E2 (r, s) Hin) as Hn. cbn [fst snd] in Hn.
           apply andb_false_iff in Hn. destruct Hn as [Hn|Hn].
           ++ apply negb_false_iff in Hn; exact Hn.
           ++ destruct s; [contradiction | discriminate].
  - rewrite validate_each_iff by exact Hb. split; [intro H; split; [discriminate | exact H] | intros [_ H]; exact H].
Qed.
