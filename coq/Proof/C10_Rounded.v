(* C10 — rounded withdrawals: what take_advanced takes, and when it succeeds. *)
From Coq Require Import List ZArith NArith Bool Lia.
Import ListNotations.
Require RV.Lib.DecCore RV.Lib.DecCoreFacts RV.Model.C25_Round RV.Props.C25.
Require Import RV.Model.C10_ProofLock RV.Model.C10_Rounded RV.Proof.C10_ProofLock.
Open Scope Z_scope.

Lemma unit_of_pos : forall div, 0 <= div <= 18 -> 0 < unit_of div.
Proof. intros div H. unfold unit_of. apply Z.pow_pos_nonneg; lia. Qed.

(* with the Exact strategy take_advanced is take *)
Lemma take_adv_exact : forall div a c, f_take_adv div C25_Round.WExact a c = f_take div a c.
Proof. reflexivity. Qed.

(* Rounded(m): the amount is first rounded to a multiple of 10^(18-div) as the mode prescribes
   (C25's specification round_spec); if that is not representable the call fails with
   DecimalOverflow; otherwise exactly the rounded amount r is taken, and that succeeds iff
   0 <= r <= total - max(live proofs) *)
Lemma take_adv_rounded : forall c ps div m x, Good c ps -> DecCore.InF DecCore.DEC x -> 0 <= div <= 18 ->
  let r := C25_Round.round_spec m (unit_of div) x in
  (DecCore.in_f DecCore.DEC r = false -> f_take_adv div (C25_Round.WRounded m) x c = Err EOverflow) /\
  (DecCore.in_f DecCore.DEC r = true ->
     f_take_adv div (C25_Round.WRounded m) x c = f_take div r c /\
     r mod unit_of div = 0 /\ Z.abs (r - x) < unit_of div /\ (x mod unit_of div = 0 -> r = x) /\
     ((exists c', f_take_adv div (C25_Round.WRounded m) x c = Ok (c', r)) <-> 0 <= r <= total c - lmax ps)).
Proof.
  intros c ps div m x HG Hx Hdiv r.
  destruct (C25.C25_for_withdrawal x div m Hx Hdiv) as [_ Hw]. cbv zeta in Hw. fold (unit_of div) in Hw. fold r in Hw.
  pose proof (unit_of_pos div Hdiv) as Hu.
  destruct (C25.C25_spec_meaning m (unit_of div) x Hu) as (Hmod & Habs & Hfix & _). fold r in Hmod, Habs, Hfix.
  split.
  - intros Hin. unfold f_take_adv. rewrite Hw, Hin. reflexivity.
  - intros Hin. unfold f_take_adv. rewrite Hw, Hin. split; [reflexivity|]. split; [exact Hmod|]. split; [exact Habs|]. split; [exact Hfix|].
    rewrite (take_iff c ps div r HG). unfold check_fungible_amount. rewrite Hmod, Z.eqb_refl, andb_true_r.
    rewrite Z.leb_le. tauto.
Qed.
