(* C17 — association lists of the specification side (Model/C17_Smt.v: a_get / a_set / a_remove) *)
From Coq Require Import List NArith Bool Lia.
Import ListNotations.
Require Import RV.Model.C17_Jmt RV.Model.C17_Smt RV.Proof.C17_Base.
Open Scope N_scope.

Section ASSOCP.
  Context {V : Type}.
  Notation al := (list (list N * V)).

  Lemma leqb_comm : forall a b, leqb a b = leqb b a.
  Proof.
    intros a b. destruct (leqb a b) eqn:E.
    - apply leqb_eq in E. subst. symmetry. apply leqb_refl.
    - symmetry. apply leqb_false. apply leqb_false in E. congruence.
  Qed.

  Lemma a_get_remove : forall k k' (l : al),
    a_get k (a_remove k' l) = if leqb k k' then None else a_get k l.
  Proof.
    intros k k' l. unfold a_remove. induction l as [|[k2 v2] r IH]; cbn [filter a_get fst].
    - destruct (leqb k k'); reflexivity.
    - destruct (leqb k' k2) eqn:E1; cbn [negb].
      + rewrite IH. apply leqb_eq in E1. subst k2. destruct (leqb k k'); reflexivity.
      + cbn [a_get]. rewrite IH. destruct (leqb k k2) eqn:E2; [|reflexivity].
        apply leqb_eq in E2. subst k2. rewrite (leqb_comm k k'), E1. reflexivity.
  Qed.
  Lemma a_get_set : forall k k' v (l : al),
    a_get k (a_set k' v l) = if leqb k k' then Some v else a_get k l.
  Proof.
    intros. unfold a_set. cbn [a_get]. rewrite a_get_remove. destruct (leqb k k'); reflexivity.
  Qed.

  Lemma a_remove_keys : forall k (l : al) x, In x (map fst (a_remove k l)) -> In x (map fst l) /\ x <> k.
  Proof.
    intros k l x Hin. apply in_map_iff in Hin. destruct Hin as ([k2 v2] & E & Hin). cbn in E. subst k2.
    apply filter_In in Hin. destruct Hin as [Hin Hf]. cbn [fst] in Hf. apply negb_true_iff in Hf.
    split; [apply in_map_iff; exists (x, v2); split; [reflexivity|exact Hin]|].
    intro E. subst. rewrite leqb_refl in Hf. discriminate.
  Qed.
  Lemma nodup_remove : forall k (l : al), NoDup (map fst l) -> NoDup (map fst (a_remove k l)).
  Proof.
    intros k l. unfold a_remove. induction l as [|[k2 v2] r IH]; intro ND; [constructor|].
    inversion ND; subst. cbn [filter fst]. destruct (negb (leqb k k2)); [|apply IH; assumption].
    cbn [map fst]. constructor; [|apply IH; assumption].
    intro Hin. apply H1. apply (a_remove_keys k r k2). exact Hin.
  Qed.
  Lemma nodup_set : forall k v (l : al), NoDup (map fst l) -> NoDup (map fst (a_set k v l)).
  Proof.
    intros k v l ND. unfold a_set. cbn [map fst]. constructor; [|apply nodup_remove; exact ND].
    intro Hin. apply a_remove_keys in Hin. destruct Hin as [_ Hn]. congruence.
  Qed.

  Lemma a_get_in : forall k v (l : al), NoDup (map fst l) -> (In (k, v) l <-> a_get k l = Some v).
  Proof.
    intros k v l. induction l as [|[k2 v2] r IH]; intro ND; cbn [a_get In]; [split; [intros []|discriminate]|].
    inversion ND; subst. destruct (leqb k k2) eqn:E.
    - apply leqb_eq in E. subst k2. split.
      + intros [E|Hin]; [congruence|]. exfalso. apply H1. apply (in_map fst) in Hin. exact Hin.
      + intro E. left. congruence.
    - apply leqb_false in E. rewrite <- IH by assumption. split; [intros [E2|Hin]; [congruence|exact Hin]|intro; right; assumption].
  Qed.
  Lemma a_get_none_all : forall (l : al), (forall k, a_get k l = None) -> l = [].
  Proof.
    intros [|[k v] r] Hn; [reflexivity|]. specialize (Hn k). cbn in Hn. rewrite leqb_refl in Hn. discriminate.
  Qed.
  Lemma a_get_some_key : forall k v (l : al), a_get k l = Some v -> In k (map fst l).
  Proof.
    intros k v l. induction l as [|[k2 v2] r IH]; cbn [a_get]; [discriminate|].
    destruct (leqb k k2) eqn:E; [apply leqb_eq in E; subst; intros _; left; reflexivity|intro E2; right; apply IH; exact E2].
  Qed.
End ASSOCP.
