(* C39 — proofs about the account guarded-deposit model. *)
From Coq Require Import List NArith ZArith Bool Lia.
Import ListNotations.
Require Import RV.Model.C39_AccountDeposit.
Open Scope Z_scope.

(* ---------- the specification vocabulary ---------- *)
Definition allowed_all (a : account) (bs : list bucket) : bool :=
  forallb (fun b => is_deposit_allowed a (fst b)) bs.
Definition listed (a : account) (c : ctx) : bool :=
  match named c with Some b => memN b (a_auth a) | None => false end.
Definition proven (c : ctx) : bool :=
  match named c with Some b => memN b (proofs c) | None => false end.
Definition offending (a : account) (bs : list bucket) : list bucket :=
  filter (fun b => negb (is_deposit_allowed a (fst b))) bs.
Fixpoint sum_for (r : res) (bs : list bucket) : Z :=
  match bs with [] => 0 | b :: bs' => (if N.eqb r (fst b) then snd b else 0) + sum_for r bs' end.

Lemma offending_nil : forall a bs, offending a bs = [] <-> allowed_all a bs = true.
Proof.
  intros a bs. unfold offending, allowed_all. induction bs as [|b bs IH]; cbn; [tauto|].
  destruct (is_deposit_allowed a (fst b)); cbn.
  - exact IH.
  - split; intros H; discriminate.
Qed.

(* ---------- decision ---------- *)
Lemma refund_v2_spec : forall a bs c,
  (allowed_all a bs = true \/ (listed a c = true /\ proven c = true) -> refund_v2 a bs c = RDeposited (deposit_batch a bs)) /\
  (allowed_all a bs = false -> listed a c = true -> proven c = false -> refund_v2 a bs c = RErr EBadgeNotPresent) /\
  (allowed_all a bs = false -> listed a c = false -> refund_v2 a bs c = RRefunded (offending a bs)).
Proof.
  intros a bs c. unfold refund_v2. fold (offending a bs).
  destruct (offending a bs) as [|o os] eqn:Eo.
  - assert (Ha : allowed_all a bs = true) by (apply offending_nil; exact Eo).
    repeat split; intros; try reflexivity; congruence.
  - assert (Ha : allowed_all a bs = false).
    { destruct (allowed_all a bs) eqn:E; [|reflexivity]. apply offending_nil in E. congruence. }
    unfold listed, proven. destruct (named c) as [bd|]; cbn.
    + destruct (memN bd (a_auth a)); destruct (memN bd (proofs c)); repeat split; intros;
        try reflexivity; try congruence; try (destruct H as [H|[H1 H2]]; congruence).
    + repeat split; intros; try reflexivity; try congruence; destruct H as [H|[H1 H2]]; congruence.
Qed.

Lemma refund_v1_spec : forall a bs c,
  (allowed_all a bs = true \/ (listed a c = true /\ proven c = true) -> refund_v1 a bs c = RDeposited (deposit_batch a bs)) /\
  (allowed_all a bs = false -> listed a c = true -> proven c = false -> refund_v1 a bs c = RErr EBadgeNotPresent) /\
  (allowed_all a bs = false -> listed a c = false ->
     refund_v1 a bs c = match named c with Some _ => RErr ENotAnAuthorizedDepositor | None => RRefunded (offending a bs) end).
Proof.
  intros a bs c. unfold refund_v1. fold (offending a bs).
  destruct (offending a bs) as [|o os] eqn:Eo.
  - assert (Ha : allowed_all a bs = true) by (apply offending_nil; exact Eo).
    repeat split; intros; try reflexivity; congruence.
  - assert (Ha : allowed_all a bs = false).
    { destruct (allowed_all a bs) eqn:E; [|reflexivity]. apply offending_nil in E. congruence. }
    unfold listed, proven. destruct (named c) as [bd|]; cbn.
    + destruct (memN bd (a_auth a)); destruct (memN bd (proofs c)); repeat split; intros;
        try reflexivity; try congruence; try (destruct H as [H|[H1 H2]]; congruence).
    + repeat split; intros; try reflexivity; try congruence; destruct H as [H|[H1 H2]]; congruence.
Qed.

(* the current code (Bottlenose and later) *)
Theorem decision : forall a v bs c,
  (allowed_all a bs = true \/ (listed a c = true /\ proven c = true) ->
     try_deposit true a v bs c = (deposit_batch a bs, Deposited)) /\
  (allowed_all a bs = false -> listed a c = true -> proven c = false ->
     try_deposit true a v bs c = (a, Failed EBadgeNotPresent)) /\
  (allowed_all a bs = false -> listed a c = false ->
     try_deposit true a v bs c =
       (a, match v with
           | SingleRefund | BatchRefund => Refunded (offending a bs)
           | SingleAbort => Failed (match named c with Some _ => ENotAnAuthorizedDepositor | None => EDepositIsDisallowed end)
           | BatchAbort => Failed (match named c with Some _ => ENotAnAuthorizedDepositor | None => ENotAllBuckets end)
           end)).
Proof.
  intros a v bs c.
  destruct (refund_v2_spec a bs c) as (A2 & B2 & C2). destruct (refund_v1_spec a bs c) as (A1 & B1 & C1).
  repeat split; intros; destruct v; unfold try_deposit;
    try (rewrite A2 by assumption; reflexivity); try (rewrite A1 by assumption; reflexivity);
    try (rewrite B2 by assumption; reflexivity); try (rewrite B1 by assumption; reflexivity);
    try (rewrite C2 by assumption; reflexivity);
    try (rewrite C1 by assumption; destruct (named c); reflexivity).
Qed.

Corollary deposited_iff : forall a v bs c,
  snd (try_deposit true a v bs c) = Deposited <->
  (allowed_all a bs = true \/ (listed a c = true /\ proven c = true)).
Proof.
  intros a v bs c. destruct (decision a v bs c) as (A & B & C). split.
  - intros H. destruct (allowed_all a bs) eqn:Ea; [left; reflexivity|]. right.
    destruct (listed a c) eqn:El.
    + destruct (proven c) eqn:Ep; [split; reflexivity|]. rewrite (B eq_refl eq_refl eq_refl) in H. discriminate.
    + rewrite (C eq_refl eq_refl) in H. destruct v; cbn in H; discriminate.
  - intros H. rewrite (A H). reflexivity.
Qed.

(* the code before Bottlenose: naming an unlisted badge fails the call in every variant *)
Theorem decision_pre_bottlenose : forall a v bs c,
  (allowed_all a bs = true \/ (listed a c = true /\ proven c = true) ->
     try_deposit false a v bs c = (deposit_batch a bs, Deposited)) /\
  (allowed_all a bs = false -> listed a c = true -> proven c = false ->
     try_deposit false a v bs c = (a, Failed EBadgeNotPresent)) /\
  (allowed_all a bs = false -> listed a c = false ->
     try_deposit false a v bs c =
       (a, match named c with
           | Some _ => Failed ENotAnAuthorizedDepositor
           | None => match v with
                     | SingleRefund | BatchRefund => Refunded (offending a bs)
                     | SingleAbort => Failed EDepositIsDisallowed
                     | BatchAbort => Failed ENotAllBuckets
                     end
           end)).
Proof.
  intros a v bs c. destruct (refund_v1_spec a bs c) as (A1 & B1 & C1).
  repeat split; intros; destruct v; unfold try_deposit;
    try (rewrite A1 by assumption; reflexivity);
    try (rewrite B1 by assumption; reflexivity);
    try (rewrite C1 by assumption; destruct (named c); reflexivity).
Qed.

(* ---------- frame ---------- *)
Lemma lookup_remove_key_ne : forall A (k r : N) (l : list (N * A)), r <> k -> lookup r (remove_key k l) = lookup r l.
Proof.
  intros A k r l Hne. induction l as [|[k' v] l IH]; cbn; [reflexivity|].
  destruct (N.eqb k k') eqn:E.
  - apply N.eqb_eq in E. subst k'. rewrite IH. assert (H : N.eqb r k = false) by (apply N.eqb_neq; exact Hne).
    rewrite H. reflexivity.
  - cbn. rewrite IH. reflexivity.
Qed.
Lemma lookup_set_key : forall A (k r : N) (v : A) l,
  lookup r (set_key k v l) = if N.eqb r k then Some v else lookup r l.
Proof.
  intros A k r v l. unfold set_key. cbn. destruct (N.eqb r k) eqn:E; [reflexivity|].
  apply lookup_remove_key_ne. apply N.eqb_neq. exact E.
Qed.

Lemma deposit_cfg : forall a b, a_default (deposit a b) = a_default a /\ a_prefs (deposit a b) = a_prefs a /\ a_auth (deposit a b) = a_auth a.
Proof. intros; cbn; auto. Qed.
Lemma deposit_batch_cfg : forall bs a,
  a_default (deposit_batch a bs) = a_default a /\ a_prefs (deposit_batch a bs) = a_prefs a /\ a_auth (deposit_batch a bs) = a_auth a.
Proof.
  induction bs as [|b bs IH]; intros a; cbn; [auto|]. destruct (IH (deposit a b)) as (H1 & H2 & H3).
  unfold deposit_batch in *. cbn in *. rewrite H1, H2, H3. auto.
Qed.

Lemma balance_deposit : forall a b r,
  balance (deposit a b) r = if N.eqb r (fst b) then balance a r + snd b else balance a r.
Proof.
  intros a b r. unfold balance at 1. cbn [deposit a_vaults]. rewrite lookup_set_key.
  destruct (N.eqb r (fst b)) eqn:E.
  - apply N.eqb_eq in E. subst. reflexivity.
  - reflexivity.
Qed.

Lemma sum_for_notin : forall r bs, memN r (map fst bs) = false -> sum_for r bs = 0.
Proof.
  intros r bs. induction bs as [|b bs IH]; intros H; [reflexivity|].
  assert (Hm : memN r (map fst (b :: bs)) = N.eqb r (fst b) || memN r (map fst bs)) by reflexivity.
  rewrite Hm in H. apply orb_false_elim in H. destruct H as [H1 H2].
  change (sum_for r (b :: bs)) with ((if N.eqb r (fst b) then snd b else 0) + sum_for r bs).
  rewrite H1, (IH H2). reflexivity.
Qed.

Lemma deposit_batch_vaults : forall bs a r,
  lookup r (a_vaults (deposit_batch a bs)) =
  if memN r (map fst bs) then Some (balance a r + sum_for r bs) else lookup r (a_vaults a).
Proof.
  induction bs as [|b bs IH]; intros a r.
  - reflexivity.
  - change (deposit_batch a (b :: bs)) with (deposit_batch (deposit a b) bs). rewrite IH.
    assert (Hm : memN r (map fst (b :: bs)) = N.eqb r (fst b) || memN r (map fst bs)) by reflexivity.
    rewrite Hm. change (sum_for r (b :: bs)) with ((if N.eqb r (fst b) then snd b else 0) + sum_for r bs).
    rewrite balance_deposit.
    destruct (N.eqb r (fst b)) eqn:E; cbn [orb].
    + destruct (memN r (map fst bs)) eqn:Em.
      * f_equal; lia.
      * cbn [deposit a_vaults]. rewrite lookup_set_key, E. rewrite (sum_for_notin r bs Em). apply N.eqb_eq in E. subst. f_equal; lia.
    + destruct (memN r (map fst bs)) eqn:Em.
      * f_equal; lia.
      * cbn [deposit a_vaults]. rewrite lookup_set_key, E. reflexivity.
Qed.

Lemma refund_v1_cases : forall a bs c,
  refund_v1 a bs c = RDeposited (deposit_batch a bs) \/ (exists rej, refund_v1 a bs c = RRefunded rej) \/
  (exists e, refund_v1 a bs c = RErr e).
Proof.
  intros a bs c. unfold refund_v1.
  destruct (filter (fun b => negb (is_deposit_allowed a (fst b))) bs); [left; reflexivity|].
  destruct (named c) as [bd|]; [|right; left; eexists; reflexivity].
  destruct (memN bd (a_auth a)); [|right; right; eexists; reflexivity].
  destruct (memN bd (proofs c)); [left; reflexivity|right; right; eexists; reflexivity].
Qed.
Lemma refund_v2_cases : forall a bs c,
  refund_v2 a bs c = RDeposited (deposit_batch a bs) \/ (exists rej, refund_v2 a bs c = RRefunded rej) \/
  (exists e, refund_v2 a bs c = RErr e).
Proof.
  intros a bs c. unfold refund_v2.
  destruct (filter (fun b => negb (is_deposit_allowed a (fst b))) bs); [left; reflexivity|].
  destruct (named c) as [bd|]; [|right; left; eexists; reflexivity].
  destruct (memN bd (a_auth a)); [|right; left; eexists; reflexivity].
  destruct (memN bd (proofs c)); [left; reflexivity|right; right; eexists; reflexivity].
Qed.

Lemma try_deposit_cases : forall bn a v bs c,
  try_deposit bn a v bs c = (deposit_batch a bs, Deposited) \/
  (fst (try_deposit bn a v bs c) = a /\ snd (try_deposit bn a v bs c) <> Deposited).
Proof.
  intros bn a v bs c. unfold try_deposit.
  destruct v, bn;
    try (destruct (refund_v2_cases a bs c) as [H|[[x H]|[x H]]]; rewrite H;
         [left; reflexivity|right; split; [reflexivity|discriminate]|right; split; [reflexivity|discriminate]]);
    (destruct (refund_v1_cases a bs c) as [H|[[x H]|[x H]]]; rewrite H;
         [left; reflexivity|right; split; [reflexivity|discriminate]|right; split; [reflexivity|discriminate]]).
Qed.

(* only this account's vaults of the deposited resources change; a call that does not deposit
   changes nothing; a deposit adds exactly the bucket amounts *)
Theorem frame : forall bn a v bs c,
  let a' := fst (try_deposit bn a v bs c) in
  a_default a' = a_default a /\ a_prefs a' = a_prefs a /\ a_auth a' = a_auth a /\
  (forall r, memN r (map fst bs) = false -> lookup r (a_vaults a') = lookup r (a_vaults a)) /\
  (snd (try_deposit bn a v bs c) = Deposited ->
     forall r, memN r (map fst bs) = true -> lookup r (a_vaults a') = Some (balance a r + sum_for r bs)) /\
  (snd (try_deposit bn a v bs c) <> Deposited -> a' = a).
Proof.
  intros bn a v bs c a'. subst a'.
  destruct (try_deposit_cases bn a v bs c) as [H | [H1 H2]].
  - rewrite H. cbn [fst snd]. destruct (deposit_batch_cfg bs a) as (D1 & D2 & D3).
    repeat split; auto.
    + intros r Hr. rewrite deposit_batch_vaults, Hr. reflexivity.
    + intros _ r Hr. rewrite deposit_batch_vaults, Hr. reflexivity.
    + intros Hn. exfalso. apply Hn. reflexivity.
  - rewrite H1. repeat split; auto. intros Hd. contradiction.
Qed.

(* ---------- AllowExisting ---------- *)
Theorem allow_existing : forall a r,
  a_default a = AllowExisting -> lookup r (a_prefs a) = None ->
  (is_deposit_allowed a r = true <-> (r = XRD \/ has_vault a r = true)).
Proof.
  intros a r Hd Hp. unfold is_deposit_allowed. rewrite Hp, Hd. split.
  - intros H. apply orb_prop in H. destruct H as [H|H]; [left; apply N.eqb_eq; exact H|right; exact H].
  - intros [H|H]; apply orb_true_intro; [left; apply N.eqb_eq; exact H|right; exact H].
Qed.

(* an explicit preference decides whatever the default rule and the vaults are *)
Theorem preference_decides : forall a r p,
  lookup r (a_prefs a) = Some p -> is_deposit_allowed a r = match p with Allowed => true | Disallowed => false end.
Proof. intros a r p H. unfold is_deposit_allowed. rewrite H. destruct p; reflexivity. Qed.

(* ---------- resource history: a vault exists iff the resource was deposited before ---------- *)
Definition deposits_of (o : op) : list bucket :=
  match o with OTry _ bs _ => bs | ODeposit bs => bs | _ => [] end.

Lemma has_vault_lookup : forall a r, has_vault a r = true <-> lookup r (a_vaults a) <> None.
Proof. intros a r. unfold has_vault. destruct (lookup r (a_vaults a)); split; intros; congruence. Qed.

Theorem vault_step : forall bn a o r,
  has_vault (fst (step bn a o)) r = true <->
  (has_vault a r = true \/ (snd (step bn a o) = Deposited /\ memN r (map fst (deposits_of o)) = true)).
Proof.
  intros bn a o r. destruct o as [v bs c|bs|r0 amt|d|r0 p|r0|b|b]; cbn [step deposits_of map].
  - destruct (try_deposit_cases bn a v bs c) as [H | [H1 H2]].
    + rewrite H. cbn [fst snd]. unfold has_vault at 1. rewrite deposit_batch_vaults.
      destruct (memN r (map fst bs)) eqn:E.
      * split; [intros _; right; auto|reflexivity].
      * fold (has_vault a r). split; [intros H'; left; exact H'|intros [H'|[_ H']]; [exact H'|discriminate]].
    + rewrite H1. split; [intros H'; left; exact H'|intros [H'|[H' _]]; [exact H'|contradiction]].
  - cbn [fst snd]. unfold has_vault at 1. rewrite deposit_batch_vaults.
    destruct (memN r (map fst bs)) eqn:E.
    + split; [intros _; right; auto|reflexivity].
    + fold (has_vault a r). split; [intros H'; left; exact H'|intros [H'|[_ H']]; [exact H'|discriminate]].
  - cbn. destruct (lookup r0 (a_vaults a)) as [b|] eqn:El.
    + destruct ((0 <=? amt) && (amt <=? b)); cbn [fst snd].
      * unfold has_vault at 1. cbn [with_vaults a_vaults]. rewrite lookup_set_key.
        destruct (N.eqb r r0) eqn:E.
        -- apply N.eqb_eq in E. subst r0. unfold has_vault. rewrite El.
           split; [intros _; left; reflexivity|reflexivity].
        -- fold (has_vault a r). split; [intros H'; left; exact H'|intros [H'|[_ H']]; [exact H'|discriminate]].
      * split; [intros H'; left; exact H'|intros [H'|[H' _]]; [exact H'|discriminate]].
    + cbn [fst snd]. split; [intros H'; left; exact H'|intros [H'|[H' _]]; [exact H'|discriminate]].
  - cbn. split; [intros H'; left; exact H'|intros [H'|[_ H']]; [exact H'|discriminate]].
  - cbn. split; [intros H'; left; exact H'|intros [H'|[_ H']]; [exact H'|discriminate]].
  - cbn. split; [intros H'; left; exact H'|intros [H'|[_ H']]; [exact H'|discriminate]].
  - cbn. split; [intros H'; left; exact H'|intros [H'|[_ H']]; [exact H'|discriminate]].
  - cbn. split; [intros H'; left; exact H'|intros [H'|[_ H']]; [exact H'|discriminate]].
Qed.

(* over every history: the final account has a vault of r iff it had one initially or some step
   of the history deposited a bucket of r *)
Theorem vault_history : forall bn ops a r,
  has_vault (final bn a ops) r = true <->
  (has_vault a r = true \/
   exists e, In e (run bn a ops) /\ snd e = Deposited /\ memN r (map fst (deposits_of (snd (fst (fst e))))) = true).
Proof.
  intros bn ops. induction ops as [|o ops IH]; intros a r.
  - cbn. split; [intros H; left; exact H|intros [H|[e [[] _]]]; exact H].
  - cbn [final fold_left run]. change (fold_left (fun a0 o0 => fst (step bn a0 o0)) ops (fst (step bn a o)))
      with (final bn (fst (step bn a o)) ops).
    rewrite IH. rewrite vault_step. split.
    + intros [[H|[H1 H2]]|[e [Hin He]]].
      * left; exact H.
      * right. exists (a, o, fst (step bn a o), snd (step bn a o)). split; [left; reflexivity|]. cbn. auto.
      * right. exists e. split; [right; exact Hin|exact He].
    + intros [H|[e [[<-|Hin] He]]].
      * left; left; exact H.
      * cbn in He. left; right. exact He.
      * right. exists e. auto.
Qed.

(* ------------------------------------------------------------------------------------------ *)
(* several accounts *)
Definition same_acct (a b : account) : Prop :=
  a_default a = a_default b /\ a_prefs a = a_prefs b /\ a_auth a = a_auth b /\
  forall r, lookup r (a_vaults a) = lookup r (a_vaults b).
Lemma same_acct_refl : forall a, same_acct a a.
Proof. intros a. repeat split. Qed.

Definition parties (o : wop) : list N :=
  match o with
  | WTry src tgt _ _ _ => [src; tgt]
  | WDeposit src tgt _ => [src; tgt]
  | WWithdraw tgt _ _ dst => [tgt; dst]
  | WConfig tgt _ => [tgt]
  end.

Lemma wget_wset : forall w a x b, wget (wset w a x) b = if N.eqb b a then x else wget w b.
Proof. intros w a x b. unfold wget, wset. rewrite lookup_set_key. destruct (N.eqb b a); reflexivity. Qed.

(* FRAME over the world: an account that is not a party of the transaction is exactly as before *)
Theorem world_frame : forall bn w o a, ~ In a (parties o) -> wget (fst (wstep bn w o)) a = wget w a.
Proof.
  intros bn w o a Hn. destruct o as [src tgt v bs c|src tgt bs|tgt r amt dst|tgt o]; cbn [parties] in Hn; cbn [wstep].
  - assert (Hs : N.eqb a src = false) by (apply N.eqb_neq; intros E; apply Hn; subst; left; reflexivity).
    assert (Ht : N.eqb a tgt = false) by (apply N.eqb_neq; intros E; apply Hn; subst; right; left; reflexivity).
    destruct (N.eqb src tgt); [reflexivity|]. destruct (take_buckets (wget w src) bs); [|reflexivity].
    destruct (try_deposit bn (wget w tgt) v bs c) as [t' [|rej|e]]; cbn [fst].
    + rewrite !wget_wset, Ht, Hs. reflexivity.
    + rewrite wget_wset, Hs. reflexivity.
    + reflexivity.
  - assert (Hs : N.eqb a src = false) by (apply N.eqb_neq; intros E; apply Hn; subst; left; reflexivity).
    assert (Ht : N.eqb a tgt = false) by (apply N.eqb_neq; intros E; apply Hn; subst; right; left; reflexivity).
    destruct (N.eqb src tgt); [reflexivity|]. destruct (take_buckets (wget w src) bs); [|reflexivity].
    cbn [fst]. rewrite !wget_wset, Ht, Hs. reflexivity.
  - assert (Ht : N.eqb a tgt = false) by (apply N.eqb_neq; intros E; apply Hn; subst; left; reflexivity).
    assert (Hd : N.eqb a dst = false) by (apply N.eqb_neq; intros E; apply Hn; subst; right; left; reflexivity).
    destruct (N.eqb tgt dst); [reflexivity|].
    destruct (step bn (wget w tgt) (OWithdraw r amt)) as [t' [|rej|e]]; cbn [fst]; try reflexivity.
    rewrite !wget_wset, Hd, Ht. reflexivity.
  - assert (Ht : N.eqb a tgt = false) by (apply N.eqb_neq; intros E; apply Hn; subst; left; reflexivity).
    destruct (is_config o); [|reflexivity]. cbn [fst]. rewrite wget_wset, Ht. reflexivity.
Qed.

(* what withdrawing the buckets does to the source *)
Lemma take_buckets_spec : forall bs a a', take_buckets a bs = Some a' ->
  a_default a' = a_default a /\ a_prefs a' = a_prefs a /\ a_auth a' = a_auth a /\
  forall r, lookup r (a_vaults a') =
            if memN r (map fst bs) then Some (balance a r - sum_for r bs) else lookup r (a_vaults a).
Proof.
  induction bs as [|[r0 amt] bs IH]; intros a a' H; cbn [take_buckets] in H.
  - inversion H. subst. repeat split.
  - destruct (lookup r0 (a_vaults a)) as [b|] eqn:El; [|discriminate].
    destruct ((0 <=? amt) && (amt <=? b)); [|discriminate].
    destruct (IH _ _ H) as (D1 & D2 & D3 & D4). cbn in D1, D2, D3. repeat split; auto.
    intros r. rewrite D4. cbn [with_vaults a_vaults].
    change (memN r (map fst ((r0, amt) :: bs))) with (N.eqb r r0 || memN r (map fst bs)).
    change (sum_for r ((r0, amt) :: bs)) with ((if N.eqb r (fst (r0, amt)) then snd (r0, amt) else 0) + sum_for r bs).
    cbn [fst snd]. unfold balance at 1. cbn [with_vaults a_vaults]. rewrite lookup_set_key.
    destruct (N.eqb r r0) eqn:E; cbn [orb].
    + apply N.eqb_eq in E. subst r0. unfold balance. rewrite El.
      destruct (memN r (map fst bs)) eqn:Em.
      * f_equal; lia.
      * rewrite (sum_for_notin r bs Em). f_equal; lia.
    + destruct (memN r (map fst bs)); [f_equal; unfold balance; lia|reflexivity].
Qed.

(* withdrawing buckets and getting all of them back restores the account (refund path) *)
Lemma take_then_return : forall bs a a', take_buckets a bs = Some a' -> same_acct (deposit_batch a' bs) a.
Proof.
  intros bs a a' H. destruct (take_buckets_spec _ _ _ H) as (D1 & D2 & D3 & D4).
  destruct (deposit_batch_cfg bs a') as (E1 & E2 & E3).
  repeat split; try congruence. intros r. rewrite deposit_batch_vaults.
  destruct (memN r (map fst bs)) eqn:Em.
  - unfold balance at 1. rewrite D4, Em.
    assert (Hex : lookup r (a_vaults a) <> None).
    { clear - H Em. revert a a' H. induction bs as [|[r0 amt] bs IH]; intros a a' H; [discriminate|].
      cbn [take_buckets] in H. destruct (lookup r0 (a_vaults a)) as [b|] eqn:El; [|discriminate].
      destruct ((0 <=? amt) && (amt <=? b)); [|discriminate].
      change (memN r (map fst ((r0, amt) :: bs))) with (N.eqb r r0 || memN r (map fst bs)) in Em.
      destruct (N.eqb r r0) eqn:E.
      - apply N.eqb_eq in E. subst. rewrite El. discriminate.
      - cbn in Em. specialize (IH Em _ _ H). cbn [with_vaults a_vaults] in IH. rewrite lookup_set_key, E in IH. exact IH. }
    unfold balance. destruct (lookup r (a_vaults a)) as [b|]; [f_equal; lia|contradiction].
  - rewrite D4, Em. reflexivity.
Qed.

(* the guarded deposit transaction over the world: target as in C39_frame, source pays exactly the
   buckets when everything is deposited and is restored otherwise, per-resource totals conserved *)
Theorem world_try : forall bn w src tgt v bs c, src <> tgt ->
  let w' := fst (wstep bn w (WTry src tgt v bs c)) in
  let out := snd (wstep bn w (WTry src tgt v bs c)) in
  (out = Deposited ->
     wget w' tgt = fst (try_deposit bn (wget w tgt) v bs c) /\
     a_default (wget w' src) = a_default (wget w src) /\ a_prefs (wget w' src) = a_prefs (wget w src) /\
     a_auth (wget w' src) = a_auth (wget w src) /\
     forall r, lookup r (a_vaults (wget w' src)) =
               if memN r (map fst bs) then Some (balance (wget w src) r - sum_for r bs) else lookup r (a_vaults (wget w src))) /\
  (out <> Deposited -> wget w' tgt = wget w tgt /\ same_acct (wget w' src) (wget w src)).
Proof.
  intros bn w src tgt v bs c Hne. cbn [wstep].
  assert (E1 : N.eqb src tgt = false) by (apply N.eqb_neq; exact Hne).
  assert (E2 : N.eqb tgt src = false) by (apply N.eqb_neq; intros E; apply Hne; symmetry; exact E).
  rewrite E1. destruct (take_buckets (wget w src) bs) as [s'|] eqn:Et.
  - destruct (try_deposit bn (wget w tgt) v bs c) as [t' [|rej|e]] eqn:Ed; cbn [fst snd].
    + split; [intros _|intros H; exfalso; apply H; reflexivity].
      rewrite !wget_wset, N.eqb_refl, E1, N.eqb_refl. split; [reflexivity|].
      destruct (take_buckets_spec _ _ _ Et) as (D1 & D2 & D3 & D4). auto.
    + split; [discriminate|intros _]. rewrite !wget_wset, E2, N.eqb_refl. split; [reflexivity|].
      apply take_then_return. exact Et.
    + split; [discriminate|intros _]. split; [reflexivity|apply same_acct_refl].
  - cbn [fst snd]. split; [discriminate|intros _]. split; [reflexivity|apply same_acct_refl].
Qed.

Theorem world_try_conservation : forall bn w src tgt v bs c r, src <> tgt ->
  let w' := fst (wstep bn w (WTry src tgt v bs c)) in
  balance (wget w' src) r + balance (wget w' tgt) r = balance (wget w src) r + balance (wget w tgt) r.
Proof.
  intros bn w src tgt v bs c r Hne w'.
  destruct (world_try bn w src tgt v bs c Hne) as [A B]. fold w' in A, B.
  destruct (snd (wstep bn w (WTry src tgt v bs c))) eqn:Eo.
  - destruct (A eq_refl) as (T & _ & _ & _ & S).
    assert (Ed : snd (try_deposit bn (wget w tgt) v bs c) = Deposited).
    { cbn [wstep] in Eo. assert (E1 : N.eqb src tgt = false) by (apply N.eqb_neq; exact Hne). rewrite E1 in Eo.
      destruct (take_buckets (wget w src) bs); [|discriminate].
      destruct (try_deposit bn (wget w tgt) v bs c) as [t' [|rej|e]]; cbn in *; congruence. }
    destruct (frame bn (wget w tgt) v bs c) as (_ & _ & _ & F1 & F2 & _).
    unfold balance at 1 2. rewrite S, T.
    destruct (memN r (map fst bs)) eqn:Em.
    + rewrite (F2 Ed r Em). lia.
    + rewrite (F1 r Em). unfold balance. reflexivity.
  - assert (Hn : Refunded rejected <> Deposited) by discriminate. destruct (B Hn) as [T (_ & _ & _ & S)].
    unfold balance. rewrite S, T. reflexivity.
  - assert (Hn : Failed e <> Deposited) by discriminate. destruct (B Hn) as [T (_ & _ & _ & S)].
    unfold balance. rewrite S, T. reflexivity.
Qed.
