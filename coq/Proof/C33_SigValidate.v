(* C33 — proofs about the signature-validation model (Model/C33_SigValidate.v). *)
From Coq Require Import List NArith Bool Lia.
Import ListNotations.
Require Import RV.Model.C33_SigValidate.
Open Scope N_scope.
Arguments N.add : simpl never.
Arguments N.ltb : simpl never.
Arguments N.eqb : simpl never.
Arguments N.of_nat : simpl never.

(* ---------------------------------------------------------------- small list facts *)
Lemma mem_In : forall k s, mem k s = true <-> In k s.
Proof.
  intros k s. unfold mem. rewrite existsb_exists. split.
  - intros (x & Hin & He). apply N.eqb_eq in He. subst. exact Hin.
  - intros Hin. exists k. split; [exact Hin|apply N.eqb_refl].
Qed.
Lemma mem_false_nIn : forall k s, mem k s = false <-> ~ In k s.
Proof.
  intros k s. rewrite <- mem_In. destruct (mem k s); split; intro H.
  - discriminate.
  - exfalso. apply H. reflexivity.
  - intro H'. discriminate.
  - reflexivity.
Qed.
Lemma map_Some_inj : forall (a b : list N), map Some a = map Some b -> a = b.
Proof.
  induction a as [|x a IH]; destruct b as [|y b]; cbn; intro H; try discriminate; [reflexivity|].
  injection H as Hx Hm. subst. f_equal. apply IH. exact Hm.
Qed.
Lemma NoDup_snoc : forall (l : list N) x, NoDup l -> ~ In x l -> NoDup (l ++ [x]).
Proof.
  induction l as [|y l IH]; intros x Hnd Hnin; cbn.
  - constructor; [intros []|constructor].
  - inversion Hnd as [|? ? Hy Hnd']; subst. constructor.
    + intro Hin. apply in_app_or in Hin. destruct Hin as [Hin|[<-|[]]]; [exact (Hy Hin)|].
      apply Hnin. left. reflexivity.
    + apply IH; [exact Hnd'|]. intro Hin. apply Hnin. right. exact Hin.
Qed.
Lemma Forall2_nth_error : forall {A B} (R : A -> B -> Prop) l l' i x,
  Forall2 R l l' -> nth_error l i = Some x -> exists y, nth_error l' i = Some y /\ R x y.
Proof.
  intros A B R l l' i x HF. revert i. induction HF as [|a b l l' HR HF IH]; intros i Hi.
  - destruct i; discriminate.
  - destruct i as [|i]; cbn in *.
    + injection Hi as <-. exists b. split; [reflexivity|exact HR].
    + apply IH. exact Hi.
Qed.
Lemma Forall2_length : forall {A B} (R : A -> B -> Prop) l l', Forall2 R l l' -> length l = length l'.
Proof. intros A B R l l' HF. induction HF; cbn; congruence. Qed.
Lemma nth_error_combine : forall {A B} (a : list A) (b : list B) i x y,
  nth_error a i = Some x -> nth_error b i = Some y -> nth_error (combine a b) i = Some (x, y).
Proof.
  intros A B a. induction a as [|x0 a IH]; intros b i x y Ha Hb; destruct i; try discriminate;
    destruct b as [|y0 b]; try discriminate; cbn in *.
  - injection Ha as <-. injection Hb as <-. reflexivity.
  - apply IH; assumption.
Qed.
Lemma combine_length_eq : forall {A B} (a : list A) (b : list B),
  length a = length b -> length (combine a b) = length a.
Proof. intros. rewrite combine_length. lia. Qed.
Lemma len_eqb_false : forall {A B} (a : list A) (b : list B),
  negb (len a =? len b) = false <-> length a = length b.
Proof.
  intros. unfold len. rewrite negb_false_iff, N.eqb_eq. split; intro H; [apply Nat2N.inj; exact H|congruence].
Qed.

(* ---------------------------------------------------------------- the key-collecting loops *)
Lemma recover_into_spec : forall (recover : N -> N -> option N) h sigs acc r,
  recover_into recover h sigs acc = inr r <->
  exists ks, map (recover h) sigs = map Some ks /\ r = acc ++ ks /\ NoDup ks /\
             (forall k, In k ks -> ~ In k acc).
Proof.
  intros recover h sigs. induction sigs as [|s rest IH]; intros acc r.
  - cbn. split.
    + intros [= <-]. exists []. rewrite app_nil_r. repeat split; [constructor|intros k []].
    + intros (ks & Hm & -> & _). destruct ks; [|discriminate]. rewrite app_nil_r. reflexivity.
  - cbn [recover_into]. destruct (recover h s) as [k|] eqn:Hr.
    + unfold insert. destruct (mem k acc) eqn:Hmem; cbn [negb].
      * split; [discriminate|]. intros (ks & Hmap & _ & _ & Hdis).
        destruct ks as [|k' ks]; [discriminate|]. cbn in Hmap. injection Hmap as Hk _.
        rewrite Hr in Hk. injection Hk as ->. exfalso.
        apply (Hdis k'); [left; reflexivity|apply mem_In; exact Hmem].
      * rewrite IH. apply mem_false_nIn in Hmem. split.
        -- intros (ks & Hmap & -> & Hnd & Hdis). exists (k :: ks).
           split; [cbn; rewrite Hr, Hmap; reflexivity|].
           split; [rewrite <- app_assoc; reflexivity|].
           split.
           ++ constructor; [|exact Hnd]. intro Hin. apply (Hdis k Hin).
              apply in_or_app. right. left. reflexivity.
           ++ intros k' [<-|Hin] Hacc; [exact (Hmem Hacc)|].
              apply (Hdis k' Hin). apply in_or_app. left. exact Hacc.
        -- intros (ks & Hmap & -> & Hnd & Hdis). destruct ks as [|k' ks]; [discriminate|].
           cbn in Hmap. injection Hmap as Hk Hmap. rewrite Hr in Hk. injection Hk as <-.
           exists ks. split; [exact Hmap|]. split; [rewrite <- app_assoc; reflexivity|].
           inversion Hnd as [|? ? Hnin Hnd']; subst. split; [exact Hnd'|].
           intros k' Hin Hacc. apply in_app_or in Hacc. destruct Hacc as [Hacc|[<-|[]]].
           ++ apply (Hdis k'); [right; exact Hin|exact Hacc].
           ++ exact (Hnin Hin).
    + split; [discriminate|]. intros (ks & Hmap & _). destruct ks; cbn in Hmap; [discriminate|].
      injection Hmap as Hk _. congruence.
Qed.

Lemma recover_into_nil : forall (recover : N -> N -> option N) h sigs ks,
  recover_into recover h sigs [] = inr ks <-> map (recover h) sigs = map Some ks /\ NoDup ks.
Proof.
  intros. rewrite recover_into_spec. split.
  - intros (ks' & Hm & -> & Hnd & _). cbn. split; assumption.
  - intros [Hm Hnd]. exists ks. repeat split; try assumption. intros k _ [].
Qed.

Lemma keys_into_as_recover : forall keys acc,
  keys_into keys acc = recover_into (fun _ k => Some k) 0 keys acc.
Proof.
  induction keys as [|k rest IH]; intro acc; cbn; [reflexivity|].
  destruct (insert k acc) as [fresh acc']. destruct (negb fresh); [reflexivity|apply IH].
Qed.

Lemma keys_into_nil : forall keys ks, keys_into keys [] = inr ks <-> ks = keys /\ NoDup keys.
Proof.
  intros. rewrite keys_into_as_recover, recover_into_nil. split.
  - intros [Hm Hnd]. change (map (fun k => Some k) keys) with (map Some keys) in Hm.
    apply map_Some_inj in Hm. subst. split; [reflexivity|exact Hnd].
  - intros [-> Hnd]. split; [reflexivity|exact Hnd].
Qed.

(* ---------------------------------------------------------------- declarative acceptance of one intent *)
(* the signer list `ks` is `ks0` with the notary key appended iff the notary is a signatory and not
   already in ks0; a signatory notary already in ks0 is tolerated only if the config allows it *)
Definition notary_appended (c : config) (v : version) (nis : bool) (npk : N) (ks0 ks : list N) : Prop :=
  if nis then
    if mem npk ks0 then allow_notary_to_duplicate_signer c v = true /\ ks = ks0
    else ks = ks0 ++ [npk]
  else ks = ks0.

Lemma add_notary_spec : forall c v nis npk ks0 ks,
  add_notary c v nis npk ks0 = inr ks <-> notary_appended c v nis npk ks0 ks.
Proof.
  intros. unfold add_notary, notary_appended, insert. destruct nis.
  - destruct (mem npk ks0); cbn [negb andb].
    + destruct (allow_notary_to_duplicate_signer c v); cbn [negb].
      * split; [intros [= <-]; split; reflexivity|intros [_ ->]; reflexivity].
      * split; [discriminate|intros [H _]; discriminate].
    + split; [intros [= <-]; reflexivity|intros ->; reflexivity].
  - split; [intros [= <-]; reflexivity|intros ->; reflexivity].
Qed.

Lemma notary_appended_NoDup : forall c v nis npk ks0 ks,
  notary_appended c v nis npk ks0 ks -> NoDup ks0 -> NoDup ks.
Proof.
  unfold notary_appended. intros c v nis npk ks0 ks H Hnd. destruct nis; [|subst; exact Hnd].
  destruct (mem npk ks0) eqn:Hm; [destruct H as [_ ->]; exact Hnd|]. subst.
  apply mem_false_nIn in Hm. apply NoDup_snoc; assumption.
Qed.

Section Proofs.
  Variable recover : N -> N -> option N.
  Variable verify : N -> N -> N -> bool.

  Definition intent_accepts (c : config) (v : version) (p : pending) (ks : list N) : Prop :=
    match p with
    | TransactionIntent nis npk nsig nh sigs sh =>
        exists ks0, map (recover sh) sigs = map Some ks0 /\ NoDup ks0 /\
                    verify nh npk nsig = true /\ notary_appended c v nis npk ks0 ks
    | PreviewTransactionIntent nis npk keys => NoDup keys /\ notary_appended c v nis npk keys ks
    | Subintent sigs sh => map (recover sh) sigs = map Some ks /\ NoDup ks
    | PreviewSubintent keys => ks = keys /\ NoDup keys
    end.

  Lemma validate_signatures_spec : forall p c v ks,
    validate_signatures recover verify p c v = inr ks <-> intent_accepts c v p ks.
  Proof.
    intros p c v ks. destruct p as [nis npk nsig nh sigs sh|nis npk keys|sigs sh|keys]; cbn.
    - destruct (recover_into recover sh sigs []) as [e|l] eqn:E.
      + split; [discriminate|]. intros (ks0 & Hm & Hnd & _).
        assert (H : recover_into recover sh sigs [] = inr ks0) by (apply recover_into_nil; split; assumption).
        congruence.
      + apply recover_into_nil in E. destruct E as [Hm Hnd].
        destruct (verify nh npk nsig); cbn [negb].
        * rewrite add_notary_spec. split.
          -- intro H. exists l. repeat split; assumption.
          -- intros (ks0 & Hm' & _ & _ & Happ). rewrite Hm in Hm'. apply map_Some_inj in Hm'.
             subst. exact Happ.
        * split; [discriminate|]. intros (? & _ & _ & H & _). discriminate.
    - destruct (keys_into keys []) as [e|l] eqn:E.
      + split; [discriminate|]. intros [Hnd _].
        assert (H : keys_into keys [] = inr keys) by (apply keys_into_nil; split; [reflexivity|exact Hnd]).
        congruence.
      + apply keys_into_nil in E. destruct E as [-> Hnd]. rewrite add_notary_spec.
        split; [intro H; split; assumption|intros [_ H]; exact H].
    - apply recover_into_nil.
    - apply keys_into_nil.
  Qed.

  Lemma intent_accepts_NoDup : forall c v p ks, intent_accepts c v p ks -> NoDup ks.
  Proof.
    intros c v p ks H. destruct p; cbn in H.
    - destruct H as (ks0 & _ & Hnd & _ & Happ). eapply notary_appended_NoDup; eassumption.
    - destruct H as [Hnd Happ]. eapply notary_appended_NoDup; eassumption.
    - apply H.
    - destruct H as [-> H]. exact H.
  Qed.

  Lemma validate_non_roots_spec : forall c v l kss,
    validate_non_roots recover verify c v l = inr kss <->
    Forall2 (fun pl ks => intent_accepts c v (fst pl) ks) l kss.
  Proof.
    intros c v l. induction l as [|[p loc] l IH]; intro kss; cbn.
    - split; [intros [= <-]; constructor|intro H; inversion H; reflexivity].
    - destruct (validate_signatures recover verify p c v) as [e|ks] eqn:E.
      + split; [discriminate|]. intro H. inversion H as [|? ks ? ? Hacc _]; subst. cbn in Hacc.
        apply validate_signatures_spec in Hacc. congruence.
      + apply validate_signatures_spec in E.
        destruct (validate_non_roots recover verify c v l) as [e|kss'] eqn:E'.
        * split; [discriminate|]. intro H. inversion H as [|? ? ? kss'' _ Hrest]; subst.
          apply IH in Hrest. discriminate.
        * split.
          -- intros [= <-]. constructor; [exact E|]. apply IH. reflexivity.
          -- intro H. inversion H as [|? ks' ? kss'' Hacc Hrest]; subst. cbn in Hacc.
             apply IH in Hrest. injection Hrest as <-.
             apply validate_signatures_spec in Hacc. apply validate_signatures_spec in E.
             f_equal. f_equal. congruence.
  Qed.
  Lemma validate_non_roots_err : forall c v l loc e,
    validate_non_roots recover verify c v l = inl (loc, e) -> In loc (map snd l).
  Proof.
    intros c v l. induction l as [|[p loc0] l IH]; intros loc e; cbn; [discriminate|].
    destruct (validate_signatures recover verify p c v).
    - intros [= <- _]. left. reflexivity.
    - destruct (validate_non_roots recover verify c v l) as [[loc' e']|]; [|discriminate].
      intros [= <- <-]. right. eapply IH. reflexivity.
  Qed.

  (* ---------------------------------------------------------------- the construct phase *)
  Definition batch_count (b : batch) : N :=
    match b with BatchSignatures s => len s | BatchPublicKeys k => len k end.
  Lemma count_for_subintent : forall b h, intent_signature_validations (for_subintent b h) = batch_count b.
  Proof. destruct b; reflexivity. Qed.

  Fixpoint entries (i : N) (l : list (N * batch)) : list (pending * location) :=
    match l with
    | [] => []
    | (h, b) :: l' => (for_subintent b h, NonRootSubintent i h) :: entries (i + 1) l'
    end.
  Definition sum_counts (bs : list batch) : N := fold_right (fun b a => batch_count b + a) 0 bs.
  Definition pair_counts (l : list (N * batch)) : N := fold_right (fun hb a => batch_count (snd hb) + a) 0 l.

  Lemma add_all_ok : forall l ap i ap',
    add_all ap i l = inr ap' <->
    Forall (fun hb => batch_count (snd hb) <= max_signer_signatures_per_intent (ap_config ap)) l /\
    ap' = mkAP (ap_version ap) (ap_config ap) (ap_root ap) (ap_non_roots ap ++ entries i l)
               (ap_total ap + pair_counts l).
  Proof.
    induction l as [|[h b] l IH]; intros ap i ap'.
    - cbn. rewrite app_nil_r, N.add_0_r. destruct ap; cbn. split.
      + intros [= <-]. split; [constructor|reflexivity].
      + intros [_ ->]. reflexivity.
    - cbn [add_all]. unfold add_non_root. rewrite count_for_subintent.
      destruct (max_signer_signatures_per_intent (ap_config ap) <? batch_count b) eqn:E.
      + split; [discriminate|]. intros [HF _]. inversion HF; subst. cbn in *.
        apply N.ltb_lt in E. lia.
      + rewrite IH. cbn [ap_version ap_config ap_root ap_non_roots ap_total entries pair_counts fold_right snd].
        apply N.ltb_ge in E. rewrite <- app_assoc. cbn [app]. rewrite <- N.add_assoc.
        split; intros [HF ->]; (split; [|reflexivity]).
        * constructor; [exact E|exact HF].
        * inversion HF; assumption.
  Qed.

  Lemma add_all_err : forall l ap i loc e,
    add_all ap i l = inl (loc, e) ->
    exists j h n, loc = NonRootSubintent j h /\
                  e = TooManySignatures n (max_signer_signatures_per_intent (ap_config ap)) /\
                  max_signer_signatures_per_intent (ap_config ap) < n.
  Proof.
    induction l as [|[h b] l IH]; intros ap i loc e; [discriminate|].
    cbn [add_all]. unfold add_non_root.
    destruct (max_signer_signatures_per_intent (ap_config ap) <? _) eqn:E.
    - intros [= <- <-]. apply N.ltb_lt in E. do 3 eexists. repeat split. exact E.
    - intro H. apply IH in H. exact H.
  Qed.

  Lemma Forall_combine_batches : forall (P : batch -> Prop) (subs : list N) (bs : list batch),
    length subs = length bs ->
    (Forall (fun hb => P (snd hb)) (combine subs bs) <-> Forall P bs).
  Proof.
    intros P subs. induction subs as [|h subs IH]; intros [|b bs] Hl; try discriminate; cbn.
    - split; constructor.
    - injection Hl as Hl. specialize (IH bs Hl). split; intro H; inversion H; subst; constructor;
        try assumption; apply IH; assumption.
  Qed.
  Lemma pair_counts_combine : forall (subs : list N) (bs : list batch),
    length subs = length bs -> pair_counts (combine subs bs) = sum_counts bs.
  Proof.
    induction subs as [|h subs IH]; intros [|b bs] Hl; try discriminate; [reflexivity|].
    injection Hl as Hl. unfold pair_counts, sum_counts in *. cbn [combine fold_right snd].
    rewrite (IH bs Hl). reflexivity.
  Qed.
  Lemma Forall2_entries : forall c v l i kss,
    Forall2 (fun pl ks => intent_accepts c v (fst pl) ks) (entries i l) kss <->
    Forall2 (fun hb ks => intent_accepts c v (for_subintent (snd hb) (fst hb)) ks) l kss.
  Proof.
    intros c v l. induction l as [|[h b] l IH]; intros i kss; cbn.
    - split; intro H; inversion H; constructor.
    - split; intro H; inversion H; subst; constructor; try assumption; eapply IH; eassumption.
  Qed.
  Lemma entries_locs : forall l i loc, In loc (map snd (entries i l)) -> exists j h, loc = NonRootSubintent j h.
  Proof.
    induction l as [|[h b] l IH]; intros i loc; cbn; [intros []|].
    intros [<-|H]; [do 2 eexists; reflexivity|eapply IH; exact H].
  Qed.

  (* ---------------------------------------------------------------- acceptance, characterised *)
  Definition tree_accepts (c : config) (v : version) (root : pending) (subs : list N)
      (batches : list batch) (rk : list N) (nrk : list (list N)) (total : N) : Prop :=
    intent_signature_validations root <= max_signer_signatures_per_intent c /\
    length subs = length batches /\
    Forall (fun b => batch_count b <= max_signer_signatures_per_intent c) batches /\
    total = intent_signature_validations root + notary_signature_validations root + sum_counts batches /\
    total <= max_total_signature_validations c /\
    intent_accepts c v root rk /\
    Forall2 (fun hb ks => intent_accepts c v (for_subintent (snd hb) (fst hb)) ks) (combine subs batches) nrk.

  Theorem accept_iff : forall c v rh root subs batches rk nrk total,
    validate_tree recover verify c v rh root subs batches = Accepted rk nrk total <->
    tree_accepts c v root subs batches rk nrk total.
  Proof.
    intros c v rh root subs batches rk nrk total.
    unfold validate_tree, construct_pending, new_with_root, tree_accepts.
    destruct (max_signer_signatures_per_intent c <? intent_signature_validations root) eqn:E1.
    { apply N.ltb_lt in E1. split; [discriminate|]. intros (H & _). lia. }
    apply N.ltb_ge in E1.
    destruct (negb (len subs =? len batches)) eqn:E2.
    { split; [discriminate|]. intros (_ & Hl & _). apply len_eqb_false in Hl. congruence. }
    apply len_eqb_false in E2.
    destruct (add_all _ 0 (combine subs batches)) as [[loc e]|ap] eqn:E3.
    { split; [discriminate|]. intros (_ & _ & HF & _). exfalso.
      assert (Hok : add_all (mkAP v c (root, for_root rh) []
                 (intent_signature_validations root + notary_signature_validations root)) 0
                 (combine subs batches) = inr (mkAP v c (root, for_root rh)
                     ([] ++ entries 0 (combine subs batches))
                     (intent_signature_validations root + notary_signature_validations root
                      + pair_counts (combine subs batches)))).
      { apply add_all_ok. split; [|reflexivity]. cbn.
        apply (Forall_combine_batches (fun b => batch_count b <= max_signer_signatures_per_intent c));
          assumption. }
      congruence. }
    apply add_all_ok in E3. cbn in E3. destruct E3 as [HF ->].
    rewrite (Forall_combine_batches (fun b => batch_count b <= max_signer_signatures_per_intent c)) in HF by exact E2.
    rewrite (pair_counts_combine _ _ E2).
    unfold validate_all. cbn [ap_config ap_total ap_root ap_version ap_non_roots fst snd].
    destruct (max_total_signature_validations c <? _) eqn:E4.
    { apply N.ltb_lt in E4. split; [discriminate|]. intros (_ & _ & _ & -> & Hle & _). lia. }
    apply N.ltb_ge in E4.
    destruct (validate_signatures recover verify root c v) as [e|rk'] eqn:E5.
    { split; [discriminate|]. intros (_ & _ & _ & _ & _ & Hacc & _).
      apply validate_signatures_spec in Hacc. congruence. }
    destruct (validate_non_roots recover verify c v (entries 0 (combine subs batches))) as [[loc e]|nrk'] eqn:E6.
    { split; [discriminate|]. intros (_ & _ & _ & _ & _ & _ & HF2).
      apply Forall2_entries with (i := 0) in HF2. apply validate_non_roots_spec in HF2. congruence. }
    apply validate_signatures_spec in E5. apply validate_non_roots_spec in E6.
    apply Forall2_entries in E6.
    split.
    - intros [= <- <- <-]. repeat split; assumption.
    - intros (_ & _ & _ & -> & _ & Hacc & HF2). f_equal.
      + apply validate_signatures_spec in Hacc, E5. congruence.
      + apply Forall2_entries with (i := 0) in HF2, E6. apply validate_non_roots_spec in HF2, E6. congruence.
  Qed.

  (* ---------------------------------------------------------------- corollaries *)
  Lemma recovered_all_some : forall h sigs ks, map (recover h) sigs = map Some ks ->
    forall s, In s sigs -> exists k, recover h s = Some k /\ In k ks.
  Proof.
    intros h sigs. induction sigs as [|s0 sigs IH]; intros [|k ks] Hm s Hin; cbn in *; try discriminate;
      [destruct Hin|].
    injection Hm as Hk Hm. destruct Hin as [<-|Hin].
    - exists k. split; [exact Hk|left; reflexivity].
    - destruct (IH ks Hm s Hin) as (k' & Hr & Hk'). exists k'. split; [exact Hr|right; exact Hk'].
  Qed.

  (* the signer list handed on: recovered keys, then the notary key iff signatory and not yet present *)
  Definition with_notary (nis : bool) (npk : N) (ks0 : list N) : list N :=
    if nis && negb (mem npk ks0) then ks0 ++ [npk] else ks0.

  Lemma notary_appended_eq : forall c v nis npk ks0 ks,
    notary_appended c v nis npk ks0 ks ->
    ks = with_notary nis npk ks0 /\
    (nis = true -> In npk ks0 -> allow_notary_to_duplicate_signer c v = true).
  Proof.
    unfold notary_appended, with_notary. intros c v nis npk ks0 ks H. destruct nis; cbn [andb].
    - destruct (mem npk ks0) eqn:Hm; cbn [negb].
      + destruct H as [Ha ->]. split; [reflexivity|intros _ _; exact Ha].
      + split; [exact H|]. intros _ Hin. apply mem_In in Hin. congruence.
    - split; [exact H|discriminate].
  Qed.
  Lemma with_notary_incl : forall nis npk ks0 k, In k ks0 -> In k (with_notary nis npk ks0).
  Proof.
    unfold with_notary. intros. destruct (nis && negb (mem npk ks0)); [apply in_or_app; left|]; assumption.
  Qed.

  Theorem accept_implies_all_valid : forall c v rh root subs batches rk nrk total,
    validate_tree recover verify c v rh root subs batches = Accepted rk nrk total ->
    (forall nis npk nsig nh sigs sh, root = TransactionIntent nis npk nsig nh sigs sh ->
       verify nh npk nsig = true /\
       forall s, In s sigs -> exists k, recover sh s = Some k /\ In k rk) /\
    (forall sigs sh, root = Subintent sigs sh ->
       forall s, In s sigs -> exists k, recover sh s = Some k /\ In k rk) /\
    (forall i h sigs, nth_error subs i = Some h -> nth_error batches i = Some (BatchSignatures sigs) ->
       exists ks, nth_error nrk i = Some ks /\
       forall s, In s sigs -> exists k, recover h s = Some k /\ In k ks).
  Proof.
    intros c v rh root subs batches rk nrk total H. apply accept_iff in H.
    destruct H as (_ & _ & _ & _ & _ & Hroot & Hnr). split; [|split].
    - intros nis npk nsig nh sigs sh ->. cbn in Hroot. destruct Hroot as (ks0 & Hm & _ & Hv & Happ).
      split; [exact Hv|]. intros s Hin.
      apply notary_appended_eq in Happ. destruct Happ as [-> _].
      destruct (recovered_all_some _ _ _ Hm s Hin) as (k & Hr & Hk).
      exists k. split; [exact Hr|apply with_notary_incl; exact Hk].
    - intros sigs sh -> s Hin. cbn in Hroot. destruct Hroot as [Hm _].
      exact (recovered_all_some _ _ _ Hm s Hin).
    - intros i h sigs Hs Hb.
      pose proof (nth_error_combine _ _ _ _ _ Hs Hb) as Hc.
      destruct (Forall2_nth_error _ _ _ _ _ Hnr Hc) as (ks & Hk & Hacc). cbn in Hacc.
      exists ks. split; [exact Hk|]. destruct Hacc as [Hm _]. intros s Hin.
      exact (recovered_all_some _ _ _ Hm s Hin).
  Qed.

  Theorem signer_set_exact : forall c v rh root subs batches rk nrk total,
    validate_tree recover verify c v rh root subs batches = Accepted rk nrk total ->
    NoDup rk /\ length nrk = length subs /\
    (forall nis npk nsig nh sigs sh, root = TransactionIntent nis npk nsig nh sigs sh ->
       exists ks0, map (recover sh) sigs = map Some ks0 /\ rk = with_notary nis npk ks0 /\
                   (nis = true -> In npk ks0 -> allow_notary_to_duplicate_signer c v = true)) /\
    (forall nis npk keys, root = PreviewTransactionIntent nis npk keys ->
       rk = with_notary nis npk keys /\ NoDup keys /\
       (nis = true -> In npk keys -> allow_notary_to_duplicate_signer c v = true)) /\
    (forall sigs sh, root = Subintent sigs sh -> map (recover sh) sigs = map Some rk) /\
    (forall i h b, nth_error subs i = Some h -> nth_error batches i = Some b ->
       exists ks, nth_error nrk i = Some ks /\ NoDup ks /\
                  match b with
                  | BatchSignatures sigs => map (recover h) sigs = map Some ks
                  | BatchPublicKeys keys => ks = keys
                  end).
  Proof.
    intros c v rh root subs batches rk nrk total H. apply accept_iff in H.
    destruct H as (_ & Hl & _ & _ & _ & Hroot & Hnr).
    split; [eapply intent_accepts_NoDup; exact Hroot|].
    split; [apply Forall2_length in Hnr; rewrite combine_length_eq in Hnr by exact Hl; congruence|].
    split; [|split; [|split]].
    - intros nis npk nsig nh sigs sh ->. cbn in Hroot. destruct Hroot as (ks0 & Hm & _ & _ & Happ).
      apply notary_appended_eq in Happ. destruct Happ as [-> Ha]. exists ks0.
      split; [exact Hm|]. split; [reflexivity|exact Ha].
    - intros nis npk keys ->. cbn in Hroot. destruct Hroot as [Hnd Happ].
      apply notary_appended_eq in Happ. destruct Happ as [-> Ha].
      split; [reflexivity|]. split; [exact Hnd|exact Ha].
    - intros sigs sh ->. cbn in Hroot. apply Hroot.
    - intros i h b Hs Hb.
      pose proof (nth_error_combine _ _ _ _ _ Hs Hb) as Hc.
      destruct (Forall2_nth_error _ _ _ _ _ Hnr Hc) as (ks & Hk & Hacc). cbn [fst snd] in Hacc.
      exists ks. split; [exact Hk|]. split; [eapply intent_accepts_NoDup; exact Hacc|].
      destruct b; cbn in Hacc; apply Hacc.
  Qed.

  Theorem notary_duplicate_rejected : forall c v rh npk nsig nh sigs sh subs batches s,
    In s sigs -> recover sh s = Some npk -> allow_notary_to_duplicate_signer c v = false ->
    exists l e, validate_tree recover verify c v rh
                  (TransactionIntent true npk nsig nh sigs sh) subs batches = Rejected l e.
  Proof.
    intros c v rh npk nsig nh sigs sh subs batches s Hin Hr Hallow.
    destruct (validate_tree _ _ _ _ _ _ _ _) as [rk nrk total|l e] eqn:E; [|do 2 eexists; reflexivity].
    exfalso. apply signer_set_exact in E. destruct E as (_ & _ & Htx & _).
    destruct (Htx _ _ _ _ _ _ eq_refl) as (ks0 & Hm & _ & Ha).
    destruct (recovered_all_some _ _ _ Hm s Hin) as (k & Hr' & Hk).
    rewrite Hr in Hr'. injection Hr' as <-. rewrite (Ha eq_refl Hk) in Hallow. discriminate.
  Qed.

  Theorem limits : forall c v rh root subs batches rk nrk total,
    validate_tree recover verify c v rh root subs batches = Accepted rk nrk total ->
    intent_signature_validations root <= max_signer_signatures_per_intent c /\
    Forall (fun b => batch_count b <= max_signer_signatures_per_intent c) batches /\
    total = intent_signature_validations root + notary_signature_validations root + sum_counts batches /\
    total <= max_total_signature_validations c.
  Proof.
    intros c v rh root subs batches rk nrk total H. apply accept_iff in H.
    destruct H as (H1 & _ & H2 & H3 & H4 & _). repeat split; assumption.
  Qed.

  Theorem limits_converse : forall c v rh root subs batches,
    (max_signer_signatures_per_intent c < intent_signature_validations root \/
     (length subs = length batches /\
      (Exists (fun b => max_signer_signatures_per_intent c < batch_count b) batches \/
       max_total_signature_validations c <
         intent_signature_validations root + notary_signature_validations root + sum_counts batches))) ->
    exists l t lim, validate_tree recover verify c v rh root subs batches
                    = Rejected l (TooManySignatures t lim) /\ lim < t.
  Proof.
    intros c v rh root subs batches H.
    unfold validate_tree, construct_pending, new_with_root.
    destruct (max_signer_signatures_per_intent c <? intent_signature_validations root) eqn:E1.
    { apply N.ltb_lt in E1. do 3 eexists. split; [reflexivity|exact E1]. }
    apply N.ltb_ge in E1. destruct H as [H|[Hl H]]; [lia|].
    rewrite (proj2 (len_eqb_false subs batches) Hl).
    destruct (add_all _ 0 (combine subs batches)) as [[loc e]|ap] eqn:E3.
    { apply add_all_err in E3. destruct E3 as (j & h & n & -> & -> & Hlt). cbn in Hlt.
      do 3 eexists. split; [reflexivity|exact Hlt]. }
    apply add_all_ok in E3. cbn in E3. destruct E3 as [HF ->].
    rewrite (Forall_combine_batches (fun b => batch_count b <= max_signer_signatures_per_intent c)) in HF by exact Hl.
    rewrite (pair_counts_combine _ _ Hl).
    destruct H as [H|H].
    { exfalso. apply Exists_exists in H. destruct H as (b & Hin & Hlt).
      rewrite Forall_forall in HF. specialize (HF b Hin). lia. }
    unfold validate_all. cbn [ap_config ap_total].
    apply N.ltb_lt in H. rewrite H. apply N.ltb_lt in H.
    do 3 eexists. split; [reflexivity|exact H].
  Qed.

  (* any signature that does not verify over the hash of the intent it sits in (e.g. because that
     hash changed) makes the whole transaction invalid *)
  Theorem invalid_signature_rejected : forall c v rh root subs batches,
    ((exists nis npk nsig nh sigs sh, root = TransactionIntent nis npk nsig nh sigs sh /\
        (verify nh npk nsig = false \/ exists s, In s sigs /\ recover sh s = None)) \/
     (exists sigs sh, root = Subintent sigs sh /\ exists s, In s sigs /\ recover sh s = None) \/
     (exists i h sigs s, nth_error subs i = Some h /\ nth_error batches i = Some (BatchSignatures sigs) /\
        In s sigs /\ recover h s = None)) ->
    exists l e, validate_tree recover verify c v rh root subs batches = Rejected l e.
  Proof.
    intros c v rh root subs batches H.
    destruct (validate_tree _ _ _ _ _ _ _ _) as [rk nrk total|l e] eqn:E; [|do 2 eexists; reflexivity].
    exfalso. apply accept_implies_all_valid in E. destruct E as (Htx & Hsub & Hnr).
    destruct H as [(nis & npk & nsig & nh & sigs & sh & -> & H)|[(sigs & sh & -> & s & Hin & Hr)|(i & h & sigs & s & Hs & Hb & Hin & Hr)]].
    - destruct (Htx _ _ _ _ _ _ eq_refl) as [Hv Hall]. destruct H as [H|(s & Hin & Hr)]; [congruence|].
      destruct (Hall s Hin) as (k & Hk & _). congruence.
    - destruct (Hsub _ _ eq_refl s Hin) as (k & Hk & _). congruence.
    - destruct (Hnr i h sigs Hs Hb) as (ks & _ & Hall). destruct (Hall s Hin) as (k & Hk & _). congruence.
  Qed.

  Theorem reject_iff : forall c v rh root subs batches,
    (exists l e, validate_tree recover verify c v rh root subs batches = Rejected l e) <->
    ~ exists rk nrk total, tree_accepts c v root subs batches rk nrk total.
  Proof.
    intros c v rh root subs batches. split.
    - intros (l & e & H) (rk & nrk & total & Hacc). apply (accept_iff c v rh) in Hacc. congruence.
    - intro H. destruct (validate_tree _ _ _ _ _ _ _ _) as [rk nrk total|l e] eqn:E; [|do 2 eexists; reflexivity].
      exfalso. apply H. exists rk, nrk, total. apply (accept_iff c v rh). exact E.
  Qed.

  (* the V1 entry point is the tree validation of a transaction without subintents *)
  Theorem v1_is_tree : forall c h root,
    validate_v1 recover verify c h root = validate_tree recover verify c V1 (IHTransaction h) root [] [].
  Proof.
    intros c h root. unfold validate_v1, validate_tree, construct_pending.
    destruct (new_with_root V1 c (IHTransaction h) root) as [[l e]|ap]; [reflexivity|].
    change (negb (len (@nil N) =? len (@nil batch))) with false. cbn. reflexivity.
  Qed.
End Proofs.
