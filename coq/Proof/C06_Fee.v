(* C06 — proofs about the fee reserve model (Model/C06_Fee.v). *)
From Coq Require Import List ZArith Bool Lia.
Import ListNotations.
Require Import RV.Model.C06_Fee.
Open Scope Z_scope.

(* TipExact: price * tip proportion is a whole number of attos for both unit prices *)
Definition TipExact (p : params) (t : tip) : Prop :=
  (exec_price p * proportion t) mod ONE = 0 /\ (fin_price p * proportion t) mod ONE = 0.

Definition tip_wf (t : tip) : Prop :=
  match t with TipNone => True | TipPercentage x => 0 <= x | TipBasisPoints x => 0 <= x end.

(* a sufficient divisibility condition: both unit prices are multiples of 10^4 attos *)
Lemma tip_exact_of_divisible : forall p t,
  (exec_price p) mod 10 ^ 4 = 0 -> (fin_price p) mod 10 ^ 4 = 0 -> TipExact p t.
Proof.
  intros p t H1 H2. unfold TipExact, ONE.
  assert (Hd : forall x, x mod 10 ^ 4 = 0 -> (x * proportion t) mod 10 ^ 18 = 0).
  { intros x Hx. apply Z.mod_divide in Hx; [|lia]. destruct Hx as [k ->].
    destruct t as [|q|b]; cbn [proportion].
    - rewrite Z.mul_0_r. reflexivity.
    - replace (k * 10 ^ 4 * (q * 10 ^ 16)) with (k * q * 100 * 10 ^ 18) by ring. apply Z.mod_mul. lia.
    - replace (k * 10 ^ 4 * (b * 10 ^ 14)) with (k * b * 10 ^ 18) by ring. apply Z.mod_mul. lia. }
  split; apply Hd; assumption.
Qed.
