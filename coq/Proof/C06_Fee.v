(* C06 — proofs about the fee reserve model (Model/C06_Fee.v). *)
From Coq Require Import List ZArith Bool Lia.
Import ListNotations.
Require Import RV.Model.C06_Fee.
Open Scope Z_scope.

(* TipExact: price * tip proportion is a whole number of attos for both unit prices *)
Definition TipExact (p : params) (t : tip) : Prop :=
  (exec_price p * proportion t) mod ONE = 0 /\ (fin_price p * proportion t) mod ONE = 0.

Definition tip_wf (t : tip) : Prop :=
  match t with TipNone => True | TipPercentage x => 0 <= x | TipBasisPoints x => 0 <= x end.

(* a sufficient divisibility condition: both unit prices are multiples of 10^4 attos *)
Lemma tip_exact_of_divisible : forall p t,
  (exec_price p) mod 10 ^ 4 = 0 -> (fin_price p) mod 10 ^ 4 = 0 -> TipExact p t.
Proof.
  intros p t H1 H2. unfold TipExact, ONE.
  assert (Hd : forall x, x mod 10 ^ 4 = 0 -> (x * proportion t) mod 10 ^ 18 = 0).
  { intros x Hx. apply Z.mod_divide in Hx; [|lia]. destruct Hx as [k ->].
    destruct t as [|q|b]; cbn [proportion].
    - rewrite Z.mul_0_r. reflexivity.
    - replace (k * 10 ^ 4 * (q * 10 ^ 16)) with (k * q * 100 * 10 ^ 18) by ring. apply Z.mod_mul. lia.
    - replace (k * 10 ^ 4 * (b * 10 ^ 14)) with (k * b * 10 ^ 18) by ring. apply Z.mod_mul. lia. }
  split; apply Hd; assumption.
Qed.

(* ---- Decimal helpers ------------------------------------------------------------------------------- *)
Lemma dchk_eq : forall z x, dchk z = Some x -> x = z.
Proof. intros z x H. unfold dchk in H. destruct (in_i192 z); congruence. Qed.
Lemma dadd_eq : forall a b x, dadd a b = Some x -> x = a + b.
Proof. intros. apply dchk_eq in H. exact H. Qed.
Lemma dsub_eq : forall a b x, dsub a b = Some x -> x = a - b.
Proof. intros. apply dchk_eq in H. exact H. Qed.
Lemma dmul_eq : forall a b x, dmul a b = Some x -> x = Z.quot (a * b) ONE.
Proof. intros a b x H. unfold dmul in H. destruct (in_i256 (a * b)); [|discriminate]. apply dchk_eq in H. exact H. Qed.
Lemma dmul_of_int : forall a u x, dmul a (of_int u) = Some x -> x = a * u.
Proof.
  intros a u x H. apply dmul_eq in H. subst x. unfold of_int.
  replace (a * (u * ONE)) with (a * u * ONE) by ring. apply Z.quot_mul. unfold ONE. lia.
Qed.

Ltac dd := repeat match goal with
  | H : dadd ?a ?b = Some ?x |- _ => apply dadd_eq in H
  | H : dsub ?a ?b = Some ?x |- _ => apply dsub_eq in H
  | H : dmul ?a (of_int ?b) = Some ?x |- _ => apply dmul_of_int in H
  end.

Ltac sr := cbn [cp tp_tip free_credit abort_when_repaid eff_exec eff_fin balance owed exec_c exec_d fin_c
  fin_d royalty_c royalty_bd storage_c storage_d locked set_balance set_owed set_exec set_fin
  set_royalty set_storage set_locked] in *.

(* ---- the reserve invariant ---------------------------------------------------------------------------- *)
Definition lsum (l : list (Z * Z * bool)) : Z :=
  fold_right (fun (e : Z * Z * bool) acc => if snd e then acc else snd (fst e) + acc) 0 l.
Definition bdsum (l : list (Z * Z)) : Z := fold_right (fun (e : Z * Z) acc => snd e + acc) 0 l.

(* what the running balance has deducted so far *)
Definition deducted (r : reserve) : Z :=
  eff_exec r * exec_c r + eff_fin r * fin_c r + storage_c r + royalty_c r.

Record Inv (r : reserve) : Prop := mkInv {
  i_bal : balance r = owed r + free_credit r + lsum (locked r) - deducted r;
  i_bal0 : 0 <= balance r;
  i_owed0 : 0 <= owed r;
  i_roy0 : 0 <= royalty_c r;
  i_free0 : 0 <= free_credit r;
  i_usd0 : 0 <= usd_price (cp r);
  i_lim : exec_c r <= exec_limit (cp r) /\ fin_c r <= fin_limit (cp r);
  i_bd : bdsum (royalty_bd r) = royalty_c r;
  i_locks : Forall (fun e => 0 <= snd (fst e)) (locked r)
}.
Definition Static (r r' : reserve) : Prop :=
  cp r' = cp r /\ tp_tip r' = tp_tip r /\ free_credit r' = free_credit r
  /\ eff_exec r' = eff_exec r /\ eff_fin r' = eff_fin r /\ abort_when_repaid r' = abort_when_repaid r.
Lemma static_refl : forall r, Static r r.
Proof. intros; repeat split. Qed.
Lemma static_trans : forall a b c, Static a b -> Static b c -> Static a c.
Proof. unfold Static. intros a b c (A1&A2&A3&A4&A5&A6) (B1&B2&B3&B4&B5&B6). repeat split; congruence. Qed.

(* well-formed operations: unsigned quantities are non-negative, locked resources are non-negative *)
Definition op_wf (o : fop) : Prop :=
  match o with
  | LockFee _ a _ => 0 <= a
  | _ => True
  end.

Ltac same H := injection H as <- <-; split; [assumption|apply static_refl].

Lemma consume_exec_internal_inv : forall r u o r',
  consume_exec_internal r u = (o, r') -> Inv r -> Inv r' /\ Static r r'.
Proof.
  intros r u o r' H I. unfold consume_exec_internal in H.
  destruct (U32_MAX <? exec_c r + u); [same H|].
  destruct (exec_limit (cp r) <? exec_c r + u) eqn:E; [same H|]. apply Z.ltb_ge in E.
  destruct (dmul (eff_exec r) (of_int u)) as [amount|] eqn:Em; [|same H].
  destruct (balance r <? amount) eqn:Eb; [same H|]. apply Z.ltb_ge in Eb.
  destruct (dsub (balance r) amount) as [b|] eqn:Es; [|same H].
  injection H as <- <-. dd. subst. destruct I. unfold deducted in *.
  split; [constructor; unfold deducted; sr; try assumption; try lia|repeat split].
Qed.

Lemma consume_fin_internal_inv : forall r u o r',
  consume_fin_internal r u = (o, r') -> Inv r -> Inv r' /\ Static r r'.
Proof.
  intros r u o r' H I. unfold consume_fin_internal in H.
  destruct (U32_MAX <? fin_c r + u); [same H|].
  destruct (fin_limit (cp r) <? fin_c r + u) eqn:E; [same H|]. apply Z.ltb_ge in E.
  destruct (dmul (eff_fin r) (of_int u)) as [amount|] eqn:Em; [|same H].
  destruct (balance r <? amount) eqn:Eb; [same H|]. apply Z.ltb_ge in Eb.
  destruct (dsub (balance r) amount) as [b|] eqn:Es; [|same H].
  injection H as <- <-. dd. subst. destruct I. unfold deducted in *.
  split; [constructor; unfold deducted; sr; try assumption; try lia|repeat split].
Qed.

Lemma consume_storage_inv : forall r t size o r',
  consume_storage r t size = (o, r') -> Inv r -> Inv r' /\ Static r r'.
Proof.
  intros r t size o r' H I. unfold consume_storage in H.
  destruct (dmul _ (of_int size)) as [amount|] eqn:Em; [|same H].
  destruct (balance r <? amount) eqn:Eb; [same H|]. apply Z.ltb_ge in Eb.
  destruct (dsub (balance r) amount) as [b|] eqn:Es; [|same H].
  destruct (dadd (storage_c r) amount) as [sc|] eqn:Ea; [|same H].
  injection H as <- <-. apply dsub_eq in Es. apply dadd_eq in Ea. subst. destruct I. unfold deducted in *.
  split; [constructor; unfold deducted; sr; try assumption; try lia|repeat split].
Qed.

(* changing only the deferred bookkeeping keeps the invariant *)
Lemma inv_set_exec_d : forall r d, Inv r -> Inv (set_exec r (exec_c r) d) /\ Static r (set_exec r (exec_c r) d).
Proof. intros r d I. destruct I. unfold deducted in *. split; [constructor; unfold deducted; sr; assumption|repeat split]. Qed.
Lemma inv_set_fin_d : forall r d, Inv r -> Inv (set_fin r (fin_c r) d) /\ Static r (set_fin r (fin_c r) d).
Proof. intros r d I. destruct I. unfold deducted in *. split; [constructor; unfold deducted; sr; assumption|repeat split]. Qed.
Lemma inv_set_storage_d : forall r d, Inv r -> Inv (set_storage r (storage_c r) d) /\ Static r (set_storage r (storage_c r) d).
Proof. intros r d I. destruct I. unfold deducted in *. split; [constructor; unfold deducted; sr; assumption|repeat split]. Qed.

Lemma repay_storage_inv : forall ks r o r',
  repay_storage r ks = (o, r') -> Inv r -> Inv r' /\ Static r r'.
Proof.
  induction ks as [|t ks IH]; intros r o r' H I; cbn [repay_storage] in H; [same H|].
  destruct (find _ (storage_d r)) as [e|]; [|same H].
  destruct (consume_storage r t (snd e)) as [o1 r1] eqn:E1.
  destruct (consume_storage_inv _ _ _ _ _ E1 I) as (I1 & S1).
  destruct o1; try (injection H as <- <-; auto; fail).
  destruct (inv_set_storage_d r1 (filter (fun e0 => negb (st_eqb (fst e0) t)) (storage_d r1)) I1) as (I2 & S2).
  destruct (IH _ _ _ H I2) as (I3 & S3). split; [exact I3|].
  eapply static_trans; [exact S1|]. eapply static_trans; [exact S2|exact S3].
Qed.

Lemma repay_all_inv : forall r o r',
  repay_all r = (o, r') -> Inv r -> Inv r' /\ Static r r'.
Proof.
  intros r o r' H I. unfold repay_all in H.
  destruct (consume_exec_internal r (exec_d r)) as [o1 r1] eqn:E1.
  destruct (consume_exec_internal_inv _ _ _ _ E1 I) as (I1 & S1).
  destruct o1; try (injection H as <- <-; auto; fail).
  destruct (inv_set_exec_d r1 0 I1) as (I1' & S1'). set (r1' := set_exec r1 (exec_c r1) 0) in *.
  destruct (consume_fin_internal r1' (fin_d r1')) as [o2 r2] eqn:E2.
  destruct (consume_fin_internal_inv _ _ _ _ E2 I1') as (I2 & S2).
  assert (S02 : Static r r2) by (eapply static_trans; [exact S1|]; eapply static_trans; [exact S1'|exact S2]).
  destruct o2; try (injection H as <- <-; auto; fail).
  destruct (inv_set_fin_d r2 0 I2) as (I2' & S2'). set (r2' := set_fin r2 (fin_c r2) 0) in *.
  destruct (repay_storage r2' (map fst (storage_d r2'))) as [o3 r3] eqn:E3.
  destruct (repay_storage_inv _ _ _ _ E3 I2') as (I3 & S3).
  assert (S03 : Static r r3) by (eapply static_trans; [exact S02|]; eapply static_trans; [exact S2'|exact S3]).
  destruct o3; try (injection H as <- <-; auto; fail).
  destruct (dsub (owed r3) (Z.min (balance r3) (owed r3))) as [ow|] eqn:Eo; [|injection H as <- <-; auto].
  destruct (dsub (balance r3) (Z.min (balance r3) (owed r3))) as [b|] eqn:Eb; [|injection H as <- <-; auto].
  apply dsub_eq in Eo, Eb.
  assert (I4 : Inv (set_balance (set_owed r3 ow) b)).
  { destruct I3. unfold deducted in *. constructor; unfold deducted; sr; try assumption; lia. }
  assert (S4 : Static r (set_balance (set_owed r3 ow) b)).
  { eapply static_trans; [exact S03|]. repeat split. }
  destruct (negb (ow =? 0)); [injection H as <- <-; auto|].
  destruct (abort_when_repaid (set_balance (set_owed r3 ow) b)); injection H as <- <-; auto.
Qed.

Lemma bd_add_sum : forall bd k a bd', bd_add bd k a = Some bd' -> bdsum bd' = bdsum bd + a.
Proof.
  induction bd as [|[k' v] bd IH]; intros k a bd' H; cbn [bd_add] in H.
  - destruct (dadd 0 a) eqn:E; [|discriminate]. injection H as <-. apply dadd_eq in E.
    unfold bdsum; cbn [fold_right snd]. lia.
  - destruct (k' =? k).
    + destruct (dadd v a) eqn:E; [|discriminate]. injection H as <-. apply dadd_eq in E.
      unfold bdsum; cbn [fold_right snd]. lia.
    + destruct (bd_add bd k a) eqn:E; [|discriminate]. injection H as <-. apply IH in E.
      unfold bdsum in *; cbn [fold_right snd] in *. lia.
Qed.

Lemma lsum_app : forall a b, lsum (a ++ b) = lsum a + lsum b.
Proof.
  induction a as [|[[v x] c] a IH]; intros b; [reflexivity|].
  unfold lsum in *. cbn [app fold_right snd fst]. rewrite IH. destruct c; lia.
Qed.
Lemma lsum_one : forall v a c, lsum [(v, a, c)] = if c then 0 else a.
Proof. intros. unfold lsum. cbn [fold_right snd fst]. destruct c; lia. Qed.

Theorem apply_op_inv : forall r op o r',
  apply_op r op = (o, r') -> op_wf op -> Inv r -> Inv r' /\ Static r r'.
Proof.
  intros r op o r' H W I. destruct op; cbn [apply_op] in H.
  - destruct (U32_MAX <? exec_d r + u); [same H|]. injection H as <- <-. apply inv_set_exec_d. exact I.
  - destruct (U32_MAX <? fin_d r + u); [same H|]. injection H as <- <-. apply inv_set_fin_d. exact I.
  - destruct (USIZE_MAX <? _); [same H|]. injection H as <- <-. apply inv_set_storage_d. exact I.
  - destruct (u =? 0); [same H|].
    destruct (consume_exec_internal r u) as [o1 r1] eqn:E1.
    destruct (consume_exec_internal_inv _ _ _ _ E1 I) as (I1 & S1).
    destruct o1; try (injection H as <- <-; auto; fail).
    destruct (negb (fully_repaid r1) && (exec_loan (cp r1) <=? exec_c r1)).
    + destruct (repay_all_inv _ _ _ H I1) as (I2 & S2). split; [exact I2|eapply static_trans; eauto].
    + injection H as <- <-. auto.
  - destruct (u =? 0); [same H|]. eapply consume_fin_internal_inv; eauto.
  - eapply consume_storage_inv; eauto.
  - match type of H with (if ?z then _ else _) = _ => destruct z end; [same H|].
    match type of H with (if ?z then _ else _) = _ => destruct z eqn:En end; [same H|].
    match type of H with (match ?z with Some _ => _ | None => _ end) = _ => destruct z as [amount|] eqn:Ea end; [|same H].
    destruct (balance r <? amount) eqn:Eb; [same H|]. apply Z.ltb_ge in Eb.
    destruct (dsub (balance r) amount) as [b|] eqn:Es; [|same H].
    destruct (bd_add (royalty_bd r) recipient amount) as [bd|] eqn:Ebd; [|same H].
    destruct (dadd (royalty_c r) amount) as [rc|] eqn:Erc; [|same H].
    injection H as <- <-. apply dsub_eq in Es. apply dadd_eq in Erc. apply bd_add_sum in Ebd. subst.
    assert (0 <= amount).
    { destruct a; cbn in En; try apply Z.ltb_ge in En.
      - injection Ea as <-. lia.
      - destruct I. apply dmul_eq in Ea. subst amount.
        apply Z.quot_pos; [apply Z.mul_nonneg_nonneg; lia|unfold ONE; lia].
      - injection Ea as <-. lia. }
    destruct I. unfold deducted in *.
    split; [constructor; unfold deducted; sr; try assumption; try lia|repeat split].
  - cbn in W. destruct contingent.
    + injection H as <- <-. destruct I. unfold deducted in *.
      split; [constructor; unfold deducted; sr; try assumption|repeat split].
      * rewrite lsum_app, lsum_one. lia.
      * apply Forall_app. split; [assumption|]. constructor; [cbn; lia|constructor].
    + destruct (dadd (balance r) amount) as [b|] eqn:Ea; [|same H].
      injection H as <- <-. apply dadd_eq in Ea. subst. destruct I. unfold deducted in *.
      split; [constructor; unfold deducted; sr; try assumption; try lia|repeat split].
      * rewrite lsum_app, lsum_one. lia.
      * apply Forall_app. split; [assumption|]. constructor; [cbn; lia|constructor].
  - eapply repay_all_inv; eauto.
  - destruct (dadd (balance r) (royalty_c r)) as [b|] eqn:Ea; [|same H].
    injection H as <- <-. apply dadd_eq in Ea. subst. destruct I. unfold deducted in *.
    split; [constructor; unfold deducted; sr; try assumption; try lia; reflexivity|repeat split].
Qed.

(* ---- reachable reserves ------------------------------------------------------------------------------ *)
Definition EffOk (r : reserve) : Prop :=
  dmul (exec_price (cp r)) (ONE + proportion (tp_tip r)) = Some (eff_exec r)
  /\ dmul (fin_price (cp r)) (ONE + proportion (tp_tip r)) = Some (eff_fin r).

Lemma proportion_nonneg : forall t, tip_wf t -> 0 <= proportion t.
Proof. intros [|x|x] H; cbn in *; lia. Qed.

Lemma new_inv : forall p t free abort r,
  0 <= exec_limit p -> 0 <= fin_limit p -> 0 <= exec_loan p -> tip_wf t ->
  reserve_new p t free abort = Some r -> Inv r /\ EffOk r /\ cp r = p /\ tp_tip r = t.
Proof.
  intros p t free abort r L1 L2 L3 Wt H. pose proof (proportion_nonneg t Wt) as Hp. unfold reserve_new in H.
  destruct (_ || _) eqn:E in H; [discriminate|].
  repeat (apply orb_false_iff in E; destruct E as [E ?]).
  repeat match goal with H : (_ <? _) = false |- _ => apply Z.ltb_ge in H end.
  destruct (dadd ONE (proportion t)) as [mult|] eqn:Em; [|discriminate]. apply dadd_eq in Em. subst mult.
  destruct (dmul (exec_price p) (ONE + proportion t)) as [ee|] eqn:E1; [|discriminate].
  destruct (dmul (fin_price p) (ONE + proportion t)) as [ef|] eqn:E2; [|discriminate].
  destruct (dmul ee (of_int (exec_loan p))) as [loan|] eqn:E3; [|discriminate].
  destruct (dadd loan free) as [start|] eqn:E4; [|discriminate].
  injection H as <-. apply dadd_eq in E4. subst start.
  assert (0 <= loan).
  { apply dmul_of_int in E3. subst loan. pose proof E1 as E1'. apply dmul_eq in E1'. subst ee.
    apply Z.mul_nonneg_nonneg; [|lia]. apply Z.quot_pos; [|unfold ONE; lia].
    apply Z.mul_nonneg_nonneg; [lia|]. unfold ONE in *. lia. }
  split; [|split; [split; assumption|split; reflexivity]].
  constructor; unfold deducted, lsum, bdsum; sr; cbn [fold_right]; try lia; auto.
Qed.

Lemma effok_static : forall r r', Static r r' -> EffOk r -> EffOk r'.
Proof. unfold Static, EffOk. intros r r' (A1&A2&A3&A4&A5&A6) (E1&E2). rewrite A1, A2, A4, A5. auto. Qed.

Lemma run_ops_inv : forall os r outs r',
  run_ops r os = (outs, r') -> Forall op_wf os -> Inv r -> Inv r' /\ Static r r'.
Proof.
  induction os as [|o os IH]; intros r outs r' H W I; cbn [run_ops] in H.
  - injection H as _ <-. split; [exact I|apply static_refl].
  - inversion W as [|? ? W1 W2]; subst.
    destruct (apply_op r o) as [x r1] eqn:E1.
    destruct (apply_op_inv _ _ _ _ E1 W1 I) as (I1 & S1).
    destruct x.
    + destruct (run_ops r1 os) as [xs r2] eqn:E2. injection H as _ <-.
      destruct (IH _ _ _ E2 W2 I1) as (I2 & S2). split; [exact I2|eapply static_trans; eauto].
    + destruct (run_ops r1 os) as [xs r2] eqn:E2. injection H as _ <-.
      destruct (IH _ _ _ E2 W2 I1) as (I2 & S2). split; [exact I2|eapply static_trans; eauto].
    + injection H as _ <-. auto.
Qed.

(* C06_limits *)
Theorem limits : forall p t free abort r0 os outs r,
  0 <= exec_limit p -> 0 <= fin_limit p -> 0 <= exec_loan p -> tip_wf t ->
  reserve_new p t free abort = Some r0 -> Forall op_wf os -> run_ops r0 os = (outs, r) ->
  exec_c r <= exec_limit p /\ fin_c r <= fin_limit p.
Proof.
  intros p t free abort r0 os outs r L1 L2 L3 Wt Hn W Hr.
  destruct (new_inv _ _ _ _ _ L1 L2 L3 Wt Hn) as (I0 & _ & Hcp & _).
  destruct (run_ops_inv _ _ _ _ Hr W I0) as (I & (S1 & _)).
  destruct I. rewrite S1, Hcp in *. assumption.
Qed.

(* C06_no_commit_with_debt *)
Theorem no_commit_with_debt : forall ok r b r',
  determine_result ok r = (Commit b, r') -> owed r' = 0.
Proof.
  intros ok r b r' H. unfold determine_result in H.
  destruct (repay_all r) as [o r1] eqn:E.
  assert (Ho : o = OOk -> owed r1 = 0).
  { intros ->. unfold repay_all in E.
    destruct (consume_exec_internal r (exec_d r)) as [o1 x1]; destruct o1; try discriminate.
    destruct (consume_fin_internal _ _) as [o2 x2]; destruct o2; try discriminate.
    destruct (repay_storage _ _) as [o3 x3]; destruct o3; try discriminate.
    destruct (dsub (owed x3) _) as [ow|]; [|discriminate].
    destruct (dsub (balance x3) _) as [bb|]; [|discriminate].
    destruct (negb (ow =? 0)) eqn:En; [discriminate|].
    apply negb_false_iff in En. apply Z.eqb_eq in En.
    destruct (abort_when_repaid _); [discriminate|]. injection E as <-. sr. exact En. }
  destruct o.
  - destruct ok.
    + injection H as _ <-. auto.
    + destruct (fully_repaid r1) eqn:F; [|discriminate]. injection H as _ <-. apply Z.eqb_eq in F. exact F.
  - destruct ok.
    + destruct e; discriminate.
    + destruct (fully_repaid r1) eqn:F; [|discriminate]. injection H as _ <-. apply Z.eqb_eq in F. exact F.
  - discriminate.
Qed.

(* ---- exactness of the tip under TipExact ------------------------------------------------------------- *)
Lemma eff_split : forall price prop eff,
  (price * prop) mod ONE = 0 -> dmul price (ONE + prop) = Some eff ->
  eff = price + (price * prop) / ONE.
Proof.
  intros price prop eff Hm H. apply dmul_eq in H. subst eff.
  apply Z.mod_divide in Hm; [|unfold ONE; lia]. destruct Hm as [k Hk].
  replace (price * (ONE + prop)) with ((price + k) * ONE) by (rewrite Z.mul_add_distr_l, Hk; ring).
  rewrite Z.quot_mul by (unfold ONE; lia). rewrite Hk, Z.div_mul by (unfold ONE; lia). reflexivity.
Qed.

Lemma tip_part : forall price prop c x y,
  (price * prop) mod ONE = 0 -> dmul price (of_int c) = Some x -> dmul x prop = Some y ->
  x = price * c /\ y = c * ((price * prop) / ONE).
Proof.
  intros price prop c x y Hm H1 H2. apply dmul_of_int in H1. subst x. split; [reflexivity|].
  apply dmul_eq in H2. subst y.
  apply Z.mod_divide in Hm; [|unfold ONE; lia]. destruct Hm as [k Hk].
  replace (price * c * prop) with (c * (price * prop)) by ring. rewrite Hk.
  replace (c * (k * ONE)) with (c * k * ONE) by ring.
  rewrite Z.quot_mul by (unfold ONE; lia). rewrite Z.div_mul by (unfold ONE; lia). reflexivity.
Qed.

(* under TipExact the finalised total cost is exactly what the running balance deducted *)
Theorem total_is_deducted : forall r s T,
  EffOk r -> TipExact (cp r) (tp_tip r) -> finalize r = Some s -> total_cost s = Some T ->
  T = deducted r.
Proof.
  intros r s T (E1 & E2) (X1 & X2) Hf Ht. unfold finalize in Hf.
  destruct (dmul (exec_price (cp r)) (of_int (exec_c r))) as [ex|] eqn:A1; [|discriminate].
  destruct (dmul (fin_price (cp r)) (of_int (fin_c r))) as [fx|] eqn:A2; [|discriminate].
  destruct (dmul ex (proportion (tp_tip r))) as [te|] eqn:A3; [|discriminate].
  destruct (dmul fx (proportion (tp_tip r))) as [tf|] eqn:A4; [|discriminate].
  destruct (dadd te tf) as [tipx|] eqn:A5; [|discriminate]. injection Hf as <-.
  destruct (tip_part _ _ _ _ _ X1 A1 A3) as (-> & ->).
  destruct (tip_part _ _ _ _ _ X2 A2 A4) as (-> & ->).
  apply dadd_eq in A5. subst tipx.
  unfold total_cost, obind in Ht. cbn [s_exec_xrd s_fin_xrd s_tip_xrd s_storage_xrd s_royalty_xrd] in Ht.
  destruct (dadd _ _) as [a|] eqn:B1 in Ht; [|discriminate]. apply dadd_eq in B1.
  destruct (dadd a _) as [b|] eqn:B2 in Ht; [|discriminate]. apply dadd_eq in B2.
  destruct (dadd b _) as [c|] eqn:B3 in Ht; [|discriminate]. apply dadd_eq in B3.
  apply dadd_eq in Ht. subst. unfold deducted.
  rewrite (eff_split _ _ _ X1 E1), (eff_split _ _ _ X2 E2). ring.
Qed.

(* ---- fee collection ------------------------------------------------------------------------------------ *)
Definition elig1 (ok : bool) (e : Z * Z * bool) : Z :=
  if snd e then (if ok then snd (fst e) else 0) else snd (fst e).
Definition elig (ok : bool) (ls : list (Z * Z * bool)) : Z :=
  fold_right (fun e acc => elig1 ok e + acc) 0 ls.
Definition NonNegLocks (ls : list (Z * Z * bool)) : Prop := Forall (fun e => 0 <= snd (fst e)) ls.

Lemma elig_cons : forall ok e ls, elig ok (e :: ls) = elig1 ok e + elig ok ls.
Proof. reflexivity. Qed.
Lemma elig_app : forall ok a b, elig ok (a ++ b) = elig ok a + elig ok b.
Proof. induction a as [|e a IH]; intros b; [reflexivity|]. rewrite <- app_comm_cons, !elig_cons, IH. lia. Qed.
Lemma elig_rev : forall ok l, elig ok (rev l) = elig ok l.
Proof.
  induction l as [|e l IH]; [reflexivity|]. cbn [rev]. rewrite elig_app, IH, !elig_cons.
  change (elig ok []) with 0. lia.
Qed.
Lemma elig1_bounds : forall ok e, 0 <= snd (fst e) -> 0 <= elig1 ok e /\ (if snd e then 0 else snd (fst e)) <= elig1 ok e.
Proof. intros ok [[v a] c] H. unfold elig1. cbn in *. destruct c, ok; lia. Qed.
Lemma elig_ge_lsum : forall ok l, NonNegLocks l -> 0 <= elig ok l /\ lsum l <= elig ok l.
Proof.
  induction l as [|e l IH]; intros H; [cbn; lia|]. inversion H as [|? ? H1 H2]; subst.
  destruct (IH H2). rewrite elig_cons. destruct (elig1_bounds ok e H1).
  unfold lsum in *. cbn [fold_right]. destruct (snd e); lia.
Qed.

Lemma take_fees_spec : forall ls ok req col pay refs,
  NonNegLocks ls -> 0 <= req ->
  match take_fees ls ok req col pay refs with
  | inr k => k = PkOverflow
  | inl None => True
  | inl (Some (req', col', pay', _)) =>
      req' = Z.max 0 (req - elig ok ls) /\ col' = col + (req - req') /\ bdsum pay' = bdsum pay + (req - req')
  end.
Proof.
  induction ls as [|[[v lk] c] ls IH]; intros ok req col pay refs Hn Hr; cbn [take_fees].
  - unfold elig. cbn [fold_right]. lia.
  - inversion Hn as [|? ? H1 H2]; subst. cbn [fst snd] in H1.
    set (amount := if c then if ok then Z.min lk req else 0 else Z.min lk req).
    assert (Ha : 0 <= amount <= lk /\ amount <= req) by (unfold amount; destruct c, ok; lia).
    destruct (lk <? amount) eqn:E; [apply Z.ltb_lt in E; lia|].
    destruct (dsub lk amount) as [rest|] eqn:E1; [|reflexivity].
    destruct (dadd col amount) as [col1|] eqn:E2; [|reflexivity].
    destruct (dsub req amount) as [req1|] eqn:E3; [|reflexivity].
    destruct (bd_add pay v amount) as [pay1|] eqn:E4; [|reflexivity].
    apply dsub_eq in E1, E3. apply dadd_eq in E2. apply bd_add_sum in E4. subst.
    specialize (IH ok (req - amount) (col + amount) pay1 (refs ++ [(v, lk - amount)]) H2 ltac:(lia)).
    destruct (take_fees ls ok (req - amount) (col + amount) pay1 (refs ++ [(v, lk - amount)])) as [[[[[r' c'] p'] f']|]|k]; auto.
    destruct IH as (I1 & I2 & I3). rewrite elig_cons. unfold elig1. cbn [fst snd].
    destruct (elig_ge_lsum ok ls H2) as (G0 & _).
    unfold amount in *. destruct c, ok; lia.
Qed.

(* C06_collected_equals_cost / C06_exact_split: with TipExact, for a reserve satisfying the invariant
   whose loan is repaid, fee distribution never trips one of its three sanity assertions (only an
   I192 overflow is left as a possible panic), what is taken from the vaults plus the free credit
   used is exactly the total cost, and proposer + validator set + burn + royalties is the same amount *)
Theorem distribute_exact : forall sh r ok s,
  Inv r -> EffOk r -> TipExact (cp r) (tp_tip r) -> owed r = 0 -> 0 <= deducted r ->
  finalize r = Some s ->
  match distribute sh s (free_credit r) ok with
  | DPanic k => k = PkOverflow
  | DOk o =>
      total_cost s = Some (d_collected o)
      /\ d_collected o = deducted r
      /\ bdsum (d_payments o) + d_free_used o = d_collected o
      /\ 0 <= d_free_used o <= free_credit r
      /\ d_proposer o + d_validator o + d_burn o + royalty_c r = d_collected o
      /\ bdsum (d_royalties o) = royalty_c r
  end.
Proof.
  intros sh r ok s I E X Ho Hd Hf. unfold distribute.
  destruct (total_cost s) as [T|] eqn:Et; [|reflexivity].
  pose proof (total_is_deducted _ _ _ E X Hf Et) as HT.
  assert (Hs : s_locked s = locked r /\ s_bad_debt s = owed r /\ s_royalty_xrd s = royalty_c r /\ s_royalty_bd s = royalty_bd r).
  { unfold finalize in Hf.
    destruct (dmul (exec_price (cp r)) _); [|discriminate]. destruct (dmul (fin_price (cp r)) _); [|discriminate].
    destruct (dmul z _); [|discriminate]. destruct (dmul z0 _); [|discriminate].
    destruct (dadd _ _); [|discriminate]. injection Hf as <-. cbn. auto. }
  destruct Hs as (S1 & S2 & S3 & S4). destruct I.
  assert (Hn : NonNegLocks (rev (s_locked s))).
  { rewrite S1. unfold NonNegLocks. apply Forall_rev. assumption. }
  pose proof (take_fees_spec (rev (s_locked s)) ok T 0 [] [] Hn ltac:(lia)) as Hspec.
  destruct (take_fees (rev (s_locked s)) ok T 0 [] []) as [[[[[req1 col1] pay] refunds]|]|k]; [| reflexivity | exact Hspec].
  destruct Hspec as (R1 & R2 & R3).
  rewrite S1, elig_rev in R1.
  destruct (elig_ge_lsum ok (locked r) i_locks0) as (G0 & G1).
  set (fc := if 0 <? free_credit r then Z.min (free_credit r) req1 else 0).
  assert (Hfc : req1 - fc = 0 /\ 0 <= fc <= free_credit r).
  { unfold fc. destruct (0 <? free_credit r) eqn:F; [apply Z.ltb_lt in F|apply Z.ltb_ge in F]; lia. }
  destruct (dadd col1 fc) as [col2|] eqn:C2; [|reflexivity]. apply dadd_eq in C2.
  destruct (dsub req1 fc) as [req2|] eqn:C3; [|reflexivity]. apply dsub_eq in C3.
  destruct (to_proposer sh s) as [p|] eqn:P1; [|reflexivity].
  destruct (to_validator_set sh s) as [v|] eqn:P2; [|reflexivity].
  destruct (to_burn sh s) as [b|] eqn:P3; [|reflexivity].
  rewrite S2, Ho. cbn [Z.eqb negb].
  replace (req2 =? 0) with true by (symmetry; apply Z.eqb_eq; lia). cbn [negb].
  destruct (dsub col2 (s_royalty_xrd s)) as [remaining|] eqn:C4; [|reflexivity]. apply dsub_eq in C4.
  destruct (obind (dadd p v) (fun x => dadd x b)) as [to_dist|] eqn:C5; [|reflexivity].
  unfold obind in C5. destruct (dadd p v) as [pv|] eqn:C6; [|discriminate]. apply dadd_eq in C6, C5.
  (* burn is defined as the remainder, so the split is exact *)
  assert (Hb : p + v + b = T - s_royalty_xrd s).
  { unfold to_burn, obind in P3. rewrite P1, P2 in P3.
    destruct (network_fees s) as [nf|] eqn:N1; [|discriminate].
    destruct (dadd (s_tip_xrd s) nf) as [a|] eqn:N2; [|discriminate].
    destruct (dsub a p) as [bb|] eqn:N3; [|discriminate].
    apply dadd_eq in N2. apply dsub_eq in N3, P3.
    unfold network_fees, obind in N1. destruct (dadd (s_exec_xrd s) (s_fin_xrd s)) as [x|] eqn:N4; [|discriminate].
    apply dadd_eq in N4, N1.
    unfold total_cost, obind in Et.
    destruct (dadd (s_exec_xrd s) (s_fin_xrd s)) as [x'|] eqn:T1; [|discriminate].
    destruct (dadd x' (s_tip_xrd s)) as [y|] eqn:T2; [|discriminate].
    destruct (dadd y (s_storage_xrd s)) as [z|] eqn:T3; [|discriminate].
    apply dadd_eq in T1, T2, T3, Et. lia. }
  replace (remaining =? to_dist) with true by (symmetry; apply Z.eqb_eq; lia). cbn [negb].
  cbn [d_collected d_payments d_free_used d_proposer d_validator d_burn d_royalties].
  rewrite S4. unfold bdsum in R3 at 2. cbn [fold_right] in R3.
  repeat split; try lia. f_equal. lia.
Qed.
