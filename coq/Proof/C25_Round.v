(* Proof/C25_Round.v — checked_round as written computes exactly the rounding prescribed by the
   mode, or None iff that value is not representable. *)
From Coq Require Import ZArith List Bool Lia.
Import ListNotations.
Require Import RV.Lib.DecCore RV.Lib.DecCoreFacts RV.Model.C25_Round.
Open Scope Z_scope.


Lemma fmt_ok_DEC : fmt_ok DEC.
Proof. unfold fmt_ok; cbn [scale fbits wbits cbrt_bits DEC]. repeat split; vm_compute; reflexivity. Qed.
Lemma fmt_ok_PDEC : fmt_ok PDEC.
Proof. unfold fmt_ok; cbn [scale fbits wbits cbrt_bits PDEC]. repeat split; vm_compute; reflexivity. Qed.

Lemma chk_eq t a b : a = b -> chk t a = if in_ity t b then Ok b else Err ENone.
Proof. intros ->. reflexivity. Qed.

Lemma pow10_even n : 1 <= n -> exists k, 10 ^ n = 2 * k /\ 0 < k.
Proof.
  intros H. exists (5 * 10 ^ (n - 1)). replace n with (Z.succ (n - 1)) at 1 by lia.
  rewrite Z.pow_succ_r by lia. pose proof (pow10_pos (n - 1) ltac:(lia)). lia.
Qed.

Lemma rem_2d_even d q : 0 < d -> (Z.rem (d * q) (2 * d) =? 0) = Z.even q.
Proof.
  intros Hd. destruct (Z.even q) eqn:He.
  - apply Z.even_spec in He. destruct He as [k ->]. apply Z.eqb_eq.
    replace (d * (2 * k)) with (k * (2 * d)) by lia. apply Z.rem_mul. lia.
  - apply Z.eqb_neq. intros Hr. apply Z.rem_divide in Hr; [|lia]. destruct Hr as [c Hc].
    assert (Ho : Z.odd q = true) by (rewrite <- Z.negb_even, He; reflexivity).
    apply Z.odd_spec in Ho. destruct Ho as [k ->].
    assert (2 * k + 1 = 2 * c) by nia. lia.
Qed.

Lemma compare_half pr k : (pr ?= k) = (2 * pr ?= 2 * k).
Proof. apply Zmult_compare_compat_l. lia. Qed.

Lemma rem_mod_pos x d : 0 < d ->
  x mod d = if Z.rem x d <? 0 then d + Z.rem x d else Z.rem x d.
Proof.
  intros Hd. pose proof (Z.quot_rem' x d) as E.
  pose proof (Z.rem_bound_abs x d ltac:(lia)) as B.
  destruct (Z.ltb_spec (Z.rem x d) 0) as [Hn|Hn].
  - symmetry. apply (Z.mod_unique x d (Z.quot x d - 1)); [left; lia|].
    replace (d * (x ÷ d - 1)) with (d * (x ÷ d) - d) by ring. lia.
  - symmetry. apply (Z.mod_unique x d (Z.quot x d)); [left; lia|lia].
Qed.

Section Round.
  Variable f : fmt.
  Hypothesis Hok : fmt_ok f.

  Lemma step_range dp : 0 <= dp <= scale f -> 1 <= step f dp <= 10 ^ scale f.
  Proof.
    intros H. unfold step. split.
    - pose proof (pow10_pos (scale f - dp) ltac:(lia)). lia.
    - apply Z.pow_le_mono_r; lia.
  Qed.

  Theorem round_spec_thm x dp m :
    InF f x -> 0 <= dp <= scale f ->
    checked_round f x dp m =
      (let r := round_spec m (step f dp) x in if in_f f r then Ok r else Err ENone).
  Proof.
    intros Hx Hdp. destruct Hok as (Hsc & Hfb & Hwb & Hone & Hone2 & _).
    pose proof (step_range dp Hdp) as Hd. unfold step in *. set (d := 10 ^ (scale f - dp)) in *.
    unfold InF in Hx. apply -> InTy_SI in Hx.
    pose proof (pow2_pos (fbits f - 1) ltac:(lia)) as Hpp.
    assert (HinT : forall z, - 2 ^ (fbits f - 1) <= z <= 2 ^ (fbits f - 1) - 1 -> InTy (fty f) z).
    { intros z Hz. apply <- InTy_SI; lia. }
    unfold checked_round. cbv zeta.
    destruct (Z.leb_spec dp (scale f)); [|lia]. cbn [negb].
    destruct (Z.leb_spec 0 dp); [|lia]. cbn [negb].
    unfold ppow. fold d. rewrite pan_in by (apply HinT; lia). cbn [bind].
    unfold prem. destruct (Z.eqb_spec d 0); [lia|]. cbn [bind].
    pose proof (rem_mod_pos x d ltac:(lia)) as Hrm.
    pose proof (Z.div_mod x d ltac:(lia)) as Hdm.
    pose proof (Z.mod_pos_bound x d ltac:(lia)) as Hmb.
    destruct (Z.eqb_spec (Z.rem x d) 0) as [Hr0|Hr0].
    - (* already at that precision: unchanged *)
      assert (Hm : x mod d = 0) by (rewrite Hrm, Hr0; reflexivity).
      assert (Hlo : r_lo d x = x) by (unfold r_lo; lia).
      assert (Hhi : r_hi d x = x) by (unfold r_hi; rewrite Hm; reflexivity).
      assert (Hsp : round_spec m d x = x).
      { destruct m; cbn [round_spec]; unfold r_nearest, r_toward_zero, r_away, r_even;
          rewrite ?Hlo, ?Hhi; repeat (destruct (_ <=? _)); try reflexivity;
          try (destruct (Z.even _); reflexivity);
          replace (2 * (x - x)) with 0 by lia;
          (destruct (Z.compare_spec 0 d); [lia|reflexivity|lia]). }
      cbv zeta. rewrite Hsp. unfold in_f. replace (in_ity (fty f) x) with true; [reflexivity|].
      symmetry. apply in_ity_iff, HinT. lia.
    - (* a genuine rounding step *)
      assert (Hm : x mod d <> 0).
      { rewrite Hrm. destruct (Z.ltb_spec (Z.rem x d) 0); [|lia].
        pose proof (Z.rem_bound_abs x d ltac:(lia)). lia. }
      set (pr := x mod d) in *.
      assert (Hpr : 0 < pr < d) by lia.
      assert (Hlo : r_lo d x = x - pr) by (unfold r_lo; lia).
      assert (Hhi : r_hi d x = x + (d - pr)).
      { unfold r_hi. fold pr. destruct (Z.eqb_spec pr 0); [lia|]. lia. }
      assert (Hprem : (if Z.rem x d <? 0 then padd (fty f) d (Z.rem x d) else Ok (Z.rem x d)) = Ok pr).
      { destruct (Z.ltb_spec (Z.rem x d) 0).
        - unfold padd. rewrite pan_in by (apply HinT; lia). f_equal. lia.
        - f_equal. lia. }
      rewrite Hprem. cbn [bind].
      assert (Hd2 : 2 <= d).
      { destruct (Z.eq_dec d 1) as [E|E]; [|lia]. exfalso. apply Hr0. rewrite E. apply Z.rem_1_r. }
      assert (Hn1 : 1 <= scale f - dp).
      { destruct (Z.eq_dec (scale f - dp) 0) as [E|E]; [|lia]. subst d. rewrite E in Hd2. simpl in Hd2. lia. }
      destruct (pow10_even _ Hn1) as (k & Hk & Hkpos). fold d in Hk.
      assert (Hmid : Z.shiftr d 1 = k) by (rewrite Z.shiftr_div_pow2 by lia; change (2 ^ 1) with 2; lia).
      rewrite Hmid.
      assert (Hcmp : (pr ?= k) = (2 * (x - r_lo d x) ?= d)).
      { rewrite Hlo, Hk. replace (x - (x - pr)) with pr by lia. apply compare_half. }
      (* the three elementary outcomes *)
      assert (Hup : (let* to_add := unwrap (csub (fty f) d pr) in cadd (fty f) x to_add)
                    = if in_f f (r_hi d x) then Ok (r_hi d x) else Err ENone).
      { unfold csub. rewrite chk_in by (apply HinT; lia). cbn [unwrap bind].
        unfold cadd, in_f. apply chk_eq. lia. }
      assert (Hdown : csub (fty f) x pr = if in_f f (r_lo d x) then Ok (r_lo d x) else Err ENone).
      { unfold csub, in_f. apply chk_eq. lia. }
      assert (Hdd : cast (fty f) (Z.shiftl d 1) = 2 * d).
      { rewrite Z.shiftl_mul_pow2 by lia. change (2 ^ 1) with 2.
        unfold fty. rewrite cast_id_SI; [lia|lia|]. apply <- InTy_SI; lia. }
      assert (Hq : x - pr = d * (x / d)) by lia.
      assert (Heven : (if 0 <? x
           then let* rounded_down := csub (fty f) x pr in
                let* r := prem (fty f) rounded_down (cast (fty f) (Z.shiftl d 1)) in
                if r =? 0 then Ok rounded_down else cadd (fty f) rounded_down d
           else let* to_add := unwrap (csub (fty f) d pr) in
                let* rounded_up := cadd (fty f) x to_add in
                let* r := prem (fty f) rounded_up (cast (fty f) (Z.shiftl d 1)) in
                if r =? 0 then Ok rounded_up else csub (fty f) rounded_up d)
           = if in_f f (r_even d x) then Ok (r_even d x) else Err ENone).
      { rewrite Hdd. unfold r_even. rewrite Hlo, Hhi.
        destruct (Z.ltb_spec 0 x) as [Hpos|Hneg].
        - assert (Hle : pr <= x) by (apply Z.mod_le; lia).
          unfold csub. rewrite chk_in by (apply HinT; lia). cbn [bind].
          unfold prem. destruct (Z.eqb_spec (2 * d) 0); [lia|]. cbn [bind].
          rewrite Hq, rem_2d_even by lia.
          destruct (Z.even (x / d)).
          + unfold in_f. rewrite <- Hq. rewrite (proj2 (in_ity_iff _ _)) by (apply HinT; lia). reflexivity.
          + rewrite <- Hq. unfold cadd, in_f. apply chk_eq. lia.
        - unfold csub at 1. rewrite chk_in by (apply HinT; lia). cbn [unwrap bind].
          assert (Hxneg : x < 0).
          { destruct (Z.eq_dec x 0) as [E|E]; [|lia]. exfalso. apply Hr0. rewrite E. apply Z.rem_0_l. lia. }
          assert (Hqn : x / d < 0) by (apply Z.div_lt_upper_bound; lia).
          assert (Hhi0 : x + (d - pr) <= 0).
          { replace (x + (d - pr)) with (d * (x / d + 1)) by lia.
            apply Z.mul_nonneg_nonpos; lia. }
          unfold cadd. rewrite chk_in by (apply HinT; lia). cbn [bind].
          unfold prem. destruct (Z.eqb_spec (2 * d) 0); [lia|]. cbn [bind].
          replace (x + (d - pr)) with (d * (x / d + 1)) by lia.
          rewrite rem_2d_even by lia.
          replace (x / d + 1) with (Z.succ (x / d)) by lia. rewrite Z.even_succ, <- Z.negb_even.
          destruct (Z.even (x / d)); cbn [negb].
          + unfold csub, in_f. apply chk_eq. lia.
          + unfold in_f. rewrite (proj2 (in_ity_iff _ _)) by (apply HinT; lia). reflexivity. }
      cbv zeta.
      destruct m; cbn [from_mode round_spec]; unfold r_nearest, r_toward_zero, r_away,
        towards_zero, away_from_zero, from_midpoint_ordering.
      + exact Hup.
      + exact Hdown.
      + destruct (Z.ltb_spec 0 x), (Z.leb_spec 0 x); try lia;
          first [exact Hdown | exact Hup | (exfalso; apply Hr0; replace x with 0 by lia; apply Z.rem_0_l; lia)].
      + destruct (Z.ltb_spec 0 x), (Z.leb_spec 0 x); try lia;
          first [exact Hdown | exact Hup | (exfalso; apply Hr0; replace x with 0 by lia; apply Z.rem_0_l; lia)].
      + rewrite Hcmp. destruct (2 * (x - r_lo d x) ?= d); [|exact Hdown|exact Hup].
        destruct (Z.ltb_spec 0 x), (Z.leb_spec 0 x); try lia;
          first [exact Hdown | exact Hup | (exfalso; apply Hr0; replace x with 0 by lia; apply Z.rem_0_l; lia)].
      + rewrite Hcmp. destruct (2 * (x - r_lo d x) ?= d); [|exact Hdown|exact Hup].
        destruct (Z.ltb_spec 0 x), (Z.leb_spec 0 x); try lia;
          first [exact Hdown | exact Hup | (exfalso; apply Hr0; replace x with 0 by lia; apply Z.rem_0_l; lia)].
      + rewrite Hcmp. destruct (2 * (x - r_lo d x) ?= d); [|exact Hdown|exact Hup].
        exact Heven.
  Qed.
End Round.

(* ---------------------------------------------------------------------------------------------- *)
(* The specification itself is the rounding each mode names: the result is a multiple of the step,
   closer than one step to x, unchanged if x is a multiple, on the side the mode prescribes; for the
   nearest modes it is a nearest multiple and an exact tie is resolved by the mode's tie rule. *)
Definition side_ok (m : rmode) (d x r : Z) : Prop :=
  match m with
  | ToPositiveInfinity => x <= r
  | ToNegativeInfinity => r <= x
  | ToZero => Z.abs r <= Z.abs x
  | AwayFromZero => Z.abs x <= Z.abs r
  | ToNearestMidpointTowardZero => 2 * Z.abs (r - x) <= d /\ (2 * Z.abs (r - x) = d -> Z.abs r <= Z.abs x)
  | ToNearestMidpointAwayFromZero => 2 * Z.abs (r - x) <= d /\ (2 * Z.abs (r - x) = d -> Z.abs x <= Z.abs r)
  | ToNearestMidpointToEven => 2 * Z.abs (r - x) <= d /\ (2 * Z.abs (r - x) = d -> Z.even (r / d) = true)
  end.

Lemma round_spec_sound m d x : 0 < d ->
  let r := round_spec m d x in
  r mod d = 0 /\ Z.abs (r - x) < d /\ (x mod d = 0 -> r = x) /\ side_ok m d x r.
Proof.
  intros Hd.
  pose proof (Z.div_mod x d ltac:(lia)) as Hdm.
  pose proof (Z.mod_pos_bound x d ltac:(lia)) as Hmb.
  set (q := x / d) in *. set (p := x mod d) in *.
  assert (Hq0 : 0 <= x -> 0 <= d * q).
  { intros. apply Z.mul_nonneg_nonneg; [lia|]. subst q. apply Z.div_pos; lia. }
  assert (Hq1 : x < 0 -> d * q + d <= 0).
  { intros. assert (q < 0) by (subst q; apply Z.div_lt_upper_bound; lia).
    replace (d * q + d) with (d * (q + 1)) by ring. apply Z.mul_nonneg_nonpos; lia. }
  assert (Hlo : r_lo d x = d * q) by reflexivity.
  assert (Hhi : r_hi d x = if p =? 0 then x else d * q + d) by reflexivity.
  assert (Mlo : (d * q) mod d = 0) by (rewrite Z.mul_comm; apply Z.mod_mul; lia).
  assert (Mhi : (d * q + d) mod d = 0).
  { replace (d * q + d) with ((q + 1) * d) by ring. apply Z.mod_mul; lia. }
  assert (Mx : p = 0 -> x mod d = 0) by (intros; subst p; assumption).
  assert (Dlo : d * q / d = q) by (rewrite Z.mul_comm; apply Z.div_mul; lia).
  assert (Dhi : (d * q + d) / d = q + 1).
  { replace (d * q + d) with ((q + 1) * d) by ring. apply Z.div_mul; lia. }
  assert (Ev : Z.even (q + 1) = negb (Z.even q)).
  { replace (q + 1) with (Z.succ q) by lia. rewrite Z.even_succ, <- Z.negb_even. reflexivity. }
  cbv zeta.
  destruct m; cbn [round_spec side_ok]; unfold r_nearest, r_toward_zero, r_away, r_even;
    rewrite ?Hlo, ?Hhi; fold q;
    repeat match goal with
    | |- context[?a =? ?b] => destruct (Z.eqb_spec a b)
    | |- context[?a <=? ?b] => destruct (Z.leb_spec a b)
    | |- context[?a ?= ?b] => destruct (Z.compare_spec a b)
    | |- context[Z.even q] => destruct (Z.even q) eqn:?
    end;
    repeat split; intros; rewrite ?Dlo, ?Dhi, ?Ev; try assumption; try (cbn [negb]; congruence);
    try (rewrite Mx by lia; reflexivity); try lia.
Qed.
