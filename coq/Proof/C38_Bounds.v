(* C38 — each abstract bound operation over-approximates the concrete balance operation. *)
From Coq Require Import List ZArith Bool Lia.
Import ListNotations.
Require Import RV.Model.C37_Constraint RV.Proof.C37_Constraint RV.Model.C38_Bounds.
Open Scope Z_scope.

(* concretisation: the non-negative balances described by a (lower, upper) pair *)
Definition gamma (l : lower) (u : upper) (x : Z) : Prop := 0 <= x /\ SatLower l x /\ SatUpper u x.

Lemma in_dec_spec : forall a, in_dec a = true <-> DEC_MIN <= a <= DEC_MAX.
Proof. intro a; unfold in_dec; rewrite andb_true_iff, !Z.leb_le; tauto. Qed.

(* worktop put / bucket merge: balances add *)
Theorem add_sound : forall l1 u1 l2 u2 l u x y,
  gamma l1 u1 x -> gamma l2 u2 y -> lower_add_from l1 l2 = BOk l -> upper_add_from u1 u2 = BOk u ->
  gamma l u (x + y).
Proof.
  intros l1 u1 l2 u2 l u x y [Hx [Hl1 Hu1]] [Hy [Hl2 Hu2]] HL HU. split; [lia|]. split.
  - destruct l1 as [|a], l2 as [|b]; cbn in *.
    + inversion HL; subst; cbn; lia.
    + destruct (b =? 0) eqn:E; inversion HL; subst; cbn; lia.
    + destruct (a =? 0) eqn:E; inversion HL; subst; cbn; lia.
    + destruct (in_dec (a + b)); inversion HL; subst; cbn; lia.
  - destruct u1 as [a|], u2 as [b|]; cbn in *; try (inversion HU; subst; exact I).
    destruct (in_dec (a + b)); inversion HU; subst; cbn; lia.
Qed.

(* taking an amount t that the balance can provide: the result is within the taken bounds and the
   upper-bound operation does not report "cannot be satisfied" *)
Theorem take_sound : forall l u x t, gamma l u x -> 0 <= t <= x ->
  upper_take_amount u t <> BTakeCannotBeSatisfied /\
  forall l' u', lower_take_amount l t = BOk l' -> upper_take_amount u t = BOk u' -> gamma l' u' (x - t).
Proof.
  intros l u x t [Hx [Hl Hu]] Ht. split.
  - destruct u as [a|]; cbn in *; [|discriminate]. rewrite Z.gtb_ltb.
    destruct (a <? t) eqn:E; [apply Z.ltb_lt in E; lia|]. destruct (in_dec (a - t)); discriminate.
  - intros l' u' HL HU. split; [lia|]. split.
    + destruct l as [|a]; cbn in *.
      * destruct (t =? 0) eqn:E; inversion HL; subst; cbn; [apply Z.eqb_eq in E|]; lia.
      * rewrite Z.gtb_ltb in HL. destruct (a <? t) eqn:E; [inversion HL; subst; cbn; lia|].
        apply Z.ltb_ge in E. destruct (in_dec (a - t)); inversion HL; subst; cbn; lia.
    + destruct u as [a|]; cbn in *; [|inversion HU; subst; exact I]. rewrite Z.gtb_ltb in HU.
      destruct (a <? t) eqn:E; [discriminate|]. destruct (in_dec (a - t)); inversion HU; subst; cbn; lia.
Qed.
(* no panic of the unchecked subtraction when t >= 0 and the bound is a valid (non-negative, in range) decimal *)
Theorem take_no_panic : forall a t, 0 <= a <= DEC_MAX -> 0 <= t ->
  lower_take_amount (LIncl a) t <> BPanic /\ upper_take_amount (UIncl a) t <> BPanic.
Proof.
  intros a t Ha Ht. assert (Hm : DEC_MIN < 0) by reflexivity.
  split; cbn; rewrite Z.gtb_ltb; destruct (a <? t) eqn:E; try discriminate; apply Z.ltb_ge in E;
    (assert (Hd : in_dec (a - t) = true) by (apply in_dec_spec; lia)); rewrite Hd; discriminate.
Qed.

(* an assertion tightens the bounds: a balance satisfying both stays inside *)
Theorem constrain_sound : forall l u l2 u2 x, gamma l u x -> SatLower l2 x -> SatUpper u2 x ->
  gamma (lower_constrain_to l l2) (upper_constrain_to u u2) x.
Proof.
  intros l u l2 u2 x [Hx [Hl Hu]] Hl2 Hu2. split; [exact Hx|]. split.
  - unfold lower_constrain_to. destruct (lower_cmp l l2); assumption.
  - unfold upper_constrain_to. destruct (upper_cmp u2 u); assumption.
Qed.
(* and constrain_to really is the tighter of the two *)
Theorem constrain_tightest : forall l l2 u u2 x, 0 <= x ->
  (SatLower (lower_constrain_to l l2) x <-> SatLower l x /\ SatLower l2 x) /\
  (SatUpper (upper_constrain_to u u2) x <-> SatUpper u x /\ SatUpper u2 x).
Proof.
  intros l l2 u u2 x Hx. split.
  - unfold lower_constrain_to, lower_cmp. destruct l as [|a], l2 as [|b]; cbn.
    + tauto.
    + destruct (0 <? b) eqn:E; [apply Z.ltb_lt in E | apply Z.ltb_ge in E]; cbn; lia.
    + destruct (0 <? a) eqn:E; [apply Z.ltb_lt in E | apply Z.ltb_ge in E]; cbn; lia.
    + destruct (Z.compare_spec a b); cbn; lia.
  - unfold upper_constrain_to, upper_cmp. destruct u as [a|], u2 as [b|]; cbn; try tauto.
    destruct (Z.compare_spec b a); cbn; lia.
Qed.
