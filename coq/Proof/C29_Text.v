(* C29 — new, Display and FromStr. *)
From Coq Require Import List ZArith Bool Lia.
Import ListNotations.
Require Import RV.Model.C29_Calendar RV.Proof.C29_Sweep RV.Proof.C29_Calendar RV.Proof.C29_ToInstant.
Open Scope Z_scope.

(* ---------------------------------------------------------------------------------------------- *)
(* UtcDateTime::new accepts exactly the valid date-times and never panics *)

Lemma new_no_panic : forall y m d h mi s, new y m d h mi s <> Panic.
Proof.
  intros y m d h mi s. unfold new.
  destruct (y =? 0); [discriminate|].
  destruct (Z.leb_spec 1 m) as [A|A]; cbn [andb negb]; [|discriminate].
  destruct (Z.leb_spec m 12) as [B|B]; cbn [negb]; [|discriminate].
  rewrite idx_month by lia.
  repeat match goal with |- context [if ?c then _ else _] => destruct c end; discriminate.
Qed.

Lemma new_ok_iff : forall y m d h mi s x,
  0 <= y <= U32_MAX -> 0 <= h -> 0 <= mi -> 0 <= s ->
  (new y m d h mi s = Ok x <-> x = mkdt y m d h mi s /\ valid_dt x).
Proof.
  intros y m d h mi s x Hy Hh Hmi Hs. unfold new, valid_dt.
  destruct (Z.eqb_spec y 0) as [Y|Y].
  { split; [discriminate|]. intros [-> V]. cbn in V. lia. }
  destruct (Z.leb_spec 1 m) as [A|A]; cbn [andb negb].
  2:{ split; [discriminate|]. intros [-> V]. cbn in V. lia. }
  destruct (Z.leb_spec m 12) as [B|B]; cbn [negb].
  2:{ split; [discriminate|]. intros [-> V]. cbn in V. lia. }
  rewrite idx_month by lia. rewrite greg_leap_alt.
  pose proof (month_len_false m (greg_leap y) ltac:(lia)) as ML.
  pose proof (month_len_bounds true m ltac:(lia)) as MB.
  assert (m = 2 -> month_len true m = 29) as M2 by (intros ->; reflexivity).
  destruct (Z.ltb_spec d 1) as [D1|D1]; cbn [orb].
  { split; [discriminate|]. intros [-> V]. cbn in V. lia. }
  destruct (Z.ltb_spec (month_len true m) d) as [D2|D2]; cbn [orb].
  { split; [discriminate|]. intros [-> V]. cbn in V.
    destruct (negb (greg_leap y) && (m =? 2)); lia. }
  destruct (negb (greg_leap y)) eqn:NL; cbn [andb] in *.
  - destruct (Z.eqb_spec m 2) as [E2|E2]; cbn [andb].
    + destruct (Z.ltb_spec 28 d) as [D3|D3].
      { split; [discriminate|]. intros [-> V]. cbn in V. lia. }
      destruct (Z.ltb_spec 23 h); [split; [discriminate|intros [-> V]; cbn in V; lia]|].
      destruct (Z.ltb_spec 59 mi); [split; [discriminate|intros [-> V]; cbn in V; lia]|].
      destruct (Z.ltb_spec 59 s); [split; [discriminate|intros [-> V]; cbn in V; lia]|].
      split; [intros HH; inversion HH; subst x; cbn; split; [reflexivity|lia]|intros [-> _]; reflexivity].
    + destruct (Z.ltb_spec 23 h); [split; [discriminate|intros [-> V]; cbn in V; lia]|].
      destruct (Z.ltb_spec 59 mi); [split; [discriminate|intros [-> V]; cbn in V; lia]|].
      destruct (Z.ltb_spec 59 s); [split; [discriminate|intros [-> V]; cbn in V; lia]|].
      split; [intros HH; inversion HH; subst x; cbn; split; [reflexivity|lia]|intros [-> _]; reflexivity].
  - destruct (Z.ltb_spec 23 h); [split; [discriminate|intros [-> V]; cbn in V; lia]|].
    destruct (Z.ltb_spec 59 mi); [split; [discriminate|intros [-> V]; cbn in V; lia]|].
    destruct (Z.ltb_spec 59 s); [split; [discriminate|intros [-> V]; cbn in V; lia]|].
    split; [intros HH; inversion HH; subst x; cbn; split; [reflexivity|lia]|intros [-> _]; reflexivity].
Qed.

(* ---------------------------------------------------------------------------------------------- *)
(* ASCII strings: chars are bytes, every index is a char boundary *)

Lemma ascii_not_cont : forall b, is_ascii b = true -> is_cont b = false.
Proof.
  intros b H. unfold is_ascii, is_cont in *. apply Z.ltb_lt in H.
  destruct (Z.leb_spec 128 b); [lia|reflexivity].
Qed.

Lemma chars_aux_ascii : forall s, forallb is_ascii s = true ->
  chars_aux s = ([], map (fun b => [b]) s).
Proof.
  induction s as [|b s IH]; intros H; [reflexivity|].
  cbn [forallb] in H. apply andb_prop in H. destruct H as [Hb Hs].
  cbn [chars_aux map]. rewrite (IH Hs), (ascii_not_cont b Hb). reflexivity.
Qed.

Lemma chars_ascii : forall s, forallb is_ascii s = true -> chars s = map (fun b => [b]) s.
Proof. intros s H. unfold chars. now rewrite chars_aux_ascii. Qed.

Lemma boundary_ascii : forall s i, forallb is_ascii s = true -> (i <= length s)%nat ->
  is_char_boundary s i = true.
Proof.
  intros s i H L. unfold is_char_boundary. destruct i as [|i]; [reflexivity|].
  destruct (nth_error s (S i)) as [b|] eqn:N.
  - apply nth_error_In in N. rewrite forallb_forall in H. now rewrite (ascii_not_cont b (H b N)).
  - apply nth_error_None in N. apply Nat.eqb_eq. lia.
Qed.

Lemma slice_ascii : forall E s a b, forallb is_ascii s = true -> (a <= b)%nat -> (b <= length s)%nat ->
  @slice E s a b = Ok (firstn (b - a) (skipn a s)).
Proof.
  intros E s a b H L1 L2. unfold slice.
  rewrite (boundary_ascii s a H ltac:(lia)), (boundary_ascii s b H L2).
  replace (Nat.leb a b) with true by (symmetry; apply Nat.leb_le; exact L1).
  replace (Nat.leb b (length s)) with true by (symmetry; apply Nat.leb_le; exact L2).
  reflexivity.
Qed.

Lemma parse_field_no_panic : forall max l, parse_field max (Ok l) <> Panic.
Proof. intros max l. unfold parse_field. cbn [bind]. destruct (parse_uint max l); discriminate. Qed.

(* parsing never panics: for every byte string *)
Theorem parse_total : forall s, from_str s <> Panic.
Proof.
  intros s. unfold from_str.
  destruct (forallb is_ascii s) eqn:A; cbn [andb]; [|discriminate].
  destruct (Nat.eqb (length (chars s)) 20) eqn:L; cbn [andb]; [|discriminate].
  match goal with |- context [if ?c then _ else _] => destruct c end; [|discriminate].
  rewrite chars_ascii in L by exact A. rewrite map_length in L. apply Nat.eqb_eq in L.
  rewrite !slice_ascii by (try exact A; lia).
  repeat match goal with
  | |- bind (parse_field ?m (Ok ?l)) _ <> Panic =>
    let v := fresh "v" in
    pose proof (parse_field_no_panic m l);
    destruct (parse_field m (Ok l)) as [v| |]; cbn [bind]; [|discriminate|congruence]
  end.
  pose proof (new_no_panic v v0 v1 v2 v3 v4).
  destruct (new v v0 v1 v2 v3 v4); [discriminate|discriminate|congruence].
Qed.

(* the unfixed code does panic: witness "202é-01-27T12:17:25Z" (UTF-8 bytes) *)
Definition witness_unfixed : list Z :=
  [50;48;50;195;169;45;48;49;45;50;55;84;49;50;58;49;55;58;50;53;90].
Lemma unfixed_panics : from_str_unfixed witness_unfixed = Panic.
Proof. vm_compute. reflexivity. Qed.

(* what a successful parse returns is a valid date-time *)
Lemma parse_digits_range : forall max l acc v, 0 <= acc <= max ->
  parse_digits max acc l = Some v -> 0 <= v <= max.
Proof.
  induction l as [|c l IH]; intros acc v Hacc H; cbn [parse_digits] in H.
  - inversion H. subst. exact Hacc.
  - destruct (Z.leb_spec 48 c) as [C1|C1]; cbn [andb] in H; [|discriminate].
    destruct (Z.leb_spec c 57) as [C2|C2]; [|discriminate].
    destruct (Z.ltb_spec max (acc * 10 + (c - 48))) as [O|O]; [discriminate|].
    eapply IH; [|exact H]. lia.
Qed.
Lemma parse_uint_range : forall max l v, 0 <= max -> parse_uint max l = Some v -> 0 <= v <= max.
Proof.
  intros max l v M H. unfold parse_uint in H.
  destruct l as [|c [|c' l]]; [discriminate| |].
  - destruct ((c =? 43) || (c =? 45)); [discriminate|]. eapply parse_digits_range; [|exact H]. lia.
  - destruct (c =? 43); (eapply parse_digits_range; [|exact H]); lia.
Qed.

Theorem parse_valid : forall s d, from_str s = Ok d -> valid_dt d.
Proof.
  intros s d. unfold from_str.
  match goal with |- context [if ?c then _ else _] => destruct c end; [|discriminate].
  unfold parse_field.
  repeat match goal with
  | |- bind (bind ?sl _) _ = _ -> _ => destruct sl as [?l| |]; cbn [bind]; [|discriminate|discriminate]
  | |- bind (match parse_uint ?m ?l with _ => _ end) _ = _ -> _ =>
    let v := fresh "v" in let P := fresh "P" in
    destruct (parse_uint m l) as [v|] eqn:P; cbn [bind]; [apply parse_uint_range in P; [|unfold U32_MAX, U8_MAX; lia]|discriminate]
  end.
  destruct (new v v0 v1 v2 v3 v4) as [x| |] eqn:N; [|discriminate|discriminate].
  intros H. inversion H. subst x.
  apply new_ok_iff in N; try lia. tauto.
Qed.

(* ---------------------------------------------------------------------------------------------- *)
(* print then parse *)

Definition list4_ok (max : Z) (l : list Z) (v : Z) : bool :=
  forallb is_ascii l && match parse_uint max l with Some r => r =? v | None => false end.

Definition fmt4_ok (y : Z) : bool :=
  match pad0 4 (dec_digits y) with
  | [a; b; c; d] => list4_ok U32_MAX [a; b; c; d] y
  | _ => false
  end.
Definition fmt2_ok (x : Z) : bool :=
  match pad0 2 (dec_digits x) with
  | [a; b] => list4_ok U8_MAX [a; b] x
  | _ => false
  end.

Lemma fmt4_sweep : forall_range fmt4_ok 0 (N.to_nat 10000) = true.
Proof. vm_compute. reflexivity. Qed.
Lemma fmt2_sweep : forall_range fmt2_ok 0 (N.to_nat 100) = true.
Proof. vm_compute. reflexivity. Qed.

Lemma fmt4_spec : forall y, 0 <= y <= 9999 -> exists a b c d,
  pad0 4 (dec_digits y) = [a; b; c; d]
  /\ is_ascii a = true /\ is_ascii b = true /\ is_ascii c = true /\ is_ascii d = true
  /\ parse_uint U32_MAX [a; b; c; d] = Some y.
Proof.
  intros y H.
  pose proof (forall_range_spec fmt4_ok (N.to_nat 10000) 0 fmt4_sweep y) as K.
  rewrite N_nat_Z in K. specialize (K ltac:(lia)). unfold fmt4_ok in K.
  destruct (pad0 4 (dec_digits y)) as [|a [|b [|c [|d [|e l]]]]]; try discriminate.
  exists a, b, c, d. unfold list4_ok in K. cbn [forallb] in K.
  destruct (parse_uint U32_MAX [a; b; c; d]) as [r|]; [|rewrite andb_false_r in K; discriminate].
  repeat (apply andb_prop in K; destruct K as [K ?]).
  repeat match goal with H : _ && _ = true |- _ => apply andb_prop in H; destruct H end.
  match goal with H : (r =? y) = true |- _ => apply Z.eqb_eq in H; subst r end.
  auto 10.
Qed.

Lemma fmt2_spec : forall x, 0 <= x <= 99 -> exists a b,
  pad0 2 (dec_digits x) = [a; b]
  /\ is_ascii a = true /\ is_ascii b = true
  /\ parse_uint U8_MAX [a; b] = Some x.
Proof.
  intros x H.
  pose proof (forall_range_spec fmt2_ok (N.to_nat 100) 0 fmt2_sweep x) as K.
  rewrite N_nat_Z in K. specialize (K ltac:(lia)). unfold fmt2_ok in K.
  destruct (pad0 2 (dec_digits x)) as [|a [|b [|e l]]]; try discriminate.
  exists a, b. unfold list4_ok in K. cbn [forallb] in K.
  destruct (parse_uint U8_MAX [a; b]) as [r|]; [|rewrite andb_false_r in K; discriminate].
  repeat (apply andb_prop in K; destruct K as [K ?]).
  repeat match goal with H : _ && _ = true |- _ => apply andb_prop in H; destruct H end.
  match goal with H : (r =? x) = true |- _ => apply Z.eqb_eq in H; subst r end.
  auto 10.
Qed.

Theorem print_parse : forall d, valid_dt d -> year d <= 9999 -> from_str (print d) = Ok d.
Proof.
  intros [y m dd h mi s] V Y. cbn [year] in Y.
  pose proof V as (Hy & Hm & Hd & Hh & Hmi & Hs). cbn [year month day hour minute second] in *.
  pose proof (month_len_bounds (greg_leap y) m Hm) as MLB.
  destruct (fmt4_spec y ltac:(lia)) as (y3 & y2 & y1 & y0 & Ey & Ay3 & Ay2 & Ay1 & Ay0 & Py).
  destruct (fmt2_spec m ltac:(lia)) as (m1 & m0 & Em & Am1 & Am0 & Pm).
  destruct (fmt2_spec dd ltac:(lia)) as (d1 & d0 & Ed & Ad1 & Ad0 & Pd).
  destruct (fmt2_spec h ltac:(lia)) as (h1 & h0 & Eh & Ah1 & Ah0 & Ph).
  destruct (fmt2_spec mi ltac:(lia)) as (i1 & i0 & Ei & Ai1 & Ai0 & Pi).
  destruct (fmt2_spec s ltac:(lia)) as (s1 & s0 & Es & As1 & As0 & Ps).
  unfold print. cbn [year month day hour minute second].
  rewrite Ey, Em, Ed, Eh, Ei, Es. cbn [app].
  set (str := [y3; y2; y1; y0; 45; m1; m0; 45; d1; d0; 84; h1; h0; 58; i1; i0; 58; s1; s0; 90]).
  assert (forallb is_ascii str = true) as A.
  { unfold str. cbn [forallb]. rewrite Ay3, Ay2, Ay1, Ay0, Am1, Am0, Ad1, Ad0, Ah1, Ah0, Ai1, Ai0, As1, As0.
    reflexivity. }
  unfold from_str. rewrite A, (chars_ascii str A).
  unfold str at 1 2 3 4 5 6 7. cbn [map length Nat.eqb char_is nth_error andb Z.eqb Pos.eqb].
  rewrite !slice_ascii by (try exact A; unfold str; cbn [length]; lia).
  unfold str. cbn [skipn firstn Nat.sub].
  unfold parse_field. cbn [bind]. rewrite Py. cbn [bind]. rewrite Pm. cbn [bind].
  rewrite Pd. cbn [bind]. rewrite Ph. cbn [bind]. rewrite Pi. cbn [bind]. rewrite Ps. cbn [bind].
  assert (new y m dd h mi s = Ok (mkdt y m dd h mi s)) as ->; [|reflexivity].
  apply new_ok_iff; try lia. split; [reflexivity|exact V].
Qed.
