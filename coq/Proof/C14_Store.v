(* C14/C15 — facts about the in-memory database model (Model/C14_Store.v): the order on partition
   keys, apply_delta / apply_part as functions on sorted maps, mem_commit acting per partition,
   preservation of the representation invariant. *)
From Coq Require Import List Arith NArith Bool Lia.
Import ListNotations.
Require Import RV.Lib.Bytes RV.Lib.SortedMap RV.Model.C14_Store.
Open Scope N_scope.

Local Notation BST := blt_strict_total.
Local Notation NST := Nltb_strict_total.

(* ---- the derived Ord of DbPartitionKey is a strict total order ---- *)
Lemma pk_ltb_strict_total : StrictTotal pk_ltb.
Proof.
  split.
  - intros [n p]. unfold pk_ltb. cbn [fst snd]. rewrite blt_irrefl, beqb_refl, N.ltb_irrefl. reflexivity.
  - intros [n1 p1] [n2 p2] [n3 p3]. unfold pk_ltb. cbn [fst snd]. intros H1 H2.
    apply orb_true_iff in H1, H2. apply orb_true_iff.
    destruct H1 as [H1|H1], H2 as [H2|H2].
    + left. eapply blt_trans; eassumption.
    + apply andb_true_iff in H2. destruct H2 as [E _]. apply beqb_eq in E. subst. left. exact H1.
    + apply andb_true_iff in H1. destruct H1 as [E _]. apply beqb_eq in E. subst. left. exact H2.
    + apply andb_true_iff in H1, H2. destruct H1 as [E1 L1], H2 as [E2 L2]. apply beqb_eq in E1, E2. subst.
      right. rewrite beqb_refl. cbn. apply N.ltb_lt in L1, L2. apply N.ltb_lt. lia.
  - intros [n1 p1] [n2 p2]. unfold pk_ltb. cbn [fst snd]. intros H1 H2.
    apply orb_false_iff in H1, H2. destruct H1 as [A1 B1], H2 as [A2 B2].
    assert (n1 = n2) as -> by (apply blt_total; assumption).
    rewrite beqb_refl in B1, B2. cbn in B1, B2. apply N.ltb_ge in B1, B2. f_equal. lia.
Qed.
Local Notation PST := pk_ltb_strict_total.

Lemma pk_eqb_eq : forall a b, pk_eqb a b = true <-> a = b.
Proof.
  intros [n1 p1] [n2 p2]. unfold pk_eqb. cbn [fst snd]. rewrite andb_true_iff, beqb_eq, N.eqb_eq.
  split; [intros [-> ->]; reflexivity|intro E; inversion E; tauto].
Qed.

(* ---- apply_delta ---- *)
Definition delta_step (p : pmap) (e : bytes * db_update) : pmap :=
  match snd e with USet v => insert blt (fst e) v p | UDelete => remove blt (fst e) p end.
Lemma apply_delta_fold : forall l p, apply_delta l p = fold_left delta_step l p.
Proof. reflexivity. Qed.
Lemma delta_step_sorted : forall p e, sorted blt p -> sorted blt (delta_step p e).
Proof. intros p [k [v|]] S; unfold delta_step; cbn [fst snd]; [apply (insert_sorted _ BST)|apply remove_sorted]; exact S. Qed.
Lemma apply_delta_sorted : forall l p, sorted blt p -> sorted blt (apply_delta l p).
Proof.
  induction l as [|e l IH]; intros p S; [exact S|]. unfold apply_delta in *. cbn [fold_left]. apply IH.
  apply (delta_step_sorted p e S).
Qed.
Lemma apply_delta_app : forall l1 l2 p, apply_delta (l1 ++ l2) p = apply_delta l2 (apply_delta l1 p).
Proof. intros. unfold apply_delta. apply fold_left_app. Qed.

(* the effect of a delta on one key: decided by the last update of that key in the list *)
Definition resolve (d : option db_update) (old : option bytes) : option bytes :=
  match d with Some (USet v) => Some v | Some UDelete => None | None => old end.
Lemma lookup_apply_delta : forall l p k, sorted blt p ->
  lookup blt k (apply_delta l p) = resolve (assoc_last blt k l None) (lookup blt k p).
Proof.
  intro l. induction l as [|e l IH] using rev_ind; intros p k S; [reflexivity|].
  rewrite apply_delta_app, assoc_last_app. destruct e as [k' u].
  unfold apply_delta at 1. cbn [fold_left assoc_last]. cbn [fst snd].
  pose proof (apply_delta_sorted l p S) as S'.
  destruct u as [v|].
  - rewrite (lookup_insert _ BST) by exact S'. destruct (keqb blt k k'); [reflexivity|apply IH; exact S].
  - rewrite (lookup_remove _ BST) by exact S'. destruct (keqb blt k k'); [reflexivity|apply IH; exact S].
Qed.

Lemma apply_part_sorted : forall pu p, sorted blt p -> sorted blt (apply_part pu p).
Proof. intros [l|l] p S; cbn [apply_part]; [apply apply_delta_sorted; exact S|apply (of_list_sorted _ BST)]. Qed.

(* ---- the database as a function partition key -> partition content ---- *)
Definition part_of (db : memdb) (pk : pkey) : pmap :=
  match lookup pk_ltb pk db with Some p => p | None => [] end.

Lemma mem_get_part_of : forall db pk sk, mem_get db pk sk = lookup blt sk (part_of db pk).
Proof. intros. unfold mem_get, part_of. destruct (lookup pk_ltb pk db); reflexivity. Qed.
Lemma mem_list_part_of : forall db pk from, mem_list db pk from = from_cursor from (part_of db pk).
Proof. intros. unfold mem_list, part_of. destruct (lookup pk_ltb pk db); [reflexivity|]. destruct from; reflexivity. Qed.

Lemma db_wf_sorted : forall db, db_wf db -> sorted pk_ltb db.
Proof. intros db [S _]. exact S. Qed.
Lemma db_wf_part : forall db pk p, db_wf db -> lookup pk_ltb pk db = Some p -> sorted blt p /\ p <> [].
Proof.
  intros db pk p [S F] L. apply (lookup_Some_In _ PST) in L. rewrite Forall_forall in F. exact (F _ L).
Qed.
Lemma part_of_sorted : forall db pk, db_wf db -> sorted blt (part_of db pk).
Proof.
  intros db pk W. unfold part_of. destruct (lookup pk_ltb pk db) eqn:E; [|exact I].
  apply (db_wf_part _ _ _ W E).
Qed.
(* with the invariant, lookup is determined by part_of *)
Lemma lookup_of_part_of : forall db pk, db_wf db ->
  lookup pk_ltb pk db = match part_of db pk with [] => None | p => Some p end.
Proof.
  intros db pk W. unfold part_of. destruct (lookup pk_ltb pk db) as [p|] eqn:E; [|reflexivity].
  destruct (db_wf_part _ _ _ W E) as [_ N]. destruct p; [contradiction|reflexivity].
Qed.
Lemma db_ext : forall db1 db2, db_wf db1 -> db_wf db2 -> (forall pk, part_of db1 pk = part_of db2 pk) -> db1 = db2.
Proof.
  intros db1 db2 W1 W2 H. apply (sorted_ext _ PST); try apply db_wf_sorted; try assumption.
  intro pk. rewrite (lookup_of_part_of _ _ W1), (lookup_of_part_of _ _ W2), H. reflexivity.
Qed.

Lemma db_wf_nil : db_wf mem_new.
Proof. split; [exact I|constructor]. Qed.

Lemma mem_commit_part_wf : forall db pk pu, db_wf db -> db_wf (mem_commit_part db pk pu).
Proof.
  intros db pk pu W. pose proof (part_of_sorted db pk W) as SP. unfold part_of in SP.
  unfold mem_commit_part. set (p := match lookup pk_ltb pk db with Some p => p | None => [] end) in *.
  pose proof (apply_part_sorted pu p SP) as S'. destruct W as [S F].
  destruct (apply_part pu p) as [|e r] eqn:E.
  - split; [apply remove_sorted; exact S|apply Forall_remove; exact F].
  - split; [apply (insert_sorted _ PST); exact S|]. apply Forall_insert; [|exact F]. cbn [snd]. split; [exact S'|discriminate].
Qed.
Lemma part_of_commit_part : forall db pk pu pk', db_wf db ->
  part_of (mem_commit_part db pk pu) pk' = if pk_eqb pk' pk then apply_part pu (part_of db pk) else part_of db pk'.
Proof.
  intros db pk pu pk' W. unfold mem_commit_part. fold (part_of db pk).
  destruct W as [S _]. unfold part_of at 1.
  assert (keqb pk_ltb pk' pk = pk_eqb pk' pk) as KE.
  { destruct (pk_eqb pk' pk) eqn:E; [apply pk_eqb_eq in E; subst; apply (keqb_refl _ PST)|].
    apply (keqb_neq _ PST). intro C. apply pk_eqb_eq in C. congruence. }
  destruct (apply_part pu (part_of db pk)) as [|e r] eqn:E.
  - rewrite (lookup_remove _ PST) by exact S. rewrite KE. destruct (pk_eqb pk' pk); reflexivity.
  - rewrite (lookup_insert _ PST) by exact S. rewrite KE. destruct (pk_eqb pk' pk); reflexivity.
Qed.

(* the effect of a whole commit on one partition *)
Definition eff_node (nu : node_updates) (pn : N) (p : pmap) : pmap :=
  fold_left (fun p e => if fst e =? pn then apply_part (snd e) p else p) nu p.
Definition eff (u : db_updates) (pk : pkey) (p : pmap) : pmap :=
  fold_left (fun p e => if beqb (fst e) (fst pk) then eff_node (snd e) (snd pk) p else p) u p.

Lemma mem_commit_node_wf : forall nu db nk, db_wf db -> db_wf (mem_commit_node db nk nu).
Proof.
  induction nu as [|[pn pu] nu IH]; intros db nk W; [exact W|]. unfold mem_commit_node in *. cbn [fold_left].
  apply IH. apply mem_commit_part_wf. exact W.
Qed.
Lemma mem_commit_wf : forall u db, db_wf db -> db_wf (mem_commit db u).
Proof.
  induction u as [|[nk nu] u IH]; intros db W; [exact W|]. unfold mem_commit in *. cbn [fold_left].
  apply IH. apply mem_commit_node_wf. exact W.
Qed.
Lemma apply_commits_wf : forall cs db, db_wf db -> db_wf (apply_commits db cs).
Proof.
  induction cs as [|c cs IH]; intros db W; [exact W|]. unfold apply_commits in *. cbn [fold_left].
  apply IH. apply mem_commit_wf. exact W.
Qed.

Lemma part_of_commit_node : forall nu db nk pk, db_wf db ->
  part_of (mem_commit_node db nk nu) pk = if beqb nk (fst pk) then eff_node nu (snd pk) (part_of db pk) else part_of db pk.
Proof.
  induction nu as [|[pn pu] nu IH]; intros db nk pk W.
  - cbn. destruct (beqb nk (fst pk)); reflexivity.
  - unfold mem_commit_node in *. cbn [fold_left fst snd]. rewrite IH by (apply mem_commit_part_wf; exact W).
    rewrite part_of_commit_part by exact W. unfold eff_node. cbn [fold_left fst snd]. destruct pk as [nk' pn']. cbn [fst snd].
    unfold pk_eqb. cbn [fst snd]. rewrite (N.eqb_sym pn' pn).
    destruct (beqb nk nk') eqn:E.
    + apply beqb_eq in E. subst nk'. rewrite beqb_refl. cbn [andb]. destruct (pn =? pn') eqn:E2; [|reflexivity].
      apply N.eqb_eq in E2. subst. reflexivity.
    + assert (beqb nk' nk = false) as -> by (apply beqb_neq; intro C; subst; rewrite beqb_refl in E; discriminate).
      reflexivity.
Qed.
Lemma part_of_commit : forall u db pk, db_wf db -> part_of (mem_commit db u) pk = eff u pk (part_of db pk).
Proof.
  induction u as [|[nk nu] u IH]; intros db pk W; [reflexivity|].
  unfold mem_commit in *. cbn [fold_left fst snd]. rewrite IH by (apply mem_commit_node_wf; exact W).
  rewrite part_of_commit_node by exact W. unfold eff. cbn [fold_left fst snd].
  destruct (beqb nk (fst pk)); reflexivity.
Qed.

Lemma eff_node_sorted : forall nu pn p, sorted blt p -> sorted blt (eff_node nu pn p).
Proof.
  induction nu as [|[pn' pu] nu IH]; intros pn p S; [exact S|]. unfold eff_node in *. cbn [fold_left fst snd].
  apply IH. destruct (pn' =? pn); [apply apply_part_sorted|]; exact S.
Qed.
