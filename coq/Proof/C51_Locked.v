(* C51 — proofs about the lock discipline model. *)
From Coq Require Import List NArith Bool.
Import ListNotations.
Require Import RV.Model.C51_Locked.
Open Scope N_scope.

Lemma kind_eqb_eq : forall a b, kind_eqb a b = true <-> a = b.
Proof. destruct a, b; cbn; split; intros; try discriminate; reflexivity. Qed.
Lemma cell_eqb_eq : forall a b, cell_eqb a b = true <-> a = b.
Proof.
  intros [k1 n1] [k2 n2]. unfold cell_eqb. cbn. split.
  - intros H. apply andb_prop in H. destruct H as [H1 H2]. apply kind_eqb_eq in H1. apply N.eqb_eq in H2. subst. reflexivity.
  - intros H. inversion H. subst. apply andb_true_intro. split; [apply kind_eqb_eq; reflexivity|apply N.eqb_refl].
Qed.
Lemma cell_eqb_refl : forall a, cell_eqb a a = true.
Proof. intros. apply cell_eqb_eq. reflexivity. Qed.

Lemma get_put : forall k k' c l, get k (put k' c l) = if cell_eqb k k' then c else get k l.
Proof.
  intros k k' c l. induction l as [|[k0 c0] l IH]; cbn.
  - destruct (cell_eqb k k'); reflexivity.
  - destruct (cell_eqb k' k0) eqn:E0; cbn.
    + apply cell_eqb_eq in E0. subst k0. destruct (cell_eqb k k'); reflexivity.
    + destruct (cell_eqb k k0) eqn:E1.
      * apply cell_eqb_eq in E1. subst k0. destruct (cell_eqb k k') eqn:E2; [|reflexivity].
        apply cell_eqb_eq in E2. subst k'. rewrite cell_eqb_refl in E0. discriminate.
      * exact IH.
Qed.

Definition addresses (o : op) (k : cell_id) : bool :=
  match o with OCell k' _ => cell_eqb k k' | _ => false end.
Definition is_owner_op (o : op) : bool := match o with OSetOwner _ | OLockOwner | OReservedRolePath _ => true | _ => false end.
Definition locked_at (s : state) (k : cell_id) : Prop := c_locked (get k (s_cells s)) = true.

(* one step: a locked substate is left exactly as it is (value and lock), whoever calls and whatever
   the operation; an operation addressing it does not commit *)
Lemma cell_step : forall s c o k, locked_at s k ->
  get k (s_cells (fst (step s c o))) = get k (s_cells s) /\
  (addresses o k = true -> snd (step s c o) <> Ok).
Proof.
  unfold locked_at. intros s c o k Hl. destruct o as [k' so|r| |r|]; cbn.
  - destruct (auth c); cbn; [|split; [reflexivity|discriminate]].
    unfold open_mut. destruct (c_locked (get k' (s_cells s))) eqn:El'; cbn.
    + split; [reflexivity|discriminate].
    + split.
      * rewrite get_put. destruct (cell_eqb k k') eqn:E; [|reflexivity].
        apply cell_eqb_eq in E. subst k'. rewrite Hl in El'. discriminate.
      * intros E. apply cell_eqb_eq in E. subst k'. rewrite Hl in El'. discriminate.
  - destruct (owner_update_permitted (s_owner s) c); cbn; [|split; [reflexivity|discriminate]].
    destruct (o_locked (s_owner s)); cbn; split; try reflexivity; discriminate.
  - destruct (owner_update_permitted (s_owner s) c); cbn; [|split; [reflexivity|discriminate]].
    destruct (o_locked (s_owner s)); cbn; split; try reflexivity; discriminate.
  - split; [reflexivity|discriminate].
  - destruct (auth c); cbn; split; try reflexivity; discriminate.
Qed.

Lemma owner_step : forall s c o, o_locked (s_owner s) = true ->
  s_owner (fst (step s c o)) = s_owner s /\ (is_owner_op o = true -> snd (step s c o) <> Ok).
Proof.
  intros s c o Hl. destruct o as [k' so|r| |r|]; cbn.
  - destruct (auth c); cbn; [|split; [reflexivity|discriminate]].
    destruct (open_mut (get k' (s_cells s))); cbn; split; try reflexivity; discriminate.
  - destruct (owner_update_permitted (s_owner s) c); cbn; [|split; [reflexivity|discriminate]].
    rewrite Hl. cbn. split; [reflexivity|discriminate].
  - destruct (owner_update_permitted (s_owner s) c); cbn; [|split; [reflexivity|discriminate]].
    rewrite Hl. cbn. split; [reflexivity|discriminate].
  - split; [reflexivity|discriminate].
  - destruct (auth c); cbn; split; try reflexivity; discriminate.
Qed.

(* histories *)
Theorem locked_monotone : forall evs s k, locked_at s k ->
  get k (s_cells (final s evs)) = get k (s_cells s) /\
  (forall e, In e (run s evs) -> get k (s_cells (fst (fst (fst e)))) = get k (s_cells s) /\
                                get k (s_cells (snd (fst e))) = get k (s_cells s) /\
                                (addresses (snd (snd (fst (fst e)))) k = true -> snd e <> Ok)).
Proof.
  induction evs as [|[c o] evs IH]; intros s k Hl.
  - cbn. split; [reflexivity|intros e []].
  - destruct (cell_step s c o k Hl) as [Hsame Hfail].
    assert (Hl' : locked_at (fst (step s c o)) k) by (unfold locked_at in *; rewrite Hsame; exact Hl).
    destruct (IH (fst (step s c o)) k Hl') as [Hf Hr]. cbn [final fold_left fst snd run].
    change (fold_left (fun s0 e => fst (step s0 (fst e) (snd e))) evs (fst (step s c o))) with (final (fst (step s c o)) evs).
    split; [rewrite Hf; exact Hsame|].
    intros e [<-|Hin]; cbn [fst snd].
    + repeat split; auto.
    + destruct (Hr e Hin) as (A & B & C). rewrite A, B, Hsame. repeat split; auto.
Qed.

Theorem owner_locked_monotone : forall evs s, o_locked (s_owner s) = true ->
  s_owner (final s evs) = s_owner s /\
  (forall e, In e (run s evs) -> s_owner (snd (fst e)) = s_owner s /\
                                (is_owner_op (snd (snd (fst (fst e)))) = true -> snd e <> Ok)).
Proof.
  induction evs as [|[c o] evs IH]; intros s Hl.
  - cbn. split; [reflexivity|intros e []].
  - destruct (owner_step s c o Hl) as [Hsame Hfail].
    assert (Hl' : o_locked (s_owner (fst (step s c o))) = true) by (rewrite Hsame; exact Hl).
    destruct (IH (fst (step s c o)) Hl') as [Hf Hr]. cbn [final fold_left fst snd run].
    change (fold_left (fun s0 e => fst (step s0 (fst e) (snd e))) evs (fst (step s c o))) with (final (fst (step s c o)) evs).
    split; [rewrite Hf; exact Hsame|].
    intros e [<-|Hin]; cbn [fst snd].
    + split; auto.
    + destruct (Hr e Hin) as (A & B). rewrite A, Hsame. split; auto.
Qed.

(* a committed lock operation locks *)
Lemma lock_locks : forall s c k, snd (step s c (OCell k SLock)) = Ok -> locked_at (fst (step s c (OCell k SLock))) k.
Proof.
  unfold locked_at. intros s c k. cbn. destruct (auth c); cbn; [|discriminate].
  unfold open_mut. destruct (c_locked (get k (s_cells s))); cbn; [discriminate|]. intros _.
  rewrite get_put, cell_eqb_refl. reflexivity.
Qed.
Lemma lock_owner_locks : forall s c, snd (step s c OLockOwner) = Ok ->
  o_locked (s_owner (fst (step s c OLockOwner))) = true /\ o_updater (s_owner (fst (step s c OLockOwner))) = UNone /\
  o_rule (s_owner (fst (step s c OLockOwner))) = o_rule (s_owner s).
Proof.
  intros s c. cbn. destruct (owner_update_permitted (s_owner s) c); cbn; [|discriminate].
  destruct (o_locked (s_owner s)); cbn; [discriminate|]. intros _. repeat split.
Qed.
(* the auth layer alone already refuses: after lock_owner_role nobody is permitted *)
Lemma owner_none_denies_all : forall s c o, o_updater (s_owner s) = UNone -> is_owner_op o = true ->
  snd (step s c o) = Fail EUnauthorized.
Proof.
  intros s c o Hu Ho. destruct o; try discriminate; cbn; unfold owner_update_permitted; try rewrite Hu; reflexivity.
Qed.
