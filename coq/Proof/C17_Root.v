(* C17 — the root of a tier is the sparse-Merkle commitment of the map the tier holds; histories of
   batches and re-batching; empty <-> zero root. *)
From Coq Require Import List NArith Bool Lia Arith Permutation.
Import ListNotations.
Require Import RV.Model.C17_Jmt RV.Model.C17_Smt RV.Proof.C17_Base RV.Proof.C17_Lists
               RV.Proof.C17_Merkle RV.Proof.C17_Update RV.Proof.C17_Tier.
Open Scope N_scope.

(* ---------- the specification does not depend on the order of the entries ---------- *)
Lemma sel_perm : forall {V} b (S1 S2 : list (list bool * V)), Permutation S1 S2 -> Permutation (sel b S1) (sel b S2).
Proof.
  intros V b S1 S2 P. induction P.
  - constructor.
  - rewrite !sel_cons. apply Permutation_app_head. exact IHP.
  - rewrite !sel_cons. rewrite !app_assoc. apply Permutation_app_tail. apply Permutation_app_comm.
  - eapply Permutation_trans; eassumption.
Qed.

Lemma smt_perm : forall H f lhb (S1 S2 : list (list bool * list N)), Permutation S1 S2 ->
  smt H f lhb S1 = smt H f lhb S2.
Proof.
  intros H f. induction f as [|f IH]; intros lhb S1 S2 P.
  - destruct S1 as [|[k v] [|y r]].
    + apply Permutation_nil in P. subst. reflexivity.
    + apply Permutation_length_1_inv in P. subst. reflexivity.
    + pose proof (Permutation_length P) as L. destruct S2 as [|[k2 v2] [|y2 r2]]; cbn in L; try lia. reflexivity.
  - destruct S1 as [|[k v] [|y r]].
    + apply Permutation_nil in P. subst. reflexivity.
    + apply Permutation_length_1_inv in P. subst. reflexivity.
    + pose proof (Permutation_length P) as L. destruct S2 as [|[k2 v2] [|y2 r2]]; cbn in L; try lia.
      cbn [smt]. f_equal. f_equal; apply IH; apply sel_perm; exact P.
Qed.

(* ---------- nibbles <-> bits ---------- *)
Lemma nib_bits_roundtrip : forall s, kvalid s -> nibbles_of_bits (bits_of_nibbles s) = s.
Proof.
  induction s as [|n s IH]; intro V; [reflexivity|]. apply kvalid_head in V. destruct V as [Vn Vs].
  change (bits_of_nibbles (n :: s)) with (bits4 n ++ bits_of_nibbles s). unfold bits4. cbn [app nibbles_of_bits].
  rewrite IH by exact Vs. f_equal.
  apply lt16_in in Vn. unfold nibs16 in Vn. cbn in Vn.
  repeat (destruct Vn as [Vn|Vn]; [subst n; reflexivity|]). contradiction.
Qed.

Lemma lh_root_bits : forall H s v, kvalid s -> lh_root H s v = lhb_root H (bits_of_nibbles s) v.
Proof. intros H s v V. unfold lh_root, lhb_root. rewrite nib_bits_roundtrip by exact V. reflexivity. Qed.

Lemma nodup_fst : forall {X Y} (l : list (X * Y)), NoDup (map fst l) -> NoDup l.
Proof.
  induction l as [|x l IH]; intro ND; [constructor|]. inversion ND; subst. constructor; [|apply IH; assumption].
  intro Hin. apply H1. apply in_map. exact Hin.
Qed.

Section ROOT.
  Variable H : list N -> list N.
  Variable A : Type.
  Notation nodeA := (node A).
  Notation kv := (kv A).
  Notation ldata := (ldata A).

  (* S represents the map held by the tree t (value hashes only) *)
  Definition represents (fuel : nat) (t : nodeA) (S : list (list N * list N)) : Prop :=
    NoDup (map fst S) /\
    forall k v, In (k, v) S <-> exists d, lookup A fuel t k = Some d /\ vh_of A d = v.

  Definition keys_valid (fuel : nat) (t : nodeA) : Prop :=
    forall k d, lookup A fuel t k = Some d -> kvalid k.

  Theorem tier_root_is_smt : forall fuel t S,
    root_ok H A fuel t -> keys_valid fuel t -> represents fuel t S ->
    node_hash H A (lh_root H) t = smt_root H fuel S.
  Proof.
    intros fuel t S [En|G] KV [ND R].
    - subst t. destruct S as [|[k v] S'].
      + unfold smt_root. cbn [map]. cbn [node_hash]. symmetry. apply smt_nil.
      + exfalso. destruct (proj1 (R k v) (or_introl eq_refl)) as (d & E & _). rewrite lookup_null in E. discriminate.
    - rewrite (hash_is_smt H A fuel (lh_root H) (lhb_root H) t); [| |intros k d Hin|exact G].
      + unfold smt_root. apply smt_perm.
        set (L := map (fun kd : list N * ldata => (fst kd, vh_of A (snd kd))) (leaves A fuel t)).
        assert (EL : ebits A (leaves A fuel t) = map (fun kv => (bits_of_nibbles (fst kv), snd kv)) L).
        { unfold ebits, L. rewrite map_map. reflexivity. }
        rewrite EL. apply Permutation_map. apply NoDup_Permutation.
        * apply nodup_fst. unfold L. rewrite map_map. cbn [fst]. apply (leaves_nodup H A fuel _ t G).
        * apply nodup_fst. exact ND.
        * intros [k v]. rewrite R. unfold L. rewrite in_map_iff. split.
          -- intros ([k' d] & E & Hin). cbn [fst snd] in E. inversion E; subst. exists d. split; [|reflexivity].
             apply (leaves_lookup H A fuel _ t G). exact Hin.
          -- intros (d & E & Ev). exists (k, d). cbn [fst snd]. split; [congruence|].
             apply (leaves_lookup H A fuel _ t G). exact E.
      + intros s v V. apply lh_root_bits. exact V.
      + apply (KV k d). apply (leaves_lookup H A fuel _ t G). exact Hin.
  Qed.

  (* two canonical trees holding the same map have the same root: the shape carries no history *)
  Corollary canonical_root_unique : forall fuel t1 t2,
    root_ok H A fuel t1 -> root_ok H A fuel t2 -> keys_valid fuel t1 -> keys_valid fuel t2 ->
    (forall k, option_map (vh_of A) (lookup A fuel t1 k) = option_map (vh_of A) (lookup A fuel t2 k)) ->
    node_hash H A (lh_root H) t1 = node_hash H A (lh_root H) t2.
  Proof.
    intros fuel t1 t2 R1 R2 K1 K2 E.
    assert (Rep : forall t, root_ok H A fuel t ->
              represents fuel t (map (fun kd => (fst kd, vh_of A (snd kd))) (leaves A fuel t))).
    { intros t [En|G].
      - subst t. assert (EL : leaves A fuel (@Null A) = []) by (destruct fuel; reflexivity). rewrite EL. split; [constructor|].
        intros k v. split; [intros []|]. intros (d & Ed & _). rewrite lookup_null in Ed. discriminate.
      - split; [rewrite map_map; cbn [fst]; apply (leaves_nodup H A fuel _ t G)|].
        intros k v. rewrite in_map_iff. split.
        + intros ([k' d] & Ekd & Hin). cbn [fst snd] in Ekd. inversion Ekd; subst. exists d. split; [|reflexivity].
          apply (leaves_lookup H A fuel _ t G). exact Hin.
        + intros (d & Ed & Ev). exists (k, d). cbn [fst snd]. split; [congruence|].
          apply (leaves_lookup H A fuel _ t G). exact Ed. }
    destruct (Rep t1 R1) as [ND1 Rp1].
    assert (Rep2 : represents fuel t2 (map (fun kd => (fst kd, vh_of A (snd kd))) (leaves A fuel t1))).
    { split; [exact ND1|]. intros k v. rewrite Rp1. specialize (E k).
      destruct (lookup A fuel t1 k) as [d1|]; destruct (lookup A fuel t2 k) as [d2|]; cbn in E; try discriminate.
      - inversion E. split; intros (d & Ed & Ev); inversion Ed; subst; eexists; split; try reflexivity; congruence.
      - split; intros (d & Ed & _); discriminate. }
    rewrite (tier_root_is_smt fuel t1 _ R1 K1 (Rep t1 R1)).
    rewrite (tier_root_is_smt fuel t2 _ R2 K2 Rep2). reflexivity.
  Qed.

  (* ---------- histories of batches on one tier ---------- *)
  (* the map after a batch: override by the last binding of each key *)
  Definition apply_batch (old : list N -> option ldata) (ups : list kv) : list N -> option ldata :=
    fun k => match ups_last A k ups with Some u => u | None => old k end.

  Lemma upd_value_set : forall old ups k, upd_spec A old (value_set A ups) k = apply_batch old ups k.
  Proof. intros. unfold upd_spec, apply_batch. destruct (value_set_spec A ups) as (_ & V2 & _). rewrite V2. reflexivity. Qed.

  Lemma ups_last_app : forall k u1 u2,
    ups_last A k (u1 ++ u2) = match ups_last A k u2 with Some x => Some x | None => ups_last A k u1 end.
  Proof.
    intros k u1 u2. induction u1 as [|[k' u] r IH]; cbn [app ups_last].
    - destruct (ups_last A k u2); reflexivity.
    - rewrite IH. destruct (ups_last A k u2); [reflexivity|]. reflexivity.
  Qed.

  (* merging two consecutive batches = applying them one after the other *)
  Lemma apply_batch_app : forall old u1 u2 k,
    apply_batch old (u1 ++ u2) k = apply_batch (apply_batch old u1) u2 k.
  Proof. intros. unfold apply_batch. rewrite ups_last_app. destruct (ups_last A k u2); reflexivity. Qed.

  Fixpoint apply_batches (old : list N -> option ldata) (h : list (list kv)) : list N -> option ldata :=
    match h with [] => old | u :: r => apply_batches (apply_batch old u) r end.

  (* run a history of batches through tier_put, versions counting up from v *)
  Fixpoint run_tier (fuel : nat) (root : option (N * nodeA)) (v : N) (h : list (list kv))
    : res (option (N * nodeA)) :=
    match h with
    | [] => Ok root
    | u :: r => match tier_put H A fuel root (v + 1) u with
                | Ok (_, t, _) => run_tier fuel (Some (v + 1, t)) (v + 1) r
                | Panic => Panic | OutOfFuel => OutOfFuel
                end
    end.

  Definition state_ok (U : list N -> Prop) (fuel : nat) (root : option (N * nodeA)) : Prop :=
    forall v t, root = Some (v, t) -> root_ok H A fuel t /\ tree_ok A U fuel t.

  Lemma tier_step : forall fuel root ver ups U,
    (0 < fuel)%nat -> pfree U -> ~ U [] -> ups_ok A U fuel ups -> state_ok U fuel root ->
    exists h t lg, tier_put H A fuel root ver ups = Ok (h, t, lg) /\
      state_ok U fuel (Some (ver, t)) /\
      (forall k, lookup A fuel t k = apply_batch (root_sem A fuel root) ups k) /\
      h = (if leqb (node_hash H A (lh_root H) t) ZERO_HASH then None else Some (node_hash H A (lh_root H) t)).
  Proof.
    intros fuel root ver ups U Hf PF U0 OK SO.
    destruct (tier_put_ok H A fuel root ver ups U Hf PF U0 OK SO) as (h & t & lg & E & R1 & R2 & R3).
    exists h, t, lg. split; [exact E|]. split; [|split; [|exact R3]].
    - intros v' t' E'. inversion E'; subst. split; [exact R1|].
      intros k d Ek. rewrite R2 in Ek. unfold upd_spec in Ek.
      destruct (value_set_spec A ups) as (_ & _ & V3).
      destruct (kv_get A k (value_set A ups)) as [u|] eqn:Eg.
      + apply kv_get_in in Eg. apply V3 in Eg. apply (OK _ Eg).
      + destruct root as [[v0 t0]|]; [|discriminate]. cbn [root_sem] in Ek.
        destruct (SO v0 t0 eq_refl) as [_ TO]. apply (TO k d Ek).
    - intro k. rewrite R2. apply upd_value_set.
  Qed.

  (* for EVERY history of batches: no panic, the tree stays canonical and holds exactly the
     override of the batches *)
  Theorem run_tier_ok : forall fuel U h root v,
    (0 < fuel)%nat -> pfree U -> ~ U [] -> Forall (ups_ok A U fuel) h -> state_ok U fuel root ->
    exists root', run_tier fuel root v h = Ok root' /\ state_ok U fuel root' /\
      forall k, root_sem A fuel root' k = apply_batches (root_sem A fuel root) h k.
  Proof.
    intros fuel U h. induction h as [|u r IH]; intros root v Hf PF U0 OK SO.
    - exists root. split; [reflexivity|]. split; [exact SO|]. intro k. reflexivity.
    - inversion OK as [|? ? OKu OKr]; subst.
      destruct (tier_step fuel root (v + 1) u U Hf PF U0 OKu SO) as (hh & t & lg & E & S1 & S2 & _).
      cbn [run_tier]. rewrite E.
      destruct (IH (Some (v + 1, t)) (v + 1) Hf PF U0 OKr S1) as (root' & E' & S' & Sem').
      exists root'. split; [exact E'|]. split; [exact S'|].
      intro k. rewrite Sem'. cbn [apply_batches].
      assert (Ext : forall (f g : list N -> option ldata) hs, (forall k, f k = g k) -> forall k, apply_batches f hs k = apply_batches g hs k).
      { intros f g hs. revert f g. induction hs as [|x hs IHh]; intros f g Efg k0; cbn [apply_batches]; [apply Efg|].
        apply IHh. intro k1. unfold apply_batch. rewrite Efg. reflexivity. }
      apply Ext. intro k0. cbn [root_sem]. apply S2.
  Qed.

  Lemma state_keys_valid : forall U fuel v t, state_ok U fuel (Some (v, t)) -> keys_valid fuel t.
  Proof. intros U fuel v t SO k d E. destruct (SO v t eq_refl) as [_ TO]. apply (TO k d E). Qed.

  (* C17_batch_update_refines *)
  Theorem batch_update_refines : forall fuel root ver ups U S,
    (0 < fuel)%nat -> pfree U -> ~ U [] -> ups_ok A U fuel ups -> state_ok U fuel root ->
    NoDup (map fst S) ->
    (forall k v, In (k, v) S <-> exists d, apply_batch (root_sem A fuel root) ups k = Some d /\ vh_of A d = v) ->
    exists h t lg, tier_put H A fuel root ver ups = Ok (h, t, lg) /\
      node_hash H A (lh_root H) t = smt_root H fuel S /\
      h = (if leqb (smt_root H fuel S) ZERO_HASH then None else Some (smt_root H fuel S)) /\
      state_ok U fuel (Some (ver, t)).
  Proof.
    intros fuel root ver ups U S Hf PF U0 OK SO ND R.
    destruct (tier_step fuel root ver ups U Hf PF U0 OK SO) as (h & t & lg & E & S1 & S2 & S3).
    assert (EH : node_hash H A (lh_root H) t = smt_root H fuel S).
    { apply tier_root_is_smt; [apply (S1 ver t eq_refl)|apply (state_keys_valid U fuel ver t S1)|].
      split; [exact ND|]. intros k v. rewrite R, S2. reflexivity. }
    exists h, t, lg. split; [exact E|]. split; [exact EH|]. split; [rewrite <- EH; exact S3|exact S1].
  Qed.

  Lemma run_tier_some : forall fuel h root v r, run_tier fuel root v h = Ok r -> root <> None -> r <> None.
  Proof.
    intros fuel h. induction h as [|u h IH]; intros root v r E Hn; cbn [run_tier] in E.
    - inversion E; subst. exact Hn.
    - destruct (tier_put H A fuel root (v + 1) u) as [[[hh t0] lg0]| |]; try discriminate.
      apply (IH _ _ _ E). discriminate.
  Qed.

  (* the root after EVERY history of batches is the commitment of the map the history denotes *)
  Theorem history_root_is_smt : forall fuel U h v S,
    (0 < fuel)%nat -> pfree U -> ~ U [] -> Forall (ups_ok A U fuel) h -> h <> [] ->
    NoDup (map fst S) ->
    (forall k x, In (k, x) S <-> exists d, apply_batches (fun _ => None) h k = Some d /\ vh_of A d = x) ->
    exists vr t, run_tier fuel None v h = Ok (Some (vr, t)) /\ node_hash H A (lh_root H) t = smt_root H fuel S.
  Proof.
    intros fuel U h v S Hf PF U0 OK Hne ND R.
    destruct (run_tier_ok fuel U h None v Hf PF U0 OK) as (root' & E & SO & Sem); [intros ? ? E0; discriminate|].
    destruct root' as [[vr t]|].
    - exists vr, t. split; [exact E|].
      apply tier_root_is_smt; [apply (SO vr t eq_refl)|apply (state_keys_valid U fuel vr t SO)|].
      split; [exact ND|]. intros k x. rewrite R. cbn [root_sem] in Sem. rewrite Sem. reflexivity.
    - exfalso. destruct h as [|u r]; [contradiction|]. cbn [run_tier] in E.
      destruct (tier_put H A fuel None (v + 1) u) as [[[hh t0] lg0]| |]; try discriminate.
      apply (run_tier_some fuel r _ _ _ E); [discriminate|reflexivity].
  Qed.

  (* batching independence: two histories denoting the same map give the same root *)
  Theorem batching_independent : forall fuel U h1 h2 v1 v2,
    (0 < fuel)%nat -> pfree U -> ~ U [] -> Forall (ups_ok A U fuel) h1 -> Forall (ups_ok A U fuel) h2 ->
    (forall k, option_map (vh_of A) (apply_batches (fun _ => None) h1 k) =
               option_map (vh_of A) (apply_batches (fun _ => None) h2 k)) ->
    exists r1 r2, run_tier fuel None v1 h1 = Ok r1 /\ run_tier fuel None v2 h2 = Ok r2 /\
      match r1, r2 with
      | Some (_, t1), Some (_, t2) => node_hash H A (lh_root H) t1 = node_hash H A (lh_root H) t2
      | _, _ => True
      end.
  Proof.
    intros fuel U h1 h2 v1 v2 Hf PF U0 OK1 OK2 E.
    destruct (run_tier_ok fuel U h1 None v1 Hf PF U0 OK1) as (r1 & E1 & SO1 & Sem1); [intros ? ? E0; discriminate|].
    destruct (run_tier_ok fuel U h2 None v2 Hf PF U0 OK2) as (r2 & E2 & SO2 & Sem2); [intros ? ? E0; discriminate|].
    exists r1, r2. split; [exact E1|]. split; [exact E2|].
    destruct r1 as [[w1 t1]|]; destruct r2 as [[w2 t2]|]; try exact I.
    apply (canonical_root_unique fuel t1 t2).
    - apply (SO1 w1 t1 eq_refl).
    - apply (SO2 w2 t2 eq_refl).
    - apply (state_keys_valid U fuel w1 t1 SO1).
    - apply (state_keys_valid U fuel w2 t2 SO2).
    - intro k. cbn [root_sem] in Sem1, Sem2. rewrite Sem1, Sem2. apply E.
  Qed.

  (* a non-empty canonical tree never has the placeholder root, if H never outputs 32 zero bytes *)
  Theorem nonempty_root_nonzero : forall fuel t,
    (forall x, H x <> ZERO_HASH) -> good H A fuel (lh_root H) t -> node_hash H A (lh_root H) t <> ZERO_HASH.
  Proof.
    intros fuel t HZ G. destruct t as [|s vh p a|cs]; [destruct fuel; contradiction| |].
    - cbn [node_hash]. unfold lh_root. apply HZ.
    - destruct fuel as [|f]; [contradiction|]. apply good_internal in G. destruct G as (G1 & G2 & G3).
      cbn [node_hash]. cbn [merkle_hash].
      rewrite (filter_id (fun c => in_range 0 (2 ^ N.of_nat 4) (c_nib c)) cs).
      2:{ intros c Hc. rewrite Forall_forall in G2. destruct (G2 c Hc) as (C1 & _).
          unfold in_range. change (2 ^ N.of_nat 4) with 16. apply andb_true_iff.
          split; [apply N.leb_le; lia|apply N.ltb_lt; lia]. }
      destruct cs as [|c [|c2 r]]; [contradiction| |].
      + cbn [two_leaves] in G3. rewrite G3. apply HZ.
      + apply HZ.
  Qed.
End ROOT.
