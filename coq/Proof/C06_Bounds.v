(* C06 — second part of the proofs: non-negativity invariant (0 <= deducted) and exclusion of the
   I192/I256 overflow panics of fee finalisation under a stated bound on the inputs. *)
From Coq Require Import List ZArith Bool Lia.
Import ListNotations.
Require Import RV.Model.C06_Fee RV.Proof.C06_Fee.
Open Scope Z_scope.

(* ---- non-negativity invariant ---------------------------------------------------------------------- *)
Record Pos (r : reserve) : Prop := mkPos {
  p_units : 0 <= exec_c r /\ 0 <= exec_d r /\ 0 <= fin_c r /\ 0 <= fin_d r;
  p_stor : 0 <= storage_c r;
  p_stord : Forall (fun e : storage_type * Z => 0 <= snd e) (storage_d r);
  p_eff : 0 <= eff_exec r /\ 0 <= eff_fin r;
  p_prices : 0 <= exec_price (cp r) /\ 0 <= fin_price (cp r)
             /\ 0 <= state_price (cp r) /\ 0 <= archive_price (cp r)
}.

(* unsigned arguments (u32 / usize) are non-negative; locked resources are non-negative *)
Definition op_wf2 (o : fop) : Prop :=
  match o with
  | DeferExec u | DeferFin u | ConsumeExec u | ConsumeFin u => 0 <= u
  | DeferStorage _ s | ConsumeStorage _ s => 0 <= s
  | LockFee _ a _ => 0 <= a
  | _ => True
  end.
Lemma op_wf2_wf : forall o, op_wf2 o -> op_wf o.
Proof. intros [] H; cbn in *; auto. Qed.

Ltac samep H := injection H as <- <-; assumption.

Lemma consume_exec_internal_pos : forall r u o r',
  consume_exec_internal r u = (o, r') -> 0 <= u -> Pos r -> Pos r'.
Proof.
  intros r u o r' H U P. unfold consume_exec_internal in H.
  destruct (U32_MAX <? exec_c r + u); [samep H|].
  destruct (exec_limit (cp r) <? exec_c r + u); [samep H|].
  destruct (dmul (eff_exec r) (of_int u)) as [amount|]; [|samep H].
  destruct (balance r <? amount); [samep H|].
  destruct (dsub (balance r) amount) as [b|]; [|samep H].
  injection H as <- <-. destruct P. constructor; sr; try assumption; lia.
Qed.
Lemma consume_fin_internal_pos : forall r u o r',
  consume_fin_internal r u = (o, r') -> 0 <= u -> Pos r -> Pos r'.
Proof.
  intros r u o r' H U P. unfold consume_fin_internal in H.
  destruct (U32_MAX <? fin_c r + u); [samep H|].
  destruct (fin_limit (cp r) <? fin_c r + u); [samep H|].
  destruct (dmul (eff_fin r) (of_int u)) as [amount|]; [|samep H].
  destruct (balance r <? amount); [samep H|].
  destruct (dsub (balance r) amount) as [b|]; [|samep H].
  injection H as <- <-. destruct P. constructor; sr; try assumption; lia.
Qed.
Lemma consume_storage_pos : forall r t size o r',
  consume_storage r t size = (o, r') -> 0 <= size -> Pos r -> Pos r'.
Proof.
  intros r t size o r' H U P. unfold consume_storage in H.
  destruct (dmul _ (of_int size)) as [amount|] eqn:Em; [|samep H].
  destruct (balance r <? amount); [samep H|].
  destruct (dsub (balance r) amount) as [b|]; [|samep H].
  destruct (dadd (storage_c r) amount) as [sc|] eqn:Ea; [|samep H].
  injection H as <- <-. apply dmul_of_int in Em. apply dadd_eq in Ea. destruct P.
  assert (0 <= amount).
  { subst amount. apply Z.mul_nonneg_nonneg; [|lia]. destruct t; lia. }
  constructor; sr; try assumption; lia.
Qed.

Lemma pos_set_exec_d : forall r d, 0 <= d -> Pos r -> Pos (set_exec r (exec_c r) d).
Proof. intros r d D P. destruct P. constructor; sr; try assumption; lia. Qed.
Lemma pos_set_fin_d : forall r d, 0 <= d -> Pos r -> Pos (set_fin r (fin_c r) d).
Proof. intros r d D P. destruct P. constructor; sr; try assumption; lia. Qed.
Lemma pos_set_storage_d : forall r d,
  Forall (fun e : storage_type * Z => 0 <= snd e) d -> Pos r -> Pos (set_storage r (storage_c r) d).
Proof. intros r d D P. destruct P. constructor; sr; assumption. Qed.

Lemma forall_filter : forall (A : Type) (P : A -> Prop) f (l : list A), Forall P l -> Forall P (filter f l).
Proof.
  intros A P f l H. apply Forall_forall. intros x Hx. apply filter_In in Hx.
  exact (proj1 (Forall_forall P l) H x (proj1 Hx)).
Qed.

Lemma repay_storage_pos : forall ks r o r',
  repay_storage r ks = (o, r') -> Pos r -> Pos r'.
Proof.
  induction ks as [|t ks IH]; intros r o r' H P; cbn [repay_storage] in H; [samep H|].
  destruct (find _ (storage_d r)) as [e|] eqn:Ef; [|samep H].
  assert (He : 0 <= snd e).
  { apply find_some in Ef. destruct P. exact (proj1 (Forall_forall _ _) p_stord0 e (proj1 Ef)). }
  destruct (consume_storage r t (snd e)) as [o1 r1] eqn:E1.
  pose proof (consume_storage_pos _ _ _ _ _ E1 He P) as P1.
  destruct o1; try (injection H as <- <-; assumption).
  eapply IH; [exact H|]. apply pos_set_storage_d; [|exact P1]. apply forall_filter. destruct P1. assumption.
Qed.

Lemma repay_all_pos : forall r o r', repay_all r = (o, r') -> Pos r -> Pos r'.
Proof.
  intros r o r' H P. unfold repay_all in H.
  destruct (consume_exec_internal r (exec_d r)) as [o1 r1] eqn:E1.
  assert (P1 : Pos r1) by (eapply consume_exec_internal_pos; [exact E1| destruct P; lia | exact P]).
  destruct o1; try (injection H as <- <-; assumption).
  pose proof (pos_set_exec_d r1 0 ltac:(lia) P1) as P1'. set (r1' := set_exec r1 (exec_c r1) 0) in *.
  destruct (consume_fin_internal r1' (fin_d r1')) as [o2 r2] eqn:E2.
  assert (P2 : Pos r2) by (eapply consume_fin_internal_pos; [exact E2| destruct P1'; lia | exact P1']).
  destruct o2; try (injection H as <- <-; assumption).
  pose proof (pos_set_fin_d r2 0 ltac:(lia) P2) as P2'. set (r2' := set_fin r2 (fin_c r2) 0) in *.
  destruct (repay_storage r2' (map fst (storage_d r2'))) as [o3 r3] eqn:E3.
  pose proof (repay_storage_pos _ _ _ _ E3 P2') as P3.
  destruct o3; try (injection H as <- <-; assumption).
  destruct (dsub (owed r3) _) as [ow|]; [|injection H as <- <-; assumption].
  destruct (dsub (balance r3) _) as [b|]; [|injection H as <- <-; assumption].
  assert (P4 : Pos (set_balance (set_owed r3 ow) b)) by (destruct P3; constructor; sr; assumption).
  destruct (negb (ow =? 0)); [injection H as <- <-; assumption|].
  destruct (abort_when_repaid _); injection H as <- <-; assumption.
Qed.

Theorem apply_op_pos : forall r op o r', apply_op r op = (o, r') -> op_wf2 op -> Pos r -> Pos r'.
Proof.
  intros r op o r' H W P. destruct op; cbn [apply_op] in H; cbn [op_wf2] in W.
  - destruct (U32_MAX <? exec_d r + u); [samep H|]. injection H as <- <-.
    apply pos_set_exec_d; [destruct P; lia|exact P].
  - destruct (U32_MAX <? fin_d r + u); [samep H|]. injection H as <- <-.
    apply pos_set_fin_d; [destruct P; lia|exact P].
  - destruct (USIZE_MAX <? _); [samep H|]. injection H as <- <-.
    apply pos_set_storage_d; [|exact P]. destruct P.
    assert (Hc : 0 <= match find (fun e => st_eqb (fst e) t) (storage_d r) with Some e => snd e | None => 0 end).
    { destruct (find _ (storage_d r)) as [e|] eqn:Ef; [|lia]. apply find_some in Ef.
      exact (proj1 (Forall_forall _ _) p_stord0 e (proj1 Ef)). }
    destruct (existsb _ (storage_d r)).
    + apply Forall_forall. intros x Hx. apply in_map_iff in Hx. destruct Hx as (e & <- & He).
      destruct (st_eqb (fst e) t); cbn [snd]; [lia|]. exact (proj1 (Forall_forall _ _) p_stord0 e He).
    + apply Forall_app. split; [assumption|]. constructor; [cbn [snd]; lia|constructor].
  - destruct (u =? 0); [samep H|].
    destruct (consume_exec_internal r u) as [o1 r1] eqn:E1.
    pose proof (consume_exec_internal_pos _ _ _ _ E1 W P) as P1.
    destruct o1; try (injection H as <- <-; assumption).
    destruct (negb (fully_repaid r1) && (exec_loan (cp r1) <=? exec_c r1)).
    + eapply repay_all_pos; eauto.
    + injection H as <- <-. assumption.
  - destruct (u =? 0); [samep H|]. eapply consume_fin_internal_pos; eauto.
  - eapply consume_storage_pos; eauto.
  - match type of H with (if ?z then _ else _) = _ => destruct z end; [samep H|].
    match type of H with (if ?z then _ else _) = _ => destruct z end; [samep H|].
    match type of H with (match ?z with Some _ => _ | None => _ end) = _ => destruct z as [amount|] end; [|samep H].
    destruct (balance r <? amount); [samep H|].
    destruct (dsub (balance r) amount) as [b|]; [|samep H].
    destruct (bd_add (royalty_bd r) recipient amount) as [bd|]; [|samep H].
    destruct (dadd (royalty_c r) amount) as [rc|]; [|samep H].
    injection H as <- <-. destruct P. constructor; sr; assumption.
  - destruct contingent.
    + injection H as <- <-. destruct P. constructor; sr; assumption.
    + destruct (dadd (balance r) amount) as [b|]; [|samep H].
      injection H as <- <-. destruct P. constructor; sr; assumption.
  - eapply repay_all_pos; eauto.
  - destruct (dadd (balance r) (royalty_c r)) as [b|]; [|samep H].
    injection H as <- <-. destruct P. constructor; sr; assumption.
Qed.

Lemma new_pos : forall p t free abort r,
  tip_wf t -> reserve_new p t free abort = Some r -> Pos r.
Proof.
  intros p t free abort r Wt H. pose proof (proportion_nonneg t Wt) as Hp. unfold reserve_new in H.
  destruct (_ || _) eqn:E in H; [discriminate|].
  repeat (apply orb_false_iff in E; destruct E as [E ?]).
  repeat match goal with H : (_ <? _) = false |- _ => apply Z.ltb_ge in H end.
  destruct (dadd ONE (proportion t)) as [mult|] eqn:Em; [|discriminate]. apply dadd_eq in Em. subst mult.
  destruct (dmul (exec_price p) (ONE + proportion t)) as [ee|] eqn:E1; [|discriminate].
  destruct (dmul (fin_price p) (ONE + proportion t)) as [ef|] eqn:E2; [|discriminate].
  destruct (dmul ee (of_int (exec_loan p))) as [loan|]; [|discriminate].
  destruct (dadd loan free) as [start|]; [|discriminate].
  injection H as <-. apply dmul_eq in E1, E2.
  assert (Hq : forall x, 0 <= x -> 0 <= Z.quot (x * (ONE + proportion t)) ONE).
  { intros x Hx. apply Z.quot_pos; [|unfold ONE; lia]. apply Z.mul_nonneg_nonneg; [lia|unfold ONE in *; lia]. }
  constructor; sr; try lia; try (constructor); subst; auto.
Qed.

Lemma run_ops_pos : forall os r outs r',
  run_ops r os = (outs, r') -> Forall op_wf2 os -> Pos r -> Pos r'.
Proof.
  induction os as [|o os IH]; intros r outs r' H W P; cbn [run_ops] in H.
  - injection H as _ <-. exact P.
  - inversion W as [|? ? W1 W2]; subst.
    destruct (apply_op r o) as [x r1] eqn:E1.
    pose proof (apply_op_pos _ _ _ _ E1 W1 P) as P1.
    destruct x.
    + destruct (run_ops r1 os) as [xs r2] eqn:E2. injection H as _ <-. eauto.
    + destruct (run_ops r1 os) as [xs r2] eqn:E2. injection H as _ <-. eauto.
    + injection H as _ <-. exact P1.
Qed.

Theorem deducted_nonneg : forall r, Inv r -> Pos r -> 0 <= deducted r.
Proof.
  intros r I P. destruct I, P. unfold deducted.
  assert (0 <= eff_exec r * exec_c r) by (apply Z.mul_nonneg_nonneg; lia).
  assert (0 <= eff_fin r * fin_c r) by (apply Z.mul_nonneg_nonneg; lia).
  lia.
Qed.

(* ---- no overflow under a stated bound ------------------------------------------------------------------ *)
Lemma c_min0 : I192_MIN <= 0. Proof. vm_compute. discriminate. Qed.
Lemma c_max0 : 0 <= I192_MAX. Proof. vm_compute. discriminate. Qed.
Lemma c_minmax : I192_MIN = - I192_MAX - 1. Proof. vm_compute. reflexivity. Qed.
Lemma c_256 : I192_MAX * ONE <= I256_MAX. Proof. vm_compute. discriminate. Qed.
Lemma c_256min : I256_MIN <= 0. Proof. vm_compute. discriminate. Qed.
Lemma c_one : 0 < ONE. Proof. vm_compute. reflexivity. Qed.
Lemma c_hundredth : ONE_HUNDREDTH * 100 = ONE. Proof. vm_compute. reflexivity. Qed.
Lemma c_hundredth0 : 0 < ONE_HUNDREDTH. Proof. vm_compute. reflexivity. Qed.

Lemma dchk_ok : forall z, I192_MIN <= z <= I192_MAX -> dchk z = Some z.
Proof.
  intros z [H1 H2]. unfold dchk, in_i192.
  rewrite (proj2 (Z.leb_le _ _) H1), (proj2 (Z.leb_le _ _) H2). reflexivity.
Qed.
Lemma dadd_ok : forall a b, I192_MIN <= a + b <= I192_MAX -> dadd a b = Some (a + b).
Proof. intros. apply dchk_ok. assumption. Qed.
Lemma dsub_ok : forall a b, I192_MIN <= a - b <= I192_MAX -> dsub a b = Some (a - b).
Proof. intros. apply dchk_ok. assumption. Qed.

(* multiplying a non-negative Decimal by a fraction in [0,1] never overflows *)
Lemma dmul_frac : forall x f, 0 <= x <= I192_MAX -> 0 <= f <= ONE ->
  exists y, dmul x f = Some y /\ 0 <= y <= x /\ y * ONE <= x * f.
Proof.
  intros x f Hx Hf. pose proof c_256. pose proof c_256min. pose proof c_one. pose proof c_min0.
  assert (G0 : 0 <= x * f) by (apply Z.mul_nonneg_nonneg; lia).
  assert (G1 : x * f <= x * ONE) by (apply Z.mul_le_mono_nonneg_l; lia).
  assert (G2 : x * ONE <= I192_MAX * ONE) by (apply Z.mul_le_mono_nonneg_r; lia).
  unfold dmul, in_i256.
  rewrite (proj2 (Z.leb_le I256_MIN (x * f))) by lia.
  rewrite (proj2 (Z.leb_le (x * f) I256_MAX)) by lia. cbn [andb].
  rewrite Z.quot_div_nonneg by lia.
  assert (Hd0 : 0 <= x * f / ONE) by (apply Z.div_pos; lia).
  assert (Hd1 : x * f / ONE <= x).
  { replace x with (x * ONE / ONE) at 2 by (apply Z.div_mul; lia). apply Z.div_le_mono; lia. }
  assert (Hd2 : x * f / ONE * ONE <= x * f) by (rewrite Z.mul_comm; apply Z.mul_div_le; lia).
  exists (x * f / ONE). split; [apply dchk_ok; lia|]. split; lia.
Qed.

Lemma share_of_ok : forall x pct, 0 <= x <= I192_MAX -> 0 <= pct <= 100 ->
  exists y, share_of x pct = Some y /\ 0 <= y <= x /\ y * 100 <= x * pct.
Proof.
  intros x pct Hx Hp. pose proof c_hundredth. pose proof c_hundredth0. pose proof c_one.
  pose proof c_256. pose proof c_256min. pose proof c_max0. pose proof c_min0.
  unfold share_of.
  assert (Hf : dmul ONE_HUNDREDTH (of_int pct) = Some (ONE_HUNDREDTH * pct)).
  { unfold dmul, in_i256, of_int.
    assert (0 <= ONE_HUNDREDTH * (pct * ONE)) by (apply Z.mul_nonneg_nonneg; [lia|apply Z.mul_nonneg_nonneg; lia]).
    assert (ONE_HUNDREDTH * (pct * ONE) <= I192_MAX * ONE).
    { replace (ONE_HUNDREDTH * (pct * ONE)) with (ONE_HUNDREDTH * pct * ONE) by ring.
      apply Z.mul_le_mono_nonneg_r; [lia|].
      assert (ONE_HUNDREDTH * pct <= ONE_HUNDREDTH * 100) by (apply Z.mul_le_mono_nonneg_l; lia).
      assert (ONE <= I192_MAX) by (vm_compute; discriminate). lia. }
    rewrite (proj2 (Z.leb_le I256_MIN _)) by lia. rewrite (proj2 (Z.leb_le _ I256_MAX)) by lia. cbn [andb].
    replace (ONE_HUNDREDTH * (pct * ONE)) with (ONE_HUNDREDTH * pct * ONE) by ring.
    rewrite Z.quot_mul by lia. apply dchk_ok.
    assert (ONE_HUNDREDTH * pct <= ONE_HUNDREDTH * 100) by (apply Z.mul_le_mono_nonneg_l; lia).
    assert (0 <= ONE_HUNDREDTH * pct) by (apply Z.mul_nonneg_nonneg; lia).
    assert (ONE <= I192_MAX) by (vm_compute; discriminate). lia. }
  rewrite Hf. cbn [obind].
  assert (Hfr : 0 <= ONE_HUNDREDTH * pct <= ONE).
  { split; [apply Z.mul_nonneg_nonneg; lia|]. rewrite <- c_hundredth. apply Z.mul_le_mono_nonneg_l; lia. }
  destruct (dmul_frac x (ONE_HUNDREDTH * pct) Hx Hfr) as (y & Hy & Hb & Hm).
  exists y. split; [exact Hy|]. split; [exact Hb|].
  (* y * ONE <= x * (h * pct), ONE = h * 100, h > 0  =>  y * 100 <= x * pct *)
  rewrite <- c_hundredth in Hm.
  replace (y * (ONE_HUNDREDTH * 100)) with (ONE_HUNDREDTH * (y * 100)) in Hm by ring.
  replace (x * (ONE_HUNDREDTH * pct)) with (ONE_HUNDREDTH * (x * pct)) in Hm by ring.
  apply Z.mul_le_mono_pos_l in Hm; [exact Hm|lia].
Qed.

Lemma bdsum_nonneg : forall l, Forall (fun e : Z * Z => 0 <= snd e) l -> 0 <= bdsum l.
Proof.
  induction l as [|e l IH]; intros H; [cbn; lia|]. inversion H; subst.
  unfold bdsum in *. cbn [fold_right]. specialize (IH H3). lia.
Qed.

Lemma bd_add_ok : forall bd k a,
  Forall (fun e : Z * Z => 0 <= snd e) bd -> 0 <= a -> bdsum bd + a <= I192_MAX ->
  exists bd', bd_add bd k a = Some bd' /\ Forall (fun e : Z * Z => 0 <= snd e) bd'.
Proof.
  pose proof c_min0 as C0.
  induction bd as [|[k' v] bd IH]; intros k a Hn Ha Hs; cbn [bd_add].
  - unfold bdsum in Hs. cbn [fold_right] in Hs. rewrite dadd_ok by lia.
    eexists; split; [reflexivity|]. constructor; [cbn; lia|constructor].
  - inversion Hn as [|? ? H1 H2]; subst. cbn [snd] in H1.
    pose proof (bdsum_nonneg bd H2) as Hb.
    unfold bdsum in Hs. cbn [fold_right snd] in Hs. fold (bdsum bd) in Hs.
    destruct (k' =? k).
    + rewrite dadd_ok by lia. eexists; split; [reflexivity|]. constructor; [cbn; lia|assumption].
    + destruct (IH k a H2 Ha ltac:(lia)) as (bd' & E & F). rewrite E.
      eexists; split; [reflexivity|]. constructor; [cbn; lia|assumption].
Qed.

Lemma bdsum_app : forall a b, bdsum (a ++ b) = bdsum a + bdsum b.
Proof.
  induction a as [|e a IH]; intros b; [reflexivity|].
  unfold bdsum in *. cbn [app fold_right]. rewrite IH. lia.
Qed.

Definition locksum (ls : list (Z * Z * bool)) : Z :=
  fold_right (fun (e : Z * Z * bool) acc => snd (fst e) + acc) 0 ls.
Definition LocksBounded (ls : list (Z * Z * bool)) : Prop := Forall (fun e => snd (fst e) <= I192_MAX) ls.
Definition NonNegZ (l : list (Z * Z)) : Prop := Forall (fun e : Z * Z => 0 <= snd e) l.

(* the collection loop: never panics under the bounds; the refunds list follows the locks (same vaults,
   in loop order), every refund is non-negative, and refunds + collected = locked *)
Lemma take_fees_ok : forall ls ok req col pay refs,
  NonNegLocks ls -> LocksBounded ls -> 0 <= req -> 0 <= col -> col + req <= I192_MAX ->
  NonNegZ pay -> bdsum pay + req <= I192_MAX -> NonNegZ refs ->
  exists req' col' pay' refs',
    take_fees ls ok req col pay refs = inl (Some (req', col', pay', refs'))
    /\ NonNegZ pay' /\ NonNegZ refs' /\ 0 <= req' <= req /\ col' + req' = col + req
    /\ map fst refs' = map fst refs ++ map (fun e => fst (fst e)) ls
    /\ bdsum refs' = bdsum refs + locksum ls - (req - req').
Proof.
  pose proof c_min0 as C0. pose proof c_max0 as C1.
  induction ls as [|[[v lk] c] ls IH]; intros ok req col pay refs Hn Hb Hr Hc Hcr Hp Hpr Hrf; cbn [take_fees].
  - exists req, col, pay, refs. repeat split; auto; try lia. rewrite app_nil_r. reflexivity.
    unfold locksum. cbn [fold_right]. lia.
  - inversion Hn as [|? ? H1 H2]; subst. inversion Hb as [|? ? B1 B2]; subst. cbn [fst snd] in H1, B1.
    set (amount := if c then if ok then Z.min lk req else 0 else Z.min lk req).
    assert (Ha : 0 <= amount <= lk /\ amount <= req) by (unfold amount; destruct c, ok; lia).
    destruct (lk <? amount) eqn:E; [apply Z.ltb_lt in E; lia|].
    rewrite (dsub_ok lk amount) by lia. rewrite (dadd_ok col amount) by lia. rewrite (dsub_ok req amount) by lia.
    destruct (bd_add_ok pay v amount Hp ltac:(lia) ltac:(lia)) as (pay1 & E4 & F4). rewrite E4.
    pose proof (bd_add_sum _ _ _ _ E4) as S4.
    assert (Hrf1 : NonNegZ (refs ++ [(v, lk - amount)])).
    { apply Forall_app. split; [assumption|]. constructor; [cbn; lia|constructor]. }
    destruct (IH ok (req - amount) (col + amount) pay1 (refs ++ [(v, lk - amount)]) H2 B2
                ltac:(lia) ltac:(lia) ltac:(lia) F4 ltac:(lia) Hrf1)
      as (r' & c' & p' & f' & Et & G1 & G2 & G3 & G4 & G5 & G6).
    exists r', c', p', f'. split; [exact Et|]. repeat split; auto; try lia.
    + rewrite G5, map_app, <- app_assoc. reflexivity.
    + rewrite G6, bdsum_app. change (bdsum [(v, lk - amount)]) with (lk - amount + 0).
      unfold locksum. cbn [fold_right fst snd]. lia.
Qed.

Record SumOk (s : summary) : Prop := mkSumOk {
  so_nonneg : 0 <= s_exec_xrd s /\ 0 <= s_fin_xrd s /\ 0 <= s_tip_xrd s /\ 0 <= s_storage_xrd s
              /\ 0 <= s_royalty_xrd s;
  so_total : s_exec_xrd s + s_fin_xrd s + s_tip_xrd s + s_storage_xrd s + s_royalty_xrd s <= I192_MAX;
  so_locks : NonNegLocks (s_locked s) /\ LocksBounded (s_locked s)
}.
(* share percentages: non-negative, tips shares and network-fee shares each sum to at most 100 % *)
Definition shares_wf (sh : shares) : Prop :=
  0 <= tips_proposer sh /\ 0 <= tips_validator sh /\ tips_proposer sh + tips_validator sh <= 100
  /\ 0 <= fees_proposer sh /\ 0 <= fees_validator sh /\ fees_proposer sh + fees_validator sh <= 100.

Lemma split_ok : forall sh s, SumOk s -> shares_wf sh ->
  exists p v b,
    to_proposer sh s = Some p /\ to_validator_set sh s = Some v /\ to_burn sh s = Some b
    /\ 0 <= p /\ 0 <= v /\ 0 <= b
    /\ p + v + b = s_tip_xrd s + (s_exec_xrd s + s_fin_xrd s + s_storage_xrd s).
Proof.
  intros sh s [(N1 & N2 & N3 & N4 & N5) Ht _] (W1 & W2 & W3 & W4 & W5 & W6).
  pose proof c_min0 as C0. pose proof c_max0 as C1.
  set (nf := s_exec_xrd s + s_fin_xrd s + s_storage_xrd s).
  assert (Hnf : network_fees s = Some nf).
  { unfold network_fees, obind. rewrite dadd_ok by lia. rewrite dadd_ok by lia. reflexivity. }
  destruct (share_of_ok (s_tip_xrd s) (tips_proposer sh) ltac:(lia) ltac:(lia)) as (a1 & A1 & A1b & A1m).
  destruct (share_of_ok nf (fees_proposer sh) ltac:(unfold nf; lia) ltac:(lia)) as (b1 & B1 & B1b & B1m).
  destruct (share_of_ok (s_tip_xrd s) (tips_validator sh) ltac:(lia) ltac:(lia)) as (a2 & A2 & A2b & A2m).
  destruct (share_of_ok nf (fees_validator sh) ltac:(unfold nf; lia) ltac:(lia)) as (b2 & B2 & B2b & B2m).
  assert (Ha : a1 + a2 <= s_tip_xrd s).
  { assert (s_tip_xrd s * (tips_proposer sh + tips_validator sh) <= s_tip_xrd s * 100)
      by (apply Z.mul_le_mono_nonneg_l; lia). lia. }
  assert (Hb : b1 + b2 <= nf).
  { assert (nf * (fees_proposer sh + fees_validator sh) <= nf * 100)
      by (apply Z.mul_le_mono_nonneg_l; unfold nf; lia). lia. }
  assert (Hp : to_proposer sh s = Some (a1 + b1)).
  { unfold to_proposer, obind. rewrite A1, Hnf, B1. apply dadd_ok. unfold nf in *. lia. }
  assert (Hv : to_validator_set sh s = Some (a2 + b2)).
  { unfold to_validator_set, obind. rewrite A2, Hnf, B2. apply dadd_ok. unfold nf in *. lia. }
  exists (a1 + b1), (a2 + b2), (s_tip_xrd s + nf - (a1 + b1) - (a2 + b2)).
  split; [exact Hp|]. split; [exact Hv|]. split.
  - unfold to_burn, obind. rewrite Hnf, Hp, Hv.
    rewrite (dadd_ok (s_tip_xrd s) nf) by (unfold nf in *; lia).
    rewrite dsub_ok by (unfold nf in *; lia). apply dsub_ok. unfold nf in *. lia.
  - unfold nf in *. repeat split; lia.
Qed.

(* under the bounds no I192/I256 overflow and no failing take_by_amount is reachable in
   finalize_fees_for_commit *)
Theorem distribute_no_overflow : forall sh s free ok,
  SumOk s -> shares_wf sh -> 0 <= free ->
  distribute sh s free ok <> DPanic PkOverflow /\ distribute sh s free ok <> DPanic PkTake.
Proof.
  intros sh s free ok So Sw Hfree.
  destruct (split_ok sh s So Sw) as (p & v & b & Ep & Ev & Eb & P0 & V0 & B0 & Hsum).
  destruct So as [(N1 & N2 & N3 & N4 & N5) Ht (L1 & L2)].
  pose proof c_min0 as C0. pose proof c_max0 as C1.
  set (T := s_exec_xrd s + s_fin_xrd s + s_tip_xrd s + s_storage_xrd s + s_royalty_xrd s) in *.
  assert (Etc : total_cost s = Some T).
  { unfold total_cost, obind. rewrite dadd_ok by lia. rewrite dadd_ok by lia. rewrite dadd_ok by lia.
    rewrite dadd_ok by (unfold T in *; lia). reflexivity. }
  unfold distribute. rewrite Etc.
  assert (Hn1 : NonNegLocks (rev (s_locked s))) by (apply Forall_rev; assumption).
  assert (Hn2 : LocksBounded (rev (s_locked s))) by (apply Forall_rev; assumption).
  assert (HT0 : 0 <= T) by (unfold T; lia).
  assert (Hb0 : bdsum [] + T <= I192_MAX) by (change (bdsum []) with 0; unfold T in *; lia).
  destruct (take_fees_ok (rev (s_locked s)) ok T 0 [] [] Hn1 Hn2 HT0 ltac:(lia) ltac:(unfold T in *; lia)
              (Forall_nil _) Hb0 (Forall_nil _))
    as (r1 & c1 & pay & refs & Et & G1 & G2 & G3 & G4 & _).
  rewrite Et.
  set (fc := if 0 <? free then Z.min free r1 else 0).
  assert (Hfc : 0 <= fc <= r1) by (unfold fc; destruct (0 <? free) eqn:F; [apply Z.ltb_lt in F|]; lia).
  rewrite (dadd_ok c1 fc) by lia. rewrite (dsub_ok r1 fc) by lia. rewrite Ep, Ev, Eb.
  rewrite (dsub_ok (c1 + fc) (s_royalty_xrd s)) by (rewrite c_minmax; unfold T in *; lia).
  unfold obind. rewrite (dadd_ok p v) by (unfold T in *; lia). rewrite (dadd_ok (p + v) b) by (unfold T in *; lia).
  destruct (negb (s_bad_debt s =? 0)); [split; discriminate|].
  destruct (negb (r1 - fc =? 0)); [split; discriminate|].
  destruct (negb (c1 + fc - s_royalty_xrd s =? p + v + b)); split; discriminate.
Qed.

(* finalize() cannot overflow when the deducted amount fits a Decimal *)
Lemma dmul_exact_ok : forall a b q, 0 <= q <= I192_MAX -> a * b = q * ONE -> dmul a b = Some q.
Proof.
  intros a b q Hq E. pose proof c_256. pose proof c_256min. pose proof c_one. pose proof c_min0.
  unfold dmul, in_i256. rewrite E.
  assert (0 <= q * ONE) by (apply Z.mul_nonneg_nonneg; lia).
  assert (q * ONE <= I192_MAX * ONE) by (apply Z.mul_le_mono_nonneg_r; lia).
  rewrite (proj2 (Z.leb_le I256_MIN _)) by lia. rewrite (proj2 (Z.leb_le _ I256_MAX)) by lia. cbn [andb].
  rewrite Z.quot_mul by lia. apply dchk_ok. lia.
Qed.

Theorem finalize_ok : forall r,
  Inv r -> Pos r -> EffOk r -> TipExact (cp r) (tp_tip r) -> tip_wf (tp_tip r) ->
  LocksBounded (locked r) -> deducted r <= I192_MAX ->
  exists s, finalize r = Some s /\ SumOk s
            /\ s_exec_xrd s + s_fin_xrd s + s_tip_xrd s + s_storage_xrd s + s_royalty_xrd s = deducted r.
Proof.
  intros r I P (E1 & E2) (X1 & X2) Wt Lb Hd.
  pose proof (proportion_nonneg _ Wt) as Hp. pose proof c_one as C1. pose proof c_min0 as C0.
  pose proof (eff_split _ _ _ X1 E1) as S1. pose proof (eff_split _ _ _ X2 E2) as S2.
  destruct I, P.
  destruct p_units0 as (U1 & U2 & U3 & U4). destruct p_prices0 as (Q1 & Q2 & Q3 & Q4).
  apply Z.mod_divide in X1; [|lia]. destruct X1 as [ke Hke].
  apply Z.mod_divide in X2; [|lia]. destruct X2 as [kf Hkf].
  rewrite Hke, Z.div_mul in S1 by lia. rewrite Hkf, Z.div_mul in S2 by lia.
  assert (Kke : 0 <= ke).
  { assert (0 <= exec_price (cp r) * proportion (tp_tip r)) by (apply Z.mul_nonneg_nonneg; lia). nia. }
  assert (Kkf : 0 <= kf).
  { assert (0 <= fin_price (cp r) * proportion (tp_tip r)) by (apply Z.mul_nonneg_nonneg; lia). nia. }
  unfold deducted in Hd. rewrite S1, S2 in Hd.
  assert (A1 : 0 <= exec_price (cp r) * exec_c r) by (apply Z.mul_nonneg_nonneg; lia).
  assert (A2 : 0 <= ke * exec_c r) by (apply Z.mul_nonneg_nonneg; lia).
  assert (A3 : 0 <= fin_price (cp r) * fin_c r) by (apply Z.mul_nonneg_nonneg; lia).
  assert (A4 : 0 <= kf * fin_c r) by (apply Z.mul_nonneg_nonneg; lia).
  unfold finalize.
  rewrite (dmul_exact_ok (exec_price (cp r)) (of_int (exec_c r)) (exec_price (cp r) * exec_c r))
    by (try (unfold of_int; ring); lia).
  rewrite (dmul_exact_ok (fin_price (cp r)) (of_int (fin_c r)) (fin_price (cp r) * fin_c r))
    by (try (unfold of_int; ring); lia).
  rewrite (dmul_exact_ok (exec_price (cp r) * exec_c r) (proportion (tp_tip r)) (ke * exec_c r)).
  2: lia.
  2: { replace (exec_price (cp r) * exec_c r * proportion (tp_tip r))
         with (exec_c r * (exec_price (cp r) * proportion (tp_tip r))) by ring. rewrite Hke. ring. }
  rewrite (dmul_exact_ok (fin_price (cp r) * fin_c r) (proportion (tp_tip r)) (kf * fin_c r)).
  2: lia.
  2: { replace (fin_price (cp r) * fin_c r * proportion (tp_tip r))
         with (fin_c r * (fin_price (cp r) * proportion (tp_tip r))) by ring. rewrite Hkf. ring. }
  rewrite dadd_ok by lia.
  eexists. split; [reflexivity|]. split.
  - constructor; cbn [s_exec_xrd s_fin_xrd s_tip_xrd s_storage_xrd s_royalty_xrd s_locked]; try lia; auto.
  - cbn [s_exec_xrd s_fin_xrd s_tip_xrd s_storage_xrd s_royalty_xrd]. unfold deducted. rewrite S1, S2. ring.
Qed.

(* what a successful distribution is made of *)
Lemma distribute_shape : forall sh s free ok o,
  distribute sh s free ok = DOk o ->
  exists T req1 col1,
    total_cost s = Some T
    /\ take_fees (rev (s_locked s)) ok T 0 [] [] = inl (Some (req1, col1, d_payments o, d_refunds o))
    /\ to_proposer sh s = Some (d_proposer o) /\ to_validator_set sh s = Some (d_validator o)
    /\ to_burn sh s = Some (d_burn o) /\ d_royalties o = s_royalty_bd s.
Proof.
  intros sh s free ok o H. unfold distribute in H.
  destruct (total_cost s) as [T|] eqn:E1; [|discriminate].
  destruct (take_fees (rev (s_locked s)) ok T 0 [] []) as [[[[[req1 col1] pay] refunds]|]|k] eqn:E2; try discriminate.
  destruct (dadd col1 _) as [col2|]; [|discriminate].
  destruct (dsub req1 _) as [req2|]; [|discriminate].
  destruct (to_proposer sh s) as [p|] eqn:E3; [|discriminate].
  destruct (to_validator_set sh s) as [v|] eqn:E4; [|discriminate].
  destruct (to_burn sh s) as [b|] eqn:E5; [|discriminate].
  destruct (negb (s_bad_debt s =? 0)); [discriminate|].
  destruct (negb (req2 =? 0)); [discriminate|].
  destruct (dsub col2 (s_royalty_xrd s)) as [remaining|]; [|discriminate].
  destruct (obind (dadd p v) (fun x => dadd x b)) as [td|]; [|discriminate].
  destruct (negb (remaining =? td)); [discriminate|].
  injection H as <-. cbn. exists T, req1, col1. repeat split; auto.
Qed.

Lemma locksum_app : forall a b, locksum (a ++ b) = locksum a + locksum b.
Proof.
  induction a as [|e a IH]; intros b; [reflexivity|].
  unfold locksum in *. cbn [app fold_right]. rewrite IH. lia.
Qed.
Lemma locksum_rev : forall l, locksum (rev l) = locksum l.
Proof.
  induction l as [|e l IH]; [reflexivity|]. cbn [rev]. rewrite locksum_app, IH.
  unfold locksum. cbn [fold_right]. lia.
Qed.

(* C06_collected_equals_cost, full form *)
Theorem collected_equals_cost : forall sh r ok,
  Inv r -> Pos r -> EffOk r -> TipExact (cp r) (tp_tip r) -> tip_wf (tp_tip r) -> owed r = 0 ->
  shares_wf sh -> LocksBounded (locked r) -> deducted r <= I192_MAX ->
  exists s o,
    finalize r = Some s /\ distribute sh s (free_credit r) ok = DOk o
    /\ total_cost s = Some (d_collected o) /\ d_collected o = deducted r
    /\ bdsum (d_payments o) + d_free_used o = d_collected o
    /\ 0 <= d_free_used o <= free_credit r
    /\ d_proposer o + d_validator o + d_burn o + royalty_c r = d_collected o
    /\ 0 <= d_proposer o /\ 0 <= d_validator o /\ 0 <= d_burn o
    /\ d_royalties o = royalty_bd r /\ bdsum (d_royalties o) = royalty_c r
    /\ map fst (d_refunds o) = map (fun e => fst (fst e)) (rev (locked r))
    /\ NonNegZ (d_refunds o)
    /\ bdsum (d_refunds o) + bdsum (d_payments o) = locksum (locked r).
Proof.
  intros sh r ok I P E X Wt Ho Sw Lb Hd.
  destruct (finalize_ok r I P E X Wt Lb Hd) as (s & Hf & So & Hsum).
  pose proof (deducted_nonneg r I P) as Hd0.
  pose proof (distribute_exact sh r ok s I E X Ho Hd0 Hf) as Hex.
  assert (Hfree : 0 <= free_credit r) by (destruct I; assumption).
  destruct (distribute_no_overflow sh s (free_credit r) ok So Sw Hfree) as (Hno & _).
  destruct (distribute sh s (free_credit r) ok) as [o|k] eqn:Ed; [|subst k; congruence].
  destruct Hex as (H1 & H2 & H3 & H4 & H5 & H6).
  destruct (distribute_shape _ _ _ _ _ Ed) as (T & req1 & col1 & Et & Etf & Ep & Ev & Eb & Er).
  destruct (split_ok sh s So Sw) as (p & v & b & Ep' & Ev' & Eb' & P0 & V0 & B0 & _).
  rewrite Ep in Ep'. rewrite Ev in Ev'. rewrite Eb in Eb'.
  injection Ep' as <-. injection Ev' as <-. injection Eb' as <-.
  assert (Hsl : s_locked s = locked r /\ s_royalty_bd s = royalty_bd r).
  { unfold finalize in Hf.
    destruct (dmul (exec_price (cp r)) _); [|discriminate]. destruct (dmul (fin_price (cp r)) _); [|discriminate].
    destruct (dmul z _); [|discriminate]. destruct (dmul z0 _); [|discriminate].
    destruct (dadd _ _); [|discriminate]. injection Hf as <-. cbn. auto. }
  destruct Hsl as (Sl & Sr).
  destruct So as [(N1 & N2 & N3 & N4 & N5) Htot (L1 & L2)].
  rewrite H1 in Et. injection Et as <-.
  assert (Hn1 : NonNegLocks (rev (s_locked s))) by (apply Forall_rev; assumption).
  assert (Hn2 : LocksBounded (rev (s_locked s))) by (apply Forall_rev; assumption).
  assert (HT0 : 0 <= d_collected o) by lia.
  assert (HTM : d_collected o <= I192_MAX) by lia.
  assert (Hb0 : bdsum [] + d_collected o <= I192_MAX) by (change (bdsum []) with 0; lia).
  destruct (take_fees_ok (rev (s_locked s)) ok (d_collected o) 0 [] [] Hn1 Hn2 HT0 ltac:(lia) ltac:(lia)
              (Forall_nil _) Hb0 (Forall_nil _))
    as (r1 & c1 & pay & refs & Et' & G1 & G2 & G3 & G4 & G5 & G6).
  rewrite Etf in Et'. injection Et' as <- <- <- <-.
  pose proof (take_fees_spec (rev (s_locked s)) ok (d_collected o) 0 [] [] Hn1 HT0) as Hspec.
  rewrite Etf in Hspec. destruct Hspec as (_ & _ & R3).
  exists s, o. split; [exact Hf|]. split; [first [exact Ed|reflexivity]|].
  repeat split; try assumption; try lia.
  - rewrite Er, Sr. reflexivity.
  - rewrite G5, Sl. reflexivity.
  - rewrite G6, R3, locksum_rev, Sl. change (bdsum []) with 0. lia.
Qed.

(* every reserve produced by new, any well-formed operation sequence and determine_result satisfies
   the invariants; a Commit classification implies the loan is repaid *)
Theorem reachable_inv : forall p t free abort r0 os outs r1 ok res r2,
  0 <= exec_limit p -> 0 <= fin_limit p -> 0 <= exec_loan p -> tip_wf t ->
  reserve_new p t free abort = Some r0 -> Forall op_wf2 os -> run_ops r0 os = (outs, r1) ->
  determine_result ok r1 = (res, r2) ->
  Inv r2 /\ Pos r2 /\ EffOk r2 /\ cp r2 = p /\ tp_tip r2 = t /\ (forall b, res = Commit b -> owed r2 = 0).
Proof.
  intros p t free abort r0 os outs r1 ok res r2 L1 L2 L3 Wt Hn W Hr Hd.
  destruct (new_inv _ _ _ _ _ L1 L2 L3 Wt Hn) as (I0 & E0 & C0 & T0).
  pose proof (new_pos _ _ _ _ _ Wt Hn) as P0.
  assert (W' : Forall op_wf os) by (eapply Forall_impl; [apply op_wf2_wf|exact W]).
  destruct (run_ops_inv _ _ _ _ Hr W' I0) as (I1 & S1).
  pose proof (run_ops_pos _ _ _ _ Hr W P0) as P1.
  pose proof Hd as Hd'. unfold determine_result in Hd.
  destruct (repay_all r1) as [o rr] eqn:Er.
  destruct (repay_all_inv _ _ _ Er I1) as (I2 & S2).
  pose proof (repay_all_pos _ _ _ Er P1) as P2.
  assert (r2 = rr).
  { destruct o; [destruct ok; [injection Hd as _ <-; reflexivity|destruct (fully_repaid rr); injection Hd as _ <-; reflexivity]
                |destruct ok; [destruct e; injection Hd as _ <-; reflexivity|destruct (fully_repaid rr); injection Hd as _ <-; reflexivity]
                |injection Hd as _ <-; reflexivity]. }
  subst rr.
  pose proof (static_trans _ _ _ S1 S2) as S02.
  split; [exact I2|]. split; [exact P2|]. split; [eapply effok_static; eauto|].
  destruct S02 as (A1 & A2 & _). split; [congruence|]. split; [congruence|].
  intros b ->. eapply no_commit_with_debt; eauto.
Qed.

(* the royalty reversal done before finalising a failed transaction keeps everything needed *)
Lemma revert_ok : forall r r',
  apply_op r RevertRoyalty = (OOk, r') -> Inv r -> Pos r -> EffOk r ->
  Inv r' /\ Pos r' /\ EffOk r' /\ owed r' = owed r /\ locked r' = locked r /\ cp r' = cp r
  /\ tp_tip r' = tp_tip r /\ royalty_c r' = 0.
Proof.
  intros r r' H I P E.
  destruct (apply_op_inv _ _ _ _ H Logic.I I) as (I' & S).
  pose proof (apply_op_pos _ _ _ _ H Logic.I P) as P'.
  split; [exact I'|]. split; [exact P'|]. split; [eapply effok_static; eauto|].
  cbn [apply_op] in H. destruct (dadd (balance r) (royalty_c r)); [|discriminate].
  injection H as <-. sr. repeat split.
Qed.

(* ---- events of finalize_fees_for_commit replay to the vault balance writes ------------------------------- *)
Definition sumk (l : list (Z * Z)) (v : Z) : Z :=
  fold_right (fun (e : Z * Z) acc => (if fst e =? v then snd e else 0) + acc) 0 l.
Definition locks_kv (ls : list (Z * Z * bool)) : list (Z * Z) :=
  map (fun e : Z * Z * bool => (fst (fst e), snd (fst e))) ls.
(* effect of an event on the balance of vault v *)
Definition ev_delta (v : Z) (e : event) : Z :=
  match e with
  | EvDeposit v' a => if v' =? v then a else 0
  | EvPayFee v' a => if v' =? v then - a else 0
  | EvBurn _ => 0
  end.
Definition evs_delta (v : Z) (l : list event) : Z := fold_right (fun e acc => ev_delta v e + acc) 0 l.
Definition evs_in (l : list event) : Z :=
  fold_right (fun e acc => match e with EvPayFee _ a => a | _ => 0 end + acc) 0 l.
Definition evs_out (l : list event) : Z :=
  fold_right (fun e acc => match e with EvDeposit _ a => a | EvBurn a => a | _ => 0 end + acc) 0 l.

Lemma sumk_app : forall a b v, sumk (a ++ b) v = sumk a v + sumk b v.
Proof. induction a as [|e a IH]; intros b v; [reflexivity|]. unfold sumk in *. cbn [app fold_right]. rewrite IH. lia. Qed.
Lemma evs_delta_app : forall v a b, evs_delta v (a ++ b) = evs_delta v a + evs_delta v b.
Proof. induction a as [|e a IH]; intros b; [reflexivity|]. unfold evs_delta in *. cbn [app fold_right]. rewrite IH. lia. Qed.
Lemma evs_in_app : forall a b, evs_in (a ++ b) = evs_in a + evs_in b.
Proof. induction a as [|e a IH]; intros b; [reflexivity|]. unfold evs_in in *. cbn [app fold_right]. rewrite IH. lia. Qed.
Lemma evs_out_app : forall a b, evs_out (a ++ b) = evs_out a + evs_out b.
Proof. induction a as [|e a IH]; intros b; [reflexivity|]. unfold evs_out in *. cbn [app fold_right]. rewrite IH. lia. Qed.

Lemma deposits_delta : forall l v,
  evs_delta v (map (fun e : Z * Z => EvDeposit (fst e) (snd e)) l) = sumk l v
  /\ evs_in (map (fun e : Z * Z => EvDeposit (fst e) (snd e)) l) = 0
  /\ evs_out (map (fun e : Z * Z => EvDeposit (fst e) (snd e)) l) = bdsum l.
Proof.
  induction l as [|e l IH]; intros v; [repeat split|]. destruct (IH v) as (A & B & C).
  unfold evs_delta, evs_in, evs_out, sumk, bdsum in *. cbn [map fold_right ev_delta]. repeat split; lia.
Qed.
Lemma payfees_delta : forall l v,
  evs_delta v (map (fun e : Z * Z => EvPayFee (fst e) (snd e)) l) = - sumk l v
  /\ evs_in (map (fun e : Z * Z => EvPayFee (fst e) (snd e)) l) = bdsum l
  /\ evs_out (map (fun e : Z * Z => EvPayFee (fst e) (snd e)) l) = 0.
Proof.
  induction l as [|e l IH]; intros v; [repeat split|]. destruct (IH v) as (A & B & C).
  unfold evs_delta, evs_in, evs_out, sumk, bdsum in *. cbn [map fold_right ev_delta].
  repeat split; try lia. destruct (fst e =? v); lia.
Qed.

Lemma paid_per_lock_sums : forall ls refs,
  map fst refs = map (fun e : Z * Z * bool => fst (fst e)) ls ->
  (forall v, sumk (paid_per_lock ls refs) v = sumk (locks_kv ls) v - sumk refs v)
  /\ bdsum (paid_per_lock ls refs) = locksum ls - bdsum refs.
Proof.
  induction ls as [|[[v0 lk] c] ls IH]; intros refs H.
  - destruct refs; [|discriminate]. split; [intros v|]; reflexivity.
  - destruct refs as [|[v1 rest] refs]; [discriminate|]. cbn [map fst] in H. injection H as Hv Hrest. subst v1.
    destruct (IH refs Hrest) as (A & B). cbn [paid_per_lock]. split.
    + intros v. specialize (A v). unfold sumk, locks_kv in *. cbn [map fold_right fst snd]. destruct (v0 =? v); lia.
    + unfold bdsum, locksum in *. cbn [fold_right fst snd]. lia.
Qed.

Lemma sumk_locks_rev : forall l v, sumk (locks_kv (rev l)) v = sumk (locks_kv l) v.
Proof.
  induction l as [|e l IH]; intros v; [reflexivity|]. cbn [rev]. unfold locks_kv in *.
  rewrite map_app, sumk_app, IH. cbn [map]. unfold sumk. cbn [fold_right]. lia.
Qed.

Lemma finalize_locked : forall r s, finalize r = Some s -> s_locked s = locked r.
Proof.
  intros r s Hf. unfold finalize in Hf.
  destruct (dmul (exec_price (cp r)) _); [|discriminate]. destruct (dmul (fin_price (cp r)) _); [|discriminate].
  destruct (dmul z _); [|discriminate]. destruct (dmul z0 _); [|discriminate].
  destruct (dadd _ _); [|discriminate]. injection Hf as <-. reflexivity.
Qed.

(* Replaying the finalisation events (PayFee = -amount on its vault, Deposit = +amount) from the balances
   before any fee was locked gives exactly the balances finalisation writes: for every vault the events'
   net effect equals (what is written back) - (what was locked); and over all vaults the PayFee total plus
   the free credit used equals the Deposit total plus the burnt amount. *)
Theorem events_replay : forall sh r ok,
  Inv r -> Pos r -> EffOk r -> TipExact (cp r) (tp_tip r) -> tip_wf (tp_tip r) -> owed r = 0 ->
  shares_wf sh -> LocksBounded (locked r) -> deducted r <= I192_MAX ->
  exists s o,
    finalize r = Some s /\ distribute sh s (free_credit r) ok = DOk o
    /\ (forall v, evs_delta v (fee_events s o) = sumk (vault_writes o) v - sumk (locks_kv (locked r)) v)
    /\ evs_in (fee_events s o) = bdsum (d_payments o)
    /\ evs_in (fee_events s o) + d_free_used o = evs_out (fee_events s o)
    /\ evs_out (fee_events s o) = d_collected o.
Proof.
  intros sh r ok I P E X Wt Ho Sw Lb Hd.
  destruct (collected_equals_cost sh r ok I P E X Wt Ho Sw Lb Hd)
    as (s & o & Hf & Hdist & _ & _ & Hpay & _ & Hsplit & Hp0 & Hv0 & Hb0 & Hroy & Hroysum & Hmap & _ & Hrefs).
  exists s, o. split; [exact Hf|]. split; [exact Hdist|].
  pose proof (finalize_locked _ _ Hf) as Sl.
  destruct (paid_per_lock_sums (rev (locked r)) (d_refunds o) Hmap) as (Pk & Pb).
  assert (Hrw : evs_delta REWARDS_VAULT [] = 0) by reflexivity.
  unfold fee_events, vault_writes. rewrite Sl.
  set (roy := d_royalties o) in *. set (refs := d_refunds o) in *.
  set (rw := if rewards_paid o then [EvDeposit REWARDS_VAULT (d_proposer o + d_validator o)] else []).
  set (bn := if 0 <? d_burn o then [EvBurn (d_burn o)] else []).
  assert (Hrwv : forall v, evs_delta v rw = sumk (if rewards_paid o then [(REWARDS_VAULT, d_proposer o + d_validator o)] else []) v).
  { intros v. unfold rw. destruct (rewards_paid o); [|reflexivity]. unfold evs_delta, sumk. cbn [fold_right ev_delta fst snd]. reflexivity. }
  assert (Hrwo : evs_out rw = d_proposer o + d_validator o /\ evs_in rw = 0).
  { unfold rw, rewards_paid. destruct ((d_proposer o =? 0) && (d_validator o =? 0)) eqn:Ez; cbn [negb].
    - apply andb_true_iff in Ez. destruct Ez as [Z1 Z2]. apply Z.eqb_eq in Z1, Z2. split; [cbn; lia|reflexivity].
    - split; [unfold evs_out; cbn [fold_right]; lia|reflexivity]. }
  assert (Hbn : evs_out bn = d_burn o /\ evs_in bn = 0 /\ forall v, evs_delta v bn = 0).
  { unfold bn. destruct (0 <? d_burn o) eqn:Eb; [apply Z.ltb_lt in Eb|apply Z.ltb_ge in Eb].
    - repeat split; unfold evs_out; cbn [fold_right]; lia.
    - repeat split; cbn; lia. }
  destruct Hrwo as (Ro & Ri). destruct Hbn as (Bo & Bi & Bd).
  split; [|split; [|split]].
  - intros v. rewrite !evs_delta_app, !sumk_app.
    destruct (deposits_delta roy v) as (D1 & _ & _). destruct (payfees_delta (paid_per_lock (rev (locked r)) refs) v) as (F1 & _ & _).
    rewrite D1, F1, Pk, sumk_locks_rev, Hrwv, Bd. lia.
  - rewrite !evs_in_app.
    destruct (deposits_delta roy 0) as (_ & D2 & _). destruct (payfees_delta (paid_per_lock (rev (locked r)) refs) 0) as (_ & F2 & _).
    rewrite D2, F2, Ri, Bi, Pb, locksum_rev. lia.
  - rewrite !evs_in_app, !evs_out_app.
    destruct (deposits_delta roy 0) as (_ & D2 & D3). destruct (payfees_delta (paid_per_lock (rev (locked r)) refs) 0) as (_ & F2 & F3).
    rewrite D2, D3, F2, F3, Ri, Bi, Ro, Bo, Pb, locksum_rev. unfold roy in *. lia.
  - rewrite !evs_out_app.
    destruct (deposits_delta roy 0) as (_ & _ & D3). destruct (payfees_delta (paid_per_lock (rev (locked r)) refs) 0) as (_ & _ & F3).
    rewrite D3, F3, Ro, Bo. unfold roy in *. lia.
Qed.
