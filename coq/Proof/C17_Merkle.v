(* C17 — Theorem A: the hash of a canonical 16-ary tree (4-level InternalNode::merkle_hash over the
   cached child hashes) is the bit-level sparse-Merkle commitment of its leaves. *)
From Coq Require Import List NArith Bool Lia Arith Permutation.
Import ListNotations.
Require Import RV.Model.C17_Jmt RV.Model.C17_Smt RV.Proof.C17_Base.
Open Scope N_scope.

(* ---------- small facts on nibbles (finite, by computation) ---------- *)
Fixpoint lowbits (l : nat) (n : N) : list bool :=
  match l with O => [] | S l' => N.testbit n (N.of_nat l') :: lowbits l' n end.

Lemma bits4_lowbits : forall n, bits4 n = lowbits 4 n.
Proof. reflexivity. Qed.

Definition nibs16 : list N := [0;1;2;3;4;5;6;7;8;9;10;11;12;13;14;15].
Lemma lt16_in : forall n, n < 16 -> In n nibs16.
Proof.
  intros n Hn. destruct n as [|p]; [left; reflexivity|].
  do 4 (try destruct p as [p|p|]); cbn; try lia; tauto.
Qed.

Definition aligned_b (l : nat) (start : N) : bool :=
  (start mod 2 ^ N.of_nat l =? 0) && (start + 2 ^ N.of_nat l <=? 16).

Definition half_fact (l : nat) (start n : N) : bool :=
  implb (aligned_b (S l) start)
        (aligned_b l start && aligned_b l (start + 2 ^ N.of_nat l) &&
         implb (in_range start (2 ^ N.of_nat (S l)) n)
               (Bool.eqb (in_range start (2 ^ N.of_nat l) n) (negb (N.testbit n (N.of_nat l))) &&
                Bool.eqb (in_range (start + 2 ^ N.of_nat l) (2 ^ N.of_nat l) n) (N.testbit n (N.of_nat l)))).

Lemma half_fact_all :
  forallb (fun l => forallb (fun s => forallb (fun n => half_fact l s n) nibs16) nibs16) [0;1;2;3]%nat = true.
Proof. vm_compute. reflexivity. Qed.

Lemma half_facts : forall l start n, (l < 4)%nat -> start < 16 -> n < 16 ->
  aligned_b (S l) start = true ->
  aligned_b l start = true /\ aligned_b l (start + 2 ^ N.of_nat l) = true /\
  (in_range start (2 ^ N.of_nat (S l)) n = true ->
   in_range start (2 ^ N.of_nat l) n = negb (N.testbit n (N.of_nat l)) /\
   in_range (start + 2 ^ N.of_nat l) (2 ^ N.of_nat l) n = N.testbit n (N.of_nat l)).
Proof.
  intros l start n Hl Hs Hn Ha.
  pose proof half_fact_all as F. rewrite forallb_forall in F.
  assert (Il : In l [0;1;2;3]%nat) by (cbn; lia).
  specialize (F l Il). rewrite forallb_forall in F. specialize (F start (lt16_in _ Hs)).
  rewrite forallb_forall in F. specialize (F n (lt16_in _ Hn)).
  unfold half_fact in F. rewrite Ha in F. cbn [implb] in F.
  apply andb_true_iff in F. destruct F as [F1 F3]. apply andb_true_iff in F1. destruct F1 as [F1 F2].
  repeat split; try assumption.
  - rewrite H in F3. cbn [implb] in F3. apply andb_true_iff in F3. apply eqb_prop. tauto.
  - rewrite H in F3. cbn [implb] in F3. apply andb_true_iff in F3. apply eqb_prop. tauto.
Qed.

Lemma aligned_lt16 : forall l start, aligned_b l start = true -> start < 16.
Proof.
  intros l start Ha. unfold aligned_b in Ha. apply andb_true_iff in Ha. destruct Ha as [_ Ha].
  apply N.leb_le in Ha. assert (0 < 2 ^ N.of_nat l) by (apply N.neq_0_lt_0, N.pow_nonzero; lia). lia.
Qed.

Lemma unit_range : forall start n, in_range start (2 ^ N.of_nat 0) n = true -> n = start.
Proof.
  intros start n Hr. unfold in_range in Hr. cbn in Hr. apply andb_true_iff in Hr.
  destruct Hr as [R1 R2]. apply N.leb_le in R1. apply N.ltb_lt in R2. lia.
Qed.

(* ---------- the specification side ---------- *)
Lemma sel_app : forall {V} b (S1 S2 : list (list bool * V)), sel b (S1 ++ S2) = sel b S1 ++ sel b S2.
Proof. intros. unfold sel. apply flat_map_app. Qed.

Lemma sel_cons : forall {V} b (x : list bool * V) S,
  sel b (x :: S) = (match fst x with
                    | c :: r => if Bool.eqb c b then [(r, snd x)] else []
                    | [] => [] end) ++ sel b S.
Proof. reflexivity. Qed.

Lemma sel_map_cons : forall {V} (b c : bool) (p : list bool) (X : list (list bool * V)),
  sel b (map (fun kv => ((c :: p) ++ fst kv, snd kv)) X) =
  if Bool.eqb c b then map (fun kv => (p ++ fst kv, snd kv)) X else [].
Proof.
  intros V b c p X. induction X as [|x X IH]; [destruct (Bool.eqb c b); reflexivity|].
  cbn [map]. rewrite sel_cons, IH. cbn [fst snd app].
  destruct (Bool.eqb c b); reflexivity.
Qed.

Section MERKLE.
  Variable H : list N -> list N.
  Variable A : Type.
  Notation nodeA := (node A).
  Notation child := (child_of (node A)).
  Notation lhT := (list N -> list N -> list N).

  Lemma smt_step : forall f lhb (X : list (list bool * list N)), (2 <= length X)%nat ->
    smt H (S f) lhb X = H (smt H f (fun k => lhb (false :: k)) (sel false X) ++
                           smt H f (fun k => lhb (true :: k)) (sel true X)).
  Proof.
    intros f lhb X L. destruct X as [|x [|y r]]; cbn in L; try lia. destruct x. reflexivity.
  Qed.

  Lemma smt_nil : forall f lhb, smt H f lhb [] = ZERO_HASH.
  Proof. destruct f; reflexivity. Qed.
  Lemma smt_single : forall f lhb k v, smt H f lhb [(k, v)] = lhb k v.
  Proof. destruct f; reflexivity. Qed.

  Definition vh_of (d : ldata A) : list N := fst (fst d).
  Definition ebits (l : list (list N * ldata A)) : list (list bool * list N) :=
    map (fun kd => (bits_of_nibbles (fst kd), vh_of (snd kd))) l.

  Definition EL (m : nat) (c : child) := ebits (leaves A m (c_sub c)).
  Definition SR (m l : nat) (cs : list child) : list (list bool * list N) :=
    flat_map (fun c => map (fun kv => (lowbits l (c_nib c) ++ fst kv, snd kv)) (EL m c)) cs.

  Lemma SR_length : forall m l lh cs, Forall (child_ok H A m lh) cs ->
    match cs with
    | [] => True
    | [c] => (1 <= length (SR m l cs))%nat /\ (c_leaf c = false -> 2 <= length (SR m l cs))%nat
    | _ => (2 <= length (SR m l cs))%nat
    end.
  Proof.
    intros m l lh cs F.
    assert (L1 : forall c, In c cs -> (1 <= length (EL m c))%nat /\ (c_leaf c = false -> 2 <= length (EL m c))%nat).
    { intros c Hc. rewrite Forall_forall in F. destruct (F c Hc) as (_ & C2 & _ & C4).
      pose proof (good_leaves H A _ _ _ C2) as G. unfold EL, ebits. rewrite map_length.
      destruct (c_sub c) as [|s vh p a|cs']; [contradiction| |].
      - rewrite G. cbn. split; [lia|]. intro E. rewrite C4 in E. discriminate.
      - split; [lia|]. intros _. exact G. }
    destruct cs as [|c1 [|c2 r]]; [exact I| |].
    - unfold SR. cbn [flat_map]. rewrite app_nil_r, map_length. apply L1. left. reflexivity.
    - unfold SR. cbn [flat_map]. rewrite !app_length, !map_length.
      pose proof (proj1 (L1 c1 (or_introl eq_refl))). pose proof (proj1 (L1 c2 (or_intror (or_introl eq_refl)))). lia.
  Qed.

  (* selecting a bit of the range = restricting to the half range *)
  Lemma sel_SR : forall m l start b cs, (l < 4)%nat -> aligned_b (S l) start = true ->
    (forall c, In c cs -> c_nib c < 16 /\ in_range start (2 ^ N.of_nat (S l)) (c_nib c) = true) ->
    sel b (SR m (S l) cs) =
    SR m l (filter (fun c => in_range (if b then start + 2 ^ N.of_nat l else start) (2 ^ N.of_nat l) (c_nib c)) cs).
  Proof.
    intros m l start b cs Hl Ha Hin. induction cs as [|c r IH]; [reflexivity|].
    unfold SR in *. cbn [flat_map filter]. rewrite sel_app. rewrite IH by (intros d Hd; apply Hin; right; exact Hd).
    destruct (Hin c (or_introl eq_refl)) as [C1 C2].
    destruct (half_facts l start (c_nib c) Hl (aligned_lt16 _ _ Ha) C1 Ha) as (_ & _ & F).
    destruct (F C2) as [F1 F2]. cbn [lowbits]. rewrite sel_map_cons.
    destruct b.
    - rewrite F2. destruct (N.testbit (c_nib c) (N.of_nat l)); cbn [Bool.eqb flat_map app]; reflexivity.
    - rewrite F1. destruct (N.testbit (c_nib c) (N.of_nat l)); cbn [Bool.eqb negb flat_map app]; reflexivity.
  Qed.

  Lemma filter_filter_range : forall start l (cs : list child) s2 l2,
    (forall c, In c (filter (fun c => in_range s2 l2 (c_nib c)) cs) -> True) ->
    filter (fun c => in_range start l (c_nib c)) (filter (fun c => in_range start l (c_nib c)) cs) =
    filter (fun c => in_range start l (c_nib c)) cs.
  Proof.
    intros. apply filter_id. intros x Hx. apply filter_In in Hx. tauto.
  Qed.

  Section LEVEL.
    Variable m : nat.
    Variable lh : lhT.
    (* Theorem A one level below *)
    Hypothesis IHm : forall (lh' : lhT) lhb t, (forall s v, kvalid s -> lh' s v = lhb (bits_of_nibbles s) v) ->
      (forall k d, In (k, d) (leaves A m t) -> kvalid k) ->
      good H A m lh' t -> node_hash H A lh' t = smt H (4 * m) lhb (ebits (leaves A m t)).

    Lemma merkle_level : forall l start lhp cs, (l <= 4)%nat -> aligned_b l start = true ->
      ssorted A cs -> Forall (child_ok H A m lh) cs ->
      (forall c, In c cs -> in_range start (2 ^ N.of_nat l) (c_nib c) = true ->
                 forall s v, kvalid s -> lhp (lowbits l (c_nib c) ++ bits_of_nibbles s) v = lh (c_nib c :: s) v) ->
      (forall c, In c cs -> forall k d, In (k, d) (leaves A m (c_sub c)) -> kvalid k) ->
      merkle_hash H A l start cs =
      smt H (4 * m + l) lhp (SR m l (filter (fun c => in_range start (2 ^ N.of_nat l) (c_nib c)) cs)).
    Proof.
      induction l as [|l IHl]; intros start lhp cs Hl Ha Hs Hf Hlh Hval.
      - (* width 1 *)
        cbn [merkle_hash].
        set (rc := filter (fun c => in_range start (2 ^ N.of_nat 0) (c_nib c)) cs).
        assert (Hs' : ssorted A rc) by (apply ssorted_filter; exact Hs).
        assert (Hrc : forall c, In c rc -> In c cs /\ c_nib c = start).
        { intros c Hc. apply filter_In in Hc. destruct Hc as [Hc1 Hc2]. split; [exact Hc1|apply unit_range; exact Hc2]. }
        destruct rc as [|c rest] eqn:Erc; [symmetry; apply smt_nil|].
        assert (rest = []).
        { destruct rest as [|d rest']; [reflexivity|]. destruct Hs' as [S1 _]. inversion S1; subst.
          destruct (Hrc c (or_introl eq_refl)) as [_ E1]. destruct (Hrc d (or_intror (or_introl eq_refl))) as [_ E2]. lia. }
        subst rest. destruct (Hrc c (or_introl eq_refl)) as [Hc Enib].
        rewrite Forall_forall in Hf. destruct (Hf c Hc) as (C1 & C2 & C3 & C4).
        unfold SR. cbn [flat_map lowbits app]. rewrite app_nil_r.
        rewrite C3. rewrite Nat.add_0_r.
        rewrite (IHm (lh_down lh (c_nib c)) lhp (c_sub c)); [|intros s v Vs|apply (Hval c Hc)|exact C2].
        + unfold EL. f_equal. symmetry. erewrite map_ext; [apply map_id|].
          intros [k v]. reflexivity.
        + unfold lh_down. rewrite <- Hlh; [reflexivity|exact Hc| |exact Vs]. rewrite Enib.
          unfold in_range. cbn. rewrite N.leb_refl. cbn. apply N.ltb_lt. lia.
      - (* width 2^(l+1) *)
        cbn [merkle_hash].
        set (rc := filter (fun c => in_range start (2 ^ N.of_nat (S l)) (c_nib c)) cs).
        assert (Hs' : ssorted A rc) by (apply ssorted_filter; exact Hs).
        assert (Hf' : Forall (child_ok H A m lh) rc).
        { rewrite Forall_forall in *. intros c Hc. apply filter_In in Hc. apply Hf. tauto. }
        assert (Hrc : forall c, In c rc -> In c cs /\ c_nib c < 16 /\ in_range start (2 ^ N.of_nat (S l)) (c_nib c) = true).
        { intros c Hc. pose proof Hc as Hc'. apply filter_In in Hc. destruct Hc as [Hc1 Hc2].
          rewrite Forall_forall in Hf. repeat split; try assumption. apply (Hf c Hc1). }
        pose proof (SR_length m (S l) lh rc Hf') as Hlen.
        destruct rc as [|c rest] eqn:Erc; [symmetry; apply smt_nil|].
        destruct (match rest with [] => c_leaf c | _ :: _ => false end) eqn:Esingle.
        + (* the only child of the range is a leaf *)
          destruct rest; [|discriminate].
          destruct (Hrc c (or_introl eq_refl)) as (Hc & C1 & Hr).
          rewrite Forall_forall in Hf. destruct (Hf c Hc) as (_ & C2 & C3 & C4).
          rewrite Esingle in C4. destruct (c_sub c) as [|s vh p a|cs'] eqn:Esub; try discriminate.
          unfold SR, EL. cbn [flat_map]. rewrite Esub.
          assert (EL1 : leaves A m (Leaf s vh p a) = [(s, (vh, p, a))]) by (destruct m; reflexivity).
          rewrite EL1. cbn [ebits map fst snd app vh_of]. rewrite smt_single.
          rewrite C3. cbn [node_hash]. unfold lh_down. symmetry. apply Hlh; try assumption.
          apply (Hval c Hc s (vh, p, a)). rewrite Esub, EL1. left. reflexivity.
        + (* two leaves or more below the range: one more hashing level *)
          assert (L2 : (2 <= length (SR m (S l) (c :: rest)))%nat).
          { destruct rest as [|d rest']; [|exact Hlen]. apply Hlen. exact Esingle. }
          replace (4 * m + S l)%nat with (S (4 * m + l))%nat by lia.
          rewrite smt_step by exact L2.
          assert (Hl4 : (l < 4)%nat) by lia.
          destruct (half_facts l start 0 Hl4 (aligned_lt16 _ _ Ha) ltac:(lia) Ha) as (Ha1 & Ha2 & _).
          rewrite (sel_SR m l start false (c :: rest) Hl4 Ha) by (intros d Hd; apply Hrc; exact Hd).
          rewrite (sel_SR m l start true (c :: rest) Hl4 Ha) by (intros d Hd; apply Hrc; exact Hd).
          f_equal. f_equal.
          * apply IHl; try assumption; [lia| |intros d Hd; apply Hval; apply (Hrc d Hd)].
            intros d Hd Hr s v Vs. destruct (Hrc d Hd) as (Hd1 & Hd2 & Hd3).
            destruct (half_facts l start (c_nib d) Hl4 (aligned_lt16 _ _ Ha) Hd2 Ha) as (_ & _ & F).
            destruct (F Hd3) as [F1 _]. rewrite Hr in F1.
            rewrite <- (Hlh d Hd1 Hd3 s v Vs). cbn [lowbits app].
            destruct (N.testbit (c_nib d) (N.of_nat l)); [discriminate|reflexivity].
          * apply IHl; try assumption; [lia| |intros d Hd; apply Hval; apply (Hrc d Hd)].
            intros d Hd Hr s v Vs. destruct (Hrc d Hd) as (Hd1 & Hd2 & Hd3).
            destruct (half_facts l start (c_nib d) Hl4 (aligned_lt16 _ _ Ha) Hd2 Ha) as (_ & _ & F).
            destruct (F Hd3) as [_ F2]. rewrite Hr in F2.
            rewrite <- (Hlh d Hd1 Hd3 s v Vs). cbn [lowbits app].
            destruct (N.testbit (c_nib d) (N.of_nat l)); [reflexivity|discriminate].
    Qed.
  End LEVEL.

  Lemma map_flat_map : forall {X Y Z} (f : Y -> Z) (g : X -> list Y) l,
    map f (flat_map g l) = flat_map (fun x => map f (g x)) l.
  Proof. induction l as [|x l IH]; [reflexivity|]. cbn. rewrite map_app, IH. reflexivity. Qed.

  Lemma bits_cons : forall n s, bits_of_nibbles (n :: s) = lowbits 4 n ++ bits_of_nibbles s.
  Proof. reflexivity. Qed.

  (* Theorem A *)
  Theorem hash_is_smt : forall n (lh : lhT) lhb t,
    (forall s v, kvalid s -> lh s v = lhb (bits_of_nibbles s) v) ->
    (forall k d, In (k, d) (leaves A n t) -> kvalid k) ->
    good H A n lh t ->
    node_hash H A lh t = smt H (4 * n) lhb (ebits (leaves A n t)).
  Proof.
    induction n as [|n IH]; intros lh lhb t Hlh Hv G; destruct t as [|s vh p a|cs]; cbn [good] in G;
      try contradiction.
    - cbn. apply Hlh. apply (Hv s (vh, p, a)). left. reflexivity.
    - cbn [node_hash leaves ebits map fst snd vh_of]. rewrite smt_single. apply Hlh.
      apply (Hv s (vh, p, a)). left. reflexivity.
    - destruct G as (G1 & G2 & G3). cbn [node_hash].
      assert (Hval : forall c, In c cs -> forall k d, In (k, d) (leaves A n (c_sub c)) -> kvalid (c_nib c :: k)).
      { intros c Hc k d Hin. apply (Hv (c_nib c :: k) d). cbn [leaves]. apply in_flat_map. exists c. split; [exact Hc|].
        apply in_map_iff. exists (k, d). split; [reflexivity|exact Hin]. }
      rewrite (merkle_level n lh IH 4 0 lhb cs); try assumption; try lia; try reflexivity.
      + replace (4 * S n)%nat with (4 * n + 4)%nat by lia. f_equal.
        rewrite filter_id.
        2:{ intros c Hc. rewrite Forall_forall in G2. destruct (G2 c Hc) as (C1 & _).
            unfold in_range. change (2 ^ N.of_nat 4) with 16. apply andb_true_iff.
            split; [apply N.leb_le; lia|apply N.ltb_lt; lia]. }
        cbn [leaves]. unfold ebits, SR, EL, ebits. rewrite map_flat_map. apply flat_map_ext.
        intro c. rewrite !map_map. apply map_ext. intros [k d]. cbn [fst snd]. rewrite bits_cons. reflexivity.
      + intros c Hc _ s v Vs. rewrite Hlh; [rewrite bits_cons; reflexivity|].
        constructor; [|exact Vs]. rewrite Forall_forall in G2. apply (G2 c Hc).
      + intros c Hc k d Hin. apply (kvalid_head (c_nib c)). eapply Hval; eassumption.
  Qed.

  Corollary null_hash_is_smt : forall n (lh : lhT) lhb,
    node_hash H A lh Null = smt H n lhb (ebits (leaves A n Null)).
  Proof. intros. assert (E : leaves A n (@Null A) = []) by (destruct n; reflexivity). rewrite E. cbn. symmetry. apply smt_nil. Qed.
End MERKLE.
