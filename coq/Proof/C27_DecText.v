(* Proof/C27_DecText.v — facts about the text model: the decimal digit printer and the digit-run
   reader are inverse for every non-negative integer; the repaired defect. *)
From Coq Require Import ZArith NArith List Bool Lia.
Import ListNotations.
Require Import RV.Lib.DecCore RV.Model.C27_DecText.
Open Scope Z_scope.

Lemma horner_app l1 : forall l2 a,
  horner (l1 ++ l2) a = match horner l1 a with Some v => horner l2 v | None => None end.
Proof.
  induction l1 as [|d r IH]; intros l2 a; cbn [app horner]; [reflexivity|].
  destruct (is_digit d); [apply IH|reflexivity].
Qed.

Lemma digit_char n : 0 <= n -> let d := Z.to_N (48 + n mod 10) in
  is_digit d = true /\ digit_val d = n mod 10.
Proof.
  intros Hn d. pose proof (Z.mod_pos_bound n 10 ltac:(lia)) as Hb.
  unfold is_digit, digit_val, d. split.
  - apply andb_true_iff. split; apply N.leb_le; lia.
  - rewrite Z2N.id by lia. lia.
Qed.

Lemma digits_go_spec fuel : forall n acc, 0 <= n < 2 ^ Z.of_nat fuel ->
  exists l, digits_go fuel n acc = l ++ acc /\ forallb is_digit l = true /\
    n < 10 ^ Z.of_nat (length l) /\
    (forall a, horner l a = Some (a * 10 ^ Z.of_nat (length l) + n)) /\ (0 < n -> l <> []).
Proof.
  induction fuel as [|k IH]; intros n acc Hn.
  - change (2 ^ Z.of_nat 0) with 1 in Hn. assert (n = 0) by lia. subst n.
    exists []. cbn. repeat split; try lia. intros a. f_equal. lia.
  - cbn [digits_go]. destruct (Z.leb_spec n 0) as [H0|H0].
    + assert (n = 0) by lia. subst n. exists []. cbn. repeat split; try lia. intros a. f_equal. lia.
    + rewrite Nat2Z.inj_succ, Z.pow_succ_r in Hn by lia.
      pose proof (Z.div_mod n 10 ltac:(lia)) as Hdm.
      pose proof (Z.mod_pos_bound n 10 ltac:(lia)) as Hmb.
      assert (Hq : 0 <= n / 10 < 2 ^ Z.of_nat k) by (split; [apply Z.div_pos; lia|apply Z.div_lt_upper_bound; lia]).
      destruct (IH (n / 10) (Z.to_N (48 + n mod 10) :: acc) Hq) as (l' & Heq & Hall & Hlt & Hh & _).
      destruct (digit_char n ltac:(lia)) as [Hd Hv].
      exists (l' ++ [Z.to_N (48 + n mod 10)]). rewrite Heq, <- app_assoc. cbn [app].
      rewrite forallb_app, Hall, app_length, Nat2Z.inj_add. cbn [forallb length]. rewrite Hd.
      change (Z.of_nat 1) with 1. rewrite Z.pow_add_r, Z.pow_1_r by lia.
      repeat split; try reflexivity; try lia.
      * intros a. rewrite horner_app, Hh. cbn [horner]. rewrite Hd, Hv. f_equal. lia.
      * intros _ Hc. apply app_eq_nil in Hc. destruct Hc; discriminate.
Qed.

(* printing a non-negative integer in decimal and reading the digits back gives the integer *)
Theorem digits_roundtrip n : 0 <= n ->
  forallb is_digit (digits n) = true /\ horner (digits n) 0 = Some n /\ digits n <> [].
Proof.
  intros Hn. unfold digits. destruct (Z.leb_spec n 0) as [H0|H0].
  - assert (n = 0) by lia. subst n. repeat split; try reflexivity. discriminate.
  - assert (Hb : 0 <= n < 2 ^ Z.of_nat (S (Z.to_nat (Z.log2 n)))).
    { rewrite Nat2Z.inj_succ, Z2Nat.id by apply Z.log2_nonneg.
      destruct (Z.log2_spec n H0). lia. }
    destruct (digits_go_spec _ n [] Hb) as (l & Heq & Hall & _ & Hh & Hne).
    rewrite Heq, app_nil_r. repeat split; [exact Hall| |apply Hne; lia].
    rewrite Hh; f_equal; lia.
Qed.

(* the repaired defect: before the fix a sign was accepted after the decimal point *)
Lemma fraction_sign_refuted :
  dec_from_str_prefix DEC [49; 46; 45; 53]%N = Ok 950000000000000000 /\      (* "1.-5" *)
  dec_from_str_prefix DEC [49; 46; 43; 53]%N = Ok 1050000000000000000 /\     (* "1.+5" *)
  dec_from_str_prefix PDEC [49; 46; 45; 53]%N = Ok 950000000000000000000000000000000000 /\
  parse_spec DEC [49; 46; 45; 53]%N = None /\
  dec_from_str DEC [49; 46; 45; 53]%N = Err EInvalidDigit /\
  dec_from_str DEC [49; 46; 43; 53]%N = Err EInvalidDigit /\
  dec_from_str PDEC [49; 46; 45; 53]%N = Err EInvalidDigit.
Proof. repeat split; vm_compute; reflexivity. Qed.

(* print/parse on the limits and on values in (-1, 0): model evaluation (non-vacuity only) *)
Definition roundtrip_ok (f : fmt) (x : Z) : bool :=
  match dec_from_str f (dec_to_string f x), parse_spec f (dec_to_string f x) with
  | Ok y, Some z => (x =? y) && (x =? z)
  | _, _ => false
  end.
Lemma roundtrip_samples :
  forallb (roundtrip_ok DEC) [fmin DEC; fmax DEC; 0; 1; -1; -500000000000000000; 1000000000000000000;
                              -1000000000000000001; 123456789012345678901234567890] = true /\
  forallb (roundtrip_ok PDEC) [fmin PDEC; fmax PDEC; 0; 1; -1; -500000000000000000; 10 ^ 36; - 10 ^ 36 - 1] = true.
Proof. split; vm_compute; reflexivity. Qed.
