(* Proof/C27_DecText.v — the repaired defect and model evaluations used for non-vacuity
   (the general theorems are in Proof/C27_Uint, C27_SInt, C27_FromStr, C27_Print). *)
From Coq Require Import ZArith NArith List Bool Lia.
Import ListNotations.
Require Import RV.Lib.DecCore RV.Model.C27_DecText.
Open Scope Z_scope.

(* the repaired defect: before the fix a sign was accepted after the decimal point *)
Lemma fraction_sign_refuted :
  dec_from_str_prefix DEC [49; 46; 45; 53]%N = Ok 950000000000000000 /\      (* "1.-5" *)
  dec_from_str_prefix DEC [49; 46; 43; 53]%N = Ok 1050000000000000000 /\     (* "1.+5" *)
  dec_from_str_prefix PDEC [49; 46; 45; 53]%N = Ok 950000000000000000000000000000000000 /\
  parse_spec DEC [49; 46; 45; 53]%N = None /\
  dec_from_str DEC [49; 46; 45; 53]%N = Err EInvalidDigit /\
  dec_from_str DEC [49; 46; 43; 53]%N = Err EInvalidDigit /\
  dec_from_str PDEC [49; 46; 45; 53]%N = Err EInvalidDigit.
Proof. repeat split; vm_compute; reflexivity. Qed.

(* print/parse on the limits and on values in (-1, 0): model evaluation (non-vacuity only) *)
Definition roundtrip_ok (f : fmt) (x : Z) : bool :=
  match dec_from_str f (dec_to_string f x), parse_spec f (dec_to_string f x) with
  | Ok y, Some z => (x =? y) && (x =? z)
  | _, _ => false
  end.
Lemma roundtrip_samples :
  forallb (roundtrip_ok DEC) [fmin DEC; fmax DEC; 0; 1; -1; -500000000000000000; 1000000000000000000;
                              -1000000000000000001; 123456789012345678901234567890] = true /\
  forallb (roundtrip_ok PDEC) [fmin PDEC; fmax PDEC; 0; 1; -1; -500000000000000000; 10 ^ 36; - 10 ^ 36 - 1] = true.
Proof. split; vm_compute; reflexivity. Qed.
