(* C17 — list infrastructure for the update proof: association by nibble, the children map
   (cs_insert / cs_remove / cs_find), sorted key-value slices and NibbleRangeIterator (`groups`). *)
From Coq Require Import List NArith Bool Lia Arith.
Import ListNotations.
Require Import RV.Model.C17_Jmt RV.Model.C17_Smt RV.Proof.C17_Base.
Open Scope N_scope.

(* ---------- association lists keyed by a nibble ---------- *)
Fixpoint nassoc {X} (n : N) (l : list (N * X)) : option X :=
  match l with
  | [] => None
  | (m, x) :: r => if m =? n then Some x else nassoc n r
  end.

Lemma nassoc_in : forall {X} n (l : list (N * X)) x, nassoc n l = Some x -> In (n, x) l.
Proof.
  induction l as [|[m y] r IH]; intros x E; [discriminate|]. cbn in E.
  destruct (m =? n) eqn:Em; [apply N.eqb_eq in Em; inversion E; subst; left; reflexivity|right; apply IH; exact E].
Qed.
Lemma nassoc_none : forall {X} n (l : list (N * X)), ~ In n (map fst l) -> nassoc n l = None.
Proof.
  induction l as [|[m y] r IH]; intro Hn; [reflexivity|]. cbn in *.
  destruct (m =? n) eqn:Em; [apply N.eqb_eq in Em; tauto|apply IH; tauto].
Qed.
Lemma nassoc_some_in : forall {X} n (l : list (N * X)), In n (map fst l) -> nassoc n l <> None.
Proof.
  induction l as [|[m y] r IH]; intro Hn; [contradiction|]. cbn in *.
  destruct (m =? n) eqn:Em; [discriminate|]. apply N.eqb_neq in Em. apply IH. tauto.
Qed.
Lemma nassoc_nodup : forall {X} n (l : list (N * X)) x, NoDup (map fst l) -> In (n, x) l -> nassoc n l = Some x.
Proof.
  induction l as [|[m y] r IH]; intros x ND Hin; [contradiction|]. cbn in *. inversion ND; subst.
  destruct Hin as [E|Hin].
  - inversion E; subst. rewrite N.eqb_refl. reflexivity.
  - destruct (m =? n) eqn:Em.
    + apply N.eqb_eq in Em. subst. exfalso. apply H1. apply (in_map fst) in Hin. exact Hin.
    + apply IH; assumption.
Qed.
Lemma nassoc_app : forall {X} n (l1 l2 : list (N * X)),
  nassoc n (l1 ++ l2) = match nassoc n l1 with Some x => Some x | None => nassoc n l2 end.
Proof.
  induction l1 as [|[m y] r IH]; intro l2; [reflexivity|]. cbn. destruct (m =? n); [reflexivity|apply IH].
Qed.

Section LISTS.
  Variable H : list N -> list N.
  Variable A : Type.
  Notation nodeA := (node A).
  Notation child := (child_of (node A)).
  Notation lhT := (list N -> list N -> list N).
  Notation kv := (kv A).

  (* ---------- children map ---------- *)
  Lemma cs_find_some : forall n (cs : list child) c, cs_find A n cs = Some c -> In c cs /\ c_nib c = n.
  Proof.
    intros n cs c E. unfold cs_find in E. apply find_some in E. destruct E as [E1 E2].
    apply N.eqb_eq in E2. tauto.
  Qed.
  Lemma cs_find_insert : forall n c (cs : list child),
    cs_find A n (cs_insert A c cs) = if c_nib c =? n then Some c else cs_find A n cs.
  Proof.
    intros n c cs. induction cs as [|d r IH]; cbn [cs_insert].
    - unfold cs_find. cbn. destruct (c_nib c =? n); reflexivity.
    - destruct (c_nib c <? c_nib d) eqn:E1.
      + unfold cs_find. cbn [find]. destruct (c_nib c =? n); reflexivity.
      + destruct (c_nib c =? c_nib d) eqn:E2.
        * apply N.eqb_eq in E2. unfold cs_find. cbn [find]. rewrite <- E2.
          destruct (c_nib c =? n); reflexivity.
        * unfold cs_find in *. cbn [find]. rewrite IH. apply N.eqb_neq in E2.
          destruct (c_nib d =? n) eqn:E3; [|reflexivity].
          apply N.eqb_eq in E3. destruct (c_nib c =? n) eqn:E4; [apply N.eqb_eq in E4; congruence|reflexivity].
  Qed.
  Lemma cs_insert_in : forall c (cs : list child) x, In x (cs_insert A c cs) -> x = c \/ In x cs.
  Proof.
    intros c cs. induction cs as [|d r IH]; intros x Hx; cbn [cs_insert] in Hx.
    - destruct Hx as [E|[]]. left. congruence.
    - destruct (c_nib c <? c_nib d); [destruct Hx as [E|Hx]; [left; congruence|right; exact Hx]|].
      destruct (c_nib c =? c_nib d).
      + destruct Hx as [E|Hx]; [left; congruence|right; right; exact Hx].
      + destruct Hx as [E|Hx]; [right; left; exact E|]. destruct (IH x Hx); [left; assumption|right; right; assumption].
  Qed.
  Lemma ssorted_insert : forall c (cs : list child), ssorted A cs -> ssorted A (cs_insert A c cs).
  Proof.
    intros c cs. induction cs as [|d r IH]; intro S; cbn [cs_insert].
    - cbn. auto.
    - destruct S as [S1 S2]. destruct (c_nib c <? c_nib d) eqn:E1.
      + apply N.ltb_lt in E1. cbn [ssorted]. repeat split; try assumption.
        constructor; [exact E1|]. eapply Forall_impl; [|exact S1]. cbn. intros. lia.
      + destruct (c_nib c =? c_nib d) eqn:E2.
        * apply N.eqb_eq in E2. cbn [ssorted]. split; [|exact S2]. rewrite E2. exact S1.
        * apply N.ltb_ge in E1. apply N.eqb_neq in E2. cbn [ssorted]. split; [|apply IH; exact S2].
          rewrite Forall_forall in *. intros x Hx. apply cs_insert_in in Hx. destruct Hx as [E|Hx]; [subst; lia|apply S1; exact Hx].
  Qed.
  Lemma Forall_insert : forall (P : child -> Prop) c cs, P c -> Forall P cs -> Forall P (cs_insert A c cs).
  Proof.
    intros P c cs Pc F. rewrite Forall_forall in *. intros x Hx. apply cs_insert_in in Hx.
    destruct Hx; [subst; exact Pc|apply F; assumption].
  Qed.
  Lemma cs_insert_length : forall c (cs : list child), (length cs <= length (cs_insert A c cs))%nat.
  Proof.
    intros c cs. induction cs as [|d r IH]; cbn [cs_insert]; [cbn; lia|].
    destruct (c_nib c <? c_nib d); [cbn; lia|]. destruct (c_nib c =? c_nib d); cbn; lia.
  Qed.

  Lemma cs_find_remove : forall n m (cs : list child),
    cs_find A n (cs_remove A m cs) = if n =? m then None else cs_find A n cs.
  Proof.
    intros n m cs. unfold cs_find, cs_remove. induction cs as [|d r IH]; cbn [filter find].
    - destruct (n =? m); reflexivity.
    - destruct (c_nib d =? m) eqn:E1; cbn [negb].
      + rewrite IH. apply N.eqb_eq in E1. destruct (n =? m) eqn:E2; [reflexivity|].
        apply N.eqb_neq in E2. destruct (c_nib d =? n) eqn:E3; [apply N.eqb_eq in E3; congruence|reflexivity].
      + cbn [find]. destruct (c_nib d =? n) eqn:E3.
        * apply N.eqb_eq in E3. apply N.eqb_neq in E1. destruct (n =? m) eqn:E2; [apply N.eqb_eq in E2; congruence|reflexivity].
        * exact IH.
  Qed.
  Lemma ssorted_remove : forall m (cs : list child), ssorted A cs -> ssorted A (cs_remove A m cs).
  Proof. intros. apply ssorted_filter. assumption. Qed.
  Lemma Forall_remove : forall (P : child -> Prop) m cs, Forall P cs -> Forall P (cs_remove A m cs).
  Proof.
    intros P m cs F. rewrite Forall_forall in *. intros x Hx. apply filter_In in Hx. apply F. tauto.
  Qed.

  Lemma cs_find_head : forall c (cs : list child), cs_find A (c_nib c) (c :: cs) = Some c.
  Proof. intros. unfold cs_find. cbn. rewrite N.eqb_refl. reflexivity. Qed.

  Lemma cs_find_in_sorted : forall (cs : list child) c, ssorted A cs -> In c cs -> cs_find A (c_nib c) cs = Some c.
  Proof.
    induction cs as [|d r IH]; intros c S Hin; [contradiction|]. destruct S as [S1 S2].
    destruct Hin as [E|Hin]; [subst; apply cs_find_head|].
    unfold cs_find. cbn [find]. rewrite Forall_forall in S1. specialize (S1 c Hin).
    destruct (c_nib d =? c_nib c) eqn:E; [apply N.eqb_eq in E; lia|]. apply IH; assumption.
  Qed.

  Lemma two_of_finds : forall (cs : list child) a b x y, a <> b ->
    cs_find A a cs = Some x -> cs_find A b cs = Some y -> two_leaves A cs.
  Proof.
    intros cs a b x y Hab Ea Eb. destruct cs as [|c [|d r]]; [discriminate| |exact I].
    apply cs_find_some in Ea. apply cs_find_some in Eb. cbn in Ea, Eb.
    destruct Ea as [[Ea|[]] Ea2]. destruct Eb as [[Eb|[]] Eb2]. congruence.
  Qed.

  (* ---------- key-value slices ---------- *)
  Fixpoint kv_get (k : list N) (kvs : list kv) : option (option (ldata A)) :=
    match kvs with
    | [] => None
    | (k', u) :: r => if leqb k k' then Some u else kv_get k r
    end.

  Fixpoint ksorted (kvs : list kv) : Prop :=
    match kvs with
    | [] => True
    | x :: r => Forall (fun y => lltb (fst x) (fst y) = true) r /\ ksorted r
    end.

  Lemma lltb_irrefl : forall a, lltb a a = false.
  Proof. induction a as [|x a IH]; [reflexivity|]. cbn. rewrite N.ltb_irrefl. exact IH. Qed.

  Lemma lltb_cons : forall n a m b, lltb (n :: a) (m :: b) = true -> n < m \/ (n = m /\ lltb a b = true).
  Proof.
    intros n a m b E. cbn in E. destruct (n <? m) eqn:E1; [apply N.ltb_lt in E1; left; exact E1|].
    destruct (m <? n) eqn:E2; [discriminate|]. apply N.ltb_ge in E1. apply N.ltb_ge in E2. right. split; [lia|exact E].
  Qed.

  Lemma kv_get_in : forall k kvs u, kv_get k kvs = Some u -> In (k, u) kvs.
  Proof.
    induction kvs as [|[k' u'] r IH]; intros u E; [discriminate|]. cbn in E.
    destruct (leqb k k') eqn:Ek; [apply leqb_eq in Ek; inversion E; subst; left; reflexivity|right; apply IH; exact E].
  Qed.
  Lemma kv_get_notin : forall k kvs, ~ In k (map fst kvs) -> kv_get k kvs = None.
  Proof.
    induction kvs as [|[k' u'] r IH]; intro Hn; [reflexivity|]. cbn in *.
    destruct (leqb k k') eqn:Ek; [apply leqb_eq in Ek; subst; exfalso; apply Hn; left; reflexivity|
      apply IH; intro Hin; apply Hn; right; exact Hin].
  Qed.

  (* groups *)
  Fixpoint gsorted (gs : list (N * list kv)) : Prop :=
    match gs with
    | [] => True
    | g :: r => Forall (fun h => fst g < fst h) r /\ gsorted r
    end.

  Lemma gsorted_nodup : forall gs, gsorted gs -> NoDup (map fst gs).
  Proof.
    induction gs as [|g r IH]; intro S; [constructor|]. destruct S as [S1 S2]. cbn. constructor; [|apply IH; exact S2].
    intro Hin. apply in_map_iff in Hin. destruct Hin as (h & E & Hh). rewrite Forall_forall in S1. specialize (S1 h Hh). lia.
  Qed.

  Definition head_nib (kvs : list kv) : option N :=
    match kvs with (n :: _, _) :: _ => Some n | _ => None end.

  Lemma groups_spec : forall kvs, ksorted kvs -> (forall x, In x kvs -> fst x <> []) ->
    exists gs, groups A kvs = Some gs /\ gsorted gs /\
      (forall n g, In (n, g) gs -> g <> [] /\ ksorted g /\ forall y, In y g -> In (n :: fst y, snd y) kvs) /\
      (forall n k', kv_get (n :: k') kvs = match nassoc n gs with Some g => kv_get k' g | None => None end) /\
      (match kvs with [] => gs = [] | _ => exists g gs', gs = (match head_nib kvs with Some n => n | None => 0 end, g) :: gs' end).
  Proof.
    induction kvs as [|[k u] rest IH]; intros KS NE.
    - exists []. cbn. repeat split; tauto.
    - destruct KS as [KS1 KS2].
      destruct (IH KS2 (fun x Hx => NE x (or_intror Hx))) as (gs & G0 & G1 & G2 & G3 & G4).
      destruct k as [|n k']; [exfalso; apply (NE ([], u)); [left; reflexivity|reflexivity]|].
      cbn [groups]. rewrite G0.
      destruct rest as [|[k2 u2] rest'].
      + subst gs. exists [(n, [(k', u)])]. split; [reflexivity|]. split; [cbn; auto|]. split; [|split].
        * intros m g [E|[]]. inversion E; subst. split; [discriminate|]. split; [cbn; auto|].
          intros y [Ey|[]]. subst y. left. reflexivity.
        * intros m j. cbn. destruct (n =? m) eqn:E.
          -- apply N.eqb_eq in E. subst. rewrite N.eqb_refl. cbn. destruct (leqb j k'); reflexivity.
          -- rewrite N.eqb_sym, E. reflexivity.
        * cbn. eauto.
      + destruct G4 as (g & gs' & Egs). subst gs.
        destruct k2 as [|m j2]; [exfalso; apply (NE ([], u2)); [right; left; reflexivity|reflexivity]|].
        cbn [head_nib] in *.
        assert (Hlt : lltb (n :: k') (m :: j2) = true).
        { inversion KS1; subst. assumption. }
        apply lltb_cons in Hlt.
        destruct (n =? m) eqn:Enm.
        * (* same run *)
          apply N.eqb_eq in Enm. subst m.
          destruct Hlt as [Hlt|[_ Hlt]]; [lia|].
          exists ((n, (k', u) :: g) :: gs'). split; [reflexivity|]. destruct G1 as [G1a G1b].
          split; [split; assumption|]. split; [|split].
          -- intros m h [E|Hin].
             ++ injection E as E1 E2. subst m h. destruct (G2 n g (or_introl eq_refl)) as (Gn1 & Gn2 & Gn3).
                split; [discriminate|]. split.
                ** cbn [ksorted]. split; [|exact Gn2]. rewrite Forall_forall. intros y Hy. cbn [fst].
                   specialize (Gn3 y Hy). rewrite Forall_forall in KS1. specialize (KS1 _ Gn3). cbn [fst] in KS1.
                   apply lltb_cons in KS1. destruct KS1 as [KS1|[_ KS1]]; [lia|exact KS1].
                ** intros y [Ey|Hy]; [subst y; left; reflexivity|right; apply Gn3; exact Hy].
             ++ destruct (G2 m h (or_intror Hin)) as (Gn1 & Gn2 & Gn3). split; [exact Gn1|]. split; [exact Gn2|].
                intros y Hy. right. apply Gn3. exact Hy.
          -- intros a b. cbn [kv_get leqb nassoc]. specialize (G3 a b). cbn [nassoc] in G3.
             destruct (n =? a) eqn:Ena.
             ++ apply N.eqb_eq in Ena. subst a. rewrite N.eqb_refl. cbn [andb kv_get].
                destruct (leqb b k'); [reflexivity|]. cbn [kv_get leqb] in G3. rewrite N.eqb_refl in G3. exact G3.
             ++ rewrite (N.eqb_sym a n), Ena. cbn [andb]. cbn [kv_get leqb] in G3.
                rewrite (N.eqb_sym a n), Ena in G3. exact G3.
          -- eauto.
        * (* new run *)
          apply N.eqb_neq in Enm. destruct Hlt as [Hlt|[Hlt _]]; [|contradiction].
          exists ((n, [(k', u)]) :: (m, g) :: gs'). split; [reflexivity|]. split; [|split; [|split]].
          -- cbn [gsorted]. split; [|exact G1]. destruct G1 as [G1a G1b]. constructor; [exact Hlt|].
             eapply Forall_impl; [|exact G1a]. cbn. intros. lia.
          -- intros a h [E|Hin].
             ++ injection E as E1 E2. subst a h. split; [discriminate|]. split; [cbn; auto|].
                intros y [Ey|[]]. subst y. left. reflexivity.
             ++ destruct (G2 a h Hin) as (Gn1 & Gn2 & Gn3). split; [exact Gn1|]. split; [exact Gn2|].
                intros y Hy. right. apply Gn3. exact Hy.
          -- intros a b. specialize (G3 a b). cbn [kv_get leqb nassoc] in G3 |- *.
             destruct (n =? a) eqn:Ena.
             ++ apply N.eqb_eq in Ena. subst a. rewrite N.eqb_refl. cbn [andb kv_get].
                destruct (leqb b k'); [reflexivity|]. rewrite G3.
                destruct (m =? n) eqn:Emn; [apply N.eqb_eq in Emn; lia|].
                rewrite nassoc_none; [reflexivity|]. intro Hin. destruct G1 as [G1a G1b].
                apply in_map_iff in Hin. destruct Hin as (h & Eh & Hh).
                rewrite Forall_forall in G1a. specialize (G1a h Hh). cbn [fst] in G1a. lia.
             ++ rewrite (N.eqb_sym a n), Ena. cbn [andb]. exact G3.
          -- eauto.
  Qed.
End LISTS.
