(* C28 — the Bech32m checksum the encoder appends always verifies (GF(2)-linearity of polymod_step
   in its low bits). *)
From Coq Require Import List NArith ZArith Bool Lia.
Import ListNotations.
Require Import RV.Model.C28_Bech32.
Open Scope N_scope.


(* x < 2^n, phrased with shifts *)
Definition small (n x : N) : Prop := N.shiftr x n = 0.

Lemma small_iff : forall n x, small n x <-> x < 2 ^ n.
Proof.
  intros n x. unfold small. rewrite N.shiftr_div_pow2.
  assert (2 ^ n <> 0) by (apply N.pow_nonzero; discriminate).
  split; intros H0.
  - apply N.div_small_iff in H0; assumption.
  - apply N.div_small_iff; assumption.
Qed.

Lemma small_lxor : forall n a b, small n a -> small n b -> small n (N.lxor a b).
Proof. intros n a b Ha Hb. unfold small in *. now rewrite N.shiftr_lxor, Ha, Hb. Qed.

Lemma small_mono : forall n m x, n <= m -> small n x -> small m x.
Proof.
  intros n m x L H. apply small_iff in H. apply small_iff.
  eapply N.lt_le_trans; [exact H|]. apply N.pow_le_mono_r; [discriminate|exact L].
Qed.

Lemma small_shiftl : forall n k x, small n x -> small (n + k) (N.shiftl x k).
Proof.
  intros n k x H. apply small_iff in H. apply small_iff.
  rewrite N.shiftl_mul_pow2, N.pow_add_r.
  apply N.mul_lt_mono_pos_r; [|exact H].
  assert (2 ^ k <> 0) by (apply N.pow_nonzero; discriminate). lia.
Qed.

Lemma small_const : forall n x, x <? 2 ^ n = true -> small n x.
Proof. intros n x H. apply small_iff. now apply N.ltb_lt. Qed.

Lemma land_lxor_distr : forall a b c, N.land (N.lxor a b) c = N.lxor (N.land a c) (N.land b c).
Proof.
  intros. apply N.bits_inj. intros n. rewrite N.land_spec, !N.lxor_spec, !N.land_spec.
  destruct (N.testbit a n), (N.testbit b n), (N.testbit c n); reflexivity.
Qed.

Lemma land_mask25 : forall x, small 25 x -> N.land x 0x1ffffff = x.
Proof.
  intros x H. change 0x1ffffff with (N.ones 25). rewrite N.land_ones.
  apply N.mod_small. now apply small_iff.
Qed.
Lemma land_mask25_small : forall c, small 25 (N.land c 0x1ffffff).
Proof.
  intros c. change 0x1ffffff with (N.ones 25). rewrite N.land_ones. apply small_iff.
  apply N.mod_lt. discriminate.
Qed.

(* the five conditional xors with the generator *)
Definition apply_gen (b a : N) : N :=
  let c := a in
  let c := if N.testbit b 0 then N.lxor c G0 else c in
  let c := if N.testbit b 1 then N.lxor c G1 else c in
  let c := if N.testbit b 2 then N.lxor c G2 else c in
  let c := if N.testbit b 3 then N.lxor c G3 else c in
  let c := if N.testbit b 4 then N.lxor c G4 else c in
  c.

Lemma step_apply_gen : forall c v,
  polymod_step c v = apply_gen (N.shiftr c 25) (N.lxor (N.shiftl (N.land c 0x1ffffff) 5) v).
Proof. reflexivity. Qed.

Lemma cond_xor : forall (t : bool) a y g,
  (if t then N.lxor (N.lxor a y) g else N.lxor a y) = N.lxor (if t then N.lxor a g else a) y.
Proof.
  intros [] a y g; [|reflexivity].
  rewrite !N.lxor_assoc. f_equal. apply N.lxor_comm.
Qed.

Lemma apply_gen_xor : forall b a y, apply_gen b (N.lxor a y) = N.lxor (apply_gen b a) y.
Proof. intros b a y. unfold apply_gen. cbv zeta. now rewrite !cond_xor. Qed.

Lemma cond_small : forall n (t : bool) a g, small n a -> small n g ->
  small n (if t then N.lxor a g else a).
Proof. intros n [] a g Ha Hg; [apply small_lxor; assumption|assumption]. Qed.

Lemma apply_gen_small : forall b a, small 30 a -> small 30 (apply_gen b a).
Proof.
  intros b a H. unfold apply_gen. cbv zeta.
  repeat apply cond_small; try exact H; apply small_const; reflexivity.
Qed.

Lemma step_small : forall c v, small 30 v -> small 30 (polymod_step c v).
Proof.
  intros c v H. rewrite step_apply_gen. apply apply_gen_small. apply small_lxor; [|exact H].
  apply (small_shiftl 25 5). apply land_mask25_small.
Qed.

(* the value fed in is xored into the low bits *)
Lemma step_v : forall c v, polymod_step c v = N.lxor (polymod_step c 0) v.
Proof.
  intros c v. rewrite !step_apply_gen, <- apply_gen_xor. f_equal. now rewrite N.lxor_0_r.
Qed.

(* a perturbation below bit 25 is simply shifted up by the step *)
Lemma step_xor : forall c x v, small 25 x ->
  polymod_step (N.lxor c x) v = N.lxor (polymod_step c v) (N.shiftl x 5).
Proof.
  intros c x v H. rewrite !step_apply_gen.
  rewrite N.shiftr_lxor. unfold small in H. rewrite H, N.lxor_0_r.
  rewrite land_lxor_distr, (land_mask25 x H), N.shiftl_lxor.
  rewrite <- apply_gen_xor. f_equal.
  rewrite !N.lxor_assoc. f_equal. apply N.lxor_comm.
Qed.

Definition z (c : N) : N := polymod_step c 0.

Lemma step_acc : forall C X w, small 25 X ->
  polymod_step (N.lxor C X) w = N.lxor (z C) (N.lxor w (N.shiftl X 5)).
Proof.
  intros C X w H. rewrite step_xor by exact H. rewrite step_v. unfold z. now rewrite N.lxor_assoc.
Qed.

Lemma small_acc : forall n w X, small 5 w -> small n X -> small (n + 5) (N.lxor w (N.shiftl X 5)).
Proof.
  intros n w X Hw HX. apply small_lxor; [|apply small_shiftl; exact HX].
  apply (small_mono 5); [lia|exact Hw].
Qed.

Lemma six_steps : forall c w1 w2 w3 w4 w5 w6,
  small 5 w1 -> small 5 w2 -> small 5 w3 -> small 5 w4 -> small 5 w5 ->
  polymod_from c [w1; w2; w3; w4; w5; w6] =
  N.lxor (z (z (z (z (z (z c))))))
    (N.lxor w6 (N.shiftl (N.lxor w5 (N.shiftl (N.lxor w4 (N.shiftl (N.lxor w3 (N.shiftl
      (N.lxor w2 (N.shiftl w1 5)) 5)) 5)) 5)) 5)).
Proof.
  intros c w1 w2 w3 w4 w5 w6 H1 H2 H3 H4 H5.
  unfold polymod_from. cbn [fold_left].
  rewrite (step_v c w1). fold (z c).
  pose proof (small_acc 5 w2 w1 H2 H1) as S2. cbn in S2.
  pose proof (small_acc 10 w3 _ H3 S2) as S3. cbn in S3.
  pose proof (small_acc 15 w4 _ H4 S3) as S4. cbn in S4.
  pose proof (small_acc 20 w5 _ H5 S4) as S5. cbn in S5.
  rewrite step_acc by (apply (small_mono 5); [lia|exact H1]).
  rewrite step_acc by (apply (small_mono 10); [lia|exact S2]).
  rewrite step_acc by (apply (small_mono 15); [lia|exact S3]).
  rewrite step_acc by (apply (small_mono 20); [lia|exact S4]).
  rewrite step_acc by exact S5.
  reflexivity.
Qed.

Lemma xor_is_add : forall w X, small 5 w -> N.lxor w (N.shiftl X 5) = w + X * 32.
Proof.
  intros w X H. rewrite <- N.add_nocarry_lxor.
  - now rewrite N.shiftl_mul_pow2.
  - apply N.bits_inj. intros n. rewrite N.land_spec, N.bits_0.
    destruct (N.lt_ge_cases n 5) as [L|L].
    + rewrite (N.shiftl_spec_low X 5 n L). apply andb_false_r.
    + replace (N.testbit w n) with false; [reflexivity|].
      replace n with ((n - 5) + 5) by lia. rewrite <- N.shiftr_spec by apply N.le_0_l.
      unfold small in H. rewrite H. now rewrite N.bits_0.
Qed.

Lemma digit_small : forall p k, small 5 (N.land (N.shiftr p k) 0x1f).
Proof.
  intros p k. change 0x1f with (N.ones 5). rewrite N.land_ones. apply small_iff.
  apply N.mod_lt. discriminate.
Qed.

Lemma digits_recompose : forall p, small 30 p ->
  let d k := N.land (N.shiftr p k) 0x1f in
  N.lxor (d 0) (N.shiftl (N.lxor (d 5) (N.shiftl (N.lxor (d 10) (N.shiftl (N.lxor (d 15) (N.shiftl
      (N.lxor (d 20) (N.shiftl (d 25) 5)) 5)) 5)) 5)) 5) = p.
Proof.
  intros p H d. apply small_iff in H.
  rewrite !xor_is_add by apply digit_small.
  unfold d. change 0x1f with (N.ones 5). rewrite !N.land_ones, !N.shiftr_div_pow2.
  change (2 ^ 0) with 1. change (2 ^ 5) with 32. change (2 ^ 10) with 1024.
  change (2 ^ 15) with 32768. change (2 ^ 20) with 1048576. change (2 ^ 25) with 33554432.
  change (2 ^ 30) with 1073741824 in H.
  rewrite N.div_1_r.
  replace (p / 1024) with (p / 32 / 32) by (rewrite N.div_div by discriminate; reflexivity).
  replace (p / 32768) with (p / 32 / 32 / 32) by (rewrite !N.div_div by discriminate; reflexivity).
  replace (p / 1048576) with (p / 32 / 32 / 32 / 32) by (rewrite !N.div_div by discriminate; reflexivity).
  replace (p / 33554432) with (p / 32 / 32 / 32 / 32 / 32) by (rewrite !N.div_div by discriminate; reflexivity).
  clear d.
  set (q1 := p / 32). set (q2 := q1 / 32). set (q3 := q2 / 32). set (q4 := q3 / 32). set (q5 := q4 / 32).
  pose proof (N.div_mod' p 32) as E0. pose proof (N.mod_lt p 32 ltac:(discriminate)) as L0.
  pose proof (N.div_mod' q1 32) as E1. pose proof (N.mod_lt q1 32 ltac:(discriminate)) as L1.
  pose proof (N.div_mod' q2 32) as E2. pose proof (N.mod_lt q2 32 ltac:(discriminate)) as L2.
  pose proof (N.div_mod' q3 32) as E3. pose proof (N.mod_lt q3 32 ltac:(discriminate)) as L3.
  pose proof (N.div_mod' q4 32) as E4. pose proof (N.mod_lt q4 32 ltac:(discriminate)) as L4.
  fold q1 in E0. fold q2 in E1. fold q3 in E2. fold q4 in E3. fold q5 in E4.
  set (r0 := p mod 32) in *. set (r1 := q1 mod 32) in *. set (r2 := q2 mod 32) in *.
  set (r3 := q3 mod 32) in *. set (r4 := q4 mod 32) in *.
  clearbody r0 r1 r2 r3 r4. clearbody q5. clearbody q4. clearbody q3. clearbody q2. clearbody q1.
  assert (q5 < 32) as Q5 by lia.
  rewrite (N.mod_small q5 32 Q5). lia.
Qed.

Theorem checksum_from_state : forall c m, small 30 m ->
  polymod_from c (checksum_of c m) = m.
Proof.
  intros c m Hm. unfold checksum_of.
  set (zc := polymod_from c [0; 0; 0; 0; 0; 0]).
  assert (zc = z (z (z (z (z (z c)))))) as Ez
    by (unfold zc, polymod_from, z; cbn [fold_left]; reflexivity).
  set (plm := N.lxor zc m).
  assert (small 30 plm) as Hp.
  { apply small_lxor; [|exact Hm]. rewrite Ez. unfold z. apply step_small. reflexivity. }
  cbn [map]. change (5 * (5 - 0)) with 25. change (5 * (5 - 1)) with 20. change (5 * (5 - 2)) with 15.
  change (5 * (5 - 3)) with 10. change (5 * (5 - 4)) with 5. change (5 * (5 - 5)) with 0.
  rewrite six_steps by apply digit_small.
  rewrite (digits_recompose plm Hp). rewrite <- Ez. unfold plm.
  rewrite <- N.lxor_assoc, N.lxor_nilpotent. apply N.lxor_0_l.
Qed.

Lemma polymod_from_app : forall c a b, polymod_from c (a ++ b) = polymod_from (polymod_from c a) b.
Proof. intros. unfold polymod_from. apply fold_left_app. Qed.

(* the checksum written by Bech32Writer verifies as Bech32m, for every HRP and data *)
Theorem checksum_verifies : forall hrp data,
  verify_checksum hrp
    (data ++ checksum_of (polymod_from (polymod_from 1 (hrp_expand hrp)) data) BECH32M_CONST)
  = Some true.
Proof.
  intros hrp data. unfold verify_checksum, polymod.
  rewrite !polymod_from_app. rewrite checksum_from_state by (apply small_const; reflexivity).
  reflexivity.
Qed.
