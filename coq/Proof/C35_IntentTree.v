(* C35 — proofs about the model coq/Model/C35_IntentTree.v.
   Outline: STEP 1 = NoDup of the hashes; STEP 2 is a sequential pass over the declared (parent, child)
   edges with invariant Inv2 (parents assigned = exactly the processed edges; success iff all targets
   present and pairwise distinct); STEP 3 is analysed on the index graph with invariant Inv3
   (visited/work-list disjoint and duplicate free, closed under children, marked depth = path length,
   fuel accounting); translation lemmas T1/T2 connect index paths and `depth_of`; the yield loop is
   related to `yields_match` through the unique parent of every subintent. *)
From Coq Require Import List NArith Bool Lia PeanoNat Arith.
Import ListNotations.
Require Import RV.Model.C35_IntentTree.
Open Scope N_scope.

(* ---------- basics ---------- *)
Lemma ihash_eqb_eq : forall a b, ihash_eqb a b = true <-> a = b.
Proof.
  intros [x|x] [y|y]; cbn; split; intro H; try discriminate; try congruence.
  - apply N.eqb_eq in H; congruence.
  - inversion H; apply N.eqb_refl.
  - apply N.eqb_eq in H; congruence.
  - inversion H; apply N.eqb_refl.
Qed.
Lemma ihash_eqb_refl : forall a, ihash_eqb a a = true.
Proof. intro a; apply ihash_eqb_eq; reflexivity. Qed.
Lemma ihash_eqb_neq : forall a b, ihash_eqb a b = false <-> a <> b.
Proof.
  intros a b; destruct (ihash_eqb a b) eqn:E; split; intro H; try discriminate; try reflexivity.
  - apply ihash_eqb_eq in E; contradiction.
  - intro E'; apply ihash_eqb_eq in E'; congruence.
Qed.

Lemma upd_length : forall A i (x : A) l, length (upd i x l) = length l.
Proof. intros A i x l; revert i; induction l as [|y r IH]; intros [|i]; cbn; auto. Qed.
Lemma nth_error_upd_same : forall A i (x : A) l, (i < length l)%nat -> nth_error (upd i x l) i = Some x.
Proof.
  intros A i x l; revert i; induction l as [|y r IH]; intros [|i] H; cbn in *; try lia; auto.
  apply IH; lia.
Qed.
Lemma nth_error_upd_other : forall A i j (x : A) l, i <> j -> nth_error (upd i x l) j = nth_error l j.
Proof.
  intros A i j x l; revert i j; induction l as [|y r IH]; intros [|i] [|j] H; cbn; auto; try congruence.
Qed.

Lemma index_of_Some : forall h l i, index_of h l = Some i -> nth_error l i = Some h.
Proof.
  intros h l; induction l as [|x r IH]; intros i H; cbn in *; try discriminate.
  destruct (h =? x) eqn:E.
  - inversion H; subst; cbn. apply N.eqb_eq in E; congruence.
  - destruct (index_of h r) as [j|]; cbn in H; try discriminate. inversion H; subst; cbn; auto.
Qed.
Lemma index_of_In : forall h l, In h l -> exists i, index_of h l = Some i.
Proof.
  intros h l; induction l as [|x r IH]; intros H; cbn in *; [tauto|].
  destruct (h =? x) eqn:E; [eauto|].
  apply N.eqb_neq in E. destruct H as [H|H]; [congruence|].
  destruct (IH H) as [i Hi]; rewrite Hi; cbn; eauto.
Qed.
Lemma index_of_None : forall h l, index_of h l = None -> ~ In h l.
Proof.
  intros h l H Hin. destruct (index_of_In _ _ Hin) as [i Hi]; congruence.
Qed.
Lemma nth_error_In' : forall A (l : list A) i x, nth_error l i = Some x -> In x l.
Proof. intros; eapply nth_error_In; eauto. Qed.
Lemma index_of_nth : forall l i h, NoDup l -> nth_error l i = Some h -> index_of h l = Some i.
Proof.
  induction l as [|x r IH]; intros [|i] h ND H; cbn in *; try discriminate.
  - inversion H; subst. rewrite N.eqb_refl; reflexivity.
  - inversion ND; subst. destruct (h =? x) eqn:E.
    + apply N.eqb_eq in E; subst. exfalso. apply H2. eapply nth_error_In; eauto.
    + rewrite (IH i h H3 H); reflexivity.
Qed.
Lemma index_of_lt : forall h l i, index_of h l = Some i -> (i < length l)%nat.
Proof. intros h l i H. apply index_of_Some in H. apply nth_error_Some. congruence. Qed.

Definition pos (hs : list N) (c : N) : nat := match index_of c hs with Some i => i | None => O end.
Lemma pos_nth : forall hs c, In c hs -> nth_error hs (pos hs c) = Some c.
Proof.
  intros hs c H; unfold pos. destruct (index_of_In _ _ H) as [i Hi]; rewrite Hi.
  apply index_of_Some; auto.
Qed.
Lemma pos_of_nth : forall hs i h, NoDup hs -> nth_error hs i = Some h -> pos hs h = i.
Proof. intros hs i h ND H; unfold pos; rewrite (index_of_nth _ _ _ ND H); reflexivity. Qed.
Lemma pos_lt : forall hs c, In c hs -> (pos hs c < length hs)%nat.
Proof. intros hs c H. apply nth_error_Some. rewrite pos_nth; auto; discriminate. Qed.
Lemma pos_inj : forall hs a b, In a hs -> In b hs -> pos hs a = pos hs b -> a = b.
Proof.
  intros hs a b Ha Hb E. pose proof (pos_nth _ _ Ha) as H1. pose proof (pos_nth _ _ Hb) as H2.
  rewrite E in H1; congruence.
Qed.

Lemma NoDup_app_iff : forall A (a b : list A),
  NoDup (a ++ b) <-> NoDup a /\ NoDup b /\ (forall x, In x a -> ~ In x b).
Proof.
  intros A a b; induction a as [|x a IH]; cbn.
  - split; [intro H; repeat split; auto; constructor | tauto].
  - split.
    + intro H; inversion H as [|? ? Hn Hd]; subst. apply IH in Hd. destruct Hd as (Ha & Hb & Hx).
      rewrite in_app_iff in Hn. repeat split; auto.
      * constructor; tauto.
      * intros y [Hy|Hy]; subst; auto.
    + intros (Ha & Hb & Hx). inversion Ha as [|? ? Hn Hd]; subst. constructor.
      * rewrite in_app_iff. intros [H|H]; [tauto|]. eapply Hx; eauto.
      * apply IH; repeat split; auto.
Qed.
Lemma NoDup_map_inj_in : forall A B (f : A -> B) l,
  (forall x y, In x l -> In y l -> f x = f y -> x = y) -> NoDup l -> NoDup (map f l).
Proof.
  intros A B f l; induction l as [|x r IH]; intros Hinj ND; cbn; [constructor|].
  inversion ND; subst. constructor.
  - rewrite in_map_iff. intros (y & Hy & Hin). apply Hinj in Hy; cbn; auto. subst; tauto.
  - apply IH; auto. intros; apply Hinj; cbn; auto.
Qed.
Lemma NoDup_map_inv' : forall A B (f : A -> B) l, NoDup (map f l) -> NoDup l.
Proof. intros; eapply NoDup_map_inv; eauto. Qed.
Lemma count_occ_NoDup_le : forall l (h : N), NoDup l -> (count_occ N.eq_dec l h <= 1)%nat.
Proof. intros l h ND. apply (proj1 (NoDup_count_occ N.eq_dec l) ND). Qed.

(* ---------- STEP 1 ---------- *)
Lemma mem_In : forall h l, mem h l = true <-> In h l.
Proof.
  intros h l; unfold mem; rewrite existsb_exists; split.
  - intros (x & Hx & E); apply N.eqb_eq in E; subst; auto.
  - intro H; exists h; split; auto; apply N.eqb_refl.
Qed.
Lemma first_dup_None : forall hs i seen,
  first_dup hs i seen = None <-> NoDup hs /\ (forall h, In h hs -> ~ In h seen).
Proof.
  induction hs as [|h r IH]; intros i seen; cbn.
  - split; [intros _; split; [constructor|tauto] | reflexivity].
  - destruct (mem h seen) eqn:E.
    + apply mem_In in E. split; [discriminate|]. intros (_ & H). exfalso. eapply H; eauto.
    + assert (Hn : ~ In h seen) by (intro H; apply mem_In in H; congruence).
      rewrite IH. split.
      * intros (ND & H). split.
        -- constructor; auto. intro Hin. apply (H h Hin). left; reflexivity.
        -- intros x [Hx|Hx]; subst; auto. intro Hs. apply (H x Hx). right; auto.
      * intros (ND & H). inversion ND; subst. split; auto.
        intros x Hx [Hs|Hs]; subst; auto. eapply H; eauto.
Qed.

(* ---------- STEP 2 ---------- *)
Definition edge := (ihash * N)%type.
Definition edges_of_subs (subs : list sub) : list edge :=
  flat_map (fun s => map (pair (ISub (s_hash s))) (i_children (s_intent s))) subs.
Definition edges (t : tree) : list edge :=
  map (pair (t_root_hash t)) (i_children (t_root t)) ++ edges_of_subs (t_subs t).

Lemma map_snd_pair : forall (p : ihash) (cs : list N), map snd (map (pair p) cs) = cs.
Proof. intros p cs; induction cs; cbn; congruence. Qed.
Lemma map_snd_edges_of_subs : forall subs,
  map snd (edges_of_subs subs) = flat_map (fun s => i_children (s_intent s)) subs.
Proof.
  unfold edges_of_subs. induction subs as [|s r IH]; cbn; auto.
  rewrite map_app, map_snd_pair, IH; reflexivity.
Qed.
Lemma map_snd_edges : forall t, map snd (edges t) = declared t.
Proof. intro t; unfold edges, declared. rewrite map_app, map_snd_pair, map_snd_edges_of_subs; reflexivity. Qed.

Record Inv2 (hs : list N) (P : list edge) (ps : list ihash) : Prop := {
  i2_len : length ps = length hs;
  i2_nodup : NoDup (map snd P);
  i2_incl : forall c, In c (map snd P) -> In c hs;
  i2_src : forall p c, In (p, c) P -> p <> PLACEHOLDER;
  i2_free : forall i h, nth_error hs i = Some h -> ~ In h (map snd P) -> nth_error ps i = Some PLACEHOLDER;
  i2_set : forall i h, nth_error hs i = Some h -> In h (map snd P) ->
           exists p, nth_error ps i = Some p /\ In (p, h) P
}.
Definition good (hs : list N) (P : list edge) : Prop :=
  NoDup (map snd P) /\ forall c, In c (map snd P) -> In c hs.
Definition is_reject (o : outcome) : Prop := exists e l, o = Reject e l.

Lemma good_prefix : forall hs A B, good hs (A ++ B) -> good hs A.
Proof.
  intros hs A B (ND & Hin). rewrite map_app in *. apply NoDup_app_iff in ND. split; [tauto|].
  intros c Hc; apply Hin; rewrite in_app_iff; auto.
Qed.
Lemma Inv2_good : forall hs P ps, Inv2 hs P ps -> good hs P.
Proof. intros hs P ps [? ? ? ? ? ?]; split; auto. Qed.

Lemma assign_spec : forall hs P ps parent c acc,
  NoDup hs -> parent <> PLACEHOLDER -> Inv2 hs P ps ->
  match assign hs parent c (ps, acc) with
  | inr (ps', acc') => Inv2 hs (P ++ [(parent, c)]) ps' /\ acc' = acc ++ [pos hs c]
  | inl e => is_reject e /\ ~ good hs (P ++ [(parent, c)])
  end.
Proof.
  intros hs P ps parent c acc ND Hpar I. unfold assign.
  destruct (index_of c hs) as [i|] eqn:E.
  - pose proof (index_of_Some _ _ _ E) as Hc. pose proof (index_of_lt _ _ _ E) as Hlt.
    assert (Hpos : pos hs c = i) by (unfold pos; rewrite E; reflexivity).
    destruct (in_dec N.eq_dec c (map snd P)) as [Hin|Hnin].
    + destruct (i2_set _ _ _ I i c Hc Hin) as (p & Hp & HpP). rewrite Hp.
      pose proof (i2_src _ _ _ I _ _ HpP) as Hne. apply ihash_eqb_neq in Hne. rewrite Hne.
      split; [eexists; eexists; reflexivity|].
      intros (ND' & _). rewrite map_app in ND'. cbn in ND'. apply NoDup_app_iff in ND'.
      destruct ND' as (_ & _ & Hd). apply (Hd c Hin). left; reflexivity.
    + rewrite (i2_free _ _ _ I i c Hc Hnin). rewrite ihash_eqb_refl. split; [|rewrite Hpos; reflexivity].
      constructor.
      * rewrite upd_length. apply (i2_len _ _ _ I).
      * rewrite map_app; cbn. apply NoDup_app_iff. repeat split.
        -- apply (i2_nodup _ _ _ I).
        -- constructor; [tauto|constructor].
        -- intros x Hx [Hx'|[]]; subst; tauto.
      * intros x Hx. rewrite map_app, in_app_iff in Hx. cbn in Hx. destruct Hx as [Hx|[Hx|[]]].
        -- apply (i2_incl _ _ _ I); auto.
        -- subst. eapply nth_error_In; eauto.
      * intros p x Hx. rewrite in_app_iff in Hx. cbn in Hx. destruct Hx as [Hx|[Hx|[]]].
        -- eapply (i2_src _ _ _ I); eauto.
        -- inversion Hx; subst; auto.
      * intros j h Hj Hn. rewrite map_app, in_app_iff in Hn. cbn in Hn.
        assert (j <> i).
        { intro; subst j. rewrite Hc in Hj. inversion Hj; subst. tauto. }
        rewrite nth_error_upd_other; auto. apply (i2_free _ _ _ I j h); tauto.
      * intros j h Hj Hn. rewrite map_app, in_app_iff in Hn. cbn in Hn.
        destruct (Nat.eq_dec j i) as [->|Hji].
        -- rewrite Hc in Hj. inversion Hj; subst h.
           exists parent. split.
           ++ apply nth_error_upd_same. rewrite (i2_len _ _ _ I); auto.
           ++ rewrite in_app_iff; right; left; reflexivity.
        -- assert (h <> c).
           { intro; subst h. apply Hji. pose proof (index_of_nth _ _ _ ND Hj). congruence. }
           destruct Hn as [Hn|[Hn|[]]]; [|congruence].
           destruct (i2_set _ _ _ I j h Hj Hn) as (p & Hp & HpP). exists p. split.
           ++ rewrite nth_error_upd_other; auto.
           ++ rewrite in_app_iff; auto.
  - split; [eexists; eexists; reflexivity|].
    intros (_ & Hin). apply (index_of_None _ _ E). apply Hin. rewrite map_app, in_app_iff; right; left; reflexivity.
Qed.

Lemma assign_all_spec : forall hs parent cs P ps acc,
  NoDup hs -> parent <> PLACEHOLDER -> Inv2 hs P ps ->
  match assign_all hs parent cs (ps, acc) with
  | inr (ps', acc') => Inv2 hs (P ++ map (pair parent) cs) ps' /\ acc' = acc ++ map (pos hs) cs
  | inl e => is_reject e /\ ~ good hs (P ++ map (pair parent) cs)
  end.
Proof.
  intros hs parent cs; induction cs as [|c r IH]; intros P ps acc ND Hpar I; cbn [assign_all map].
  - rewrite !app_nil_r; auto.
  - pose proof (assign_spec hs P ps parent c acc ND Hpar I) as HA.
    destruct (assign hs parent c (ps, acc)) as [e|[ps1 acc1]].
    + destruct HA as (Hr & Hg). split; auto. intro G. apply Hg.
      replace (P ++ (parent, c) :: map (pair parent) r) with ((P ++ [(parent, c)]) ++ map (pair parent) r) in G
        by (rewrite <- app_assoc; reflexivity).
      eapply good_prefix; eauto.
    + destruct HA as (I1 & Hacc). specialize (IH _ _ acc1 ND Hpar I1).
      replace (P ++ (parent, c) :: map (pair parent) r) with ((P ++ [(parent, c)]) ++ map (pair parent) r)
        by (rewrite <- app_assoc; reflexivity).
      destruct (assign_all hs parent r (ps1, acc1)) as [e|[ps2 acc2]]; auto.
      destruct IH as (I2 & Hacc2). split; auto. subst. rewrite <- app_assoc; reflexivity.
Qed.

Lemma step2b_spec : forall hs subs P ps chs,
  NoDup hs -> Inv2 hs P ps -> NoDup (map s_hash subs) -> incl (map s_hash subs) hs ->
  length chs = length hs ->
  match step2b hs subs ps chs with
  | inr (ps', chs') =>
      Inv2 hs (P ++ edges_of_subs subs) ps' /\ length chs' = length hs /\
      (forall s, In s subs ->
         nth_error chs' (pos hs (s_hash s)) = Some (map (pos hs) (i_children (s_intent s)))) /\
      (forall k, (forall s, In s subs -> pos hs (s_hash s) <> k) -> nth_error chs' k = nth_error chs k)
  | inl e => is_reject e /\ ~ good hs (P ++ edges_of_subs subs)
  end.
Proof.
  intros hs subs; induction subs as [|s r IH]; intros P ps chs ND I NDs Hincl Hlen; cbn [step2b].
  - unfold edges_of_subs; cbn. rewrite app_nil_r. split; [auto|split; [auto|split; [intros s []|auto]]].
  - assert (Hpar : ISub (s_hash s) <> PLACEHOLDER) by discriminate.
    pose proof (assign_all_spec hs _ (i_children (s_intent s)) P ps [] ND Hpar I) as HA.
    assert (Eedges : forall Q, Q ++ edges_of_subs (s :: r) =
             (Q ++ map (pair (ISub (s_hash s))) (i_children (s_intent s))) ++ edges_of_subs r).
    { intro Q. unfold edges_of_subs; cbn. rewrite app_assoc; reflexivity. }
    destruct (assign_all hs (ISub (s_hash s)) (i_children (s_intent s)) (ps, [])) as [e|[ps1 acc1]].
    + destruct HA as (Hr & Hg). split; auto. intro G. apply Hg. rewrite Eedges in G.
      eapply good_prefix; eauto.
    + destruct HA as (I1 & Hacc). cbn in Hacc. subst acc1.
      assert (Hs : In (s_hash s) hs) by (apply Hincl; left; reflexivity).
      destruct (index_of_In _ _ Hs) as [k Hk]. rewrite Hk.
      assert (Hposk : pos hs (s_hash s) = k) by (unfold pos; rewrite Hk; reflexivity).
      pose proof (index_of_lt _ _ _ Hk) as Hklt.
      cbn [map] in NDs. apply NoDup_cons_iff in NDs. destruct NDs as (Hnin & NDr).
      assert (Hincl' : incl (map s_hash r) hs) by (intros x Hx; apply Hincl; right; auto).
      assert (Hlen' : length (upd k (map (pos hs) (i_children (s_intent s))) chs) = length hs)
        by (rewrite upd_length; auto).
      specialize (IH _ _ _ ND I1 NDr Hincl' Hlen').
      destruct (step2b hs r ps1 (upd k (map (pos hs) (i_children (s_intent s))) chs)) as [e|[ps2 chs2]].
      * destruct IH as (Hr & Hg). split; auto. rewrite Eedges; auto.
      * destruct IH as (I2 & Hl2 & Hin2 & Hout2). rewrite Eedges.
        split; [auto|split; [auto|split]].
        -- intros s' [Hs'|Hs'].
           ++ subst s'. rewrite Hout2.
              ** rewrite Hposk. apply nth_error_upd_same. lia.
              ** intros s'' Hs'' E. apply Hnin.
                 assert (s_hash s'' = s_hash s).
                 { apply (pos_inj hs); auto. apply Hincl'. apply in_map; auto. }
                 rewrite <- H. apply in_map; auto.
           ++ apply Hin2; auto.
        -- intros k' Hk'. rewrite Hout2.
           ++ apply nth_error_upd_other. intro; subst k'. apply (Hk' s); [left; reflexivity|auto].
           ++ intros s' Hs'. apply Hk'. right; auto.
Qed.

Lemma nth_error_repeat' : forall A (a : A) n i, (i < n)%nat -> nth_error (repeat a n) i = Some a.
Proof. intros A a n; induction n as [|n IH]; intros [|i] H; cbn; try lia; auto. apply IH; lia. Qed.
Lemma nth_error_ext' : forall A (l l' : list A), (forall i, nth_error l i = nth_error l' i) -> l = l'.
Proof.
  intros A l; induction l as [|x r IH]; intros [|y r'] H; auto.
  - specialize (H O); discriminate.
  - specialize (H O); discriminate.
  - pose proof (H O) as H0; cbn in H0; inversion H0; subst. f_equal. apply IH. intro i. apply (H (S i)).
Qed.

Lemma Inv2_init : forall hs, Inv2 hs [] (repeat PLACEHOLDER (length hs)).
Proof.
  intro hs. constructor; cbn.
  - apply repeat_length.
  - constructor.
  - tauto.
  - tauto.
  - intros i h Hi _. apply nth_error_repeat'. apply nth_error_Some; congruence.
  - tauto.
Qed.

Definition chs_of (t : tree) : list (list nat) :=
  map (fun s => map (pos (hashes_of t)) (i_children (s_intent s))) (t_subs t).
Definition rootch_of (t : tree) : list nat := map (pos (hashes_of t)) (i_children (t_root t)).

Lemma step2_spec : forall t, NoDup (hashes_of t) -> t_root_hash t <> PLACEHOLDER ->
  match assign_all (hashes_of t) (t_root_hash t) (i_children (t_root t))
                   (repeat PLACEHOLDER (length (hashes_of t)), []) with
  | inl e => is_reject e /\ ~ good (hashes_of t) (edges t)
  | inr (ps1, rootch) =>
    match step2b (hashes_of t) (t_subs t) ps1 (repeat [] (length (hashes_of t))) with
    | inl e => is_reject e /\ ~ good (hashes_of t) (edges t)
    | inr (ps, chs) => Inv2 (hashes_of t) (edges t) ps /\ rootch = rootch_of t /\ chs = chs_of t
    end
  end.
Proof.
  intros t ND Hroot. set (hs := hashes_of t) in *.
  pose proof (assign_all_spec hs (t_root_hash t) (i_children (t_root t)) [] _ [] ND Hroot (Inv2_init hs)) as HA.
  cbn [app] in HA.
  destruct (assign_all hs (t_root_hash t) (i_children (t_root t)) (repeat PLACEHOLDER (length hs), []))
    as [e|[ps1 rootch]].
  - destruct HA as (Hr & Hg). split; auto. intro G. apply Hg. unfold edges in G. eapply good_prefix; eauto.
  - destruct HA as (I1 & Hacc).
    assert (Hlen : length (repeat (@nil nat) (length hs)) = length hs) by apply repeat_length.
    pose proof (step2b_spec hs (t_subs t) _ ps1 _ ND I1 ND (incl_refl _) Hlen) as HB.
    destruct (step2b hs (t_subs t) ps1 (repeat [] (length hs))) as [e|[ps chs]].
    + exact HB.
    + destruct HB as (I2 & Hl2 & Hin2 & _). split; [exact I2|]. split; [exact Hacc|].
      apply nth_error_ext'. intro i. unfold chs_of. fold hs.
      destruct (nth_error (t_subs t) i) as [s|] eqn:Es.
      * rewrite (map_nth_error _ _ _ Es).
        assert (Hh : nth_error hs i = Some (s_hash s)) by (unfold hs, hashes_of; apply map_nth_error; auto).
        rewrite <- (pos_of_nth hs i (s_hash s) ND Hh). apply Hin2. eapply nth_error_In; eauto.
      * assert (nth_error (map (fun s => map (pos hs) (i_children (s_intent s))) (t_subs t)) i = None) as ->.
        { apply nth_error_None. rewrite map_length. apply nth_error_None; auto. }
        apply nth_error_None. rewrite Hl2. unfold hs, hashes_of. rewrite map_length. apply nth_error_None; auto.
Qed.

(* ---------- STEP 3: the work list on an abstract index graph ---------- *)
Lemma in_concat_nth : forall A (L : list (list A)) j a x, nth_error L j = Some a -> In x a -> In x (concat L).
Proof.
  intros A L; induction L as [|l r IH]; intros [|j] a x H Hx; cbn in *; try discriminate.
  - inversion H; subst. apply in_or_app; auto.
  - apply in_or_app; right; eauto.
Qed.
Lemma concat_NoDup_part : forall A (L : list (list A)) j a, NoDup (concat L) -> nth_error L j = Some a -> NoDup a.
Proof.
  intros A L; induction L as [|l r IH]; intros [|j] a ND H; cbn in *; try discriminate;
    apply NoDup_app_iff in ND; destruct ND as (Hl & Hr & _).
  - inversion H; subst; auto.
  - eauto.
Qed.
Lemma concat_NoDup_uniq : forall A (L : list (list A)) j j' a b x,
  NoDup (concat L) -> nth_error L j = Some a -> nth_error L j' = Some b -> In x a -> In x b -> j = j'.
Proof.
  intros A L; induction L as [|l r IH]; intros [|j] [|j'] a b x ND Ha Hb Hxa Hxb; cbn in *; try discriminate; auto;
    apply NoDup_app_iff in ND; destruct ND as (Hl & Hr & Hd).
  - inversion Ha; subst. exfalso. apply (Hd x Hxa). eapply in_concat_nth; eauto.
  - inversion Hb; subst. exfalso. apply (Hd x Hxb). eapply in_concat_nth; eauto.
  - f_equal. eapply IH; eauto.
Qed.

Lemma map_fst_push : forall cs d wl, map fst (push_children cs d wl) = rev cs ++ map fst wl.
Proof.
  intros cs d wl; unfold push_children. rewrite map_app, map_rev, map_map. cbn. rewrite map_id. reflexivity.
Qed.
Lemma in_push : forall cs d wl k e, In (k, e) (push_children cs d wl) <-> (In k cs /\ e = d) \/ In (k, e) wl.
Proof.
  intros cs d wl k e; unfold push_children. rewrite in_app_iff, <- in_rev, in_map_iff. split.
  - intros [(c & Hc & Hin)|H]; auto. inversion Hc; subst; auto.
  - intros [(Hc & ->)|H]; auto. left; exists k; auto.
Qed.

Section Graph.
Variables (n : nat) (hs : list N) (rootch : list nat) (chs : list (list nat)) (maxd : N).
Hypothesis Hhs : length hs = n.
Hypothesis Hchs : length chs = n.
Hypothesis Hnd : NoDup (rootch ++ concat chs).
Hypothesis Hlt : forall x, In x (rootch ++ concat chs) -> (x < n)%nat.

Inductive ipath : nat -> nat -> Prop :=
| ip_root : forall c, In c rootch -> ipath c 1
| ip_step : forall j cs c d, nth_error chs j = Some cs -> ipath j d -> In c cs -> ipath c (S d).

Lemma U1 : forall j cs, nth_error chs j = Some cs -> NoDup cs.
Proof using Hnd. intros j cs H. apply NoDup_app_iff in Hnd. destruct Hnd as (_ & Hc & _). eapply concat_NoDup_part; eauto. Qed.
Lemma U2 : forall x j cs, In x rootch -> nth_error chs j = Some cs -> In x cs -> False.
Proof using Hnd.
  intros x j cs Hr Hj Hx. apply NoDup_app_iff in Hnd. destruct Hnd as (_ & _ & Hd).
  apply (Hd x Hr). eapply in_concat_nth; eauto.
Qed.
Lemma U3 : forall x j j' a b, nth_error chs j = Some a -> nth_error chs j' = Some b -> In x a -> In x b -> j = j'.
Proof using Hnd.
  intros x j j' a b Ha Hb Hxa Hxb. apply NoDup_app_iff in Hnd. destruct Hnd as (_ & Hc & _).
  eapply concat_NoDup_uniq; eauto.
Qed.
Lemma U4r : forall x, In x rootch -> (x < n)%nat.
Proof. intros x H; apply Hlt; apply in_or_app; auto. Qed.
Lemma U4c : forall x j cs, nth_error chs j = Some cs -> In x cs -> (x < n)%nat.
Proof. intros x j cs Hj Hx; apply Hlt; apply in_or_app; right; eapply in_concat_nth; eauto. Qed.

Lemma ipath_lt : forall k d, ipath k d -> (k < n)%nat.
Proof. intros k d H; destruct H; [apply U4r; auto|eapply U4c; eauto]. Qed.
Lemma ipath_pos : forall k d, ipath k d -> (1 <= d)%nat.
Proof. intros k d H; destruct H; lia. Qed.
Lemma ipath_uniq : forall k d, ipath k d -> forall d', ipath k d' -> d = d'.
Proof using All.
  intros k d H; induction H as [c Hc|j cs c d Hj Hp IH Hc]; intros d' H'; inversion H'; subst; auto.
  - exfalso; eapply U2; eauto.
  - exfalso; eapply U2; eauto.
  - assert (j = j0) by (eapply U3; eauto). subst j0. f_equal; auto.
Qed.

Record Inv3 (vis : list nat) (wl : list (nat * N)) (ds : list N) (fuel : nat) : Prop := {
  i3_len : length ds = n;
  i3_nd_vis : NoDup vis;
  i3_nd_wl : NoDup (map fst wl);
  i3_disj : forall x, In x vis -> ~ In x (map fst wl);
  i3_lt : forall x, In x vis \/ In x (map fst wl) -> (x < n)%nat;
  i3_src : forall x, In x vis \/ In x (map fst wl) ->
           In x rootch \/ exists j cs, In j vis /\ nth_error chs j = Some cs /\ In x cs;
  i3_root : forall x, In x rootch -> In x vis \/ In x (map fst wl);
  i3_closed : forall j cs x, In j vis -> nth_error chs j = Some cs -> In x cs -> In x vis \/ In x (map fst wl);
  i3_marked : forall k, In k vis <-> exists d, nth_error ds k = Some d /\ d <> 0;
  i3_depth : forall k, In k vis -> exists d, nth_error ds k = Some (N.of_nat d) /\ ipath k d /\ N.of_nat d <= maxd;
  i3_wl : forall k d, In (k, d) wl -> exists d', d = N.of_nat d' /\ ipath k d';
  i3_fuel : (n <= fuel + length vis)%nat
}.

Lemma seen_bound : forall vis wl ds fuel, Inv3 vis wl ds fuel -> (length vis + length wl <= n)%nat.
Proof.
  intros vis wl ds fuel I.
  assert (ND : NoDup (vis ++ map fst wl)).
  { apply NoDup_app_iff. split; [apply (i3_nd_vis _ _ _ _ I)|split; [apply (i3_nd_wl _ _ _ _ I)|apply (i3_disj _ _ _ _ I)]]. }
  assert (Hi : incl (vis ++ map fst wl) (seq 0 n)).
  { intros x Hx. apply in_seq. apply in_app_or in Hx. pose proof (i3_lt _ _ _ _ I x Hx). lia. }
  pose proof (NoDup_incl_length ND Hi) as H. rewrite app_length, map_length, seq_length in H. exact H.
Qed.

Lemma dfs_spec : forall fuel vis wl ds, Inv3 vis wl ds fuel ->
  match dfs fuel hs maxd chs wl ds with
  | inr ds' => exists vis' f', Inv3 vis' [] ds' f'
  | inl e => is_reject e /\ exists k d, ipath k d /\ maxd < N.of_nat d
  end.
Proof.
  induction fuel as [|f IH]; intros vis wl ds I.
  - destruct wl as [|[i d] wl'].
    + cbn. exists vis, O; exact I.
    + exfalso. pose proof (seen_bound _ _ _ _ I) as H. pose proof (i3_fuel _ _ _ _ I) as H'. cbn in H. lia.
  - destruct wl as [|[i d] wl'].
    + cbn. exists vis, (S f); exact I.
    + cbn [dfs].
      assert (Hi_lt : (i < n)%nat) by (apply (i3_lt _ _ _ _ I); right; left; reflexivity).
      destruct (i3_wl _ _ _ _ I i d (or_introl eq_refl)) as (d' & Hd & Hp).
      destruct (maxd <? d) eqn:Emax.
      * apply N.ltb_lt in Emax.
        destruct (nth_error hs i) as [h|] eqn:Eh.
        -- split; [eexists; eexists; reflexivity|]. exists i, d'. subst d. auto.
        -- exfalso. apply nth_error_None in Eh. lia.
      * apply N.ltb_ge in Emax.
        destruct (nth_error chs i) as [cs|] eqn:Ecs; [|exfalso; apply nth_error_None in Ecs; lia].
        apply (IH (i :: vis)).
        assert (Hi_nvis : ~ In i vis).
        { intro Hv. apply (i3_disj _ _ _ _ I i Hv). left; reflexivity. }
        pose proof (i3_nd_wl _ _ _ _ I) as NDwl. cbn in NDwl. apply NoDup_cons_iff in NDwl.
        destruct NDwl as (Hi_nwl & NDwl').
        assert (Hcs_new : forall x, In x cs -> ~ (In x vis \/ i = x \/ In x (map fst wl'))).
        { intros x Hx Hseen.
          assert (Hs : In x vis \/ In x (map fst ((i, d) :: wl'))) by (cbn; tauto).
          destruct (i3_src _ _ _ _ I x Hs) as [Hr|(j & cs' & Hj & Hcs' & Hx')].
          - eapply U2; eauto.
          - assert (i = j) by (eapply U3; eauto). subst j. tauto. }
        constructor.
        -- rewrite upd_length. apply (i3_len _ _ _ _ I).
        -- constructor; auto. apply (i3_nd_vis _ _ _ _ I).
        -- rewrite map_fst_push. apply NoDup_app_iff. split; [apply NoDup_rev; eapply U1; eauto|].
           split; auto. intros x Hx. apply in_rev in Hx. intro Hw. apply (Hcs_new x Hx); auto.
        -- intros x [Hx|Hx]; rewrite map_fst_push, in_app_iff, <- in_rev.
           ++ subst x. intros [Hc|Hw]; [apply (Hcs_new i Hc); auto|tauto].
           ++ intros [Hc|Hw]; [apply (Hcs_new x Hc); auto|].
              apply (i3_disj _ _ _ _ I x Hx). right; auto.
        -- intros x Hx. rewrite map_fst_push, in_app_iff, <- in_rev in Hx. cbn in Hx.
           destruct Hx as [[Hx|Hx]|[Hx|Hx]].
           ++ subst; auto.
           ++ apply (i3_lt _ _ _ _ I); auto.
           ++ eapply U4c; eauto.
           ++ apply (i3_lt _ _ _ _ I); right; right; auto.
        -- intros x Hx. rewrite map_fst_push, in_app_iff, <- in_rev in Hx. cbn in Hx.
           assert (Hold : In x vis \/ In x (map fst ((i, d) :: wl')) ->
                   In x rootch \/ exists j cs0, In j (i :: vis) /\ nth_error chs j = Some cs0 /\ In x cs0).
           { intro Hs. destruct (i3_src _ _ _ _ I x Hs) as [Hr|(j & cs' & Hj & Hcs' & Hx')]; auto.
             right. exists j, cs'. cbn; auto. }
           destruct Hx as [[Hx|Hx]|[Hx|Hx]].
           ++ subst x. apply Hold. right; left; reflexivity.
           ++ apply Hold; auto.
           ++ right. exists i, cs. cbn; auto.
           ++ apply Hold. right; right; auto.
        -- intros x Hx. rewrite map_fst_push, in_app_iff, <- in_rev. cbn.
           destruct (i3_root _ _ _ _ I x Hx) as [H|[H|H]]; cbn in *; auto.
        -- intros j cs0 x Hj Hcs0 Hx. rewrite map_fst_push, in_app_iff, <- in_rev. cbn.
           destruct Hj as [Hj|Hj].
           ++ subst j. rewrite Ecs in Hcs0. inversion Hcs0; subst cs0. auto.
           ++ destruct (i3_closed _ _ _ _ I j cs0 x Hj Hcs0 Hx) as [H|[H|H]]; cbn in *; auto.
        -- intro k. destruct (Nat.eq_dec k i) as [->|Hki].
           ++ split; [intros _|intros _; left; reflexivity].
              exists d. split; [apply nth_error_upd_same; rewrite (i3_len _ _ _ _ I); auto|].
              apply ipath_pos in Hp. lia.
           ++ rewrite nth_error_upd_other; auto. rewrite <- (i3_marked _ _ _ _ I k). cbn.
              split; [intros [H|H]; [congruence|auto]|auto].
        -- intros k [Hk|Hk].
           ++ subst k. exists d'. split; [|split; auto; lia].
              rewrite <- Hd. apply nth_error_upd_same. rewrite (i3_len _ _ _ _ I); auto.
           ++ destruct (i3_depth _ _ _ _ I k Hk) as (dk & Hdk & Hpk & Hle). exists dk.
              split; auto. rewrite nth_error_upd_other; auto. intro; subst; tauto.
        -- intros k e Hk. apply in_push in Hk. destruct Hk as [(Hc & ->)|Hk].
           ++ exists (S d'). split; [lia|]. eapply ip_step; eauto.
           ++ apply (i3_wl _ _ _ _ I). right; auto.
        -- pose proof (i3_fuel _ _ _ _ I). cbn. lia.
Qed.
End Graph.

(* ---------- from the index graph back to hashes ---------- *)
Lemma nth_error_repeat_inv : forall A (a x : A) n k, nth_error (repeat a n) k = Some x -> x = a.
Proof. intros A a x n k H. apply nth_error_In in H. eapply repeat_spec; eauto. Qed.
Lemma nth_error_map_inv : forall A B (f : A -> B) l k y,
  nth_error (map f l) k = Some y -> exists x, nth_error l k = Some x /\ y = f x.
Proof.
  intros A B f l; induction l as [|a r IH]; intros [|k] y H; cbn in *; try discriminate.
  - inversion H; eauto.
  - eauto.
Qed.
Lemma concat_map_map : forall A B C (f : B -> C) (g : A -> list B) l,
  concat (map (fun s => map f (g s)) l) = map f (flat_map g l).
Proof. intros; induction l as [|a r IH]; cbn; auto. rewrite map_app, IH; reflexivity. Qed.

Lemma first_unmarked_None : forall hs ds i, length hs = length ds ->
  (first_unmarked hs ds i = None <-> forall k d, nth_error ds k = Some d -> d <> 0).
Proof.
  induction hs as [|h r IH]; intros [|d dr] i Hl; cbn in *; try discriminate.
  - split; auto. intros _ [|k] d H; discriminate.
  - destruct (d =? 0) eqn:E.
    + apply N.eqb_eq in E; subst. split; [discriminate|]. intro H. exfalso. apply (H O 0); reflexivity.
    + apply N.eqb_neq in E. rewrite IH by lia. split.
      * intros H [|k] d' Hk; cbn in Hk; [inversion Hk; subst; auto|eauto].
      * intros H k d' Hk. apply (H (S k)); auto.
Qed.
Lemma first_unmarked_Some : forall hs ds i j h, first_unmarked hs ds i = Some (j, h) ->
  exists k, nth_error ds k = Some 0 /\ (k < length hs)%nat.
Proof.
  induction hs as [|x r IH]; intros [|d dr] i j h H; cbn in *; try discriminate.
  destruct (d =? 0) eqn:E.
  - apply N.eqb_eq in E; subst. exists O; split; auto; lia.
  - destruct (IH _ _ _ _ H) as (k & Hk & Hlt). exists (S k); split; auto; lia.
Qed.

Definition Str (t : tree) (maxd : N) : Prop :=
  NoDup (hashes_of t) /\
  (forall c, In c (declared t) -> In c (hashes_of t)) /\
  (forall h, In h (hashes_of t) -> count_occ N.eq_dec (declared t) h = 1%nat) /\
  (forall h, In h (hashes_of t) -> exists d, depth_of t h d /\ N.of_nat d <= maxd).

Lemma depth_of_declared : forall t h d, depth_of t h d -> In h (declared t).
Proof.
  intros t h d H; destruct H as [c Hc|s c d Hs _ Hc]; unfold declared; apply in_or_app; auto.
  right. apply in_flat_map. eauto.
Qed.

Lemma Str_good : forall t maxd, Str t maxd -> good (hashes_of t) (edges t).
Proof.
  intros t maxd (ND & Hin & Hc & _). unfold good. rewrite map_snd_edges. split; auto.
  apply (NoDup_count_occ N.eq_dec). intro x.
  destruct (in_dec N.eq_dec x (declared t)) as [Hx|Hx].
  - rewrite Hc; auto.
  - apply (count_occ_not_In N.eq_dec) in Hx. lia.
Qed.

Section Translate.
Variable t : tree.
Let hs := hashes_of t.
Hypothesis ND : NoDup hs.
Hypothesis G : good hs (edges t).

Lemma decl_in : forall c, In c (declared t) -> In c hs.
Proof using G. intros c H. destruct G as (_ & Hin). apply Hin. rewrite map_snd_edges; auto. Qed.
Lemma decl_nodup : NoDup (declared t).
Proof using G. destruct G as (H & _). rewrite map_snd_edges in H; auto. Qed.

Lemma all_targets_eq : rootch_of t ++ concat (chs_of t) = map (pos hs) (declared t).
Proof.
  unfold rootch_of, chs_of, declared. fold hs. rewrite map_app. f_equal.
  apply (concat_map_map _ _ _ (pos hs) (fun s => i_children (s_intent s))).
Qed.
Lemma graph_nd : NoDup (rootch_of t ++ concat (chs_of t)).
Proof using G.
  rewrite all_targets_eq. apply NoDup_map_inj_in; [|apply decl_nodup].
  intros x y Hx Hy. apply pos_inj; apply decl_in; auto.
Qed.
Lemma graph_lt : forall x, In x (rootch_of t ++ concat (chs_of t)) -> (x < length hs)%nat.
Proof using G.
  intros x Hx. rewrite all_targets_eq in Hx. apply in_map_iff in Hx. destruct Hx as (c & <- & Hc).
  apply pos_lt. apply decl_in; auto.
Qed.
Lemma chs_len : length (chs_of t) = length hs.
Proof. unfold chs_of, hs, hashes_of. rewrite !map_length; reflexivity. Qed.

Lemma sub_at : forall s, In s (t_subs t) ->
  nth_error (t_subs t) (pos hs (s_hash s)) = Some s /\
  nth_error (chs_of t) (pos hs (s_hash s)) = Some (map (pos hs) (i_children (s_intent s))).
Proof using ND.
  intros s Hs. destruct (In_nth_error _ _ Hs) as (j & Hj).
  assert (Hh : nth_error hs j = Some (s_hash s)) by (unfold hs, hashes_of; apply map_nth_error; auto).
  rewrite (pos_of_nth hs j _ ND Hh). split; auto.
  unfold chs_of. fold hs. apply (map_nth_error (fun s => map (pos hs) (i_children (s_intent s))) _ _ Hj).
Qed.

Lemma T1 : forall k d, ipath (rootch_of t) (chs_of t) k d ->
  exists h, nth_error hs k = Some h /\ depth_of t h d.
Proof using G.
  intros k d H; induction H as [c Hc|j cs c d Hj Hp IH Hc].
  - unfold rootch_of in Hc. apply in_map_iff in Hc. destruct Hc as (c' & <- & Hc').
    exists c'. split; [|constructor; auto].
    apply pos_nth. apply decl_in. unfold declared. apply in_or_app; auto.
  - unfold chs_of in Hj. apply nth_error_map_inv in Hj. destruct Hj as (s & Hs & ->).
    apply in_map_iff in Hc. destruct Hc as (c' & <- & Hc').
    destruct IH as (h & Hh & Hd).
    assert (Hh' : nth_error hs j = Some (s_hash s)) by (unfold hs, hashes_of; apply map_nth_error; auto).
    fold hs in Hh. rewrite Hh' in Hh. inversion Hh; subst h.
    exists c'. split.
    + apply pos_nth. apply decl_in. unfold declared. apply in_or_app; right.
      apply in_flat_map. exists s; split; auto. eapply nth_error_In; eauto.
    + eapply depth_step; eauto. eapply nth_error_In; eauto.
Qed.
Lemma T2 : forall h d, depth_of t h d -> ipath (rootch_of t) (chs_of t) (pos hs h) d.
Proof using ND.
  intros h d H; induction H as [c Hc|s c d Hs Hd IH Hc].
  - constructor. unfold rootch_of. apply in_map; auto.
  - destruct (sub_at s Hs) as (_ & Hch). eapply ip_step; eauto. apply in_map; auto.
Qed.
End Translate.

(* ---------- validate_intent_relationships as a whole ---------- *)
Lemma Inv3_init : forall n rootch chs maxd,
  NoDup (rootch ++ concat chs) -> (forall x, In x (rootch ++ concat chs) -> (x < n)%nat) ->
  Inv3 n rootch chs maxd [] (push_children rootch 1 []) (repeat 0 n) n.
Proof.
  intros n rootch chs maxd Hnd Hlt.
  assert (NDr : NoDup rootch) by (apply NoDup_app_iff in Hnd; tauto).
  constructor.
  - apply repeat_length.
  - constructor.
  - rewrite map_fst_push. cbn. rewrite app_nil_r. apply NoDup_rev; auto.
  - intros x [].
  - intros x [[]|Hx]. rewrite map_fst_push in Hx. cbn in Hx. rewrite app_nil_r in Hx. apply in_rev in Hx.
    apply Hlt. apply in_or_app; auto.
  - intros x [[]|Hx]. rewrite map_fst_push in Hx. cbn in Hx. rewrite app_nil_r in Hx. apply in_rev in Hx. auto.
  - intros x Hx. right. rewrite map_fst_push. cbn. rewrite app_nil_r, <- in_rev. exact Hx.
  - intros j cs x [].
  - intro k. split; [intros []|]. intros (d & Hd & Hne). apply nth_error_repeat_inv in Hd. congruence.
  - intros k [].
  - intros k d Hk. apply in_push in Hk. destruct Hk as [(Hc & ->)|[]]. exists 1%nat. split; [reflexivity|].
    constructor; auto.
  - lia.
Qed.

Lemma closure_vis : forall n rootch chs maxd vis ds f,
  Inv3 n rootch chs maxd vis [] ds f -> forall k d, ipath rootch chs k d -> In k vis.
Proof.
  intros n rootch chs maxd vis ds f I k d H; induction H as [c Hc|j cs c d Hj Hp IH Hc].
  - destruct (i3_root _ _ _ _ _ _ _ _ I c Hc) as [H|[]]; auto.
  - destruct (i3_closed _ _ _ _ _ _ _ _ I j cs c IH Hj Hc) as [H|[]]; auto.
Qed.

Lemma relationships_spec : forall t maxd,
  root_not_placeholder t -> effective_max t = Some maxd ->
  match relationships t with
  | inr (rootch, ps, ds, chs) =>
      Str t maxd /\ Inv2 (hashes_of t) (edges t) ps /\ length ds = length (hashes_of t) /\
      rootch = rootch_of t /\ chs = chs_of t /\
      (forall k h, nth_error (hashes_of t) k = Some h ->
         exists d, nth_error ds k = Some (N.of_nat d) /\ depth_of t h d)
  | inl e => is_reject e /\ ~ Str t maxd
  end.
Proof.
  intros t maxd Hroot Hmax. unfold relationships, relationships_with.
  destruct (first_dup (hashes_of t) 0 []) as [[i h]|] eqn:E1.
  { split; [eexists; eexists; reflexivity|]. intros (ND & _).
    assert (first_dup (hashes_of t) 0 [] = None) by (apply first_dup_None; split; auto).
    congruence. }
  apply first_dup_None in E1. destruct E1 as (ND & _).
  pose proof (step2_spec t ND Hroot) as H2.
  destruct (assign_all (hashes_of t) (t_root_hash t) (i_children (t_root t))
             (repeat PLACEHOLDER (length (hashes_of t)), [])) as [e|[ps1 rootch]].
  { destruct H2 as (Hr & Hg). split; auto. intro S. apply Hg. eapply Str_good; eauto. }
  destruct (step2b (hashes_of t) (t_subs t) ps1 (repeat [] (length (hashes_of t)))) as [e|[ps chs]].
  { destruct H2 as (Hr & Hg). split; auto. intro S. apply Hg. eapply Str_good; eauto. }
  destruct H2 as (I2 & -> & ->). rewrite Hmax.
  pose proof (Inv2_good _ _ _ I2) as G.
  pose proof (graph_nd t G) as Hnd. pose proof (graph_lt t G) as Hlt.
  pose proof (chs_len t) as Hcl.
  pose proof (dfs_spec (length (hashes_of t)) (hashes_of t) (rootch_of t) (chs_of t) maxd eq_refl Hcl Hnd Hlt
                _ _ _ _ (Inv3_init _ _ _ maxd Hnd Hlt)) as H3.
  destruct (dfs (length (hashes_of t)) (hashes_of t) maxd (chs_of t) (push_children (rootch_of t) 1 [])
              (repeat 0 (length (hashes_of t)))) as [e|ds].
  { destruct H3 as (Hr & k & d & Hp & Hgt). split; auto. intros (_ & _ & _ & Hreach).
    destruct (T1 t G k d Hp) as (h & Hh & Hd).
    destruct (Hreach h (nth_error_In _ _ Hh)) as (d0 & Hd0 & Hle).
    pose proof (T2 t ND h d0 Hd0) as Hp0. rewrite (pos_of_nth _ _ _ ND Hh) in Hp0.
    pose proof (ipath_uniq _ (hashes_of t) _ _ maxd eq_refl Hcl Hnd Hlt k d Hp d0 Hp0) as Hu. subst d0. lia. }
  destruct H3 as (vis & f & I3).
  pose proof (i3_len _ _ _ _ _ _ _ _ I3) as Hdl.
  destruct (first_unmarked (hashes_of t) ds 0) as [[i h]|] eqn:E4.
  { split; [eexists; eexists; reflexivity|]. intros (_ & _ & _ & Hreach).
    destruct (first_unmarked_Some _ _ _ _ _ E4) as (k & Hk0 & Hklt).
    destruct (nth_error (hashes_of t) k) as [hk|] eqn:Ehk; [|apply nth_error_None in Ehk; lia].
    destruct (Hreach hk (nth_error_In _ _ Ehk)) as (d0 & Hd0 & _).
    pose proof (T2 t ND hk d0 Hd0) as Hp0. rewrite (pos_of_nth _ _ _ ND Ehk) in Hp0.
    pose proof (closure_vis _ _ _ _ _ _ _ I3 k d0 Hp0) as Hv.
    apply (i3_marked _ _ _ _ _ _ _ _ I3) in Hv. destruct Hv as (d & Hd & Hne). congruence. }
  pose proof (proj1 (first_unmarked_None _ _ _ (eq_sym Hdl)) E4) as E4'.
  assert (Hall' : forall k h, nth_error (hashes_of t) k = Some h ->
            exists d, nth_error ds k = Some (N.of_nat d) /\ depth_of t h d /\ N.of_nat d <= maxd).
  { intros k h Hk.
    assert (Hklt : (k < length ds)%nat) by (rewrite Hdl; apply nth_error_Some; congruence).
    destruct (nth_error ds k) as [d|] eqn:Ed; [|apply nth_error_None in Ed; lia].
    assert (Hv : In k vis) by (apply (i3_marked _ _ _ _ _ _ _ _ I3); exists d; split; eauto).
    destruct (i3_depth _ _ _ _ _ _ _ _ I3 k Hv) as (d' & Hd' & Hp & Hle).
    destruct (T1 t G k d' Hp) as (h' & Hh' & Hdep). rewrite Hk in Hh'. inversion Hh'; subst h'.
    exists d'. rewrite <- Ed. auto. }
  assert (Hall : forall h, In h (hashes_of t) -> exists d, depth_of t h d /\ N.of_nat d <= maxd).
  { intros h Hh. destruct (In_nth_error _ _ Hh) as (k & Hk).
    destruct (Hall' k h Hk) as (d & _ & Hd & Hle). eauto. }
  split; [|split; [exact I2|split; [exact Hdl|split; [reflexivity|split; [reflexivity|]]]]].
  - split; [auto|split; [apply (decl_in t G)|split; auto]].
    intros h Hh. destruct (Hall h Hh) as (d & Hd & _). apply depth_of_declared in Hd.
    pose proof (proj1 (NoDup_count_occ N.eq_dec _) (decl_nodup t G) h).
    apply (count_occ_In N.eq_dec) in Hd. lia.
  - intros k h Hk. destruct (Hall' k h Hk) as (d & H1 & H2 & _). eauto.
Qed.

(* ---------- yield counts ---------- *)
Lemma ys_get_insert : forall k k' v m,
  ys_get k (ys_insert k' v m) = if ihash_eqb k k' then Some v else ys_get k m.
Proof.
  intros k k' v m; induction m as [|[k0 v0] r IH]; cbn.
  - destruct (ihash_eqb k k'); reflexivity.
  - destruct (ihash_eqb k' k0) eqn:E; cbn.
    + apply ihash_eqb_eq in E; subst k0. destruct (ihash_eqb k k'); reflexivity.
    + rewrite IH. destruct (ihash_eqb k k0) eqn:E0; auto.
      apply ihash_eqb_eq in E0; subst k0. destruct (ihash_eqb k k') eqn:E1; auto.
      apply ihash_eqb_eq in E1; subst k'. rewrite ihash_eqb_refl in E; discriminate.
Qed.
Definition ins_sub (m : ysmap) (s : sub) : ysmap := ys_insert (ISub (s_hash s)) (i_summary (s_intent s)) m.
Lemma fold_get_notin : forall subs m k, (forall s, In s subs -> ISub (s_hash s) <> k) ->
  ys_get k (fold_left ins_sub subs m) = ys_get k m.
Proof.
  induction subs as [|s r IH]; intros m k H; cbn; auto.
  rewrite IH by (intros; apply H; right; auto). unfold ins_sub. rewrite ys_get_insert.
  destruct (ihash_eqb k (ISub (s_hash s))) eqn:E; auto.
  apply ihash_eqb_eq in E. exfalso. apply (H s); [left; reflexivity|auto].
Qed.
Lemma fold_get_in : forall subs m s, NoDup (map s_hash subs) -> In s subs ->
  ys_get (ISub (s_hash s)) (fold_left ins_sub subs m) = Some (i_summary (s_intent s)).
Proof.
  induction subs as [|s0 r IH]; intros m s ND Hs; cbn in *; [tauto|].
  apply NoDup_cons_iff in ND. destruct ND as (Hn & ND).
  destruct Hs as [->|Hs]; [|apply IH; auto].
  rewrite fold_get_notin.
  - unfold ins_sub. rewrite ys_get_insert, ihash_eqb_refl. reflexivity.
  - intros s' Hs' E. inversion E as [E']. apply Hn. rewrite <- E'. apply in_map; auto.
Qed.
Lemma ys_get_sub : forall t s, NoDup (hashes_of t) -> In s (t_subs t) ->
  ys_get (ISub (s_hash s)) (yield_summaries t) = Some (i_summary (s_intent s)).
Proof. intros t s ND Hs. unfold yield_summaries. apply (fold_get_in _ _ _ ND Hs). Qed.
Lemma ys_get_root : forall t, root_fresh t ->
  ys_get (t_root_hash t) (yield_summaries t) = Some (i_summary (t_root t)).
Proof.
  intros t Hf. unfold yield_summaries.
  rewrite (fold_get_notin (t_subs t)).
  - cbn. rewrite ihash_eqb_refl; reflexivity.
  - intros s Hs E. apply (Hf (s_hash s)); [apply in_map; auto|auto].
Qed.

Lemma edges_of_subs_in : forall subs p c, In (p, c) (edges_of_subs subs) <->
  exists s, In s subs /\ p = ISub (s_hash s) /\ In c (i_children (s_intent s)).
Proof.
  intros subs p c. unfold edges_of_subs. rewrite in_flat_map. split.
  - intros (s & Hs & Hin). apply in_map_iff in Hin. destruct Hin as (c' & E & Hc). inversion E; subst. eauto.
  - intros (s & Hs & -> & Hc). exists s; split; auto. apply in_map; auto.
Qed.
Lemma edges_in : forall t p c, In (p, c) (edges t) <->
  (p = t_root_hash t /\ In c (i_children (t_root t))) \/
  exists s, In s (t_subs t) /\ p = ISub (s_hash s) /\ In c (i_children (s_intent s)).
Proof.
  intros t p c. unfold edges. rewrite in_app_iff, edges_of_subs_in, in_map_iff. split.
  - intros [(c' & E & Hc)|H]; auto. inversion E; subst; auto.
  - intros [(-> & Hc)|H]; auto. left; exists c; auto.
Qed.

Definition edge_yield_ok (t : tree) (p : ihash) (h : N) : Prop :=
  exists psum csum, ys_get p (yield_summaries t) = Some psum /\
                    ys_get (ISub h) (yield_summaries t) = Some csum /\
                    assoc h (child_yields psum) = Some (parent_yields csum).
Definition edge_lookup_fails (t : tree) (p : ihash) (h : N) : Prop :=
  ys_get p (yield_summaries t) = None \/ ys_get (ISub h) (yield_summaries t) = None \/
  exists psum, ys_get p (yield_summaries t) = Some psum /\ assoc h (child_yields psum) = None.

Lemma yield_check_spec : forall t hs ps i,
  match yield_check (yield_summaries t) hs ps i with
  | None => forall k h p, nth_error hs k = Some h -> nth_error ps k = Some p -> edge_yield_ok t p h
  | Some e => exists k h p, nth_error hs k = Some h /\ nth_error ps k = Some p /\
              ((is_reject e /\ ~ edge_yield_ok t p h) \/ (e = Panic /\ edge_lookup_fails t p h))
  end.
Proof.
  intros t hs; induction hs as [|h hr IH]; intros [|p pr] i; cbn [yield_check].
  - intros [|k] ? ? H; discriminate.
  - intros [|k] ? ? H; discriminate.
  - intros [|k] ? ? ? H; discriminate.
  - destruct (ys_get p (yield_summaries t)) as [psum|] eqn:Ep.
    2:{ exists O, h, p. cbn. repeat split; auto. right. split; auto. left; auto. }
    destruct (assoc h (child_yields psum)) as [pc|] eqn:Ea.
    2:{ exists O, h, p. cbn. repeat split; auto. right. split; auto. right; right; eauto. }
    destruct (ys_get (ISub h) (yield_summaries t)) as [csum|] eqn:Ec.
    2:{ exists O, h, p. cbn. repeat split; auto. right. split; auto. right; left; auto. }
    destruct (pc =? parent_yields csum) eqn:E.
    + apply N.eqb_eq in E. specialize (IH pr (S i)).
      destruct (yield_check (yield_summaries t) hr pr (S i)) as [e|].
      * destruct IH as (k & h' & p' & Hh & Hp & H). exists (S k), h', p'. cbn. auto.
      * intros [|k] h' p' Hh Hp; cbn in *.
        -- inversion Hh; inversion Hp; subst. exists psum, csum. repeat split; auto.
        -- eauto.
    + apply N.eqb_neq in E. exists O, h, p. cbn. repeat split; auto. left. split; [eexists; eexists; reflexivity|].
      intros (psum' & csum' & H1 & H2 & H3). rewrite Ep in H1; rewrite Ec in H2.
      inversion H1; inversion H2; subst. congruence.
Qed.

Definition yields_all (t : tree) : Prop :=
  yields_match t (t_root t) /\ forall s, In s (t_subs t) -> yields_match t (s_intent s).

(* the parent intent behind an edge *)
Lemma edge_parent : forall t p c, NoDup (hashes_of t) -> root_fresh t -> In (p, c) (edges t) ->
  exists P, (P = t_root t \/ exists s, In s (t_subs t) /\ P = s_intent s) /\ In c (i_children P) /\
            ys_get p (yield_summaries t) = Some (i_summary P).
Proof.
  intros t p c ND Hf H. apply edges_in in H. destruct H as [(-> & Hc)|(s & Hs & -> & Hc)].
  - exists (t_root t). split; auto. split; auto. apply ys_get_root; auto.
  - exists (s_intent s). split; eauto. split; auto. apply ys_get_sub; auto.
Qed.
Lemma snd_uniq : forall (P : list edge) p p' c, NoDup (map snd P) -> In (p, c) P -> In (p', c) P -> p = p'.
Proof.
  induction P as [|[q x] r IH]; intros p p' c ND H H'; cbn in *; [tauto|].
  apply NoDup_cons_iff in ND. destruct ND as (Hn & ND).
  destruct H as [H|H]; destruct H' as [H'|H'].
  - congruence.
  - inversion H; subst. exfalso. apply Hn. apply (in_map snd) in H'. exact H'.
  - inversion H'; subst. exfalso. apply Hn. apply (in_map snd) in H. exact H.
  - eauto.
Qed.

Lemma yields_iff : forall t ps, NoDup (hashes_of t) -> root_fresh t ->
  Inv2 (hashes_of t) (edges t) ps -> (forall h, In h (hashes_of t) -> In h (declared t)) ->
  ((forall k h p, nth_error (hashes_of t) k = Some h -> nth_error ps k = Some p -> edge_yield_ok t p h)
   <-> yields_all t).
Proof.
  intros t ps ND Hf I Hall. split.
  - intro H.
    assert (Hedge : forall p c, In (p, c) (edges t) -> edge_yield_ok t p c).
    { intros p c Hpc.
      assert (Hc : In c (map snd (edges t))) by (apply (in_map snd) in Hpc; exact Hpc).
      pose proof (i2_incl _ _ _ I c Hc) as Hch. destruct (In_nth_error _ _ Hch) as (k & Hk).
      destruct (i2_set _ _ _ I k c Hk Hc) as (p' & Hp' & Hin').
      assert (p = p') by (eapply snd_uniq; eauto; apply (i2_nodup _ _ _ I)). subst p'. eauto. }
    assert (Hm : forall p P, (forall c, In c (i_children P) -> In (p, c) (edges t)) ->
                 ys_get p (yield_summaries t) = Some (i_summary P) -> yields_match t P).
    { intros p P HPe HPs c s Hc Hs Ehash. destruct (Hedge p c (HPe c Hc)) as (psum & csum & H1 & H2 & H3).
      rewrite HPs in H1. inversion H1; subst psum. rewrite <- Ehash in H2.
      rewrite (ys_get_sub t s ND Hs) in H2. inversion H2; subst csum. rewrite <- Ehash. rewrite Ehash in *. exact H3. }
    split.
    + apply (Hm (t_root_hash t)); [|apply ys_get_root; auto].
      intros c Hc. apply edges_in. auto.
    + intros s Hs. apply (Hm (ISub (s_hash s))); [|apply ys_get_sub; auto].
      intros c Hc. apply edges_in. right. eauto.
  - intros (Hr & Hsub) k h p Hk Hp.
    assert (Hh : In h (hashes_of t)) by (eapply nth_error_In; eauto).
    assert (Hd : In h (map snd (edges t))) by (rewrite map_snd_edges; auto).
    destruct (i2_set _ _ _ I k h Hk Hd) as (p' & Hp' & Hin). rewrite Hp in Hp'. inversion Hp'; subst p'.
    destruct (edge_parent t p h ND Hf Hin) as (P & HP & Hc & Hget).
    unfold hashes_of in Hh. apply in_map_iff in Hh. destruct Hh as (s & Es & Hs).
    exists (i_summary P), (i_summary (s_intent s)). split; auto. split.
    + rewrite <- Es. apply ys_get_sub; auto.
    + assert (HmP : yields_match t P).
      { destruct HP as [->|(s' & Hs' & ->)]; auto. }
      apply (HmP h s); auto.
Qed.

(* ---------- main theorems ---------- *)
Lemma Str_all_declared : forall t maxd, Str t maxd -> forall h, In h (hashes_of t) -> In h (declared t).
Proof.
  intros t maxd (_ & _ & Hc & _) h Hh. apply (count_occ_In N.eq_dec). rewrite Hc; auto.
Qed.
Lemma ok_not_fails : forall t p h, edge_yield_ok t p h -> edge_lookup_fails t p h -> False.
Proof.
  intros t p h (psum & csum & H1 & H2 & H3) [F|[F|(psum' & F1 & F2)]]; congruence.
Qed.
Lemma reject_not_accept : forall e r p d c, is_reject e -> e <> Accept r p d c.
Proof. intros e r p d c (x & l & ->); discriminate. Qed.

Theorem accept_iff_tree : forall t maxd,
  root_not_placeholder t -> root_fresh t -> effective_max t = Some maxd ->
  (accepted t <-> WellFormed t maxd).
Proof.
  intros t maxd Hroot Hf Hmax. unfold accepted, validate, validate_with. fold (relationships t).
  pose proof (relationships_spec t maxd Hroot Hmax) as HR.
  destruct (relationships t) as [e|[[[rootch ps] ds] chs]].
  - destruct HR as (Hr & HnS). split.
    + intros (r & p & d & c & E). exfalso. eapply reject_not_accept; eauto.
    + intros (W1 & W2 & W3 & W4 & _). exfalso. apply HnS. repeat split; auto.
  - destruct HR as (S & I2 & Hlen & _).
    pose proof (Str_all_declared _ _ S) as Hall.
    pose proof S as (ND & _).
    pose proof (yields_iff t ps ND Hf I2 Hall) as HY.
    pose proof (yield_check_spec t (hashes_of t) ps 0) as HC.
    destruct (yield_check (yield_summaries t) (hashes_of t) ps 0) as [e|].
    + destruct HC as (k & h & p & Hk & Hp & HC). split.
      * intros (r & p' & d & c & E). exfalso. destruct HC as [(Hr & _)|(-> & _)]; [|discriminate].
        eapply reject_not_accept; eauto.
      * intros (_ & _ & _ & _ & WY). exfalso.
        pose proof (proj2 HY WY k h p Hk Hp) as Hok.
        destruct HC as [(_ & Hn)|(_ & Hfail)]; [auto|eapply ok_not_fails; eauto].
    + split.
      * intros _. destruct S as (S1 & S2 & S3 & S4). repeat split; auto; apply (proj1 HY HC).
      * intros _. eauto.
Qed.

Lemma relationships_effmax_none : forall t, root_not_placeholder t -> effective_max t = None ->
  exists e, relationships t = inl e /\ (is_reject e \/ e = Panic).
Proof.
  intros t Hroot Hmax. unfold relationships, relationships_with.
  destruct (first_dup (hashes_of t) 0 []) as [[i h]|] eqn:E1.
  { eexists; split; eauto. left; eexists; eexists; reflexivity. }
  apply first_dup_None in E1. destruct E1 as (ND & _).
  pose proof (step2_spec t ND Hroot) as H2.
  destruct (assign_all (hashes_of t) (t_root_hash t) (i_children (t_root t))
             (repeat PLACEHOLDER (length (hashes_of t)), [])) as [e|[ps1 rootch]].
  { destruct H2 as (Hr & _). eauto. }
  destruct (step2b (hashes_of t) (t_subs t) ps1 (repeat [] (length (hashes_of t)))) as [e|[ps chs]].
  { destruct H2 as (Hr & _). eauto. }
  rewrite Hmax. eauto.
Qed.

Lemma yield_check_kind : forall ys hs ps i e, yield_check ys hs ps i = Some e -> is_reject e \/ e = Panic.
Proof.
  intros ys hs; induction hs as [|h hr IH]; intros [|p pr] i e H; cbn in H; try discriminate.
  destruct (ys_get p ys); [|inversion H; auto].
  destruct (assoc h (child_yields s)); [|inversion H; auto].
  destruct (ys_get (ISub h) ys); [|inversion H; auto].
  destruct (n =? parent_yields s0); [eauto|].
  inversion H. left; eexists; eexists; reflexivity.
Qed.

Theorem worklist_terminates : forall t, root_not_placeholder t -> validate t <> OutOfFuel.
Proof.
  intros t Hroot. unfold validate, validate_with. fold (relationships t).
  destruct (effective_max t) as [maxd|] eqn:Hmax.
  - pose proof (relationships_spec t maxd Hroot Hmax) as HR.
    destruct (relationships t) as [e|[[[rootch ps] ds] chs]].
    + destruct HR as ((x & l & ->) & _). discriminate.
    + destruct (yield_check (yield_summaries t) (hashes_of t) ps 0) eqn:E; [|discriminate].
      destruct (yield_check_kind _ _ _ _ _ E) as [(x & l & ->)| ->]; discriminate.
  - destruct (relationships_effmax_none t Hroot Hmax) as (e & -> & [(x & l & ->)| ->]); discriminate.
Qed.

Theorem no_panic : forall t maxd,
  root_not_placeholder t -> root_fresh t -> effective_max t = Some maxd -> summaries_cover t ->
  validate t <> Panic.
Proof.
  intros t maxd Hroot Hf Hmax Hcov. unfold validate, validate_with. fold (relationships t).
  pose proof (relationships_spec t maxd Hroot Hmax) as HR.
  destruct (relationships t) as [e|[[[rootch ps] ds] chs]].
  - destruct HR as ((x & l & ->) & _). discriminate.
  - destruct HR as (S & I2 & Hlen & _).
    pose proof (Str_all_declared _ _ S) as Hall. pose proof S as (ND & _).
    pose proof (yield_check_spec t (hashes_of t) ps 0) as HC.
    destruct (yield_check (yield_summaries t) (hashes_of t) ps 0) as [e|]; [|discriminate].
    destruct HC as (k & h & p & Hk & Hp & [((x & l & ->) & _)|(-> & Hfail)]); [discriminate|].
    exfalso.
    assert (Hh : In h (hashes_of t)) by (eapply nth_error_In; eauto).
    assert (Hd : In h (map snd (edges t))) by (rewrite map_snd_edges; auto).
    destruct (i2_set _ _ _ I2 k h Hk Hd) as (p' & Hp' & Hin). rewrite Hp in Hp'. inversion Hp'; subst p'.
    destruct (edge_parent t p h ND Hf Hin) as (P & HP & Hc & Hget).
    unfold hashes_of in Hh. apply in_map_iff in Hh. destruct Hh as (s & Es & Hs).
    pose proof (ys_get_sub t s ND Hs) as Hgs. rewrite Es in Hgs.
    assert (HcP : summary_covers P).
    { destruct Hcov as (Hc0 & Hc1). destruct HP as [->|(s' & Hs' & ->)]; auto. }
    destruct Hfail as [F|[F|(psum & F1 & F2)]]; try congruence.
    rewrite Hget in F1. inversion F1; subst psum. apply (HcP h Hc F2).
Qed.

(* in an accepted tree every subintent has exactly one depth: no cycle is reachable, and
   everything is reachable, so there is no cycle at all *)
Theorem depth_unique : forall t maxd,
  root_not_placeholder t -> root_fresh t -> effective_max t = Some maxd -> accepted t ->
  forall h d d', depth_of t h d -> depth_of t h d' -> d = d'.
Proof.
  intros t maxd Hroot Hf Hmax Hacc h d d' H H'.
  apply (accept_iff_tree t maxd Hroot Hf Hmax) in Hacc.
  assert (S : Str t maxd) by (destruct Hacc as (W1 & W2 & W3 & W4 & _); repeat split; auto).
  pose proof S as (ND & _). pose proof (Str_good _ _ S) as G.
  pose proof (T2 t ND h d H) as P1. pose proof (T2 t ND h d' H') as P2.
  exact (ipath_uniq _ (hashes_of t) _ _ maxd eq_refl (chs_len t) (graph_nd t G) (graph_lt t G) _ _ P1 _ P2).
Qed.

(* ---------- fuel ---------- *)
Lemma dfs_fuel_mono : forall f hs maxd chs wl ds r,
  dfs f hs maxd chs wl ds = r -> r <> inl OutOfFuel -> forall k, dfs (f + k) hs maxd chs wl ds = r.
Proof.
  induction f as [|f IH]; intros hs maxd chs wl ds r H Hr k.
  - destruct wl as [|[i d] wl']; cbn in H.
    + destruct k; cbn; auto.
    + congruence.
  - destruct wl as [|[i d] wl']; cbn in *; auto.
    destruct (maxd <? d); auto.
    destruct (nth_error chs i); auto.
Qed.
Theorem fuel_irrelevant : forall t f k,
  validate_with f t <> OutOfFuel -> validate_with (f + k) t = validate_with f t.
Proof.
  intros t f k. unfold validate_with, relationships_with.
  destruct (first_dup (hashes_of t) 0 []) as [[i h]|]; auto.
  destruct (assign_all (hashes_of t) (t_root_hash t) (i_children (t_root t))
             (repeat PLACEHOLDER (length (hashes_of t)), [])) as [e|[ps1 rootch]]; auto.
  destruct (step2b (hashes_of t) (t_subs t) ps1 (repeat [] (length (hashes_of t)))) as [e|[ps chs]]; auto.
  destruct (effective_max t) as [maxd|]; auto.
  destruct (dfs f (hashes_of t) maxd chs (push_children rootch 1 []) (repeat 0 (length (hashes_of t)))) as [e|ds] eqn:E.
  - intro H. rewrite (dfs_fuel_mono _ _ _ _ _ _ _ E); auto. congruence.
  - intros _. rewrite (dfs_fuel_mono _ _ _ _ _ _ _ E); auto. discriminate.
Qed.

(* on acceptance the returned relationship details are exactly the declared structure:
   children as positions, the parent of every subintent is an intent that declares it, the depth is
   its distance from the root *)
Theorem accept_details : forall t maxd r ps ds chs,
  root_not_placeholder t -> effective_max t = Some maxd ->
  validate t = Accept r ps ds chs ->
  r = map (pos (hashes_of t)) (i_children (t_root t)) /\
  chs = map (fun s => map (pos (hashes_of t)) (i_children (s_intent s))) (t_subs t) /\
  forall k h, nth_error (hashes_of t) k = Some h ->
    exists p d, nth_error ps k = Some p /\ In (p, h) (edges t) /\
                nth_error ds k = Some (N.of_nat d) /\ depth_of t h d.
Proof.
  intros t maxd r ps ds chs Hroot Hmax. unfold validate, validate_with. fold (relationships t).
  pose proof (relationships_spec t maxd Hroot Hmax) as HR.
  destruct (relationships t) as [e|[[[rootch ps0] ds0] chs0]].
  - destruct HR as ((x & l & ->) & _). discriminate.
  - destruct HR as (S & I2 & Hlen & Hr & Hc & Hd).
    destruct (yield_check (yield_summaries t) (hashes_of t) ps0 0) as [o|] eqn:EY.
    + intro E. exfalso. destruct (yield_check_kind _ _ _ _ _ EY) as [(x & l & ->)| ->]; discriminate.
    + intro E. inversion E; subst. split; [reflexivity|]. split; [reflexivity|].
      intros k h Hk. destruct (Hd k h Hk) as (d & Hd1 & Hd2).
      assert (Hh : In h (map snd (edges t))).
      { rewrite map_snd_edges. eapply Str_all_declared; eauto. eapply nth_error_In; eauto. }
      destruct (i2_set _ _ _ I2 k h Hk Hh) as (p & Hp & Hin). eauto 8.
Qed.

(* ---------- extension: intents that can fail, reference totals ---------- *)
Lemma run_intent_inr : forall per tot v t',
  run_intent per tot v = inr t' <-> intent_ok per v /\ t' = sat_add tot (v_refs v).
Proof.
  intros per tot v t'. unfold run_intent, intent_ok.
  destruct (N.ltb_spec per (v_refs v)).
  - split; [discriminate|]. intros ((Hle & _) & _). lia.
  - destruct (v_fail v) as [c|].
    + split; [discriminate|]. intros ((_ & Hf) & _). discriminate.
    + split; [intro E; inversion E; auto|]. intros (_ & ->). reflexivity.
Qed.
Lemma run_subs_inr : forall per hs vs i tot t', length hs = length vs ->
  (run_subs per i hs vs tot = inr t' <->
   Forall (intent_ok per) vs /\ t' = fold_left sat_add (map v_refs vs) tot).
Proof.
  intros per hs; induction hs as [|h hr IH]; intros [|v vr] i tot t' Hl; cbn in Hl; try discriminate.
  - cbn. split; [intro E; inversion E; split; auto|intros (_ & ->); reflexivity].
  - cbn [run_subs map fold_left].
    destruct (run_intent per tot v) as [e|t1] eqn:E1.
    + split; [discriminate|]. intros (F & _). inversion F as [|? ? Hv Fr]; subst.
      assert (run_intent per tot v = inr (sat_add tot (v_refs v))) by (apply run_intent_inr; auto).
      congruence.
    + apply run_intent_inr in E1. destruct E1 as (Hv & ->).
      rewrite (IH vr (S i) _ t') by lia. split.
      * intros (F & ->). split; auto.
      * intros (F & ->). inversion F; subst. split; auto.
Qed.
(* the first failing subintent (list order) is the one reported, with its index and hash *)
Lemma run_subs_inl : forall per hs vs i tot l e,
  run_subs per i hs vs tot = inl (l, e) ->
  exists k h v, nth_error hs k = Some h /\ nth_error vs k = Some v /\ l = FNonRoot (i + k) h /\
                Forall (intent_ok per) (firstn k vs) /\
                run_intent per (fold_left sat_add (map v_refs (firstn k vs)) tot) v = inl e.
Proof.
  intros per hs; induction hs as [|h hr IH]; intros [|v vr] i tot l e H; cbn in H; try discriminate.
  destruct (run_intent per tot v) as [e1|t1] eqn:E1.
  - inversion H; subst. exists O, h, v. rewrite Nat.add_0_r. cbn. repeat split; auto.
  - destruct (IH vr (S i) t1 l e H) as (k & h' & v' & Hh & Hv & -> & F & R).
    apply run_intent_inr in E1. destruct E1 as (Hok & ->).
    exists (S k), h', v'. cbn [nth_error firstn map fold_left]. repeat split; auto.
    + f_equal. lia.
Qed.
Lemma sat_add_le : forall a b, a <= USIZE_MAX -> sat_add a b <= USIZE_MAX.
Proof. intros a b H. unfold sat_add. lia. Qed.
Lemma fold_sat_le : forall l a, a <= USIZE_MAX -> fold_left sat_add l a <= USIZE_MAX.
Proof. induction l as [|x r IH]; intros a H; cbn; auto. apply IH. apply sat_add_le; auto. Qed.
Lemma fold_sat_min : forall l a, a <= USIZE_MAX ->
  fold_left sat_add l a = N.min (a + fold_right N.add 0 l) USIZE_MAX.
Proof.
  induction l as [|x r IH]; intros a H; cbn [fold_left fold_right].
  - lia.
  - rewrite IH by (apply sat_add_le; auto). unfold sat_add. lia.
Qed.

Theorem full_accept_iff : forall f maxd,
  root_not_placeholder (f_tree f) -> root_fresh (f_tree f) -> effective_max (f_tree f) = Some maxd ->
  length (f_sub_vs f) = length (t_subs (f_tree f)) ->
  (full_accepted f <->
   WellFormed (f_tree f) maxd /\
   Forall (intent_ok (f_max_references_per_intent f)) (f_root_v f :: f_sub_vs f) /\
   total_references f <= f_max_total_references f).
Proof.
  intros f maxd Hroot Hf Hmax Hlen.
  pose proof (accept_iff_tree (f_tree f) maxd Hroot Hf Hmax) as HT.
  unfold accepted, validate, validate_with in HT. fold (relationships (f_tree f)) in HT.
  unfold full_accepted, validate_full, validate_full_with, total_references. fold (relationships (f_tree f)).
  assert (Hl : length (hashes_of (f_tree f)) = length (f_sub_vs f)) by (unfold hashes_of; rewrite map_length; lia).
  destruct (relationships (f_tree f)) as [e|[[[rootch ps] ds] chs]] eqn:HeqRel0.
  - pose proof (relationships_spec (f_tree f) maxd Hroot Hmax) as HR.
    rewrite HeqRel0 in HR. destruct HR as ((x & l & ->) & _). split.
    + intros (r & p & d & c & E). discriminate.
    + intros (W & _). apply HT in W. destruct W as (r & p & d & c & E). discriminate.
  - cbn [map fold_left].
    destruct (run_intent (f_max_references_per_intent f) 0 (f_root_v f)) as [e|t1] eqn:E1.
    + split; [intros (r & p & d & c & E); discriminate|].
      intros (_ & F & _). inversion F as [|? ? Hv Fr]; subst.
      assert (run_intent (f_max_references_per_intent f) 0 (f_root_v f) = inr (sat_add 0 (v_refs (f_root_v f))))
        by (apply run_intent_inr; auto). congruence.
    + apply run_intent_inr in E1. destruct E1 as (Hrv & ->).
      destruct (run_subs (f_max_references_per_intent f) 0 (hashes_of (f_tree f)) (f_sub_vs f)
                  (sat_add 0 (v_refs (f_root_v f)))) as [[l e]|total] eqn:E2.
      * split; [intros (r & p & d & c & E); discriminate|].
        intros (_ & F & _). inversion F as [|? ? _ Fr]; subst.
        assert (run_subs (f_max_references_per_intent f) 0 (hashes_of (f_tree f)) (f_sub_vs f)
                  (sat_add 0 (v_refs (f_root_v f))) = inr (fold_left sat_add (map v_refs (f_sub_vs f)) (sat_add 0 (v_refs (f_root_v f)))))
          by (apply run_subs_inr; auto). congruence.
      * apply (run_subs_inr _ _ _ _ _ _ Hl) in E2. destruct E2 as (Fs & ->).
        destruct (N.ltb_spec (f_max_total_references f)
                    (fold_left sat_add (map v_refs (f_sub_vs f)) (sat_add 0 (v_refs (f_root_v f))))).
        -- split; [intros (r & p & d & c & E); discriminate|]. intros (_ & _ & Hle). lia.
        -- destruct (yield_check (yield_summaries (f_tree f)) (hashes_of (f_tree f)) ps 0) as [e|].
           ++ split.
              ** intros (r & p & d & c & E). inversion E as [E']. split; [apply (proj1 HT); rewrite E'; eauto 6|].
                 split; [constructor; auto|lia].
              ** intros (W & _). apply HT in W. destruct W as (r & p & d & c & E). exists r, p, d, c. rewrite E. reflexivity.
           ++ split.
              ** intros _. split; [apply HT; eauto 6|]. split; [constructor; auto|lia].
              ** intros _. eauto 6.
Qed.

(* whatever the intents do, a structure error found by validate_intent_relationships comes first *)
Theorem full_structure_first : forall f e,
  relationships (f_tree f) = inl e -> validate_full f = FStructure e.
Proof.
  intros f e H. unfold validate_full, validate_full_with. fold (relationships (f_tree f)). rewrite H. reflexivity.
Qed.
(* with passing relationships: the root's failure is reported at the root; otherwise the first
   failing subintent in list order, at its index; then the total; only then the yield counts *)
Theorem full_first_failure : forall f rel,
  relationships (f_tree f) = inr rel ->
  (forall e, run_intent (f_max_references_per_intent f) 0 (f_root_v f) = inl e ->
             validate_full f = FIntent FRoot e) /\
  (forall t1 l e, run_intent (f_max_references_per_intent f) 0 (f_root_v f) = inr t1 ->
             run_subs (f_max_references_per_intent f) 0 (hashes_of (f_tree f)) (f_sub_vs f) t1 = inl (l, e) ->
             validate_full f = FIntent l e /\
             exists k h v, nth_error (hashes_of (f_tree f)) k = Some h /\ nth_error (f_sub_vs f) k = Some v /\
                           l = FNonRoot k h /\ Forall (intent_ok (f_max_references_per_intent f)) (firstn k (f_sub_vs f)) /\
                           ~ intent_ok (f_max_references_per_intent f) v) /\
  (Forall (intent_ok (f_max_references_per_intent f)) (f_root_v f :: f_sub_vs f) ->
   length (f_sub_vs f) = length (t_subs (f_tree f)) ->
   f_max_total_references f < total_references f ->
   validate_full f = FIntent FAcross (TooManyReferences (total_references f) (f_max_total_references f))).
Proof.
  intros f [[[rootch ps] ds] chs] HR.
  unfold validate_full, validate_full_with. fold (relationships (f_tree f)). rewrite HR. split; [|split].
  - intros e E. rewrite E. reflexivity.
  - intros t1 l e E1 E2. rewrite E1, E2. split; [reflexivity|].
    destruct (run_subs_inl _ _ _ _ _ _ _ E2) as (k & h & v & Hh & Hv & -> & F & R).
    exists k, h, v. repeat split; auto. intro Hok.
    assert (X : run_intent (f_max_references_per_intent f)
              (fold_left sat_add (map v_refs (firstn k (f_sub_vs f))) t1) v
            = inr (sat_add (fold_left sat_add (map v_refs (firstn k (f_sub_vs f))) t1) (v_refs v)))
      by (apply run_intent_inr; auto). congruence.
  - intros F Hlen Hgt. inversion F as [|? ? Hrv Fs]; subst.
    assert (Hl : length (hashes_of (f_tree f)) = length (f_sub_vs f)) by (unfold hashes_of; rewrite map_length; lia).
    assert (E1 : run_intent (f_max_references_per_intent f) 0 (f_root_v f) = inr (sat_add 0 (v_refs (f_root_v f))))
      by (apply run_intent_inr; auto).
    rewrite E1.
    assert (E2 : run_subs (f_max_references_per_intent f) 0 (hashes_of (f_tree f)) (f_sub_vs f) (sat_add 0 (v_refs (f_root_v f)))
                 = inr (fold_left sat_add (map v_refs (f_sub_vs f)) (sat_add 0 (v_refs (f_root_v f)))))
      by (apply run_subs_inr; auto).
    rewrite E2. unfold total_references in *. cbn [map fold_left] in Hgt.
    destruct (N.ltb_spec (f_max_total_references f)
                (fold_left sat_add (map v_refs (f_sub_vs f)) (sat_add 0 (v_refs (f_root_v f))))); [reflexivity|lia].
Qed.
(* the reference total is the saturating sum: min(sum, usize::MAX) *)
Theorem total_references_saturating : forall f,
  total_references f = N.min (fold_right N.add 0 (map v_refs (f_root_v f :: f_sub_vs f))) USIZE_MAX.
Proof. intro f. unfold total_references. rewrite fold_sat_min by (unfold USIZE_MAX; lia). reflexivity. Qed.
(* all intents pass and the total is within its limit: the verdict is the structure verdict of the base model *)
Theorem full_refines_structure : forall f,
  Forall (intent_ok (f_max_references_per_intent f)) (f_root_v f :: f_sub_vs f) ->
  length (f_sub_vs f) = length (t_subs (f_tree f)) ->
  total_references f <= f_max_total_references f ->
  validate_full f = FStructure (validate (f_tree f)).
Proof.
  intros f F Hlen Hle. inversion F as [|? ? Hrv Fs]; subst.
  assert (Hl : length (hashes_of (f_tree f)) = length (f_sub_vs f)) by (unfold hashes_of; rewrite map_length; lia).
  unfold validate_full, validate_full_with, validate, validate_with.
  destruct (relationships_with (length (hashes_of (f_tree f))) (f_tree f)) as [e|[[[rootch ps] ds] chs]]; [reflexivity|].
  assert (E1 : run_intent (f_max_references_per_intent f) 0 (f_root_v f) = inr (sat_add 0 (v_refs (f_root_v f))))
    by (apply run_intent_inr; auto).
  rewrite E1.
  assert (E2 : run_subs (f_max_references_per_intent f) 0 (hashes_of (f_tree f)) (f_sub_vs f) (sat_add 0 (v_refs (f_root_v f)))
               = inr (fold_left sat_add (map v_refs (f_sub_vs f)) (sat_add 0 (v_refs (f_root_v f)))))
    by (apply run_subs_inr; auto).
  rewrite E2. unfold total_references in Hle. cbn [map fold_left] in Hle.
  destruct (N.ltb_spec (f_max_total_references f)
              (fold_left sat_add (map v_refs (f_sub_vs f)) (sat_add 0 (v_refs (f_root_v f))))); [lia|].
  destruct (yield_check (yield_summaries (f_tree f)) (hashes_of (f_tree f)) ps 0); reflexivity.
Qed.
