(* C19 — proofs about the write layout of RocksDBWithMerkleTreeSubstateStore::commit and crashes. *)
From Coq Require Import List Arith NArith Bool Lia.
Import ListNotations.
Require Import RV.Lib.Bytes RV.Lib.SortedMap RV.Model.C14_Store RV.Model.C15_Stores RV.Gen.C15_consts
               RV.Proof.C15_Stores RV.Model.C19_CrashCommit.
Open Scope N_scope.

(* ================================================================================================ *)
(* A. effect of write operations per column family                                                  *)
(* ================================================================================================ *)
(* the effect of one operation on the substates column family alone *)
Definition apply_sub (m : kvmap) (w : wop) : kvmap :=
  match w with
  | WPut CfSubstates k v => kv_put list_kv m k v
  | WDelete CfSubstates k => kv_delete list_kv m k
  | WDeleteRange CfSubstates a b => kv_delete_range list_kv m a b
  | _ => m
  end.
Definition apply_meta (mt : option (N * bytes)) (w : wop) : option (N * bytes) :=
  match w with WPutMeta v r => Some (v, r) | _ => mt end.
Definition apply_nodes (m : kvmap) (w : wop) : kvmap :=
  match w with
  | WPut CfNodes k v => kv_put list_kv m k v
  | WDelete CfNodes k => kv_delete list_kv m k
  | WDeleteRange CfNodes a b => kv_delete_range list_kv m a b
  | _ => m
  end.

Lemma subs_apply_wop : forall s w, st_subs (apply_wop s w) = apply_sub (st_subs s) w.
Proof. intros s [[]| []| []|]; reflexivity. Qed.
Lemma meta_apply_wop : forall s w, st_meta (apply_wop s w) = apply_meta (st_meta s) w.
Proof. intros s [[]| []| []|]; reflexivity. Qed.
Lemma nodes_apply_wop : forall s w, st_nodes (apply_wop s w) = apply_nodes (st_nodes s) w.
Proof. intros s [[]| []| []|]; reflexivity. Qed.

Lemma subs_fold : forall ws s, st_subs (fold_left apply_wop ws s) = fold_left apply_sub ws (st_subs s).
Proof. induction ws as [|w ws IH]; intro s; [reflexivity|]. cbn [fold_left]. rewrite IH, subs_apply_wop. reflexivity. Qed.
Lemma meta_fold : forall ws s, st_meta (fold_left apply_wop ws s) = fold_left apply_meta ws (st_meta s).
Proof. induction ws as [|w ws IH]; intro s; [reflexivity|]. cbn [fold_left]. rewrite IH, meta_apply_wop. reflexivity. Qed.
Lemma nodes_fold : forall ws s, st_nodes (fold_left apply_wop ws s) = fold_left apply_nodes ws (st_nodes s).
Proof. induction ws as [|w ws IH]; intro s; [reflexivity|]. cbn [fold_left]. rewrite IH, nodes_apply_wop. reflexivity. Qed.

Lemma fold_left_flat_map : forall (A B C : Type) (f : A -> B -> A) (g : C -> list B) l a,
  fold_left f (flat_map g l) a = fold_left (fun a x => fold_left f (g x) a) l a.
Proof.
  intros A B C f g. induction l as [|x l IH]; intro a; [reflexivity|].
  cbn [flat_map fold_left]. rewrite fold_left_app. apply IH.
Qed.
Lemma fold_left_map : forall (A B C : Type) (f : A -> B -> A) (g : C -> B) l a,
  fold_left f (map g l) a = fold_left (fun a x => f a (g x)) l a.
Proof. intros A B C f g. induction l as [|x l IH]; intro a; [reflexivity|]. cbn [map fold_left]. apply IH. Qed.
Lemma fold_left_ext : forall (A B : Type) (f g : A -> B -> A), (forall a b, f a b = g a b) ->
  forall l a, fold_left f l a = fold_left g l a.
Proof. intros A B f g E. induction l as [|x l IH]; intro a; [reflexivity|]. cbn [fold_left]. rewrite E. apply IH. Qed.

(* the substate operations staged by `commit` have, applied in order, the effect of the substate
   part of the commit as modelled for C15 (`rocks_commit` on the ordered map) *)
Lemma part_wops_effect : forall pu pk m, fold_left apply_sub (part_wops pk pu) m = rocks_commit_part list_kv m pk pu.
Proof.
  intros [l|l] pk m; cbn [part_wops rocks_commit_part].
  - rewrite fold_left_map. apply fold_left_ext. intros a [k [v|]]; reflexivity.
  - cbn [fold_left apply_sub]. rewrite fold_left_map. apply fold_left_ext. intros a [k v]; reflexivity.
Qed.
Lemma node_wops_effect : forall nu nk m, fold_left apply_sub (node_wops nk nu) m = rocks_commit_node list_kv m nk nu.
Proof.
  intros nu nk m. unfold node_wops, rocks_commit_node. rewrite fold_left_flat_map.
  apply fold_left_ext. intros a e. apply part_wops_effect.
Qed.
Lemma subs_wops_effect : forall u m, fold_left apply_sub (subs_wops u) m = rocks_commit list_kv m u.
Proof.
  intros u m. unfold subs_wops, rocks_commit. rewrite fold_left_flat_map.
  apply fold_left_ext. intros a e. apply node_wops_effect.
Qed.

Lemma tree_wops_no_subs : forall pruning next d m, fold_left apply_sub (tree_wops pruning next d) m = m.
Proof.
  intros pruning next d m. unfold tree_wops. rewrite !fold_left_app.
  assert (P : forall l m, fold_left apply_sub (map (fun kv : bytes * bytes => WPut CfNodes (fst kv) (snd kv)) l) m = m).
  { induction l as [|x l IH]; intro m0; [reflexivity|]. cbn [map fold_left apply_sub]. apply IH. }
  rewrite P. destruct pruning; reflexivity.
Qed.
Lemma subs_wops_no_meta : forall u mt, fold_left apply_meta (subs_wops u) mt = mt.
Proof.
  assert (P : forall pu pk mt, fold_left apply_meta (part_wops pk pu) mt = mt).
  { intros [l|l] pk mt; cbn [part_wops]; [|cbn [fold_left apply_meta]]; rewrite fold_left_map;
      (induction l as [|[k x] l IH]; [reflexivity|]); cbn [fold_left]; [destruct x|]; apply IH. }
  intros u mt. unfold subs_wops. rewrite fold_left_flat_map.
  induction u as [|[nk nu] u IH]; [reflexivity|]. cbn [fold_left fst snd].
  replace (fold_left apply_meta (node_wops nk nu) mt) with mt; [exact IH|].
  unfold node_wops. rewrite fold_left_flat_map. clear IH.
  induction nu as [|[pn pu] nu IH]; [reflexivity|]. cbn [fold_left fst snd]. rewrite P. exact IH.
Qed.
Lemma tree_wops_meta : forall pruning next d mt, fold_left apply_meta (tree_wops pruning next d) mt = Some (next, td_root d).
Proof.
  intros pruning next d mt. unfold tree_wops. rewrite !fold_left_app. reflexivity.
Qed.

(* the whole batch of `commit`: substates as for C15's commit, metadata = (next version, new root) *)
Lemma batch_effect : forall pruning next u d s,
  let s' := fold_left apply_wop (subs_wops u ++ tree_wops pruning next d) s in
  st_subs s' = rocks_commit list_kv (st_subs s) u /\ st_meta s' = Some (next, td_root d).
Proof.
  intros pruning next u d s. cbv zeta. split.
  - rewrite subs_fold, fold_left_app, subs_wops_effect, tree_wops_no_subs. reflexivity.
  - rewrite meta_fold, fold_left_app, subs_wops_no_meta, tree_wops_meta. reflexivity.
Qed.

(* ================================================================================================ *)
(* B. prefixes of a step list                                                                       *)
(* ================================================================================================ *)
Definition del_node (k : bytes) : step := SDirect (WDelete CfNodes k).

Lemma crash_state_0 : forall steps s, crash_state 0 steps s = s.
Proof. reflexivity. Qed.
Lemma crash_state_S : forall k st steps s, crash_state (S k) (st :: steps) s = crash_state k steps (apply_step s st).
Proof. reflexivity. Qed.
Lemma crash_state_all : forall steps s, crash_state (length steps) steps s = run steps s.
Proof. intros. unfold crash_state. rewrite firstn_all. reflexivity. Qed.

(* deleting tree nodes changes neither the substates nor the metadata *)
Lemma del_nodes_proj : forall ds s, proj (run (map del_node ds) s) = proj s.
Proof.
  induction ds as [|k ds IH]; intro s; [reflexivity|]. unfold run in *. cbn [map fold_left]. rewrite IH. reflexivity.
Qed.
Lemma crash_del_nodes_proj : forall j ds s, proj (crash_state j (map del_node ds) s) = proj s.
Proof. intros j ds s. unfold crash_state. rewrite firstn_map. apply del_nodes_proj. Qed.

Lemma nth_prefix_states : forall steps s k, (k <= length steps)%nat ->
  nth_error (prefix_states steps s) k = Some (crash_state k steps s).
Proof.
  induction steps as [|st steps IH]; intros s k L.
  - destruct k; [reflexivity|cbn in L; lia].
  - destruct k as [|k]; [reflexivity|]. cbn [prefix_states nth_error]. rewrite crash_state_S.
    apply IH. cbn in L. lia.
Qed.

(* ================================================================================================ *)
(* C. consistency                                                                                   *)
(* ================================================================================================ *)
Section Consistency.
  (* the state root that describes a set of substates (the tree hash of C17) *)
  Variable root_of : kvmap -> bytes.
  (* `complete nodes v r`: every tree node reachable from the root of version v (hash r) is stored *)
  Variable complete : kvmap -> N -> bytes -> Prop.

  Definition Consistent (s : store) : Prop :=
    cur_root s = root_of (st_subs s) /\ complete (st_nodes s) (cur_version s) (cur_root s).

  (* one batch, then only deletions of tree nodes *)
  Theorem atomic_layout_safe : forall s ws ds,
    let steps := SBatch ws :: map del_node ds in
    let post := run steps s in
    Consistent s ->
    cur_root post = root_of (st_subs post) ->
    (forall j, (j <= length ds)%nat ->
       complete (st_nodes (crash_state (S j) steps s)) (cur_version post) (cur_root post)) ->
    forall k, (k <= length steps)%nat ->
      Consistent (crash_state k steps s) /\
      (k = 0%nat -> crash_state k steps s = s) /\
      ((1 <= k)%nat -> proj (crash_state k steps s) = proj post).
  Proof.
    intros s ws ds steps post C0 HR HC k L.
    assert (PP : proj post = proj (apply_step s (SBatch ws))).
    { unfold post, steps, run. cbn [fold_left]. apply del_nodes_proj. }
    destruct k as [|j].
    - rewrite crash_state_0. split; [exact C0|split; [reflexivity|lia]].
    - assert (PJ : proj (crash_state (S j) steps s) = proj post).
      { unfold steps. rewrite crash_state_S, crash_del_nodes_proj. symmetry. exact PP. }
      split; [|split; [discriminate|intros _; exact PJ]].
      unfold proj in PJ. injection PJ as E1 E2 E3. unfold Consistent. rewrite E1, E2, E3.
      split; [exact HR|]. apply HC. unfold steps in L. cbn [length] in L. rewrite map_length in L. lia.
  Qed.

  (* `commit` as written has this layout, and its batch carries the substates, the new version and root *)
  Lemma commit_layout : forall pruning s u d steps,
    commit_steps pruning s u d = CommitSteps steps ->
    cur_version s + 1 < 2 ^ 64 /\
    steps = SBatch (subs_wops u ++ tree_wops pruning (cur_version s + 1) d)
            :: map del_node (if pruning then td_deleted d else []).
  Proof.
    intros pruning s u d steps H. unfold commit_steps in H.
    destruct (2 ^ 64 <=? cur_version s + 1) eqn:O; [discriminate|]. apply N.leb_gt in O.
    injection H as H. split; [exact O|]. subst steps. unfold prune_steps. destruct pruning; reflexivity.
  Qed.

  Lemma commit_post : forall pruning s u d steps,
    commit_steps pruning s u d = CommitSteps steps ->
    let post := run steps s in
    st_subs post = rocks_commit list_kv (st_subs s) u /\
    cur_version post = cur_version s + 1 /\ cur_root post = td_root d.
  Proof.
    intros pruning s u d steps H post. destruct (commit_layout _ _ _ _ _ H) as [_ E].
    assert (P : proj post = proj (apply_step s (SBatch (subs_wops u ++ tree_wops pruning (cur_version s + 1) d)))).
    { unfold post. rewrite E. unfold run. cbn [fold_left]. apply del_nodes_proj. }
    destruct (batch_effect pruning (cur_version s + 1) u d s) as [B1 B2]. cbn [apply_step] in P.
    unfold proj in P. injection P as E1 E2 E3. rewrite E1, E2, E3.
    set (s' := fold_left apply_wop _ s) in *.
    split; [exact B1|].
    assert (V : cur_version s' = cur_version s + 1) by (unfold cur_version at 1; rewrite B2; reflexivity).
    assert (Rr : cur_root s' = td_root d) by (unfold cur_root; rewrite B2; reflexivity).
    split; assumption.
  Qed.

  Theorem commit_crash_safe : forall pruning s u d steps,
    commit_steps pruning s u d = CommitSteps steps ->
    let post := run steps s in
    Consistent s ->
    (* what the state tree computation guarantees (C17, C18), for the tree diff it returned: *)
    td_root d = root_of (st_subs post) ->
    (forall j, (1 <= j <= length steps)%nat ->
       complete (st_nodes (crash_state j steps s)) (cur_version s + 1) (td_root d)) ->
    forall k, (k <= length steps)%nat ->
      Consistent (crash_state k steps s) /\
      (proj (crash_state k steps s) = proj s \/ proj (crash_state k steps s) = proj post).
  Proof.
    intros pruning s u d steps H post C0 HR HC k L.
    destruct (commit_post _ _ _ _ _ H) as [_ [PV PR]]. fold post in PV, PR.
    destruct (commit_layout _ _ _ _ _ H) as [_ E].
    set (ws := subs_wops u ++ tree_wops pruning (cur_version s + 1) d) in *.
    set (ds := if pruning then td_deleted d else []) in *.
    assert (A := atomic_layout_safe s ws ds C0). cbv zeta in A. rewrite <- E in A. fold post in A.
    assert (L' : forall j, (j <= length ds)%nat -> (1 <= S j <= length steps)%nat).
    { intros j Lj. rewrite E. cbn [length]. rewrite map_length. lia. }
    specialize (A (eq_trans PR HR)).
    assert (HC' : forall j, (j <= length ds)%nat ->
              complete (st_nodes (crash_state (S j) steps s)) (cur_version post) (cur_root post)).
    { intros j Lj. rewrite PV, PR. apply HC. apply L'. exact Lj. }
    destruct (A HC' k L) as [CK [K0 K1]]. split; [exact CK|].
    destruct k as [|k]; [left; rewrite K0; reflexivity|right; apply K1; lia].
  Qed.
End Consistency.

(* ================================================================================================ *)
(* C'. completeness of the new tree at every crash point from the state tree's two guarantees       *)
(* ================================================================================================ *)
Local Notation BST := blt_strict_total.
Definition stored (nodes : kvmap) (k : bytes) : Prop := lookup blt k nodes <> None.

Lemma stored_insert : forall m k' v k, sorted blt m ->
  (stored (insert blt k' v m) k <-> k = k' \/ stored m k).
Proof.
  intros m k' v k S. unfold stored. rewrite (lookup_insert _ BST) by exact S.
  destruct (keqb blt k k') eqn:E.
  - apply (keqb_eq _ BST) in E. split; [intros _; left; exact E|intros _; discriminate].
  - apply (keqb_neq _ BST) in E. split; [intro H; right; exact H|intros [H|H]; [contradiction|exact H]].
Qed.
Lemma stored_remove : forall m k' k, sorted blt m -> k <> k' -> (stored (remove blt k' m) k <-> stored m k).
Proof. intros m k' k S NE. unfold stored. rewrite (lookup_remove_neq _ BST) by assumption. tauto. Qed.

Definition put_nodes (l : kvmap) (m : kvmap) : kvmap := fold_left (fun m kv => insert blt (fst kv) (snd kv) m) l m.
Definition del_nodes (ds : list bytes) (m : kvmap) : kvmap := fold_left (fun m k => remove blt k m) ds m.

Lemma put_nodes_sorted : forall l m, sorted blt m -> sorted blt (put_nodes l m).
Proof. induction l as [|[k v] l IH]; intros m S; [exact S|]. apply IH. apply (insert_sorted _ BST). exact S. Qed.
Lemma stored_put_nodes : forall l m k, sorted blt m -> (stored (put_nodes l m) k <-> In k (map fst l) \/ stored m k).
Proof.
  induction l as [|[k' v] l IH]; intros m k S; [cbn; tauto|]. unfold put_nodes in *. cbn [fold_left map fst snd In].
  rewrite IH by (apply (insert_sorted _ BST); exact S). rewrite stored_insert by exact S.
  split; [intros [H|[H|H]]|intros [[H|H]|H]]; auto.
Qed.
Lemma del_nodes_sorted : forall ds m, sorted blt m -> sorted blt (del_nodes ds m).
Proof. induction ds as [|k ds IH]; intros m S; [exact S|]. apply IH. apply remove_sorted; assumption. Qed.
Lemma stored_del_nodes : forall ds m k, sorted blt m -> ~ In k ds -> (stored (del_nodes ds m) k <-> stored m k).
Proof.
  induction ds as [|k' ds IH]; intros m k S NI; [tauto|]. unfold del_nodes in *. cbn [fold_left].
  rewrite IH; [|apply remove_sorted; assumption|intro H; apply NI; right; exact H].
  apply stored_remove; [exact S|intro E; apply NI; left; symmetry; exact E].
Qed.

Lemma fold_id : forall (A B : Type) (f : A -> B -> A) l a, (forall b, In b l -> forall a, f a b = a) -> fold_left f l a = a.
Proof.
  intros A B f. induction l as [|b l IH]; intros a H; [reflexivity|]. cbn [fold_left].
  rewrite (H b (or_introl eq_refl)). apply IH. intros b' I. apply H. right. exact I.
Qed.
Lemma subs_wops_only_subs : forall u w, In w (subs_wops u) -> forall m, apply_nodes m w = m.
Proof.
  intros u w I m. unfold subs_wops in I. apply in_flat_map in I. destruct I as [[nk nu] [_ I]].
  unfold node_wops in I. apply in_flat_map in I. destruct I as [[pn pu] [_ I]]. cbn [fst snd] in I.
  destruct pu as [l|l]; cbn [part_wops] in I.
  - apply in_map_iff in I. destruct I as [[k x] [E _]]. subst w. destruct x; reflexivity.
  - destruct I as [E|I]; [subst w; reflexivity|]. apply in_map_iff in I. destruct I as [[k x] [E _]]. subst w. reflexivity.
Qed.
Lemma tree_wops_nodes : forall pruning next d m, fold_left apply_nodes (tree_wops pruning next d) m = put_nodes (td_new_nodes d) m.
Proof.
  intros pruning next d m. unfold tree_wops. rewrite !fold_left_app, fold_left_map.
  replace (fold_left (fun a x => apply_nodes a (WPut CfNodes (fst x) (snd x))) (td_new_nodes d) m)
    with (put_nodes (td_new_nodes d) m) by reflexivity.
  destruct pruning; reflexivity.
Qed.
Lemma batch_nodes : forall pruning next u d s,
  st_nodes (fold_left apply_wop (subs_wops u ++ tree_wops pruning next d) s) = put_nodes (td_new_nodes d) (st_nodes s).
Proof.
  intros. rewrite nodes_fold, fold_left_app, (fold_id _ _ apply_nodes (subs_wops u)) by (apply subs_wops_only_subs).
  apply tree_wops_nodes.
Qed.
Lemma del_steps_nodes : forall ds s, st_nodes (run (map del_node ds) s) = del_nodes ds (st_nodes s).
Proof.
  induction ds as [|k ds IH]; intro s; [reflexivity|]. unfold run, del_nodes in *. cbn [map fold_left]. rewrite IH. reflexivity.
Qed.

Lemma in_firstn : forall (A : Type) n (l : list A) x, In x (firstn n l) -> In x l.
Proof. intros A n l x I. rewrite <- (firstn_skipn n l). apply in_or_app. left. exact I. Qed.

Section TreeGuarantees.
  Variable root_of : kvmap -> bytes.
  (* keys of the tree nodes reachable from the root (hash r) of version v *)
  Variable needed : N -> bytes -> list bytes.
  Definition complete_by (nodes : kvmap) (v : N) (r : bytes) : Prop := forall k, In k (needed v r) -> stored nodes k.

  Theorem commit_crash_safe_tree : forall pruning s u d steps,
    commit_steps pruning s u d = CommitSteps steps ->
    let post := run steps s in
    sorted blt (st_nodes s) ->
    Consistent root_of complete_by s ->
    (* C17: the returned root describes the post-commit substates; the new tree is made of stored and new nodes *)
    td_root d = root_of (st_subs post) ->
    (forall k, In k (needed (cur_version s + 1) (td_root d)) -> stored (st_nodes s) k \/ In k (map fst (td_new_nodes d))) ->
    (* C18: no pruned key is needed by the new tree *)
    (forall k, In k (td_deleted d) -> ~ In k (needed (cur_version s + 1) (td_root d))) ->
    forall k, (k <= length steps)%nat ->
      Consistent root_of complete_by (crash_state k steps s) /\
      (proj (crash_state k steps s) = proj s \/ proj (crash_state k steps s) = proj post).
  Proof.
    intros pruning s u d steps H post SN C0 HR H17 H18 k L.
    apply (commit_crash_safe root_of complete_by pruning s u d steps H C0 HR); [|exact L].
    intros j [J1 J2] key NK. destruct (commit_layout _ _ _ _ _ H) as [_ E].
    destruct j as [|j]; [lia|]. rewrite E, crash_state_S. unfold crash_state. rewrite firstn_map.
    rewrite del_steps_nodes. cbn [apply_step]. rewrite batch_nodes.
    apply stored_del_nodes.
    - apply put_nodes_sorted. exact SN.
    - intro I. assert (I' : In key (td_deleted d)).
      { destruct pruning; [exact (in_firstn _ _ _ _ I)|destruct j; destruct I]. }
      exact (H18 _ I' NK).
    - apply stored_put_nodes; [exact SN|]. destruct (H17 _ NK) as [A|A]; [right|left]; exact A.
  Qed.
End TreeGuarantees.

Lemma commit_panics_iff : forall pruning s u d,
  commit_steps pruning s u d = CommitPanic <-> 2 ^ 64 <= cur_version s + 1.
Proof.
  intros pruning s u d. unfold commit_steps. destruct (2 ^ 64 <=? cur_version s + 1) eqn:O.
  - apply N.leb_le in O. split; [intros _; exact O|reflexivity].
  - apply N.leb_gt in O. split; [discriminate|lia].
Qed.
(* with C15: the post-commit substates are the DatabaseUpdates semantics of the in-memory store *)
Lemma post_substates_are_the_updates : forall pruning s u d steps db,
  commit_steps pruning s u d = CommitSteps steps ->
  flat_ok (st_subs s) db -> updates_ok u ->
  flat_ok (st_subs (run steps s)) (mem_commit db u).
Proof.
  intros pruning s u d steps db H F U.
  destruct (commit_post _ _ _ _ _ H) as [E _]. rewrite E.
  apply flat_commit; assumption.
Qed.

(* ================================================================================================ *)
(* D. the layout before the fix is not crash safe                                                   *)
(* ================================================================================================ *)
Definition w_store : store := mkStore None [] [] [].
Definition w_updates : db_updates := [([7], [(0, PDelta [([1], USet [42])])])].
Definition w_diff : tree_diff := mkDiff [([0;0;0;0;0;0;0;1;0], [9])] [] [] (repeat 5 32).

Lemma pre_fix_refuted :
  exists steps, commit_steps_pre_fix true w_store w_updates w_diff = CommitSteps steps /\
    (1 <= length steps)%nat /\
    proj (crash_state 1 steps w_store) <> proj w_store /\
    proj (crash_state 1 steps w_store) <> proj (run steps w_store) /\
    forall (root_of : kvmap -> bytes) (complete : kvmap -> N -> bytes -> Prop),
      Consistent root_of complete w_store ->
      root_of [] <> root_of (st_subs (crash_state 1 steps w_store)) ->
      ~ Consistent root_of complete (crash_state 1 steps w_store).
Proof.
  eexists. split; [vm_compute; reflexivity|]. split; [cbn; lia|].
  split; [vm_compute; discriminate|]. split; [vm_compute; discriminate|].
  intros root_of complete [C0 _] NE [C1 _]. apply NE. rewrite <- C1.
  symmetry. exact C0.
Qed.

(* the same commit with the layout of the repaired code: every prefix is the pre- or post-state *)
Lemma fixed_layout_witness :
  exists steps, commit_steps true w_store w_updates w_diff = CommitSteps steps /\
    forall k, (k <= length steps)%nat ->
      proj (crash_state k steps w_store) = proj w_store \/ proj (crash_state k steps w_store) = proj (run steps w_store).
Proof.
  eexists. split; [vm_compute; reflexivity|]. intros k L. cbn in L.
  destruct k as [|[|k]]; [left; reflexivity|right; reflexivity|lia].
Qed.
