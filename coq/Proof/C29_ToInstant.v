(* C29 — to_instant agrees with the Gregorian specification on valid date-times. *)
From Coq Require Import List ZArith Bool Lia.
Import ListNotations.
Require Import RV.Model.C29_Calendar RV.Proof.C29_Calendar.
Open Scope Z_scope.

Ltac zdm := Z.div_mod_to_equations.

Lemma u32_ok : forall E x, 0 <= x <= U32_MAX -> @u32 E x = Ok x.
Proof.
  intros E x H. unfold u32, in_u32.
  replace ((0 <=? x) && (x <=? U32_MAX)) with true; [reflexivity|].
  symmetry; apply andb_true_iff; split; apply Z.leb_le; lia.
Qed.
Lemma u8_ok : forall E x, 0 <= x <= 255 -> @u8 E x = Ok x.
Proof.
  intros E x H. unfold u8, in_u8, U8_MAX.
  replace ((0 <=? x) && (x <=? 255)) with true; [reflexivity|].
  symmetry; apply andb_true_iff; split; apply Z.leb_le; lia.
Qed.
Lemma i64_ok : forall E x, I64_MIN <= x <= I64_MAX -> @i64 E x = Ok x.
Proof.
  intros E x H. unfold i64, in_i64.
  replace ((I64_MIN <=? x) && (x <=? I64_MAX)) with true; [reflexivity|].
  symmetry; apply andb_true_iff; split; apply Z.leb_le; lia.
Qed.

Definition nleap (y : Z) : Z := (y - 1) / 4 - (y - 1) / 100 + (y - 1) / 400.

Lemma nleap_step : forall y, nleap (y + 1) = nleap y + (if greg_leap y then 1 else 0).
Proof.
  intros y. pose proof (dby_step y) as H. unfold days_before_year, year_len in H.
  unfold nleap. destruct (greg_leap y); lia.
Qed.

Lemma nleap_mono : forall y1 y2, y1 <= y2 -> nleap y1 <= nleap y2.
Proof.
  intros y1 y2 H.
  assert (forall k, nleap y1 <= nleap (y1 + Z.of_nat k)) as G.
  { induction k as [|k IH]; [rewrite Z.add_0_r; lia|].
    replace (y1 + Z.of_nat (S k)) with (y1 + Z.of_nat k + 1) by lia.
    rewrite nleap_step. destruct (greg_leap _); lia. }
  specialize (G (Z.to_nat (y2 - y1))). replace (y1 + Z.of_nat (Z.to_nat (y2 - y1))) with y2 in G by lia.
  exact G.
Qed.

Lemma nleap_bounds : forall y, 1 <= y -> 0 <= nleap y <= y.
Proof. intros y H. unfold nleap. zdm. lia. Qed.

Lemma nl_ok : forall E y, 1 <= y <= U32_MAX + 1 ->
  @num_leap_years_up_to_exclusive E y = Ok (nleap y).
Proof.
  intros E y H. unfold num_leap_years_up_to_exclusive, U32_MAX in *.
  rewrite u32_ok by (unfold U32_MAX; lia). cbn [bind].
  rewrite u32_ok by (unfold U32_MAX; zdm; lia). cbn [bind].
  rewrite u32_ok by (unfold U32_MAX; zdm; lia). reflexivity.
Qed.

Definition m12 (m : Z) : Prop :=
  m = 1 \/ m = 2 \/ m = 3 \/ m = 4 \/ m = 5 \/ m = 6 \/ m = 7 \/ m = 8 \/ m = 9 \/ m = 10
  \/ m = 11 \/ m = 12.
Lemma m12_of : forall m, 1 <= m <= 12 -> m12 m.
Proof. intros m H. unfold m12. lia. Qed.

Ltac each_month C := unfold m12 in C; repeat (destruct C as [C|C]; [subst|]); [..|subst].

Lemma months_fwd_ok : forall l m, 1 <= m <= 12 ->
  months_fwd l (Z.to_nat (m - 1)) 0 0 = Some (days_before_month l m * 86400).
Proof.
  intros l m H. apply m12_of in H. destruct l; each_month H; reflexivity.
Qed.

Lemma months_bwd_ok : forall l m, 1 <= m <= 12 ->
  months_bwd 12 l 11 (m - 1) 0 =
  Some (((if l then 366 else 365) - days_before_month l m - month_len l m) * 86400, m - 1).
Proof.
  intros l m H. apply m12_of in H. destruct l; each_month H; reflexivity.
Qed.

Lemma idx_month : forall m, 1 <= m <= 12 ->
  idx LEAP_YEAR_DAYS_IN_MONTHS (m - 1) = Some (month_len true m).
Proof. intros m H. apply m12_of in H. each_month H; reflexivity. Qed.

Lemma month_len_false : forall m l, 1 <= m <= 12 ->
  month_len l m = if negb l && (m =? 2) then month_len true m - 1 else month_len true m.
Proof. intros m l H. apply m12_of in H. destruct l; each_month H; reflexivity. Qed.

Lemma dbm_bounds : forall l m, 1 <= m <= 12 -> 0 <= days_before_month l m <= 335.
Proof. intros l m H. rewrite dbm_table by lia. apply m12_of in H. destruct l; each_month H; lia. Qed.

Theorem to_instant_spec : forall E d, valid_dt d -> @to_instant E d = Ok (greg_seconds d).
Proof.
  intros E [y m dd h mi s] V. unfold valid_dt in V. cbn [year month day hour minute second] in V.
  destruct V as (Hy & Hm & Hd & Hh & Hmi & Hs).
  pose proof (month_len_bounds (greg_leap y) m Hm) as MLB.
  pose proof (dbm_bounds (greg_leap y) m Hm) as DBB.
  unfold to_instant, greg_seconds, days_from_civil. cbn [year month day hour minute second].
  rewrite greg_leap_alt.
  unfold UNIX_EPOCH_YEAR, SECONDS_IN_A_NON_LEAP_YEAR, SECONDS_IN_A_LEAP_YEAR, SECONDS_IN_A_DAY,
    SECONDS_IN_AN_HOUR, SECONDS_IN_A_MINUTE, DAYS_0001_TO_1970.
  destruct (Z.leb_spec 1970 y) as [Y|Y].
  - rewrite nl_ok by (unfold U32_MAX in *; lia). cbn [bind].
    rewrite u32_ok by (unfold U32_MAX; lia). cbn [bind].
    rewrite nl_ok by (unfold U32_MAX in *; lia). cbn [bind].
    change (nleap (1970 + 1)) with 477.
    pose proof (nleap_mono 1970 y Y) as NM. change (nleap 1970) with 477 in NM.
    pose proof (nleap_bounds y ltac:(lia)) as NB.
    rewrite u32_ok by (unfold U32_MAX in *; lia). cbn [bind].
    rewrite u32_ok by (unfold U32_MAX in *; lia). cbn [bind].
    unfold U32_MAX in *.
    rewrite i64_ok by (unfold I64_MIN, I64_MAX; lia). cbn [bind].
    rewrite i64_ok by (unfold I64_MIN, I64_MAX; lia). cbn [bind].
    rewrite i64_ok by (unfold I64_MIN, I64_MAX; lia). cbn [bind].
    rewrite i64_ok by (unfold I64_MIN, I64_MAX; lia). cbn [bind].
    rewrite u8_ok by lia. cbn [bind].
    rewrite months_fwd_ok by lia.
    rewrite u8_ok by lia. cbn [bind].
    rewrite i64_ok by (unfold I64_MIN, I64_MAX; lia). cbn [bind].
    f_equal. unfold days_before_year, nleap in *. lia.
  - rewrite nl_ok by (unfold U32_MAX in *; lia). cbn [bind].
    rewrite u32_ok by (unfold U32_MAX; lia). cbn [bind].
    rewrite nl_ok by (unfold U32_MAX in *; lia). cbn [bind].
    change (nleap 1970) with 477.
    pose proof (nleap_mono (y + 1) 1970 ltac:(lia)) as NM. change (nleap 1970) with 477 in NM.
    pose proof (nleap_bounds (y + 1) ltac:(lia)) as NB.
    pose proof (nleap_step y) as NS.
    unfold U32_MAX in *.
    rewrite u32_ok by (unfold U32_MAX in *; lia). cbn [bind].
    rewrite u32_ok by (unfold U32_MAX in *; lia). cbn [bind].
    rewrite u32_ok by (unfold U32_MAX in *; lia). cbn [bind].
    rewrite i64_ok by (unfold I64_MIN, I64_MAX; lia). cbn [bind].
    rewrite i64_ok by (unfold I64_MIN, I64_MAX; lia). cbn [bind].
    rewrite i64_ok by (unfold I64_MIN, I64_MAX; lia). cbn [bind].
    rewrite i64_ok by (unfold I64_MIN, I64_MAX; lia). cbn [bind].
    rewrite u8_ok by lia. cbn [bind].
    rewrite months_bwd_ok by lia.
    rewrite idx_month by lia.
    replace (m - 1 =? 1) with (m =? 2)
      by (destruct (Z.eqb_spec m 2), (Z.eqb_spec (m - 1) 1); lia).
    rewrite <- (month_len_false m (greg_leap y)) by lia.
    rewrite u8_ok by lia. cbn [bind].
    rewrite u8_ok by lia. cbn [bind].
    rewrite u8_ok by lia. cbn [bind].
    rewrite i64_ok by (unfold I64_MIN, I64_MAX; destruct (greg_leap y); lia). cbn [bind].
    rewrite i64_ok by (unfold I64_MIN, I64_MAX; destruct (greg_leap y); lia).
    f_equal. unfold days_before_year, nleap in *. destruct (greg_leap y); lia.
Qed.
