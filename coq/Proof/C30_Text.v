(* C30/C31 — exhaustive finite-domain facts about the string escaper and the string lexer. *)
From Coq Require Import List NArith Bool Lia.
Import ListNotations.
Require Import RV.Model.C30_Text.
Open Scope N_scope.

(* all n in [lo, lo+cnt) satisfy f : iteration over N without building a list *)
Definition forall_range (f : N -> bool) (lo cnt : N) : bool :=
  snd (N.iter cnt (fun st => (fst st + 1, snd st && f (fst st))) (lo, true)).
Lemma forall_range_spec : forall f lo cnt, forall_range f lo cnt = true -> forall n, lo <= n < lo + cnt -> f n = true.
Proof.
  intros f lo cnt. unfold forall_range.
  assert (G : forall k, let st := N.iter k (fun st => (fst st + 1, snd st && f (fst st))) (lo, true) in
              fst st = lo + k /\ (snd st = true -> forall n, lo <= n < lo + k -> f n = true)).
  { intro k. induction k as [|k IH] using N.peano_ind.
    - cbn. split; [lia|]. intros _ n Hn. lia.
    - rewrite N.iter_succ. cbn zeta in *. destruct IH as [I1 I2].
      set (st := N.iter k (fun st => (fst st + 1, snd st && f (fst st))) (lo, true)) in *. cbn [fst snd].
      split; [lia|].
      intros Hs n Hn. apply andb_true_iff in Hs. destruct Hs as [Hs Hf].
      destruct (N.eq_dec n (lo + k)) as [->|Hne]; [rewrite <- I1; exact Hf|].
      apply (I2 Hs). lia. }
  intros H n Hn. destruct (G cnt) as [_ G2]. apply (G2 H n Hn).
Qed.

Definition sres_is (r : sres) (s : list N) : bool :=
  match r with SOk s' _ => (fix eqb (a b : list N) := match a, b with [] , [] => true | x :: a', y :: b' => N.eqb x y && eqb a' b' | _, _ => false end) s' s | _ => false end.

(* every 16-bit unit printed as 4 hex digits is read back by read_utf16_unit *)
Definition hex4_ok (v : N) : bool :=
  match hex4 v with [a; b; c; d] => match hex4val a b c d with Some v' => N.eqb v v' | None => false end | _ => false end.
Lemma hex4_roundtrip_all : forall v, v < 65536 -> hex4_ok v = true.
Proof.
  assert (H : forall_range hex4_ok 0 65536 = true) by (vm_compute; reflexivity).
  intros v Hv. apply (forall_range_spec _ _ _ H). split; [apply N.le_0_l | exact Hv].
Qed.

(* ---- the string lexer on the shapes the escaper prints -------------------------------------------------- *)
(* a character that is neither the quote nor the backslash is copied *)
Lemma lex_plain : forall c t pos start acc, c <> 34 -> c <> 92 ->
  lex_string (c :: t) pos start acc = lex_string t (pos + 1) start (c :: acc).
Proof.
  intros c t pos start acc H34 H92.
  destruct c as [|p]; [reflexivity|].
  do 7 (try (destruct p as [p|p|]; try reflexivity)); exfalso; (apply H34; reflexivity) || (apply H92; reflexivity).
Qed.
Lemma lex_u_single : forall a b c d r pos start acc v, hex4val a b c d = Some v ->
  (55296 <=? v) && (v <=? 57343) = false -> is_scalar v = true ->
  lex_string (92 :: 117 :: a :: b :: c :: d :: r) pos start acc = lex_string r (pos + 6) start (v :: acc).
Proof. intros a b c d r pos start acc v H1 H2 H3. cbn [lex_string]. rewrite H1, H2, H3. reflexivity. Qed.
Lemma lex_u_pair : forall a b c d a2 b2 c2 d2 r pos start acc hi lo,
  hex4val a b c d = Some hi -> hex4val a2 b2 c2 d2 = Some lo ->
  (55296 <=? hi) && (hi <=? 57343) = true ->
  (65536 + (hi - 55296) * 1024 + lo <? 56320) = false ->
  is_scalar (65536 + (hi - 55296) * 1024 + lo - 56320) = true ->
  lex_string (92 :: 117 :: a :: b :: c :: d :: 92 :: 117 :: a2 :: b2 :: c2 :: d2 :: r) pos start acc =
  lex_string r (pos + 6 + 6) start ((65536 + (hi - 55296) * 1024 + lo - 56320) :: acc).
Proof.
  intros a b c d a2 b2 c2 d2 r pos start acc hi lo H1 H2 H3 H4 H5. cbn [lex_string].
  rewrite H1, H3, H2. cbv zeta. rewrite H4, H5. reflexivity.
Qed.

Lemma hex4_val : forall v, v < 65536 ->
  hex4val (hexdigit (v / 4096)) (hexdigit ((v / 256) mod 16)) (hexdigit ((v / 16) mod 16)) (hexdigit (v mod 16)) = Some v.
Proof.
  intros v Hv. pose proof (hex4_roundtrip_all v Hv) as H. unfold hex4_ok, hex4 in H.
  destruct (hex4val _ _ _ _) as [v'|]; [|discriminate]. apply N.eqb_eq in H. congruence.
Qed.

Lemma is_scalar_spec : forall c, is_scalar c = true <-> c < 55296 \/ (57343 < c /\ c < 1114112).
Proof.
  intro c; unfold is_scalar. rewrite orb_true_iff, andb_true_iff, !N.ltb_lt. tauto.
Qed.

(* one character: whatever the escaper prints for a scalar value c is consumed by the lexer, which
   appends exactly c and continues with the rest of the text *)
Lemma lex_esc_char : forall f c t pos start acc, is_scalar c = true ->
  exists k, lex_string (esc_char f c ++ t) pos start acc = lex_string t (pos + k) start (c :: acc).
Proof.
  intros f c t pos start acc Hs. unfold esc_char.
  destruct (c =? 92) eqn:E1; [apply N.eqb_eq in E1; subst; exists 2; reflexivity|].
  destruct (c =? 10) eqn:E2; [apply N.eqb_eq in E2; subst; exists 2; reflexivity|].
  destruct (c =? 13) eqn:E3; [apply N.eqb_eq in E3; subst; exists 2; reflexivity|].
  destruct (c =? 9) eqn:E4; [apply N.eqb_eq in E4; subst; exists 2; reflexivity|].
  destruct (c =? 8) eqn:E5; [apply N.eqb_eq in E5; subst; exists 2; reflexivity|].
  destruct (c =? 12) eqn:E6; [apply N.eqb_eq in E6; subst; exists 2; reflexivity|].
  destruct (c =? 34) eqn:E7; [apply N.eqb_eq in E7; subst; exists 2; reflexivity|].
  apply N.eqb_neq in E1. apply N.eqb_neq in E7.
  apply is_scalar_spec in Hs.
  destruct (f c).
  - destruct (c <? 65536) eqn:E8.
    + apply N.ltb_lt in E8. exists 6. unfold hex4. cbn [app].
      apply lex_u_single; [apply hex4_val; exact E8 | | apply is_scalar_spec; exact Hs].
      apply andb_false_iff. destruct Hs as [Hs|[Hs _]]; [left; apply N.leb_gt; exact Hs | right; apply N.leb_gt; exact Hs].
    + apply N.ltb_ge in E8. exists (6 + 6). cbv zeta. unfold hex4. cbn [app].
      set (v := c - 65536).
      assert (Hv : v < 1048576) by (unfold v; lia).
      pose proof (N.div_mod v 1024 ltac:(discriminate)) as Hdm.
      pose proof (N.mod_lt v 1024 ltac:(discriminate)) as Hml.
      assert (Hq : v / 1024 < 1024) by (apply N.div_lt_upper_bound; [discriminate | lia]).
      set (hi := 55296 + v / 1024) in *. set (lo := 56320 + v mod 1024) in *.
      assert (Hval : 65536 + (hi - 55296) * 1024 + lo - 56320 = c) by (unfold hi, lo, v in *; lia).
      rewrite (lex_u_pair _ _ _ _ _ _ _ _ t pos start acc hi lo).
      * rewrite Hval, N.add_assoc. reflexivity.
      * apply hex4_val. unfold hi; lia.
      * apply hex4_val. unfold lo; lia.
      * apply andb_true_iff; split; apply N.leb_le; unfold hi; lia.
      * apply N.ltb_ge. unfold hi, lo; lia.
      * rewrite Hval. apply is_scalar_spec. lia.
  - exists 1. cbn [app]. apply lex_plain; assumption.
Qed.

(* whole strings: lexing the printed body followed by the closing quote yields the string *)
Lemma lex_esc_string : forall f s rest pos start acc, Forall (fun c => is_scalar c = true) s ->
  exists e, lex_string (flat_map (esc_char f) s ++ 34 :: rest) pos start acc = SOk (rev acc ++ s) e.
Proof.
  intros f s; induction s as [|c s IH]; intros rest pos start acc Hs.
  - exists (pos + 1). cbn. rewrite app_nil_r. reflexivity.
  - inversion Hs as [|? ? Hc Hs']; subst. cbn [flat_map]. rewrite <- app_assoc.
    destruct (lex_esc_char f c (flat_map (esc_char f) s ++ 34 :: rest) pos start acc Hc) as [k Hk].
    rewrite Hk. destruct (IH rest (pos + k) start (c :: acc) Hs') as [e He]. exists e. rewrite He.
    cbn [rev]. rewrite <- app_assoc. reflexivity.
Qed.

(* unescape (escape s) = s *)
Theorem string_roundtrip : forall f s, Forall (fun c => is_scalar c = true) s ->
  exists e, lex_string_literal (escape f s) = SOk s e.
Proof.
  intros f s Hs. unfold lex_string_literal, escape.
  destruct (lex_esc_string f s [] 1 0 [] Hs) as [e He]. exists e. exact He.
Qed.
(* ... also when more text follows the literal *)
Theorem string_roundtrip_in_context : forall f s rest, Forall (fun c => is_scalar c = true) s ->
  exists e, lex_string (flat_map (esc_char f) s ++ 34 :: rest) 1 0 [] = SOk s e.
Proof. intros f s rest Hs. exact (lex_esc_string f s rest 1 0 [] Hs). Qed.

