(* C30/C31 — exhaustive finite-domain facts about the string escaper and the string lexer. *)
From Coq Require Import List NArith Bool Lia.
Import ListNotations.
Require Import RV.Model.C30_Text.
Open Scope N_scope.

(* all n in [lo, lo+cnt) satisfy f : iteration over N without building a list *)
Definition forall_range (f : N -> bool) (lo cnt : N) : bool :=
  snd (N.iter cnt (fun st => (fst st + 1, snd st && f (fst st))) (lo, true)).
Lemma forall_range_spec : forall f lo cnt, forall_range f lo cnt = true -> forall n, lo <= n < lo + cnt -> f n = true.
Proof.
  intros f lo cnt. unfold forall_range.
  assert (G : forall k, let st := N.iter k (fun st => (fst st + 1, snd st && f (fst st))) (lo, true) in
              fst st = lo + k /\ (snd st = true -> forall n, lo <= n < lo + k -> f n = true)).
  { intro k. induction k as [|k IH] using N.peano_ind.
    - cbn. split; [lia|]. intros _ n Hn. lia.
    - rewrite N.iter_succ. cbn zeta in *. destruct IH as [I1 I2].
      set (st := N.iter k (fun st => (fst st + 1, snd st && f (fst st))) (lo, true)) in *. cbn [fst snd].
      split; [lia|].
      intros Hs n Hn. apply andb_true_iff in Hs. destruct Hs as [Hs Hf].
      destruct (N.eq_dec n (lo + k)) as [->|Hne]; [rewrite <- I1; exact Hf|].
      apply (I2 Hs). lia. }
  intros H n Hn. destruct (G cnt) as [_ G2]. apply (G2 H n Hn).
Qed.

Definition sres_is (r : sres) (s : list N) : bool :=
  match r with SOk s' _ => (fix eqb (a b : list N) := match a, b with [] , [] => true | x :: a', y :: b' => N.eqb x y && eqb a' b' | _, _ => false end) s' s | _ => false end.

(* every 16-bit unit printed as 4 hex digits is read back by read_utf16_unit *)
Definition hex4_ok (v : N) : bool :=
  match hex4 v with [a; b; c; d] => match hex4val a b c d with Some v' => N.eqb v v' | None => false end | _ => false end.
Lemma hex4_roundtrip_all : forall v, v < 65536 -> hex4_ok v = true.
Proof.
  assert (H : forall_range hex4_ok 0 65536 = true) by (vm_compute; reflexivity).
  intros v Hv. apply (forall_range_spec _ _ _ H). split; [apply N.le_0_l | exact Hv].
Qed.

(* every Unicode scalar value, printed by the escaper (escaped or not), followed by the closing quote,
   is read back by the lexer as exactly that character *)
Definition char_ok (c : N) : bool :=
  negb (is_scalar c) ||
  (sres_is (lex_string (esc_char (fun _ => true) c ++ [34]) 1 0 []) [c] &&
   sres_is (lex_string (esc_char (fun _ => false) c ++ [34]) 1 0 []) [c]).
Lemma escape_char_roundtrip_all : forall c, c < 1114112 -> char_ok c = true.
Proof.
  assert (H : forall_range char_ok 0 1114112 = true) by (vm_compute; reflexivity).
  intros c Hc. apply (forall_range_spec _ _ _ H). split; [apply N.le_0_l | exact Hc].
Qed.
