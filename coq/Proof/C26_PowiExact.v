(* checked_powi: the result is exact when no division along the recursion truncates *)
From Coq Require Import ZArith List Bool Lia.
Import ListNotations.
Require Import RV.Lib.DecCore RV.Lib.DecCoreFacts RV.Model.C25_Round RV.Model.C24_Dec RV.Model.C26_RootPow
  RV.Proof.C25_Round RV.Proof.C24_Dec RV.Proof.C26_Powi RV.Proof.C26_PowiMag.
Open Scope Z_scope.

Lemma eq_even x d r o j : 1 <= j -> d * o = x * x -> r * o ^ (j - 1) = d ^ j -> r * o ^ (2 * j - 1) = x ^ (2 * j).
Proof.
  intros Hj H1 H2. rewrite pow_split, pow_sq by lia. rewrite <- H1, Z.pow_mul_l, <- H2. ring.
Qed.
Lemma eq_odd x d r b o j : 1 <= j -> d * o = x * x -> b * o ^ (j - 1) = d ^ j -> r * o = x * b ->
  r * o ^ (2 * j) = x ^ (2 * j + 1).
Proof.
  intros Hj H1 H2 H3.
  assert (E1 : o ^ (2 * j) = o * (o ^ (j - 1) * o ^ j)).
  { rewrite <- pow_split by lia. rewrite <- Z.pow_succ_r by lia. f_equal. lia. }
  assert (E2 : x ^ (2 * j + 1) = x * (x * x) ^ j).
  { rewrite <- pow_sq by lia. replace (2 * j + 1) with (Z.succ (2 * j)) by lia. apply Z.pow_succ_r. lia. }
  rewrite E1, E2, <- H1, Z.pow_mul_l, <- H2.
  replace (r * (o * (o ^ (j - 1) * o ^ j))) with ((r * o) * (o ^ (j - 1) * o ^ j)) by ring.
  rewrite H3. ring.
Qed.

Section Powi4.
  Variable f : fmt.
  Hypothesis Hok : fmt_ok f.
  Local Notation ONE := (one f).

  (* no truncation happens along the recursion for (x, e) *)
  Fixpoint steps_exact (k : nat) (x e : Z) : Prop :=
    match k with
    | 0%nat => True
    | S k' =>
      if (e =? 0) || (e =? 1) then True else
      Z.rem (x * x) ONE = 0 /\
      let d := Z.quot (x * x) ONE in
      if Z.rem e 2 =? 0 then steps_exact k' d (Z.quot e 2)
      else steps_exact k' d (Z.quot (e - 1) 2) /\
           forall b, ppow_go f k' d (Z.quot (e - 1) 2) = Ok b -> Z.rem (x * b) ONE = 0
    end.

  Lemma quot_exact a b : b <> 0 -> Z.rem a b = 0 -> Z.quot a b * b = a.
  Proof. intros Hb Hr. pose proof (Z.quot_rem' a b). lia. Qed.

  Lemma ppow_go_exact : forall k x e r, InF f x -> ppow_go f k x e = Ok r -> steps_exact k x e -> 1 <= e ->
    r * ONE ^ (e - 1) = x ^ e.
  Proof.
    pose proof (one_pos f Hok) as H1.
    induction k as [|k IH]; intros x e r Hx H Hs He; [discriminate|]. rewrite ppow_go_S in H.
    cbn [steps_exact] in Hs.
    destruct (Z.eqb_spec e 0); [lia|].
    destruct (Z.eqb_spec e 1) as [->|Hne1].
    { inversion H; subst. change (1 - 1) with 0. rewrite Z.pow_0_r, Z.pow_1_r. lia. }
    cbn [orb] in Hs. destruct Hs as [Hsq Hs]. cbv zeta in Hs.
    destruct (exact_or_none f (Z.quot (x * x) ONE)) as [d| |] eqn:Ed; cbn [bind] in H; try discriminate.
    apply (exact_or_none_inv f) in Ed. destruct Ed as [Ed Hd]. rewrite <- Ed in Hs.
    assert (HD : d * ONE = x * x) by (rewrite Ed; apply quot_exact; lia).
    destruct (even_odd_split e ltac:(lia)) as [Hev Hod].
    destruct (Z.eqb_spec (Z.rem e 2) 0) as [E|E].
    - destruct (Hev E) as [Ee Hj]. set (j := Z.quot e 2) in *.
      pose proof (IH d j r Hd H Hs Hj) as IHr. rewrite Ee. apply (eq_even x d); assumption.
    - destruct (Hod E) as [Ee Hj]. set (j := Z.quot (e - 1) 2) in *. destruct Hs as [Hs Hb].
      destruct (ppow_go f k d j) as [b| |] eqn:Eb; cbn [bind] in H; try discriminate.
      apply (exact_or_none_inv f) in H. destruct H as [Er _].
      assert (HR : r * ONE = x * b) by (rewrite Er; apply quot_exact; [lia|apply Hb; reflexivity]).
      assert (Hj1 : 1 <= j).
      { destruct Hj as [E3|]; [|assumption]. unfold j. rewrite E3. reflexivity. }
      pose proof (IH d j b Hd Eb Hs Hj1) as IHb.
      rewrite Ee. replace (2 * j + 1 - 1) with (2 * j) by lia. apply (eq_odd x d r b); assumption.
  Qed.

  Theorem powi_exact_if_steps_exact x exp r : InF f x -> 1 <= exp <= I64_MAX ->
    dec_powi f x exp = Ok r -> steps_exact 66 x exp -> r * ONE ^ (exp - 1) = x ^ exp.
  Proof.
    intros Hx He H Hs. rewrite (powi_nonneg_step f Hok) in H by (try assumption; lia).
    apply (ppow_go_exact 66 x exp r Hx H Hs). lia.
  Qed.
End Powi4.
