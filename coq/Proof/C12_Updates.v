(* C12 — to_state_updates: applying the final StateUpdates to the base database yields the view
   (partitions not marked for deletion). *)
From Coq Require Import List NArith Bool Lia.
Import ListNotations.
Require Import RV.Model.C12_Track RV.Model.C12_View RV.Proof.C12_Maps RV.Proof.C12_Track RV.Proof.C12_Main.
Open Scope N_scope.

Definition su_get (s : supd) (n p : N) : option pupd :=
  match al_get n s with Some nd => al_get p nd | None => None end.
Definition pu_default (o : option pupd) : pupd := match o with Some x => x | None => PDelta [] end.

Lemma su_get_update : forall s n p f n' p',
  su_get (su_update s n p f) n' p' =
  if (n' =? n) && (p' =? p) then Some (f (pu_default (su_get s n p))) else su_get s n' p'.
Proof.
  intros. unfold su_get, su_update. rewrite al_get_im_set. destruct (n' =? n) eqn:En; simpl; [|reflexivity].
  apply N.eqb_eq in En; subst. rewrite al_get_im_set. destruct (p' =? p) eqn:Ep.
  - unfold pu_default. destruct (al_get n s); reflexivity.
  - destruct (al_get n s); reflexivity.
Qed.

Lemma iset_mem_cons : forall x y l, iset_mem x (y :: l) = ((fst x =? fst y) && (snd x =? snd y)) || iset_mem x l.
Proof. reflexivity. Qed.

Lemma su_deleted_other : forall del s0 n p, iset_mem (n, p) del = false ->
  su_get (fold_left (fun s e => su_update s (fst e) (snd e) (fun _ => PReset [])) del s0) n p = su_get s0 n p.
Proof.
  induction del as [|[n0 p0] r IH]; simpl; intros s0 n p H; [reflexivity|].
  apply orb_false_iff in H. destruct H as [H1 H2]. simpl in H1. rewrite IH by assumption.
  rewrite su_get_update. rewrite H1. reflexivity.
Qed.

Definition part_su (s : supd) (n p : N) (ps : tpart) : option pupd :=
  match im_collect (part_updates (ps_subs ps)) with
  | [] => su_get s n p
  | ups => Some (mut_update_substates ups (pu_default (su_get s n p)))
  end.

Lemma su_parts_get : forall parts s n n' p', NoDup (map fst parts) ->
  su_get (su_parts s n parts) n' p' =
  if n' =? n then match al_get p' parts with Some ps => part_su s n p' ps | None => su_get s n p' end
  else su_get s n' p'.
Proof.
  induction parts as [|[p0 ps0] r IH]; simpl; intros s n n' p' Hn.
  - destruct (n' =? n) eqn:E; [apply N.eqb_eq in E; subst|]; reflexivity.
  - inversion Hn; subst. rewrite IH by assumption.
    set (s1 := match im_collect (part_updates (ps_subs ps0)) with
               | [] => s
               | _ :: _ => su_update s n p0 (mut_update_substates (im_collect (part_updates (ps_subs ps0))))
               end).
    assert (G : forall n'' p'', su_get s1 n'' p'' =
                 if (n'' =? n) && (p'' =? p0) then part_su s n p0 ps0 else su_get s n'' p'').
    { intros. unfold s1, part_su. destruct (im_collect (part_updates (ps_subs ps0))) eqn:U.
      - destruct ((n'' =? n) && (p'' =? p0)) eqn:E; [|reflexivity].
        apply andb_true_iff in E. destruct E as [E1 E2]. apply N.eqb_eq in E1, E2. subst. reflexivity.
      - rewrite su_get_update. reflexivity. }
    destruct (n' =? n) eqn:En.
    + apply N.eqb_eq in En; subst n'. destruct (p' =? p0) eqn:Ep.
      * apply N.eqb_eq in Ep; subst p'. apply al_get_none_notin in H1. rewrite H1.
        rewrite G, !N.eqb_refl. reflexivity.
      * destruct (al_get p' r) as [ps|].
        -- unfold part_su. rewrite G, N.eqb_refl, Ep. reflexivity.
        -- rewrite G, N.eqb_refl, Ep. reflexivity.
    + rewrite G, En. reflexivity.
Qed.

Lemma su_nodes_get : forall ns s n p, nodes_wf ns ->
  su_get (su_nodes s ns) n p =
  match al_get n ns with
  | Some nd => match al_get p (tn_parts nd) with Some ps => part_su s n p ps | None => su_get s n p end
  | None => su_get s n p
  end.
Proof.
  induction ns as [|[n0 nd0] r IH]; intros s n p [W1 W2]; [reflexivity|].
  simpl in W1. inversion W1; subst. simpl.
  assert (Wr : nodes_wf r).
  { split; [assumption|]. intros m nd G. apply (W2 m). simpl. destruct (m =? n0) eqn:E; [|assumption].
    apply N.eqb_eq in E; subst. apply al_get_in in G. exfalso. apply H1. change n0 with (fst (n0, nd)). apply in_map. assumption. }
  rewrite IH by assumption.
  assert (Np : NoDup (map fst (tn_parts nd0))) by (apply (W2 n0); simpl; rewrite N.eqb_refl; reflexivity).
  destruct (n =? n0) eqn:En.
  - apply N.eqb_eq in En; subst n. apply al_get_none_notin in H1. rewrite H1.
    rewrite su_parts_get, N.eqb_refl by assumption. reflexivity.
  - destruct (al_get n r) as [nd|].
    + destruct (al_get p (tn_parts nd)) as [ps|].
      * unfold part_su. rewrite su_parts_get, En by assumption. reflexivity.
      * rewrite su_parts_get, En by assumption. reflexivity.
    + rewrite su_parts_get, En by assumption. reflexivity.
Qed.

Lemma al_get_part_updates : forall subs k, NoDup (map fst subs) ->
  al_get k (part_updates subs) = match al_get k subs with Some tv => tsv_update tv | None => None end.
Proof.
  induction subs as [|[k0 tv0] r IH]; simpl; intros k Hn; [reflexivity|].
  inversion Hn; subst. destruct (tsv_update tv0) eqn:U; simpl.
  - destruct (k =? k0); [simpl; rewrite U; reflexivity|apply IH; assumption].
  - rewrite IH by assumption. destruct (k =? k0) eqn:E; [|reflexivity].
    apply N.eqb_eq in E; subst. apply al_get_none_notin in H1. rewrite H1. simpl. rewrite U. reflexivity.
Qed.
Lemma part_updates_keys : forall subs k, In k (map fst (part_updates subs)) -> In k (map fst subs).
Proof.
  induction subs as [|[k0 tv0] r IH]; simpl; intros k H; [assumption|].
  destruct (tsv_update tv0); simpl in H; [destruct H; auto|auto].
Qed.
Lemma part_updates_nodup : forall subs, NoDup (map fst subs) -> NoDup (map fst (part_updates subs)).
Proof.
  induction subs as [|[k0 tv0] r IH]; simpl; intros Hn; [constructor|].
  inversion Hn; subst. destruct (tsv_update tv0); simpl; [|auto].
  constructor; [|auto]. intros H. apply H1. apply part_updates_keys. assumption.
Qed.

Lemma fold_im_set_get : forall A (l acc : list (N * A)) k, NoDup (map fst l) ->
  al_get k (fold_left (fun acc e => im_set (fst e) (snd e) acc) l acc) =
  match al_get k l with Some a => Some a | None => al_get k acc end.
Proof.
  induction l as [|[k0 a0] r IH]; simpl; intros acc k Hn; [reflexivity|].
  inversion Hn; subst. rewrite IH by assumption. rewrite al_get_im_set. destruct (k =? k0) eqn:E; [|reflexivity].
  apply N.eqb_eq in E; subst. apply al_get_none_notin in H1. rewrite H1. reflexivity.
Qed.
Lemma fold_im_set_nodup : forall A (l acc : list (N * A)), NoDup (map fst acc) ->
  NoDup (map fst (fold_left (fun acc e => im_set (fst e) (snd e) acc) l acc)).
Proof.
  induction l as [|[k0 a0] r IH]; simpl; intros acc H; [assumption|]. apply IH. apply im_set_nodup. assumption.
Qed.

Lemma apply_su_get : forall s db n p k,
  apply_su s db n p k =
  match su_get s n p with
  | None => al_get k (db n p)
  | Some (PDelta l) => match al_get k l with Some (USet v) => Some v | Some UDelete => None | None => al_get k (db n p) end
  | Some (PReset l) => al_get k l
  end.
Proof. intros. unfold apply_su, su_get. destruct (al_get n s); reflexivity. Qed.

Definition upd_value (tv : tsv) (b : option value) : option value :=
  match tsv_update tv with Some (USet v) => Some v | Some UDelete => None | None => b end.

Lemma state_updates_lookup : forall db t n p k,
  nodes_wf (t_nodes t) -> subs_sorted (t_nodes t) -> iset_mem (n, p) (t_del t) = false ->
  apply_su (snd (to_state_updates t)) db n p k =
  match tlookup (t_nodes t) n p k with Some tv => upd_value tv (al_get k (db n p)) | None => al_get k (db n p) end.
Proof.
  intros db t n p k W S D. unfold to_state_updates. simpl. rewrite apply_su_get.
  rewrite su_nodes_get by auto. unfold su_deleted.
  assert (Z : su_get (fold_left (fun s e => su_update s (fst e) (snd e) (fun _ => PReset [])) (t_del t) []) n p = None).
  { rewrite su_deleted_other by assumption. reflexivity. }
  unfold tlookup, find_part. destruct (al_get n (t_nodes t)) as [nd|] eqn:G; [|rewrite Z; reflexivity].
  destruct (al_get p (tn_parts nd)) as [ps|] eqn:G2; [|rewrite Z; reflexivity].
  assert (Ns : NoDup (map fst (ps_subs ps))).
  { apply sorted_nodup. apply (S n p). unfold find_part. rewrite G. assumption. }
  pose proof (part_updates_nodup _ Ns) as Nu.
  assert (C : forall k', al_get k' (im_collect (part_updates (ps_subs ps))) = al_get k' (part_updates (ps_subs ps))).
  { intros. unfold im_collect. rewrite fold_im_set_get by assumption. destruct (al_get k' (part_updates (ps_subs ps))); reflexivity. }
  unfold part_su. fold (su_deleted (t_del t)). unfold su_deleted. rewrite Z. simpl.
  destruct (im_collect (part_updates (ps_subs ps))) as [|e ups] eqn:U.
  - specialize (C k). simpl in C. rewrite al_get_part_updates in C by assumption. unfold upd_value.
    destruct (al_get k (ps_subs ps)) as [tv|]; [|reflexivity]. rewrite <- C. reflexivity.
  - change (fold_left (fun (acc : list (N * dbupd)) (e0 : N * dbupd) => im_set (fst e0) (snd e0) acc) ups [(fst e, snd e)])
      with (fold_left (fun (acc : list (N * dbupd)) (e0 : N * dbupd) => im_set (fst e0) (snd e0) acc) (e :: ups) []).
    rewrite <- U. rewrite <- U in C. rewrite fold_im_set_get.
    + rewrite C, al_get_part_updates by assumption. unfold upd_value.
      destruct (al_get k (ps_subs ps)) as [tv|]; [|reflexivity]. destruct (tsv_update tv) as [[v|]|]; reflexivity.
    + unfold im_collect. apply fold_im_set_nodup. constructor.
Qed.

Lemma upd_value_ok : forall tv b, tsv_ok tv b -> upd_value tv b = tsv_get tv.
Proof. destruct tv as [| | |? w| |w|]; try destruct w; unfold upd_value; simpl; intros; congruence. Qed.

Lemma state_updates_exact : forall db t s n p k, db_wf db -> reach db t s ->
  iset_mem (n, p) (v_del s) = false ->
  apply_su (snd (to_state_updates t)) db n p k = al_get k (v_view s n p).
Proof.
  intros db t s n p k Hdb R D. pose proof (reach_inv _ _ _ Hdb R) as I.
  rewrite state_updates_lookup; [|apply (inv_wf _ _ _ I)|apply (inv_sorted _ _ _ I)|rewrite (inv_del _ _ _ I); assumption].
  rewrite (inv_view _ _ _ I). unfold tview. destruct (tlookup (t_nodes t) n p k) as [tv|] eqn:L; [|reflexivity].
  apply upd_value_ok. eapply (inv_ok _ _ _ I); eauto.
Qed.


Lemma inv_updates_exact : forall db t s n p k, Inv db t s -> iset_mem (n, p) (v_del s) = false ->
  apply_su (snd (to_state_updates t)) db n p k = al_get k (v_view s n p).
Proof.
  intros db t s n p k I D.
  rewrite state_updates_lookup; [|apply (inv_wf _ _ _ I)|apply (inv_sorted _ _ _ I)|rewrite (inv_del _ _ _ I); assumption].
  rewrite (inv_view _ _ _ I). unfold tview. destruct (tlookup (t_nodes t) n p k) as [tv|] eqn:L; [|reflexivity].
  apply upd_value_ok. eapply (inv_ok _ _ _ I); eauto.
Qed.

Lemma new_nodes_none : forall (ns : nodes) acc, (forall n nd, In (n, nd) ns -> tn_new nd = false) ->
  fold_left (fun acc e => if tn_new (snd e) then iset_add1 (fst e) acc else acc) ns acc = acc.
Proof.
  induction ns as [|[n0 nd0] r IH]; simpl; intros acc H; [reflexivity|].
  rewrite (H n0 nd0) by (left; reflexivity). apply IH. intros. eapply H. right; eassumption.
Qed.

Require Import RV.Proof.C12_Revert.
(* after a revert the final StateUpdates change exactly the force-written keys, to their
   force-written values, and no node is reported as new *)
Lemma revert_updates_only_force_writes : forall db t s t' n p k, db_wf db -> reach db t s ->
  no_blind_overwrite db t -> revert t = Some t' -> iset_mem (n, p) (v_del s) = false ->
  apply_su (snd (to_state_updates t')) db n p k =
    match fw_get (v_fw s) n p k with Some x => x | None => al_get k (db n p) end
  /\ fst (to_state_updates t') = [].
Proof.
  intros db t s t' n p k Hdb R Hnb E D. pose proof (reach_inv _ _ _ Hdb R) as I.
  pose proof (step_revert _ _ _ _ Hdb I Hnb E) as I1. split.
  - rewrite (inv_updates_exact _ _ _ _ _ _ I1) by assumption. simpl. apply fw_view_spec. apply Hdb.
  - unfold to_state_updates, new_nodes. simpl. apply new_nodes_none.
    intros m nd Hin. pose proof (inv_new _ _ _ I1 m) as X. simpl in X. unfold node_is_new in X.
    rewrite (in_nodup_al_get _ _ _ _ (proj1 (inv_wf _ _ _ I1)) Hin) in X. assumption.
Qed.

(* ---------- partitions marked by delete_partition: Reset, then only what this transaction wrote ---------- *)
Lemma su_deleted_get : forall del s0 n p,
  su_get (fold_left (fun s e => su_update s (fst e) (snd e) (fun _ => PReset [])) del s0) n p =
  if iset_mem (n, p) del then Some (PReset []) else su_get s0 n p.
Proof.
  induction del as [|[n0 p0] r IH]; simpl; intros s0 n p; [reflexivity|].
  rewrite IH, su_get_update. destruct (iset_mem (n, p) r); simpl; [rewrite orb_true_r; reflexivity|].
  rewrite orb_false_r. destruct ((n =? n0) && (p =? p0)); reflexivity.
Qed.

Lemma fold_batch_get : forall (ups : list (key * dbupd)) (acc : list (key * value)) k,
  NoDup (map fst ups) -> (forall k', In k' (map fst ups) -> al_get k' acc = None) ->
  al_get k (fold_left batch_update ups acc) =
  match al_get k ups with Some (USet v) => Some v | Some UDelete => None | None => al_get k acc end.
Proof.
  induction ups as [|[k0 u0] r IH]; simpl; intros acc k Hn Hacc; [reflexivity|].
  inversion Hn; subst.
  assert (A0 : al_get k0 acc = None) by (apply Hacc; left; reflexivity).
  destruct u0 as [v|]; unfold batch_update at 2; simpl.
  - rewrite IH; [|assumption|].
    + rewrite al_get_im_set. destruct (k =? k0) eqn:E; [|reflexivity].
      apply N.eqb_eq in E; subst. apply al_get_none_notin in H1. rewrite H1. reflexivity.
    + intros k' Hin. rewrite al_get_im_set. destruct (k' =? k0) eqn:E.
      * apply N.eqb_eq in E; subst. contradiction.
      * apply Hacc. right; assumption.
  - assert (im_swap_remove k0 acc = acc) as -> by (unfold im_swap_remove; rewrite A0; reflexivity).
    rewrite IH; [|assumption|intros; apply Hacc; right; assumption].
    destruct (k =? k0) eqn:E; [|reflexivity].
    apply N.eqb_eq in E; subst. apply al_get_none_notin in H1. rewrite H1. assumption.
Qed.

Definition written_value (tv : tsv) : option value :=
  match tsv_update tv with Some (USet v) => Some v | _ => None end.

Lemma state_updates_lookup_deleted : forall db t n p k,
  nodes_wf (t_nodes t) -> subs_sorted (t_nodes t) -> iset_mem (n, p) (t_del t) = true ->
  apply_su (snd (to_state_updates t)) db n p k =
  match tlookup (t_nodes t) n p k with Some tv => written_value tv | None => None end.
Proof.
  intros db t n p k W S D. unfold to_state_updates. simpl. rewrite apply_su_get.
  rewrite su_nodes_get by auto. unfold su_deleted.
  assert (Z : su_get (fold_left (fun s e => su_update s (fst e) (snd e) (fun _ => PReset [])) (t_del t) []) n p = Some (PReset [])).
  { rewrite su_deleted_get, D. reflexivity. }
  unfold tlookup, find_part. destruct (al_get n (t_nodes t)) as [nd|] eqn:G; [|rewrite Z; reflexivity].
  destruct (al_get p (tn_parts nd)) as [ps|] eqn:G2; [|rewrite Z; reflexivity].
  assert (Ns : NoDup (map fst (ps_subs ps))).
  { apply sorted_nodup. apply (S n p). unfold find_part. rewrite G. assumption. }
  pose proof (part_updates_nodup _ Ns) as Nu.
  assert (C : forall k', al_get k' (im_collect (part_updates (ps_subs ps))) = al_get k' (part_updates (ps_subs ps))).
  { intros. unfold im_collect. rewrite fold_im_set_get by assumption. destruct (al_get k' (part_updates (ps_subs ps))); reflexivity. }
  assert (Nc : NoDup (map fst (im_collect (part_updates (ps_subs ps))))) by (unfold im_collect; apply fold_im_set_nodup; constructor).
  unfold part_su. rewrite Z. simpl.
  destruct (im_collect (part_updates (ps_subs ps))) as [|e ups] eqn:U.
  - specialize (C k). simpl in C. rewrite al_get_part_updates in C by assumption. unfold written_value.
    destruct (al_get k (ps_subs ps)) as [tv|]; [|reflexivity]. rewrite <- C. reflexivity.
  - change (fold_left batch_update ups (batch_update [] e)) with (fold_left batch_update (e :: ups) []).
    rewrite <- U. rewrite <- U in C. rewrite <- U in Nc. rewrite fold_batch_get; [|assumption|intros; reflexivity].
    rewrite C, al_get_part_updates by assumption. unfold written_value. simpl.
    destruct (al_get k (ps_subs ps)) as [tv|]; [|reflexivity]. destruct (tsv_update tv) as [[v|]|]; reflexivity.
Qed.

Lemma written_value_view : forall tv b v, tsv_ok tv b -> written_value tv = Some v -> tsv_get tv = Some v.
Proof. destruct tv as [| | |? w| |w|]; try destruct w; unfold written_value; simpl; intros; congruence. Qed.

(* a partition marked by delete_partition holds, after the commit, exactly the values this transaction
   wrote into it (each of them is what the view holds at that key); nothing of the base survives *)
Lemma state_updates_deleted : forall db t s n p k, db_wf db -> reach db t s ->
  iset_mem (n, p) (v_del s) = true ->
  apply_su (snd (to_state_updates t)) db n p k =
    match tlookup (t_nodes t) n p k with Some tv => written_value tv | None => None end
  /\ forall v, apply_su (snd (to_state_updates t)) db n p k = Some v -> al_get k (v_view s n p) = Some v.
Proof.
  intros db t s n p k Hdb R D. pose proof (reach_inv _ _ _ Hdb R) as I.
  assert (E : apply_su (snd (to_state_updates t)) db n p k =
              match tlookup (t_nodes t) n p k with Some tv => written_value tv | None => None end).
  { apply state_updates_lookup_deleted; [apply (inv_wf _ _ _ I)|apply (inv_sorted _ _ _ I)|rewrite (inv_del _ _ _ I); assumption]. }
  split; [assumption|]. intros v. rewrite E. rewrite (inv_view _ _ _ I). unfold tview.
  destruct (tlookup (t_nodes t) n p k) as [tv|] eqn:L; [|discriminate].
  intros X. eapply written_value_view; eauto. eapply (inv_ok _ _ _ I); eauto.
Qed.
