(* Proof/C42_System.v — the staking state machine (Model/C42_Staking.v, second half): reward bound,
   invariant, conservation of XRD over arbitrary operation sequences, claims. *)
From Coq Require Import ZArith List Bool Lia.
Import ListNotations.
Require Import RV.Model.C42_Staking RV.Proof.C42_Staking.
Open Scope Z_scope.

(* ---------------------------------------------------------------------------------------------- *)
(* small list facts *)

Lemma zsum_app l1 l2 : zsum (l1 ++ l2) = zsum l1 + zsum l2.
Proof. induction l1; cbn [app zsum]; lia. Qed.
Lemma zsum_nonneg l : Forall (fun x => 0 <= x) l -> 0 <= zsum l.
Proof. induction 1; cbn [zsum]; lia. Qed.

Lemma lookup_nonneg k l : Forall (fun it : Z * Z => 0 <= snd it) l -> 0 <= lookup k l.
Proof.
  induction 1 as [|[k' v] l Hv Hl IH]; cbn [lookup]; [lia|]. cbn in Hv. destruct (k =? k'); lia.
Qed.
Lemma lookup_cons k k0 v l : lookup k ((k0, v) :: l) = if k =? k0 then v else lookup k l.
Proof. reflexivity. Qed.
Lemma lookup_notin k l : ~ In k (map fst l) -> lookup k l = 0.
Proof.
  induction l as [|[k' v] l IH]; cbn [lookup map fst In]; [auto|]. intros H.
  destruct (Z.eqb_spec k k'); [subst; tauto|]. apply IH. tauto.
Qed.
(* the values found under distinct keys sum to at most the sum of all (non-negative) values *)
Lemma lookup_sum_le ks : forall l,
  NoDup ks -> Forall (fun it : Z * Z => 0 <= snd it) l ->
  zsum (map (fun k => lookup k l) ks) <= zsum (map snd l).
Proof.
  intros l Hnd Hl. revert ks Hnd. induction Hl as [|[k0 v] l Hv Hl IH]; intros ks Hnd.
  - cbn [lookup map zsum]. induction ks; cbn [map zsum lookup]; [lia|]. inversion Hnd; subst. auto with zarith.
  - cbn [map snd zsum]. cbn in Hv.
    (* split ks at k0 *)
    assert (Hks : zsum (map (fun k => lookup k ((k0, v) :: l)) ks)
                  <= v + zsum (map (fun k => lookup k l) ks)).
    { clear IH. induction ks as [|k ks IHk]; cbn [map zsum]; [lia|].
      inversion Hnd as [|? ? Hnin Hnd']; subst. rewrite (lookup_cons k k0 v l).
      destruct (Z.eqb_spec k k0).
      - subst k.
        assert (Hrest : zsum (map (fun k => lookup k ((k0, v) :: l)) ks) = zsum (map (fun k => lookup k l) ks)).
        { clear -Hnin. induction ks as [|k ks IH]; cbn [map zsum]; [reflexivity|].
          rewrite (lookup_cons k k0 v l). destruct (Z.eqb_spec k k0); [subst; exfalso; apply Hnin; left; auto|].
          rewrite IH; [reflexivity|]. intros H; apply Hnin; right; auto. }
        rewrite Hrest. pose proof (lookup_nonneg k0 l Hl). lia.
      - specialize (IHk Hnd'). lia. }
    specialize (IH ks Hnd). lia.
Qed.

(* ---------------------------------------------------------------------------------------------- *)
(* rewards never exceed the rewards vault *)

Definition active_ok (active : list (Z * Z * Z * Z)) : Prop :=
  Forall (fun a : Z * Z * Z * Z => 0 <= snd (fst a) /\ 0 <= snd a) active.

Lemma infos_idx_ok minrel active : forall idx is,
  infos_idx minrel idx active = Some is -> active_ok active ->
  Forall (fun i : Z * info => info_ok (snd i) /\ idx <= fst i) is /\
  NoDup (map fst is).
Proof.
  induction active as [|[[[id st] made] missed] rest IH]; intros idx is H Ha; cbn [infos_idx] in H.
  - assert (is = []) by congruence. subst. split; constructor.
  - inversion Ha as [|? ? [Hmade Hmissed] Ha']; subst. cbn [fst snd] in *.
    destruct (Z.ltb_spec 0 st).
    + destruct (success_ratio made missed) as [sr|] eqn:E1; cbn [obind] in H; [|discriminate].
      destruct (reliability_factor sr minrel) as [f|] eqn:E2; cbn [obind] in H; [|discriminate].
      destruct (dmul st f) as [eff|] eqn:E3; cbn [obind] in H; [|discriminate].
      destruct (infos_idx minrel (idx + 1) rest) as [r|] eqn:E4; cbn [obind] in H; [|discriminate].
      assert (is = (idx, (id, st, eff)) :: r) by congruence. subst.
      apply success_ratio_range in E1; auto. apply reliability_factor_range in E2; auto.
      apply dmul_some in E3; [|lia|lia].
      destruct (IH (idx + 1) r E4 Ha') as [Hr Hnd]. split.
      * constructor.
        -- cbn [fst snd]. split; [|lia]. unfold info_ok. cbn [fst snd]. pose proof DD_pos. subst eff.
           split; [apply Z.div_pos; nia|]. apply Z.div_le_upper_bound; nia.
        -- eapply Forall_impl; [|exact Hr]. cbn. intros a [? ?]. split; [auto|lia].
      * cbn [map fst]. constructor; [|auto]. intros Hin. apply in_map_iff in Hin.
        destruct Hin as [x [Hx Hxin]]. rewrite Forall_forall in Hr. specialize (Hr x Hxin). lia.
    + destruct (IH (idx + 1) is H Ha') as [Hr Hnd]. split; [|auto].
      eapply Forall_impl; [|exact Hr]. cbn. intros a [? ?]. split; [auto|lia].
Qed.

Lemma rewards_split rps proposer : 0 <= rps -> Forall (fun it : Z * Z => 0 <= snd it) proposer ->
  forall is l,
  Forall (fun i : Z * info => info_ok (snd i)) is ->
  map_opt (fun i : Z * info =>
             obind (dmul (snd (snd i)) rps) (fun m =>
             obind (dadd (lookup (fst i) proposer) m) (fun t => Some (fst (fst (snd i)), t)))) is = Some l ->
  Forall (fun it : Z * Z => 0 <= snd it) l /\
  (zsum (map snd l) - zsum (map (fun i : Z * info => lookup (fst i) proposer) is)) * DD
    <= zsum (map (fun i : Z * info => snd (snd i)) is) * rps.
Proof.
  intros Hr Hp. induction is as [|i is IH]; intros l Hok H; cbn [map_opt] in H.
  - assert (l = []) by congruence. subst. cbn. split; [constructor|lia].
  - inversion Hok as [|? ? Hi Hok']; subst.
    destruct (dmul (snd (snd i)) rps) as [m|] eqn:E; cbn [obind] in H; [|discriminate].
    destruct (dadd (lookup (fst i) proposer) m) as [t|] eqn:Et; cbn [obind] in H; [|discriminate].
    destruct (map_opt _ is) as [r|] eqn:Er; cbn [obind] in H; [|discriminate].
    assert (l = (fst (fst (snd i)), t) :: r) by congruence. subst. cbn [map snd zsum].
    destruct (IH r Hok' eq_refl) as [Hr0 Hrr]. unfold info_ok in Hi.
    apply dmul_some in E; [|lia|lia]. apply dadd_some in Et. pose proof DD_pos as HD.
    pose proof (Z.mul_div_le (snd (snd i) * rps) DD HD). rewrite <- E in *.
    pose proof (lookup_nonneg (fst i) proposer Hp).
    assert (0 <= m) by (subst m; apply Z.div_pos; nia).
    split; [constructor; [cbn; lia|auto]|]. nia.
Qed.

Lemma zsum_filter_nonzero l :
  zsum (map snd (filter (fun it : Z * Z => negb (snd it =? 0)) l)) = zsum (map snd l).
Proof.
  induction l as [|[k v] l IH]; cbn [filter map snd zsum]; [reflexivity|].
  destruct (Z.eqb_spec v 0); cbn [negb map snd zsum]; lia.
Qed.

Theorem reward_bounded minrel active proposer vault l :
  rewards minrel active proposer vault = Some l -> active_ok active ->
  Forall (fun it : Z * Z => 0 <= snd it) proposer -> zsum (map snd proposer) <= vault ->
  Forall (fun it : Z * Z => 0 <= snd it) l /\ zsum (map snd l) <= vault.
Proof.
  unfold rewards. intros H Ha Hp Hpv.
  destruct (infos_idx minrel 0 active) as [is|] eqn:Ei; cbn [obind] in H; [|discriminate].
  destruct (infos_idx_ok _ _ _ _ Ei Ha) as [Hok Hnd].
  assert (Hok' : Forall (fun i : Z * info => info_ok (snd i)) is).
  { eapply Forall_impl; [|exact Hok]. cbn. tauto. }
  destruct is as [|i0 is0]; [assert (l = []) by congruence; subst; cbn; split; [constructor|]|].
  { pose proof (zsum_nonneg (map snd proposer)). assert (0 <= zsum (map snd proposer)).
    { apply H0. apply Forall_map. exact Hp. } lia. }
  set (is := i0 :: is0) in *.
  destruct (sum_left 0 (map (fun i : Z * info => snd (snd i)) is)) as [te|] eqn:Ete; cbn [obind] in H; [|discriminate].
  destruct (sum_left 0 (map (fun i : Z * info => lookup (fst i) proposer) is)) as [tp|] eqn:Etp; cbn [obind] in H; [|discriminate].
  apply sum_left_val in Ete, Etp. cbn [Z.add] in Ete, Etp.
  destruct (dsub vault tp) as [cl|] eqn:Ecl; cbn [obind] in H; [|discriminate].
  apply dsub_some in Ecl.
  assert (Htp : tp <= zsum (map snd proposer)).
  { rewrite Etp. rewrite <- (map_map fst (fun k => lookup k proposer)). apply lookup_sum_le; auto. }
  assert (Hte0 : 0 <= te).
  { rewrite Ete. apply zsum_nonneg. apply Forall_map. eapply Forall_impl; [|exact Hok']. unfold info_ok. cbn. lia. }
  match type of H with obind ?X _ = _ => destruct X as [rps|] eqn:Erps; cbn [obind] in H; [|discriminate] end.
  destruct (map_opt _ is) as [l0|] eqn:El; cbn [obind] in H; [|discriminate].
  assert (l = filter (fun it : Z * Z => negb (snd it =? 0)) l0) by congruence. subst l.
  pose proof DD_pos as HD.
  assert (Hrps : 0 <= rps /\ te * rps <= cl * DD).
  { destruct (Z.eqb_spec te 0).
    - assert (rps = 0) by congruence. subst rps. assert (0 <= cl) by lia. nia.
    - apply ddiv_some in Erps; [|lia|lia].
      pose proof (Z.mul_div_le (cl * DD) te ltac:(lia)). rewrite <- Erps in *.
      split; [subst rps; apply Z.div_pos; nia|lia]. }
  destruct Hrps as [Hrps0 Hrps].
  destruct (rewards_split rps proposer Hrps0 Hp is l0 Hok' El) as [Hl0 Hsum].
  rewrite zsum_filter_nonzero. split.
  - clear -Hl0. induction Hl0 as [|[k v] l Hv Hl IH]; cbn [filter]; [constructor|].
    destruct (negb (snd (k, v) =? 0)); [constructor; auto|auto].
  - rewrite <- Etp, <- Ete in Hsum. nia.
Qed.

(* ---------------------------------------------------------------------------------------------- *)
(* effect of the validator-level functions *)

Lemma apply_emission_ok ff e v u v' u' :
  apply_emission ff e v u = Some (v', u') -> v' = v + e /\ u <= u' /\ 0 <= e.
Proof.
  unfold apply_emission. intros H.
  destruct (dmul ff e) as [fee|]; cbn [obind] in H; [|discriminate].
  destruct (Z.ltb_spec fee 0); [discriminate|]. destruct (Z.ltb_spec e fee); [discriminate|]. cbn [orb] in H.
  destruct (dsub e fee) as [added|]; cbn [obind] in H; [|discriminate].
  destruct (dadd v added) as [post|]; cbn [obind] in H; [|discriminate].
  destruct (stake_units fee post u) as [units|]; cbn [obind] in H; [|discriminate].
  destruct (Z.ltb_spec units 0); [discriminate|]. destruct (_ <? units); [discriminate|]. cbn [orb] in H.
  destruct (dadd u units) as [u1|] eqn:Eu; cbn [obind] in H; [|discriminate].
  destruct (dadd v e) as [v1|] eqn:Ev; cbn [obind] in H; [|discriminate].
  apply dadd_some in Eu, Ev. assert (v1 = v' /\ u1 = u') as [<- <-] by (split; congruence). lia.
Qed.
Lemma apply_reward_ok r v u v' u' :
  apply_reward r v u = Some (v', u') -> v' = v + r /\ u <= u'.
Proof.
  unfold apply_reward. intros H.
  destruct (stake_units r v u) as [units|]; cbn [obind] in H; [|discriminate].
  destruct (Z.ltb_spec units 0); [discriminate|]. destruct (_ <? units); [discriminate|]. cbn [orb] in H.
  destruct (dadd u units) as [u1|] eqn:Eu; cbn [obind] in H; [|discriminate].
  destruct (dadd v r) as [v1|] eqn:Ev; cbn [obind] in H; [|discriminate].
  apply dadd_some in Eu, Ev. assert (v1 = v' /\ u1 = u') as [<- <-] by (split; congruence). lia.
Qed.

(* per-validator invariant: the pending-withdraw vault holds exactly the outstanding claims *)
Definition vinv (v : vst) : Prop :=
  0 <= sv v /\ 0 <= su v /\ 0 <= slock v /\
  spend v = zsum (map fst (sclaims v)) /\ Forall (fun c : Z * Z => 0 <= fst c) (sclaims v).
Definition xrd (v : vst) : Z := sv v + spend v.

Lemma v_stake_ok x v v' :
  v_stake x v = Some v' -> vinv v ->
  vinv v' /\ xrd v' = xrd v + x /\ sv v' = sv v + x /\ 0 <= x /\
  exists m, stake_units x (sv v) (su v) = Some m /\ su v' = su v + m.
Proof.
  unfold v_stake. intros H (Hv & Hu & Hl & Hp & Hc).
  destruct (Z.ltb_spec x 0); [discriminate|].
  destruct (stake x (sv v) (su v)) as [[[m v1] u1]|] eqn:E; cbn [obind] in H; [|discriminate].
  apply stake_ok in E. destruct E as (Hm & -> & ->).
  assert (v' = {| sv := sv v + x; su := su v + m; spend := spend v; slock := slock v; sff := sff v;
                  sreg := sreg v; sclaims := sclaims v |}) by congruence. subst v'.
  pose proof (stake_units_prop _ _ _ _ Hm ltac:(lia) Hv Hu) as (Hm0 & _).
  unfold vinv, xrd. cbn [sv su spend slock sclaims]. repeat split; auto; try lia. eauto.
Qed.

Lemma v_unstake_ok n ce v v' :
  v_unstake n ce v = Some v' -> vinv v ->
  vinv v' /\ xrd v' = xrd v /\
  exists c, sclaims v' = (c, ce) :: sclaims v /\ 0 <= c /\ sv v' = sv v - c /\ su v' = su v - n /\
            (0 < su v -> c * su v <= n * sv v).
Proof.
  unfold v_unstake. intros H (Hv & Hu & Hl & Hp & Hc).
  destruct (Z.ltb_spec n 0); [discriminate|].
  destruct (unstake n (sv v) (su v)) as [[[c v1] u1]|] eqn:E; cbn [obind] in H; [|discriminate].
  apply unstake_ok in E. destruct E as (Hr & Hcv & Hnu & -> & ->).
  destruct (dadd (spend v) c) as [p'|] eqn:Ep; cbn [obind] in H; [|discriminate].
  apply dadd_some in Ep. subst p'.
  assert (v' = {| sv := sv v - c; su := su v - n; spend := spend v + c; slock := slock v; sff := sff v;
                  sreg := sreg v; sclaims := (c, ce) :: sclaims v |}) by congruence. subst v'.
  pose proof (redemption_value_prop _ _ _ _ Hr ltac:(lia) Hv Hu) as (Hc0 & _ & Hprop).
  unfold vinv, xrd. cbn [sv su spend slock sclaims map fst zsum]. split; [|split].
  - repeat split; try lia. constructor; [cbn; lia|auto].
  - lia.
  - exists c. repeat split; auto.
Qed.

Lemma remove_claim_ok a ce l l' :
  remove_claim a ce l = Some l' ->
  In (a, ce) l /\ zsum (map fst l') = zsum (map fst l) - a /\
  (Forall (fun c : Z * Z => 0 <= fst c) l -> Forall (fun c : Z * Z => 0 <= fst c) l' /\ a <= zsum (map fst l)).
Proof.
  revert l'. induction l as [|[a' ce'] l IH]; intros l' H; cbn [remove_claim] in H; [discriminate|].
  destruct (Z.eqb_spec a a'); destruct (Z.eqb_spec ce ce'); cbn [andb] in H.
  1: { subst. assert (l' = l) by congruence. subst. cbn [map fst zsum In]. split; [auto|]. split; [lia|].
       intros Hf. inversion Hf; subst. split; [auto|]. pose proof (zsum_nonneg (map fst l)).
       assert (0 <= zsum (map fst l)) by (apply H0; apply Forall_map; auto). cbn in *. lia. }
  all: destruct (remove_claim a ce l) as [r|] eqn:Er; cbn [obind] in H; [|discriminate];
       assert (l' = (a', ce') :: r) by congruence; subst;
       destruct (IH r eq_refl) as (Hin & Hs & Hf); cbn [map fst zsum In];
       (split; [auto|]); (split; [lia|]);
       intros Hall; inversion Hall; subst; destruct (Hf ltac:(auto)) as [Hf1 Hf2];
       (split; [constructor; auto|cbn in *; lia]).
Qed.

Lemma v_claim_ok amt ce cur v v' :
  v_claim amt ce cur v = Some v' -> vinv v ->
  vinv v' /\ xrd v' = xrd v - amt /\ In (amt, ce) (sclaims v) /\ ce <= cur /\ 0 <= amt /\
  sv v' = sv v /\ su v' = su v.
Proof.
  unfold v_claim. intros H (Hv & Hu & Hl & Hp & Hc).
  destruct (remove_claim amt ce (sclaims v)) as [cl|] eqn:E; cbn [obind] in H; [|discriminate].
  destruct (Z.ltb_spec cur ce); [discriminate|].
  destruct (Z.ltb_spec amt 0); [discriminate|]. destruct (Z.ltb_spec (spend v) amt); [discriminate|]. cbn [orb] in H.
  apply remove_claim_ok in E. destruct E as (Hin & Hs & Hf). destruct (Hf Hc) as [Hf1 _].
  assert (v' = {| sv := sv v; su := su v; spend := spend v - amt; slock := slock v; sff := sff v;
                  sreg := sreg v; sclaims := cl |}) by congruence. subst v'.
  unfold vinv, xrd. cbn [sv su spend slock sclaims]. repeat split; auto; lia.
Qed.
(* solvency of claims: a claim NFT whose epoch has come can always be paid *)
Lemma v_claim_succeeds amt ce cur v :
  vinv v -> In (amt, ce) (sclaims v) -> ce <= cur -> v_claim amt ce cur v <> None.
Proof.
  intros (Hv & Hu & Hl & Hp & Hc) Hin Hce. unfold v_claim.
  assert (Hrm : exists cl, remove_claim amt ce (sclaims v) = Some cl).
  { clear -Hin. induction (sclaims v) as [|[a' ce'] l IH]; [contradiction|]. cbn [remove_claim].
    destruct (Z.eqb_spec amt a'); destruct (Z.eqb_spec ce ce'); cbn [andb]; eauto.
    all: destruct Hin as [Heq|Hin]; [inversion Heq; subst; lia|];
         destruct (IH Hin) as [cl ->]; cbn [obind]; eauto. }
  destruct Hrm as [cl Hrm]. rewrite Hrm. cbn [obind].
  destruct (Z.ltb_spec cur ce); [lia|].
  apply remove_claim_ok in Hrm. destruct Hrm as (_ & _ & Hf). destruct (Hf Hc) as [_ Hle].
  rewrite Forall_forall in Hc. specialize (Hc _ Hin). cbn in Hc.
  destruct (Z.ltb_spec amt 0); [lia|]. destruct (Z.ltb_spec (spend v) amt); [lia|]. discriminate.
Qed.

Lemma v_emit_ok e v v' :
  v_emit e v = Some v' -> vinv v -> vinv v' /\ xrd v' = xrd v + e /\ sv v' = sv v + e /\ 0 <= e.
Proof.
  unfold v_emit. intros H (Hv & Hu & Hl & Hp & Hc).
  destruct (apply_emission (sff v) e (sv v) (su v)) as [[v1 u1]|] eqn:E; cbn [obind] in H; [|discriminate].
  apply apply_emission_ok in E. destruct E as (-> & Hu1 & He).
  assert (v' = {| sv := sv v + e; su := u1; spend := spend v; slock := slock v + (u1 - su v); sff := sff v;
                  sreg := sreg v; sclaims := sclaims v |}) by congruence. subst v'.
  unfold vinv, xrd. cbn [sv su spend slock sclaims]. repeat split; auto; lia.
Qed.
Lemma v_reward_ok r v v' :
  v_reward r v = Some v' -> vinv v -> 0 <= r -> vinv v' /\ xrd v' = xrd v + r /\ sv v' = sv v + r.
Proof.
  unfold v_reward. intros H (Hv & Hu & Hl & Hp & Hc) Hr.
  destruct (apply_reward r (sv v) (su v)) as [[v1 u1]|] eqn:E; cbn [obind] in H; [|discriminate].
  apply apply_reward_ok in E. destruct E as (-> & Hu1).
  assert (v' = {| sv := sv v + r; su := u1; spend := spend v; slock := slock v + (u1 - su v); sff := sff v;
                  sreg := sreg v; sclaims := sclaims v |}) by congruence. subst v'.
  unfold vinv, xrd. cbn [sv su spend slock sclaims]. repeat split; auto; lia.
Qed.

(* ---------------------------------------------------------------------------------------------- *)
(* updating one validator / a list of (id, amount) *)

Lemma upd_nth_ok {A} (P : A -> Prop) (g : A -> Z) (d : Z) (f : A -> option A) :
  (forall x y, f x = Some y -> P x -> P y /\ g y = g x + d) ->
  forall n l l', upd_nth n f l = Some l' -> Forall P l ->
  Forall P l' /\ zsum (map g l') = zsum (map g l) + d /\ length l' = length l.
Proof.
  intros Hf. induction n as [|n IH]; intros l l' H Hl; destruct l as [|x l]; cbn [upd_nth] in H; try discriminate.
  - destruct (f x) as [y|] eqn:E; cbn [obind] in H; [|discriminate].
    assert (l' = y :: l) by congruence. subst. inversion Hl; subst.
    destruct (Hf x y E ltac:(auto)) as [Hy Hg]. cbn [map zsum length]. repeat split; [constructor; auto|lia].
  - destruct (upd_nth n f l) as [r|] eqn:E; cbn [obind] in H; [|discriminate].
    assert (l' = x :: r) by congruence. subst. inversion Hl; subst.
    destruct (IH l r E ltac:(auto)) as (Hr & Hs & Hlen). cbn [map zsum length]. repeat split; [constructor; auto|lia|lia].
Qed.

Lemma upd_nth_witness {A} (f : A -> option A) : forall n (l l' : list A),
  upd_nth n f l = Some l' -> exists x y, In x l /\ f x = Some y.
Proof.
  induction n as [|n IH]; intros l l' H; destruct l as [|x l]; cbn [upd_nth] in H; try discriminate.
  - destruct (f x) as [y|] eqn:E; [|discriminate]. exists x, y. split; [left; auto|auto].
  - destruct (upd_nth n f l) as [r|] eqn:E; [|discriminate].
    destruct (IH l r E) as (x0 & y & Hin & Hf). exists x0, y. split; [right; auto|auto].
Qed.
Lemma v_stake_nonneg x v v' : v_stake x v = Some v' -> 0 <= x.
Proof. unfold v_stake. destruct (Z.ltb_spec x 0); [discriminate|lia]. Qed.
Lemma v_claim_nonneg amt ce cur v v' : v_claim amt ce cur v = Some v' -> 0 <= amt.
Proof.
  unfold v_claim. destruct (remove_claim _ _ _); cbn [obind]; [|discriminate].
  destruct (_ <? ce); [discriminate|]. destruct (Z.ltb_spec amt 0); [discriminate|lia].
Qed.
Lemma v_emit_nonneg e v v' : v_emit e v = Some v' -> 0 <= e.
Proof.
  unfold v_emit. destruct (apply_emission _ _ _ _) as [[v1 u1]|] eqn:E; cbn [obind]; [|discriminate].
  apply apply_emission_ok in E. lia.
Qed.

Lemma apply_list_ok (P : vst -> Prop) (g : vst -> Z) (f : Z -> vst -> option vst) :
  (forall a x y, f a x = Some y -> P x -> 0 <= a -> P y /\ g y = g x + a) ->
  forall l vs vs', apply_list f l vs = Some vs' -> Forall P vs ->
  Forall (fun it : Z * Z => 0 <= snd it) l ->
  Forall P vs' /\ zsum (map g vs') = zsum (map g vs) + zsum (map snd l) /\ length vs' = length vs.
Proof.
  intros Hf. induction l as [|[id a] l IH]; intros vs vs' H Hvs Hl; cbn [apply_list] in H.
  - assert (vs' = vs) by congruence. subst. cbn. repeat split; auto; lia.
  - destruct (id <? 0); [discriminate|].
    destruct (upd_nth (Z.to_nat id) (f a) vs) as [vs1|] eqn:E; cbn [obind] in H; [|discriminate].
    inversion Hl as [|? ? Ha Hl']; subst. cbn in Ha.
    destruct (upd_nth_ok P g a (f a) (fun x y Hxy Hx => Hf a x y Hxy Hx Ha) _ _ _ E Hvs) as (H1 & H2 & H3).
    destruct (IH vs1 vs' H H1 Hl') as (H4 & H5 & H6). cbn [map snd zsum]. repeat split; auto; lia.
Qed.

(* ---------------------------------------------------------------------------------------------- *)
(* the system invariant and conservation *)

Definition sinv (s : sys) : Prop :=
  Forall vinv (svals s) /\ 0 <= srv s /\
  Forall (fun it : Z * Z => 0 <= snd it) (sprop s) /\ zsum (map snd (sprop s)) <= srv s.

Lemma held_eq s : held s = zsum (map xrd (svals s)) + srv s.
Proof. reflexivity. Qed.

(* XRD in the system minus everything that ever came in (stakes, fees, minted emission) plus
   everything paid out (claims): constant *)
Definition balance (s : sys) : Z := held s + g_out s - g_in s - g_mint s.

Lemma add_prop_ok k p l :
  0 <= p -> Forall (fun it : Z * Z => 0 <= snd it) l ->
  Forall (fun it : Z * Z => 0 <= snd it) (add_prop k p l) /\
  zsum (map snd (add_prop k p l)) = zsum (map snd l) + p.
Proof.
  intros Hp. induction 1 as [|[k' v] l Hv Hl IH]; cbn [add_prop].
  - cbn. split; [repeat constructor; cbn; lia|lia].
  - cbn in Hv. destruct (k =? k'); cbn [map snd zsum].
    + split; [constructor; [cbn; lia|auto]|lia].
    + destruct IH as [IH1 IH2]. split; [constructor; [cbn; lia|auto]|lia].
Qed.

Definition emitted (o : sop) (s s' : sys) : Z := g_mint s' - g_mint s.

Theorem sstep_conservation s o s' :
  sstep s o = Some s' -> sinv s ->
  sinv s' /\ balance s' = balance s /\ 0 <= g_mint s' - g_mint s /\
  0 <= g_in s' - g_in s /\ 0 <= g_out s' - g_out s.
Proof.
  intros H (Hvs & Hrv & Hp & Hpv). unfold balance. rewrite !held_eq.
  destruct o as [i x|i n nue|i amt ce|leader p q|te minrel active|i ff|i b]; cbn [sstep] in H.
  - (* stake *)
    unfold upd_val in H. destruct (i <? 0); [discriminate|].
    destruct (upd_nth (Z.to_nat i) (v_stake x) (svals s)) as [vs|] eqn:E; cbn [obind] in H; [|discriminate].
    assert (s' = with_vals s vs x 0) by congruence. subst s'.
    assert (Hx : 0 <= x).
    { destruct (upd_nth_witness _ _ _ _ E) as (x0 & y & _ & Hf). eapply v_stake_nonneg; eauto. }
    destruct (upd_nth_ok vinv xrd x (v_stake x)
                (fun a b Hab Ha => let '(conj h1 (conj h2 _)) := v_stake_ok x a b Hab Ha in conj h1 h2) _ _ _ E Hvs)
      as (H1 & H2 & _).
    unfold sinv, with_vals. cbn [svals srv sprop g_in g_out g_mint]. repeat split; auto; lia.
  - (* unstake *)
    unfold upd_val in H. destruct (i <? 0); [discriminate|].
    destruct (upd_nth (Z.to_nat i) (v_unstake n (sepoch s + nue)) (svals s)) as [vs|] eqn:E; cbn [obind] in H; [|discriminate].
    assert (s' = with_vals s vs 0 0) by congruence. subst s'.
    destruct (upd_nth_ok vinv xrd 0 (v_unstake n (sepoch s + nue))
                (fun a b Hab Ha => let '(conj h1 (conj h2 _)) := v_unstake_ok n _ a b Hab Ha in conj h1 (eq_trans h2 (eq_sym (Z.add_0_r _)))) _ _ _ E Hvs)
      as (H1 & H2 & _).
    unfold sinv, with_vals. cbn [svals srv sprop g_in g_out g_mint]. repeat split; auto; lia.
  - (* claim *)
    unfold upd_val in H. destruct (i <? 0); [discriminate|].
    destruct (upd_nth (Z.to_nat i) (v_claim amt ce (sepoch s)) (svals s)) as [vs|] eqn:E; cbn [obind] in H; [|discriminate].
    assert (s' = with_vals s vs 0 amt) by congruence. subst s'.
    assert (Ha : 0 <= amt).
    { destruct (upd_nth_witness _ _ _ _ E) as (x0 & y & _ & Hf). eapply v_claim_nonneg; eauto. }
    destruct (upd_nth_ok vinv xrd (- amt) (v_claim amt ce (sepoch s))
                (fun a b Hab Ha => let '(conj h1 (conj h2 _)) := v_claim_ok amt ce _ a b Hab Ha in conj h1 h2) _ _ _ E Hvs)
      as (H1 & H2 & _).
    unfold sinv, with_vals. cbn [svals srv sprop g_in g_out g_mint]. repeat split; auto; lia.
  - (* fee distribution *)
    destruct (Z.ltb_spec p 0); [discriminate|]. destruct (Z.ltb_spec q 0); [discriminate|]. cbn [orb] in H.
    assert (s' = {| svals := svals s; srv := srv s + (p + q); sprop := add_prop leader p (sprop s);
                    sepoch := sepoch s; g_in := g_in s + (p + q); g_out := g_out s; g_mint := g_mint s |}) by congruence.
    subst s'. destruct (add_prop_ok leader p (sprop s) ltac:(lia) Hp) as [A1 A2].
    unfold sinv. cbn [svals srv sprop g_in g_out g_mint]. repeat split; auto; lia.
  - (* epoch change *)
    destruct (emissions te minrel active) as [es|] eqn:Ee; cbn [obind] in H; [|discriminate].
    destruct (rewards minrel active (sprop s) (srv s)) as [rs|] eqn:Er; cbn [obind] in H; [|discriminate].
    destruct (existsb (fun it : Z * Z => snd it <? 0) rs) eqn:Eneg; cbn [orb] in H; [discriminate|].
    destruct (Z.ltb_spec (srv s) (zsum (map snd rs))); [discriminate|].
    destruct (apply_list v_emit es (svals s)) as [vs1|] eqn:E1; cbn [obind] in H; [|discriminate].
    destruct (apply_list v_reward rs vs1) as [vs2|] eqn:E2; cbn [obind] in H; [|discriminate].
    assert (s' = {| svals := vs2; srv := srv s - zsum (map snd rs); sprop := []; sepoch := sepoch s + 1;
                    g_in := g_in s; g_out := g_out s; g_mint := g_mint s + zsum (map snd es) |}) by congruence.
    subst s'.
    assert (Hrs : Forall (fun it : Z * Z => 0 <= snd it) rs).
    { apply Forall_forall. intros it Hin. destruct (Z.ltb_spec (snd it) 0); [|lia].
      exfalso. assert (existsb (fun it : Z * Z => snd it <? 0) rs = true); [|congruence].
      apply existsb_exists. exists it. split; [auto|]. apply Z.ltb_lt. lia. }
    (* emissions are applied by validators whose own checks make them non-negative; we only need
       the sum, so go through a version of apply_list_ok that learns 0 <= e from success *)
    assert (Hemit : Forall vinv vs1 /\ zsum (map xrd vs1) = zsum (map xrd (svals s)) + zsum (map snd es)
                    /\ 0 <= zsum (map snd es)).
    { clear -E1 Hvs. revert E1 Hvs. generalize (svals s). induction es as [|[id e] es IH]; intros vs E1 Hvs; cbn [apply_list] in E1.
      - assert (vs1 = vs) by congruence. subst. cbn. repeat split; auto; lia.
      - destruct (id <? 0); [discriminate|].
        destruct (upd_nth (Z.to_nat id) (v_emit e) vs) as [vs0|] eqn:E; cbn [obind] in E1; [|discriminate].
        assert (He : 0 <= e).
        { destruct (upd_nth_witness _ _ _ _ E) as (x0 & y & _ & Hf). eapply v_emit_nonneg; eauto. }
        destruct (upd_nth_ok vinv xrd e (v_emit e)
                    (fun a b Hab Ha => let '(conj h1 (conj h2 _)) := v_emit_ok e a b Hab Ha in conj h1 h2) _ _ _ E Hvs)
          as (H1 & H2 & _).
        destruct (IH vs0 E1 H1) as (H3 & H4 & H5). cbn [map snd zsum]. repeat split; auto; lia. }
    destruct Hemit as (Hv1 & Hx1 & He0).
    destruct (apply_list_ok vinv xrd v_reward
                (fun a x y Hxy Hx Ha => let '(conj h1 (conj h2 _)) := v_reward_ok a x y Hxy Hx Ha in conj h1 h2)
                rs vs1 vs2 E2 Hv1 Hrs) as (Hv2 & Hx2 & _).
    unfold sinv. cbn [svals srv sprop g_in g_out g_mint map snd zsum].
    repeat split; auto; try lia; try constructor.
  - (* fee factor change *)
    unfold upd_val in H. destruct (i <? 0); [discriminate|].
    destruct (upd_nth (Z.to_nat i) (v_set_fee ff) (svals s)) as [vs|] eqn:E; cbn [obind] in H; [|discriminate].
    assert (s' = with_vals s vs 0 0) by congruence. subst s'.
    assert (Hf : forall a b, v_set_fee ff a = Some b -> vinv a -> vinv b /\ xrd b = xrd a + 0).
    { intros a b Hab Ha. unfold v_set_fee in Hab. destruct (_ || _); [discriminate|].
      assert (b = {| sv := sv a; su := su a; spend := spend a; slock := slock a; sff := ff; sreg := sreg a;
                     sclaims := sclaims a |}) by congruence. subst b. unfold vinv, xrd in *. cbn. split; [exact Ha|lia]. }
    destruct (upd_nth_ok vinv xrd 0 (v_set_fee ff) Hf _ _ _ E Hvs) as (H1 & H2 & _).
    unfold sinv, with_vals. cbn [svals srv sprop g_in g_out g_mint]. repeat split; auto; lia.
  - (* registration change *)
    unfold upd_val in H. destruct (i <? 0); [discriminate|].
    destruct (upd_nth (Z.to_nat i) (v_set_reg b) (svals s)) as [vs|] eqn:E; cbn [obind] in H; [|discriminate].
    assert (s' = with_vals s vs 0 0) by congruence. subst s'.
    assert (Hf : forall a c, v_set_reg b a = Some c -> vinv a -> vinv c /\ xrd c = xrd a + 0).
    { intros a c Hac Ha. unfold v_set_reg in Hac.
      assert (c = {| sv := sv a; su := su a; spend := spend a; slock := slock a; sff := sff a; sreg := b;
                     sclaims := sclaims a |}) by congruence. subst c. unfold vinv, xrd in *. cbn. split; [exact Ha|lia]. }
    destruct (upd_nth_ok vinv xrd 0 (v_set_reg b) Hf _ _ _ E Hvs) as (H1 & H2 & _).
    unfold sinv, with_vals. cbn [svals srv sprop g_in g_out g_mint]. repeat split; auto; lia.
Qed.

(* over any operation sequence (failed transactions change nothing) *)
Theorem srun_conservation ops : forall s,
  sinv s ->
  sinv (srun s ops) /\ balance (srun s ops) = balance s /\
  g_mint s <= g_mint (srun s ops) /\ g_in s <= g_in (srun s ops) /\ g_out s <= g_out (srun s ops).
Proof.
  induction ops as [|o ops IH]; intros s Hs; cbn [srun]; [split; [exact Hs|]; repeat split; lia|].
  destruct (sstep s o) as [s1|] eqn:E.
  - destruct (sstep_conservation s o s1 E Hs) as (H1 & H2 & H3 & H4 & H5).
    destruct (IH s1 H1) as (K1 & K2 & K3 & K4 & K5). split; [exact K1|]. repeat split; lia.
  - apply IH; auto.
Qed.

(* per epoch: the minted emission is at most the configured amount, the rewards taken are at most
   the rewards vault, and the epoch step never fails because of the rewards vault *)
Theorem epoch_bounds s te minrel active s' :
  sstep s (SEpoch te minrel active) = Some s' -> sinv s -> 0 <= te -> active_ok active ->
  0 <= g_mint s' - g_mint s <= te /\ 0 <= srv s - srv s' <= srv s /\
  g_in s' = g_in s /\ g_out s' = g_out s /\ sepoch s' = sepoch s + 1.
Proof.
  intros H (Hvs & Hrv & Hp & Hpv) Hte Ha. cbn [sstep] in H.
  destruct (emissions te minrel active) as [es|] eqn:Ee; cbn [obind] in H; [|discriminate].
  destruct (rewards minrel active (sprop s) (srv s)) as [rs|] eqn:Er; cbn [obind] in H; [|discriminate].
  destruct (existsb _ rs || (srv s <? zsum (map snd rs))); [discriminate|].
  destruct (apply_list v_emit es (svals s)) as [vs1|]; cbn [obind] in H; [|discriminate].
  destruct (apply_list v_reward rs vs1) as [vs2|]; cbn [obind] in H; [|discriminate].
  assert (s' = {| svals := vs2; srv := srv s - zsum (map snd rs); sprop := []; sepoch := sepoch s + 1;
                  g_in := g_in s; g_out := g_out s; g_mint := g_mint s + zsum (map snd es) |}) by congruence.
  subst s'. cbn [g_mint srv g_in g_out sepoch].
  destruct (emission_bounded _ _ _ _ Ee Hte Ha) as [He0 He].
  destruct (reward_bounded _ _ _ _ _ Er Ha Hp Hpv) as [Hr0 Hr].
  pose proof (zsum_nonneg (map snd es) ltac:(apply Forall_map; exact He0)).
  pose proof (zsum_nonneg (map snd rs) ltac:(apply Forall_map; exact Hr0)).
  repeat split; lia.
Qed.
Theorem epoch_rewards_vault_suffices s te minrel active es rs :
  sinv s -> active_ok active ->
  emissions te minrel active = Some es -> rewards minrel active (sprop s) (srv s) = Some rs ->
  existsb (fun it : Z * Z => snd it <? 0) rs || (srv s <? zsum (map snd rs)) = false.
Proof.
  intros (Hvs & Hrv & Hp & Hpv) Ha _ Er.
  destruct (reward_bounded _ _ _ _ _ Er Ha Hp Hpv) as [Hr0 Hr].
  apply orb_false_iff. split.
  - destruct (existsb _ rs) eqn:E; [|reflexivity]. apply existsb_exists in E. destruct E as [it [Hin Hlt]].
    rewrite Forall_forall in Hr0. specialize (Hr0 it Hin). apply Z.ltb_lt in Hlt. lia.
  - apply Z.ltb_ge. lia.
Qed.

(* ---------------------------------------------------------------------------------------------- *)
(* per validator: the stake vault grows by exactly its emission plus its reward *)

Definition sum_for (i : Z) (l : list (Z * Z)) : Z :=
  zsum (map snd (filter (fun it : Z * Z => fst it =? i) l)).
Definition sv_at (k : nat) (vs : list vst) : Z := nth k (map sv vs) 0.

Lemma upd_nth_sv (d : Z) (f : vst -> option vst) :
  (forall x y, f x = Some y -> sv y = sv x + d) ->
  forall n l l', upd_nth n f l = Some l' ->
  forall k, sv_at k l' = sv_at k l + (if Nat.eqb k n then d else 0).
Proof.
  intros Hf. unfold sv_at. induction n as [|n IH]; intros l l' H k; destruct l as [|x l]; cbn [upd_nth] in H; try discriminate.
  - destruct (f x) as [y|] eqn:E; cbn [obind] in H; [|discriminate].
    assert (l' = y :: l) by congruence. subst. destruct k as [|k]; cbn [map nth Nat.eqb]; [rewrite (Hf x y E); lia|lia].
  - destruct (upd_nth n f l) as [r|] eqn:E; cbn [obind] in H; [|discriminate].
    assert (l' = x :: r) by congruence. subst. destruct k as [|k]; cbn [map nth Nat.eqb]; [lia|]. apply IH. exact E.
Qed.

Lemma apply_list_sv (f : Z -> vst -> option vst) :
  (forall a x y, f a x = Some y -> sv y = sv x + a) ->
  forall l vs vs', apply_list f l vs = Some vs' ->
  forall k, sv_at k vs' = sv_at k vs + sum_for (Z.of_nat k) l.
Proof.
  intros Hf. induction l as [|[id a] l IH]; intros vs vs' H k; cbn [apply_list] in H.
  - assert (vs' = vs) by congruence. subst. unfold sum_for. cbn. lia.
  - destruct (Z.ltb_spec id 0); [discriminate|].
    destruct (upd_nth (Z.to_nat id) (f a) vs) as [vs1|] eqn:E; cbn [obind] in H; [|discriminate].
    rewrite (IH vs1 vs' H k). rewrite (upd_nth_sv a (f a) (Hf a) _ _ _ E k).
    unfold sum_for. cbn [filter fst].
    destruct (Nat.eqb_spec k (Z.to_nat id)).
    + assert (id = Z.of_nat k) by lia. subst id. rewrite Z.eqb_refl. cbn [map snd zsum]. lia.
    + destruct (Z.eqb_spec id (Z.of_nat k)); [exfalso; apply n; lia|]. lia.
Qed.

Theorem epoch_vault_growth s te minrel active s' :
  sstep s (SEpoch te minrel active) = Some s' ->
  exists es rs,
    emissions te minrel active = Some es /\ rewards minrel active (sprop s) (srv s) = Some rs /\
    g_mint s' = g_mint s + zsum (map snd es) /\ srv s' = srv s - zsum (map snd rs) /\
    forall k, sv_at k (svals s') = sv_at k (svals s) + sum_for (Z.of_nat k) es + sum_for (Z.of_nat k) rs.
Proof.
  intros H. cbn [sstep] in H.
  destruct (emissions te minrel active) as [es|] eqn:Ee; cbn [obind] in H; [|discriminate].
  destruct (rewards minrel active (sprop s) (srv s)) as [rs|] eqn:Er; cbn [obind] in H; [|discriminate].
  destruct (existsb _ rs || (srv s <? zsum (map snd rs))); [discriminate|].
  destruct (apply_list v_emit es (svals s)) as [vs1|] eqn:E1; cbn [obind] in H; [|discriminate].
  destruct (apply_list v_reward rs vs1) as [vs2|] eqn:E2; cbn [obind] in H; [|discriminate].
  assert (s' = {| svals := vs2; srv := srv s - zsum (map snd rs); sprop := []; sepoch := sepoch s + 1;
                  g_in := g_in s; g_out := g_out s; g_mint := g_mint s + zsum (map snd es) |}) by congruence.
  subst s'. exists es, rs. cbn [g_mint srv svals]. repeat split; auto. intros k.
  assert (He : forall a x y, v_emit a x = Some y -> sv y = sv x + a).
  { intros a x y Hxy. unfold v_emit in Hxy.
    destruct (apply_emission (sff x) a (sv x) (su x)) as [[v1 u1]|] eqn:E; cbn [obind] in Hxy; [|discriminate].
    apply apply_emission_ok in E. assert (sv y = v1) by (inversion Hxy; reflexivity). lia. }
  assert (Hr : forall a x y, v_reward a x = Some y -> sv y = sv x + a).
  { intros a x y Hxy. unfold v_reward in Hxy.
    destruct (apply_reward a (sv x) (su x)) as [[v1 u1]|] eqn:E; cbn [obind] in Hxy; [|discriminate].
    apply apply_reward_ok in E. assert (sv y = v1) by (inversion Hxy; reflexivity). lia. }
  rewrite (apply_list_sv v_reward Hr _ _ _ E2 k). rewrite (apply_list_sv v_emit He _ _ _ E1 k). lia.
Qed.
