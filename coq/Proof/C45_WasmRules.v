(* C45 — proofs about the validation pipeline model (Model/C45_WasmRules.v). *)
From Coq Require Import List NArith Bool Lia.
Import ListNotations.
Require Import RV.Lib.Bytes RV.Gen.C45_wasm_limits RV.Model.C45_WasmRules.
Open Scope N_scope.
Arguments N.add : simpl never.
Arguments N.ltb : simpl never.
Arguments N.leb : simpl never.
Arguments N.eqb : simpl never.
Arguments N.of_nat : simpl never.

(* ---------------------------------------------------------------------------------------------- *)
(* reflection lemmas                                                                               *)
(* ---------------------------------------------------------------------------------------------- *)
Lemma valtype_eqb_eq : forall a b, valtype_eqb a b = true -> a = b.
Proof. destruct a, b; cbn; intro H; try reflexivity; discriminate. Qed.
Lemma valtypes_eqb_eq : forall a b, valtypes_eqb a b = true -> a = b.
Proof.
  induction a as [|x a IH]; destruct b as [|y b]; cbn; intro H; try reflexivity; try discriminate.
  apply andb_true_iff in H. destruct H as [H1 H2].
  apply valtype_eqb_eq in H1. apply IH in H2. congruence.
Qed.
Lemma functype_eqb_eq : forall a b, functype_eqb a b = true -> a = b.
Proof.
  intros [pa ra] [pb rb]. unfold functype_eqb. cbn. intro H.
  apply andb_true_iff in H. destruct H as [H1 H2].
  apply valtypes_eqb_eq in H1. apply valtypes_eqb_eq in H2. congruence.
Qed.

Lemma first_err_none : forall A (f : A -> option verdict) l,
  first_err f l = None -> Forall (fun x => f x = None) l.
Proof.
  induction l as [|x l IH]; cbn; intro H; [constructor|].
  destruct (f x) eqn:E; [discriminate|]. constructor; [exact E|apply IH; exact H].
Qed.

Lemma lookup_host_in : forall name tbl row,
  lookup_host name tbl = Some row -> In (name, row) tbl.
Proof.
  induction tbl as [|[n r] tbl IH]; cbn; intros row H; [discriminate|].
  destruct (beqb n name) eqn:E.
  - apply beqb_eq in E. inversion H; subst. left; reflexivity.
  - right. apply IH. exact H.
Qed.

Definition sumN (l : list N) : N := fold_right N.add 0 l.
Lemma sum_locals_checked_spec : forall l acc n,
  sum_locals_checked acc l = Some n -> n = acc + sumN l.
Proof.
  induction l as [|c l IH]; cbn [sum_locals_checked]; intros acc n H.
  - inversion H; subst. cbn. lia.
  - destruct (U32_MAX <? acc + c); [discriminate|]. apply IH in H.
    unfold sumN in *. cbn [fold_right]. lia.
Qed.


(* every check only ever returns genuine error verdicts *)
Definition is_err (v : verdict) : Prop := forall mx, v <> VPassed mx.

Lemma first_err_is_err : forall A (f : A -> option verdict) l e,
  (forall x e', f x = Some e' -> is_err e') -> first_err f l = Some e -> is_err e.
Proof.
  induction l as [|x l IH]; cbn; intros e Hf H; [discriminate|].
  destruct (f x) eqn:E; [inversion H; subst; eapply Hf; eauto|eapply IH; eauto].
Qed.

Ltac err_tac := intros mx' Hc; discriminate Hc.

Lemma check_init_err : forall s e, check_init s = Some e -> is_err e.
Proof. unfold check_init. intros s e H. destruct (negb _); [inversion H; err_tac|].
  destruct (s_uses_float s); [inversion H; err_tac|discriminate]. Qed.
Lemma check_no_start_err : forall s e, check_no_start s = Some e -> is_err e.
Proof. unfold check_no_start. intros s e H. destruct (s_has_start s); [inversion H; err_tac|discriminate]. Qed.
Lemma check_import_err : forall ver tys i e, check_import ver tys i = Some e -> is_err e.
Proof.
  unfold check_import. intros ver tys i e H.
  destruct (beqb _ _); [|inversion H; err_tac].
  destruct (lookup_host _ _) as [[[np res] minv]|]; [|inversion H; err_tac].
  destruct (ver <? minv); [inversion H; err_tac|].
  destruct (imp_kind i); try (inversion H; err_tac).
  destruct (function_type_matches _ _ _); [discriminate|inversion H; err_tac].
Qed.
Lemma check_imports_err : forall ver s e, check_imports ver s = Some e -> is_err e.
Proof. unfold check_imports. intros. eapply first_err_is_err; [|eassumption].
  intros x e'. apply check_import_err. Qed.
Lemma check_export_names_err : forall s e, check_export_names s = Some e -> is_err e.
Proof. unfold check_export_names. intros s e H. destruct (s_exports s); [|discriminate].
  destruct (forallb _ _); [discriminate|inversion H; err_tac]. Qed.
Lemma check_memory_err : forall cfg s e, check_memory cfg s = inl e -> is_err e.
Proof.
  unfold check_memory. intros cfg s e H.
  destruct (s_memories s) as [[|m [|m' r]]|]; try (inversion H; err_tac).
  destruct (_ <? lim_initial m); [inversion H; err_tac|].
  destruct (lim_max m) as [mx|].
  - destruct (_ <? mx); [inversion H; err_tac|].
    destruct (existsb _ _); [discriminate|inversion H; err_tac].
  - destruct (existsb _ _); [discriminate|inversion H; err_tac].
Qed.
Lemma check_table_err : forall cfg s e, check_table cfg s = Some e -> is_err e.
Proof.
  unfold check_table. intros cfg s e H. destruct (s_tables s) as [ts|]; [|discriminate].
  destruct (1 <? _); [inversion H; err_tac|].
  destruct ts as [|t ts]; [discriminate|].
  destruct (_ <? lim_initial t); [inversion H; err_tac|discriminate].
Qed.
Lemma check_br_tables_err : forall cfg s e, check_br_tables cfg s = Some e -> is_err e.
Proof.
  unfold check_br_tables. intros cfg s e H. eapply first_err_is_err; [|eassumption].
  intros b e' Hb. cbv beta in Hb. eapply first_err_is_err; [|eassumption].
  intros n e'' Hn. cbn in Hn. destruct (_ <? n); [inversion Hn; err_tac|discriminate].
Qed.
Lemma check_param_at_err : forall cfg s i e, check_param_at cfg s i = Some e -> is_err e.
Proof.
  unfold check_param_at. intros cfg s i e H.
  destruct (nth_N (function_map s) i); [|inversion H; err_tac].
  destruct (nth_N (s_types s) n); [|inversion H; err_tac].
  destruct (_ <? _); [inversion H; err_tac|discriminate].
Qed.
Lemma check_locals_err : forall cfg b e, check_locals cfg b = Some e -> is_err e.
Proof.
  unfold check_locals. intros cfg b e H. destruct (sum_locals_checked 0 _); [|inversion H; err_tac].
  destruct (_ <? n); [inversion H; err_tac|discriminate].
Qed.
Lemma check_functions_err : forall cfg s e, check_functions cfg s = Some e -> is_err e.
Proof.
  unfold check_functions. intros cfg s e H. destruct (_ <? num_local_functions s); [inversion H; err_tac|].
  destruct (first_err (check_param_at cfg s) _) eqn:E.
  - inversion H; subst. eapply first_err_is_err; [|exact E]. intros x e'. apply check_param_at_err.
  - eapply first_err_is_err; [|exact H]. intros x e'. apply check_locals_err.
Qed.
Lemma check_globals_err : forall cfg s e, check_globals cfg s = Some e -> is_err e.
Proof. unfold check_globals. intros cfg s e H. destruct (_ <? s_globals s); [inversion H; err_tac|discriminate]. Qed.
Lemma check_export_constraints_err : forall s req e, check_export_constraints s req = Some e -> is_err e.
Proof.
  unfold check_export_constraints. intros s req e H. destruct (s_exports s); [|inversion H; err_tac].
  eapply first_err_is_err; [|exact H]. intros x e' Hx. cbn in Hx.
  destruct (existsb _ _); [discriminate|inversion Hx; err_tac].
Qed.

Lemma orelse_passed : forall a k mx,
  (forall e, a = Some e -> is_err e) -> orelse a k = VPassed mx -> a = None /\ k = VPassed mx.
Proof.
  intros a k mx Herr H. destruct a as [e|]; cbn in H.
  - exfalso. exact (Herr e eq_refl mx H).
  - split; [reflexivity|exact H].
Qed.

(* ---------------------------------------------------------------------------------------------- *)
(* the pipeline passes iff every check passes                                                      *)
(* ---------------------------------------------------------------------------------------------- *)
Lemma validate_passed_inv : forall cfg ver s req mx,
  validate cfg ver s req = VPassed mx ->
  check_init s = None /\ check_no_start s = None /\ check_imports ver s = None /\
  check_export_names s = None /\ check_memory cfg s = inr mx /\ check_table cfg s = None /\
  check_br_tables cfg s = None /\ check_functions cfg s = None /\ check_globals cfg s = None /\
  check_export_constraints s req = None.
Proof.
  intros cfg ver s req mx H. unfold validate in H.
  apply orelse_passed in H; [|apply check_init_err]. destruct H as [H1 H].
  apply orelse_passed in H; [|apply check_no_start_err]. destruct H as [H2 H].
  apply orelse_passed in H; [|apply check_imports_err]. destruct H as [H3 H].
  apply orelse_passed in H; [|apply check_export_names_err]. destruct H as [H4 H].
  destruct (check_memory cfg s) as [e|mx0] eqn:Hm.
  - exfalso. exact (check_memory_err _ _ _ Hm mx H).
  - apply orelse_passed in H; [|apply check_table_err]. destruct H as [H5 H].
    apply orelse_passed in H; [|apply check_br_tables_err]. destruct H as [H6 H].
    apply orelse_passed in H; [|apply check_functions_err]. destruct H as [H7 H].
    apply orelse_passed in H; [|apply check_globals_err]. destruct H as [H8 H].
    apply orelse_passed in H; [|apply check_export_constraints_err]. destruct H as [H9 H].
    inversion H; subst. repeat split; assumption.
Qed.

(* ---------------------------------------------------------------------------------------------- *)
(* the sandbox rules of the property statement, as predicates on the summary                       *)
(* ---------------------------------------------------------------------------------------------- *)
Definition NoFloats (s : summary) : Prop := s_uses_float s = false.
Definition NoStart (s : summary) : Prop := s_has_start s = false.

(* every import is a *function* imported from "env" whose name is in the whitelist, available at
   this VM version, with exactly the whitelisted signature *)
Definition ImportAllowed (ver : N) (s : summary) (i : import) : Prop :=
  imp_module i = c45_env_module /\
  exists ti np res minv,
    imp_kind i = IKFunc ti /\ In (imp_name i, (np, res, minv)) c45_host_imports /\ minv <= ver /\
    nth_N (s_types s) ti = Some (host_sig np res).
Definition OnlyWhitelistedImports (ver : N) (s : summary) : Prop :=
  Forall (ImportAllowed ver s) (s_imports s).

(* exactly one memory, defined (not imported), within the limit, exported as "memory"; `mx` is the
   declared maximum of the output module *)
Definition SingleBoundedExportedMemory (cfg : config) (s : summary) (mx : N) : Prop :=
  (forall i, In i (s_imports s) -> imp_kind i <> IKMemory) /\
  exists m, s_memories s = Some [m] /\
    lim_initial m <= max_memory_size_in_pages cfg /\
    (forall x, lim_max m = Some x -> x <= max_memory_size_in_pages cfg) /\
    mx = match lim_max m with Some x => x | None => max_memory_size_in_pages cfg end /\
    mx <= max_memory_size_in_pages cfg /\
    exists es e, s_exports s = Some es /\ In e es /\ exp_kind e = EKMemory /\
                 exp_name e = c45_export_memory.

Definition BoundedTables (cfg : config) (s : summary) : Prop :=
  (forall i, In i (s_imports s) -> imp_kind i <> IKTable) /\
  forall ts, s_tables s = Some ts ->
    (length ts <= 1)%nat /\ forall t, In t ts -> lim_initial t <= max_initial_table_size cfg.

Definition BoundedFunctions (cfg : config) (s : summary) : Prop :=
  N.of_nat (length (s_funcs s)) <= max_number_of_functions cfg.
Definition BoundedLocals (cfg : config) (s : summary) : Prop :=
  Forall (fun b => sumN (b_locals b) <= max_number_of_function_locals cfg) (s_bodies s).
Definition BoundedBrTables (cfg : config) (s : summary) : Prop :=
  Forall (fun b => Forall (fun n => n <= max_number_of_br_table_targets cfg) (b_br_tables b)) (s_bodies s).
Definition BoundedGlobals (cfg : config) (s : summary) : Prop :=
  (forall i, In i (s_imports s) -> imp_kind i <> IKGlobal) /\
  s_globals s <= max_number_of_globals cfg.

(* each export a blueprint needs is a function of type [i64] -> [i64] *)
Definition RequiredExportsPresent (s : summary) (required : list bytes) : Prop :=
  Forall (fun name => exists es e ti, s_exports s = Some es /\ In e es /\ exp_name e = name /\
            exp_kind e = EKFunc /\ nth_N (function_map s) (exp_index e) = Some ti /\
            nth_N (s_types s) ti = Some i64_to_i64) required.

Definition SandboxRules (cfg : config) (ver : N) (s : summary) (required : list bytes) (mx : N) : Prop :=
  s_wp_valid s = true /\ NoFloats s /\ NoStart s /\ OnlyWhitelistedImports ver s /\
  SingleBoundedExportedMemory cfg s mx /\ BoundedTables cfg s /\ BoundedFunctions cfg s /\
  BoundedLocals cfg s /\ BoundedBrTables cfg s /\ BoundedGlobals cfg s /\
  RequiredExportsPresent s required.

(* ---------------------------------------------------------------------------------------------- *)
(* per-check soundness                                                                             *)
(* ---------------------------------------------------------------------------------------------- *)
Lemma check_import_sound : forall ver s i,
  check_import ver (s_types s) i = None -> ImportAllowed ver s i.
Proof.
  unfold check_import, ImportAllowed. intros ver s i H.
  destruct (beqb (imp_module i) c45_env_module) eqn:Em; [|discriminate].
  apply beqb_eq in Em. split; [exact Em|].
  destruct (lookup_host _ _) as [[[np res] minv]|] eqn:El; [|discriminate].
  destruct (ver <? minv) eqn:Ev; [discriminate|]. apply N.ltb_ge in Ev.
  destruct (imp_kind i) as [ti| | | |] eqn:Ek; try discriminate.
  unfold function_type_matches in H.
  destruct (nth_N (s_types s) ti) as [t|] eqn:Et; [|discriminate].
  destruct (functype_eqb t (host_sig np res)) eqn:Ef; [|discriminate].
  apply functype_eqb_eq in Ef. subst t.
  exists ti, np, res, minv. repeat split; try assumption; try reflexivity.
  apply lookup_host_in. exact El.
Qed.

Lemma imports_allowed_kind : forall ver s,
  OnlyWhitelistedImports ver s ->
  forall i, In i (s_imports s) -> exists ti, imp_kind i = IKFunc ti.
Proof.
  intros ver s H i Hi. unfold OnlyWhitelistedImports in H. rewrite Forall_forall in H.
  destruct (H i Hi) as [_ [ti [np [res [minv [Hk _]]]]]]. exists ti. exact Hk.
Qed.

Lemma check_memory_sound : forall cfg s mx,
  check_memory cfg s = inr mx ->
  exists m, s_memories s = Some [m] /\
    lim_initial m <= max_memory_size_in_pages cfg /\
    (forall x, lim_max m = Some x -> x <= max_memory_size_in_pages cfg) /\
    mx = match lim_max m with Some x => x | None => max_memory_size_in_pages cfg end /\
    mx <= max_memory_size_in_pages cfg /\
    exists es e, s_exports s = Some es /\ In e es /\ exp_kind e = EKMemory /\
                 exp_name e = c45_export_memory.
Proof.
  unfold check_memory. intros cfg s mx H.
  destruct (s_memories s) as [[|m [|m' r]]|]; try discriminate.
  exists m. split; [reflexivity|].
  destruct (max_memory_size_in_pages cfg <? lim_initial m) eqn:Ei; [discriminate|].
  apply N.ltb_ge in Ei. split; [exact Ei|].
  assert (Hexp : forall mx0,
    (if existsb is_memory_export (match s_exports s with Some es => es | None => [] end)
     then inr mx0 else inl VMemoryNotExported) = (inr mx : verdict + N) ->
    mx0 = mx /\ exists es e, s_exports s = Some es /\ In e es /\ exp_kind e = EKMemory /\
                             exp_name e = c45_export_memory).
  { intros mx0 Hx. destruct (existsb _ _) eqn:Ee; [|discriminate]. inversion Hx; subst.
    split; [reflexivity|]. apply existsb_exists in Ee. destruct Ee as [e [Hin He]].
    destruct (s_exports s) as [es|]; [|destruct Hin].
    exists es, e. unfold is_memory_export in He.
    destruct (exp_kind e) eqn:Ek; try discriminate. apply beqb_eq in He.
    repeat split; try assumption; reflexivity. }
  destruct (lim_max m) as [x|] eqn:Ex.
  - destruct (max_memory_size_in_pages cfg <? x) eqn:Elx; [discriminate|]. apply N.ltb_ge in Elx.
    apply Hexp in H. destruct H as [Heq Hex]. subst x.
    split; [intros y Hy; inversion Hy; subst; exact Elx|].
    split; [reflexivity|]. split; [exact Elx|exact Hex].
  - apply Hexp in H. destruct H as [Heq Hex]. subst mx.
    split; [intros y Hy; discriminate|].
    split; [reflexivity|]. split; [lia|exact Hex].
Qed.

Lemma check_table_sound : forall cfg s,
  check_table cfg s = None ->
  forall ts, s_tables s = Some ts ->
    (length ts <= 1)%nat /\ forall t, In t ts -> lim_initial t <= max_initial_table_size cfg.
Proof.
  unfold check_table. intros cfg s H ts Hts. rewrite Hts in H.
  destruct (1 <? N.of_nat (length ts)) eqn:El; [discriminate|]. apply N.ltb_ge in El.
  assert (Hlen : (length ts <= 1)%nat) by lia. split; [exact Hlen|].
  intros t Hin. destruct ts as [|t0 [|t1 r]]; [destruct Hin| |cbn in Hlen; lia].
  destruct Hin as [->|[]].
  destruct (max_initial_table_size cfg <? lim_initial t) eqn:Et; [discriminate|].
  apply N.ltb_ge in Et. exact Et.
Qed.

Lemma check_br_tables_sound : forall cfg s, check_br_tables cfg s = None -> BoundedBrTables cfg s.
Proof.
  unfold check_br_tables, BoundedBrTables. intros cfg s H. apply first_err_none in H.
  eapply Forall_impl; [|exact H]. intros b Hb. cbn in Hb. apply first_err_none in Hb.
  eapply Forall_impl; [|exact Hb]. intros n Hn. cbn in Hn.
  destruct (max_number_of_br_table_targets cfg <? n) eqn:E; [discriminate|].
  apply N.ltb_ge in E. exact E.
Qed.

Lemma check_locals_sound : forall cfg b,
  check_locals cfg b = None -> sumN (b_locals b) <= max_number_of_function_locals cfg.
Proof.
  unfold check_locals. intros cfg b H.
  destruct (sum_locals_checked 0 (b_locals b)) as [n|] eqn:E; [|discriminate].
  apply sum_locals_checked_spec in E.
  destruct (max_number_of_function_locals cfg <? n) eqn:El; [discriminate|].
  apply N.ltb_ge in El. lia.
Qed.

(* the parameter check as the code performs it: entries 0 .. num_local_functions-1 of function_map *)
Definition ParamsCheckedPrefix (cfg : config) (s : summary) : Prop :=
  forall i ti ft, (i < length (s_funcs s))%nat ->
    nth_error (function_map s) i = Some ti -> nth_N (s_types s) ti = Some ft ->
    N.of_nat (length (ft_params ft)) <= max_number_of_function_params cfg.

Lemma check_functions_sound : forall cfg s,
  check_functions cfg s = None ->
  BoundedFunctions cfg s /\ BoundedLocals cfg s /\ ParamsCheckedPrefix cfg s.
Proof.
  unfold check_functions, BoundedFunctions, BoundedLocals. intros cfg s H.
  destruct (max_number_of_functions cfg <? num_local_functions s) eqn:En; [discriminate|].
  apply N.ltb_ge in En. unfold num_local_functions in En. split; [exact En|].
  destruct (first_err (check_param_at cfg s) _) eqn:Ep; [discriminate|].
  split.
  - apply first_err_none in H. eapply Forall_impl; [|exact H].
    intros b Hb. apply check_locals_sound. exact Hb.
  - apply first_err_none in Ep. rewrite Forall_forall in Ep.
    intros i ti ft Hi Hnth Hty.
    assert (Hin : In (N.of_nat i) (map N.of_nat (seq 0 (length (s_funcs s))))).
    { apply in_map. apply in_seq. lia. }
    specialize (Ep _ Hin). unfold check_param_at, nth_N in Ep.
    rewrite Nat2N.id in Ep. rewrite Hnth in Ep. unfold nth_N in Hty. rewrite Hty in Ep.
    destruct (max_number_of_function_params cfg <? N.of_nat (length (ft_params ft))) eqn:E;
      [discriminate|]. apply N.ltb_ge in E. exact E.
Qed.

Lemma check_export_constraints_sound : forall s req,
  check_export_constraints s req = None -> RequiredExportsPresent s req.
Proof.
  unfold check_export_constraints, RequiredExportsPresent. intros s req H.
  destruct (s_exports s) as [es|] eqn:Ee; [|discriminate].
  apply first_err_none in H. eapply Forall_impl; [|exact H].
  intros name Hn. cbn in Hn. destruct (existsb (export_provides s name) es) eqn:Ex; [|discriminate].
  apply existsb_exists in Ex. destruct Ex as [e [Hin He]].
  unfold export_provides in He. apply andb_true_iff in He. destruct He as [Hname Hk].
  apply beqb_eq in Hname. destruct (exp_kind e) eqn:Ek; try discriminate.
  unfold function_matches in Hk.
  destruct (nth_N (function_map s) (exp_index e)) as [ti|] eqn:Ef; [|discriminate].
  unfold function_type_matches in Hk.
  destruct (nth_N (s_types s) ti) as [t|] eqn:Et; [|discriminate].
  apply functype_eqb_eq in Hk. subst t.
  exists es, e, ti. repeat split; try assumption; reflexivity.
Qed.

(* ---------------------------------------------------------------------------------------------- *)
(* main theorem                                                                                    *)
(* ---------------------------------------------------------------------------------------------- *)
Theorem accept_implies_rules : forall cfg ver s req mx,
  validate cfg ver s req = VPassed mx -> SandboxRules cfg ver s req mx.
Proof.
  intros cfg ver s req mx H. apply validate_passed_inv in H.
  destruct H as (H1 & H2 & H3 & H4 & H5 & H6 & H7 & H8 & H9 & H10).
  assert (Himp : OnlyWhitelistedImports ver s).
  { unfold OnlyWhitelistedImports, check_imports in *. apply first_err_none in H3.
    eapply Forall_impl; [|exact H3]. intros i Hi. apply check_import_sound. exact Hi. }
  assert (Hkind : forall i, In i (s_imports s) -> exists ti, imp_kind i = IKFunc ti)
    by (apply (imports_allowed_kind ver); exact Himp).
  unfold check_init in H1.
  destruct (s_wp_valid s) eqn:Ev; cbn in H1; [|discriminate].
  destruct (s_uses_float s) eqn:Ef; [discriminate|].
  unfold check_no_start in H2. destruct (s_has_start s) eqn:Es; [discriminate|].
  apply check_functions_sound in H8. destruct H8 as (Hf & Hl & _).
  assert (Hnk : forall k, (forall ti, k <> IKFunc ti) ->
                 forall i, In i (s_imports s) -> imp_kind i <> k).
  { intros k Hk i Hi Hc. destruct (Hkind i Hi) as [ti Hti]. apply (Hk ti). congruence. }
  unfold SandboxRules, NoFloats, NoStart.
  split; [assumption|]. split; [assumption|]. split; [assumption|]. split; [exact Himp|].
  split. { split; [apply Hnk; intros ti Hc; discriminate|apply check_memory_sound; exact H5]. }
  split. { split; [apply Hnk; intros ti Hc; discriminate|apply check_table_sound; exact H6]. }
  split; [exact Hf|]. split; [exact Hl|].
  split; [apply check_br_tables_sound; exact H7|].
  split.
  { split; [apply Hnk; intros ti Hc; discriminate|].
    unfold check_globals in H9.
    destruct (max_number_of_globals cfg <? s_globals s) eqn:Eg; [discriminate|].
    apply N.ltb_ge in Eg. exact Eg. }
  apply check_export_constraints_sound. exact H10.
Qed.

Theorem params_checked_prefix : forall cfg ver s req mx,
  validate cfg ver s req = VPassed mx -> ParamsCheckedPrefix cfg s.
Proof.
  intros cfg ver s req mx H. apply validate_passed_inv in H.
  destruct H as (_ & _ & _ & _ & _ & _ & _ & H8 & _).
  apply check_functions_sound in H8. tauto.
Qed.

(* conversely: a summary meeting any single violation is rejected (the pipeline has no bypass) *)
Theorem reject_if_float : forall cfg ver s req, s_uses_float s = true -> accepted (validate cfg ver s req) = false.
Proof.
  intros cfg ver s req H. destruct (validate cfg ver s req) eqn:E; try reflexivity.
  apply accept_implies_rules in E. destruct E as (_ & Hf & _). unfold NoFloats in Hf. congruence.
Qed.
Theorem reject_if_start : forall cfg ver s req, s_has_start s = true -> accepted (validate cfg ver s req) = false.
Proof.
  intros cfg ver s req H. destruct (validate cfg ver s req) eqn:E; try reflexivity.
  apply accept_implies_rules in E. destruct E as (_ & _ & Hs & _). unfold NoStart in Hs. congruence.
Qed.

(* the name of the metering host function cannot be imported by a package: the only `env.gas`
   import of an output module is the one the instrumenter adds *)
Theorem gas_import_reserved : forall cfg ver s req mx,
  validate cfg ver s req = VPassed mx ->
  forall i, In i (s_imports s) -> imp_name i <> c45_gas_function.
Proof.
  intros cfg ver s req mx H i Hi Hn. apply accept_implies_rules in H.
  destruct H as (_ & _ & _ & Himp & _). unfold OnlyWhitelistedImports in Himp.
  rewrite Forall_forall in Himp. destruct (Himp i Hi) as [_ [ti [np [res [minv [_ [Hin _]]]]]]].
  rewrite Hn in Hin.
  assert (Hno : forallb (fun row => negb (beqb (fst row) c45_gas_function)) c45_host_imports = true)
    by (vm_compute; reflexivity).
  rewrite forallb_forall in Hno. specialize (Hno _ Hin). cbn [fst] in Hno.
  rewrite beqb_refl in Hno. discriminate.
Qed.
