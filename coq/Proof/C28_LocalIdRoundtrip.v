(* C28 — NonFungibleLocalId: parse (print id) = id for the four kinds. *)
From Coq Require Import List NArith Arith Bool Lia.
Import ListNotations.
Require Import RV.Model.C28_Bech32 RV.Model.C28_LocalId.
Require Import RV.Proof.C28_Bits RV.Proof.C28_LocalId.
Open Scope N_scope.

Definition ascii_list (l : list N) : Prop := Forall (fun c => c < 128) l.

Lemma ascii_valid : forall s, ascii_list s -> utf8_valid s = true.
Proof.
  induction s as [|c s IH]; intros H; [reflexivity|]. inversion H as [|? ? Hc Hs]. subst.
  cbn [utf8_valid]. replace (c <? 128) with true by (symmetry; apply N.ltb_lt; exact Hc). now apply IH.
Qed.

Lemma ends_with_snoc : forall o body c, ends_with (o :: body ++ [c]) c = true.
Proof.
  intros. unfold ends_with. change (o :: body ++ [c]) with ([o] ++ body ++ [c]).
  rewrite !rev_app_distr. cbn. apply N.eqb_refl.
Qed.

Lemma ends_with_snoc' : forall o body c k, ends_with (o :: body ++ [c]) k = (c =? k).
Proof.
  intros. unfold ends_with. change (o :: body ++ [c]) with ([o] ++ body ++ [c]).
  rewrite !rev_app_distr. reflexivity.
Qed.

Lemma print_inner : forall E o c body, o < 128 -> c < 128 -> ascii_list body ->
  @inner E (o :: body ++ [c]) = Ok body.
Proof.
  intros E o c body Ho Hc Hb.
  assert (ascii_list (o :: body ++ [c])) as A.
  { constructor; [exact Ho|]. apply Forall_app. split; [exact Hb|]. constructor; [exact Hc|constructor]. }
  rewrite (inner_ok E _ o c (ascii_valid _ A)); try assumption.
  - f_equal. cbn [length skipn]. rewrite app_length. cbn [length].
    replace (S (length body + 1) - 1 - 1)%nat with (length body) by lia.
    rewrite firstn_app, firstn_all, Nat.sub_diag. cbn. apply app_nil_r.
  - cbn. apply N.eqb_refl.
  - apply ends_with_snoc.
  - cbn [length]. rewrite app_length. cbn [length]. lia.
Qed.

(* ---------------------------------------------------------------------------------------------- *)
(* strings *)

Lemma id_char_ascii : forall c, is_id_char c = true -> c < 128.
Proof.
  intros c H. unfold is_id_char in H.
  repeat (apply orb_prop in H; destruct H as [H|H]);
    try (apply andb_prop in H; destruct H as [H1 H2]; apply N.leb_le in H2; lia).
  apply N.eqb_eq in H. lia.
Qed.

Lemma string_roundtrip : forall s, validate_string s = None -> from_str (print (LString s)) = Ok (LString s).
Proof.
  intros s V. cbn [print app]. unfold from_str.
  cbn [starts_with]. rewrite ends_with_snoc. cbn [N.eqb Pos.eqb andb].
  assert (ascii_list s) as A.
  { unfold validate_string in V. destruct (Nat.eqb _ 0); [discriminate|].
    destruct (Nat.ltb _ _); [discriminate|]. destruct (forallb is_id_char s) eqn:F; [|discriminate].
    rewrite forallb_forall in F. apply Forall_forall. intros c I. apply id_char_ascii. now apply F. }
  rewrite print_inner by (try exact A; lia). cbn [bind]. rewrite V. reflexivity.
Qed.

(* ---------------------------------------------------------------------------------------------- *)
(* integers *)

Lemma digit_is_digit : forall r, r < 10 -> is_digit (48 + r) = true.
Proof.
  intros r H. unfold is_digit. apply andb_true_iff. split; apply N.leb_le; lia.
Qed.
Lemma val_single : forall n, val_from 0 [48 + n] = n.
Proof. intros n. unfold val_from. cbn [fold_left]. lia. Qed.

Lemma digits_rev_spec : forall f n, n < 10 ^ N.of_nat (S f) ->
  let l := rev (digits_rev (S f) n) in
  forallb is_digit l = true /\ val_from 0 l = n
  /\ (n = 0 -> l = [48]) /\ (n <> 0 -> exists c tl, l = c :: tl /\ 49 <= c).
Proof.
  induction f as [|f IH]; intros n H.
  2: change (digits_rev (S (S f)) n)
       with (if n <? 10 then [48 + n] else (48 + n mod 10) :: digits_rev (S f) (n / 10)).
  - cbn [digits_rev]. change (10 ^ N.of_nat 1) with 10 in H.
    destruct (N.ltb_spec n 10); [|lia]. cbn [rev app].
    repeat split.
    + cbn [forallb]. rewrite digit_is_digit by assumption. reflexivity.
    + apply val_single.
    + intros ->. reflexivity.
    + intros NZ. exists (48 + n), []. split; [reflexivity|lia].
  - destruct (N.ltb_spec n 10) as [L|L].
    + cbn [rev app]. repeat split.
      * cbn [forallb]. rewrite digit_is_digit by assumption. reflexivity.
      * apply val_single.
      * intros ->. reflexivity.
      * intros NZ. exists (48 + n), []. split; [reflexivity|lia].
    + assert (n / 10 < 10 ^ N.of_nat (S f)) as Hq.
      { apply N.div_lt_upper_bound; [discriminate|].
        rewrite <- N.pow_succ_r', <- Nat2N.inj_succ. exact H. }
      destruct (IH (n / 10) Hq) as (D & V & _ & NZ).
      pose proof (N.div_mod' n 10) as DM. pose proof (N.mod_lt n 10 ltac:(discriminate)) as ML.
      set (q := n / 10) in *. set (r := n mod 10) in *.
      assert (q <> 0) as Q0 by (clearbody q r; lia).
      destruct (NZ Q0) as (c & tl & El & Hc).
      cbn [rev]. set (l' := rev (digits_rev (S f) q)) in *.
      repeat split.
      * rewrite forallb_app, D. cbn [forallb andb]. rewrite digit_is_digit by exact ML. reflexivity.
      * rewrite val_from_snoc, V. clearbody q r. lia.
      * intros ->. exfalso. clearbody q r. lia.
      * intros _. exists c, (tl ++ [48 + r]). rewrite El. split; [reflexivity|exact Hc].
Qed.

Lemma parse_digits_ok : forall max l acc, forallb is_digit l = true -> val_from acc l <= max ->
  parse_digits max acc l = Some (val_from acc l).
Proof.
  induction l as [|c l IH]; intros acc D V; [reflexivity|].
  cbn [forallb] in D. apply andb_prop in D. destruct D as [Dc Dl].
  cbn [parse_digits]. rewrite Dc.
  cbn [val_from fold_left] in V |- *. fold (val_from (acc * 10 + (c - 48)) l) in V |- *.
  pose proof (val_from_ge l (acc * 10 + (c - 48))) as G.
  assert (0 < 10 ^ N.of_nat (length l)) as P by (apply N.neq_0_lt_0, N.pow_nonzero; discriminate).
  set (a' := acc * 10 + (c - 48)) in *. set (pw := 10 ^ N.of_nat (length l)) in *.
  assert (a' <= max) as A by (clearbody a' pw; nia).
  destruct (N.ltb_spec max a'); [lia|]. apply IH; assumption.
Qed.

Lemma canon_unfold : forall c tl, c <> 48 ->
  is_canonically_formatted_integer (c :: tl) = (49 <=? c) && (c <=? 57) && forallb is_digit tl.
Proof.
  intros c tl NZ. destruct c as [|p]; [reflexivity|].
  unfold is_canonically_formatted_integer.
  repeat (destruct p as [p|p|]; try reflexivity; try (exfalso; apply NZ; reflexivity)).
Qed.

Lemma integer_roundtrip : forall n, n <= U64_MAX -> from_str (print (LInteger n)) = Ok (LInteger n).
Proof.
  intros n H. cbn [print app]. unfold from_str.
  cbn [starts_with]. rewrite !ends_with_snoc'. cbn [N.eqb Pos.eqb andb].
  unfold dec_digits.
  assert (n < 10 ^ N.of_nat 20) as B by (unfold U64_MAX in H; change (10 ^ N.of_nat 20) with 100000000000000000000; lia).
  destruct (digits_rev_spec 19 n B) as (D & V & Z & NZ). cbv zeta in *.
  set (l := rev (digits_rev 20 n)) in *.
  assert (l <> []) as NE.
  { destruct (N.eq_dec n 0) as [E|E]; [rewrite (Z E); discriminate|].
    destruct (NZ E) as (c & tl & -> & _). discriminate. }
  replace (Nat.ltb 1 (length (35 :: l ++ [35]))) with true.
  2:{ symmetry. apply Nat.ltb_lt. cbn [length]. rewrite app_length. cbn [length]. lia. }
  cbn [andb].
  assert (ascii_list l) as A.
  { apply Forall_forall. intros c I. rewrite forallb_forall in D. specialize (D c I).
    unfold is_digit in D. apply andb_prop in D. destruct D as [_ D]. apply N.leb_le in D. lia. }
  rewrite !print_inner by (try exact A; lia). cbn [bind].
  assert (is_canonically_formatted_integer l = true) as C.
  { destruct (N.eq_dec n 0) as [E|E]; [rewrite (Z E); reflexivity|].
    destruct (NZ E) as (c & tl & El & Hc). rewrite El in *.
    cbn [forallb] in D. apply andb_prop in D. destruct D as [Dc Dt].
    rewrite canon_unfold by lia. unfold is_digit in Dc. apply andb_prop in Dc. destruct Dc as [_ Dc].
    rewrite Dc, Dt. replace (49 <=? c) with true by (symmetry; apply N.leb_le; exact Hc). reflexivity. }
  rewrite C. cbn [negb].
  assert (parse_u64 l = Some n) as P.
  { assert (parse_digits U64_MAX 0 l = Some n) as PD
      by (rewrite (parse_digits_ok U64_MAX l 0 D) by (rewrite V; exact H); now rewrite V).
    unfold parse_u64. destruct l as [|c [|c' tl]]; [contradiction| |].
    - cbn [forallb] in D. rewrite andb_true_r in D. unfold is_digit in D.
      apply andb_prop in D. destruct D as [D1 D2]. apply N.leb_le in D1.
      destruct (N.eqb_spec c 43); [lia|]. destruct (N.eqb_spec c 45); [lia|]. exact PD.
    - cbn [forallb] in D. apply andb_prop in D. destruct D as [D1 _]. unfold is_digit in D1.
      apply andb_prop in D1. destruct D1 as [D1 _]. apply N.leb_le in D1.
      destruct (N.eqb_spec c 43); [lia|]. exact PD. }
  rewrite P. reflexivity.
Qed.

(* ---------------------------------------------------------------------------------------------- *)
(* hex *)

Definition hex_char_ok (c : N) : bool := (c <? 128) && negb (c =? 45) && negb (c =? 58).
Definition hexb_ok (x : N) : bool :=
  let h := hex_digit (N.shiftr x 4) in
  let l := hex_digit (N.land x 15) in
  hex_char_ok h && hex_char_ok l
  && match hex_val h, hex_val l with
     | Some a, Some b => N.lor (N.shiftl a 4) b =? x
     | _, _ => false
     end.
Lemma hexb_sweep : forallb hexb_ok (nrange 256) = true.
Proof. vm_compute. reflexivity. Qed.

Definition hexish (l : list N) : Prop := Forall (fun c => c < 128 /\ c <> 45 /\ c <> 58) l.

Lemma hex_char_ok_spec : forall c, hex_char_ok c = true -> c < 128 /\ c <> 45 /\ c <> 58.
Proof.
  intros c H. unfold hex_char_ok in H. apply andb_prop in H. destruct H as [H H3].
  apply andb_prop in H. destruct H as [H1 H2]. apply N.ltb_lt in H1.
  apply negb_true_iff, N.eqb_neq in H2. apply negb_true_iff, N.eqb_neq in H3. auto.
Qed.

Lemma hex_roundtrip : forall b, byte_list b ->
  hex_decode_pairs (hex_encode b) = Some b /\ hexish (hex_encode b)
  /\ length (hex_encode b) = (2 * length b)%nat.
Proof.
  induction b as [|x b IH]; intros H.
  - repeat split. constructor.
  - inversion H as [|? ? Hx Hb]. subst. destruct (IH Hb) as (D & X & L).
    pose proof hexb_sweep as S. rewrite forallb_forall in S. specialize (S x (nrange_in _ _ Hx)).
    unfold hexb_ok in S. cbv zeta in S.
    change (hex_encode (x :: b)) with
      (hex_digit (N.shiftr x 4) :: hex_digit (N.land x 15) :: hex_encode b).
    set (h := hex_digit (N.shiftr x 4)) in *. set (l := hex_digit (N.land x 15)) in *.
    apply andb_prop in S. destruct S as [S V]. apply andb_prop in S. destruct S as [Sh Sl].
    apply hex_char_ok_spec in Sh. apply hex_char_ok_spec in Sl.
    cbn [hex_decode_pairs].
    destruct (hex_val h) as [a|]; [|discriminate]. destruct (hex_val l) as [c|]; [|discriminate].
    apply N.eqb_eq in V. rewrite D, V. repeat split.
    + constructor; [exact Sh|]. constructor; [exact Sl|exact X].
    + cbn [length]. rewrite L. lia.
Qed.

Lemma hex_decode_encode : forall b, byte_list b -> hex_decode (hex_encode b) = Some b.
Proof.
  intros b H. destruct (hex_roundtrip b H) as (D & _ & L). unfold hex_decode.
  rewrite L. replace (2 * length b)%nat with (length b * 2)%nat by lia. rewrite Nat.mod_mul by discriminate.
  exact D.
Qed.

Lemma hexish_ascii : forall l, hexish l -> ascii_list l.
Proof. intros l H. eapply Forall_impl; [|exact H]. intros c (A & _). exact A. Qed.

Lemma bytes_roundtrip : forall b, validate_bytes b = None -> byte_list b ->
  from_str (print (LBytes b)) = Ok (LBytes b).
Proof.
  intros b V BL. cbn [print app]. unfold from_str.
  cbn [starts_with]. rewrite !ends_with_snoc'. cbn [N.eqb Pos.eqb andb].
  rewrite andb_false_r. cbn [andb].
  destruct (hex_roundtrip b BL) as (_ & X & _).
  rewrite print_inner by (try apply hexish_ascii; try exact X; lia). cbn [bind].
  rewrite (hex_decode_encode b BL), V. reflexivity.
Qed.

(* ---------------------------------------------------------------------------------------------- *)
(* RUID *)

Lemma is_hyphen_single : forall d, is_hyphen [d] = (d =? 45).
Proof.
  intros d. unfold is_hyphen. destruct d as [|p]; [reflexivity|].
  repeat (destruct p as [p|p|]; try reflexivity).
Qed.

Lemma chars_aux_ascii : forall s, ascii_list s -> chars_aux s = ([], map (fun b => [b]) s).
Proof.
  induction s as [|b s IH]; intros H; [reflexivity|]. inversion H as [|? ? Hb Hs]. subst.
  cbn [chars_aux map]. rewrite (IH Hs). unfold is_cont.
  destruct (N.leb_spec 128 b); [lia|]. reflexivity.
Qed.
Lemma chars_ascii : forall s, ascii_list s -> chars s = map (fun b => [b]) s.
Proof. intros s H. unfold chars. now rewrite chars_aux_ascii. Qed.

Lemma filter_hyphen : forall body,
  concat (filter (fun c => negb (is_hyphen c)) (map (fun b => [b]) body))
  = filter (fun d => negb (d =? 45)) body.
Proof.
  induction body as [|d body IH]; [reflexivity|].
  cbn [map filter]. rewrite is_hyphen_single. destruct (d =? 45); cbn [negb concat app]; now rewrite IH.
Qed.

Lemma filter_no45 : forall l, Forall (fun c => c <> 45) l -> filter (fun d => negb (d =? 45)) l = l.
Proof.
  induction l as [|c l IH]; intros H; [reflexivity|]. inversion H as [|? ? Hc Hl]. subst.
  cbn [filter]. destruct (N.eqb_spec c 45); [contradiction|]. cbn [negb]. now rewrite IH.
Qed.

Lemma nth_single : forall (a : list N) x t, nth (length a) (map (fun b => [b]) (a ++ x :: t)) [] = [x].
Proof.
  intros a x t. rewrite map_app. rewrite app_nth2 by (rewrite map_length; lia).
  rewrite map_length, Nat.sub_diag. reflexivity.
Qed.

Lemma skipn_plus : forall (l : list N) b a, skipn a (skipn b l) = skipn (b + a) l.
Proof.
  intros l b. revert l. induction b as [|b IH]; intros l a; [reflexivity|].
  destruct l as [|x l]; cbn [skipn plus]; [now rewrite skipn_nil|apply IH].
Qed.

Lemma ruid_roundtrip : forall b, length b = 32%nat -> byte_list b ->
  from_str (print (LRuid b)) = Ok (LRuid b).
Proof.
  intros b L BL. destruct (hex_roundtrip b BL) as (_ & X & HL). rewrite L in HL.
  pose proof (hex_decode_encode b BL) as HD.
  cbn [print]. set (h := hex_encode b) in *.
  set (h0 := firstn 16 h). set (h1 := firstn 16 (skipn 16 h)). set (h2 := firstn 16 (skipn 32 h)).
  set (h3 := firstn 16 (skipn 48 h)).
  assert (length h0 = 16%nat) as L0 by (unfold h0; rewrite firstn_length; lia).
  assert (length h1 = 16%nat) as L1 by (unfold h1; rewrite firstn_length, skipn_length; lia).
  assert (length h2 = 16%nat) as L2 by (unfold h2; rewrite firstn_length, skipn_length; lia).
  assert (length h3 = 16%nat) as L3 by (unfold h3; rewrite firstn_length, skipn_length; lia).
  assert (h = h0 ++ h1 ++ h2 ++ h3) as EH.
  { unfold h0, h1, h2, h3.
    rewrite <- (firstn_skipn 16 h) at 1. f_equal.
    rewrite <- (firstn_skipn 16 (skipn 16 h)) at 1. f_equal.
    rewrite skipn_plus. change (16 + 16)%nat with 32%nat.
    rewrite <- (firstn_skipn 16 (skipn 32 h)) at 1. f_equal.
    rewrite skipn_plus. change (32 + 16)%nat with 48%nat.
    symmetry. apply firstn_all2. rewrite skipn_length. lia. }
  assert (hexish h0 /\ hexish h1 /\ hexish h2 /\ hexish h3) as (X0 & X1 & X2 & X3).
  { unfold hexish in *. rewrite EH in X. rewrite !Forall_app in X. tauto. }
  set (body := h0 ++ [45] ++ h1 ++ [45] ++ h2 ++ [45] ++ h3).
  assert (ascii_list body) as AB.
  { unfold body, ascii_list. rewrite !Forall_app.
    repeat split; try (apply hexish_ascii; assumption); repeat constructor. }
  change ([123] ++ h0 ++ [45] ++ h1 ++ [45] ++ h2 ++ [45] ++ h3 ++ [125]) with (123 :: (h0 ++ [45] ++ h1 ++ [45] ++ h2 ++ [45] ++ (h3 ++ [125]))).
  replace (h0 ++ [45] ++ h1 ++ [45] ++ h2 ++ [45] ++ h3 ++ [125]) with (body ++ [125])
    by (unfold body; rewrite <- !app_assoc; reflexivity).
  unfold from_str. cbn [starts_with]. rewrite !ends_with_snoc'. cbn [N.eqb Pos.eqb andb].
  rewrite !andb_false_r. cbn [andb].
  rewrite print_inner by (try exact AB; lia). cbn [bind].
  rewrite (chars_ascii body AB), map_length.
  assert (length body = 67%nat) as LB
    by (unfold body; rewrite !app_length, L0, L1, L2, L3; reflexivity).
  rewrite LB. cbn [Nat.eqb andb].
  (* the three hyphen positions *)
  assert (nth 16 (map (fun b0 => [b0]) body) [] = [45]) as N16.
  { unfold body. rewrite <- L0. apply nth_single. }
  assert (nth 33 (map (fun b0 => [b0]) body) [] = [45]) as N33.
  { unfold body. replace 33%nat with (length (h0 ++ [45] ++ h1)) by (rewrite !app_length, L0, L1; reflexivity).
    replace (h0 ++ [45] ++ h1 ++ [45] ++ h2 ++ [45] ++ h3) with ((h0 ++ [45] ++ h1) ++ 45 :: (h2 ++ [45] ++ h3))
      by (rewrite <- !app_assoc; reflexivity).
    apply nth_single. }
  assert (nth 50 (map (fun b0 => [b0]) body) [] = [45]) as N50.
  { unfold body. replace 50%nat with (length (h0 ++ [45] ++ h1 ++ [45] ++ h2))
      by (rewrite !app_length, L0, L1, L2; reflexivity).
    replace (h0 ++ [45] ++ h1 ++ [45] ++ h2 ++ [45] ++ h3) with ((h0 ++ [45] ++ h1 ++ [45] ++ h2) ++ 45 :: h3)
      by (rewrite <- !app_assoc; reflexivity).
    apply nth_single. }
  rewrite N16, N33, N50. cbn [is_hyphen andb].
  rewrite filter_hyphen.
  assert (filter (fun d => negb (d =? 45)) body = h) as FB.
  { unfold body. rewrite !filter_app. cbn [filter N.eqb Pos.eqb negb].
    rewrite !filter_no45; try (eapply Forall_impl; [|eassumption]; intros c (_ & A & _); exact A).
    rewrite EH. reflexivity. }
  rewrite FB. replace (Nat.eqb (length h) 64) with true by (symmetry; apply Nat.eqb_eq; lia).
  rewrite HD. rewrite L. reflexivity.
Qed.

(* ---------------------------------------------------------------------------------------------- *)

Theorem localid_text_roundtrip : forall id, valid_id id -> from_str (print id) = Ok id.
Proof.
  intros [s|n|b|b] V; cbn [valid_id] in V.
  - apply string_roundtrip. exact V.
  - apply integer_roundtrip. exact V.
  - destruct V as [V B]. apply bytes_roundtrip; assumption.
  - destruct V as [L B]. apply ruid_roundtrip; assumption.
Qed.
