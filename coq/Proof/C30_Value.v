(* C30 — value layer, token level: the parser reads back what the formatter prints. *)
From Coq Require Import String.
From Coq Require Import List Arith NArith ZArith Bool Lia.
Import ListNotations.
Require Import RV.Model.C30_Text RV.Model.C31_Lexer RV.Model.C30_Value.
Open Scope N_scope.

(* ---- well-formed printed values ------------------------------------------------------------------------ *)
Fixpoint wf (v : mv) : Prop :=
  match v with
  | MBool _ | MInt _ _ _ | MStr _ | MBytes _ => True
  | MTuple fs => (fix all l := match l with [] => True | x :: t => wf x /\ all t end) fs
  | MEnum d fs => d < 256 /\ (fix all l := match l with [] => True | x :: t => wf x /\ all t end) fs
  | MArray k es => is_kind k = true /\ (fix all l := match l with [] => True | x :: t => wf x /\ all t end) es
  | MMap k v es => is_kind k = true /\ is_kind v = true /\
      (fix all l := match l with [] => True | kv :: t => (wf (fst kv) /\ wf (snd kv)) /\ all t end) es
  | MLeaf id _ => In id leaf_idents
  end.
Fixpoint wf_all (l : list mv) : Prop := match l with [] => True | x :: t => wf x /\ wf_all t end.
Fixpoint wf_allp (l : list (mv * mv)) : Prop :=
  match l with [] => True | kv :: t => (wf (fst kv) /\ wf (snd kv)) /\ wf_allp t end.
Definition maxd (l : list mv) : N := fold_right (fun x m => N.max (vdepth x) m) 0 l.
Definition maxdp (l : list (mv * mv)) : N :=
  fold_right (fun kv m => N.max (N.max (vdepth (fst kv)) (vdepth (snd kv))) m) 0 l.

(* induction principle for the nested type *)
Section mv_ind2.
  Variable P : mv -> Prop.
  Hypothesis HB : forall b, P (MBool b).
  Hypothesis HI : forall s b v, P (MInt s b v).
  Hypothesis HS : forall s, P (MStr s).
  Hypothesis HT : forall fs, Forall P fs -> P (MTuple fs).
  Hypothesis HE : forall d fs, Forall P fs -> P (MEnum d fs).
  Hypothesis HA : forall k es, Forall P es -> P (MArray k es).
  Hypothesis HY : forall h, P (MBytes h).
  Hypothesis HM : forall k v es, Forall (fun kv => P (fst kv) /\ P (snd kv)) es -> P (MMap k v es).
  Hypothesis HL : forall id a, P (MLeaf id a).
  Fixpoint mv_ind2 (v : mv) : P v :=
    match v with
    | MBool b => HB b
    | MInt s b x => HI s b x
    | MStr s => HS s
    | MTuple fs => HT fs ((fix go l : Forall P l := match l with [] => Forall_nil _ | x :: t => Forall_cons _ (mv_ind2 x) (go t) end) fs)
    | MEnum d fs => HE d fs ((fix go l : Forall P l := match l with [] => Forall_nil _ | x :: t => Forall_cons _ (mv_ind2 x) (go t) end) fs)
    | MArray k es => HA k es ((fix go l : Forall P l := match l with [] => Forall_nil _ | x :: t => Forall_cons _ (mv_ind2 x) (go t) end) es)
    | MBytes h => HY h
    | MMap k x es => HM k x es ((fix go l : Forall (fun kv => P (fst kv) /\ P (snd kv)) l :=
                                   match l with [] => Forall_nil _ | kv :: t => Forall_cons _ (conj (mv_ind2 (fst kv)) (mv_ind2 (snd kv))) (go t) end) es)
    | MLeaf id a => HL id a
    end.
End mv_ind2.

(* ---- one-step equations of the parser on the printed heads ------------------------------------------------ *)
Definition depth_ok (d : N) : Prop := (PARSER_MAX_DEPTH <? d + 1) = false.

Lemma pv_bool : forall f d b r, depth_ok d -> parse_value (S f) d (TBool b :: r) = POk (ABool b) r.
Proof. intros f d b r H. cbn [parse_value]. rewrite H. reflexivity. Qed.
Lemma pv_int : forall f d s b v r, depth_ok d -> parse_value (S f) d (TInt s b v :: r) = POk (AInt s b v) r.
Proof. intros f d s b v r H. cbn [parse_value]. rewrite H. reflexivity. Qed.
Lemma pv_str : forall f d s r, depth_ok d -> parse_value (S f) d (TString s :: r) = POk (AStr s) r.
Proof. intros f d s r H. cbn [parse_value]. rewrite H. reflexivity. Qed.
Lemma pv_tuple : forall f d r, depth_ok d ->
  parse_value (S f) d (TIdent (s2l "Tuple") :: r) = pbind (values_any f (d + 1) r) (fun fs r1 => POk (ATuple fs) r1).
Proof. intros f d r H. cbn [parse_value]. rewrite H. reflexivity. Qed.
Lemma pv_enum : forall f d n r, depth_ok d ->
  parse_value (S f) d (TIdent (s2l "Enum") :: TLt :: TInt false 8 n :: TGt :: r) =
  pbind (values_any f (d + 1) r) (fun fs r3 => POk (AEnum (Z.to_N n) fs) r3).
Proof. intros f d n r H. cbn [parse_value]. rewrite H. reflexivity. Qed.
Lemma pv_array : forall f d r, depth_ok d ->
  parse_value (S f) d (TIdent (s2l "Array") :: r) =
  pbind (parse_generics f 1 r) (fun ks r1 => pbind (values_any f (d + 1) r1) (fun es r2 => POk (AArray (hd [] ks) es) r2)).
Proof. intros f d r H. cbn [parse_value]. rewrite H. reflexivity. Qed.
Lemma pv_map : forall f d r, depth_ok d ->
  parse_value (S f) d (TIdent (s2l "Map") :: r) =
  pbind (parse_generics f 2 r) (fun ks r1 =>
  pbind (expect TOpenP r1) (fun _ r2 =>
  pbind (map_loop f (d + 1) r2 []) (fun es r3 =>
  pbind (expect TCloseP r3) (fun _ r4 => POk (AMap (hd [] ks) (hd [] (tl ks)) es) r4)))).
Proof. intros f d r H. cbn [parse_value]. rewrite H. reflexivity. Qed.
Lemma pv_one : forall f d id r, depth_ok d -> In id (s2l "Bytes" :: leaf_idents) ->
  parse_value (S f) d (TIdent id :: r) =
  pbind (values_any f (d + 1) r) (fun vs r1 => match vs with [v] => POk (AOne id v) r1 | _ => PErr PNumValues end).
Proof.
  intros f d id r H Hin. cbn [parse_value]. rewrite H.
  cbn in Hin. repeat (destruct Hin as [<-|Hin]; [reflexivity|]). destruct Hin.
Qed.

Lemma generics1 : forall f k r, is_kind k = true ->
  parse_generics (S (S f)) 1 (TLt :: TIdent k :: TGt :: r) = POk [k] r.
Proof.
  intros f k r Hk. unfold parse_generics. cbn [expect tok_eqb pbind generics_loop peek_is]. rewrite Hk.
  cbn [expect tok_eqb pbind generics_loop peek_is rev app length Nat.eqb]. reflexivity.
Qed.
Lemma generics2 : forall f k v r, is_kind k = true -> is_kind v = true ->
  parse_generics (S (S (S f))) 2 (TLt :: TIdent k :: TComma :: TIdent v :: TGt :: r) = POk [k; v] r.
Proof.
  intros f k v r Hk Hv. unfold parse_generics. cbn [expect tok_eqb pbind generics_loop peek_is]. rewrite Hk.
  cbn [expect tok_eqb pbind generics_loop peek_is]. rewrite Hv.
  cbn [expect tok_eqb pbind generics_loop peek_is rev app length Nat.eqb]. reflexivity.
Qed.

(* the first printed token is never `)` (nor `,`), so the element loop does not stop early *)
Lemma print_head : forall v, exists t r, print_value v = t :: r /\ tok_eqb t TCloseP = false.
Proof. destruct v; cbn [print_value]; eexists; eexists; split; reflexivity. Qed.
Lemma peek_print : forall v rest, peek_is TCloseP (print_value v ++ rest) = POk false (print_value v ++ rest).
Proof.
  intros v rest. destruct (print_head v) as [t [r [E H]]]. rewrite E. cbn [app peek_is]. rewrite H. reflexivity.
Qed.
Lemma print_len : forall v, (1 <= length (print_value v))%nat.
Proof. intro v. destruct (print_head v) as [t [r [E _]]]. rewrite E. cbn. lia. Qed.

Lemma sep_cons : forall A (s : list A) x l, l <> [] -> sep_by s (x :: l) = x ++ s ++ sep_by s l.
Proof. intros A s x l H. destruct l; [contradiction | reflexivity]. Qed.
Lemma map_cons_ne : forall A B (f : A -> B) y t, map f (y :: t) <> [].
Proof. intros; cbn; discriminate. Qed.

(* ---- the element loops, given the round trip for each element ----------------------------------------------- *)
Definition RT (v : mv) : Prop := wf v -> forall fuel d rest,
  (length (print_value v) + 1 <= fuel)%nat -> d + vdepth v <= PARSER_MAX_DEPTH ->
  parse_value fuel d (print_value v ++ rest) = POk (ast_of v) rest.

Lemma values_loop_rt : forall fs, Forall RT fs -> wf_all fs ->
  forall fuel d rest acc,
  (length (sep_by [TComma] (map print_value fs)) + 2 <= fuel)%nat -> d + maxd fs <= PARSER_MAX_DEPTH ->
  values_loop fuel d (sep_by [TComma] (map print_value fs) ++ TCloseP :: rest) acc
  = POk (rev acc ++ map ast_of fs) (TCloseP :: rest).
Proof.
  induction fs as [|x t IH]; intros HF Hw fuel d rest acc Hf Hd.
  - destruct fuel as [|f]; [cbn in Hf; lia|]. cbn. rewrite app_nil_r. reflexivity.
  - inversion HF as [|? ? Hx Ht]; subst. destruct Hw as [Hwx Hwt].
    destruct fuel as [|f]; [lia|]. cbn [values_loop].
    assert (Hdx : d + vdepth x <= PARSER_MAX_DEPTH) by (cbn [maxd fold_right] in Hd; fold (maxd t) in Hd; lia).
    assert (Hdt : d + maxd t <= PARSER_MAX_DEPTH) by (cbn [maxd fold_right] in Hd; fold (maxd t) in Hd; lia).
    destruct t as [|y t'].
    + (* last element *)
      cbn [map sep_by] in *. rewrite peek_print. cbn [pbind].
      rewrite (Hx Hwx f d (TCloseP :: rest)) by (try exact Hdx; lia). cbn [pbind peek_is tok_eqb].
      destruct f as [|f']; [pose proof (print_len x); lia|]. cbn. try rewrite <- app_assoc. reflexivity.
    + change (map print_value (x :: y :: t')) with (print_value x :: map print_value (y :: t')) in *.
      rewrite sep_cons in * by apply map_cons_ne. rewrite <- !app_assoc. rewrite peek_print. cbn [pbind].
      rewrite app_length in Hf. cbn [length app] in Hf.
      rewrite (Hx Hwx f d _) by (try exact Hdx; lia). cbn [app pbind peek_is tok_eqb expect].
      rewrite (IH Ht Hwt f d rest (ast_of x :: acc)) by (try exact Hdt; lia).
      cbn [rev map]. rewrite <- app_assoc. reflexivity.
Qed.

Lemma values_any_rt : forall fs, Forall RT fs -> wf_all fs ->
  forall fuel d rest,
  (length (sep_by [TComma] (map print_value fs)) + 3 <= fuel)%nat -> d + maxd fs <= PARSER_MAX_DEPTH ->
  values_any fuel d (TOpenP :: sep_by [TComma] (map print_value fs) ++ TCloseP :: rest) = POk (map ast_of fs) rest.
Proof.
  intros fs HF Hw fuel d rest Hf Hd. destruct fuel as [|f]; [lia|]. cbn [values_any expect tok_eqb pbind].
  rewrite (values_loop_rt fs HF Hw f d rest []) by (try exact Hd; lia). reflexivity.
Qed.

Definition entry_toks (kv : mv * mv) : list token := print_value (fst kv) ++ TFatArrow :: print_value (snd kv).
Lemma map_loop_rt : forall es, Forall (fun kv => RT (fst kv) /\ RT (snd kv)) es -> wf_allp es ->
  forall fuel d rest acc,
  (length (sep_by [TComma] (map entry_toks es)) + 2 <= fuel)%nat -> d + maxdp es <= PARSER_MAX_DEPTH ->
  map_loop fuel d (sep_by [TComma] (map entry_toks es) ++ TCloseP :: rest) acc
  = POk (rev acc ++ map (fun kv => (ast_of (fst kv), ast_of (snd kv))) es) (TCloseP :: rest).
Proof.
  induction es as [|[k v] t IH]; intros HF Hw fuel d rest acc Hf Hd.
  - destruct fuel as [|f]; [cbn in Hf; lia|]. cbn. rewrite app_nil_r. reflexivity.
  - inversion HF as [|? ? [Hk Hv] Ht]; subst. cbn [fst snd] in *. destruct Hw as [[Hwk Hwv] Hwt].
    destruct fuel as [|f]; [lia|]. cbn [map_loop].
    assert (Hdk : d + vdepth k <= PARSER_MAX_DEPTH) by (cbn [maxdp fold_right fst snd] in Hd; fold (maxdp t) in Hd; lia).
    assert (Hdv : d + vdepth v <= PARSER_MAX_DEPTH) by (cbn [maxdp fold_right fst snd] in Hd; fold (maxdp t) in Hd; lia).
    assert (Hdt : d + maxdp t <= PARSER_MAX_DEPTH) by (cbn [maxdp fold_right fst snd] in Hd; fold (maxdp t) in Hd; lia).
    destruct t as [|y t'].
    + cbn [map sep_by] in *. unfold entry_toks at 1 in Hf. unfold entry_toks at 1. cbn [fst snd] in *.
      rewrite app_length in Hf. cbn [length] in Hf.
      rewrite <- app_assoc. rewrite peek_print. cbn [pbind].
      rewrite (Hk Hwk f d _) by (try exact Hdk; lia). cbn [app pbind expect tok_eqb].
      rewrite (Hv Hwv f d (TCloseP :: rest)) by (try exact Hdv; lia). cbn [pbind peek_is tok_eqb].
      destruct f as [|f']; [pose proof (print_len k); lia|]. cbn. try rewrite <- app_assoc. reflexivity.
    + change (map entry_toks ((k, v) :: y :: t')) with (entry_toks (k, v) :: map entry_toks (y :: t')) in *.
      rewrite sep_cons in * by apply map_cons_ne. unfold entry_toks at 1 in Hf. unfold entry_toks at 1. cbn [fst snd] in *.
      repeat rewrite app_length in Hf. cbn [length app] in Hf. repeat rewrite app_length in Hf. cbn [length] in Hf.
      rewrite <- !app_assoc. rewrite peek_print. cbn [pbind].
      rewrite (Hk Hwk f d _) by (try exact Hdk; lia). cbn [app pbind expect tok_eqb].
      rewrite (Hv Hwv f d _) by (try exact Hdv; lia). cbn [app pbind peek_is tok_eqb expect].
      rewrite (IH Ht Hwt f d rest ((ast_of k, ast_of v) :: acc)) by (try exact Hdt; cbn [length] in *; lia).
      cbn [rev map fst snd]. rewrite <- app_assoc. reflexivity.
Qed.

Lemma depth_ok_of : forall d v, d + vdepth v <= PARSER_MAX_DEPTH -> 1 <= vdepth v -> depth_ok d.
Proof. intros d v H H1. unfold depth_ok. apply N.ltb_ge. lia. Qed.
Lemma vdepth_pos : forall v, 1 <= vdepth v.
Proof. destruct v; cbn [vdepth]; lia. Qed.

Lemma wf_tuple : forall fs, wf (MTuple fs) -> wf_all fs.
Proof. induction fs as [|x t IH]; intro H; [exact I|]. destruct H as [H1 H2]. split; [exact H1 | apply IH; exact H2]. Qed.
Lemma wf_enum : forall d fs, wf (MEnum d fs) -> d < 256 /\ wf_all fs.
Proof. intros d fs [Hd H]. split; [exact Hd|]. induction fs as [|x t IH]; [exact I|]. destruct H as [H1 H2]. split; [exact H1 | apply IH; exact H2]. Qed.
Lemma wf_array : forall k es, wf (MArray k es) -> is_kind k = true /\ wf_all es.
Proof. intros k es [Hk H]. split; [exact Hk|]. induction es as [|x t IH]; [exact I|]. destruct H as [H1 H2]. split; [exact H1 | apply IH; exact H2]. Qed.
Lemma wf_map : forall k v es, wf (MMap k v es) -> is_kind k = true /\ is_kind v = true /\ wf_allp es.
Proof. intros k v es [Hk [Hv H]]. split; [exact Hk|]. split; [exact Hv|]. induction es as [|x t IH]; [exact I|]. destruct H as [H1 H2]. split; [exact H1 | apply IH; exact H2]. Qed.

(* ---- the round trip ---------------------------------------------------------------------------------------- *)
Theorem value_roundtrip : forall v, RT v.
Proof.
  apply mv_ind2; unfold RT.
  - intros b _ fuel d rest Hf Hd. destruct fuel; [cbn in Hf; lia|]. apply pv_bool. apply (depth_ok_of d (MBool b) Hd (vdepth_pos _)).
  - intros s b x _ fuel d rest Hf Hd. destruct fuel; [cbn in Hf; lia|]. apply pv_int. apply (depth_ok_of d (MInt s b x) Hd (vdepth_pos _)).
  - intros s _ fuel d rest Hf Hd. destruct fuel; [cbn in Hf; lia|]. apply pv_str. apply (depth_ok_of d (MStr s) Hd (vdepth_pos _)).
  - (* tuple *) intros fs HF Hw fuel d rest Hf Hd. apply wf_tuple in Hw.
    cbn [print_value] in *. destruct fuel as [|f]; [cbn in Hf; lia|]. cbn [app].
    rewrite pv_tuple by (apply (depth_ok_of d (MTuple fs) Hd (vdepth_pos _))).
    cbn [length] in Hf. rewrite app_length in Hf. cbn [length] in Hf. rewrite <- app_assoc. cbn [app].
    rewrite (values_any_rt fs HF Hw f (d + 1) rest) by (try lia; cbn [vdepth] in Hd; fold (maxd fs) in Hd; lia).
    reflexivity.
  - (* enum *) intros dd fs HF Hw fuel d rest Hf Hd. apply wf_enum in Hw. destruct Hw as [Hdd Hw].
    cbn [print_value] in *. destruct fuel as [|f]; [cbn in Hf; lia|]. cbn [app].
    rewrite pv_enum by (apply (depth_ok_of d (MEnum dd fs) Hd (vdepth_pos _))).
    cbn [length] in Hf. rewrite app_length in Hf. cbn [length] in Hf. rewrite <- app_assoc. cbn [app].
    rewrite (values_any_rt fs HF Hw f (d + 1) rest) by (try lia; cbn [vdepth] in Hd; fold (maxd fs) in Hd; lia).
    cbn [pbind ast_of]. rewrite N2Z.id. reflexivity.
  - (* array *) intros k es HF Hw fuel d rest Hf Hd. apply wf_array in Hw. destruct Hw as [Hk Hw].
    cbn [print_value] in *. destruct fuel as [|f]; [cbn in Hf; lia|]. cbn [app].
    rewrite pv_array by (apply (depth_ok_of d (MArray k es) Hd (vdepth_pos _))).
    cbn [length] in Hf. rewrite app_length in Hf. cbn [length] in Hf.
    destruct f as [|[|f']]; try lia. rewrite generics1 by exact Hk. cbn [pbind hd]. rewrite <- app_assoc. cbn [app].
    rewrite (values_any_rt es HF Hw _ (d + 1) rest) by (try lia; cbn [vdepth] in Hd; fold (maxd es) in Hd; lia).
    reflexivity.
  - (* bytes *) intros h _ fuel d rest Hf Hd. cbn [print_value length] in Hf.
    destruct fuel as [|[|[|[|[|f]]]]]; try lia. cbn [print_value app].
    rewrite pv_one by (try (left; reflexivity); apply (depth_ok_of d (MBytes h) Hd (vdepth_pos _))).
    cbn [vdepth] in Hd.
    cbn [values_any expect tok_eqb pbind values_loop peek_is].
    rewrite pv_str by (unfold depth_ok; apply N.ltb_ge; lia). cbn. reflexivity.
  - (* map *) intros k x es HF Hw fuel d rest Hf Hd. apply wf_map in Hw. destruct Hw as [Hk [Hx Hw]].
    cbn [print_value] in *. destruct fuel as [|f]; [cbn in Hf; lia|]. cbn [app].
    rewrite pv_map by (apply (depth_ok_of d (MMap k x es) Hd (vdepth_pos _))).
    cbn [length] in Hf. rewrite app_length in Hf. cbn [length] in Hf.
    destruct f as [|[|[|f']]]; try lia. rewrite generics2 by assumption. cbn [pbind hd tl expect tok_eqb].
    rewrite <- app_assoc. cbn [app]. fold entry_toks.
    change (map (fun kv : mv * mv => print_value (fst kv) ++ TFatArrow :: print_value (snd kv)) es) with (map entry_toks es) in *.
    rewrite (map_loop_rt es HF Hw _ (d + 1) rest []) by (try lia; cbn [vdepth] in Hd; fold (maxdp es) in Hd; lia).
    cbn [pbind expect tok_eqb app rev ast_of]. reflexivity.
  - (* leaf *) intros id a Hw fuel d rest Hf Hd. cbn [wf] in Hw. cbn [print_value length] in Hf.
    destruct fuel as [|[|[|[|[|f]]]]]; try lia. cbn [print_value app].
    rewrite pv_one by (try (right; exact Hw); apply (depth_ok_of d (MLeaf id a) Hd (vdepth_pos _))).
    cbn [vdepth] in Hd.
    cbn [values_any expect tok_eqb pbind values_loop peek_is].
    rewrite pv_str by (unfold depth_ok; apply N.ltb_ge; lia). cbn. reflexivity.
Qed.

(* top level: Parser::parse_value on exactly the printed tokens *)
Theorem value_roundtrip_top : forall v, wf v -> vdepth v <= PARSER_MAX_DEPTH ->
  parse_tokens (print_value v) = POk (ast_of v) [].
Proof.
  intros v Hw Hd. unfold parse_tokens.
  pose proof (value_roundtrip v Hw (3 * length (print_value v) + 3)%nat 0 [] ltac:(lia) ltac:(lia)) as H.
  rewrite app_nil_r in H. exact H.
Qed.
