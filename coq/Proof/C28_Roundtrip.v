(* C28 — decode (encode a) = a on the same network. *)
From Coq Require Import List NArith Arith Bool Lia.
Import ListNotations.
Require Import RV.Gen.C28_entity_types RV.Model.C28_Bech32.
Require Import RV.Proof.C28_Address RV.Proof.C28_Checksum RV.Proof.C28_Bits.
Open Scope N_scope.

(* ---------------------------------------------------------------------------------------------- *)
(* list plumbing *)

Lemma rfind_none : forall c t, ~ In c t -> rfind c t = None.
Proof.
  induction t as [|x t IH]; intros H; [reflexivity|]. cbn [rfind].
  rewrite IH by (intros C; apply H; right; exact C).
  destruct (N.eqb_spec x c) as [->|]; [exfalso; apply H; left; reflexivity|reflexivity].
Qed.

Lemma rfind_last : forall c a t, ~ In c t -> rfind c (a ++ c :: t) = Some (length a).
Proof.
  induction a as [|x a IH]; intros t H; cbn [app rfind length].
  - rewrite (rfind_none c t H), N.eqb_refl. reflexivity.
  - now rewrite (IH t H).
Qed.

Lemma firstn_app_exact : forall (a b : list N), firstn (length a) (a ++ b) = a.
Proof. induction a as [|x a IH]; intros b; cbn; [reflexivity|now rewrite IH]. Qed.

Lemma skipn_app_sep : forall (a : list N) c t, skipn (S (length a)) (a ++ c :: t) = t.
Proof. induction a as [|x a IH]; intros c t; cbn [app length skipn]; [reflexivity|apply IH]. Qed.

(* ---------------------------------------------------------------------------------------------- *)
(* the charset and its reverse table *)

Definition char_ok (v : N) : bool :=
  match nth_error CHARSET (N.to_nat v) with
  | Some c =>
    (c <? 128) && negb (is_upper c) && negb (c =? 49) && negb (c =? 58)
    && match nth_error CHARSET_REV (N.to_nat c) with Some r => r =? v | None => false end
  | None => false
  end.

Lemma charset_sweep : forallb char_ok (nrange 32) = true.
Proof. vm_compute. reflexivity. Qed.

Lemma to_char_props : forall v c, @to_char b32_error v = Ok c ->
  v < 32 /\ c < 128 /\ is_upper c = false /\ c <> 49 /\ c <> 58
  /\ nth_error CHARSET_REV (N.to_nat c) = Some v.
Proof.
  intros v c H. unfold to_char in H.
  destruct (nth_error CHARSET (N.to_nat v)) as [c'|] eqn:E; [|discriminate]. inversion H. subst c'.
  assert (v < 32) as V.
  { assert (N.to_nat v < length CHARSET)%nat as L by (apply nth_error_Some; congruence).
    change (length CHARSET) with 32%nat in L. lia. }
  pose proof charset_sweep as S. rewrite forallb_forall in S. specialize (S v (nrange_in _ _ V)).
  unfold char_ok in S. rewrite E in S.
  destruct (nth_error CHARSET_REV (N.to_nat c)) as [r|]; [|rewrite andb_false_r in S; discriminate].
  repeat (apply andb_prop in S; destruct S as [S ?]).
  repeat match goal with H : negb _ = true |- _ => apply negb_true_iff in H end.
  repeat match goal with H : (_ =? _) = false |- _ => apply N.eqb_neq in H end.
  match goal with H : (r =? v) = true |- _ => apply N.eqb_eq in H; subst r end.
  apply N.ltb_lt in S. auto 10.
Qed.

Lemma decode_chars_charset : forall vs cs, map_res (@to_char b32_error) vs = Ok cs ->
  forall rest restv, decode_chars rest CLower = Ok restv ->
  decode_chars (cs ++ rest) CLower = Ok (vs ++ restv).
Proof.
  induction vs as [|v vs IH]; intros cs H rest restv R; cbn [map_res] in H.
  - inversion H. exact R.
  - destruct (to_char v) as [c| |] eqn:T; cbn [bind] in H; try discriminate.
    destruct (map_res to_char vs) as [cs'| |] eqn:M; cbn [bind] in H; try discriminate.
    inversion H. subst cs.
    destruct (to_char_props v c T) as (V & C128 & U & _ & _ & RV).
    cbn [app decode_chars].
    replace (c <? 128) with true by (symmetry; apply N.ltb_lt; exact C128). cbn [negb].
    rewrite U, RV.
    replace (v <=? 31) with true by (symmetry; apply N.leb_le; lia). cbn [negb].
    destruct (is_lower c); cbn [bind]; rewrite (IH cs' eq_refl rest restv R); reflexivity.
Qed.

Lemma map_res_notin : forall vs cs, map_res (@to_char b32_error) vs = Ok cs ->
  Forall (fun c => c <> 49 /\ c <> 58) cs.
Proof.
  induction vs as [|v vs IH]; intros cs H; cbn [map_res] in H.
  - inversion H. constructor.
  - destruct (to_char v) as [c| |] eqn:T; cbn [bind] in H; try discriminate.
    destruct (map_res to_char vs) as [cs'| |] eqn:M; cbn [bind] in H; try discriminate.
    inversion H. subst cs. destruct (to_char_props v c T) as (_ & _ & _ & A & B & _).
    constructor; [split; assumption|apply IH; reflexivity].
Qed.

Lemma map_res_total : forall vs, Forall (fun v => v < 32) vs ->
  exists cs, map_res (@to_char b32_error) vs = Ok cs.
Proof.
  induction vs as [|v vs IH]; intros H; [exists []; reflexivity|].
  inversion H as [|? ? Hv Hvs]. subst. destruct (IH Hvs) as (cs & E).
  cbn [map_res]. unfold to_char at 1.
  destruct (nth_error CHARSET (N.to_nat v)) as [c|] eqn:N.
  - cbn [bind]. rewrite E. cbn [bind]. eauto.
  - apply nth_error_None in N. change (length CHARSET) with 32%nat in N. lia.
Qed.

(* ---------------------------------------------------------------------------------------------- *)
(* HRPs built from the entity table are lower case *)

Lemma lookup_in : forall t b v, lookup t b = Some v -> In (b, v) t.
Proof.
  induction t as [|[k w] t IH]; intros b v H; cbn [lookup] in H; [discriminate|].
  destruct (N.eqb_spec k b) as [->|]; [inversion H; left; reflexivity|right; apply IH; exact H].
Qed.

Lemma table_lower : forallb (fun e => existsb is_lower (snd e)) entity_table = true.
Proof. vm_compute. reflexivity. Qed.

Lemma prefix_has_lower : forall b p, entity_prefix b = Some p -> existsb is_lower p = true.
Proof.
  intros b p H. apply lookup_in in H. pose proof table_lower as T. rewrite forallb_forall in T.
  apply (T _ H).
Qed.

Lemma check_loop_lower : forall l lo up c, check_hrp_loop l lo up = Ok c ->
  lo = true \/ existsb is_lower l = true -> c = CLower.
Proof.
  induction l as [|b l IH]; intros lo up c H D; cbn [check_hrp_loop] in H.
  - destruct D as [->|D]; [|discriminate]. destruct up; [discriminate|]. inversion H. reflexivity.
  - destruct (negb ((33 <=? b) && (b <=? 126))); [discriminate|].
    set (lo' := if is_lower b then true else lo) in *.
    set (up' := if is_lower b then up else if is_upper b then true else up) in *.
    destruct (lo' && up'); [discriminate|].
    apply (IH lo' up' c H). unfold lo'. cbn [existsb] in D.
    destruct (is_lower b); [left; reflexivity|]. destruct D as [->|D]; [left; reflexivity|right; exact D].
Qed.

Lemma check_hrp_lower : forall h c, check_hrp h = Ok c -> existsb is_lower h = true -> c = CLower.
Proof.
  intros h c H E. unfold check_hrp in H. destruct (_ || _); [discriminate|].
  apply (check_loop_lower h false false c H). right. exact E.
Qed.

(* ---------------------------------------------------------------------------------------------- *)
(* the round trip *)

Lemma checksum_length : forall c m, length (checksum_of c m) = 6%nat.
Proof. reflexivity. Qed.

Lemma bech32m_encode_unfold : forall hrp d5,
  bech32m_encode hrp d5 =
  match check_hrp hrp with
  | Ok c =>
    let hl := match c with CUpper => map to_lower hrp | _ => hrp end in
    match map_res (@to_char b32_error) d5 with
    | Ok dchars =>
      match map_res (@to_char b32_error)
              (checksum_of (polymod_from (polymod_from 1 (hrp_expand hl)) d5) BECH32M_CONST) with
      | Ok cchars => Ok (hl ++ [SEP] ++ dchars ++ cchars)
      | Err e => Err e
      | Panic => Panic
      end
    | Err e => Err e
    | Panic => Panic
    end
  | Err e => Err e
  | Panic => Panic
  end.
Proof.
  intros hrp d5. unfold bech32m_encode, bind.
  destruct (check_hrp hrp); try reflexivity.
Qed.

Lemma encode_shape_gen : forall hrp d5 s, existsb is_lower hrp = true ->
  bech32m_encode hrp d5 = Ok s ->
  exists dchars cchars,
    check_hrp hrp = Ok CLower
    /\ map_res (@to_char b32_error) d5 = Ok dchars
    /\ map_res (@to_char b32_error)
         (checksum_of (polymod_from (polymod_from 1 (hrp_expand hrp)) d5) BECH32M_CONST) = Ok cchars
    /\ s = hrp ++ SEP :: (dchars ++ cchars).
Proof.
  intros hrp d5 s E B. rewrite bech32m_encode_unfold in B.
  destruct (check_hrp hrp) as [c| |] eqn:C; try discriminate.
  assert (c = CLower) as -> by (apply (check_hrp_lower _ _ C); exact E).
  cbv zeta in B.
  destruct (map_res to_char d5) as [dchars| |]; try discriminate.
  destruct (map_res to_char _) as [cchars| |] eqn:M2 in B; try discriminate.
  inversion B. exists dchars, cchars. repeat split; try reflexivity; try assumption.
Qed.

Lemma encode_shape : forall suffix b tl s, encode_address suffix (b :: tl) = Ok s ->
  exists p dchars cchars,
    entity_prefix b = Some p /\ check_hrp (p ++ suffix) = Ok CLower
    /\ map_res (@to_char b32_error) (to_base32 (b :: tl)) = Ok dchars
    /\ map_res (@to_char b32_error)
         (checksum_of (polymod_from (polymod_from 1 (hrp_expand (p ++ suffix))) (to_base32 (b :: tl)))
            BECH32M_CONST) = Ok cchars
    /\ s = (p ++ suffix) ++ SEP :: (dchars ++ cchars).
Proof.
  intros suffix b tl s H. unfold encode_address, entity_hrp in H.
  destruct (entity_prefix b) as [p|] eqn:P; [|discriminate].
  destruct (bech32m_encode (p ++ suffix) (to_base32 (b :: tl))) as [s'| |] eqn:B; try discriminate.
  inversion H. subst s'.
  assert (existsb is_lower (p ++ suffix) = true) as E
    by (rewrite existsb_app, (prefix_has_lower _ _ P); reflexivity).
  destruct (encode_shape_gen _ _ _ E B) as (dchars & cchars & C & M1 & M2 & S).
  exists p, dchars, cchars. auto.
Qed.

Lemma decode_shape : forall suffix b tl p hrp d5 cs5 dchars cchars,
  entity_prefix b = Some p -> hrp = p ++ suffix -> check_hrp hrp = Ok CLower ->
  from_base32 d5 = Ok (b :: tl) ->
  map_res (@to_char b32_error) d5 = Ok dchars -> map_res (@to_char b32_error) cs5 = Ok cchars ->
  length cs5 = 6%nat -> verify_checksum hrp (d5 ++ cs5) = Some true ->
  decode_address suffix (hrp ++ SEP :: (dchars ++ cchars)) = Ok (b, b :: tl).
Proof.
  intros suffix b tl p hrp d5 cs5 dchars cchars P Eh C BR M1 M2 CL CV.
  rewrite decode_address_unfold.
  unfold validate_and_decode_ignore_hrp, bech32_decode, split_and_decode.
  assert (~ In SEP (dchars ++ cchars)) as NoSep.
  { intros I. apply in_app_or in I.
    pose proof (map_res_notin _ _ M1) as F1. pose proof (map_res_notin _ _ M2) as F2.
    rewrite Forall_forall in F1, F2.
    destruct I as [I|I]; [destruct (F1 _ I) as [A _]|destruct (F2 _ I) as [A _]]; apply A; reflexivity. }
  rewrite (rfind_last SEP hrp _ NoSep), (firstn_app_exact hrp), (skipn_app_sep hrp), C.
  cbn [bind].
  assert (decode_chars (dchars ++ cchars) CLower = Ok (d5 ++ cs5)) as DC.
  { apply (decode_chars_charset d5 dchars M1).
    rewrite <- (app_nil_r cchars), <- (app_nil_r cs5).
    apply (decode_chars_charset cs5 cchars M2). reflexivity. }
  rewrite DC. cbn [bind].
  rewrite (app_length d5 cs5), CL.
  replace (Nat.ltb (length d5 + 6) CHECKSUM_LENGTH) with false
    by (symmetry; apply Nat.ltb_ge; unfold CHECKSUM_LENGTH; lia).
  rewrite CV.
  replace (length d5 + 6 - CHECKSUM_LENGTH)%nat with (length d5) by (unfold CHECKSUM_LENGTH; lia).
  rewrite (firstn_app_exact d5 cs5). cbn [negb].
  rewrite BR, P.
  unfold entity_hrp. rewrite P, <- Eh.
  replace (bytes_eqb hrp hrp) with true by (symmetry; apply bytes_eqb_eq; reflexivity).
  reflexivity.
Qed.

Theorem address_roundtrip : forall suffix data s, byte_list data ->
  encode_address suffix data = Ok s ->
  exists b tl, data = b :: tl /\ decode_address suffix s = Ok (b, data).
Proof.
  intros suffix data s BL H.
  destruct data as [|b tl]; [discriminate|]. exists b, tl. split; [reflexivity|].
  destruct (encode_shape _ _ _ _ H) as (p & dchars & cchars & P & C & M1 & M2 & ->).
  apply (decode_shape suffix b tl p (p ++ suffix) (to_base32 (b :: tl)) _ dchars cchars P eq_refl C
           (bits_roundtrip _ BL) M1 M2 (checksum_length _ _) (checksum_verifies _ _)).
Qed.

(* the encoder accepts exactly: non-empty data, valid entity byte, HRP passing check_hrp *)
Theorem encode_succeeds : forall suffix b tl p c, byte_list (b :: tl) ->
  entity_prefix b = Some p -> check_hrp (p ++ suffix) = Ok c ->
  exists s, encode_address suffix (b :: tl) = Ok s.
Proof.
  intros suffix b tl p c BL P C. unfold encode_address, entity_hrp. rewrite P.
  unfold bech32m_encode. rewrite C. cbn [bind].
  destruct (map_res_total _ (to_base32_u5 _ BL)) as (dchars & M1). rewrite M1. cbn [bind].
  match goal with |- context [map_res to_char ?cs] =>
    destruct (map_res_total cs) as (cchars & M2) end.
  { unfold checksum_of. cbn [map].
    repeat (constructor; [change 32 with (2 ^ 5); apply (proj1 (small_iff 5 _)), digit_small|]).
    constructor. }
  rewrite M2. cbn [bind]. eauto.
Qed.
