(* C49 — proofs about Model/C49_Limits.v *)
From Coq Require Import List NArith Bool Lia.
Import ListNotations.
Require Import RV.Model.C49_Limits.
Open Scope N_scope.

Arguments N.add : simpl never.
Arguments N.sub : simpl never.
Arguments N.mul : simpl never.
Arguments N.leb : simpl never.
Arguments N.ltb : simpl never.
Arguments N.eqb : simpl never.

Ltac destr_cmp :=
  repeat match goal with
  | |- context [?a <? ?b] => let H := fresh "Hlt" in destruct (N.ltb_spec a b) as [H|H]
  | |- context [?a <=? ?b] => let H := fresh "Hle" in destruct (N.leb_spec a b) as [H|H]
  | |- context [?a =? ?b] => let H := fresh "Heq" in destruct (N.eqb_spec a b) as [H|H]
  end.

(* ------------------------------------------------------------------------------------------ *)
(* A. each check: passes iff within the limit; the error names the limit and carries the size *)
(* ------------------------------------------------------------------------------------------ *)

Lemma key_exact : forall c k len, key_size k = Some len ->
  process_key c k = if len <=? max_key c then ROk else RErr (KeyExceeded len).
Proof.
  intros c k len Hk. unfold process_key. rewrite Hk. destr_cmp; try reflexivity; lia.
Qed.

Lemma key_size_spec : forall k,
  key_size k = match k with
               | KMap l => Some l
               | KSorted l => if l + 2 <=? USIZE_MAX then Some (l + 2) else None
               | KField => Some 1 end.
Proof. destruct k; reflexivity. Qed.

Lemma value_exact : forall c len,
  process_value c len = if len <=? max_value c then ROk else RErr (ValueExceeded len).
Proof. intros. unfold process_value. destr_cmp; try reflexivity; lia. Qed.

Lemma invoke_exact : forall c s size,
  before_invoke c s size =
    if depth s =? max_call_depth c then RErr CallDepthReached
    else if size <=? max_invoke c then ROk else RErr (InvokeExceeded size).
Proof. intros. unfold before_invoke. destr_cmp; try reflexivity; lia. Qed.

Lemma log_exact : forall c s size,
  add_log c (mkFlags true true) s size =
    if max_logs c <=? logs s then (s, RErr TooManyLogs)
    else if size <=? max_log_size c then (set_logs s (logs s + 1), ROk)
    else (s, RErr (LogTooLarge size (max_log_size c))).
Proof. intros. unfold add_log. cbn [limits_on runtime_on andb]. destr_cmp; try reflexivity; lia. Qed.

Lemma event_exact : forall c s size,
  step c (mkFlags true true) s (OEvent size) =
    if max_events c <=? events s then (s, RErr TooManyEvents)
    else if size <=? max_event_size c then (set_events s (events s + 1), ROk)
    else (s, RErr (EventTooLarge size (max_event_size c))).
Proof.
  intros. cbn [step]. unfold assert_can_add_event, add_event_unchecked.
  cbn [limits_on runtime_on andb]. destr_cmp; try reflexivity; lia.
Qed.

Lemma panic_exact : forall c f size, limits_on f = true ->
  set_panic_message c f size =
    if size <=? max_panic_size c then ROk else RErr (PanicTooLarge size (max_panic_size c)).
Proof. intros c f size Hf. unfold set_panic_message. rewrite Hf. cbn [andb]. destr_cmp; try reflexivity; lia. Qed.

Lemma totals_exact : forall c s,
  check_totals c s =
    if heap s <=? max_heap c then
      (if track s <=? max_track c then ROk else RErr (TrackExceeded (track s) (max_track c)))
    else RErr (HeapExceeded (heap s) (max_heap c)).
Proof. intros. unfold check_totals. destr_cmp; try reflexivity; lia. Qed.

(* the iff form, all limits together *)
Lemma exceed_iff_error : forall c,
  (forall k len, key_size k = Some len ->
     (process_key c k = ROk <-> len <= max_key c) /\
     (max_key c < len -> process_key c k = RErr (KeyExceeded len))) /\
  (forall len,
     (process_value c len = ROk <-> len <= max_value c) /\
     (max_value c < len -> process_value c len = RErr (ValueExceeded len))) /\
  (forall s size, depth s <> max_call_depth c ->
     (before_invoke c s size = ROk <-> size <= max_invoke c) /\
     (max_invoke c < size -> before_invoke c s size = RErr (InvokeExceeded size))) /\
  (forall s size,
     (before_invoke c s size = RErr CallDepthReached <-> depth s = max_call_depth c)) /\
  (forall s size, logs s < max_logs c ->
     (snd (add_log c (mkFlags true true) s size) = ROk <-> size <= max_log_size c) /\
     (max_log_size c < size ->
      snd (add_log c (mkFlags true true) s size) = RErr (LogTooLarge size (max_log_size c)))) /\
  (forall s size,
     (snd (add_log c (mkFlags true true) s size) = RErr TooManyLogs <-> max_logs c <= logs s)) /\
  (forall s size, events s < max_events c ->
     (snd (step c (mkFlags true true) s (OEvent size)) = ROk <-> size <= max_event_size c) /\
     (max_event_size c < size ->
      snd (step c (mkFlags true true) s (OEvent size)) = RErr (EventTooLarge size (max_event_size c)))) /\
  (forall s size,
     (snd (step c (mkFlags true true) s (OEvent size)) = RErr TooManyEvents <-> max_events c <= events s)) /\
  (forall size,
     (set_panic_message c (mkFlags true true) size = ROk <-> size <= max_panic_size c) /\
     (max_panic_size c < size ->
      set_panic_message c (mkFlags true true) size = RErr (PanicTooLarge size (max_panic_size c)))) /\
  (forall s,
     (check_totals c s = ROk <-> heap s <= max_heap c /\ track s <= max_track c) /\
     (max_heap c < heap s -> check_totals c s = RErr (HeapExceeded (heap s) (max_heap c))) /\
     (heap s <= max_heap c -> max_track c < track s ->
      check_totals c s = RErr (TrackExceeded (track s) (max_track c)))).
Proof.
  intro c. repeat apply conj.
  - intros k len Hk. rewrite (key_exact c k len Hk). destr_cmp; split; try split; intros; try congruence; try lia.
  - intros len. rewrite value_exact. destr_cmp; split; try split; intros; try congruence; try lia.
  - intros s size Hd. rewrite invoke_exact. destr_cmp; split; try split; intros; try congruence; try lia.
  - intros s size. rewrite invoke_exact. destr_cmp; split; intros; try congruence; try lia.
  - intros s size Hl. rewrite log_exact. destr_cmp; cbn [snd]; split; try split; intros; try congruence; try lia.
  - intros s size. rewrite log_exact. destr_cmp; cbn [snd]; split; intros; try congruence; try lia.
  - intros s size Hl. rewrite event_exact. destr_cmp; cbn [snd]; split; try split; intros; try congruence; try lia.
  - intros s size. rewrite event_exact. destr_cmp; cbn [snd]; split; intros; try congruence; try lia.
  - intros size. rewrite (panic_exact c (mkFlags true true) size eq_refl).
    destr_cmp; split; try split; intros; try congruence; try lia.
  - intros s. rewrite totals_exact. destr_cmp; repeat split; intros; try congruence; try lia.
Qed.

(* boundary instances: size = limit passes, size = limit + 1 fails *)
Lemma boundary_exact : forall c,
  process_key c (KMap (max_key c)) = ROk /\
  process_key c (KMap (max_key c + 1)) = RErr (KeyExceeded (max_key c + 1)) /\
  process_value c (max_value c) = ROk /\
  process_value c (max_value c + 1) = RErr (ValueExceeded (max_value c + 1)) /\
  (forall s, depth s <> max_call_depth c ->
     before_invoke c s (max_invoke c) = ROk /\
     before_invoke c s (max_invoke c + 1) = RErr (InvokeExceeded (max_invoke c + 1))) /\
  set_panic_message c (mkFlags true true) (max_panic_size c) = ROk /\
  set_panic_message c (mkFlags true true) (max_panic_size c + 1)
    = RErr (PanicTooLarge (max_panic_size c + 1) (max_panic_size c)).
Proof.
  intro c. repeat apply conj.
  - rewrite (key_exact c (KMap (max_key c)) (max_key c) eq_refl). destr_cmp; [reflexivity|lia].
  - rewrite (key_exact c (KMap (max_key c + 1)) (max_key c + 1) eq_refl). destr_cmp; [lia|reflexivity].
  - rewrite value_exact. destr_cmp; [reflexivity|lia].
  - rewrite value_exact. destr_cmp; [lia|reflexivity].
  - intros s Hd. split; rewrite invoke_exact; destr_cmp; try reflexivity; try lia; congruence.
  - rewrite (panic_exact c (mkFlags true true) _ eq_refl). destr_cmp; [reflexivity|lia].
  - rewrite (panic_exact c (mkFlags true true) _ eq_refl). destr_cmp; [lia|reflexivity].
Qed.

(* ------------------------------------------------------------------------------------------ *)
(* B. counters = sum of the sizes of the tracked substates                                      *)
(* ------------------------------------------------------------------------------------------ *)

(* abstract store of tracked substates: key id -> (canonical key length, value size) *)
Definition store := list (N * (N * N)).

Fixpoint lookup (kid : N) (s : store) : option (N * N) :=
  match s with
  | [] => None
  | (k, v) :: r => if k =? kid then Some v else lookup kid r
  end.
Fixpoint remove (kid : N) (s : store) : store :=
  match s with
  | [] => []
  | (k, v) :: r => if k =? kid then r else (k, v) :: remove kid r
  end.
Fixpoint total (s : store) : N :=
  match s with [] => 0 | (_, (kl, sz)) :: r => kl + sz + total r end.
Definition keys (s : store) : list N := map fst s.

Definition put (kid klen : N) (new : option N) (s : store) : store :=
  match new with Some n => (kid, (klen, n)) :: remove kid s | None => remove kid s end.

(* the IO event agrees with the store: old_size is the currently tracked size, and the key
   length is a function of the key *)
Definition agrees (s : store) (kid klen : N) (old : option N) : Prop :=
  match lookup kid s with
  | Some (kl, sz) => kl = klen /\ old = Some sz
  | None => old = None
  end.

Lemma total_remove : forall kid s kl sz, lookup kid s = Some (kl, sz) ->
  total s = kl + sz + total (remove kid s).
Proof.
  induction s as [|[k [kl' sz']] r IH]; intros kl sz H; cbn [lookup remove total] in *.
  - discriminate.
  - destruct (N.eqb_spec k kid).
    + inversion H; subst. reflexivity.
    + cbn [total]. rewrite (IH _ _ H). lia.
Qed.
Lemma remove_absent : forall kid s, lookup kid s = None -> remove kid s = s.
Proof.
  induction s as [|[k v] r IH]; intros H; cbn [lookup remove] in *; [reflexivity|].
  destruct (N.eqb_spec k kid); [discriminate|]. rewrite (IH H). reflexivity.
Qed.
Lemma in_keys_remove : forall kid x s, In x (keys (remove kid s)) -> In x (keys s).
Proof.
  induction s as [|[k v] r IH]; cbn [remove keys map fst In]; [tauto|].
  destruct (N.eqb_spec k kid); cbn [keys map fst In]; intros H; [right; exact H|].
  destruct H as [H|H]; [left; exact H|right; apply IH; exact H].
Qed.
Lemma nodup_remove : forall kid s, NoDup (keys s) -> NoDup (keys (remove kid s)) /\ ~ In kid (keys (remove kid s)).
Proof.
  induction s as [|[k v] r IH]; cbn [remove keys map fst]; intros H.
  - split; [constructor|intros []].
  - inversion H as [|? ? Hn Hr]; subst.
    destruct (N.eqb_spec k kid).
    + subst. split; assumption.
    + destruct (IH Hr) as [I1 I2]. cbn [keys map fst]. split.
      * constructor; [|exact I1]. intro Hin. apply Hn. eapply in_keys_remove; exact Hin.
      * intros [E|Hin]; [congruence|tauto].
Qed.
Lemma nodup_put : forall kid klen new s, NoDup (keys s) -> NoDup (keys (put kid klen new s)).
Proof.
  intros kid klen new s H. destruct (nodup_remove kid s H) as [I1 I2].
  destruct new; cbn [put keys map fst]; [constructor; assumption|assumption].
Qed.
Lemma lookup_put_same : forall kid klen new s, NoDup (keys s) ->
  lookup kid (put kid klen new s) = match new with Some n => Some (klen, n) | None => None end.
Proof.
  intros kid klen new s H. destruct new; cbn [put lookup].
  - rewrite N.eqb_refl. reflexivity.
  - destruct (nodup_remove kid s H) as [_ I2].
    induction (remove kid s) as [|[k v] r IH]; cbn [lookup]; [reflexivity|].
    destruct (N.eqb_spec k kid); [exfalso; apply I2; left; exact e|].
    apply IH. intro Hin. apply I2. right. exact Hin.
Qed.

(* the single-counter update is exact whenever the event agrees with the store and the
   intermediate sum fits a usize; it never underflows *)
Lemma upd_counter_exact : forall s cnt kid klen old new,
  total s = cnt -> agrees s kid klen old -> cnt + klen + odef new <= USIZE_MAX ->
  upd_counter cnt klen old new = Some (total (put kid klen new s)).
Proof.
  intros s cnt kid klen old new Ht Ha Hfit. unfold agrees in Ha.
  destruct (lookup kid s) as [[kl sz]|] eqn:Hl.
  - destruct Ha as [-> ->]. pose proof (total_remove _ _ _ _ Hl) as Htr.
    unfold upd_counter, uadd, usub. cbn [is_none obind odef].
    destruct new as [n|]; cbn [is_none obind odef put total].
    + destruct (N.leb_spec (cnt + n) USIZE_MAX); [|cbn [odef] in Hfit; lia]. cbn [obind].
      destruct (N.leb_spec sz (cnt + n)); [|lia]. f_equal. lia.
    + destruct (N.leb_spec klen cnt); [|lia]. cbn [obind].
      destruct (N.leb_spec (cnt - klen + 0) USIZE_MAX); [|lia]. cbn [obind].
      destruct (N.leb_spec sz (cnt - klen + 0)); [|lia]. f_equal. lia.
  - subst old. rewrite (remove_absent _ _ Hl) || idtac.
    unfold upd_counter, uadd, usub. cbn [is_none obind odef].
    destruct (N.leb_spec (cnt + klen) USIZE_MAX); [|lia]. cbn [obind].
    destruct new as [n|]; cbn [is_none obind odef put total] in *; rewrite (remove_absent _ _ Hl).
    + destruct (N.leb_spec (cnt + klen + n) USIZE_MAX); [|lia]. cbn [obind].
      destruct (N.leb_spec 0 (cnt + klen + n)); [|lia]. f_equal. lia.
    + destruct (N.leb_spec klen (cnt + klen)); [|lia]. cbn [obind].
      destruct (N.leb_spec (cnt + klen - klen + 0) USIZE_MAX); [|lia]. cbn [obind].
      destruct (N.leb_spec 0 (cnt + klen - klen + 0)); [|lia]. f_equal. lia.
Qed.

(* abstract IO events: the concrete event plus the identity of the substate key *)
Inductive aio :=
| ARead | AReadNotFound
| AHeap (kid klen : N) (old new : option N)
| ATrack (kid klen : N) (old new : option N).

Definition proj (a : aio) : io :=
  match a with
  | ARead => IoRead | AReadNotFound => IoReadNotFound
  | AHeap _ k o n => IoHeap k o n
  | ATrack _ k o n => IoTrack k o n
  end.

(* abstract semantics: a heap store and a track store *)
Definition astep (st : store * store) (a : aio) : store * store :=
  match a with
  | ARead | AReadNotFound => st
  | AHeap kid k _ n => (put kid k n (fst st), snd st)
  | ATrack kid k _ n => (fst st, put kid k n (snd st))
  end.
Definition aagrees (st : store * store) (a : aio) : Prop :=
  match a with
  | ARead | AReadNotFound => True
  | AHeap kid k o _ => agrees (fst st) kid k o
  | ATrack kid k o _ => agrees (snd st) kid k o
  end.
Definition afits (st : store * store) (a : aio) : Prop :=
  match a with
  | ARead | AReadNotFound => True
  | AHeap _ k _ n => total (fst st) + k + odef n <= USIZE_MAX
  | ATrack _ k _ n => total (snd st) + k + odef n <= USIZE_MAX
  end.
(* a trace is consistent: every event agrees with the store it is applied to (and fits) *)
Fixpoint consistent (st : store * store) (evs : list aio) : Prop :=
  match evs with
  | [] => True
  | a :: r => aagrees st a /\ afits st a /\ consistent (astep st a) r
  end.
Fixpoint aexec (st : store * store) (evs : list aio) : store * store :=
  match evs with [] => st | a :: r => aexec (astep st a) r end.

(* the module fed with the IO events, whatever it answers (an Err does not undo the update) *)
Fixpoint io_exec (c : config) (s : state) (ios : list io) : option state :=
  match ios with
  | [] => Some s
  | a :: r => let '(s', res) := process_io c s a in
              match res with RPanic => None | _ => io_exec c s' r end
  end.

Definition Inv (st : store * store) (s : state) : Prop :=
  heap s = total (fst st) /\ track s = total (snd st) /\
  NoDup (keys (fst st)) /\ NoDup (keys (snd st)).

Lemma check_totals_not_panic : forall c s, check_totals c s <> RPanic.
Proof. intros. unfold check_totals. destr_cmp; discriminate. Qed.

Lemma process_io_exact : forall c st s a,
  Inv st s -> aagrees st a -> afits st a ->
  snd (process_io c s (proj a)) <> RPanic /\ Inv (astep st a) (fst (process_io c s (proj a))) /\
  logs (fst (process_io c s (proj a))) = logs s /\ events (fst (process_io c s (proj a))) = events s /\
  depth (fst (process_io c s (proj a))) = depth s.
Proof.
  intros c [hs ts] s a (Hh & Ht & Nh & Nt) Ha Hf. cbn [fst snd] in *.
  destruct a as [| |kid k o n|kid k o n]; cbn [process_io astep aagrees afits proj fst snd] in *.
  - repeat split; try assumption. apply check_totals_not_panic.
  - repeat split; try assumption. apply check_totals_not_panic.
  - rewrite (upd_counter_exact hs (heap s) kid k o n (eq_sym Hh) Ha) by (rewrite Hh; exact Hf).
    cbn [fst snd]. repeat split; try assumption; try apply check_totals_not_panic.
    apply nodup_put; assumption.
  - rewrite (upd_counter_exact ts (track s) kid k o n (eq_sym Ht) Ha) by (rewrite Ht; exact Hf).
    cbn [fst snd]. repeat split; try assumption; try apply check_totals_not_panic.
    apply nodup_put; assumption.
Qed.

Lemma io_exec_exact : forall c evs st s,
  Inv st s -> consistent st evs ->
  exists s', io_exec c s (map proj evs) = Some s' /\ Inv (aexec st evs) s'.
Proof.
  induction evs as [|a r IH]; intros st s HI HC; cbn [map io_exec aexec consistent] in *.
  - exists s. split; [reflexivity|exact HI].
  - destruct HC as (Ha & Hf & Hr).
    destruct (process_io_exact c st s a HI Ha Hf) as (Hnp & HI' & _).
    destruct (process_io c s (proj a)) as [s1 r1] eqn:E. cbn [fst snd] in *.
    destruct (IH _ _ HI' Hr) as (s' & E' & HI'').
    exists s'. split; [|exact HI''].
    destruct r1; try exact E'. congruence.
Qed.

Lemma inv0 : Inv ([], []) state0.
Proof. repeat split; constructor. Qed.

(* C49_counters_exact *)
Theorem counters_exact : forall c evs,
  consistent ([], []) evs ->
  exists s, io_exec c state0 (map proj evs) = Some s /\
            heap s = total (fst (aexec ([], []) evs)) /\
            track s = total (snd (aexec ([], []) evs)) /\
            NoDup (keys (fst (aexec ([], []) evs))) /\ NoDup (keys (snd (aexec ([], []) evs))).
Proof.
  intros c evs HC. destruct (io_exec_exact c evs _ _ inv0 HC) as (s & E & HI).
  exists s. split; [exact E|exact HI].
Qed.

(* the store is a map: what was put last is what is found *)
Theorem store_is_map : forall kid klen new s, NoDup (keys s) ->
  lookup kid (put kid klen new s) = match new with Some n => Some (klen, n) | None => None end.
Proof. exact lookup_put_same. Qed.

(* ------------------------------------------------------------------------------------------ *)
(* C. a run fails iff some prefix ends in an event that exceeds a limit                         *)
(* ------------------------------------------------------------------------------------------ *)

Definition key_exceeds (c : config) (k : skey) : Prop :=
  exists len, key_size k = Some len /\ max_key c < len.

(* Every handler of the module is one of the three process_* functions (or nothing): the event as
   the module sees it. *)
Definition hev_op (e : hev) : option op :=
  match e with
  | HCreateNodeStart kvs => Some (OCreateNode kvs)
  | HOpenStart k | HRemoveStart k => Some (OKey k)
  | HWriteStart l => Some (OValue l)
  | HSetStart k l => Some (OKeyValue k l)
  | HCreateNodeIO a | HDropNodeIO a | HMoveModuleIO a | HOpenIO a | HReadIO a | HWriteIO a
  | HSetIO a | HRemoveIO a | HScanKeysIO a | HDrainIO a | HScanSortedIO a => Some (OIo a)
  | HCreateNodeEnd | HDropNodeStart | HDropNodeEnd | HOpenEnd | HReadOnRead
  | HScanKeysStart | HDrainStart | HScanSortedStart => None
  end.
Definition is_OH (o : op) : bool := match o with OH _ => true | _ => false end.
Definition norm (o : op) : option op := match o with OH e => hev_op e | _ => Some o end.

Lemma handle_as_op : forall c f s e, limits_on f = true ->
  handle c s e = match hev_op e with Some o => step c f s o | None => (s, ROk) end.
Proof. intros c f s e Hf. destruct e; cbn [handle hev_op step]; rewrite ?Hf; reflexivity. Qed.
Lemma step_norm : forall c f s o, limits_on f = true ->
  step c f s o = match norm o with Some o' => step c f s o' | None => (s, ROk) end.
Proof.
  intros c f s o Hf. destruct o; try reflexivity. cbn [step norm]. rewrite Hf. apply handle_as_op. exact Hf.
Qed.
Lemma norm_not_OH : forall o o', norm o = Some o' -> is_OH o' = false.
Proof.
  intros o o' H. destruct o; cbn [norm] in H; try (inversion H; subst; reflexivity).
  destruct e; cbn [hev_op] in H; inversion H; subst; reflexivity.
Qed.

(* the declarative meaning of "this event exceeds a limit in state s" (limits enabled) *)
Definition exceeds_base (c : config) (f : flags) (s : state) (o : op) : Prop :=
  match o with
  | OKey k => key_exceeds c k
  | OValue l => max_value c < l
  | OKeyValue k l => key_exceeds c k \/ max_value c < l
  | OCreateNode kvs => exists k l, In (k, l) kvs /\ (key_exceeds c k \/ max_value c < l)
  | OIo a => let s' := fst (process_io c s a) in max_heap c < heap s' \/ max_track c < track s'
  | OInvoke size => depth s = max_call_depth c \/ max_invoke c < size
  | OReturn => False
  | OLog size => max_logs c <= logs s \/ max_log_size c < size
  | OEvent size => max_events c <= events s \/ max_event_size c < size
  | OAssertCanAddEvent => max_events c <= events s
  | OAddEventUnchecked size => max_event_size c < size
  | OPanicMsg size => max_panic_size c < size
  | OLockFeeEmit size => max_event_size c < size
  | OH _ => False
  end.
(* a handler event exceeds a limit iff the process_* call it makes does *)
Definition exceeds (c : config) (f : flags) (s : state) (o : op) : Prop :=
  match norm o with Some o' => exceeds_base c f s o' | None => False end.

Lemma process_key_cases : forall c k,
  (process_key c k = ROk /\ ~ key_exceeds c k) \/
  (exists len, process_key c k = RErr (KeyExceeded len) /\ key_exceeds c k) \/
  (process_key c k = RPanic /\ key_size k = None).
Proof.
  intros c k. unfold process_key, key_exceeds. destruct (key_size k) as [len|].
  - destruct (N.ltb_spec (max_key c) len).
    + right; left. exists len. split; [reflexivity|]. exists len. split; [reflexivity|assumption].
    + left. split; [reflexivity|]. intros (l & E & Hl). inversion E; subst. lia.
  - right; right. split; reflexivity.
Qed.

Lemma process_key_value_cases : forall c k l,
  (process_key_value c k l = ROk /\ ~ (key_exceeds c k \/ max_value c < l)) \/
  (exists e, process_key_value c k l = RErr e /\ (key_exceeds c k \/ max_value c < l)) \/
  (process_key_value c k l = RPanic).
Proof.
  intros c k l. unfold process_key_value.
  destruct (process_key_cases c k) as [[E N]|[(len & E & X)|[E _]]]; rewrite E.
  - unfold process_value. destruct (N.ltb_spec (max_value c) l).
    + right; left. eexists. split; [reflexivity|right; assumption].
    + left. split; [reflexivity|]. intros [X|X]; [tauto|lia].
  - right; left. eexists. split; [reflexivity|left; assumption].
  - right; right. reflexivity.
Qed.

Lemma process_create_node_cases : forall c kvs,
  (process_create_node c kvs = ROk /\
     ~ (exists k l, In (k, l) kvs /\ (key_exceeds c k \/ max_value c < l))) \/
  (exists e, process_create_node c kvs = RErr e /\
     (exists k l, In (k, l) kvs /\ (key_exceeds c k \/ max_value c < l))) \/
  (process_create_node c kvs = RPanic).
Proof.
  induction kvs as [|[k l] r IH]; cbn [process_create_node].
  - left. split; [reflexivity|]. intros (k & l & [] & _).
  - destruct (process_key_value_cases c k l) as [[E N]|[(e & E & X)|E]]; rewrite E.
    + destruct IH as [[E' N']|[(e & E' & X')|E']]; rewrite E'.
      * left. split; [reflexivity|]. intros (k' & l' & [Hin|Hin] & X).
        -- inversion Hin; subst. tauto.
        -- apply N'. exists k', l'. tauto.
      * right; left. exists e. split; [reflexivity|].
        destruct X' as (k' & l' & Hin & X'). exists k', l'. split; [right; exact Hin|exact X'].
      * right; right. reflexivity.
    + right; left. exists e. split; [reflexivity|]. exists k, l. split; [left; reflexivity|exact X].
    + right; right. reflexivity.
Qed.

Ltac fin_case := cbn [snd fst]; first
  [ left; split; [reflexivity| solve [lia | tauto | intros [X|X]; lia ] ]
  | right; left; eexists; split; [reflexivity| solve [lia | left; lia | right; lia | tauto ] ] ].

(* one step: Ok iff the event does not exceed; an error only if it exceeds *)
Lemma step_cases_base : forall c f s o, limits_on f = true -> is_OH o = false ->
  (snd (step c f s o) = ROk /\ ~ exceeds_base c f s o) \/
  (exists e, snd (step c f s o) = RErr e /\ exceeds_base c f s o) \/
  (snd (step c f s o) = RPanic).
Proof.
  intros c f s o Hf Hoh. destruct o; [| | | | | | | | | | | | |discriminate]; cbn [step exceeds_base]; rewrite ?Hf; cbn [snd].
  - destruct (process_key_cases c k) as [[E N]|[(len & E & X)|[E _]]]; rewrite E; eauto.
  - unfold process_value. destruct (N.ltb_spec (max_value c) len); [right; left; eauto|left; split; [reflexivity|lia]].
  - destruct (process_key_value_cases c k len) as [[E N]|[(e & E & X)|E]]; rewrite E; eauto.
  - destruct (process_create_node_cases c kvs) as [[E N]|[(e & E & X)|E]]; rewrite E; eauto.
  - destruct a as [| |k o n|k o n]; cbn [process_io fst snd].
    + unfold check_totals. destr_cmp; fin_case.
    + unfold check_totals. destr_cmp; fin_case.
    + destruct (upd_counter (heap s) k o n) as [h|]; cbn [fst snd]; [|right; right; reflexivity].
      unfold check_totals. destr_cmp; fin_case.
    + destruct (upd_counter (track s) k o n) as [t|]; cbn [fst snd]; [|right; right; reflexivity].
      unfold check_totals. destr_cmp; fin_case.
  - unfold before_invoke. destruct (N.eqb_spec (depth s) (max_call_depth c)); cbn [snd].
    + right; left. eauto.
    + destruct (N.ltb_spec (max_invoke c) size); cbn [snd].
      * right; left. eauto.
      * left. split; [reflexivity|]. intros [X|X]; [congruence|lia].
  - left. split; [reflexivity|tauto].
  - unfold add_log. rewrite Hf. cbn [andb]. destr_cmp; fin_case.
  - unfold assert_can_add_event, add_event_unchecked. rewrite Hf. cbn [andb]. destr_cmp; fin_case.
  - unfold assert_can_add_event. rewrite Hf. cbn [andb]. destr_cmp; fin_case.
  - unfold add_event_unchecked. rewrite Hf. cbn [andb]. destr_cmp; fin_case.
  - unfold set_panic_message. rewrite Hf. cbn [andb]. destr_cmp; fin_case.
  - unfold add_event_unchecked. rewrite Hf. cbn [andb]. destr_cmp; cbn [snd].
    + right; right. reflexivity.
    + left. split; [reflexivity|lia].
Qed.

Lemma step_cases : forall c f s o, limits_on f = true ->
  (snd (step c f s o) = ROk /\ ~ exceeds c f s o) \/
  (exists e, snd (step c f s o) = RErr e /\ exceeds c f s o) \/
  (snd (step c f s o) = RPanic).
Proof.
  intros c f s o Hf. unfold exceeds. rewrite (step_norm c f s o Hf).
  destruct (norm o) as [o'|] eqn:E.
  - apply step_cases_base; [exact Hf|eapply norm_not_OH; exact E].
  - left. split; [reflexivity|tauto].
Qed.

(* the run of a prefix; `len` counts events *)
Definition len (ops : list op) : N := N.of_nat (length ops).

Lemma run_shift : forall c f ops s i j,
  run c f s ops (i + j) =
    match run c f s ops i with inl s' => inl s' | inr (k, r) => inr (k + j, r) end.
Proof.
  induction ops as [|o r IH]; intros s i j; cbn [run]; [reflexivity|].
  destruct (step c f s o) as [s' res]. destruct res; try reflexivity.
  replace (i + j + 1) with (i + 1 + j) by lia. apply IH.
Qed.

Lemma run_app_ok : forall c f pre post s i s1,
  run c f s pre i = inl s1 -> run c f s (pre ++ post) i = run c f s1 post (i + len pre).
Proof.
  induction pre as [|o r IH]; intros post s i s1 H; cbn [run app] in *.
  - inversion H; subst. unfold len. cbn. f_equal. lia.
  - destruct (step c f s o) as [s' res]. destruct res; try discriminate.
    rewrite (IH post s' (i + 1) s1 H). f_equal. unfold len. cbn [length]. lia.
Qed.

(* failure => there is a first event that exceeds, after a prefix that ran through *)
Theorem run_fail_sound : forall c f ops s i k r,
  limits_on f = true -> run c f s ops i = inr (k, r) -> r <> RPanic ->
  exists pre o post s1 e,
    ops = pre ++ o :: post /\ k = i + len pre /\ run c f s pre i = inl s1 /\
    r = RErr e /\ snd (step c f s1 o) = RErr e /\ exceeds c f s1 o.
Proof.
  induction ops as [|o rest IH]; intros s i k r Hf H Hnp; cbn [run] in H; [discriminate|].
  destruct (step c f s o) as [s' res] eqn:E.
  destruct (step_cases c f s o Hf) as [[E1 N1]|[(e & E1 & X1)|E1]]; rewrite E in E1; cbn [snd] in E1; subst res.
  - destruct (IH s' (i + 1) k r Hf H Hnp) as (pre & o' & post & s1 & e & -> & -> & Hr & -> & Hs & X).
    exists (o :: pre), o', post, s1, e. repeat split; try assumption.
    + unfold len. cbn [length]. lia.
    + cbn [run]. rewrite E. exact Hr.
  - inversion H; subst. exists [], o, rest, s, e. repeat split.
    + unfold len. cbn. lia.
    + rewrite E. reflexivity.
    + exact X1.
  - inversion H; subst. congruence.
Qed.

(* an exceeding event after a prefix that ran through => the run fails exactly there *)
Theorem run_fail_complete : forall c f pre o post s i s1,
  limits_on f = true -> run c f s pre i = inl s1 -> exceeds c f s1 o ->
  exists r, run c f s (pre ++ o :: post) i = inr (i + len pre, r) /\ r <> ROk.
Proof.
  intros c f pre o post s i s1 Hf Hr X.
  rewrite (run_app_ok c f pre (o :: post) s i s1 Hr). cbn [run].
  destruct (step c f s1 o) as [s' res] eqn:E.
  destruct (step_cases c f s1 o Hf) as [[E1 N1]|[(e & E1 & X1)|E1]]; rewrite E in E1; cbn [snd] in E1; subst res.
  - tauto.
  - eexists. split; [reflexivity|discriminate].
  - eexists. split; [reflexivity|discriminate].
Qed.

(* the states along a run *)
Fixpoint within_all (c : config) (f : flags) (s : state) (ops : list op) : Prop :=
  match ops with
  | [] => True
  | o :: r => ~ exceeds c f s o /\ snd (step c f s o) <> RPanic /\ within_all c f (fst (step c f s o)) r
  end.

(* a run that stays within every limit at every event (and meets no arithmetic panic) is not failed *)
Theorem run_ok_iff : forall c f ops s i, limits_on f = true ->
  ((exists s', run c f s ops i = inl s') <-> within_all c f s ops).
Proof.
  induction ops as [|o r IH]; intros s i Hf; cbn [run within_all].
  - split; [tauto|eauto].
  - destruct (step c f s o) as [s' res] eqn:E. cbn [fst snd].
    destruct (step_cases c f s o Hf) as [[E1 N1]|[(e & E1 & X1)|E1]]; rewrite E in E1; cbn [snd] in E1; subst res.
    + rewrite (IH s' (i + 1) Hf). split; [intros H; repeat split; [exact N1|discriminate|exact H]|tauto].
    + split; [intros [? H]; discriminate|tauto].
    + split; [intros [? H]; discriminate|intros (_ & H & _); congruence].
Qed.

(* with limits disabled nothing fails *)
Theorem run_limits_off : forall c rt ops s i,
  exists s', run c (mkFlags false rt) s ops i = inl s'.
Proof.
  induction ops as [|o r IH]; intros s i; cbn [run]; [eauto|].
  assert (snd (step c (mkFlags false rt) s o) = ROk) as E.
  { destruct o; cbn [step limits_on snd]; try reflexivity;
      unfold add_log, assert_can_add_event, add_event_unchecked, set_panic_message;
      cbn [limits_on andb snd]; reflexivity. }
  destruct (step c (mkFlags false rt) s o) as [s' res]. cbn [snd] in E. subst res.
  apply IH.
Qed.

(* ------------------------------------------------------------------------------------------ *)
(* D. what holds of every state a transaction can reach                                        *)
(* ------------------------------------------------------------------------------------------ *)

Definition StateWithin (c : config) (s : state) : Prop :=
  depth s <= max_call_depth c /\ logs s <= max_logs c /\ events s <= max_events c.

(* events are added unchecked only right after assert_can_add_event (lock_fee); a trace is
   `guarded` when every OAddEventUnchecked directly follows an OAssertCanAddEvent *)
Fixpoint guarded (prev_assert : bool) (ops : list op) : Prop :=
  match ops with
  | [] => True
  | OAddEventUnchecked _ :: r => prev_assert = true /\ guarded false r
  | OLockFeeEmit _ :: r => prev_assert = true /\ guarded false r
  | OAssertCanAddEvent :: r => guarded true r
  | _ :: r => guarded false r
  end.

Lemma process_io_keeps : forall c s a,
  logs (fst (process_io c s a)) = logs s /\ events (fst (process_io c s a)) = events s /\
  depth (fst (process_io c s a)) = depth s.
Proof.
  intros c s a. destruct a as [| |k o n|k o n]; cbn [process_io fst]; try (repeat split; reflexivity).
  - destruct (upd_counter (heap s) k o n); cbn [fst]; repeat split; reflexivity.
  - destruct (upd_counter (track s) k o n); cbn [fst]; repeat split; reflexivity.
Qed.
Lemma handle_keeps : forall c s e,
  logs (fst (handle c s e)) = logs s /\ events (fst (handle c s e)) = events s /\
  depth (fst (handle c s e)) = depth s.
Proof.
  intros c s e. destruct e; cbn [handle fst]; try (repeat split; reflexivity); apply process_io_keeps.
Qed.

Lemma step_state_within : forall c f s o s' (pa : bool),
  limits_on f = true ->
  StateWithin c s -> (pa = true -> events s < max_events c) ->
  (match o with OAddEventUnchecked _ | OLockFeeEmit _ => pa = true | _ => True end) ->
  step c f s o = (s', ROk) ->
  StateWithin c s' /\
  (match o with OAssertCanAddEvent => events s' < max_events c | _ => True end).
Proof.
  intros c f s o s' pa Hf (Hd & Hl & He) Hpa Hg H.
  destruct o; cbn [step] in H; rewrite ?Hf in H.
  - inversion H; subst. repeat split; assumption.
  - inversion H; subst. repeat split; assumption.
  - inversion H; subst. repeat split; assumption.
  - inversion H; subst. repeat split; assumption.
  - destruct a as [| |k o n|k o n]; cbn [process_io] in H.
    + inversion H; subst. repeat split; assumption.
    + inversion H; subst. repeat split; assumption.
    + destruct (upd_counter (heap s) k o n); inversion H; subst. repeat split; assumption.
    + destruct (upd_counter (track s) k o n); inversion H; subst. repeat split; assumption.
  - unfold before_invoke in H. revert H. destr_cmp; intros H; inversion H; subst.
    unfold StateWithin. cbn [depth logs events set_depth]. repeat split; try assumption. lia.
  - inversion H; subst. unfold StateWithin. cbn [depth logs events set_depth]. repeat split; try assumption. lia.
  - unfold add_log in H. rewrite Hf in H. cbn [andb] in H. revert H. destr_cmp; intros H; inversion H; subst.
    destruct (runtime_on f); unfold StateWithin; cbn [depth logs events set_logs]; repeat split; try assumption; lia.
  - unfold assert_can_add_event, add_event_unchecked in H. rewrite Hf in H. cbn [andb] in H.
    revert H. destr_cmp; intros H; inversion H; subst.
    destruct (runtime_on f); unfold StateWithin; cbn [depth logs events set_events]; repeat split; try assumption; lia.
  - unfold assert_can_add_event in H. rewrite Hf in H. cbn [andb] in H.
    revert H. destr_cmp; intros H; inversion H; subst. repeat split; try assumption; lia.
  - specialize (Hpa Hg). unfold add_event_unchecked in H. rewrite Hf in H. cbn [andb] in H.
    revert H. destr_cmp; intros H; inversion H; subst.
    destruct (runtime_on f); unfold StateWithin; cbn [depth logs events set_events]; repeat split; try assumption; lia.
  - inversion H; subst. repeat split; assumption.
  - specialize (Hpa Hg). unfold add_event_unchecked in H. rewrite Hf in H. cbn [andb] in H.
    revert H. destr_cmp; intros H; inversion H; subst.
    destruct (runtime_on f); unfold StateWithin; cbn [depth logs events set_events]; repeat split; try assumption; lia.
  - destruct (handle_keeps c s e) as (K1 & K2 & K3). rewrite H in K1, K2, K3. cbn [fst] in K1, K2, K3.
    unfold StateWithin. rewrite K1, K2, K3. repeat split; assumption.
Qed.

Lemma run_state_within_gen : forall c f ops s i s' (pa : bool),
  limits_on f = true ->
  StateWithin c s -> (pa = true -> events s < max_events c) -> guarded pa ops ->
  run c f s ops i = inl s' -> StateWithin c s'.
Proof.
  induction ops as [|o r IH]; intros s i s' pa Hf HS Hpa Hg H; cbn [run] in H.
  - inversion H; subst. exact HS.
  - destruct (step c f s o) as [s1 res] eqn:E. destruct res; try discriminate.
    assert (match o with OAddEventUnchecked _ | OLockFeeEmit _ => pa = true | _ => True end) as Hg1
      by (destruct o; cbn [guarded] in Hg; tauto).
    destruct (step_state_within c f s o s1 pa Hf HS Hpa Hg1 E) as [HS1 Hev].
    destruct o; cbn [guarded] in Hg;
      try (apply (IH s1 (i + 1) s' false Hf HS1); [discriminate|exact Hg|exact H]).
    + apply (IH s1 (i + 1) s' true Hf HS1); [intros _; exact Hev|exact Hg|exact H].
    + destruct Hg as [_ Hg]. apply (IH s1 (i + 1) s' false Hf HS1); [discriminate|exact Hg|exact H].
    + destruct Hg as [_ Hg]. apply (IH s1 (i + 1) s' false Hf HS1); [discriminate|exact Hg|exact H].
Qed.

(* No run that is not failed ever has a call depth above max_call_depth, more logs than
   max_number_of_logs or more events than max_number_of_events: `==` in the depth check is
   enough because the depth grows by one per frame. *)
Theorem run_state_within : forall c f ops s',
  limits_on f = true -> guarded false ops ->
  run c f state0 ops 0 = inl s' -> StateWithin c s'.
Proof.
  intros c f ops s' Hf Hg H.
  apply (run_state_within_gen c f ops state0 0 s' false Hf); try assumption; try discriminate.
  unfold StateWithin, state0. cbn [depth logs events]. repeat split; lia.
Qed.

(* the heap/track totals of a state reached through a non-failed IO event are within limits *)
Theorem io_ok_totals_within : forall c f s a s',
  limits_on f = true -> step c f s (OIo a) = (s', ROk) ->
  heap s' <= max_heap c /\ track s' <= max_track c.
Proof.
  intros c f s a s' Hf H.
  destruct (step_cases c f s (OIo a) Hf) as [[E1 N1]|[(e & E1 & X1)|E1]]; rewrite H in E1; cbn [snd] in E1; try discriminate.
  unfold exceeds in N1. cbn [norm exceeds_base] in N1. cbn [step] in H. rewrite Hf in H. rewrite H in N1. cbn [fst] in N1. lia.
Qed.

(* no arithmetic panic while a transaction is alive: the counters are within the limits before
   every event (else it was aborted), so they fit a usize if limit + key + value does *)
Theorem io_no_panic_bounded : forall c st s a B,
  Inv st s -> aagrees st a ->
  heap s <= max_heap c -> track s <= max_track c ->
  max_heap c + B + B <= USIZE_MAX -> max_track c + B + B <= USIZE_MAX ->
  (match a with AHeap _ k _ n | ATrack _ k _ n => k <= B /\ odef n <= B | _ => True end) ->
  snd (process_io c s (proj a)) <> RPanic /\ Inv (astep st a) (fst (process_io c s (proj a))).
Proof.
  intros c st s a B HI Ha Hh Ht Bh Bt Hb.
  assert (afits st a) as Hf.
  { destruct HI as (E1 & E2 & _). destruct a; cbn [afits]; try exact I; rewrite <- ?E1, <- ?E2; lia. }
  destruct (process_io_exact c st s a HI Ha Hf) as (H1 & H2 & _). split; assumption.
Qed.

(* ------------------------------------------------------------------------------------------ *)
(* E. panics: exactly the usize overflows / underflows and the lock_fee `expect`               *)
(* ------------------------------------------------------------------------------------------ *)

(* known finding lock_fee_event_expect *)
Definition KnownPanic (c : config) (f : flags) (o : op) : Prop :=
  exists size, o = OLockFeeEmit size /\ limits_on f = true /\ max_event_size c < size.

Definition ArithPanic_base (s : state) (o : op) : Prop :=
  match o with
  | OKey k | OKeyValue k _ => key_size k = None
  | OCreateNode kvs => exists k l, In (k, l) kvs /\ key_size k = None
  | OIo (IoHeap k o n) => upd_counter (heap s) k o n = None
  | OIo (IoTrack k o n) => upd_counter (track s) k o n = None
  | _ => False
  end.
Definition ArithPanic (s : state) (o : op) : Prop :=
  match norm o with Some o' => ArithPanic_base s o' | None => False end.

Lemma process_key_panic : forall c k, process_key c k = RPanic -> key_size k = None.
Proof.
  intros c k. unfold process_key. destruct (key_size k); [|reflexivity].
  destruct (max_key c <? n); discriminate.
Qed.
Lemma process_key_value_panic : forall c k l, process_key_value c k l = RPanic -> key_size k = None.
Proof.
  intros c k l. unfold process_key_value. destruct (process_key c k) eqn:E; intros H; try discriminate.
  - unfold process_value in H. destruct (max_value c <? l); discriminate.
  - eapply process_key_panic; exact E.
Qed.
Lemma process_create_node_panic : forall c kvs, process_create_node c kvs = RPanic ->
  exists k l, In (k, l) kvs /\ key_size k = None.
Proof.
  induction kvs as [|[k l] r IH]; cbn [process_create_node]; intros H; [discriminate|].
  destruct (process_key_value c k l) eqn:E; try discriminate.
  - destruct (IH H) as (k' & l' & Hin & Hk). exists k', l'. split; [right; exact Hin|exact Hk].
  - exists k, l. split; [left; reflexivity|eapply process_key_value_panic; exact E].
Qed.

Lemma step_panic_classified_base : forall c f s o, is_OH o = false ->
  snd (step c f s o) = RPanic -> KnownPanic c f o \/ ArithPanic_base s o.
Proof.
  intros c f s o Hoh H. destruct o; [| | | | | | | | | | | | |discriminate]; cbn [step] in H.
  - right. cbn [ArithPanic_base]. destruct (limits_on f); cbn [snd] in H; [eapply process_key_panic; exact H|discriminate].
  - destruct (limits_on f); cbn [snd] in H; [|discriminate]. unfold process_value in H. destruct (max_value c <? _); discriminate.
  - right. cbn [ArithPanic_base]. destruct (limits_on f); cbn [snd] in H; [eapply process_key_value_panic; exact H|discriminate].
  - right. cbn [ArithPanic_base]. destruct (limits_on f); cbn [snd] in H; [eapply process_create_node_panic; exact H|discriminate].
  - right. destruct (limits_on f); cbn [snd] in H; [|discriminate].
    destruct a as [| |k o n|k o n]; cbn [process_io ArithPanic_base] in *.
    + exfalso. cbn [snd] in H. eapply check_totals_not_panic; exact H.
    + exfalso. cbn [snd] in H. eapply check_totals_not_panic; exact H.
    + destruct (upd_counter (heap s) k o n); [|reflexivity]. exfalso. cbn [snd] in H. eapply check_totals_not_panic; exact H.
    + destruct (upd_counter (track s) k o n); [|reflexivity]. exfalso. cbn [snd] in H. eapply check_totals_not_panic; exact H.
  - exfalso. destruct (limits_on f).
    + unfold before_invoke in H. destruct (depth s =? max_call_depth c); [discriminate|].
      destruct (max_invoke c <? size); discriminate.
    + discriminate.
  - discriminate.
  - exfalso. unfold add_log in H. destruct (limits_on f && (max_logs c <=? logs s)); [discriminate|].
    destruct (limits_on f && (max_log_size c <? size)); discriminate.
  - exfalso. unfold assert_can_add_event, add_event_unchecked in H.
    destruct (limits_on f && (max_events c <=? events s)); [discriminate|].
    destruct (limits_on f && (max_event_size c <? size)); discriminate.
  - exfalso. unfold assert_can_add_event in H. cbn [snd] in H.
    destruct (limits_on f && (max_events c <=? events s)); discriminate.
  - exfalso. unfold add_event_unchecked in H.
    destruct (limits_on f && (max_event_size c <? size)); discriminate.
  - exfalso. unfold set_panic_message in H. cbn [snd] in H.
    destruct (limits_on f && (max_panic_size c <? size)); discriminate.
  - left. exists size. split; [reflexivity|]. unfold add_event_unchecked in H.
    destruct (limits_on f) eqn:Hf; cbn [andb] in H; [|discriminate].
    destruct (N.ltb_spec (max_event_size c) size); [split; [reflexivity|assumption]|discriminate].
Qed.

Theorem step_panic_classified : forall c f s o,
  snd (step c f s o) = RPanic -> KnownPanic c f o \/ ArithPanic s o.
Proof.
  intros c f s o H. destruct (is_OH o) eqn:Hoh.
  - destruct o; try discriminate. right. unfold ArithPanic. cbn [norm]. cbn [step] in H.
    destruct (limits_on f) eqn:Hf; [|discriminate].
    rewrite (handle_as_op c f s e Hf) in H. destruct (hev_op e) as [o'|] eqn:E; [|discriminate].
    assert (is_OH o' = false) as Hn by (apply (norm_not_OH (OH e) o'); exact E).
    destruct (step_panic_classified_base c f s o' Hn H) as [(size & -> & _)|A]; [|exact A].
    destruct e; discriminate.
  - destruct (step_panic_classified_base c f s o Hoh H) as [K|A]; [left; exact K|].
    right. unfold ArithPanic. destruct o; try discriminate; exact A.
Qed.

(* the lock_fee event never panics when it fits *)
Lemma lock_fee_emit_ok : forall c f s size, size <= max_event_size c ->
  snd (step c f s (OLockFeeEmit size)) = ROk.
Proof.
  intros c f s size H. cbn [step]. unfold add_event_unchecked.
  destruct (N.ltb_spec (max_event_size c) size); [lia|]. rewrite andb_false_r. reflexivity.
Qed.

(* ------------------------------------------------------------------------------------------ *)
(* F. counters over sequences of ALL events: IO accesses forwarded by any handler, mixed with   *)
(*    any other event                                                                          *)
(* ------------------------------------------------------------------------------------------ *)

(* the eleven handlers that forward an IOAccess to process_io_access *)
Inductive hio := HioCreateNode | HioDropNode | HioMoveModule | HioOpen | HioRead | HioWrite
               | HioSet | HioRemove | HioScanKeys | HioDrain | HioScanSorted.
Definition hio_ev (h : hio) (a : io) : hev :=
  match h with
  | HioCreateNode => HCreateNodeIO a | HioDropNode => HDropNodeIO a | HioMoveModule => HMoveModuleIO a
  | HioOpen => HOpenIO a | HioRead => HReadIO a | HioWrite => HWriteIO a | HioSet => HSetIO a
  | HioRemove => HRemoveIO a | HioScanKeys => HScanKeysIO a | HioDrain => HDrainIO a
  | HioScanSorted => HScanSortedIO a
  end.

(* an event of an execution: an IO access (with the identity of its key) delivered through one of
   the handlers (Some h) or straight to process_io_access (None), or any event without IO access *)
Inductive aevent := AEIo (h : option hio) (a : aio) | AEOther (o : op).
Definition carries_io (o : op) : bool := match norm o with Some (OIo _) => true | _ => false end.
Definition aev_op (x : aevent) : op :=
  match x with
  | AEIo (Some h) a => OH (hio_ev h (proj a))
  | AEIo None a => OIo (proj a)
  | AEOther o => o
  end.
Definition aev_astep (st : store * store) (x : aevent) : store * store :=
  match x with AEIo _ a => astep st a | AEOther _ => st end.
Fixpoint consistent_ev (st : store * store) (evs : list aevent) : Prop :=
  match evs with
  | [] => True
  | x :: r => (match x with AEIo _ a => aagrees st a /\ afits st a | AEOther o => carries_io o = false end)
              /\ consistent_ev (aev_astep st x) r
  end.
Fixpoint aexec_ev (st : store * store) (evs : list aevent) : store * store :=
  match evs with [] => st | x :: r => aexec_ev (aev_astep st x) r end.
(* the state after all events, whatever the answers were *)
Fixpoint exec_all (c : config) (f : flags) (s : state) (ops : list op) : state :=
  match ops with [] => s | o :: r => exec_all c f (fst (step c f s o)) r end.
(* no IO access is answered with a panic *)
Fixpoint io_no_panic (c : config) (f : flags) (s : state) (evs : list aevent) : Prop :=
  match evs with
  | [] => True
  | x :: r => (match x with AEIo _ _ => snd (step c f s (aev_op x)) <> RPanic | AEOther _ => True end)
              /\ io_no_panic c f (fst (step c f s (aev_op x))) r
  end.

Lemma step_aev_io : forall c f s h a, limits_on f = true ->
  step c f s (aev_op (AEIo h a)) = process_io c s (proj a).
Proof.
  intros c f s h a Hf. destruct h as [h|]; [destruct h|]; cbn [aev_op hio_ev step handle]; rewrite Hf; reflexivity.
Qed.

Lemma step_other_keeps_counters : forall c f s o, carries_io o = false ->
  heap (fst (step c f s o)) = heap s /\ track (fst (step c f s o)) = track s.
Proof.
  intros c f s o H. destruct o; cbn [step]; try (cbn [fst]; split; reflexivity).
  - unfold carries_io in H. cbn [norm] in H. discriminate.
  - destruct (if limits_on f then before_invoke c s size else ROk); cbn [fst set_depth heap track]; split; reflexivity.
  - unfold add_log. destruct (limits_on f && (max_logs c <=? logs s)); [split; reflexivity|].
    destruct (limits_on f && (max_log_size c <? size)); [split; reflexivity|].
    destruct (runtime_on f); cbn [fst set_logs heap track]; split; reflexivity.
  - unfold assert_can_add_event, add_event_unchecked.
    destruct (limits_on f && (max_events c <=? events s)); [split; reflexivity|].
    destruct (limits_on f && (max_event_size c <? size)); [split; reflexivity|].
    destruct (runtime_on f); cbn [fst set_events heap track]; split; reflexivity.
  - unfold add_event_unchecked.
    destruct (limits_on f && (max_event_size c <? size)); [split; reflexivity|].
    destruct (runtime_on f); cbn [fst set_events heap track]; split; reflexivity.
  - unfold add_event_unchecked.
    destruct (limits_on f && (max_event_size c <? size)); [split; reflexivity|].
    destruct (runtime_on f); cbn [fst set_events heap track]; split; reflexivity.
  - destruct (limits_on f); [|split; reflexivity].
    destruct e; cbn [handle fst]; try (split; reflexivity);
      unfold carries_io in H; cbn [norm hev_op] in H; discriminate.
Qed.

Lemma inv_other : forall st s s', heap s' = heap s -> track s' = track s -> Inv st s -> Inv st s'.
Proof. intros st s s' E1 E2 (H1 & H2 & H3 & H4). repeat split; try assumption; congruence. Qed.

(* C49_counters_exact over all handlers *)
Theorem counters_exact_all : forall c f evs st s,
  limits_on f = true -> Inv st s -> consistent_ev st evs ->
  Inv (aexec_ev st evs) (exec_all c f s (map aev_op evs)) /\ io_no_panic c f s evs.
Proof.
  intros c f. induction evs as [|x r IH]; intros st s Hf HI HC; cbn [map exec_all aexec_ev io_no_panic consistent_ev] in *.
  - split; [exact HI|exact I].
  - destruct HC as [Hx Hr]. destruct x as [h a|o].
    + destruct Hx as [Ha Hfit]. rewrite (step_aev_io c f s h a Hf).
      destruct (process_io_exact c st s a HI Ha Hfit) as (Hnp & HI' & _).
      destruct (IH _ _ Hf HI' Hr) as [I1 I2]. split; [exact I1|split; [exact Hnp|exact I2]].
    + cbn [aev_op aev_astep] in *. destruct (step_other_keeps_counters c f s o Hx) as [E1 E2].
      destruct (IH st (fst (step c f s o)) Hf (inv_other _ _ _ E1 E2 HI) Hr) as [I1 I2].
      split; [exact I1|split; [exact I|exact I2]].
Qed.

(* ------------------------------------------------------------------------------------------ *)
(* G. the kernel call depth: root frame at depth 0, +1 per invocation that passes before_invoke, *)
(*    -1 per return. Every reachable depth is <= max_call_depth, so `==` rejects exactly what   *)
(*    `>=` would reject.                                                                        *)
(* ------------------------------------------------------------------------------------------ *)

Lemma step_state_within_depth_aux : forall c f s o,
  depth (fst (step c f s o)) = depth s \/ (exists size, o = OInvoke size) \/ o = OReturn.
Proof.
  intros c f s o. destruct o; cbn [step]; try (left; reflexivity).
  - left. destruct (limits_on f); [apply process_io_keeps|reflexivity].
  - right; left. eauto.
  - right; right. reflexivity.
  - left. unfold add_log. destruct (limits_on f && (max_logs c <=? logs s)); [reflexivity|].
    destruct (limits_on f && (max_log_size c <? size)); [reflexivity|]. destruct (runtime_on f); reflexivity.
  - left. unfold assert_can_add_event, add_event_unchecked.
    destruct (limits_on f && (max_events c <=? events s)); [reflexivity|].
    destruct (limits_on f && (max_event_size c <? size)); [reflexivity|]. destruct (runtime_on f); reflexivity.
  - left. unfold add_event_unchecked.
    destruct (limits_on f && (max_event_size c <? size)); [reflexivity|]. destruct (runtime_on f); reflexivity.
  - left. unfold add_event_unchecked.
    destruct (limits_on f && (max_event_size c <? size)); [reflexivity|]. destruct (runtime_on f); reflexivity.
  - left. destruct (limits_on f); [apply handle_keeps|reflexivity].
Qed.

Lemma step_depth : forall c f s o s', limits_on f = true ->
  step c f s o = (s', ROk) -> depth s <= max_call_depth c -> depth s' <= max_call_depth c.
Proof.
  intros c f s o s' Hf H Hd.
  destruct (step_state_within_depth_aux c f s o) as [E|[[size E]|E]]; [|subst o|subst o].
  - rewrite H in E. cbn [fst] in E. lia.
  - cbn [step] in H. rewrite Hf in H. unfold before_invoke in H.
    destruct (N.eqb_spec (depth s) (max_call_depth c)); [discriminate|].
    destruct (max_invoke c <? size); [discriminate|]. inversion H; subst. cbn [depth set_depth]. lia.
  - cbn [step] in H. inversion H; subst. cbn [depth set_depth]. lia.
Qed.

Theorem run_depth_le : forall c f ops s i s', limits_on f = true ->
  run c f s ops i = inl s' -> depth s <= max_call_depth c -> depth s' <= max_call_depth c.
Proof.
  induction ops as [|o r IH]; intros s i s' Hf H Hd; cbn [run] in H.
  - inversion H; subst. exact Hd.
  - destruct (step c f s o) as [s1 res] eqn:E. destruct res; try discriminate.
    eapply IH; [exact Hf|exact H|]. eapply step_depth; [exact Hf|exact E|exact Hd].
Qed.

(* on every state a transaction can reach, the `==` of the code and `>=` give the same answer *)
Theorem depth_eq_equiv_ge : forall c f pre s size, limits_on f = true ->
  run c f state0 pre 0 = inl s -> before_invoke c s size = before_invoke_ge c s size.
Proof.
  intros c f pre s size Hf H.
  assert (depth s <= max_call_depth c) as Hd
    by (eapply run_depth_le; [exact Hf|exact H|unfold state0; cbn [depth]; lia]).
  unfold before_invoke, before_invoke_ge.
  destruct (N.eqb_spec (depth s) (max_call_depth c)); destruct (N.leb_spec (max_call_depth c) (depth s)); try reflexivity; lia.
Qed.
