(* C38 — soundness of the id-set part of the bound algebra (ResourceBounds::mut_add / mut_take /
   mut_handle_assertion): each abstract operation over-approximates the concrete operation on a
   non-fungible balance (a duplicate-free id list). *)
From Coq Require Import List ZArith NArith Bool Lia.
Import ListNotations.
Require Import RV.Model.C37_Constraint RV.Proof.C37_Constraint RV.Model.C38_Bounds RV.Proof.C38_Bounds.
Open Scope Z_scope.

(* concretisation of a general constraint for a non-fungible balance *)
Definition gammaNF (g : general) (ids : idset) : Prop := NoDup ids /\ SatG g ids.

Lemma NoDup_app_intro : forall A (a b : list A), NoDup a -> NoDup b ->
  (forall x, In x a -> In x b -> False) -> NoDup (a ++ b).
Proof.
  induction a as [|h t IH]; intros b Ha Hb Hd; [exact Hb|]. inversion Ha; subst. cbn. constructor.
  - intro Hin. apply in_app_iff in Hin. destruct Hin as [Hin|Hin]; [contradiction | apply (Hd h (or_introl eq_refl) Hin)].
  - apply IH; [assumption | exact Hb|]. intros x Hx Hy. apply (Hd x (or_intror Hx) Hy).
Qed.

(* ---- id-set facts --------------------------------------------------------------------------------------- *)
Lemma minus_In : forall a b x, In x (minus_ids a b) <-> In x a /\ ~ In x b.
Proof. intros a b x; unfold minus_ids. rewrite filter_In, negb_true_iff, mem_false. tauto. Qed.
Lemma inter_In : forall a b x, In x (inter_ids a b) <-> In x a /\ In x b.
Proof. intros a b x; unfold inter_ids. rewrite filter_In, mem_In. tauto. Qed.
Lemma extend_In : forall a b x, In x (extend_ids a b) <-> In x a \/ In x b.
Proof.
  intros a b x; unfold extend_ids. rewrite in_app_iff, minus_In. split; [tauto|].
  intros [H|H]; [left; exact H|]. destruct (mem x a) eqn:E; [left; apply mem_In; exact E | right; split; [exact H | apply mem_false; exact E]].
Qed.
Lemma NoDup_minus : forall a b, NoDup a -> NoDup (minus_ids a b).
Proof. intros; unfold minus_ids; apply NoDup_filter; assumption. Qed.
Lemma NoDup_extend : forall a b, NoDup a -> NoDup b -> NoDup (extend_ids a b).
Proof.
  intros a b Ha Hb. unfold extend_ids. apply NoDup_app_intro; [exact Ha | apply NoDup_minus; exact Hb|].
  intros x Hx Hy. apply minus_In in Hy. tauto.
Qed.
Lemma disjoint_spec : forall a b, disjoint_ids a b = true <-> forall x, In x b -> ~ In x a.
Proof.
  intros a b; unfold disjoint_ids. rewrite forallb_forall. split; intros H x Hx.
  - apply mem_false, negb_true_iff, H, Hx.
  - apply negb_true_iff, mem_false, H, Hx.
Qed.
Lemma filter_split_len : forall A (f : A -> bool) l,
  (length (filter f l) + length (filter (fun x => negb (f x)) l) = length l)%nat.
Proof. induction l as [|h t IH]; [reflexivity|]. cbn. destruct (f h); cbn; lia. Qed.
(* |x \ taken| = |x| - |taken| when taken ⊆ x, both duplicate-free *)
Lemma len_minus : forall x taken, NoDup x -> NoDup taken -> incl taken x ->
  len (minus_ids x taken) = len x - len taken.
Proof.
  intros x taken Hx Ht Hi. unfold len, minus_ids.
  pose proof (filter_split_len _ (fun i => mem i taken) x) as Hs.
  assert (He : length (filter (fun i => mem i taken) x) = length taken).
  { apply Nat.le_antisymm.
    - apply NoDup_incl_length; [apply NoDup_filter; exact Hx|]. intros i Hin. apply filter_In in Hin. apply mem_In, Hin.
    - apply NoDup_incl_length; [exact Ht|]. intros i Hin. apply filter_In. split; [apply Hi; exact Hin | apply mem_In; exact Hin]. }
  lia.
Qed.

(* ---- normalize is sound (one direction needs no validity) ------------------------------------------------- *)
Lemma normalize_sound : forall g ids, NoDup (required g) -> NoDup ids -> SatG g ids -> SatG (normalize g) ids.
Proof.
  intros g ids Hnr Hni [HL [HU [HR HA]]].
  set (a := len ids * SCALE) in *.
  assert (Hreq : dec_of_len (required g) <= a) by (unfold dec_of_len, a; apply scale_le, card_incl; assumption).
  assert (Hall : forall l, allowed_ids g = Allowlist l -> a <= dec_of_len l).
  { intros l Hl. rewrite Hl in HA. cbn in HA. unfold dec_of_len, a. apply scale_le, card_incl; assumption. }
  assert (HL1 : SatLower (lb1 g) a) by (apply sat_lb1; assumption).
  assert (HU1 : SatUpper (ub1 g) a) by (apply sat_ub1; assumption).
  rewrite normalize_unfold.
  destruct (allowlist_equivalent_length (allowed_ids g) >? len (required g)).
  - destruct (dec_of_len (required g) =? upper_eq (ub1 g)) eqn:C2.
    + apply Z.eqb_eq in C2. unfold SatG; cbn [lb ub required allowed_ids SatAllowed]. fold a.
      split; [exact HL1|]. split; [exact HU1|]. split; [exact HR|].
      assert (Hle : a <= dec_of_len (required g)).
      { rewrite C2. destruct (ub1 g) as [d|] eqn:EU; cbn [upper_eq SatUpper] in *; [exact HU1|].
        exfalso. unfold dec_of_len in C2. apply (scale_ne_max _ C2). }
      unfold a, dec_of_len in Hle. apply -> scale_le in Hle. apply card_incl_rev; assumption.
    + destruct (allowed_ids g) as [l|] eqn:EA.
      * destruct (dec_of_len l =? lower_eq (lb1 g)) eqn:C3.
        -- apply Z.eqb_eq in C3. unfold SatG; cbn [lb ub required allowed_ids SatAllowed]. fold a. try rewrite EA.
           split; [exact HL1|]. split; [exact HU1|]. split; [|exact HA].
           assert (Hle : dec_of_len l <= a).
           { rewrite C3. destruct (lb1 g) as [|d] eqn:EL; cbn [lower_eq SatLower] in *; [|exact HL1].
             exfalso. unfold dec_of_len in C3. apply (scale_ne_one _ C3). }
           unfold a, dec_of_len in Hle. apply -> scale_le in Hle. cbn in HA. apply card_incl_rev; assumption.
        -- unfold SatG; cbn [lb ub required allowed_ids]. fold a. try rewrite EA. tauto.
      * unfold SatG; cbn [lb ub required allowed_ids]. fold a. try rewrite EA. tauto.
  - unfold SatG; cbn [lb ub required allowed_ids]. fold a. tauto.
Qed.
(* normalize keeps the required set duplicate-free when the sets of the input are *)
Lemma gamma_normalize : forall g ids, NoDup (required g) -> gammaNF g ids -> gammaNF (normalize g) ids.
Proof. intros g ids Hr [Hn Hs]. split; [exact Hn | apply normalize_sound; assumption]. Qed.

Lemma gamma_num : forall g ids, gammaNF g ids -> gamma (lb g) (ub g) (len ids * SCALE).
Proof.
  intros g ids [_ [HL [HU _]]]. split; [|split; assumption]. pose proof (card_nonneg ids). unfold SCALE. lia.
Qed.

(* ---- put / merge: disjoint balances are concatenated ------------------------------------------------------ *)
Theorem bounds_add_sound : forall g1 g2 g x y,
  gammaNF g1 x -> gammaNF g2 y -> (forall i, In i x -> ~ In i y) ->
  NoDup (required g1) -> NoDup (required g2) ->
  bounds_add g1 g2 = GOk g -> gammaNF g (x ++ y).
Proof.
  intros g1 g2 g x y G1 G2 Hd Hr1 Hr2 H. unfold bounds_add in H.
  destruct (lower_add_from (lb g1) (lb g2)) as [l| | |] eqn:EL; try discriminate.
  destruct (upper_add_from (ub g1) (ub g2)) as [u| | |] eqn:EU; try discriminate.
  destruct (disjoint_ids (required g1) (required g2)) eqn:ED; [|discriminate]. cbn [negb] in H. inversion H; subst g; clear H.
  pose proof (add_sound _ _ _ _ _ _ _ _ (gamma_num _ _ G1) (gamma_num _ _ G2) EL EU) as [_ [HL HU]].
  destruct G1 as [Nx [_ [_ [R1 A1]]]]. destruct G2 as [Ny [_ [_ [R2 A2]]]].
  assert (Nxy : NoDup (x ++ y)) by (apply NoDup_app_intro; assumption).
  apply gamma_normalize.
  - cbn [required]. apply NoDup_app_intro; [exact Hr1 | exact Hr2|].
    intros i H1 H2. apply (proj1 (disjoint_spec _ _) ED i H2 H1).
  - split; [exact Nxy|]. unfold SatG; cbn [lb ub required allowed_ids].
    assert (Hlen : len (x ++ y) * SCALE = len x * SCALE + len y * SCALE) by (unfold len; rewrite app_length; lia).
    rewrite Hlen. split; [exact HL|]. split; [exact HU|]. split.
    + intros i Hi. apply in_app_iff. apply in_app_iff in Hi. destruct Hi as [Hi|Hi]; [left; apply R1 | right; apply R2]; exact Hi.
    + destruct (allowed_ids g1) as [a|]; [|exact I]. destruct (allowed_ids g2) as [b|]; [|exact I].
      cbn in *. intros i Hi. apply extend_In. apply in_app_iff in Hi. destruct Hi as [Hi|Hi]; [left; apply A1 | right; apply A2]; exact Hi.
Qed.

(* ---- take specific ids that the balance contains -------------------------------------------------------- *)
Theorem bounds_take_ids_sound : forall g g' x taken,
  gammaNF g x -> NoDup taken -> incl taken x -> NoDup (required g) ->
  bounds_take_ids g taken = GOk g' -> gammaNF g' (minus_ids x taken).
Proof.
  intros g g' x taken G Ht Hi Hr H. unfold bounds_take_ids in H.
  destruct (lower_take_amount (lb g) (dec_of_len taken)) as [l| | |] eqn:EL; try discriminate.
  destruct (upper_take_amount (ub g) (dec_of_len taken)) as [u| | |] eqn:EU; try discriminate.
  assert (Hx : NoDup x) by apply G.
  assert (Hrange : 0 <= dec_of_len taken <= len x * SCALE).
  { unfold dec_of_len. pose proof (card_nonneg taken). split; [unfold SCALE; lia|]. apply scale_le, card_incl; assumption. }
  destruct (take_sound _ _ _ _ (gamma_num _ _ G) Hrange) as [_ Hts]. specialize (Hts l u EL EU). destruct Hts as [_ [HL HU]].
  assert (Hlen : len (minus_ids x taken) * SCALE = len x * SCALE - dec_of_len taken).
  { rewrite (len_minus x taken Hx Ht Hi). unfold dec_of_len, SCALE. lia. }
  destruct G as [_ [_ [_ [R A]]]].
  destruct (match allowed_ids g with Allowlist a => if negb (is_subset taken a) then None else Some (Allowlist (minus_ids a taken)) | AnyIds => Some AnyIds end)
    as [al|] eqn:EA; [|discriminate].
  destruct (dec_of_len (minus_ids (required g) taken) >? lower_eq l); [discriminate|]. inversion H; subst g'; clear H.
  apply gamma_normalize; [cbn [required]; apply NoDup_minus; exact Hr|].
  split; [apply NoDup_minus; exact Hx|]. unfold SatG; cbn [lb ub required allowed_ids]. rewrite Hlen.
  split; [exact HL|]. split; [exact HU|]. split.
  - intros i Hin. apply minus_In in Hin. apply minus_In. split; [apply R, Hin | apply Hin].
  - destruct (allowed_ids g) as [a|]; [|inversion EA; subst; exact I].
    destruct (negb (is_subset taken a)); [discriminate|]. inversion EA; subst al. cbn in *.
    intros i Hin. apply minus_In in Hin. apply minus_In. split; [apply A, Hin | apply Hin].
Qed.
(* ... and a take that the balance can provide is never reported as unsatisfiable by the numeric or
   allow-list checks (the remaining check, |required \ taken| <= lower', can reject: see C38 notes) *)
Theorem bounds_take_ids_allowlist_ok : forall g x taken a, gammaNF g x -> incl taken x ->
  allowed_ids g = Allowlist a -> is_subset taken a = true.
Proof.
  intros g x taken a [_ [_ [_ [_ A]]]] Hi Ha. rewrite Ha in A. cbn in A.
  apply is_subset_incl. intros i Hin. apply A, Hi, Hin.
Qed.

(* ---- take an amount (k whole units of unknown identity) ---------------------------------------------------- *)
Theorem bounds_take_amount_sound : forall g g' x x' t,
  gammaNF g x -> NoDup x' -> incl x' x -> 0 <= t -> len x' * SCALE = len x * SCALE - t -> NoDup (required g) ->
  bounds_take_amount g t = GOk g' -> gammaNF g' x'.
Proof.
  intros g g' x x' t G Nx' Hi Ht Hlen Hr H. unfold bounds_take_amount in H.
  destruct (t <? 0) eqn:En; [discriminate|].
  destruct (lower_take_amount (lb g) t) as [l| | |] eqn:EL; try discriminate.
  destruct (upper_take_amount (ub g) t) as [u| | |] eqn:EU; try discriminate. inversion H; subst g'; clear H.
  assert (Hrange : 0 <= t <= len x * SCALE) by (pose proof (card_nonneg x'); unfold SCALE in *; lia).
  destruct (take_sound _ _ _ _ (gamma_num _ _ G) Hrange) as [_ Hts]. specialize (Hts l u EL EU). destruct Hts as [_ [HL HU]].
  destruct G as [Nx [_ [_ [R A]]]].
  apply gamma_normalize; [cbn [required]; destruct (0 <? t); [constructor | exact Hr]|].
  split; [exact Nx'|]. unfold SatG; cbn [lb ub required allowed_ids]. rewrite Hlen.
  split; [exact HL|]. split; [exact HU|]. split.
  - destruct (0 <? t) eqn:E0; [intros i []|]. apply Z.ltb_ge in E0. assert (t = 0) by lia. subst t.
    (* nothing taken: x' has the same size as x and is included in it, so it is x as a set *)
    assert (Hc : len x <= len x') by (unfold SCALE in Hlen; lia).
    intros i Hin. apply (card_incl_rev x' x Nx' Hc Hi). apply R, Hin.
  - destruct (allowed_ids g) as [a|]; [|exact I]. cbn in *. intros i Hin. apply A, Hi, Hin.
Qed.

(* ---- an assertion that the balance passes ----------------------------------------------------------------- *)
Theorem bounds_assert_sound : forall g a g' x,
  gammaNF g x -> SatG a x -> NoDup (required g) -> NoDup (required a) ->
  bounds_assert g a = GOk g' -> gammaNF g' x.
Proof.
  intros g a g' x G Sa Hr Hra H. unfold bounds_assert in H.
  destruct (match allowed_ids a with
            | Allowlist aal => if negb (is_subset (required g) aal) then None
                               else Some (match allowed_ids g with AnyIds => Allowlist aal | Allowlist x0 => Allowlist (inter_ids x0 aal) end)
            | AnyIds => Some (allowed_ids g) end) as [al|] eqn:EA; [|discriminate].
  destruct (lower_eq (lower_constrain_to (lb g) (lb a)) >? upper_eq (upper_constrain_to (ub g) (ub a))); [discriminate|].
  assert (Hg : gammaNF (mkGeneral (extend_ids (required g) (required a)) (lower_constrain_to (lb g) (lb a))
                          (upper_constrain_to (ub g) (ub a)) al) x).
  { destruct Sa as [SL [SU [SR SA]]].
    pose proof (constrain_sound _ _ _ _ _ (gamma_num _ _ G) SL SU) as [_ [HL HU]].
    destruct G as [Nx [_ [_ [R A]]]]. split; [exact Nx|]. unfold SatG; cbn [lb ub required allowed_ids].
    split; [exact HL|]. split; [exact HU|]. split.
    - intros i Hin. apply extend_In in Hin. destruct Hin as [Hin|Hin]; [apply R | apply SR]; exact Hin.
    - destruct (allowed_ids a) as [aal|].
      + destruct (negb (is_subset (required g) aal)); [discriminate|]. inversion EA; subst al; clear EA.
        cbn in SA. destruct (allowed_ids g) as [x0|]; cbn in *; [|exact SA].
        intros i Hin. apply inter_In. split; [apply A | apply SA]; exact Hin.
      + inversion EA; subst al. exact A. }
  assert (Hn : NoDup (extend_ids (required g) (required a))) by (apply NoDup_extend; assumption).
  destruct al as [x0|].
  - destruct (upper_eq (upper_constrain_to (ub g) (ub a)) >? dec_of_len x0); [discriminate|]. inversion H; subst g'.
    apply gamma_normalize; [exact Hn | exact Hg].
  - inversion H; subst g'. apply gamma_normalize; [exact Hn | exact Hg].
Qed.
